(* Proofs/C05_hessian.v -- `hessian` applied to a program of n variables returns the value, the gradient and the matrix of SECOND PARTIAL
   derivatives of the real function the program computes.  Route: the Dual2Vec evaluation on the hessian seeds agrees part by part with the HyperDual
   evaluation on the seeds (x_k, delta_ki, delta_kj, 0) (C04: agreeR_Dual2Vec_HyperDual i j), whose eps1eps2 part is the mixed second derivative along
   the two-parameter family x + (s - x_i) e_i + (t - x_j) e_j (C03: mixed_second_order).  i = j gives the pure second derivative. *)
From ND Require Import Tactics C02_proofs C01_towers C01_faa C07_proofs C09_proofs Prog Agree C04_inst C04_proofs C04_nested C03_proofs C03_second C03_third C03_mixed C03_mixed3 C04_real
  Drivers C05_proofs C05_programs.
Local Open Scope R_scope.

(* x moved by (s - x_i) along e_i and by (t - x_j) along e_j *)
Definition shift2 (x : list R) (i j : nat) (xi xj s t : R) : list R := mapi (fun k xk => xk + delta k i * (s - xi) + delta k j * (t - xj)) x.
Lemma mapi_from_id {A} (f : nat -> A -> A) (l : list A) : forall m, (forall k a, f k a = a) -> mapi_from f m l = l.
Proof. induction l as [|a l IH]; intros m H; simpl; [reflexivity|]. rewrite H, IH by exact H. reflexivity. Qed.
Lemma shift2_base x i j xi xj : shift2 x i j xi xj xi xj = x.
Proof. unfold shift2, mapi. apply mapi_from_id. intros k a. ring. Qed.
Lemma delta_sym a b : delta a b = delta b a.
Proof. unfold delta. rewrite Nat.eqb_sym. reflexivity. Qed.
Lemma re_seed_hessian (x : list R) : map (fun s => part_Dual2Vec s nil) (seed_hessian x) = x.
Proof. unfold seed_hessian, mapi. rewrite mapi_from_map. apply mapi_from_id. intros; reflexivity. Qed.

Lemma hessian_seed_rel (x : list R) i j :
  Forall2 (rel_Dual2Vec_HyperDual i j) (seed_hessian x) (mapi (fun k xk => mkHyperDual xk (delta k i) (delta k j) 0) x).
Proof.
  unfold seed_hessian at 1, mapi. apply Forall2_mapi_from. intros k xk Hk. cbv beta. rewrite Nat.add_0_l.
  destruct (seed_hessian_spec x k xk Hk) as [s [Hs [Hre [Hwf [H1 H2]]]]].
  unfold seed_hessian in Hs. rewrite nth_error_mapi, Hk in Hs. simpl in Hs. inversion Hs as [Hs']. clear Hs.
  match goal with |- rel_Dual2Vec_HyperDual _ _ ?a _ => replace a with s by (symmetry; exact Hs') end. clear Hs'.
  split; [exact Hwf|]. split; [exact I|]. intros S F. unfold fam_c04_HyperDual in F. in_cases F; cbn [map]; unfold f_ij; cbn [Nat.eqb].
  - symmetry. exact Hre.
  - rewrite H1. apply delta_sym.
  - rewrite H1. apply delta_sym.
  - rewrite H2. reflexivity.
Qed.

Lemma wf_seed_from (n : nat) (l : list R) : forall m,
  List.Forall wf_Dual2Vec (mapi_from (fun i xi => set_v1 (Derivative_derivative_generic 1 n i) (Dual2Vec_from_re xi)) m l).
Proof. induction l as [|a l IH]; intros m; simpl; [constructor|]. constructor; [reflexivity | apply IH]. Qed.
Lemma wf_seed_hessian (x : list R) : List.Forall wf_Dual2Vec (seed_hessian x).
Proof. unfold seed_hessian, mapi. apply wf_seed_from. Qed.
Lemma relR_all (l : list (Dual2Vec R)) : List.Forall wf_Dual2Vec l ->
  Forall2 (relR (part:=part_Dual2Vec) (wf:=wf_Dual2Vec) (fun _ : unit => 0%nat)) l (map (fun s => part_Dual2Vec s nil) l).
Proof. induction l as [|a l IH]; intros HW; cbn [map]; [constructor|]. inversion HW; subst. constructor; [apply (relR_intro (part:=part_Dual2Vec) (wf:=wf_Dual2Vec)); assumption|apply IH; assumption]. Qed.
Lemma hessian_seed_repH (x : list R) i j xi xj :
  Forall2 (RepH xi xj) (mapi (fun k xk => fun s t : R => xk + delta k i * (s - xi) + delta k j * (t - xj)) x)
                       (mapi (fun k xk => mkHyperDual xk (delta k i) (delta k j) 0) x).
Proof.
  unfold mapi. apply Forall2_mapi_from. intros k xk Hk. cbv beta. rewrite Nat.add_0_l.
  split; [simpl; ring|]. exists (fun _ => delta k j). split; [|split; [|split]].
  - apply locally_true. intros s. auto_derive; [exact I|]. ring.
  - simpl. auto_derive; [exact I|]. ring.
  - reflexivity.
  - apply (is_derive_const (V:=R_NormedModule) (delta k j) xi).
Qed.

Theorem hessian_of_program p (x : list R) : okR x p ->
  exists G H, hessian (fun v => eval v p) x = (eval (T:=R) x p, G, H) /\
    forall i j xi xj, nth_error x i = Some xi -> nth_error x j = Some xj ->
      let f := fun s t => eval (T:=R) (shift2 x i j xi xj s t) p in
      is_derive (fun s => f s xj) xi (mget G i 0) /\
      exists ft : R -> R, locally xi (fun s => is_derive (f s) xj (ft s)) /\ mget G j 0 = ft xi /\ is_derive ft xi (mget H i j).
Proof.
  intros Hok. set (res := eval (seed_hessian x) p).
  destruct (hessian_extract infallible (fun a => Ok (eval a p)) x res eq_refl) as [v [G [H [E [Ev [EG EH]]]]]].
  exists G, H. split.
  - unfold hessian. rewrite E. simpl. rewrite Ev. f_equal. f_equal.
    assert (F0 : fam_c04_Dual2Vec nil) by (exists 0%nat, 0%nat; simpl; auto).
    assert (HR : Forall2 (relR (part:=part_Dual2Vec) (wf:=wf_Dual2Vec) (fun _ : unit => 0%nat)) (seed_hessian x) x).
    { rewrite <- (re_seed_hessian x) at 2. apply relR_all. apply wf_seed_hessian. }
    assert (Hex : exps (fun n => True /\ True) p) by (apply (exps_imp (fun _ => True)); [tauto|apply exps_true]).
    destruct (re_eval JA_c04_Dual2Vec F0 (fun _ => 0%nat) (fun _ => True) p _ _ HR Hok Hex) as [_ RR]. apply (relR_re _ _ _ RR).
  - intros i j xi xj Hi Hj f.
    set (envV := mapi (fun k xk => fun s t : R => xk + delta k i * (s - xi) + delta k j * (t - xj)) x).
    set (envH := mapi (fun k xk => mkHyperDual xk (delta k i) (delta k j) 0) x).
    assert (Hat : forall s t, at_st envV s t = shift2 x i j xi xj s t).
    { intros s t. unfold at_st, envV, shift2, mapi. rewrite mapi_from_map. reflexivity. }
    assert (Hok1 : okR (map (fun s => part_Dual2Vec s nil) (seed_hessian x)) p) by (rewrite re_seed_hessian; exact Hok).
    assert (Hok2 : okR (at_st envV xi xj) p) by (rewrite Hat, shift2_base; exact Hok).
    destruct (agreeR_Dual2Vec_HyperDual i j p _ _ (hessian_seed_rel x i j) Hok1) as [_ [_ Hp]]. fold res in Hp. fold envH in Hp.
    pose proof (mixed_second_order xi xj p envV envH (hessian_seed_repH x i j xi xj) Hok2) as RH.
    assert (RH' : RepH xi xj f (eval envH p)).
    { apply (repH_ext_loc xi xj _ _ _ RH). apply locally_true; intros s; apply locally_true; intros t. rewrite Hat. reflexivity. }
    destruct RH' as [_ [ft [L [D1 [E2 D12]]]]].
    destruct (hd_parts (eval envH p)) as [_ [Q1 [Q2 Q12]]].
    assert (F1 : fam_c04_HyperDual (1 :: nil)%nat) by (unfold fam_c04_HyperDual; simpl; auto).
    assert (F2 : fam_c04_HyperDual (2 :: nil)%nat) by (unfold fam_c04_HyperDual; simpl; auto).
    assert (F12 : fam_c04_HyperDual (1 :: 2 :: nil)%nat) by (unfold fam_c04_HyperDual; simpl; auto).
    pose proof (Hp _ F1) as P1. pose proof (Hp _ F2) as P2. pose proof (Hp _ F12) as P12.
    cbn [map] in P1, P2, P12. unfold f_ij in P1, P2, P12. cbn [Nat.eqb] in P1, P2, P12.
    rewrite Q1 in P1. rewrite Q2 in P2. rewrite Q12 in P12.
    split; [rewrite EG, <- P1; exact D1|]. exists ft. split; [exact L|]. split; [rewrite EG, <- P2; exact E2|]. rewrite EH, <- P12. exact D12.
Qed.

(* ---- partial_hessian: programs over x ++ y; entry (i, j) of the matrix is d2 f / dx_i dy_j ---- *)
Lemma re_seed_ph_x (x : list R) : map (fun s => part_HyperDualVec s nil) (seed_ph_x x) = x.
Proof. unfold seed_ph_x, mapi. rewrite mapi_from_map. apply mapi_from_id. intros; reflexivity. Qed.
Lemma re_seed_ph_y (y : list R) : map (fun s => part_HyperDualVec s nil) (seed_ph_y y) = y.
Proof. unfold seed_ph_y, mapi. rewrite mapi_from_map. apply mapi_from_id. intros; reflexivity. Qed.

Lemma nth_error_same {A} (l : list A) k a b : nth_error l k = Some a -> nth_error l k = Some b -> a = b.
Proof. intros H1 H2. rewrite H1 in H2. inversion H2. reflexivity. Qed.

Lemma ph_seed_rel_x (x : list R) i j xi : nth_error x i = Some xi ->
  Forall2 (rel_HyperDualVec_HyperDual i j) (seed_ph_x x) (mapi (fun k xk => mkHyperDual xk (delta k i) 0 0) x).
Proof.
  intros Hi. assert (Hil : (i < length x)%nat) by (apply nth_error_Some; congruence).
  unfold seed_ph_x at 1, mapi. apply Forall2_mapi_from. intros k xk Hk. cbv beta. rewrite Nat.add_0_l.
  destruct (seed_partial_hessian_spec x x k xk Hk) as [s [Hs [Hre [Hwf [H1 [H2 H12]]]]]].
  unfold seed_ph_x in Hs. rewrite nth_error_mapi, Hk in Hs. simpl in Hs. inversion Hs as [Hs']. clear Hs.
  match goal with |- rel_HyperDualVec_HyperDual _ _ ?a _ => replace a with s by (symmetry; exact Hs') end. clear Hs'.
  split; [exact Hwf|]. split; [exact I|]. intros S F. unfold fam_c04_HyperDual in F. in_cases F; cbn [map]; unfold f_ij; cbn [Nat.eqb].
  - symmetry. exact Hre.
  - rewrite (H1 i Hil). apply delta_sym.
  - rewrite H2. reflexivity.
  - rewrite H12. reflexivity.
Qed.
Lemma ph_seed_rel_y (y : list R) i j :
  Forall2 (rel_HyperDualVec_HyperDual i j) (seed_ph_y y) (mapi (fun k yk => mkHyperDual yk 0 (delta k j) 0) y).
Proof.
  unfold seed_ph_y at 1, mapi. apply Forall2_mapi_from. intros k yk Hk. cbv beta. rewrite Nat.add_0_l.
  destruct (seed_partial_hessian_spec_y y k yk Hk) as [s [Hs [Hre [Hwf [H2 [H1 H12]]]]]].
  unfold seed_ph_y in Hs. rewrite nth_error_mapi, Hk in Hs. simpl in Hs. inversion Hs as [Hs']. clear Hs.
  match goal with |- rel_HyperDualVec_HyperDual _ _ ?a _ => replace a with s by (symmetry; exact Hs') end. clear Hs'.
  split; [exact Hwf|]. split; [exact I|]. intros S F. unfold fam_c04_HyperDual in F. in_cases F; cbn [map]; unfold f_ij; cbn [Nat.eqb].
  - symmetry. exact Hre.
  - rewrite H1. reflexivity.
  - rewrite H2. apply delta_sym.
  - rewrite H12. reflexivity.
Qed.
Lemma ph_seed_repH_x (x : list R) i xi yj : nth_error x i = Some xi ->
  Forall2 (RepH xi yj) (mapi (fun k xk => fun s t : R => if Nat.eqb k i then s else xk) x) (mapi (fun k xk => mkHyperDual xk (delta k i) 0 0) x).
Proof.
  intros Hi. unfold mapi. apply Forall2_mapi_from. intros k xk Hk. cbv beta. rewrite Nat.add_0_l. unfold delta.
  destruct (Nat.eqb_spec k i) as [->|Hne].
  - pose proof (nth_error_same _ _ _ _ Hk Hi) as ->.
    split; [reflexivity|]. exists (fun _ => 0). split; [|split; [|split]].
    + apply locally_true. intros s. apply (is_derive_const (V:=R_NormedModule) s yj).
    + apply (is_derive_id (K:=R_AbsRing) xi).
    + reflexivity.
    + apply (is_derive_const (V:=R_NormedModule) 0 xi).
  - split; [reflexivity|]. exists (fun _ => 0). split; [|split; [|split]].
    + apply locally_true. intros s. apply (is_derive_const (V:=R_NormedModule) xk yj).
    + apply (is_derive_const (V:=R_NormedModule) xk xi).
    + reflexivity.
    + apply (is_derive_const (V:=R_NormedModule) 0 xi).
Qed.
Lemma ph_seed_repH_y (y : list R) j xi yj : nth_error y j = Some yj ->
  Forall2 (RepH xi yj) (mapi (fun k yk => fun s t : R => if Nat.eqb k j then t else yk) y) (mapi (fun k yk => mkHyperDual yk 0 (delta k j) 0) y).
Proof.
  intros Hj. unfold mapi. apply Forall2_mapi_from. intros k yk Hk. cbv beta. rewrite Nat.add_0_l. unfold delta.
  destruct (Nat.eqb_spec k j) as [->|Hne].
  - pose proof (nth_error_same _ _ _ _ Hk Hj) as ->.
    split; [reflexivity|]. exists (fun _ => 1). split; [|split; [|split]].
    + apply locally_true. intros s. apply (is_derive_id (K:=R_AbsRing) yj).
    + apply (is_derive_const (V:=R_NormedModule) yj xi).
    + reflexivity.
    + apply (is_derive_const (V:=R_NormedModule) 1 xi).
  - split; [reflexivity|]. exists (fun _ => 0). split; [|split; [|split]].
    + apply locally_true. intros s. apply (is_derive_const (V:=R_NormedModule) yk yj).
    + apply (is_derive_const (V:=R_NormedModule) yk xi).
    + reflexivity.
    + apply (is_derive_const (V:=R_NormedModule) 0 xi).
Qed.

Lemma Forall_nth {A} (P : A -> Prop) (l : list A) : (forall k a, nth_error l k = Some a -> P a) -> List.Forall P l.
Proof. intros H. apply Forall_forall. intros a Hin. destruct (In_nth_error _ _ Hin) as [k Hk]. exact (H k a Hk). Qed.
Lemma wf_seed_ph_x (x : list R) : List.Forall wf_HyperDualVec (seed_ph_x x).
Proof.
  apply Forall_nth. intros k s Hs. pose proof Hs as Hs0. unfold seed_ph_x in Hs. rewrite nth_error_mapi in Hs.
  destruct (nth_error x k) as [xk|] eqn:Hk; [|discriminate Hs].
  destruct (seed_partial_hessian_spec x x k xk Hk) as [s' [Hs' [_ [Hwf _]]]]. rewrite Hs0 in Hs'. inversion Hs'. subst s'. exact Hwf.
Qed.
Lemma wf_seed_ph_y (y : list R) : List.Forall wf_HyperDualVec (seed_ph_y y).
Proof.
  apply Forall_nth. intros k s Hs. pose proof Hs as Hs0. unfold seed_ph_y in Hs. rewrite nth_error_mapi in Hs.
  destruct (nth_error y k) as [yk|] eqn:Hk; [|discriminate Hs].
  destruct (seed_partial_hessian_spec_y y k yk Hk) as [s' [Hs' [_ [Hwf _]]]]. rewrite Hs0 in Hs'. inversion Hs'. subst s'. exact Hwf.
Qed.
Lemma relR_all_HDV (l : list (HyperDualVec R)) : List.Forall wf_HyperDualVec l ->
  Forall2 (relR (part:=part_HyperDualVec) (wf:=wf_HyperDualVec) (fun _ : unit => inl 0%nat)) l (map (fun s => part_HyperDualVec s nil) l).
Proof.
  induction l as [|a l IH]; intros HW; cbn [map]; [constructor|]. inversion HW; subst.
  constructor; [apply (relR_intro (part:=part_HyperDualVec) (wf:=wf_HyperDualVec)); assumption|apply IH; assumption].
Qed.

Theorem partial_hessian_of_program p (x y : list R) : okR (x ++ y) p ->
  exists Gx Gy H, partial_hessian (fun a b => eval (a ++ b) p) x y = (eval (T:=R) (x ++ y) p, Gx, Gy, H) /\
    forall i j xi yj, nth_error x i = Some xi -> nth_error y j = Some yj ->
      let f := fun s t => eval (T:=R) (replace_at x i s ++ replace_at y j t) p in
      is_derive (fun s => f s yj) xi (mget Gx i 0) /\
      exists ft : R -> R, locally xi (fun s => is_derive (f s) yj (ft s)) /\ mget Gy j 0 = ft xi /\ is_derive ft xi (mget H i j).
Proof.
  intros Hok. set (res := eval (seed_ph_x x ++ seed_ph_y y) p).
  destruct (partial_hessian_extract infallible (fun a b => Ok (eval (a ++ b) p)) x y res eq_refl) as [v [Gx [Gy [H [E [Ev [EGx [EGy EH]]]]]]]].
  assert (Hre : map (fun s => part_HyperDualVec s nil) (seed_ph_x x ++ seed_ph_y y) = x ++ y) by (rewrite map_app, re_seed_ph_x, re_seed_ph_y; reflexivity).
  exists Gx, Gy, H. split.
  - unfold partial_hessian. rewrite E. simpl. rewrite Ev. f_equal. f_equal. f_equal.
    assert (F0 : fam_c04_HyperDualVec nil) by (exists 0%nat, 0%nat; simpl; auto).
    assert (HR : Forall2 (relR (part:=part_HyperDualVec) (wf:=wf_HyperDualVec) (fun _ : unit => inl 0%nat)) (seed_ph_x x ++ seed_ph_y y) (x ++ y)).
    { rewrite <- Hre. apply relR_all_HDV. apply Forall_app. split; [apply wf_seed_ph_x|apply wf_seed_ph_y]. }
    assert (Hex : exps (fun n => True /\ True) p) by (apply (exps_imp (fun _ => True)); [tauto|apply exps_true]).
    destruct (re_eval JA_c04_HyperDualVec F0 (fun _ => inl 0%nat) (fun _ => True) p _ _ HR Hok Hex) as [_ RR]. apply (relR_re _ _ _ RR).
  - intros i j xi yj Hi Hj f.
    set (envV := mapi (fun k xk => fun s t : R => if Nat.eqb k i then s else xk) x ++ mapi (fun k yk => fun s t : R => if Nat.eqb k j then t else yk) y).
    set (envH := mapi (fun k xk => mkHyperDual xk (delta k i) 0 0) x ++ mapi (fun k yk => mkHyperDual yk 0 (delta k j) 0) y).
    assert (Hat : forall s t, at_st envV s t = replace_at x i s ++ replace_at y j t).
    { intros s t. unfold at_st, envV, replace_at, mapi. rewrite map_app, !mapi_from_map. reflexivity. }
    assert (Hok1 : okR (map (fun s => part_HyperDualVec s nil) (seed_ph_x x ++ seed_ph_y y)) p) by (rewrite Hre; exact Hok).
    assert (Hok2 : okR (at_st envV xi yj) p) by (rewrite Hat, (replace_at_same x i xi Hi), (replace_at_same y j yj Hj); exact Hok).
    assert (Hrel : Forall2 (rel_HyperDualVec_HyperDual i j) (seed_ph_x x ++ seed_ph_y y) envH).
    { apply Forall2_app; [apply (ph_seed_rel_x x i j xi Hi)|apply ph_seed_rel_y]. }
    assert (HrepH : Forall2 (RepH xi yj) envV envH).
    { apply Forall2_app; [apply (ph_seed_repH_x x i xi yj Hi)|apply (ph_seed_repH_y y j xi yj Hj)]. }
    destruct (agreeR_HyperDualVec_HyperDual i j p _ _ Hrel Hok1) as [_ [_ Hp]]. fold res in Hp.
    pose proof (mixed_second_order xi yj p envV envH HrepH Hok2) as RH.
    assert (RH' : RepH xi yj f (eval envH p)).
    { apply (repH_ext_loc xi yj _ _ _ RH). apply locally_true; intros s; apply locally_true; intros t. rewrite Hat. reflexivity. }
    destruct RH' as [_ [ft [L [D1 [E2 D12]]]]].
    destruct (hd_parts (eval envH p)) as [_ [Q1 [Q2 Q12]]].
    assert (F1 : fam_c04_HyperDual (1 :: nil)%nat) by (unfold fam_c04_HyperDual; simpl; auto).
    assert (F2 : fam_c04_HyperDual (2 :: nil)%nat) by (unfold fam_c04_HyperDual; simpl; auto).
    assert (F12 : fam_c04_HyperDual (1 :: 2 :: nil)%nat) by (unfold fam_c04_HyperDual; simpl; auto).
    pose proof (Hp _ F1) as P1. pose proof (Hp _ F2) as P2. pose proof (Hp _ F12) as P12.
    cbn [map] in P1, P2, P12. unfold f_ij in P1, P2, P12. cbn [Nat.eqb] in P1, P2, P12.
    rewrite Q1 in P1. rewrite Q2 in P2. rewrite Q12 in P12.
    split; [rewrite EGx, <- P1; exact D1|]. exists ft. split; [exact L|]. split; [rewrite EGy, <- P2; exact E2|]. rewrite EH, <- P12. exact D12.
Qed.

(* ---- third_partial_derivative on a program of three variables: the eight parts, eps1eps2eps3 = d/dx d/dy d/dz ---- *)
Theorem third_partial_derivative_of_program p x y z : okR (x :: y :: z :: nil) p ->
  let f := fun s t u => eval (T:=R) (s :: t :: u :: nil) p in
  exists fx fy fz fxy fxz fyz fxyz (vt : R -> R) (g3 : R -> R -> R) (gt : R -> R),
    third_partial_derivative (fun a b c => eval (a :: b :: c :: nil) p) x y z = (f x y z :: fx :: fy :: fz :: fxy :: fxz :: fyz :: fxyz :: nil) /\
    is_derive (fun s => f s y z) x fx /\ locally x (fun s => is_derive (fun t => f s t z) y (vt s)) /\ fy = vt x /\ is_derive vt x fxy /\
    locally x (fun s => locally y (fun t => is_derive (f s t) z (g3 s t))) /\ fz = g3 x y /\
    locally x (fun s => is_derive (g3 s) y (gt s)) /\ is_derive (fun s => g3 s y) x fxz /\ fyz = gt x /\ is_derive gt x fxyz.
Proof.
  intros Hok f.
  set (h := eval (mkHyperHyperDual x 1 0 0 0 0 0 0 :: mkHyperHyperDual y 0 1 0 0 0 0 0 :: mkHyperHyperDual z 0 0 1 0 0 0 0 :: nil) p).
  destruct (repT_parts x y z f h (third_partial_program p x y z Hok)) as [A [[vt [Lv [D1 [E2 D12]]]] [g3 [Lg [E3 [gt [Lgt [D13 [E23 D123]]]]]]]]].
  exists (HyperHyperDual_f_eps1 h), (HyperHyperDual_f_eps2 h), (HyperHyperDual_f_eps3 h), (HyperHyperDual_f_eps1eps2 h), (HyperHyperDual_f_eps1eps3 h),
    (HyperHyperDual_f_eps2eps3 h), (HyperHyperDual_f_eps1eps2eps3 h), vt, g3, gt.
  split; [|repeat (split; [assumption|]); assumption].
  match goal with |- _ = ?rhs => change (hhd_out h = rhs) end. unfold hhd_out. rewrite A. reflexivity.
Qed.

(* ---- third_partial_derivative_vec: any number of variables, any index triple (repeated indices included) ---- *)
Definition shift3 (x : list R) (i j k : nat) (xi xj xk s t u : R) : list R :=
  mapi (fun m xm => xm + delta m i * (s - xi) + delta m j * (t - xj) + delta m k * (u - xk)) x.
Lemma shift3_base x i j k xi xj xk : shift3 x i j k xi xj xk xi xj xk = x.
Proof. unfold shift3, mapi. apply mapi_from_id. intros m a. ring. Qed.
Lemma Forall2_nth {A B} (P : A -> B -> Prop) : forall (l1 : list A) (l2 : list B), length l1 = length l2 ->
  (forall m a b, nth_error l1 m = Some a -> nth_error l2 m = Some b -> P a b) -> Forall2 P l1 l2.
Proof.
  induction l1 as [|a l1 IH]; intros [|b l2] HL H; simpl in HL; try discriminate; constructor.
  - apply (H 0%nat a b); reflexivity.
  - apply IH; [lia|]. intros m a' b' Ha Hb. apply (H (S m) a' b'); assumption.
Qed.
Lemma length_seed_third_vec (x : list R) i j k : length (seed_third_vec x i j k) = length x.
Proof. unfold seed_third_vec, set_nth. rewrite !length_mapi, map_length. reflexivity. Qed.

Lemma third_vec_seed_repT (x : list R) i j k xi xj xk :
  Forall2 (RepT xi xj xk) (mapi (fun m xm => fun s t u : R => xm + delta m i * (s - xi) + delta m j * (t - xj) + delta m k * (u - xk)) x) (seed_third_vec x i j k).
Proof.
  apply Forall2_nth; [rewrite length_mapi, length_seed_third_vec; reflexivity|].
  intros m a b Ha Hb. rewrite nth_error_mapi in Ha. destruct (nth_error x m) as [xm|] eqn:Hm; [|discriminate Ha]. simpl in Ha. inversion Ha as [Ha']. clear Ha.
  destruct (seed_third_vec_spec x i j k m xm Hm) as [s [Hs [P0 [P1 [P2 [P3 [P12 [P13 [P23 P123]]]]]]]]].
  rewrite Hb in Hs. inversion Hs. subst s. clear Hs. cbn [part_HHD] in P0, P1, P2, P3, P12, P13, P23, P123.
  split.
  - split; [cbn [lo HyperDual_f_re]; rewrite P0; ring|]. exists (fun _ => delta m j). cbn [lo HyperDual_f_eps1 HyperDual_f_eps2 HyperDual_f_eps1eps2].
    rewrite P1, P2, P12. split; [|split; [|split]].
    + apply locally_true. intros s. auto_derive; [exact I|]. ring.
    + auto_derive; [exact I|]. ring.
    + reflexivity.
    + apply (is_derive_const (V:=R_NormedModule) (delta m j) xi).
  - exists (fun _ _ => delta m k). split.
    + apply loc2_true. intros s t. auto_derive; [exact I|]. ring.
    + apply (repH_heq xi xj _ (ofF (delta m k))); [apply repH_const|]. unfold heq, hi. cbn [HyperDual_f_re HyperDual_f_eps1 HyperDual_f_eps2 HyperDual_f_eps1eps2].
      rewrite P3, P13, P23, P123. rcbv. repeat split; reflexivity.
Qed.

Theorem third_partial_derivative_vec_of_program p (x : list R) i j k xi xj xk : okR x p ->
  exists h : HyperHyperDual R, third_partial_derivative_vec (fun v => eval v p) x i j k = hhd_out h /\
    RepT xi xj xk (fun s t u => eval (T:=R) (shift3 x i j k xi xj xk s t u) p) h.
Proof.
  intros Hok. exists (eval (seed_third_vec x i j k) p). split; [reflexivity|].
  set (envV := mapi (fun m xm => fun s t u : R => xm + delta m i * (s - xi) + delta m j * (t - xj) + delta m k * (u - xk)) x).
  assert (Hat : forall s t u, at_stu envV s t u = shift3 x i j k xi xj xk s t u).
  { intros s t u. unfold at_stu, envV, shift3, mapi. rewrite mapi_from_map. reflexivity. }
  assert (Hok' : okR (at_stu envV xi xj xk) p) by (rewrite Hat, shift3_base; exact Hok).
  apply (repT_ext xi xj xk _ _ _ (mixed_third_order xi xj xk p envV _ (third_vec_seed_repT x i j k xi xj xk) Hok')).
  intros s t u. rewrite Hat. reflexivity.
Qed.
