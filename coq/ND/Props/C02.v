(* Props/C02.v -- property C02: dual arithmetic is the exact truncated Taylor algebra.
   Only statements, `exact` proofs, statement pins and axiom reports live here. *)
From ND Require Import Tactics C02_proofs.
Local Open Scope R_scope.

(* ---- product = Leibniz rule, every part, every type ---- *)
Theorem C02_mul_Dual : mul_is_leibniz part_Dual (fun a b : Dual R => (a * b)%rs) idx_Dual.
Proof. exact mul_Dual. Qed.
Theorem C02_mul_Dual2 : mul_is_leibniz part_Dual2 (fun a b : Dual2 R => (a * b)%rs) idx_Dual2.
Proof. exact mul_Dual2. Qed.
Theorem C02_mul_Dual3 : mul_is_leibniz part_Dual3 (fun a b : Dual3 R => (a * b)%rs) idx_Dual3.
Proof. exact mul_Dual3. Qed.
Theorem C02_mul_HyperDual : mul_is_leibniz part_HyperDual (fun a b : HyperDual R => (a * b)%rs) idx_HyperDual.
Proof. exact mul_HyperDual. Qed.
Theorem C02_mul_HyperHyperDual : mul_is_leibniz part_HHD (fun a b : HyperHyperDual R => (a * b)%rs) idx_HHD.
Proof. exact mul_HHD. Qed.
(* vector types: every direction i (, j), every dimension, all presence patterns (an absent part reads as 0) *)
Theorem C02_mul_DualVec : forall i, mul_is_leibniz part_DualVec (fun a b : DualVec R => (a * b)%rs) (idx_DualVec i).
Proof. exact mul_DualVec. Qed.
Theorem C02_mul_Dual2Vec : forall i j a b, wf_Dual2Vec a -> wf_Dual2Vec b -> forall S, In S (idx_Dual2Vec i j) ->
  part_Dual2Vec (a * b)%rs S = leibniz (part_Dual2Vec a) (part_Dual2Vec b) S.
Proof. exact mul_Dual2Vec. Qed.
Theorem C02_mul_HyperDualVec : forall i j a b, wf_HyperDualVec a -> wf_HyperDualVec b -> forall S, In S (idx_HyperDualVec i j) ->
  part_HyperDualVec (a * b)%rs S = leibniz (part_HyperDualVec a) (part_HyperDualVec b) S.
Proof. exact mul_HyperDualVec. Qed.

(* ---- quotient: the unique jet q with q * b = a (re b <> 0) ---- *)
Theorem C02_div_Dual : div_is_quotient part_Dual (fun a b : Dual R => (a / b)%rs) idx_Dual.
Proof. exact div_Dual. Qed.
Theorem C02_div_Dual2 : div_is_quotient part_Dual2 (fun a b : Dual2 R => (a / b)%rs) idx_Dual2.
Proof. exact div_Dual2. Qed.
Theorem C02_div_Dual3 : div_is_quotient part_Dual3 (fun a b : Dual3 R => (a / b)%rs) idx_Dual3.
Proof. exact div_Dual3. Qed.
Theorem C02_div_HyperDual : div_is_quotient part_HyperDual (fun a b : HyperDual R => (a / b)%rs) idx_HyperDual.
Proof. exact div_HyperDual. Qed.
Theorem C02_div_HyperHyperDual : div_is_quotient part_HHD (fun a b : HyperHyperDual R => (a / b)%rs) idx_HHD.
Proof. exact div_HHD. Qed.
Theorem C02_div_DualVec : forall i, div_is_quotient part_DualVec (fun a b : DualVec R => (a / b)%rs) (idx_DualVec i).
Proof. exact div_DualVec. Qed.
Theorem C02_div_Dual2Vec : forall i j a b, wf_Dual2Vec a -> wf_Dual2Vec b -> Dual2Vec_f_re b <> 0 -> forall S, In S (idx_Dual2Vec i j) ->
  leibniz (part_Dual2Vec (a / b)%rs) (part_Dual2Vec b) S = part_Dual2Vec a S.
Proof. exact div_Dual2Vec. Qed.
Theorem C02_div_HyperDualVec : forall i j a b, wf_HyperDualVec a -> wf_HyperDualVec b -> HyperDualVec_f_re b <> 0 ->
  forall S, In S (idx_HyperDualVec i j) -> leibniz (part_HyperDualVec (a / b)%rs) (part_HyperDualVec b) S = part_HyperDualVec a S.
Proof. exact div_HyperDualVec. Qed.

(* ---- sum, difference, negation are part-wise ---- *)
Theorem C02_lin_Dual : linear_ops part_Dual (fun a b : Dual R => (a + b)%rs) (fun a b => (a - b)%rs) (fun a => (- a)%rs) idx_Dual.
Proof. exact lin_Dual. Qed.
Theorem C02_lin_Dual2 : linear_ops part_Dual2 (fun a b : Dual2 R => (a + b)%rs) (fun a b => (a - b)%rs) (fun a => (- a)%rs) idx_Dual2.
Proof. exact lin_Dual2. Qed.
Theorem C02_lin_Dual3 : linear_ops part_Dual3 (fun a b : Dual3 R => (a + b)%rs) (fun a b => (a - b)%rs) (fun a => (- a)%rs) idx_Dual3.
Proof. exact lin_Dual3. Qed.
Theorem C02_lin_HyperDual : linear_ops part_HyperDual (fun a b : HyperDual R => (a + b)%rs) (fun a b => (a - b)%rs) (fun a => (- a)%rs) idx_HyperDual.
Proof. exact lin_HyperDual. Qed.
Theorem C02_lin_HyperHyperDual : linear_ops part_HHD (fun a b : HyperHyperDual R => (a + b)%rs) (fun a b => (a - b)%rs) (fun a => (- a)%rs) idx_HHD.
Proof. exact lin_HHD. Qed.
Theorem C02_lin_DualVec : forall i, linear_ops part_DualVec (fun a b : DualVec R => (a + b)%rs) (fun a b => (a - b)%rs) (fun a => (- a)%rs) (idx_DualVec i).
Proof. exact lin_DualVec. Qed.
Theorem C02_lin_Dual2Vec : forall i j, linear_ops part_Dual2Vec (fun a b : Dual2Vec R => (a + b)%rs) (fun a b => (a - b)%rs) (fun a => (- a)%rs) (idx_Dual2Vec i j).
Proof. exact lin_Dual2Vec. Qed.
Theorem C02_lin_HyperDualVec : forall i j, linear_ops part_HyperDualVec (fun a b : HyperDualVec R => (a + b)%rs) (fun a b => (a - b)%rs) (fun a => (- a)%rs) (idx_HyperDualVec i j).
Proof. exact lin_HyperDualVec. Qed.

(* the shape premises are invariants of the operations *)
Theorem C02_wf_Dual2Vec_mul : forall a b, wf_Dual2Vec a -> wf_Dual2Vec b -> wf_Dual2Vec (a * b)%rs.
Proof. exact wf_Dual2Vec_mul. Qed.
Theorem C02_wf_HyperDualVec_mul : forall a b, wf_HyperDualVec a -> wf_HyperDualVec b -> wf_HyperDualVec (a * b)%rs.
Proof. exact wf_HyperDualVec_mul. Qed.

(* non-vacuity: the premises are satisfiable by non-trivial operands *)
Example C02_premises_hold :
  wf_Dual2Vec (mkDual2Vec 2 (mkDerivative (Some (mkMat 1 3 (fun _ j => INR j)))) (mkDerivative None)) /\
  wf_HyperDualVec (mkHyperDualVec 2 (mkDerivative (Some (mkMat 3 1 (fun i _ => INR i)))) (mkDerivative None) (mkDerivative None)) /\
  part_Dual3 (mkDual3 2 1 0 0) [] <> 0.
Proof. repeat split; try reflexivity. simpl; lra. Qed.

Print Assumptions C02_mul_Dual. Print Assumptions C02_mul_Dual2. Print Assumptions C02_mul_Dual3.
Print Assumptions C02_mul_HyperDual. Print Assumptions C02_mul_HyperHyperDual. Print Assumptions C02_mul_DualVec.
Print Assumptions C02_mul_Dual2Vec. Print Assumptions C02_mul_HyperDualVec.
Print Assumptions C02_div_Dual. Print Assumptions C02_div_Dual2. Print Assumptions C02_div_Dual3.
Print Assumptions C02_div_HyperDual. Print Assumptions C02_div_HyperHyperDual. Print Assumptions C02_div_DualVec.
Print Assumptions C02_div_Dual2Vec. Print Assumptions C02_div_HyperDualVec.
Print Assumptions C02_lin_Dual. Print Assumptions C02_lin_Dual2. Print Assumptions C02_lin_Dual3.
Print Assumptions C02_lin_HyperDual. Print Assumptions C02_lin_HyperHyperDual. Print Assumptions C02_lin_DualVec.
Print Assumptions C02_lin_Dual2Vec. Print Assumptions C02_lin_HyperDualVec.
Print Assumptions C02_wf_Dual2Vec_mul. Print Assumptions C02_wf_HyperDualVec_mul.
