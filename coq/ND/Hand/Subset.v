(* Hand/Subset.v -- HAND-WRITTEN model of the simba SubsetOf / SupersetOf impls of Dual, Dual2, DualVec, Dual2Vec and of
   Derivative (src/derivative.rs, src/dual*.rs).  A dual value is its real part and its derivative parts; a part of a scalar
   type is always present, a part of a vector type may be absent.  Leaf conversions are parameters: widen : A -> B
   (exact), narrow : B -> A (the float cast), in_sub : B -> bool (simba: constantly true for primitive floats).
   Tied to the code by the correspondence check (tools/props/c13.py). *)
From Coq Require Import List Bool.
Import ListNotations.

Section Subset.
  Context {A B : Type}.
  Variable widen : A -> B.
  Variable narrow : B -> A.
  Variable in_sub : B -> bool.

  Record dv (X : Type) := mkdv { dv_re : X; dv_parts : list (option (list X)) }.
  Arguments mkdv {X}. Arguments dv_re {X}. Arguments dv_parts {X}.

  Definition map_part {X Y} (f : X -> Y) (p : option (list X)) : option (list Y) := option_map (map f) p.
  Definition to_superset (x : dv A) : dv B := mkdv (widen (dv_re x)) (map (map_part widen) (dv_parts x)).
  Definition from_superset_unchecked (y : dv B) : dv A := mkdv (narrow (dv_re y)) (map (map_part narrow) (dv_parts y)).
  (* checked narrowing of one part: an absent part stays absent; a present one is narrowed if every entry is in the subset *)
  Definition try_part (p : option (list B)) : option (option (list A)) :=
    match p with
    | None => Some None
    | Some l => if forallb in_sub l then Some (Some (map narrow l)) else None
    end.
  Fixpoint try_parts (ps : list (option (list B))) : option (list (option (list A))) :=
    match ps with
    | [] => Some []
    | p :: r => match try_part p, try_parts r with Some q, Some qs => Some (q :: qs) | _, _ => None end
    end.
  Definition from_superset (y : dv B) : option (dv A) :=
    if in_sub (dv_re y) then option_map (mkdv (narrow (dv_re y))) (try_parts (dv_parts y)) else None.
  Definition part_in_subset (p : option (list B)) : bool := match p with None => true | Some l => forallb in_sub l end.
  Definition is_in_subset (y : dv B) : bool := in_sub (dv_re y) && forallb part_in_subset (dv_parts y).
  (* plain floats *)
  Definition lift (nparts : nat) (zero : B) (scalar_parts : bool) (a : A) : dv B :=
    mkdv (widen a) (repeat (if scalar_parts then Some [zero] else None) nparts).
  Definition extract_unchecked (y : dv B) : A := narrow (dv_re y).
  Definition float_in_subset (y : dv B) : bool := in_sub (dv_re y).

  (* ---- theorems ---- *)
  Hypothesis narrow_widen : forall a, narrow (widen a) = a.
  Hypothesis widen_in_sub : forall a, in_sub (widen a) = true.

  Lemma try_parts_widen ps : try_parts (map (map_part widen) ps) = Some ps.
  Proof.
    induction ps as [|p ps IH]; [reflexivity|]. simpl. rewrite IH. destruct p as [l|]; simpl; [|reflexivity].
    assert (H : forallb in_sub (map widen l) = true) by (apply forallb_forall; intros b Hb; apply in_map_iff in Hb; destruct Hb as [a [<- _]]; apply widen_in_sub).
    rewrite H. rewrite map_map. rewrite (map_ext _ (fun a => a)) by (intros; apply narrow_widen). rewrite map_id. reflexivity.
  Qed.
  (* widening then narrowing back is the identity -- also for values whose parts are absent *)
  Theorem narrow_widen_id x : from_superset (to_superset x) = Some x.
  Proof. destruct x as [r ps]. unfold from_superset, to_superset; simpl. rewrite widen_in_sub, try_parts_widen, narrow_widen. reflexivity. Qed.
  Theorem widen_member x : is_in_subset (to_superset x) = true.
  Proof.
    destruct x as [r ps]. unfold is_in_subset, to_superset; simpl. rewrite widen_in_sub; simpl.
    apply forallb_forall. intros p Hp. apply in_map_iff in Hp. destruct Hp as [q [<- _]]. destruct q as [l|]; simpl; [|reflexivity].
    apply forallb_forall; intros b Hb; apply in_map_iff in Hb; destruct Hb as [a [<- _]]; apply widen_in_sub.
  Qed.
  (* the checked narrowing succeeds exactly when the membership predicate holds, and then returns the per-part cast *)
  Lemma try_parts_iff ps : (exists qs, try_parts ps = Some qs) <-> forallb part_in_subset ps = true.
  Proof.
    induction ps as [|p ps IH]; simpl; [split; [reflexivity|eexists; reflexivity]|].
    destruct p as [l|]; simpl.
    - destruct (forallb in_sub l); simpl.
      + rewrite <- IH. split; intros [qs H]; destruct (try_parts ps); try discriminate; eexists; reflexivity.
      + split; [intros [qs H]; discriminate | discriminate].
    - rewrite <- IH. split; intros [qs H]; destruct (try_parts ps); try discriminate; eexists; reflexivity.
  Qed.
  Theorem checked_iff y : (exists x, from_superset y = Some x) <-> is_in_subset y = true.
  Proof.
    destruct y as [r ps]. unfold from_superset, is_in_subset; simpl. destruct (in_sub r); simpl.
    - rewrite <- try_parts_iff. split; intros [q H]; destruct (try_parts ps); try discriminate; eexists; reflexivity.
    - split; [intros [x H]; discriminate | discriminate].
  Qed.
  Lemma try_parts_value ps qs : try_parts ps = Some qs -> qs = map (map_part narrow) ps.
  Proof.
    revert qs; induction ps as [|p ps IH]; simpl; intros qs H; [injection H as <-; reflexivity|].
    destruct (try_part p) as [q|] eqn:Ep; [|discriminate]. destruct (try_parts ps) as [qs'|]; [|discriminate]. injection H as <-.
    rewrite (IH qs' eq_refl). f_equal. destruct p as [l|]; simpl in Ep.
    - destruct (forallb in_sub l); [injection Ep as <-; reflexivity | discriminate].
    - injection Ep as <-; reflexivity.
  Qed.
  Theorem checked_value y x : from_superset y = Some x -> x = from_superset_unchecked y.
  Proof.
    destruct y as [r ps]. unfold from_superset, from_superset_unchecked; simpl. destruct (in_sub r); [|discriminate].
    destruct (try_parts ps) as [qs|] eqn:E; [|discriminate]. simpl. intros H; injection H as <-. rewrite (try_parts_value _ _ E). reflexivity.
  Qed.
  (* presence patterns are preserved by every conversion *)
  Definition presence {X} (x : dv X) : list bool := map (fun p => match p with Some _ => true | None => false end) (dv_parts x).
  Theorem presence_kept x y : presence (to_superset x) = presence x /\ presence (from_superset_unchecked y) = presence y.
  Proof. unfold presence, to_superset, from_superset_unchecked; simpl. split; rewrite map_map; apply map_ext; intros [l|]; reflexivity. Qed.
  (* lifting a float gives a constant, extracting gives the real part *)
  Theorem lift_extract n z sp a : extract_unchecked (lift n z sp a) = a /\ dv_re (lift n z sp a) = widen a.
  Proof. unfold extract_unchecked, lift; simpl. split; [apply narrow_widen | reflexivity]. Qed.
End Subset.
