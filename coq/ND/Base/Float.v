(* Base/Float.v -- the float interface [FL F] : what the model assumes of the scalar type F (Rust f32 / f64
   through num_traits::Float and std).  Hand-written vocabulary; instances: R (Base/RInst.v), binary64 on
   PrimFloat (Base/F64Inst.v), binary32 emulated on PrimFloat (Base/F32Inst.v). *)
From ND Require Export Overload.

(* one-argument functions of the platform math library (correctly rounded ones -- recip, sqrt, abs, neg --
   are not in this list: they are computed by the instance) *)
Inductive prim1 := P_exp | P_exp2 | P_exp_m1 | P_ln | P_log2 | P_log10 | P_ln_1p | P_sin | P_cos | P_tan
  | P_asin | P_acos | P_atan | P_sinh | P_cosh | P_tanh | P_asinh | P_acosh | P_atanh | P_cbrt.
Inductive prim2 := P_powf | P_atan2 | P_log | P_hypot | P_copysign.
Inductive fconst := C_E | C_FRAC_1_PI | C_FRAC_1_SQRT_2 | C_FRAC_2_PI | C_FRAC_2_SQRT_PI | C_FRAC_PI_2 | C_FRAC_PI_3
  | C_FRAC_PI_4 | C_FRAC_PI_6 | C_FRAC_PI_8 | C_LN_10 | C_LN_2 | C_LOG10_E | C_LOG2_E | C_PI | C_SQRT_2 | C_TAU
  | C_LOG2_10 | C_LOG10_2.

Class FL (F : Type) := {
  fl_add :> HAdd F F F; fl_sub :> HSub F F F; fl_mul :> HMul F F F; fl_div :> HDiv F F F; fl_neg :> HNeg F F;
  fl_zero :> HZero F; fl_one :> HOne F;
  fl_eqb :> HEqb F F; fl_ltb :> HLtb F F; fl_leb :> HLeb F F;
  fl_lit :> HasLit F; fl_castZ :> CastZ F;
  fl_eps : F;                       (* F::epsilon() *)
  fl_abs : F -> F; fl_sqrt : F -> F;
  fl_prim1 : prim1 -> F -> F; fl_prim2 : prim2 -> F -> F -> F;
  fl_powi : F -> Z -> F;            (* f64::powi *)
  fl_fma : F -> F -> F -> F;        (* f64::mul_add *)
  fl_sign_pos : F -> bool;          (* is_sign_positive: the sign bit is clear *)
  fl_is_nan : F -> bool;
  fl_const : fconst -> F;           (* FloatConst / std::f64::consts *)
  fl_max_value : F; fl_min_positive : F; fl_infinity : F; fl_nan : F;
}.

Section Std.
  Context {F : Type} `{FL F}.
  Local Open Scope rs_scope.
  (* std::f64 inherent methods, as the standard library defines them *)
  Definition std_recip (x : F) : F := (one : F) / x.
  Definition std_sqrt (x : F) : F := fl_sqrt x.
  Definition std_abs (x : F) : F := fl_abs x.
  Definition std_powi (x : F) (n : Z) : F := fl_powi x n.
  Definition std_powf (x n : F) : F := fl_prim2 P_powf x n.
  Definition std_mul_add (x a b : F) : F := fl_fma x a b.
  Definition std_exp := fl_prim1 P_exp.     Definition std_exp2 := fl_prim1 P_exp2.
  Definition std_exp_m1 := fl_prim1 P_exp_m1. Definition std_ln := fl_prim1 P_ln.
  Definition std_log (x b : F) : F := fl_prim2 P_log x b.
  Definition std_log2 := fl_prim1 P_log2.   Definition std_log10 := fl_prim1 P_log10.
  Definition std_ln_1p := fl_prim1 P_ln_1p. Definition std_cbrt := fl_prim1 P_cbrt.
  Definition std_sin := fl_prim1 P_sin.     Definition std_cos := fl_prim1 P_cos.
  Definition std_tan := fl_prim1 P_tan.     Definition std_asin := fl_prim1 P_asin.
  Definition std_acos := fl_prim1 P_acos.   Definition std_atan := fl_prim1 P_atan.
  Definition std_atan2 (y x : F) : F := fl_prim2 P_atan2 y x.
  Definition std_sin_cos (x : F) : F * F := (std_sin x, std_cos x).
  Definition std_sinh := fl_prim1 P_sinh.   Definition std_cosh := fl_prim1 P_cosh.
  Definition std_tanh := fl_prim1 P_tanh.   Definition std_asinh := fl_prim1 P_asinh.
  Definition std_acosh := fl_prim1 P_acosh. Definition std_atanh := fl_prim1 P_atanh.
  Definition std_hypot (x y : F) : F := fl_prim2 P_hypot x y.
  Definition std_copysign (x y : F) : F := fl_prim2 P_copysign x y.
  (* num_traits impls for primitive floats *)
  Definition nt_is_zero (x : F) : bool := x == (zero : F).
  Definition nt_is_one (x : F) : bool := x == (one : F).
  Definition nt_is_positive (x : F) : bool := fl_sign_pos x.           (* Signed::is_positive = is_sign_positive *)
  Definition nt_is_negative (x : F) : bool := negb (fl_sign_pos x).    (* Signed::is_negative = is_sign_negative *)
  (* Float::signum: NaN if NaN, 1.0 if sign positive (incl. +0.0), else -1.0 *)
  Definition nt_signum (x : F) : F := if fl_is_nan x then fl_nan else if fl_sign_pos x then (one : F) else - (one : F).
  (* Signed::abs_sub for floats: if self <= other {0} else {self - other} *)
  Definition nt_abs_sub (x y : F) : F := if x <=? y then (zero : F) else x - y.
  (* PartialOrd::partial_cmp for primitive floats *)
  Definition fl_partial_cmp (x y : F) : option ordering :=
    if x <? y then Some Less else if x == y then Some Equal else if y <? x then Some Greater else None.
  Definition nt_max (x y : F) : F := if fl_is_nan x then y else if fl_is_nan y then x else if x <? y then y else x.
  Definition nt_min (x y : F) : F := if fl_is_nan x then y else if fl_is_nan y then x else if y <? x then y else x.
End Std.
