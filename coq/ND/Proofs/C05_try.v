(* Proofs/C05_try.v -- error propagation of the try_ variants and the infallible wrappers, for an arbitrary scalar instance *)
From ND Require Import Overload Float Mat Opt Wire Drivers.
From NDgen Require Import Classes Gen_Float Gen_Derivative Gen_Dual Gen_Dual2 Gen_Dual3 Gen_HyperDual Gen_HyperHyperDual Gen_DualVec Gen_Dual2Vec Gen_HyperDualVec.
Section Try.
  Context {F T : Type} {dnFT : DN F T} {ordT : DNOrd T} (E : Type).
  (* a closure error is returned unchanged *)
  Lemma try_err (e : E) :
    (forall g (x : T), g (Dual_derivative (Dual_from_re x)) = Err e -> try_first_derivative E g x = Err e) /\
    (forall g (x : T), g (Dual2_derivative (Dual2_from_re x)) = Err e -> try_second_derivative E g x = Err e) /\
    (forall g (x : T), g (seed_third x) = Err e -> try_third_derivative E g x = Err e) /\
    (forall g (x : list T), g (seed_gradient x) = Err e -> try_gradient E g x = Err e) /\
    (forall g (x : list T), g (seed_gradient x) = Err e -> try_jacobian E g x = Err e) /\
    (forall g (x : list T), g (seed_hessian x) = Err e -> try_hessian E g x = Err e) /\
    (forall g (x y : list T), g (seed_ph_x x) (seed_ph_y y) = Err e -> try_partial_hessian E g x y = Err e) /\
    (forall g (x : list T) i j k, g (seed_third_vec x i j k) = Err e -> try_third_partial_derivative_vec E g x i j k = Err e).
  Proof.
    repeat split; intros; unfold try_first_derivative, try_second_derivative, try_third_derivative, try_gradient, try_jacobian, try_hessian,
      try_partial_hessian, try_third_partial_derivative_vec; match goal with H : _ = Err _ |- _ => rewrite H end; reflexivity.
  Qed.
  (* the infallible variants return exactly what the try_ variants return for the Ok-wrapped closure *)
  Lemma infallible_is_try :
    (forall g (x : list T), try_gradient infallible (fun a => Ok (g a)) x = Ok (gradient g x)) /\
    (forall g (x : list T), try_jacobian infallible (fun a => Ok (g a)) x = Ok (jacobian g x)) /\
    (forall g (x : list T), try_hessian infallible (fun a => Ok (g a)) x = Ok (hessian g x)) /\
    (forall g (x y : list T), try_partial_hessian infallible (fun a b => Ok (g a b)) x y = Ok (partial_hessian g x y)) /\
    (forall g (x : T), try_first_derivative infallible (fun a => Ok (g a)) x = Ok (first_derivative g x)) /\
    (forall g (x : T), try_second_derivative infallible (fun a => Ok (g a)) x = Ok (second_derivative g x)) /\
    (forall g (x : T), try_third_derivative infallible (fun a => Ok (g a)) x = Ok (third_derivative g x)) /\
    (forall g (x : list T) i j k, try_third_partial_derivative_vec infallible (fun a => Ok (g a)) x i j k = Ok (third_partial_derivative_vec g x i j k)).
  Proof. repeat split; intros; reflexivity. Qed.
End Try.
