(* Hand/DerFmt.v -- HAND-WRITTEN model of `Derivative::fmt` (src/derivative.rs): an absent part prints nothing; a present
   one prints " + ", then the single entry (1x1), or a bracketed comma-separated list in storage order (row or column),
   or nalgebra's two-dimensional rendering (modelled as the matrix of the entries' token lists, row by row), then the symbol.
   Tied to the code by the correspondence check only (tools/props/c18.py). *)
From ND Require Import Overload Mat Opt Wire Show.
From NDgen Require Import Classes Gen_Derivative.
From Coq Require Import Arith.

Section DerFmt.
  Context {F T : Type} {showT : Show F T}.
  Definition lit_plus : list nat := [32; 43; 32]%nat.                 (* " + " *)
  Fixpoint join_comma (l : list (list (token F))) : list (token F) :=
    match l with
    | [] => [] | [x] => x
    | x :: r => x ++ [TLit [44; 32]%nat] ++ join_comma r              (* ", " *)
    end.
  Definition der_fmt (d : Derivative T) (symbol : list nat) : list (token F) :=
    match Derivative_f_0 d with
    | None => []
    | Some m =>
        [TLit lit_plus] ++
        (if Nat.eqb (mrows m) 1 && Nat.eqb (mcols m) 1 then tokens (mget m 0 0)
         else if Nat.eqb (mrows m) 1 || Nat.eqb (mcols m) 1
              then [TLit [91]%nat] ++ join_comma (map tokens (mat_to_list m)) ++ [TLit [93]%nat]      (* "[" .. "]" *)
              else [TMat (map (fun row => map tokens row) (mat_to_rows m))]) ++
        [TLit symbol]
    end.
End DerFmt.
