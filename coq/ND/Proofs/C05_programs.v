(* Proofs/C05_programs.v -- the drivers applied to a program return the true derivatives of the real function the program computes:
   C05 (seeding / extraction of the hand-modelled drivers) composed with C03 (programs are differentiated correctly). *)
From ND Require Import Tactics C02_proofs C01_towers C01_faa C07_proofs C09_proofs Prog Agree C04_inst C03_proofs C03_second C03_third Drivers C05_proofs.
Local Open Scope R_scope.

Definition fR (p : prog) (x : R) : R := eval (T:=R) (x :: nil) p.

Theorem first_derivative_of_program p x : okR (x :: nil) p ->
  exists l, first_derivative (fun d => eval (d :: nil) p) x = (fR p x, l) /\ is_derive (fR p) x l.
Proof.
  intros Hok. destruct (first_derivative_program p x Hok) as [A B].
  exists (Dual_f_eps (eval (mkDual x 1 :: nil) p)). split; [|exact B].
  unfold first_derivative, try_first_derivative. destruct (scalar_seeds x) as [S1 _]. rewrite S1. simpl. rewrite A. reflexivity.
Qed.

Theorem second_derivative_of_program p x : okR (x :: nil) p ->
  exists l1 l2 (f' : R -> R), second_derivative (fun d => eval (d :: nil) p) x = (fR p x, l1, l2) /\
    locally x (fun t => is_derive (fR p) t (f' t)) /\ l1 = f' x /\ is_derive f' x l2.
Proof.
  intros Hok. destruct (second_derivative_program p x Hok) as [A [f' [L [B C]]]].
  exists (Dual2_f_v1 (eval (mkDual2 x 1 0 :: nil) p)), (Dual2_f_v2 (eval (mkDual2 x 1 0 :: nil) p)), f'. split; [|split; [exact L|split; [exact B|exact C]]].
  unfold second_derivative, try_second_derivative. destruct (scalar_seeds x) as [_ [S2 _]]. rewrite S2. simpl. rewrite A. reflexivity.
Qed.

Theorem third_derivative_of_program p x : okR (x :: nil) p ->
  exists l1 l2 l3 (f' f'' : R -> R), third_derivative (fun d => eval (d :: nil) p) x = (fR p x, l1, l2, l3) /\
    locally x (fun t => is_derive (fR p) t (f' t)) /\ locally x (fun t => is_derive f' t (f'' t)) /\ l1 = f' x /\ l2 = f'' x /\ is_derive f'' x l3.
Proof.
  intros Hok. destruct (third_derivative_program p x Hok) as [A [f' [f'' [L1 [L2 [B1 [B2 C]]]]]]].
  set (d := eval (mkDual3 x 1 0 0 :: nil) p) in *.
  exists (Dual3_f_v1 d), (Dual3_f_v2 d), (Dual3_f_v3 d), f', f''. split; [|split; [exact L1|split; [exact L2|split; [exact B1|split; [exact B2|exact C]]]]].
  unfold third_derivative, try_third_derivative. destruct (scalar_seeds x) as [_ [_ [S3 _]]]. rewrite S3. simpl. fold d. rewrite A. reflexivity.
Qed.

(* ---- gradient: entry i is the partial derivative in x_i ---- *)
Definition replace_at (x : list R) (i : nat) (t : R) : list R := mapi (fun j xj => if Nat.eqb j i then t else xj) x.
Lemma mapi_from_map {A B C} (f : nat -> A -> B) (g : B -> C) k l : map g (mapi_from f k l) = mapi_from (fun j a => g (f j a)) k l.
Proof. revert k; induction l as [|a l IH]; intros k; simpl; [reflexivity|]. rewrite IH. reflexivity. Qed.
Lemma mapi_from_unchanged (xi : R) (l : list R) : forall m n, (n < m)%nat -> mapi_from (fun j xj => if Nat.eqb j n then xi else xj) m l = l.
Proof. induction l as [|b l IHl]; intros m n Hmn; simpl; [reflexivity|]. destruct (Nat.eqb_spec m n); [lia|]. f_equal. apply IHl. lia. Qed.
Lemma mapi_from_same (l : list R) : forall k i xi, nth_error l i = Some xi -> mapi_from (fun j xj => if Nat.eqb j (k + i) then xi else xj) k l = l.
Proof.
  induction l as [|a l IH]; intros k i xi H; simpl; [reflexivity|]. destruct i as [|i]; simpl in H.
  - inversion H; subst. rewrite Nat.add_0_r, Nat.eqb_refl. f_equal. apply mapi_from_unchanged. lia.
  - destruct (Nat.eqb_spec k (k + S i)); [lia|]. f_equal. replace (k + S i)%nat with (S k + i)%nat by lia. apply IH. exact H.
Qed.
Lemma replace_at_same x i xi : nth_error x i = Some xi -> replace_at x i xi = x.
Proof. intros H. unfold replace_at, mapi. apply (mapi_from_same x 0 i xi H). Qed.

Lemma Forall2_mapi_from {A B C} (P : B -> C -> Prop) (f : nat -> A -> B) (g : nat -> A -> C) (l : list A) : forall k,
  (forall j a, nth_error l j = Some a -> P (f (k + j)%nat a) (g (k + j)%nat a)) -> Forall2 P (mapi_from f k l) (mapi_from g k l).
Proof.
  induction l as [|a l IH]; intros k H; simpl; constructor.
  - specialize (H 0%nat a eq_refl). rewrite Nat.add_0_r in H. exact H.
  - apply IH. intros j b Hj. specialize (H (S j) b Hj). replace (k + S j)%nat with (S k + j)%nat in H by lia. exact H.
Qed.

(* every DualVec evaluation on the gradient seeds: value and all partial derivatives *)
Lemma seeded_program_parts p (x : list R) : okR x p -> forall i xi, nth_error x i = Some xi ->
  part_DualVec (eval (seed_gradient x) p) nil = eval (T:=R) x p /\
  is_derive (fun t => eval (T:=R) (replace_at x i t) p) xi (part_DualVec (eval (seed_gradient x) p) (i :: nil)).
Proof.
  intros Hok i xi Hi. set (res := eval (seed_gradient x) p).
  set (envV := mapi (fun j xj => fun t : R => if Nat.eqb j i then t else xj) x).
  assert (Hat : forall t, at_t envV t = replace_at x i t).
  { intros t. unfold at_t, envV, replace_at, mapi. rewrite mapi_from_map. reflexivity. }
  assert (HE : Forall2 (RepX (part:=part_DualVec) (wf:=fun _ => True) i xi) envV (seed_gradient x)).
  { unfold envV, seed_gradient, mapi. apply Forall2_mapi_from. intros j xj Hj. simpl.
    destruct (seed_gradient_spec x j xj Hj) as [s [Hs [Hre Hpart]]].
    unfold seed_gradient in Hs. rewrite nth_error_mapi, Hj in Hs. simpl in Hs. inversion Hs as [Hs']. clear Hs. subst s.
    assert (Hil : (i < length x)%nat) by (apply nth_error_Some; congruence).
    split; [exact I|]. split.
    - etransitivity; [exact Hre|]. cbv beta. destruct (Nat.eqb_spec j i) as [->|]; [congruence|reflexivity].
    - cbv beta. rewrite (Hpart i Hil). unfold delta. rewrite (Nat.eqb_sym j i). destruct (Nat.eqb i j).
      + apply (is_derive_id (K:=R_AbsRing) xi).
      + apply (is_derive_const (V:=R_NormedModule) xj xi). }
  assert (Hok' : okR (at_t envV xi) p) by (rewrite Hat, (replace_at_same x i xi Hi); exact Hok).
  destruct (directional_DualVec i xi p envV (seed_gradient x) HE Hok' (exps_true p)) as [_ [A B]].
  split.
  - fold res in A. rewrite A, Hat, (replace_at_same x i xi Hi). reflexivity.
  - fold res in B. eapply is_derive_ext; [|exact B]. intros t; simpl. rewrite Hat. reflexivity.
Qed.

Theorem gradient_of_program p (x : list R) : okR x p ->
  exists G, gradient (fun v => eval v p) x = (eval (T:=R) x p, G) /\
    forall i xi, nth_error x i = Some xi -> is_derive (fun t => eval (T:=R) (replace_at x i t) p) xi (mget G i 0).
Proof.
  intros Hok.
  set (res := eval (seed_gradient x) p).
  destruct (gradient_extract infallible (fun a => Ok (eval a p)) x res eq_refl) as [v [G [E [Ev EG]]]].
  exists G. split.
  - unfold gradient. rewrite E. simpl. rewrite Ev. destruct x as [|x0 xr].
    + f_equal. pose proof (re_eval JA_c04_DualVec ltac:(exists 0%nat; simpl; auto) (fun _ => 0%nat) (fun _ => True) p nil nil (Forall2_nil _) Hok) as R0.
      assert (Hex : exps (fun n => True /\ True) p) by (apply (exps_imp (fun _ => True)); [tauto|apply exps_true]).
      destruct (R0 Hex) as [_ RR]. apply (relR_re _ _ _ RR).
    + f_equal. apply (seeded_program_parts p (x0 :: xr) Hok 0%nat x0 eq_refl).
  - intros i xi Hi. rewrite EG. apply (seeded_program_parts p x Hok i xi Hi).
Qed.

(* jacobian of a list of programs: entry (k, i) is the partial derivative of output k with respect to x_i *)
Theorem jacobian_of_programs (ps : list prog) (x : list R) : List.Forall (okR x) ps -> x <> nil ->
  exists J, jacobian (fun v => map (eval v) ps) x = (map (eval (T:=R) x) ps, J) /\
    forall k pk i xi, nth_error ps k = Some pk -> nth_error x i = Some xi ->
      is_derive (fun t => eval (T:=R) (replace_at x i t) pk) xi (mget J k i).
Proof.
  intros Hok Hx.
  set (res := map (eval (seed_gradient x)) ps).
  destruct (jacobian_extract infallible (fun a => Ok (map (eval a) ps)) x res eq_refl) as [v [J [E [Ev [_ [_ EJ]]]]]].
  exists J. split.
  - unfold jacobian. rewrite E. simpl. rewrite Ev. f_equal. unfold res. rewrite map_map.
    apply map_ext_in. intros pk Hin. rewrite Forall_forall in Hok.
    destruct x as [|x0 xr]; [congruence|]. apply (seeded_program_parts pk (x0 :: xr) (Hok pk Hin) 0%nat x0 eq_refl).
  - intros k pk i xi Hk Hi.
    assert (Hr : nth_error res k = Some (eval (seed_gradient x) pk)) by (unfold res; rewrite nth_error_map, Hk; reflexivity).
    rewrite (EJ k _ Hr i). rewrite Forall_forall in Hok. apply (seeded_program_parts pk x (Hok pk (nth_error_In _ _ Hk)) i xi Hi).
Qed.

(* second_partial_derivative on a program of two variables: (f, f_x, f_y, f_xy) *)
From ND Require Import C03_mixed.
Theorem second_partial_derivative_of_program p x y : okR (x :: y :: nil) p ->
  let f := fun s t => eval (T:=R) (s :: t :: nil) p in
  exists fx fy fxy (ft : R -> R), second_partial_derivative (fun a b => eval (a :: b :: nil) p) x y = (f x y, fx, fy, fxy) /\
    is_derive (fun s => f s y) x fx /\ locally x (fun s => is_derive (f s) y (ft s)) /\ fy = ft x /\ is_derive ft x fxy.
Proof.
  intros Hok f. destruct (second_partial_program p x y Hok) as [A [ft [L [D1 [E2 D12]]]]].
  set (h := eval (mkHyperDual x 1 0 0 :: mkHyperDual y 0 1 0 :: nil) p) in *.
  exists (HyperDual_f_eps1 h), (HyperDual_f_eps2 h), (HyperDual_f_eps1eps2 h), ft. split; [|split; [exact D1|split; [exact L|split; [exact E2|exact D12]]]].
  unfold second_partial_derivative, try_second_partial_derivative. destruct (scalar_seeds x) as [_ [_ [_ [S1 _]]]]. destruct (scalar_seeds y) as [_ [_ [_ [_ S2]]]].
  rewrite S1, S2. simpl. fold h. rewrite A. reflexivity.
Qed.
