(* Props/C04.v -- property C04: all number types, nestings and storage variants agree on shared derivatives.
   For EVERY program of Hand/Prog.v whose intermediate real values lie in the operations' domains (okR, a condition on the real function only), the
   parts of the evaluation over one type equal the corresponding parts of the evaluation over the other:  rel f x y  :=  wf x /\ wf y /\ for every
   block S of y's family, part y S = part x (map f S).  Dimensions and presence patterns are arbitrary (absent parts read as 0; the generated
   code is the same for static and dynamic storage).  Only `exact` proofs here. *)
From ND Require Import Tactics C02_proofs C01_towers C01_faa C07_proofs Prog Agree C04_inst C04_proofs C04_nested C03_proofs C04_real C04_nderiv.
From NDgen Require Import Classes Gen_Float Gen_Derivative Gen_Dual Gen_Dual2 Gen_Dual3 Gen_HyperDual Gen_HyperHyperDual Gen_DualVec Gen_Dual2Vec Gen_HyperDualVec.
Local Open Scope R_scope.

(* vector type, component i  <->  scalar first-order type *)
Theorem C04_DualVec_Dual : forall (i : nat) (p : prog) (envX : list (DualVec R)) (envY : list (Dual R)), Forall2 (rel_DualVec_Dual i) envX envY -> okR (map (fun x => part_DualVec x nil) envX) p -> rel_DualVec_Dual i (eval envX p) (eval envY p).
Proof. exact agreeR_DualVec_Dual. Qed.
(* second-order vector type, entries (i), (j), (i,j)  <->  hyper-dual scalar type *)
Theorem C04_Dual2Vec_HyperDual : forall (i j : nat) (p : prog) (envX : list (Dual2Vec R)) (envY : list (HyperDual R)), Forall2 (rel_Dual2Vec_HyperDual i j) envX envY -> okR (map (fun x => part_Dual2Vec x nil) envX) p -> rel_Dual2Vec_HyperDual i j (eval envX p) (eval envY p).
Proof. exact agreeR_Dual2Vec_HyperDual. Qed.
(* hyper-dual vector type, entries (i), (j), (i,j)  <->  hyper-dual scalar type *)
Theorem C04_HyperDualVec_HyperDual : forall (i j : nat) (p : prog) (envX : list (HyperDualVec R)) (envY : list (HyperDual R)), Forall2 (rel_HyperDualVec_HyperDual i j) envX envY -> okR (map (fun x => part_HyperDualVec x nil) envX) p -> rel_HyperDualVec_HyperDual i j (eval envX p) (eval envY p).
Proof. exact agreeR_HyperDualVec_HyperDual. Qed.
(* the same variable differentiated twice  <->  two directions on that variable *)
Theorem C04_Dual2_HyperDual : forall (p : prog) (envX : list (Dual2 R)) (envY : list (HyperDual R)), Forall2 (rel_Dual2_HyperDual) envX envY -> okR (map (fun x => part_Dual2 x nil) envX) p -> rel_Dual2_HyperDual (eval envX p) (eval envY p).
Proof. exact agreeR_Dual2_HyperDual. Qed.
(* the same variable differentiated three times  <->  three directions on that variable *)
Theorem C04_Dual3_HHD : forall (p : prog) (envX : list (Dual3 R)) (envY : list (HyperHyperDual R)), Forall2 (rel_Dual3_HHD) envX envY -> okR (map (fun x => part_Dual3 x nil) envX) p -> rel_Dual3_HHD (eval envX p) (eval envY p).
Proof. exact agreeR_Dual3_HHD. Qed.
(* lower orders are prefixes of higher orders *)
Theorem C04_Dual3_Dual2 : forall (p : prog) (envX : list (Dual3 R)) (envY : list (Dual2 R)), Forall2 (rel_Dual3_Dual2) envX envY -> okR (map (fun x => part_Dual3 x nil) envX) p -> rel_Dual3_Dual2 (eval envX p) (eval envY p).
Proof. exact agreeR_Dual3_Dual2. Qed.
Theorem C04_Dual2_Dual : forall (p : prog) (envX : list (Dual2 R)) (envY : list (Dual R)), Forall2 (rel_Dual2_Dual) envX envY -> okR (map (fun x => part_Dual2 x nil) envX) p -> rel_Dual2_Dual (eval envX p) (eval envY p).
Proof. exact agreeR_Dual2_Dual. Qed.
(* hyper-dual: each direction alone is a first-order number *)
Theorem C04_HyperDual_Dual : forall (k : nat) (p : prog) (envX : list (HyperDual R)) (envY : list (Dual R)), (k = 1 \/ k = 2)%nat -> Forall2 (rel_HyperDual_Dual k) envX envY -> okR (map (fun x => part_HyperDual x nil) envX) p -> rel_HyperDual_Dual k (eval envX p) (eval envY p).
Proof. exact agreeR_HyperDual_Dual. Qed.
(* hyper-dual  <->  nested first-order numbers Dual<Dual<R>> *)
Theorem C04_HyperDual_DD : forall (p : prog) (envX : list (HyperDual R)) (envY : list (Dual (Dual R))), Forall2 (rel_HyperDual_DD) envX envY -> okR (map (fun x => part_HyperDual x nil) envX) p -> exps pw_nested p -> rel_HyperDual_DD (eval envX p) (eval envY p).
Proof. exact agreeR_HyperDual_DD. Qed.
(* hyper-hyper-dual  <->  triply nested first-order numbers *)
Theorem C04_HHD_DDD : forall (p : prog) (envX : list (HyperHyperDual R)) (envY : list (Dual (Dual (Dual R)))), Forall2 (rel_HHD_DDD) envX envY -> okR (map (fun x => part_HHD x nil) envX) p -> exps pw_nested p -> rel_HHD_DDD (eval envX p) (eval envY p).
Proof. exact agreeR_HHD_DDD. Qed.

(* the advertised maximum derivative order of a (nested) type is the sum over its levels, for any scalar instance and any inner type *)
Section NDeriv.
  Context {F T : Type} {dnFT : DN F T} {ordT : DNOrd T}.
  Theorem C04_nderiv_levels :
    nderiv (Dual T) = (nderiv T + 1)%nat /\ nderiv (DualVec T) = (nderiv T + 1)%nat /\
    nderiv (Dual2 T) = (nderiv T + 2)%nat /\ nderiv (Dual2Vec T) = (nderiv T + 2)%nat /\
    nderiv (HyperDual T) = (nderiv T + 2)%nat /\ nderiv (HyperDualVec T) = (nderiv T + 2)%nat /\
    nderiv (Dual3 T) = (nderiv T + 3)%nat /\ nderiv (HyperHyperDual T) = (nderiv T + 3)%nat.
  Proof. exact nderiv_levels. Qed.
End NDeriv.
Theorem C04_nderiv_float : forall {F} {fl : FL F}, nderiv F = 0%nat.
Proof. exact @nderiv_float. Qed.

(* non-vacuity: the seeds of a gradient in direction 1 and of a scalar derivative are related, and x0 * sin(x1) satisfies the domain condition *)
Example C04_example : Forall2 (rel_DualVec_Dual 1) (mkDualVec 3 (mkDerivative (Some (mkMat 2 1 (fun i _ => if Nat.eqb i 1 then 1 else 0)))) :: nil) (mkDual 3 1 :: nil) /\
  okR (3 :: nil) (PBin B_mul (PVar 0) (PUn U_sin (PVar 0))).
Proof. exact example_c04. Qed.

Definition C04_bundle := (C04_DualVec_Dual,
  C04_Dual2Vec_HyperDual,
  C04_HyperDualVec_HyperDual,
  C04_Dual2_HyperDual,
  C04_Dual3_HHD,
  C04_Dual3_Dual2,
  C04_Dual2_Dual,
  C04_HyperDual_Dual,
  C04_HyperDual_DD,
  C04_HHD_DDD,
  @C04_nderiv_levels,
  @C04_nderiv_float).
Print Assumptions C04_bundle.
