(* Props/C03.v -- property C03: arbitrary programs of generic operations are differentiated correctly.
   Programs are the syntax Hand/Prog.v (variables, constants, the 23 unary operations, + - * / with dual and scalar right operands, integer
   powers, let with sharing), evaluated by Prog.eval over the TRANSLATED operations of each type.  okR is the domain condition on the real
   function alone (every intermediate real value inside the domain of the operation applied to it).
   fused multiply-add and iterator sums / products are, by the theorems of C08, equal to the operator compositions they abbreviate, so a program
   using them is a program of this syntax.  Only `exact` proofs here. *)
From ND Require Import Tactics C02_proofs C01_towers C01_faa C07_proofs C09_proofs Prog Agree C04_inst C04_nested C03_proofs C03_second C03_third C03_mixed C03_mixed3 C03_unique.
Local Open Scope R_scope.

(* the first-order type: the eps part is the derivative (Coquelicot is_derive) of the real function the program computes, along the input curves *)
Theorem C03_first_order : forall (t0 : R) (p : prog) (envV : list (R -> R)) (envD : list (Dual R)),
  Forall2 (Rep1 t0) envV envD -> okR (at_t envV t0) p ->
  Rep1 t0 (fun t => eval (T:=R) (at_t envV t) p) (eval envD p).
Proof. exact first_order. Qed.

Theorem C03_first_derivative_program : forall p x, okR (x :: nil) p ->
  let d := eval (mkDual x 1 :: nil) p in Dual_f_re d = eval (T:=R) (x :: nil) p /\ is_derive (fun t => eval (T:=R) (t :: nil) p) x (Dual_f_eps d).
Proof. exact first_derivative_program. Qed.

(* second order: Rep2 t0 v d  :=  re d = v t0 /\ exists v', (v' is the derivative of v near t0) /\ v1 d = v' t0 /\ is_derive v' t0 (v2 d).
   For every program and every point of its domain, the v2 part of the evaluation over Dual2 is the SECOND derivative of the real function the program
   computes along the input curves (which must themselves be twice differentiable in this sense) *)
Theorem C03_second_order : forall (t0 : R) (p : prog) (envV : list (R -> R)) (envD : list (Dual2 R)),
  Forall2 (Rep2 t0) envV envD -> okR (at_t envV t0) p ->
  Rep2 t0 (fun t => eval (T:=R) (at_t envV t) p) (eval envD p).
Proof. exact second_order. Qed.
Theorem C03_second_derivative_program : forall p x, okR (x :: nil) p ->
  let d := eval (mkDual2 x 1 0 :: nil) p in
  Dual2_f_re d = eval (T:=R) (x :: nil) p /\
  exists f' : R -> R, locally x (fun t => is_derive (fun s => eval (T:=R) (s :: nil) p) t (f' t)) /\ Dual2_f_v1 d = f' x /\ is_derive f' x (Dual2_f_v2 d).
Proof. exact second_derivative_program. Qed.

(* third order: Rep3 t0 v d  :=  re d = v t0 /\ exists v' v'', (v' = derivative of v near t0) /\ (v'' = derivative of v' near t0) /\
   v1 d = v' t0 /\ v2 d = v'' t0 /\ is_derive v'' t0 (v3 d): the v3 part of the evaluation over Dual3 is the THIRD derivative of the composed real function *)
Theorem C03_third_order : forall (t0 : R) (p : prog) (envV : list (R -> R)) (envD : list (Dual3 R)),
  Forall2 (Rep3 t0) envV envD -> okR (at_t envV t0) p ->
  Rep3 t0 (fun t => eval (T:=R) (at_t envV t) p) (eval envD p).
Proof. exact third_order. Qed.
Theorem C03_third_derivative_program : forall p x, okR (x :: nil) p ->
  let d := eval (mkDual3 x 1 0 0 :: nil) p in
  Dual3_f_re d = eval (T:=R) (x :: nil) p /\
  exists f' f'' : R -> R, locally x (fun t => is_derive (fun s => eval (T:=R) (s :: nil) p) t (f' t)) /\ locally x (fun t => is_derive f' t (f'' t)) /\
    Dual3_f_v1 d = f' x /\ Dual3_f_v2 d = f'' x /\ is_derive f'' x (Dual3_f_v3 d).
Proof. exact third_derivative_program. Qed.

(* mixed second order: RepH s0 t0 v h  :=  re h = v s0 t0 /\ exists vt, (vt s = t-derivative of v(s,.) at t0, for s near s0) /\ eps1 h = s-derivative of v(.,t0) at s0 /\
   eps2 h = vt s0 /\ is_derive vt s0 (eps1eps2 h): the eps1eps2 part of the evaluation over HyperDual is the MIXED second derivative d/ds d/dt of the
   composed real function along any two-parameter family of inputs *)
Theorem C03_mixed_second_order : forall (s0 t0 : R) (p : prog) (envV : list (R -> R -> R)) (envD : list (HyperDual R)),
  Forall2 (RepH s0 t0) envV envD -> okR (at_st envV s0 t0) p ->
  RepH s0 t0 (fun s t => eval (T:=R) (at_st envV s t) p) (eval envD p).
Proof. exact mixed_second_order. Qed.
Theorem C03_second_partial_program : forall p x y, okR (x :: y :: nil) p ->
  let h := eval (mkHyperDual x 1 0 0 :: mkHyperDual y 0 1 0 :: nil) p in
  let f := fun s t => eval (T:=R) (s :: t :: nil) p in
  HyperDual_f_re h = f x y /\
  exists ft : R -> R, locally x (fun s => is_derive (f s) y (ft s)) /\ is_derive (fun s => f s y) x (HyperDual_f_eps1 h) /\
    HyperDual_f_eps2 h = ft x /\ is_derive ft x (HyperDual_f_eps1eps2 h).
Proof. exact second_partial_program. Qed.

(* every type, every first-order direction l of it: RepX says x carries value and derivative in direction l of the curve v at t0
     RepX l t0 v x  :=  wf x /\ part x [] = v t0 /\ is_derive v t0 (part x [l])
   and evaluation preserves it; the real part of every evaluation is the real evaluation *)
Theorem C03_directional_Dual : forall t0 p envV (envX : list (Dual R)),
  Forall2 (RepX (part:=part_Dual) (wf:=fun _ => True) tt t0) envV envX -> okR (at_t envV t0) p -> exps (fun _ => True) p ->
  RepX (part:=part_Dual) (wf:=fun _ => True) tt t0 (fun t => eval (T:=R) (at_t envV t) p) (eval envX p).
Proof. exact (fun t0 => directional JA_c04_Dual tt ltac:(right; left; reflexivity) t0). Qed.
Theorem C03_directional_Dual2 : forall t0 p envV (envX : list (Dual2 R)),
  Forall2 (RepX (part:=part_Dual2) (wf:=fun _ => True) tt t0) envV envX -> okR (at_t envV t0) p -> exps (fun _ => True) p ->
  RepX (part:=part_Dual2) (wf:=fun _ => True) tt t0 (fun t => eval (T:=R) (at_t envV t) p) (eval envX p).
Proof. exact (fun t0 => directional JA_c04_Dual2 tt ltac:(right; left; reflexivity) t0). Qed.
Theorem C03_directional_Dual3 : forall t0 p envV (envX : list (Dual3 R)),
  Forall2 (RepX (part:=part_Dual3) (wf:=fun _ => True) tt t0) envV envX -> okR (at_t envV t0) p -> exps (fun _ => True) p ->
  RepX (part:=part_Dual3) (wf:=fun _ => True) tt t0 (fun t => eval (T:=R) (at_t envV t) p) (eval envX p).
Proof. exact (fun t0 => directional JA_c04_Dual3 tt ltac:(right; left; reflexivity) t0). Qed.
Theorem C03_directional_HyperDual : forall k, (k = 1 \/ k = 2)%nat -> forall t0 p envV (envX : list (HyperDual R)),
  Forall2 (RepX (part:=part_HyperDual) (wf:=fun _ => True) k t0) envV envX -> okR (at_t envV t0) p -> exps (fun _ => True) p ->
  RepX (part:=part_HyperDual) (wf:=fun _ => True) k t0 (fun t => eval (T:=R) (at_t envV t) p) (eval envX p).
Proof. exact directional_HyperDual. Qed.
Theorem C03_directional_HyperHyperDual : forall k, (k = 1 \/ k = 2 \/ k = 3)%nat -> forall t0 p envV (envX : list (HyperHyperDual R)),
  Forall2 (RepX (part:=part_HHD) (wf:=fun _ => True) k t0) envV envX -> okR (at_t envV t0) p -> exps (fun _ => True) p ->
  RepX (part:=part_HHD) (wf:=fun _ => True) k t0 (fun t => eval (T:=R) (at_t envV t) p) (eval envX p).
Proof. exact directional_HHD. Qed.
(* vector types: any component i, any dimension, any presence pattern *)
Theorem C03_directional_DualVec : forall (i : nat) t0 p envV (envX : list (DualVec R)),
  Forall2 (RepX (part:=part_DualVec) (wf:=fun _ => True) i t0) envV envX -> okR (at_t envV t0) p -> exps (fun _ => True) p ->
  RepX (part:=part_DualVec) (wf:=fun _ => True) i t0 (fun t => eval (T:=R) (at_t envV t) p) (eval envX p).
Proof. exact directional_DualVec. Qed.
Theorem C03_directional_Dual2Vec : forall (i : nat) t0 p envV (envX : list (Dual2Vec R)),
  Forall2 (RepX (part:=part_Dual2Vec) (wf:=wf_Dual2Vec) i t0) envV envX -> okR (at_t envV t0) p -> exps (fun _ => True) p ->
  RepX (part:=part_Dual2Vec) (wf:=wf_Dual2Vec) i t0 (fun t => eval (T:=R) (at_t envV t) p) (eval envX p).
Proof. exact directional_Dual2Vec. Qed.
Theorem C03_directional_HyperDualVec : forall (l : nat + nat) t0 p envV (envX : list (HyperDualVec R)),
  Forall2 (RepX (part:=part_HyperDualVec) (wf:=wf_HyperDualVec) l t0) envV envX -> okR (at_t envV t0) p -> exps (fun _ => True) p ->
  RepX (part:=part_HyperDualVec) (wf:=wf_HyperDualVec) l t0 (fun t => eval (T:=R) (at_t envV t) p) (eval envX p).
Proof. exact directional_HyperDualVec. Qed.
(* nested first-order numbers (integer powers with exponents 0..8, see C04_nested) *)
Theorem C03_directional_DD : forall k, (k = 1 \/ k = 2)%nat -> forall t0 p envV (envX : list (Dual (Dual R))),
  Forall2 (RepX (part:=part_DD) (wf:=fun _ => True) k t0) envV envX -> okR (at_t envV t0) p -> exps pw_nested p ->
  RepX (part:=part_DD) (wf:=fun _ => True) k t0 (fun t => eval (T:=R) (at_t envV t) p) (eval envX p).
Proof. exact directional_DD. Qed.
Theorem C03_directional_DDD : forall k, (k = 1 \/ k = 2 \/ k = 3)%nat -> forall t0 p envV (envX : list (Dual (Dual (Dual R)))),
  Forall2 (RepX (part:=part_DDD) (wf:=fun _ => True) k t0) envV envX -> okR (at_t envV t0) p -> exps pw_nested p ->
  RepX (part:=part_DDD) (wf:=fun _ => True) k t0 (fun t => eval (T:=R) (at_t envV t) p) (eval envX p).
Proof. exact directional_DDD. Qed.

(* mixed third order.  A hyper-hyper-dual number is a dual number over hyper-dual numbers, h = lo h + hi h eps3 (lo h = (re, eps1, eps2, eps1eps2),
   hi h = (eps3, eps1eps3, eps2eps3, eps1eps2eps3)), and the translated arithmetic is exactly that (C03_hhd_is_dual_over_hyperdual).
   RepT s0 t0 u0 v h := lo h represents v(.,.,u0) in the sense of RepH, and there is g3(s,t) = the u-derivative of v(s,t,.) at u0 for (s,t) near
   (s0,t0) which hi h represents: spelled out on the eight parts by C03_RepT_meaning.  For every program, the evaluation over HyperHyperDual carries,
   in eps1eps2eps3, d/ds d/dt d/du of the real function the program computes along three-parameter families of inputs *)
Theorem C03_hhd_is_dual_over_hyperdual : forall x y : HyperHyperDual R,
  (heq (lo (eval_bin B_add x y)) (eval_bin B_add (lo x) (lo y)) /\ heq (hi (eval_bin B_add x y)) (eval_bin B_add (hi x) (hi y))) /\
  (heq (lo (eval_bin B_mul x y)) (eval_bin B_mul (lo x) (lo y)) /\
   heq (hi (eval_bin B_mul x y)) (eval_bin B_add (eval_bin B_mul (hi x) (lo y)) (eval_bin B_mul (lo x) (hi y)))) /\
  (HyperHyperDual_f_re y <> 0 -> heq (lo (eval_bin B_div x y)) (eval_bin B_div (lo x) (lo y)) /\
   heq (hi (eval_bin B_div x y)) (eval_bin B_div (eval_bin B_sub (eval_bin B_mul (hi x) (lo y)) (eval_bin B_mul (lo x) (hi y))) (eval_bin B_mul (lo y) (lo y)))).
Proof. exact (fun x y => conj (lohi_add x y) (conj (lohi_mul x y) (lohi_div x y))). Qed.
Theorem C03_RepT_meaning : forall s0 t0 u0 v (h : HyperHyperDual R), RepT s0 t0 u0 v h ->
  HyperHyperDual_f_re h = v s0 t0 u0 /\
  (exists vt : R -> R, locally s0 (fun s => is_derive (fun t => v s t u0) t0 (vt s)) /\ is_derive (fun s => v s t0 u0) s0 (HyperHyperDual_f_eps1 h) /\
     HyperHyperDual_f_eps2 h = vt s0 /\ is_derive vt s0 (HyperHyperDual_f_eps1eps2 h)) /\
  exists g3 : R -> R -> R, locally s0 (fun s => locally t0 (fun t => is_derive (v s t) u0 (g3 s t))) /\ HyperHyperDual_f_eps3 h = g3 s0 t0 /\
    exists gt : R -> R, locally s0 (fun s => is_derive (g3 s) t0 (gt s)) /\ is_derive (fun s => g3 s t0) s0 (HyperHyperDual_f_eps1eps3 h) /\
      HyperHyperDual_f_eps2eps3 h = gt s0 /\ is_derive gt s0 (HyperHyperDual_f_eps1eps2eps3 h).
Proof. exact repT_parts. Qed.
Theorem C03_mixed_third_order : forall (s0 t0 u0 : R) (p : prog) (envV : list (R -> R -> R -> R)) (envD : list (HyperHyperDual R)),
  Forall2 (RepT s0 t0 u0) envV envD -> okR (at_stu envV s0 t0 u0) p ->
  RepT s0 t0 u0 (fun s t u => eval (T:=R) (at_stu envV s t u) p) (eval envD p).
Proof. exact mixed_third_order. Qed.
Theorem C03_third_partial_program : forall p x y z, okR (x :: y :: z :: nil) p ->
  RepT x y z (fun s t u => eval (T:=R) (s :: t :: u :: nil) p)
       (eval (mkHyperHyperDual x 1 0 0 0 0 0 0 :: mkHyperHyperDual y 0 1 0 0 0 0 0 :: mkHyperHyperDual z 0 0 1 0 0 0 0 :: nil) p).
Proof. exact third_partial_program. Qed.

(* the derivative parts depend on the real function alone: two programs that compute the same real function near the real parts of the arguments
   (same_near: on a box of some positive half-width around them) have IDENTICAL evaluations, for ARBITRARY arguments of the five scalar types --
   whatever their syntax.  (Each representation predicate determines the number it describes, and every number is represented by a polynomial family.) *)
Theorem C03_same_near_meaning : forall p q base, same_near p q base <->
  exists d, 0 < d /\ forall env, Forall2 (fun a r => r - d < a < r + d) env base -> eval (T:=R) env p = eval (T:=R) env q.
Proof. exact (fun p q base => conj (fun H => H) (fun H => H)). Qed.
Theorem C03_denotational_Dual : forall p q (envD : list (Dual R)), okR (map Dual_f_re envD) p -> okR (map Dual_f_re envD) q ->
  same_near p q (map Dual_f_re envD) -> eval envD p = eval envD q.
Proof. exact denot_Dual. Qed.
Theorem C03_denotational_Dual2 : forall p q (envD : list (Dual2 R)), okR (map Dual2_f_re envD) p -> okR (map Dual2_f_re envD) q ->
  same_near p q (map Dual2_f_re envD) -> eval envD p = eval envD q.
Proof. exact denot_Dual2. Qed.
Theorem C03_denotational_Dual3 : forall p q (envD : list (Dual3 R)), okR (map Dual3_f_re envD) p -> okR (map Dual3_f_re envD) q ->
  same_near p q (map Dual3_f_re envD) -> eval envD p = eval envD q.
Proof. exact denot_Dual3. Qed.
Theorem C03_denotational_HyperDual : forall p q (envD : list (HyperDual R)), okR (map HyperDual_f_re envD) p -> okR (map HyperDual_f_re envD) q ->
  same_near p q (map HyperDual_f_re envD) -> eval envD p = eval envD q.
Proof. exact denot_HyperDual. Qed.
Theorem C03_denotational_HyperHyperDual : forall p q (envD : list (HyperHyperDual R)), okR (map HyperHyperDual_f_re envD) p -> okR (map HyperHyperDual_f_re envD) q ->
  same_near p q (map HyperHyperDual_f_re envD) -> eval envD p = eval envD q.
Proof. exact denot_HyperHyperDual. Qed.

(* non-vacuity: exp(x) / (x*y + 3) at (1, 2) satisfies the domain condition, with seeds along the first variable *)
Example C03_example :
  let p := PBin B_div (PUn U_exp (PVar 0)) (PScal B_add (PBin B_mul (PVar 0) (PVar 1)) 3) in
  okR (at_t ((fun t => t) :: (fun _ => 2) :: nil) 1) p /\ Forall2 (Rep1 1) ((fun t => t) :: (fun _ => 2) :: nil) (mkDual 1 1 :: mkDual 2 0 :: nil).
Proof. exact example_ok. Qed.

Definition C03_bundle := (C03_first_order, C03_first_derivative_program, C03_second_order, C03_second_derivative_program, C03_third_order, C03_third_derivative_program, C03_mixed_second_order, C03_second_partial_program, C03_hhd_is_dual_over_hyperdual, C03_RepT_meaning, C03_mixed_third_order, C03_third_partial_program, C03_same_near_meaning, C03_denotational_Dual, C03_denotational_Dual2, C03_denotational_Dual3, C03_denotational_HyperDual, C03_denotational_HyperHyperDual, C03_directional_Dual, C03_directional_Dual2, C03_directional_Dual3,
  C03_directional_HyperDual, C03_directional_HyperHyperDual, C03_directional_DualVec, C03_directional_Dual2Vec, C03_directional_HyperDualVec,
  C03_directional_DD, C03_directional_DDD).
Print Assumptions C03_bundle.
