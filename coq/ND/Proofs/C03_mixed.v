(* Proofs/C03_mixed.v -- mixed second partial derivatives: for every program, the eps1eps2 part of the evaluation over HyperDual is the MIXED second
   derivative d/ds d/dt of the real function the program computes along a two-parameter family of inputs (eps1 = d/ds, eps2 = d/dt).
   RepH s0 t0 v h: h carries v(s0,t0); there is a function vt of s, the t-derivative of v(s,.) at t0 for s near s0, with eps2 = vt(s0);
   eps1 is the s-derivative of v(.,t0) at s0; and eps1eps2 is the derivative of vt at s0. *)
From ND Require Import Tactics C02_proofs C01_towers C01_faa C07_proofs C09_proofs Prog Agree C04_inst C03_proofs C03_second.
Local Open Scope R_scope.

Definition RepH (s0 t0 : R) (v : R -> R -> R) (h : HyperDual R) : Prop :=
  HyperDual_f_re h = v s0 t0 /\
  exists vt : R -> R, locally s0 (fun s => is_derive (v s) t0 (vt s)) /\
    is_derive (fun s => v s t0) s0 (HyperDual_f_eps1 h) /\ HyperDual_f_eps2 h = vt s0 /\ is_derive vt s0 (HyperDual_f_eps1eps2 h).

Lemma hd_parts (d : HyperDual R) : part_HyperDual d nil = HyperDual_f_re d /\ part_HyperDual d (1 :: nil)%nat = HyperDual_f_eps1 d /\
  part_HyperDual d (2 :: nil)%nat = HyperDual_f_eps2 d /\ part_HyperDual d (1 :: 2 :: nil)%nat = HyperDual_f_eps1eps2 d.
Proof. repeat split; reflexivity. Qed.

Ltac un H := match type of H with is_derive ?f ?x ?l => rewrite ?(is_derive_unique (fun y : R => f y) x l H) end.
Ltac exd := repeat split; try (eexists; eassumption); auto.

Section Mixed.
  Variables s0 t0 : R.

  Lemma repH_const c : RepH s0 t0 (fun _ _ => c) (ofF c).
  Proof.
    split; [reflexivity|]. exists (fun _ => 0). split; [|split; [|split]].
    - apply locally_true. intros s. apply (is_derive_const (V:=R_NormedModule) c t0).
    - apply (is_derive_const (V:=R_NormedModule) c s0).
    - reflexivity.
    - apply (is_derive_const (V:=R_NormedModule) 0 s0).
  Qed.

  Lemma repH_bin b v w x y : RepH s0 t0 v x -> RepH s0 t0 w y -> (b = B_div -> w s0 t0 <> 0) ->
    RepH s0 t0 (fun s t => eval_bin (T:=R) b (v s t) (w s t)) (eval_bin b x y).
  Proof.
    intros [Hx [vt [Lv [Dvs [Hx2 Dvt]]]]] [Hy [wt [Lw [Dws [Hy2 Dwt]]]]] Hd.
    destruct x as [x0 x1 x2 x12], y as [y0 y1 y2 y12]; simpl in Hx, Hy, Hx2, Hy2, Dvs, Dws, Dvt, Dwt. subst x0 y0 x2 y2.
    set (V := fun s => v s t0) in *. set (W := fun s => w s t0) in *.
    assert (L2 : locally s0 (fun s => is_derive (v s) t0 (vt s) /\ is_derive (w s) t0 (wt s))) by (apply filter_and; assumption).
    destruct b.
    - split; [rcbv; reflexivity|]. exists (fun s => vt s + wt s). split; [|split; [|split]].
      + eapply filter_imp; [|exact L2]. intros s H; cbv beta in H; destruct H as [A B]. apply (is_derive_plus (V:=R_NormedModule) (v s) (w s) t0 _ _ A B).
      + eapply is_derive_val; [apply (is_derive_plus (V:=R_NormedModule) V W s0 _ _ Dvs Dws)|]. rcbv. reflexivity.
      + rcbv; reflexivity.
      + eapply is_derive_val; [apply (is_derive_plus (V:=R_NormedModule) vt wt s0 _ _ Dvt Dwt)|]. rcbv. reflexivity.
    - split; [rcbv; reflexivity|]. exists (fun s => vt s - wt s). split; [|split; [|split]].
      + eapply filter_imp; [|exact L2]. intros s H; cbv beta in H; destruct H as [A B]. apply (is_derive_minus (V:=R_NormedModule) (v s) (w s) t0 _ _ A B).
      + eapply is_derive_val; [apply (is_derive_minus (V:=R_NormedModule) V W s0 _ _ Dvs Dws)|]. rcbv. reflexivity.
      + rcbv; reflexivity.
      + eapply is_derive_val; [apply (is_derive_minus (V:=R_NormedModule) vt wt s0 _ _ Dvt Dwt)|]. rcbv. reflexivity.
    - split; [rcbv; reflexivity|]. exists (fun s => vt s * W s + V s * wt s). split; [|split; [|split]].
      + eapply filter_imp; [|exact L2]. intros s H; cbv beta in H; destruct H as [A B].
        change (is_derive (fun t => v s t * w s t) t0 (vt s * w s t0 + v s t0 * wt s)). auto_derive; [exd|]. un A; un B. ring.
      + change (is_derive (fun s => V s * W s) s0 (HyperDual_f_eps1 (eval_bin B_mul (mkHyperDual (v s0 t0) x1 (vt s0) x12) (mkHyperDual (w s0 t0) y1 (wt s0) y12)))).
        auto_derive; [exd|]. un Dvs; un Dws. rcbv. unfold V, W. ring.
      + rcbv. unfold V, W. ring.
      + auto_derive; [exd|]. un Dvs; un Dws; un Dvt; un Dwt. rcbv. unfold V, W. ring.
    - assert (Hw : w s0 t0 <> 0) by (apply Hd; reflexivity).
      assert (CW : continuous W s0) by (apply (ex_derive_continuous W s0); exists y1; exact Dws).
      assert (Ln : locally s0 (fun s => W s <> 0)) by (apply (CW (fun y => y <> 0)); apply (open_neq 0 (W s0) Hw)).
      split; [rcbv; field; exact Hw|]. exists (fun s => (vt s * W s - V s * wt s) / (W s * W s)). split; [|split; [|split]].
      + eapply filter_imp; [|exact (filter_and _ _ L2 Ln)]. intros s H; cbv beta in H; destruct H as [[A B] C].
        change (is_derive (fun t => v s t / w s t) t0 ((vt s * w s t0 - v s t0 * wt s) / (w s t0 * w s t0))). auto_derive; [exd|]. un A; un B. field. exact C.
      + change (is_derive (fun s => V s / W s) s0 (HyperDual_f_eps1 (eval_bin B_div (mkHyperDual (v s0 t0) x1 (vt s0) x12) (mkHyperDual (w s0 t0) y1 (wt s0) y12)))).
        auto_derive; [exd|]. un Dvs; un Dws. rcbv. unfold V, W. field. exact Hw.
      + rcbv. unfold V, W. field. exact Hw.
      + auto_derive; [exd|]. un Dvs; un Dws; un Dvt; un Dwt. rcbv. unfold V, W. field. exact Hw.
  Qed.

  Lemma repH_scal b v x (c : R) : RepH s0 t0 v x -> (b = B_div -> c <> 0) -> RepH s0 t0 (fun s t => eval_scal (T:=R) b (v s t) c) (eval_scal b x c).
  Proof.
    intros [Hx [vt [Lv [Dvs [Hx2 Dvt]]]]] Hc.
    destruct x as [x0 x1 x2 x12]; simpl in Hx, Hx2, Dvs, Dvt. subst x0 x2. set (V := fun s => v s t0) in *.
    destruct b.
    - split; [rcbv; reflexivity|]. exists vt. split; [|split; [|split]].
      + eapply filter_imp; [|exact Lv]. intros s A; cbv beta in A. change (is_derive (fun t => v s t + c) t0 (vt s)). auto_derive; [exd|]. un A. ring.
      + change (is_derive (fun s => V s + c) s0 x1). auto_derive; [exd|]. un Dvs. ring.
      + rcbv; reflexivity.
      + eapply is_derive_val; [exact Dvt|]. rcbv. reflexivity.
    - split; [rcbv; reflexivity|]. exists vt. split; [|split; [|split]].
      + eapply filter_imp; [|exact Lv]. intros s A; cbv beta in A. change (is_derive (fun t => v s t - c) t0 (vt s)). auto_derive; [exd|]. un A. ring.
      + change (is_derive (fun s => V s - c) s0 x1). auto_derive; [exd|]. un Dvs. ring.
      + rcbv; reflexivity.
      + eapply is_derive_val; [exact Dvt|]. rcbv. reflexivity.
    - split; [rcbv; reflexivity|]. exists (fun s => vt s * c). split; [|split; [|split]].
      + eapply filter_imp; [|exact Lv]. intros s A; cbv beta in A. change (is_derive (fun t => v s t * c) t0 (vt s * c)). auto_derive; [exd|]. un A. ring.
      + change (is_derive (fun s => V s * c) s0 (HyperDual_f_eps1 (eval_scal B_mul (mkHyperDual (v s0 t0) x1 (vt s0) x12) c))). auto_derive; [exd|]. un Dvs. rcbv. ring.
      + rcbv; reflexivity.
      + auto_derive; [exd|]. un Dvt. rcbv. ring.
    - assert (H : c <> 0) by (apply Hc; reflexivity).
      split; [rcbv; reflexivity|]. exists (fun s => vt s / c). split; [|split; [|split]].
      + eapply filter_imp; [|exact Lv]. intros s A; cbv beta in A. change (is_derive (fun t => v s t / c) t0 (vt s / c)). auto_derive; [exd|]. un A. field. exact H.
      + change (is_derive (fun s => V s / c) s0 (HyperDual_f_eps1 (eval_scal B_div (mkHyperDual (v s0 t0) x1 (vt s0) x12) c))). auto_derive; [exd|]. un Dvs. rcbv. field. exact H.
      + rcbv; reflexivity.
      + auto_derive; [exd|]. un Dvt. rcbv. field. exact H.
  Qed.

  (* composition with a function whose derivative steps T0' = T1, T1' = T2 hold on an open set containing v(s0,t0) *)
  Lemma repH_compose (T0 T1 T2 : R -> R) (dom : R -> Prop) v (x r : HyperDual R) :
    (forall z, dom z -> locally z dom) -> (forall z, dom z -> is_derive T0 z (T1 z)) -> (forall z, dom z -> is_derive T1 z (T2 z)) ->
    RepH s0 t0 v x -> dom (v s0 t0) ->
    HyperDual_f_re r = T0 (v s0 t0) -> HyperDual_f_eps1 r = T1 (v s0 t0) * HyperDual_f_eps1 x -> HyperDual_f_eps2 r = T1 (v s0 t0) * HyperDual_f_eps2 x ->
    HyperDual_f_eps1eps2 r = T1 (v s0 t0) * HyperDual_f_eps1eps2 x + T2 (v s0 t0) * HyperDual_f_eps1 x * HyperDual_f_eps2 x ->
    RepH s0 t0 (fun s t => T0 (v s t)) r.
  Proof.
    intros Hopen H1 H2 [Hx [vt [Lv [Dvs [Hx2 Dvt]]]]] Hd E0 E1 E2 E12.
    set (V := fun s => v s t0) in *. rewrite Hx2 in E2, E12.
    assert (C : continuous V s0) by (apply (ex_derive_continuous V s0); eexists; exact Dvs).
    assert (Ld : locally s0 (fun s => dom (V s))) by exact (C dom (Hopen _ Hd)).
    split; [exact E0|]. exists (fun s => T1 (V s) * vt s). split; [|split; [|split]].
    - eapply filter_imp; [|exact (filter_and _ _ Ld Lv)]. intros s H; cbv beta in H; destruct H as [Ds A].
      pose proof (H1 _ Ds) as B. unfold V in B. change (is_derive (fun t => T0 (v s t)) t0 (T1 (v s t0) * vt s)). auto_derive; [exd|]. un A; un B. ring.
    - rewrite E1. pose proof (H1 _ Hd) as B. change (v s0 t0) with (V s0) in B. change (is_derive V s0 (HyperDual_f_eps1 x)) in Dvs.
      change (is_derive (fun s => T0 (V s)) s0 (T1 (V s0) * HyperDual_f_eps1 x)). auto_derive; [exd|]. un Dvs; un B. ring.
    - rewrite E2. reflexivity.
    - rewrite E12. pose proof (H2 _ Hd) as B2. change (v s0 t0) with (V s0) in B2. change (is_derive V s0 (HyperDual_f_eps1 x)) in Dvs.
      change (v s0 t0) with (V s0). auto_derive; [exd|]. un Dvs; un Dvt; un B2. ring.
  Qed.

  Lemma repH_ext_loc (f g : R -> R -> R) r : RepH s0 t0 f r -> locally s0 (fun s => locally t0 (fun t => f s t = g s t)) -> RepH s0 t0 g r.
  Proof.
    intros [A [ft [L1 [D1 [B2 D2]]]]] H.
    assert (H0 : locally s0 (fun s => f s t0 = g s t0)).
    { eapply filter_imp; [|exact H]. intros s Hs. exact (locally_singleton _ _ Hs). }
    split; [rewrite A; exact (locally_singleton _ _ H0)|].
    exists ft. split; [|split; [|split]]; try assumption.
    - eapply filter_imp; [|exact (filter_and _ _ H L1)]. intros s K; cbv beta in K; destruct K as [K1 K2].
      apply (is_derive_ext_loc (f s) (g s) t0 _ K1 K2).
    - apply (is_derive_ext_loc (fun s => f s t0) (fun s => g s t0) s0 _ H0 D1).
  Qed.

  Lemma repH_un u v x : RepH s0 t0 v x -> dom_un u (v s0 t0) -> RepH s0 t0 (fun s t => eval_un (T:=R) u (v s t)) (eval_un u x).
  Proof.
    intros H Hd. destruct (unop_eq_neg u) as [->|Hu].
    - destruct H as [Hx [vt [Lv [Dvs [Hx2 Dvt]]]]].
      destruct x as [x0 x1 x2 x12]; simpl in Hx, Hx2, Dvs, Dvt. subst x0 x2.
      split; [rcbv; reflexivity|]. exists (fun s => - vt s). split; [|split; [|split]].
      + eapply filter_imp; [|exact Lv]. intros s A; cbv beta in A. change (is_derive (fun t => - v s t) t0 (- vt s)). auto_derive; [exd|]. un A. ring.
      + change (is_derive (fun s => - (fun s' => v s' t0) s) s0 (- x1)). auto_derive; [exd|]. un Dvs. ring.
      + rcbv; reflexivity.
      + auto_derive; [exd|]. un Dvt. rcbv. ring.
    - pose proof H as [Hx _].
      assert (Hdx : dom_un u (part_HyperDual x nil)) by (change (dom_un u (HyperDual_f_re x)); rewrite Hx; exact Hd).
      pose proof (jf_un _ _ _ _ _ JA_c04_HyperDual u x Hu I Hdx nil ltac:(left; reflexivity)) as E0.
      pose proof (jf_un _ _ _ _ _ JA_c04_HyperDual u x Hu I Hdx (1 :: nil)%nat ltac:(right; left; reflexivity)) as E1.
      pose proof (jf_un _ _ _ _ _ JA_c04_HyperDual u x Hu I Hdx (2 :: nil)%nat ltac:(right; right; left; reflexivity)) as E2.
      pose proof (jf_un _ _ _ _ _ JA_c04_HyperDual u x Hu I Hdx (1 :: 2 :: nil)%nat ltac:(right; right; right; left; reflexivity)) as E12.
      rewrite faa_nil in E0. rewrite faa_one in E1, E2. rewrite faa_two in E12.
      change (part_HyperDual x nil) with (HyperDual_f_re x) in E0, E1, E2, E12.
      change (part_HyperDual (eval_un u x) nil) with (HyperDual_f_re (eval_un u x)) in E0.
      change (part_HyperDual (eval_un u x) (1 :: nil)%nat) with (HyperDual_f_eps1 (eval_un u x)) in E1.
      change (part_HyperDual (eval_un u x) (2 :: nil)%nat) with (HyperDual_f_eps2 (eval_un u x)) in E2.
      change (part_HyperDual (eval_un u x) (1 :: 2 :: nil)%nat) with (HyperDual_f_eps1eps2 (eval_un u x)) in E12.
      change (part_HyperDual x (1 :: nil)%nat) with (HyperDual_f_eps1 x) in E1, E12. change (part_HyperDual x (2 :: nil)%nat) with (HyperDual_f_eps2 x) in E2, E12.
      change (part_HyperDual x (1 :: 2 :: nil)%nat) with (HyperDual_f_eps1eps2 x) in E12.
      rewrite Hx in E0, E1, E2, E12.
      apply (repH_ext_loc (fun s t => tw_un u (v s t) 0)).
      + apply (repH_compose (fun z => tw_un u z 0) (fun z => tw_un u z 1) (fun z => tw_un u z 2) (dom_un u) v x (eval_un u x)).
        * intros z Hz. apply dom_un_open; exact Hz.
        * intros z Hz. apply tw_un_derive; assumption.
        * intros z Hz. apply tw_un_derive2; assumption.
        * exact H.
        * exact Hd.
        * exact E0.
        * exact E1.
        * exact E2.
        * exact E12.
      + apply locally_true. intros s. apply locally_true. intros t. rewrite eval_un_R_all. destruct u; reflexivity.
  Qed.

  Lemma repH_powi n v x : RepH s0 t0 v x -> pw_ok n (v s0 t0) -> RepH s0 t0 (fun s t => m_powi (v s t : R) n) (m_powi x n).
  Proof.
    intros H Hp. pose proof H as [Hx [vt [Lv [Dvs _]]]].
    set (tw := tw3 (fun q => m_powi q n)).
    pose proof (jf_powi _ _ _ _ _ JA_c04_HyperDual n x I I nil ltac:(left; reflexivity)) as E0.
    pose proof (jf_powi _ _ _ _ _ JA_c04_HyperDual n x I I (1 :: nil)%nat ltac:(right; left; reflexivity)) as E1.
    pose proof (jf_powi _ _ _ _ _ JA_c04_HyperDual n x I I (2 :: nil)%nat ltac:(right; right; left; reflexivity)) as E2.
    pose proof (jf_powi _ _ _ _ _ JA_c04_HyperDual n x I I (1 :: 2 :: nil)%nat ltac:(right; right; right; left; reflexivity)) as E12.
    rewrite faa_nil in E0. rewrite faa_one in E1, E2. rewrite faa_two in E12.
    change (part_HyperDual x nil) with (HyperDual_f_re x) in E0, E1, E2, E12.
    change (part_HyperDual (m_powi x n) nil) with (HyperDual_f_re (m_powi x n)) in E0.
    change (part_HyperDual (m_powi x n) (1 :: nil)%nat) with (HyperDual_f_eps1 (m_powi x n)) in E1.
    change (part_HyperDual (m_powi x n) (2 :: nil)%nat) with (HyperDual_f_eps2 (m_powi x n)) in E2.
    change (part_HyperDual (m_powi x n) (1 :: 2 :: nil)%nat) with (HyperDual_f_eps1eps2 (m_powi x n)) in E12.
    change (part_HyperDual x (1 :: nil)%nat) with (HyperDual_f_eps1 x) in E1, E12. change (part_HyperDual x (2 :: nil)%nat) with (HyperDual_f_eps2 x) in E2, E12.
    change (part_HyperDual x (1 :: 2 :: nil)%nat) with (HyperDual_f_eps1eps2 x) in E12.
    rewrite Hx in E0, E1, E2, E12. fold tw in E0, E1, E2, E12.
    apply (repH_ext_loc (fun s t => tw (v s t) 0%nat)).
    - apply (repH_compose (fun z => tw z 0%nat) (fun z => tw z 1%nat) (fun z => tw z 2%nat) (pw_ok n) v x (m_powi x n)).
      + intros z Hz. apply pw_ok_open; exact Hz.
      + intros z Hz. apply (powi_tower_any n z Hz).
      + intros z Hz. apply (powi_tower_any n z Hz).
      + exact H.
      + exact Hp.
      + exact E0.
      + exact E1.
      + exact E2.
      + exact E12.
    - (* near (s0, t0) the base stays in the set where the tower's value is the power *)
      assert (C : continuous (fun s => v s t0) s0) by (apply (ex_derive_continuous (fun s => v s t0) s0); eexists; exact Dvs).
      assert (Ls : locally s0 (fun s => pw_ok n (v s t0))) by exact (C (pw_ok n) (pw_ok_open n (v s0 t0) Hp)).
      eapply filter_imp; [|exact (filter_and _ _ Ls Lv)]. intros s K; cbv beta in K; destruct K as [Ps Ds].
      assert (Ct : continuous (v s) t0) by (apply (ex_derive_continuous (v s) t0); eexists; exact Ds).
      assert (Lt : locally t0 (fun t => pw_ok n (v s t))) by exact (Ct (pw_ok n) (pw_ok_open n (v s t0) Ps)).
      eapply filter_imp; [|exact Lt]. intros t Pt; cbv beta in Pt. apply (powi_tower_any n (v s t) Pt).
  Qed.

  (* ---- the theorem ---- *)
  Definition at_st (envV : list (R -> R -> R)) (s t : R) : list R := map (fun v => v s t) envV.
  Theorem mixed_second_order p : forall (envV : list (R -> R -> R)) (envD : list (HyperDual R)),
    Forall2 (RepH s0 t0) envV envD -> okR (at_st envV s0 t0) p ->
    RepH s0 t0 (fun s t => eval (T:=R) (at_st envV s t) p) (eval envD p).
  Proof.
    induction p as [i|c|u a IH|b a IHa c IHc|b a IH c|a IH n|a IHa body IHb]; intros envV envD HE Hok; simpl in *.
    - unfold at_st in Hok; rewrite map_length in Hok. revert i Hok. induction HE as [|x y ex ey Hxy HE' IHE]; intros i Hi; simpl in *; [lia|].
      destruct i; [|apply IHE; lia]. apply (repH_ext_loc x); [exact Hxy|]. apply locally_true; intros; apply locally_true; intros; reflexivity.
    - apply repH_const.
    - destruct Hok as [Ha Hd]. apply (repH_un u (fun s t => eval (T:=R) (at_st envV s t) a)); [apply IH; assumption|exact Hd].
    - destruct Hok as [Ha [Hc Hd]]. apply (repH_bin b (fun s t => eval (T:=R) (at_st envV s t) a) (fun s t => eval (T:=R) (at_st envV s t) c)); [apply IHa|apply IHc|]; assumption.
    - destruct Hok as [Ha Hc]. apply (repH_scal b (fun s t => eval (T:=R) (at_st envV s t) a)); [apply IH; assumption|exact Hc].
    - destruct Hok as [Ha Hp]. apply (repH_powi n (fun s t => eval (T:=R) (at_st envV s t) a)); [apply IH; assumption|exact Hp].
    - destruct Hok as [Ha Hb].
      pose proof (IHa envV envD HE Ha) as Ra.
      assert (HE' : Forall2 (RepH s0 t0) (envV ++ ((fun s t => eval (T:=R) (at_st envV s t) a) :: nil)) (envD ++ (eval envD a :: nil))).
      { apply Forall2_app; [assumption|]. constructor; [exact Ra|constructor]. }
      assert (Hm : forall s t, at_st (envV ++ ((fun s t => eval (T:=R) (at_st envV s t) a) :: nil)) s t = at_st envV s t ++ (eval (T:=R) (at_st envV s t) a :: nil)).
      { intros s t. unfold at_st. rewrite map_app. reflexivity. }
      specialize (IHb _ _ HE'). rewrite Hm in IHb. specialize (IHb Hb).
      apply (repH_ext_loc _ _ _ IHb). apply locally_true. intros s. apply locally_true. intros t. simpl. rewrite Hm. reflexivity.
  Qed.
End Mixed.

(* the second_partial_derivative seeds: x in direction 1, y in direction 2 *)
Corollary second_partial_program p x y : okR (x :: y :: nil) p ->
  let h := eval (mkHyperDual x 1 0 0 :: mkHyperDual y 0 1 0 :: nil) p in
  let f := fun s t => eval (T:=R) (s :: t :: nil) p in
  HyperDual_f_re h = f x y /\
  exists ft : R -> R, locally x (fun s => is_derive (f s) y (ft s)) /\ is_derive (fun s => f s y) x (HyperDual_f_eps1 h) /\
    HyperDual_f_eps2 h = ft x /\ is_derive ft x (HyperDual_f_eps1eps2 h).
Proof.
  intros Hok. assert (HE : Forall2 (RepH x y) ((fun s _ => s) :: (fun _ t => t) :: nil) (mkHyperDual x 1 0 0 :: mkHyperDual y 0 1 0 :: nil)).
  { constructor; [|constructor; [|constructor]].
    - split; [reflexivity|]. exists (fun _ => 0). split; [|split; [|split]].
      + apply locally_true. intros s. apply (is_derive_const (V:=R_NormedModule) s y).
      + apply (is_derive_id (K:=R_AbsRing) x).
      + reflexivity.
      + apply (is_derive_const (V:=R_NormedModule) 0 x).
    - split; [reflexivity|]. exists (fun _ => 1). split; [|split; [|split]].
      + apply locally_true. intros s. apply (is_derive_id (K:=R_AbsRing) y).
      + apply (is_derive_const (V:=R_NormedModule) y x).
      + reflexivity.
      + apply (is_derive_const (V:=R_NormedModule) 1 x). }
  exact (mixed_second_order x y p _ _ HE Hok).
Qed.
