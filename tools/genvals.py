"""Generators of operand values (bit patterns) for the dual number types."""
import math
import vlib
from vlib import f2b, f2b32


def enc_leaf(x, width):
    return f2b(x) if width == 64 else f2b32(x)


def leaf_grid(rng):
    """small dyadic rational k * 2^-4, |k| <= 64"""
    return (rng.below(129) - 64) / 16.0


def leaf_rand(rng):
    k = rng.below(10)
    if k == 0:
        return 0.0
    if k == 1:
        return rng.choice([1.0, -1.0])
    if k == 2:
        return rng.choice([1e-3, -1e-3, 2.5e-5, -7e-4]) * rng.uniform(0.5, 2)
    if k == 3:
        return rng.choice([1e3, -1e3, 3.7e4]) * rng.uniform(0.5, 2)
    return rng.uniform(-4, 4)


def gen_value(rng, ty, leaf, re_leaf=None, presence=None):
    """leaf: rng -> float for derivative parts; re_leaf: rng -> float for the innermost real part (default = leaf);
    presence: None = random per optional part, True = all present, False = all absent"""
    w = ty.leaf().width

    def go(t, is_re_path):
        if t.is_float:
            x = (re_leaf or leaf)(rng) if is_re_path else leaf(rng)
            return enc_leaf(x, w)
        out = []
        for k, fld in enumerate(t.fields()):
            if fld['kind'] == 'T':
                out.append(go(t.inner, is_re_path and k == 0))
            else:
                pres = presence if presence is not None else (rng.below(3) != 0)
                if not pres:
                    out.append(None)
                else:
                    r, c = t.shape(fld)
                    out.append((r, c, [go(t.inner, False) for _ in range(r * c)]))
        return out
    return go(ty, True)


def densify(v, ty):
    """replace every absent part by explicit zeros"""
    if ty.is_float:
        return v
    out = []
    for fld, x in zip(ty.fields(), v):
        if fld['kind'] == 'T':
            out.append(densify(x, ty.inner))
        elif x is None:
            r, c = ty.shape(fld)
            out.append((r, c, [zero_value(ty.inner) for _ in range(r * c)]))
        else:
            out.append((x[0], x[1], [densify(e, ty.inner) for e in x[2]]))
    return out


def zero_value(ty):
    if ty.is_float:
        return 0
    out = []
    for fld in ty.fields():
        out.append(zero_value(ty.inner) if fld['kind'] == 'T' else None)
    return out


def real_part(v, ty):
    """innermost real part as a python float"""
    while not ty.is_float:
        v, ty = v[0], ty.inner
    return vlib.b2f(v) if ty.width == 64 else vlib.b2f32(v)


QUICK_TYPES = ['Dual64', 'Dual2_64', 'Dual3_64', 'HyperDual64', 'HyperHyperDual64', 'DualSVec64_2', 'DualDVec64:3', 'Dual2SVec64_2',
               'Dual2DVec64:3', 'HyperDualSVec64_2_3', 'HyperDualDVec64:3:2', 'Dual_Dual64', 'Dual2_Dual64', 'Dual_Dual_Dual64']
ALL64_TYPES = None


def type_list(tier, include32=False):
    T = vlib.types()
    if tier == 'quick':
        names = list(QUICK_TYPES)
    else:
        names = [n for n, t in T.items() if not t.is_float and t.width == 64]
    if include32:
        names += [n for n, t in T.items() if not t.is_float and t.width == 32] if tier != 'quick' else ['Dual32', 'Dual2SVec32_2']
    return [T[n] for n in names]
