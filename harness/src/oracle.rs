// Oracle helper: evaluates the standard-library float functions the model treats as primitives, on bit patterns.
// Input lines:  <width 64|32> <fn id> <arg1> <arg2> <arg3>   (decimal integers: bit patterns, or the integer exponent
// for powi).  Output: the same line followed by the result bit pattern (decimal).
use std::io::{BufRead, Write};

macro_rules! table {
    ($t:ty, $bits:ty, $id:expr, $a:expr, $b:expr, $c:expr) => {{
        let x = <$t>::from_bits($a as $bits);
        let y = <$t>::from_bits($b as $bits);
        let z = <$t>::from_bits($c as $bits);
        let r: $t = match $id {
            1 => x.exp(), 2 => x.exp2(), 3 => x.exp_m1(), 4 => x.ln(), 5 => x.log2(), 6 => x.log10(), 7 => x.ln_1p(),
            8 => x.sin(), 9 => x.cos(), 10 => x.tan(), 11 => x.asin(), 12 => x.acos(), 13 => x.atan(),
            14 => x.sinh(), 15 => x.cosh(), 16 => x.tanh(), 17 => x.asinh(), 18 => x.acosh(), 19 => x.atanh(), 20 => x.cbrt(),
            30 => x.powf(y), 31 => x.atan2(y), 32 => x.log(y), 33 => x.hypot(y), 34 => x.copysign(y),
            40 => x.powi($b as i64 as i32),
            41 => x.mul_add(y, z),
            50 => ((x as f32) as f64) as $t,
            100 => <$t as num_traits::FloatConst>::E(), 101 => <$t as num_traits::FloatConst>::FRAC_1_PI(),
            102 => <$t as num_traits::FloatConst>::FRAC_1_SQRT_2(), 103 => <$t as num_traits::FloatConst>::FRAC_2_PI(),
            104 => <$t as num_traits::FloatConst>::FRAC_2_SQRT_PI(), 105 => <$t as num_traits::FloatConst>::FRAC_PI_2(),
            106 => <$t as num_traits::FloatConst>::FRAC_PI_3(), 107 => <$t as num_traits::FloatConst>::FRAC_PI_4(),
            108 => <$t as num_traits::FloatConst>::FRAC_PI_6(), 109 => <$t as num_traits::FloatConst>::FRAC_PI_8(),
            110 => <$t as num_traits::FloatConst>::LN_10(), 111 => <$t as num_traits::FloatConst>::LN_2(),
            112 => <$t as num_traits::FloatConst>::LOG10_E(), 113 => <$t as num_traits::FloatConst>::LOG2_E(),
            114 => <$t as num_traits::FloatConst>::PI(), 115 => <$t as num_traits::FloatConst>::SQRT_2(),
            116 => <$t as num_traits::FloatConst>::TAU(), 117 => <$t as num_traits::FloatConst>::LOG2_10(),
            118 => <$t as num_traits::FloatConst>::LOG10_2(),
            _ => <$t>::NAN,
        };
        r.to_bits() as u64
    }};
}

pub fn serve() {
    let stdin = std::io::stdin();
    let stdout = std::io::stdout();
    let mut w = std::io::BufWriter::new(stdout.lock());
    for line in stdin.lock().lines() {
        let line = line.unwrap();
        let p: Vec<i128> = line.split_whitespace().map(|s| s.parse::<i128>().unwrap()).collect();
        if p.len() < 5 {
            continue;
        }
        let (wd, id, a, b, c) = (p[0], p[1], p[2], p[3], p[4]);
        let r = if wd == 64 { table!(f64, u64, id, a, b, c) } else { table!(f32, u32, id, a, b, c) };
        writeln!(w, "{} {} {} {} {} {}", wd, id, a, b, c, r).unwrap();
    }
}
