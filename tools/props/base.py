"""Generic flow of one property check (see ./check).  Property modules subclass BaseProp."""
import os, sys, json, time, hashlib, re
import vlib
from vlib import log, InfraError, Case, Rng


class Violation:
    def __init__(self, kind, what, case=None, expected=None, obtained=None, detail=None, name=None):
        self.kind = kind          # 'counterexample' | 'obligation-broken' | 'correspondence-broken'
        self.what = what          # one line
        self.case = case          # vlib.Case or dict
        self.expected, self.obtained, self.detail, self.name = expected, obtained, detail, name
        self.finding = None

    def to_json(self, pid, seed, repo_hash):
        c = self.case.describe() if isinstance(self.case, Case) else self.case
        return {'property': pid, 'kind': self.kind, 'what': self.what, 'obligation_or_correspondence': self.name, 'tier': getattr(self, 'tier', None),
                'case': c, 'expected': self.expected, 'obtained': self.obtained, 'detail': self.detail,
                'seed': seed, 'repo_hash': repo_hash}


class BaseProp:
    coq_targets = []            # Proofs/*.vo needed by Props/<id>.v
    extra_model_targets = []
    extra_imports = ''
    technique = 'Coq proof over the generated model + bit-exact correspondence'
    trusted_base = [
        'Coq 8.16.1 kernel and vm_compute (primitive floats / Uint63 for the executable binary64 instance); no native_compute',
        'axioms: classical reals of the standard library (ClassicalDedekindReals.sig_forall_dec, sig_not_dec, '
        'functional_extensionality_dep) and Classical_Prop.classic, as reported by Print Assumptions under every theorem',
        'translator: nightly rustc macro expansion, syn front end (tools/front), emitter (tools/emit*.py), hand-written vocabulary coq/ND/Base',
        'correspondence harness (harness/, tools/vlib.py) and the libm oracle helper (same std functions as the crate)',
    ]

    def __init__(self, pid, tier, seed):
        self.pid, self.tier, self.seed = pid, tier, seed
        self.rng = Rng(seed).fork(pid)
        self.t0 = time.time()
        self.broken = []           # Violation (obligation-broken / correspondence-broken)
        self.violations = []       # Violation (counterexample)
        self.cov = {}
        self.assumptions = []

    # ---- to be provided by the property ----
    def cases(self, rng, n):
        return []

    def oracle(self, case, impl):
        """check the property's own statement on one implementation result; return a Violation or None"""
        return None

    def search_cases(self, rng, n):
        return self.cases(rng, n)

    def nontrivial(self, case, impl):
        return impl != 'panic'

    def model_applicable(self, case):
        return case.ty.leaf().width == 64

    def extra_checks(self):
        """property-specific steps after the generic ones (may append to self.broken / self.violations)"""

    n_quick, n_thorough = 300, 5000
    model_shard, model_rounds = 400, 8

    # ---- flow ----
    def run(self):
        pid = self.pid
        gi = vlib.ensure_gen()
        self.repo_hash = gi['hash']
        self.step_proofs()
        self.step_correspondence()
        self.extra_checks()
        if (self.broken and not self.new_violations()) or os.environ.get('VERIF_FORCE_SEARCH'):
            self.step_search()
        return self.report()

    def step_proofs(self):
        pid = self.pid
        t = time.time()
        model_targets = ['ND/Base/F64Inst.vo'] + ['gen/Gen_%s.vo' % n for n in ('Float', 'Derivative', 'Dual', 'Dual2', 'Dual3', 'HyperDual',
                                                                            'HyperHyperDual', 'DualVec', 'Dual2Vec', 'HyperDualVec')]
        ok, out = vlib.coq_make(self.coq_targets + model_targets + self.extra_model_targets)
        errs = vlib.coq_errors(out) if not ok else []
        if not ok and not errs:
            if 'Timeout' in out or 'timed out' in out:
                raise InfraError('coq build timed out')
            errs = [{'file': '?', 'line': 0, 'lemma': None, 'message': out[-800:]}]
        for e in errs:
            self.broken.append(Violation('obligation-broken', 'proof obligation no longer checks: %s (%s:%d) %s' % (
                e['lemma'], e['file'], e['line'], e['message'].split('\n')[0][:200]), name=e['lemma'], detail=e))
        pr = vlib.compile_props(pid) if not errs else {'ok': False, 'theorems': self.theorem_names(), 'assumptions': {}, 'errors': [], 'bad_axioms': []}
        for e in pr.get('errors', []):
            self.broken.append(Violation('obligation-broken', 'property theorem no longer checks: %s %s' % (e['lemma'], e['message'].split('\n')[0][:200]),
                                         name=e['lemma'], detail=e))
        for thm, ax in pr.get('bad_axioms', []):
            self.broken.append(Violation('obligation-broken', 'theorem %s depends on an axiom outside the allow-list: %s' % (thm, ax), name=thm))
        bad = vlib.source_audit()
        for b in bad:
            self.broken.append(Violation('obligation-broken', 'audit: forbidden construct in the development: ' + b, name='audit'))
        self.theorems = pr['theorems']
        self.discharged = len(pr['theorems']) if pr['ok'] and not bad else 0
        axs = set()
        for v in pr.get('assumptions', {}).values():
            axs.update(v)
        self.assumptions = sorted(axs)
        self.cov['proof_wall_s'] = round(time.time() - t, 1)
        log('%s: %d/%d theorems discharged, %d broken' % (pid, self.discharged, len(self.theorems), len(self.broken)))

    def theorem_names(self):
        src = vlib.COQ + '/ND/Props/%s.v' % self.pid
        return re.findall(r'^\s*Theorem\s+(\w+)', vlib.strip_coq_comments(open(src).read()), re.M)

    def step_correspondence(self):
        n = self.n_quick if self.tier == 'quick' else self.n_thorough
        cases = self.cases(self.rng.fork('cases'), n)
        self.cases_run = cases
        if not cases:
            return
        t = time.time()
        exe = vlib.build_harness('dev')
        self.exe = exe
        impl = vlib.run_impl(exe, cases)
        if self.tier == 'thorough':
            exe_r = vlib.build_harness('release')
            impl_r = vlib.run_impl(exe_r, cases)
            ndiff = 0
            for c in cases:
                if impl[c.id] != impl_r[c.id]:
                    ndiff += 1
                    v = self.debug_release_differ(c, impl[c.id], impl_r[c.id])
                    if v:
                        self.violations.append(v)
            self.cov['debug_vs_release_differences'] = ndiff
        self.impl_results = impl
        self.case_by_id = {c.id: c for c in cases}
        mcases = [c for c in cases if self.model_applicable(c)]
        model, mstats = vlib.run_model(mcases, self.pid, extra_imports=self.extra_imports, oracle_exe=exe, shard=self.model_shard, max_rounds=self.model_rounds)
        self.cov['model_stats'] = mstats
        agree = dis = merr = 0
        for c in mcases:
            m, i = model[c.id], impl[c.id]
            if isinstance(m, tuple) and m and m[0] == 'error':
                merr += 1
                self.broken.append(Violation('correspondence-broken', 'model cannot be evaluated for %s %s: %s' % (c.ty, c.op, m[1][-300:].replace('\n', ' ')),
                                             case=c, name='correspondence:%s:%s' % (c.ty.struct or 'float', c.op)))
                continue
            if self.same(c, m, i):
                agree += 1
            else:
                dis += 1
                if dis <= 20:
                    self.broken.append(Violation('correspondence-broken', 'model and implementation differ on %s %s' % (c.ty, c.op), case=c,
                                                 expected={'model': m}, obtained={'implementation': i}, name='correspondence:%s:%s' % (c.ty.struct or 'float', c.op)))
        self.cov['correspondence'] = {'cases': len(mcases), 'agree': agree, 'disagree': dis, 'model_errors': merr}
        # property oracle on the implementation, always on
        seen = set()
        nontriv = 0
        dist = {}
        for c in cases:
            v = self.oracle(c, impl[c.id])
            if v is not None:
                self.violations.append(v)
            key = (c.ty.hname, c.op, tuple(c.aux), json.dumps(c.args))
            if key not in seen:
                seen.add(key)
                if self.nontrivial(c, impl[c.id]):
                    nontriv += 1
            k2 = '%s/%s' % (c.op, c.tag or '-')
            dist[k2] = dist.get(k2, 0) + 1
        self.cov['evaluations'] = len(cases)
        self.cov['distinct_nontrivial'] = nontriv
        self.cov['distribution'] = dist
        tdist = {}
        for c in cases:
            tdist[c.ty.hname] = tdist.get(c.ty.hname, 0) + 1
        self.cov['types'] = tdist
        self.cov['samples'] = [dict(c.describe(), implementation=impl[c.id]) for c in cases[:: max(1, len(cases) // 6)][:6]]
        self.cov['correspondence_wall_s'] = round(time.time() - t, 1)
        log('%s: correspondence %s; oracle violations %d' % (self.pid, self.cov['correspondence'], len(self.violations)))

    def same(self, case, model, impl):
        return model == impl

    def debug_release_differ(self, c, d, r):
        return Violation('counterexample', 'debug and release builds disagree on %s %s' % (c.ty, c.op), case=c, expected={'debug': d}, obtained={'release': r})

    def step_search(self):
        """something broke and the sample found no failing input: look harder on the implementation"""
        n = 4000 if self.tier == 'quick' else 40000
        log('%s: obligations/correspondence broken, searching the implementation for a failing input (%d cases)' % (self.pid, n))
        cases = self.search_cases(self.rng.fork('search'), n)
        if not cases:
            return
        exe = getattr(self, 'exe', None) or vlib.build_harness('dev')
        impl = vlib.run_impl(exe, cases)
        self.impl_results = impl
        self.case_by_id = {c.id: c for c in cases}
        for c in cases:
            v = self.oracle(c, impl[c.id])
            if v is not None:
                self.violations.append(v)
                if len(self.new_violations()) >= 3:
                    break
        self.cov['search_cases'] = len(cases)

    # ---- known findings ----
    def classify(self, v):
        """id of the known finding that covers this violation, or None"""
        for f in vlib.known_findings():
            if f['property'] != self.pid or f.get('status') != 'open':
                continue
            if self.finding_matches(f, v):
                return f['id']
        return None

    def finding_matches(self, f, v):
        m = f.get('match', {})
        c = v.case
        if not isinstance(c, Case):
            return False
        if 'op' in m and c.op not in m['op']:
            return False
        if 'type' in m and not re.search(m['type'], c.ty.hname):
            return False
        if 'cond' in m:
            env = self.finding_env(c)
            try:
                return bool(eval(m['cond'], {'__builtins__': {}}, dict(env, abs=abs, min=min, max=max)))
            except Exception:
                return False
        return True

    def finding_env(self, c):
        env = {'aux': list(c.aux)}
        if c.args:
            x = c.args[0]
            t = c.ty
            while not t.is_float:
                x, t = x[0], t.inner
            env['x'] = vlib.b2f(x) if t.width == 64 else vlib.b2f32(x)
        if len(c.args) > 1:
            x = c.args[1]
            t = c.ty
            while not t.is_float:
                x, t = x[0], t.inner
            env['y'] = vlib.b2f(x) if t.width == 64 else vlib.b2f32(x)
        return env

    def new_violations(self):
        out = []
        for v in self.violations:
            if v.finding is None:
                v.finding = self.classify(v) or ''
            if not v.finding:
                out.append(v)
        return out

    # ---- report ----
    def report(self):
        pid = self.pid
        new = self.new_violations()
        known = {}
        for v in self.violations:
            if v.finding:
                known.setdefault(v.finding, v)
        for fid, v in sorted(known.items()):
            print('KNOWN-FINDING: property=%s %s: %s' % (pid, fid, v.what))
        rc = 0
        lines = []
        os.makedirs(vlib.ROOT + '/replays', exist_ok=True)
        if new:
            rc = 1
            for v in new[:3]:
                lines.append('VIOLATION property=%s replay=%s' % (pid, self.write_replay(v)))
                log('violation: ' + v.what)
        elif self.broken:
            rc = 1
            v = self.broken[0]
            v.detail = {'first': v.detail, 'all_broken': [b.what for b in self.broken[:30]]}
            lines.append('VIOLATION property=%s replay=%s no-failing-input-found' % (pid, self.write_replay(v)))
            for b in self.broken[:10]:
                log('broken: ' + b.what)
        self.write_evidence(len(new) + (1 if (self.broken and not new) else 0))
        for l in lines:
            print(l)
        if rc == 0:
            print('OK property=%s tier=%s theorems=%d/%d evaluations=%d wall=%.0fs' % (
                pid, self.tier, self.discharged, len(self.theorems), self.cov.get('evaluations', 0), time.time() - self.t0))
        return rc

    def write_replay(self, v):
        v.tier = self.tier
        j = v.to_json(self.pid, self.seed, getattr(self, 'repo_hash', ''))
        h = hashlib.sha256(json.dumps(j, sort_keys=True, default=str).encode()).hexdigest()[:10]
        path = '%s/replays/%s-%s.json' % (vlib.ROOT, self.pid, h)
        j['command'] = './check %s --replay %s' % (self.pid, path)
        vlib.write_json(path, j)
        return path

    def write_evidence(self, nviol):
        cov = dict(self.cov)
        cov.update({
            'obligations': len(self.theorems), 'discharged': self.discharged,
            'checker_cmd': 'make -C /verif/coq %s && coqc ND/Props/%s.v (full .vo build, Print Assumptions parsed against an allow-list)' % (
                ' '.join(self.coq_targets), self.pid),
            'trusted_base': self.trusted_base + ['axioms reported this run: ' + (', '.join(self.assumptions) or 'none')],
            'theorems': self.theorems,
            'rule': self.rule_text(),
            'broken': [b.what for b in self.broken[:20]],
            'translator_coverage': self.translator_coverage(),
            'known_findings_seen': sorted(set(v.finding for v in self.violations if v.finding)),
        })
        if self.discharged == 0:
            # a run whose obligations broke: keep the file schema-valid through the generic counts
            cov['obligations_total'] = cov.pop('obligations')
            cov['discharged_count'] = cov.pop('discharged')
        cov.setdefault('evaluations', 0)
        cov.setdefault('distinct_nontrivial', 0)
        cov.setdefault('samples', [{'theorem': t} for t in self.theorems[:5]])
        ev = {'property_id': self.pid, 'tier': self.tier, 'seed': self.seed, 'level': 'proof', 'coverage': cov,
              'assumptions': self.assumption_text(), 'wall_s': round(time.time() - self.t0, 1), 'violations': nviol}
        vlib.write_json('%s/evidence/%s.json' % (vlib.ROOT, self.pid), ev)

    def rule_text(self):
        return ('cases are generated from one splitmix64 state (VERIF_SEED); a case is distinct by (type, operation, operand bit patterns) '
                'and non-trivial when the implementation returns a value (no panic) with at least one non-zero derivative part')

    def assumption_text(self):
        return ['the Gallina model is what tools/emit.py generates from the macro-expanded source (translator trusted, validated by the bit-exact correspondence)',
                'libm functions are looked up from the same Rust build (oracle table), never modelled']

    def translator_coverage(self):
        try:
            cov = vlib.coverage()
        except OSError:
            return {}
        return {'functions': len(cov), 'translated': sum(1 for c in cov if c['translated']),
                'untranslated': sorted(set('%s::%s (%s)' % (c['section'], c['fn'], c['why']) for c in cov if not c['translated']))[:40]}

    # ---- replay ----
    def replay(self, path):
        j = json.load(open(path))
        c = j.get('case')
        if not c or 'type' not in c or 'operands' not in c or getattr(self, 'replay_whole', False):
            # obligations, correspondences and violations that involve several evaluations (pairs, histories, matrices, drivers) are replayed by
            # re-running the check with the recorded seed and tier: the generators are deterministic, so the same inputs are produced again
            print('replay %s (%s): re-running the whole check with seed %s' % (path, j.get('obligation_or_correspondence') or j.get('what', '')[:80], j.get('seed')))
            if j.get('seed') is not None:
                self.seed = j['seed']
                self.rng = Rng(self.seed).fork(self.pid)
            if j.get('tier') in ('quick', 'thorough'):
                self.tier = j['tier']
            return self.run()
        vlib.ensure_gen()
        ty = vlib.types()[c['type']]
        args = []
        for toks in c['operands']:
            v, _ = vlib.val_from_tokens(toks, ty)
            args.append(v)
        aux = [int(a, 16) if isinstance(a, str) else a for a in c['aux']]
        case = Case(c['id'], ty, c['op'], args, aux, c.get('tag', ''))
        exe = vlib.build_harness('dev')
        impl = vlib.run_impl(exe, [case])
        v = self.oracle(case, impl[case.id])
        print(json.dumps({'case': case.describe(), 'implementation': impl[case.id], 'violation': v.what if v else None}, default=str))
        if v is not None:
            print('VIOLATION property=%s replay=%s' % (self.pid, path))
            return 1
        return 0
