(* Proofs/C03_proofs.v -- programs are differentiated correctly.
   (1) Analytic anchor, first order: for every program of Hand/Prog.v and differentiable input curves, the eps part of the evaluation over
       Dual is the derivative (Coquelicot is_derive) of the real function the program computes along the curve, and the real part is its value.
   (2) Every other first-order / directional part of every other type equals that of Dual on the same program (the agree_ theorems of C04_proofs), and the
       higher-order parts of all types are tied together by the same theorems; what each higher part is, is stated part-wise by C01/C02
       (Leibniz, Faa di Bruno with true derivative towers). *)
From ND Require Import Tactics C02_proofs C01_towers C01_faa C07_proofs C09_proofs Prog Agree C04_inst.
Local Open Scope R_scope.

(* the real function of each elementary operation is the 0-th coefficient of its tower, and the tower's first step is its derivative *)
Lemma eval_un_R u x : dom_un u x -> eval_un (T:=R) u x = (if unop_is_neg u then - x else tw_un u x 0).
Proof. intros H. destruct u; simpl in *; try reflexivity; unfold tw_un, tw3; rcbv; try reflexivity; unfold tan, tanh; field; side. Qed.
Ltac tw1 L := match goal with |- is_derive _ ?x _ => let H := fresh in pose proof L as H; destruct H as [_ [H _]]; exact H end.
Lemma tw_un_derive u x : u <> U_neg -> dom_un u x -> is_derive (fun t => tw_un u t 0) x (tw_un u x 1).
Proof.
  intros Hu Hd. destruct u; try (exfalso; apply Hu; reflexivity); simpl in Hd; unfold tw_un; cbn [eval_un].
  - tw1 (tower_recip x Hd). - tw1 (tower_sqrt x Hd). - tw1 (tower_cbrt x Hd). - tw1 (tower_exp x). - tw1 (tower_exp2 x). - tw1 (tower_exp_m1 x).
  - tw1 (tower_ln x Hd). - tw1 (tower_log2 x Hd). - tw1 (tower_log10 x Hd). - tw1 (tower_ln_1p x Hd). - tw1 (tower_sin x). - tw1 (tower_cos x).
  - tw1 (tower_tan x Hd). - tw1 (tower_asin x Hd). - tw1 (tower_acos x Hd). - tw1 (tower_atan x). - tw1 (tower_sinh x). - tw1 (tower_cosh x).
  - tw1 (tower_tanh x). - tw1 (tower_asinh x). - tw1 (tower_acosh x Hd). - tw1 (tower_atanh x Hd).
Qed.

(* ---- the first-order representation relation: d is the 1-jet of the curve v at t0 ---- *)
Definition Rep1 (t0 : R) (v : R -> R) (d : Dual R) : Prop := Dual_f_re d = v t0 /\ is_derive v t0 (Dual_f_eps d).

Lemma dual_parts (d : Dual R) : part_Dual d nil = Dual_f_re d /\ part_Dual d (tt :: nil) = Dual_f_eps d.
Proof. destruct d; split; reflexivity. Qed.
Lemma fam_Dual_nil : fam_c04_Dual nil. Proof. left; reflexivity. Qed.
Lemma fam_Dual_tt : fam_c04_Dual (tt :: nil). Proof. right; left; reflexivity. Qed.

Lemma faa_nil {L} f (p : @block L -> R) : faa f p nil = f 0%nat.
Proof. unfold faa; simpl. ring. Qed.
Lemma faa_one {L} f (p : @block L -> R) i : faa f p (i :: nil) = f 1%nat * p (i :: nil).
Proof. unfold faa; simpl. ring. Qed.

Section First.
  Variable t0 : R.
  Let J := JA_c04_Dual.

  Lemma rep_const c : Rep1 t0 (fun _ => c) (ofF c).
  Proof. split; [reflexivity|]. simpl. apply (is_derive_const (V:=R_NormedModule) c t0). Qed.

  Lemma rep_bin b v w x y : Rep1 t0 v x -> Rep1 t0 w y -> (b = B_div -> w t0 <> 0) ->
    Rep1 t0 (fun t => eval_bin (T:=R) b (v t) (w t)) (eval_bin b x y).
  Proof.
    intros [Hx Dx] [Hy Dy] Hd. destruct x as [x0 x1], y as [y0 y1]; simpl in *. subst x0 y0.
    destruct b; simpl; (split; [rcbv; try reflexivity|]).
    - apply (is_derive_plus (V:=R_NormedModule) v w t0 x1 y1 Dx Dy).
    - apply (is_derive_minus (V:=R_NormedModule) v w t0 x1 y1 Dx Dy).
    - eapply is_derive_val; [apply (is_derive_mult v w t0 x1 y1 Dx Dy); intros; apply Rmult_comm|]. rcbv. unfold plus, mult; simpl. ring.
    - field. apply Hd; reflexivity.
    - assert (Hw : w t0 <> 0) by (apply Hd; reflexivity).
      eapply is_derive_val; [apply (is_derive_div v w t0 x1 y1 Dx Dy Hw)|]. rcbv. unfold minus, plus, opp, mult, scal; simpl. unfold mult; simpl. field. assumption.
  Qed.

  Lemma rep_un u v x : Rep1 t0 v x -> dom_un u (v t0) -> Rep1 t0 (fun t => eval_un (T:=R) u (v t)) (eval_un u x).
  Proof.
    intros [Hx Dx] Hd. destruct (unop_eq_neg u) as [->|Hu].
    - destruct x as [x0 x1]; simpl in *; subst x0. split; [reflexivity|]. simpl. apply (is_derive_opp (V:=R_NormedModule) v t0 x1 Dx).
    - destruct x as [x0 x1]; simpl in Hx, Dx; subst x0.
      assert (Hdx : dom_un u (part_Dual (mkDual (v t0) x1) nil)) by exact Hd.
      pose proof (jf_un _ _ _ _ _ J u (mkDual (v t0) x1) Hu I Hdx nil fam_Dual_nil) as E0.
      pose proof (jf_un _ _ _ _ _ J u (mkDual (v t0) x1) Hu I Hdx (tt :: nil) fam_Dual_tt) as E1.
      pose proof (dual_parts (eval_un u (mkDual (v t0) x1))) as [Q0 Q1].
      rewrite Q0, faa_nil in E0. rewrite Q1, faa_one in E1. change (part_Dual {| Dual_f_re := v t0; Dual_f_eps := x1 |} nil) with (v t0) in E0, E1.
      change (part_Dual {| Dual_f_re := v t0; Dual_f_eps := x1 |} (tt :: nil)) with x1 in E1.
      split.
      + rewrite E0. rewrite (eval_un_R u (v t0) Hd). destruct u; try reflexivity; exfalso; apply Hu; reflexivity.
      + rewrite E1.
        apply (is_derive_ext (fun t => tw_un u (v t) 0)).
        * intros t. destruct u; try (exfalso; apply Hu; reflexivity); unfold tw_un, tw3; rcbv; try reflexivity; unfold tan, tanh; try reflexivity.
          all: try (unfold Rdiv; rewrite ?Rmult_1_l; reflexivity).
        * eapply is_derive_val; [apply (is_derive_comp (fun s => tw_un u s 0) v t0 (tw_un u (v t0) 1) x1); [apply tw_un_derive; assumption | exact Dx]|].
          unfold scal; simpl. unfold mult; simpl. ring.
  Qed.
End First.

Section First2.
  Variable t0 : R.
  Let J := JA_c04_Dual.

  Lemma rep_scal b v x (c : R) : Rep1 t0 v x -> (b = B_div -> c <> 0) -> Rep1 t0 (fun t => eval_scal (T:=R) b (v t) c) (eval_scal b x c).
  Proof.
    intros [Hx Dx] Hc. destruct x as [x0 x1]; simpl in *. subst x0.
    destruct b; simpl; (split; [rcbv; try reflexivity|]).
    - eapply is_derive_val; [apply (is_derive_plus (V:=R_NormedModule) v (fun _ => c) t0 x1 0 Dx (is_derive_const (V:=R_NormedModule) c t0))|]. unfold plus, zero; simpl. rcbv. ring.
    - eapply is_derive_val; [apply (is_derive_minus (V:=R_NormedModule) v (fun _ => c) t0 x1 0 Dx (is_derive_const (V:=R_NormedModule) c t0))|]. unfold minus, plus, opp, zero; simpl. rcbv. ring.
    - eapply is_derive_val; [apply (is_derive_mult v (fun _ => c) t0 x1 0 Dx (is_derive_const (V:=R_NormedModule) c t0)); intros; apply Rmult_comm|]. rcbv. unfold plus, mult, zero; simpl. ring.
    - assert (H : c <> 0) by (apply Hc; reflexivity).
      eapply is_derive_val; [apply (is_derive_div v (fun _ => c) t0 x1 0 Dx (is_derive_const (V:=R_NormedModule) c t0) H)|]. rcbv. unfold minus, plus, opp, mult, scal, zero; simpl. unfold mult; simpl. field. assumption.
  Qed.

  Definition pw_ok (n : Z) (r : R) : Prop := (n = 0 \/ n = 1 \/ n = 2)%Z \/ (r <> 0 /\ (-2147483645 <= n <= 2147483647)%Z).

  Lemma powi_tower_any n r : pw_ok n r -> is_tower (g_powi n) (tw3 (fun d => m_powi d n)) r.
  Proof.
    intros [ [ -> | [ -> | -> ] ] | [Hr Hn] ]; [apply tower_powi_0|apply tower_powi_1|apply tower_powi_2|apply tower_powi; assumption].
  Qed.
  Lemma pw_ok_open n r : pw_ok n r -> locally r (pw_ok n).
  Proof.
    intros [H|[Hr Hn]].
    - exists (mkposreal 1 Rlt_0_1). intros y _. left; exact H.
    - pose proof (open_neq 0 r Hr) as [e He]. exists e. intros y Hy. right; split; [apply He; exact Hy|exact Hn].
  Qed.
  Lemma powi_derive n r : pw_ok n r -> is_derive (g_powi n) r (tw3 (fun d => m_powi d n) r 1).
  Proof.
    intros H. pose proof (powi_tower_any n r H) as [_ [D _]].
    apply (is_derive_ext_loc (fun t => tw3 (fun d => m_powi d n) t 0)); [|exact D].
    apply (filter_imp (pw_ok n)); [|apply pw_ok_open; assumption]. intros y Hy. apply (powi_tower_any n y Hy).
  Qed.

  Lemma rep_powi n v x : Rep1 t0 v x -> pw_ok n (v t0) -> Rep1 t0 (fun t => m_powi (v t : R) n) (m_powi x n).
  Proof.
    intros [Hx Dx] Hp. destruct x as [x0 x1]; simpl in Hx, Dx; subst x0.
    pose proof (jf_powi _ _ _ _ _ J n (mkDual (v t0) x1) I I nil fam_Dual_nil) as E0.
    pose proof (jf_powi _ _ _ _ _ J n (mkDual (v t0) x1) I I (tt :: nil) fam_Dual_tt) as E1.
    pose proof (dual_parts (m_powi (mkDual (v t0) x1) n)) as [Q0 Q1].
    rewrite Q0, faa_nil in E0. rewrite Q1, faa_one in E1. change (part_Dual {| Dual_f_re := v t0; Dual_f_eps := x1 |} nil) with (v t0) in E0, E1.
    change (part_Dual {| Dual_f_re := v t0; Dual_f_eps := x1 |} (tt :: nil)) with x1 in E1.
    split.
    - rewrite E0. apply (powi_tower_any n (v t0) Hp).
    - rewrite E1. eapply is_derive_val; [apply (is_derive_comp (g_powi n) v t0 _ x1 (powi_derive n (v t0) Hp) Dx)|].
      unfold scal; simpl. unfold mult; simpl. ring.
  Qed.

  (* ---- the theorem: programs ---- *)
  Fixpoint okR (env : list R) (p : prog) : Prop :=
    match p with
    | PVar i => (i < length env)%nat
    | PConst _ => True
    | PUn u a => okR env a /\ dom_un u (eval (T:=R) env a)
    | PBin b a c => okR env a /\ okR env c /\ (b = B_div -> eval (T:=R) env c <> 0)
    | PScal b a c => okR env a /\ (b = B_div -> cval (F:=R) c <> 0)
    | PPowi a n => okR env a /\ pw_ok n (eval (T:=R) env a)
    | PLet a body => okR env a /\ okR (env ++ (eval (T:=R) env a :: nil)) body
    end.

  Definition at_t (envV : list (R -> R)) (t : R) : list R := map (fun v => v t) envV.

  Theorem first_order p : forall (envV : list (R -> R)) (envD : list (Dual R)),
    Forall2 (Rep1 t0) envV envD -> okR (at_t envV t0) p ->
    Rep1 t0 (fun t => eval (T:=R) (at_t envV t) p) (eval envD p).
  Proof.
    induction p as [i|c|u a IH|b a IHa c IHc|b a IH c|a IH n|a IHa body IHb]; intros envV envD HE Hok; simpl in *.
    - unfold at_t in Hok; rewrite map_length in Hok. revert i Hok. induction HE as [|x y ex ey Hxy HE' IHE]; intros i Hi; simpl in *; [lia|].
      destruct i; [destruct Hxy as [A B]; split; [exact A|]; apply (is_derive_ext x); [reflexivity|exact B]|]. apply IHE. lia.
    - apply rep_const.
    - destruct Hok as [Ha Hd]. apply (rep_un t0 u (fun t => eval (T:=R) (at_t envV t) a)); [apply IH; assumption|exact Hd].
    - destruct Hok as [Ha [Hc Hd]]. apply (rep_bin t0 b (fun t => eval (T:=R) (at_t envV t) a) (fun t => eval (T:=R) (at_t envV t) c)); [apply IHa|apply IHc|]; assumption.
    - destruct Hok as [Ha Hc]. apply (rep_scal b (fun t => eval (T:=R) (at_t envV t) a)); [apply IH; assumption|exact Hc].
    - destruct Hok as [Ha Hp]. apply (rep_powi n (fun t => eval (T:=R) (at_t envV t) a)); [apply IH; assumption|exact Hp].
    - destruct Hok as [Ha Hb].
      pose proof (IHa envV envD HE Ha) as Ra.
      assert (HE' : Forall2 (Rep1 t0) (envV ++ ((fun t => eval (T:=R) (at_t envV t) a) :: nil)) (envD ++ (eval envD a :: nil))).
      { apply Forall2_app; [assumption|]. constructor; [exact Ra|constructor]. }
      assert (Hm : forall t, at_t (envV ++ ((fun t => eval (T:=R) (at_t envV t) a) :: nil)) t = at_t envV t ++ (eval (T:=R) (at_t envV t) a :: nil)).
      { intros t. unfold at_t. rewrite map_app. reflexivity. }
      specialize (IHb _ _ HE'). rewrite Hm in IHb. specialize (IHb Hb). destruct IHb as [A B]. split.
      + rewrite A, Hm. reflexivity.
      + eapply is_derive_ext; [|exact B]. intros t; simpl. rewrite Hm. reflexivity.
  Qed.
End First2.

(* ---- the reals themselves as the order-0 jet algebra: the real part of any evaluation is the real evaluation ---- *)
Definition part_R (r : R) (S : @block unit) : R := match S with nil => r | _ => 0 end.
Definition fam_R (S : @block unit) : Prop := S = nil.
Definition pw_range (n : Z) : Prop := (-2147483645 <= n <= 2147483647)%Z.

Lemma powerRZ_0_l n : n <> 0%Z -> powerRZ 0 n = 0.
Proof.
  intros H. destruct n as [|p|p]; [congruence| |]; simpl.
  - apply pow_i. apply Pos2Nat.is_pos.
  - rewrite pow_i by apply Pos2Nat.is_pos. apply Rinv_0.
Qed.
Lemma powi_re_any n x : pw_range n -> tw3 (fun d => m_powi d n) x 0 = powerRZ x n.
Proof.
  intros Hn. destruct (Req_dec x 0) as [->|Hx]; [|apply (tower_powi n x Hx Hn)].
  destruct (Z.eq_dec n 0) as [->|H0]; [apply (tower_powi_0 0)|].
  destruct (Z.eq_dec n 1) as [->|H1]; [apply (tower_powi_1 0)|].
  destruct (Z.eq_dec n 2) as [->|H2]; [apply (tower_powi_2 0)|].
  rewrite powerRZ_0_l by assumption. unfold pw_range in Hn.
  assert (E : tw3 (fun d => m_powi d n) 0 0 = pz (n - 3) 0 * 0 * 0 * 0).
  { destruct n as [|[[p|p|]|[p|p|]|]|p]; try (exfalso; lia); rcbvZ; rewrite ?wrap32_small by lia; reflexivity. }
  rewrite E. ring.
Qed.

Lemma JA_R : JetAlgF DN_R part_R (fun _ => True) fam_R pw_range.
Proof.
  constructor.
  - reflexivity.
  - intros S B -> H. inversion H; reflexivity.
  - intros S ->; simpl; lia.
  - intros a b _ _ S ->. unfold leibniz; simpl. rcbv. ring.
  - intros a b _ _ Hb S ->. unfold leibniz; simpl. simpl in Hb. rcbv. field. assumption.
  - intros a b S ->. simpl. rcbv. repeat split; ring.
  - intros u x Hu _ Hd S ->. rewrite faa_nil. change (eval_un u x = tw_un u x 0). change (dom_un u x) in Hd. rewrite (eval_un_R u x Hd). destruct u; try reflexivity; exfalso; apply Hu; reflexivity.
  - intros n x Hn _ S ->. rewrite faa_nil. simpl. symmetry. apply powi_re_any. assumption.
  - intros c S ->. reflexivity.
  - intros b x c S Hc ->. destruct b; reflexivity.
  - intros; exact I.
  - intros; exact I.
  - intros; exact I.
  - intros; exact I.
  - intros; exact I.
Qed.

Lemma Forall2_len {A B} (P : A -> B -> Prop) l l' : List.Forall2 P l l' -> length l = length l'.
Proof. induction 1; simpl; congruence. Qed.
Fixpoint exps (P : Z -> Prop) (p : prog) : Prop :=
  match p with
  | PVar _ | PConst _ => True
  | PUn _ a | PScal _ a _ => exps P a
  | PBin _ a c | PLet a c => exps P a /\ exps P c
  | PPowi a n => exps P a /\ P n
  end.
Lemma pw_ok_range n r : pw_ok n r -> pw_range n.
Proof. unfold pw_range; intros [ [ -> | [ -> | -> ] ] | [_ H] ]; lia. Qed.

(* the domain conditions of a program are conditions on the real function alone: for every number type, they transfer to its evaluation, whose real
   part is the real evaluation *)
Section ReEval.
  Context {L X : Type} {dn : DN R X} {part : X -> @block L -> R} {wf : X -> Prop} {fam : @block L -> Prop} {pw : Z -> Prop}.
  Variable JX : JetAlgF dn part wf fam pw.
  Hypothesis F0 : fam nil.
  Variable f : unit -> L.
  Let fam_f : forall S, fam_R S -> fam (map f S).
  Proof. intros S ->. exact F0. Qed.
  Definition relR (x : X) (r : R) : Prop := rel (partX:=part) (wfX:=wf) (partY:=part_R) (wfY:=fun _ => True) (famY:=fam_R) f x r.
  Lemma relR_re x r : relR x r -> part x nil = r.
  Proof. intros [_ [_ H]]. symmetry. apply (H nil eq_refl). Qed.
  Lemma relR_intro x : wf x -> relR x (part x nil).
  Proof. intros W. split; [exact W|]. split; [exact I|]. intros S ->. reflexivity. Qed.

  Lemma re_eval (Q : Z -> Prop) p : forall envX envR, Forall2 relR envX envR -> okR envR p -> exps (fun n => pw n /\ Q n) p ->
    ok (pwX:=pw) (pwY:=Q) (partX:=part) envX p /\ relR (eval envX p) (eval envR p).
  Proof.
    induction p as [i|c|u a IH|b a IHa c IHc|b a IH c|a IH n|a IHa body IHb]; intros envX envR HE Hok Hex; simpl in Hok, Hex.
    - split; [simpl; rewrite (Forall2_len _ _ _ HE); exact Hok|]. apply (prog_agree JX JA_R f fam_f (PVar i) envX envR HE). simpl. rewrite (Forall2_len _ _ _ HE); exact Hok.
    - split; [exact I|]. apply (prog_agree JX JA_R f fam_f (PConst c) envX envR HE). exact I.
    - destruct Hok as [Ha Hd]. destruct (IH _ _ HE Ha Hex) as [Oa Ra].
      assert (Hd' : dom_un u (part (eval envX a) nil)) by (rewrite (relR_re _ _ Ra); exact Hd).
      split; [simpl; split; assumption|]. simpl. apply (rel_un JX JA_R f fam_f u _ _ Ra Hd').
    - destruct Hok as [Ha [Hc Hd]]. destruct Hex as [Ea Ec]. destruct (IHa _ _ HE Ha Ea) as [Oa Ra]. destruct (IHc _ _ HE Hc Ec) as [Oc Rc].
      assert (Hd' : b = B_div -> part (eval envX c) nil <> 0) by (rewrite (relR_re _ _ Rc); exact Hd).
      split; [simpl; repeat split; assumption|]. simpl. apply (rel_bin JX JA_R f fam_f b _ _ _ _ Ra Rc Hd').
    - destruct Hok as [Ha Hc]. destruct (IH _ _ HE Ha Hex) as [Oa Ra].
      split; [simpl; split; assumption|]. simpl.
      assert (EX : @cval R (@flF_prog R X dn) c = cval (F:=R) c) by (unfold flF_prog; rewrite (jf_fl _ _ _ _ _ JX); reflexivity).
      rewrite EX. apply (rel_scal JX JA_R f fam_f b _ _ (cval (F:=R) c) Ra Hc).
    - destruct Hok as [Ha Hp]. destruct Hex as [Ea [P1 P2]]. destruct (IH _ _ HE Ha Ea) as [Oa Ra].
      split; [simpl; repeat split; assumption|]. simpl. apply (rel_powi JX JA_R f fam_f n _ _ P1 (pw_ok_range _ _ Hp) Ra).
    - destruct Hok as [Ha Hb]. destruct Hex as [Ea Eb]. destruct (IHa _ _ HE Ha Ea) as [Oa Ra].
      assert (HE' : Forall2 relR (envX ++ (eval envX a :: nil)) (envR ++ (eval envR a :: nil))) by (apply Forall2_app; [assumption|constructor; [exact Ra|constructor]]).
      destruct (IHb _ _ HE' Hb Eb) as [Ob Rb]. split; [simpl; split; assumption|exact Rb].
  Qed.
End ReEval.

(* ---- every first-order part of every type is a directional derivative ---- *)
Section Directional.
  Context {L X : Type} {dn : DN R X} {part : X -> @block L -> R} {wf : X -> Prop} {fam : @block L -> Prop} {pw : Z -> Prop}.
  Variable JX : JetAlgF dn part wf fam pw.
  Variable l : L.
  Hypothesis Fl : fam (l :: nil).
  Variable t0 : R.
  Let f : unit -> L := fun _ => l.
  Let F0 : fam nil.
  Proof. apply (jf_sub _ _ _ _ _ JX (l :: nil) nil Fl). apply subl_nil_l. Qed.
  Let fam_f : forall S, fam_c04_Dual S -> fam (map f S).
  Proof. intros S F. unfold fam_c04_Dual in F. in_cases F; simpl; assumption. Qed.

  (* x carries the value and the derivative, in direction l, of the curve v at t0 *)
  Definition RepX (v : R -> R) (x : X) : Prop := wf x /\ part x nil = v t0 /\ is_derive v t0 (part x (l :: nil)).

  Theorem directional p : forall (envV : list (R -> R)) (envX : list X),
    Forall2 RepX envV envX -> okR (at_t envV t0) p -> exps pw p ->
    RepX (fun t => eval (T:=R) (at_t envV t) p) (eval envX p).
  Proof.
    intros envV envX HE Hok Hex.
    set (envD := map (fun x => mkDual (part x nil) (part x (l :: nil))) envX).
    assert (HR : Forall2 (relR (part:=part) (wf:=wf) f) envX (at_t envV t0)).
    { unfold at_t. clear Hok. induction HE as [|v x ev ex [W [A B]] HE' IHE]; simpl; constructor; [|exact IHE].
      rewrite <- A. apply relR_intro. exact W. }
    assert (Hex' : exps (fun n => pw n /\ True) p).
    { clear -Hex. induction p; simpl in *; tauto. }
    destruct (re_eval JX F0 f (fun _ => True) p envX (at_t envV t0) HR Hok Hex') as [Ook Rre].
    assert (HD : Forall2 (rel (partX:=part) (wfX:=wf) (partY:=part_Dual) (wfY:=fun _ => True) (famY:=fam_c04_Dual) f) envX envD).
    { unfold envD. clear -HE. induction HE as [|v x ev ex [W [A B]] HE' IHE]; simpl; constructor; [|exact IHE].
      split; [exact W|]. split; [exact I|]. intros S F. unfold fam_c04_Dual in F. in_cases F; reflexivity. }
    pose proof (prog_agree JX JA_c04_Dual f fam_f p envX envD HD Ook) as [Wr [_ Hp]].
    assert (H1 : Forall2 (Rep1 t0) envV envD).
    { unfold envD. clear -HE. induction HE as [|v x ev ex [W [A B]] HE' IHE]; simpl; constructor; [|exact IHE]. split; [exact A|exact B]. }
    destruct (first_order t0 p envV envD H1 Hok) as [A B].
    pose proof (dual_parts (eval envD p)) as [Q0 Q1].
    split; [exact Wr|]. split.
    - rewrite <- A, <- Q0. symmetry. apply (Hp nil fam_Dual_nil).
    - rewrite <- Q1 in B. rewrite (Hp (tt :: nil) fam_Dual_tt) in B. exact B.
  Qed.
End Directional.

(* the scalar driver on a program: (f x, f' x) *)
Corollary first_derivative_program p x : okR (x :: nil) p ->
  let d := eval (mkDual x 1 :: nil) p in Dual_f_re d = eval (T:=R) (x :: nil) p /\ is_derive (fun t => eval (T:=R) (t :: nil) p) x (Dual_f_eps d).
Proof.
  intros Hok. assert (HE : Forall2 (Rep1 x) ((fun t => t) :: nil) (mkDual x 1 :: nil)).
  { constructor; [|constructor]. split; [reflexivity|]. simpl. apply (is_derive_id (K:=R_AbsRing) x). }
  exact (first_order x p _ _ HE Hok).
Qed.

(* ---- instances of the directional theorem ---- *)
Lemma directional_HyperDual k : (k = 1 \/ k = 2)%nat -> forall t0 p envV (envX : list (HyperDual R)),
  Forall2 (RepX (part:=part_HyperDual) (wf:=fun _ => True) k t0) envV envX -> okR (at_t envV t0) p -> exps (fun _ => True) p ->
  RepX (part:=part_HyperDual) (wf:=fun _ => True) k t0 (fun t => eval (T:=R) (at_t envV t) p) (eval envX p).
Proof. intros Hk t0. apply (directional JA_c04_HyperDual k). unfold fam_c04_HyperDual. destruct Hk as [ -> | -> ]; simpl; auto 8. Qed.
Lemma directional_HHD k : (k = 1 \/ k = 2 \/ k = 3)%nat -> forall t0 p envV (envX : list (HyperHyperDual R)),
  Forall2 (RepX (part:=part_HHD) (wf:=fun _ => True) k t0) envV envX -> okR (at_t envV t0) p -> exps (fun _ => True) p ->
  RepX (part:=part_HHD) (wf:=fun _ => True) k t0 (fun t => eval (T:=R) (at_t envV t) p) (eval envX p).
Proof. intros Hk t0. apply (directional JA_c04_HyperHyperDual k). unfold fam_c04_HyperHyperDual. destruct Hk as [ -> | [ -> | -> ] ]; simpl; auto 12. Qed.
Lemma directional_DualVec (i : nat) : forall t0 p envV (envX : list (DualVec R)),
  Forall2 (RepX (part:=part_DualVec) (wf:=fun _ => True) i t0) envV envX -> okR (at_t envV t0) p -> exps (fun _ => True) p ->
  RepX (part:=part_DualVec) (wf:=fun _ => True) i t0 (fun t => eval (T:=R) (at_t envV t) p) (eval envX p).
Proof. intros t0. apply (directional JA_c04_DualVec i). exists i. simpl; auto. Qed.
Lemma directional_Dual2Vec (i : nat) : forall t0 p envV (envX : list (Dual2Vec R)),
  Forall2 (RepX (part:=part_Dual2Vec) (wf:=wf_Dual2Vec) i t0) envV envX -> okR (at_t envV t0) p -> exps (fun _ => True) p ->
  RepX (part:=part_Dual2Vec) (wf:=wf_Dual2Vec) i t0 (fun t => eval (T:=R) (at_t envV t) p) (eval envX p).
Proof. intros t0. apply (directional JA_c04_Dual2Vec i). exists i, i. simpl; auto. Qed.
Lemma directional_HyperDualVec (l : nat + nat) : forall t0 p envV (envX : list (HyperDualVec R)),
  Forall2 (RepX (part:=part_HyperDualVec) (wf:=wf_HyperDualVec) l t0) envV envX -> okR (at_t envV t0) p -> exps (fun _ => True) p ->
  RepX (part:=part_HyperDualVec) (wf:=wf_HyperDualVec) l t0 (fun t => eval (T:=R) (at_t envV t) p) (eval envX p).
Proof. intros t0. apply (directional JA_c04_HyperDualVec l). destruct l as [i|j]; [exists i, 0%nat | exists 0%nat, j]; simpl; auto. Qed.
From ND Require Import C04_nested.
Lemma directional_DD k : (k = 1 \/ k = 2)%nat -> forall t0 p envV (envX : list (Dual (Dual R))),
  Forall2 (RepX (part:=part_DD) (wf:=fun _ => True) k t0) envV envX -> okR (at_t envV t0) p -> exps pw_nested p ->
  RepX (part:=part_DD) (wf:=fun _ => True) k t0 (fun t => eval (T:=R) (at_t envV t) p) (eval envX p).
Proof. intros Hk t0. apply (directional JA_c04_DD k). unfold fam_c04_HyperDual. destruct Hk as [ -> | -> ]; simpl; auto 8. Qed.
Lemma directional_DDD k : (k = 1 \/ k = 2 \/ k = 3)%nat -> forall t0 p envV (envX : list (Dual (Dual (Dual R)))),
  Forall2 (RepX (part:=part_DDD) (wf:=fun _ => True) k t0) envV envX -> okR (at_t envV t0) p -> exps pw_nested p ->
  RepX (part:=part_DDD) (wf:=fun _ => True) k t0 (fun t => eval (T:=R) (at_t envV t) p) (eval envX p).
Proof. intros Hk t0. apply (directional JA_c04_DDD k). unfold fam_c04_HyperHyperDual. destruct Hk as [ -> | [ -> | -> ] ]; simpl; auto 12. Qed.

Lemma example_ok :
  let p := PBin B_div (PUn U_exp (PVar 0)) (PScal B_add (PBin B_mul (PVar 0) (PVar 1)) 3) in
  okR (at_t ((fun t => t) :: (fun _ => 2) :: nil) 1) p /\ Forall2 (Rep1 1) ((fun t => t) :: (fun _ => 2) :: nil) (mkDual 1 1 :: mkDual 2 0 :: nil).
Proof.
  split.
  - simpl. repeat split; try lia; try discriminate. intros _. rcbv. lra.
  - constructor; [|constructor; [|constructor]]; (split; [reflexivity|]); simpl.
    + apply (is_derive_id (K:=R_AbsRing) 1).
    + apply (is_derive_const (V:=R_NormedModule) 2 1).
Qed.

(* ---- agreement of two types on a program, with the domain condition stated on the real function ---- *)
Lemma exps_imp (P Q : Z -> Prop) p : (forall n, P n -> Q n) -> exps P p -> exps Q p.
Proof. intros H. induction p; simpl; intuition. Qed.
Lemma exps_true p : exps (fun _ => True) p.
Proof. induction p; simpl; auto. Qed.
Section AgreeR.
  Context {LX LY X Y : Type} {dnX : DN R X} {dnY : DN R Y}.
  Context {partX : X -> @block LX -> R} {wfX : X -> Prop} {famX : @block LX -> Prop}.
  Context {partY : Y -> @block LY -> R} {wfY : Y -> Prop} {famY : @block LY -> Prop}.
  Context {pwX pwY : Z -> Prop} (JX : JetAlgF dnX partX wfX famX pwX) (JY : JetAlgF dnY partY wfY famY pwY).
  Variable f : LY -> LX.
  Hypothesis fam_f : forall S, famY S -> famX (map f S).
  Hypothesis F0 : famX nil.
  Variable l0 : LX.
  Theorem prog_agree_R p envX envY : Forall2 (rel (partX:=partX) (wfX:=wfX) (partY:=partY) (wfY:=wfY) (famY:=famY) f) envX envY ->
    okR (map (fun x => partX x nil) envX) p -> exps (fun n => pwX n /\ pwY n) p ->
    rel (partX:=partX) (wfX:=wfX) (partY:=partY) (wfY:=wfY) (famY:=famY) f (eval envX p) (eval envY p).
  Proof.
    intros HE Hok Hex.
    assert (HR : Forall2 (relR (part:=partX) (wf:=wfX) (fun _ : unit => l0)) envX (map (fun x => partX x nil) envX)).
    { clear -HE. induction HE as [|x y ex ey [W _] HE' IHE]; simpl; constructor; [|exact IHE]. apply relR_intro. exact W. }
    destruct (re_eval JX F0 (fun _ => l0) pwY p envX _ HR Hok Hex) as [Ook _].
    exact (prog_agree JX JY f fam_f p envX envY HE Ook).
  Qed.
End AgreeR.
