(* Props/C05.v -- property C05: derivative driver functions seed, extract and orient results correctly.
   Statements about the hand model Hand/Drivers.v (seeding helpers are the translated ones); only `exact` proofs here. *)
From ND Require Import Tactics Drivers C05_proofs.
Local Open Scope R_scope.

Theorem C05_seed_gradient_spec : forall (x : list R) i xi, nth_error x i = Some xi ->
  exists s, nth_error (seed_gradient x) i = Some s /\ DualVec_f_re s = xi /\ forall j, (j < length x)%nat -> part_DualVec s (j :: nil) = delta j i.
Proof. exact seed_gradient_spec. Qed.
Theorem C05_seed_hessian_spec : forall (x : list R) i xi, nth_error x i = Some xi ->
  exists s, nth_error (seed_hessian x) i = Some s /\ Dual2Vec_f_re s = xi /\ wf_Dual2Vec s /\
            (forall j, part_Dual2Vec s (j :: nil) = delta j i) /\ (forall j k, part_Dual2Vec s (j :: k :: nil) = 0).
Proof. exact seed_hessian_spec. Qed.
Theorem C05_seed_partial_hessian_spec : forall (x y : list R) i xi, nth_error x i = Some xi ->
  exists s, nth_error (seed_ph_x x) i = Some s /\ HyperDualVec_f_re s = xi /\ wf_HyperDualVec s /\
            (forall j, (j < length x)%nat -> part_HyperDualVec s (inl j :: nil) = delta j i) /\
            (forall j, part_HyperDualVec s (inr j :: nil) = 0) /\ (forall j k, part_HyperDualVec s (inl j :: inr k :: nil) = 0).
Proof. exact seed_partial_hessian_spec. Qed.
Theorem C05_seed_partial_hessian_spec_y : forall (y : list R) i yi, nth_error y i = Some yi ->
  exists s, nth_error (seed_ph_y y) i = Some s /\ HyperDualVec_f_re s = yi /\ wf_HyperDualVec s /\
            (forall j, part_HyperDualVec s (inr j :: nil) = delta j i) /\
            (forall j, part_HyperDualVec s (inl j :: nil) = 0) /\ (forall j k, part_HyperDualVec s (inl j :: inr k :: nil) = 0).
Proof. exact seed_partial_hessian_spec_y. Qed.
Theorem C05_seed_third_vec_spec : forall (x : list R) i j k m xm, nth_error x m = Some xm ->
  exists s, nth_error (seed_third_vec x i j k) m = Some s /\
    part_HHD s nil = xm /\ part_HHD s (1 :: nil)%nat = delta m i /\ part_HHD s (2 :: nil)%nat = delta m j /\ part_HHD s (3 :: nil)%nat = delta m k /\
    part_HHD s (1 :: 2 :: nil)%nat = 0 /\ part_HHD s (1 :: 3 :: nil)%nat = 0 /\ part_HHD s (2 :: 3 :: nil)%nat = 0 /\ part_HHD s (1 :: 2 :: 3 :: nil)%nat = 0.
Proof. exact seed_third_vec_spec. Qed.
Theorem C05_gradient_extract : forall E (g : list (DualVec R) -> result (DualVec R) E) x res, g (seed_gradient x) = Ok res ->
  exists v G, try_gradient E g x = Ok (v, G) /\ v = part_DualVec res nil /\ forall i, mget G i 0 = part_DualVec res (i :: nil).
Proof. exact gradient_extract. Qed.
Theorem C05_jacobian_extract : forall E (g : list (DualVec R) -> result (list (DualVec R)) E) x res, g (seed_gradient x) = Ok res ->
  exists v J, try_jacobian E g x = Ok (v, J) /\ v = map (fun r => part_DualVec r nil) res /\ mrows J = length res /\ mcols J = length x /\
              forall i ri, nth_error res i = Some ri -> forall j, mget J i j = part_DualVec ri (j :: nil).
Proof. exact jacobian_extract. Qed.
Theorem C05_hessian_extract : forall E (g : list (Dual2Vec R) -> result (Dual2Vec R) E) x res, g (seed_hessian x) = Ok res ->
  exists v G H, try_hessian E g x = Ok (v, G, H) /\ v = part_Dual2Vec res nil /\
              (forall i, mget G i 0 = part_Dual2Vec res (i :: nil)) /\ (forall i j, mget H i j = part_Dual2Vec res (i :: j :: nil)).
Proof. exact hessian_extract. Qed.
Theorem C05_partial_hessian_extract : forall E (g : list (HyperDualVec R) -> list (HyperDualVec R) -> result (HyperDualVec R) E) x y res, g (seed_ph_x x) (seed_ph_y y) = Ok res ->
  exists v Gx Gy H, try_partial_hessian E g x y = Ok (v, Gx, Gy, H) /\ v = part_HyperDualVec res nil /\
     (forall i, mget Gx i 0 = part_HyperDualVec res (inl i :: nil)) /\ (forall j, mget Gy j 0 = part_HyperDualVec res (inr j :: nil)) /\
     (forall i j, mget H i j = part_HyperDualVec res (inl i :: inr j :: nil)).
Proof. exact partial_hessian_extract. Qed.
Theorem C05_scalar_extract : forall E, (forall g x r, g (Dual_derivative (Dual_from_re x)) = Ok r -> try_first_derivative (T:=R) E g x = Ok (part_Dual r nil, part_Dual r (tt :: nil))) /\
  (forall g x r, g (Dual2_derivative (Dual2_from_re x)) = Ok r -> try_second_derivative (T:=R) E g x = Ok (part_Dual2 r nil, part_Dual2 r (tt :: nil), part_Dual2 r (tt :: tt :: nil))) /\
  (forall g x r, g (seed_third x) = Ok r ->
     try_third_derivative (T:=R) E g x = Ok (part_Dual3 r nil, part_Dual3 r (tt :: nil), part_Dual3 r (tt :: tt :: nil), part_Dual3 r (tt :: tt :: tt :: nil))) /\
  (forall g x y r, g (HyperDual_derivative1 (HyperDual_from_re x)) (HyperDual_derivative2 (HyperDual_from_re y)) = Ok r ->
     try_second_partial_derivative (T:=R) E g x y = Ok (part_HyperDual r nil, part_HyperDual r (1 :: nil)%nat, part_HyperDual r (2 :: nil)%nat, part_HyperDual r (1 :: 2 :: nil)%nat)).
Proof. exact scalar_extract. Qed.
Theorem C05_scalar_seeds : forall (x : R), Dual_derivative (Dual_from_re x) = mkDual x 1 /\ Dual2_derivative (Dual2_from_re x) = mkDual2 x 1 0 /\
  seed_third x = mkDual3 x 1 0 0 /\
  HyperDual_derivative1 (HyperDual_from_re x) = mkHyperDual x 1 0 0 /\ HyperDual_derivative2 (HyperDual_from_re x) = mkHyperDual x 0 1 0.
Proof. exact scalar_seeds. Qed.

From ND Require Import C05_try.
From NDgen Require Import Classes Gen_Float Gen_Derivative Gen_Dual Gen_Dual2 Gen_Dual3 Gen_HyperDual Gen_HyperHyperDual Gen_DualVec Gen_Dual2Vec Gen_HyperDualVec.
Section Try.
  Context {F T : Type} {dnFT : DN F T} {ordT : DNOrd T} (E : Type).

  Theorem C05_try_err : forall (e : E), (forall g (x : T), g (Dual_derivative (Dual_from_re x)) = Err e -> try_first_derivative E g x = Err e) /\
    (forall g (x : T), g (Dual2_derivative (Dual2_from_re x)) = Err e -> try_second_derivative E g x = Err e) /\
    (forall g (x : T), g (seed_third x) = Err e -> try_third_derivative E g x = Err e) /\
    (forall g (x : list T), g (seed_gradient x) = Err e -> try_gradient E g x = Err e) /\
    (forall g (x : list T), g (seed_gradient x) = Err e -> try_jacobian E g x = Err e) /\
    (forall g (x : list T), g (seed_hessian x) = Err e -> try_hessian E g x = Err e) /\
    (forall g (x y : list T), g (seed_ph_x x) (seed_ph_y y) = Err e -> try_partial_hessian E g x y = Err e) /\
    (forall g (x : list T) i j k, g (seed_third_vec x i j k) = Err e -> try_third_partial_derivative_vec E g x i j k = Err e).
  Proof. exact (try_err E). Qed.
  Theorem C05_infallible_is_try : (forall g (x : list T), try_gradient infallible (fun a => Ok (g a)) x = Ok (gradient g x)) /\
    (forall g (x : list T), try_jacobian infallible (fun a => Ok (g a)) x = Ok (jacobian g x)) /\
    (forall g (x : list T), try_hessian infallible (fun a => Ok (g a)) x = Ok (hessian g x)) /\
    (forall g (x y : list T), try_partial_hessian infallible (fun a b => Ok (g a b)) x y = Ok (partial_hessian g x y)) /\
    (forall g (x : T), try_first_derivative infallible (fun a => Ok (g a)) x = Ok (first_derivative g x)) /\
    (forall g (x : T), try_second_derivative infallible (fun a => Ok (g a)) x = Ok (second_derivative g x)) /\
    (forall g (x : T), try_third_derivative infallible (fun a => Ok (g a)) x = Ok (third_derivative g x)) /\
    (forall g (x : list T) i j k, try_third_partial_derivative_vec infallible (fun a => Ok (g a)) x i j k = Ok (third_partial_derivative_vec g x i j k)).
  Proof. exact (infallible_is_try). Qed.
End Try.

(* ---- end to end: the drivers applied to a program (Hand/Prog.v, evaluated over the translated operations) return the derivatives of the real function the
   program computes -- C05 composed with C03.  fR p x is the real evaluation with one input; replace_at x i t puts t at position i. *)
From ND Require Import Prog C03_proofs C05_programs.
From ND Require Import C04_proofs C03_mixed C03_mixed3 C05_hessian.
Theorem C05_first_derivative_of_program : forall p x, okR (x :: nil) p ->
  exists l, first_derivative (fun d => eval (d :: nil) p) x = (fR p x, l) /\ is_derive (fR p) x l.
Proof. exact first_derivative_of_program. Qed.
Theorem C05_second_derivative_of_program : forall p x, okR (x :: nil) p ->
  exists l1 l2 (f' : R -> R), second_derivative (fun d => eval (d :: nil) p) x = (fR p x, l1, l2) /\
    locally x (fun t => is_derive (fR p) t (f' t)) /\ l1 = f' x /\ is_derive f' x l2.
Proof. exact second_derivative_of_program. Qed.
Theorem C05_third_derivative_of_program : forall p x, okR (x :: nil) p ->
  exists l1 l2 l3 (f' f'' : R -> R), third_derivative (fun d => eval (d :: nil) p) x = (fR p x, l1, l2, l3) /\
    locally x (fun t => is_derive (fR p) t (f' t)) /\ locally x (fun t => is_derive f' t (f'' t)) /\ l1 = f' x /\ l2 = f'' x /\ is_derive f'' x l3.
Proof. exact third_derivative_of_program. Qed.
(* gradient: any number of variables; entry i is the partial derivative with respect to x_i *)
Theorem C05_gradient_of_program : forall p (x : list R), okR x p ->
  exists G, gradient (fun v => eval v p) x = (eval (T:=R) x p, G) /\
    forall i xi, nth_error x i = Some xi -> is_derive (fun t => eval (T:=R) (replace_at x i t) p) xi (mget G i 0).
Proof. exact gradient_of_program. Qed.
(* jacobian of several programs: entry (k, i) is the partial derivative of output k with respect to x_i *)
Theorem C05_jacobian_of_programs : forall (ps : list prog) (x : list R), List.Forall (okR x) ps -> x <> nil ->
  exists J, jacobian (fun v => map (eval v) ps) x = (map (eval (T:=R) x) ps, J) /\
    forall k pk i xi, nth_error ps k = Some pk -> nth_error x i = Some xi ->
      is_derive (fun t => eval (T:=R) (replace_at x i t) pk) xi (mget J k i).
Proof. exact jacobian_of_programs. Qed.
(* second_partial_derivative: value, both first partials and the MIXED second partial derivative *)
Theorem C05_second_partial_derivative_of_program : forall p x y, okR (x :: y :: nil) p ->
  let f := fun s t => eval (T:=R) (s :: t :: nil) p in
  exists fx fy fxy (ft : R -> R), second_partial_derivative (fun a b => eval (a :: b :: nil) p) x y = (f x y, fx, fy, fxy) /\
    is_derive (fun s => f s y) x fx /\ locally x (fun s => is_derive (f s) y (ft s)) /\ fy = ft x /\ is_derive ft x fxy.
Proof. exact second_partial_derivative_of_program. Qed.

(* hessian: any number of variables.  shift2 x i j xi xj s t is x moved by (s - x_i) along e_i and by (t - x_j) along e_j (for i = j: by both along e_i);
   G i is the partial derivative with respect to x_i and H i j the second partial derivative d/dx_i d/dx_j of the real function the program computes *)
Theorem C05_shift2_meaning : forall x i j xi xj s t, shift2 x i j xi xj s t = mapi (fun k xk => xk + delta k i * (s - xi) + delta k j * (t - xj)) x.
Proof. exact (fun x i j xi xj s t => eq_refl). Qed.
Theorem C05_hessian_of_program : forall p (x : list R), okR x p ->
  exists G H, hessian (fun v => eval v p) x = (eval (T:=R) x p, G, H) /\
    forall i j xi xj, nth_error x i = Some xi -> nth_error x j = Some xj ->
      let f := fun s t => eval (T:=R) (shift2 x i j xi xj s t) p in
      is_derive (fun s => f s xj) xi (mget G i 0) /\
      exists ft : R -> R, locally xi (fun s => is_derive (f s) xj (ft s)) /\ mget G j 0 = ft xi /\ is_derive ft xi (mget H i j).
Proof. exact hessian_of_program. Qed.
(* partial_hessian: programs over x ++ y; H i j = d/dx_i d/dy_j *)
Theorem C05_partial_hessian_of_program : forall p (x y : list R), okR (x ++ y) p ->
  exists Gx Gy H, partial_hessian (fun a b => eval (a ++ b) p) x y = (eval (T:=R) (x ++ y) p, Gx, Gy, H) /\
    forall i j xi yj, nth_error x i = Some xi -> nth_error y j = Some yj ->
      let f := fun s t => eval (T:=R) (replace_at x i s ++ replace_at y j t) p in
      is_derive (fun s => f s yj) xi (mget Gx i 0) /\
      exists ft : R -> R, locally xi (fun s => is_derive (f s) yj (ft s)) /\ mget Gy j 0 = ft xi /\ is_derive ft xi (mget H i j).
Proof. exact partial_hessian_of_program. Qed.

(* third_partial_derivative: the eight parts; the last is d/dx d/dy d/dz of the real function the program computes *)
Theorem C05_third_partial_derivative_of_program : forall p x y z, okR (x :: y :: z :: nil) p ->
  let f := fun s t u => eval (T:=R) (s :: t :: u :: nil) p in
  exists fx fy fz fxy fxz fyz fxyz (vt : R -> R) (g3 : R -> R -> R) (gt : R -> R),
    third_partial_derivative (fun a b c => eval (a :: b :: c :: nil) p) x y z = (f x y z :: fx :: fy :: fz :: fxy :: fxz :: fyz :: fxyz :: nil) /\
    is_derive (fun s => f s y z) x fx /\ locally x (fun s => is_derive (fun t => f s t z) y (vt s)) /\ fy = vt x /\ is_derive vt x fxy /\
    locally x (fun s => locally y (fun t => is_derive (f s t) z (g3 s t))) /\ fz = g3 x y /\
    locally x (fun s => is_derive (g3 s) y (gt s)) /\ is_derive (fun s => g3 s y) x fxz /\ fyz = gt x /\ is_derive gt x fxyz.
Proof. exact third_partial_derivative_of_program. Qed.

(* third_partial_derivative_vec: any number of variables and any index triple (repeated indices included); shift3 moves x by (s - xi) e_i + (t - xj) e_j +
   (u - xk) e_k, and the eight returned values are the parts of a hyper-hyper-dual number representing that family (C03_RepT_meaning spells this out:
   the last one is d/ds d/dt d/du at (xi, xj, xk), i.e. the third partial derivative d/dx_i d/dx_j d/dx_k when xi, xj, xk are the coordinates of x) *)
Theorem C05_shift3_meaning : forall x i j k xi xj xk s t u,
  shift3 x i j k xi xj xk s t u = mapi (fun m xm => xm + delta m i * (s - xi) + delta m j * (t - xj) + delta m k * (u - xk)) x.
Proof. exact (fun x i j k xi xj xk s t u => eq_refl). Qed.
Theorem C05_third_partial_derivative_vec_of_program : forall p (x : list R) i j k xi xj xk, okR x p ->
  exists h : HyperHyperDual R, third_partial_derivative_vec (fun v => eval v p) x i j k = hhd_out h /\
    RepT xi xj xk (fun s t u => eval (T:=R) (shift3 x i j k xi xj xk s t u) p) h.
Proof. exact third_partial_derivative_vec_of_program. Qed.

(* non-vacuity: a three-element input has a third element *)
Example C05_seed_example : exists s, nth_error (seed_gradient [1; 2; 3]) 2 = Some s /\ part_DualVec s (2%nat :: nil) = 1 /\ part_DualVec s (0%nat :: nil) = 0.
Proof. eexists; split; [reflexivity|]. split; rcbv; reflexivity. Qed.

Definition C05_bundle := (C05_seed_gradient_spec,
  C05_seed_hessian_spec,
  C05_seed_partial_hessian_spec,
  C05_seed_partial_hessian_spec_y,
  C05_seed_third_vec_spec,
  C05_gradient_extract,
  C05_jacobian_extract,
  C05_hessian_extract,
  C05_partial_hessian_extract,
  C05_scalar_extract,
  C05_scalar_seeds,
  @C05_try_err,
  @C05_infallible_is_try,
  C05_first_derivative_of_program,
  C05_second_derivative_of_program,
  C05_third_derivative_of_program,
  C05_gradient_of_program,
  C05_jacobian_of_programs,
  C05_second_partial_derivative_of_program,
  C05_shift2_meaning,
  C05_hessian_of_program,
  C05_partial_hessian_of_program,
  C05_third_partial_derivative_of_program,
  C05_shift3_meaning,
  C05_third_partial_derivative_vec_of_program).
Print Assumptions C05_bundle.
