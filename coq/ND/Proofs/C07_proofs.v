(* Proofs/C07_proofs.v -- absent derivative parts behave exactly like all-zero parts.
   The reading of a vector dual number (Inst/RModel.v) maps an absent part to zero; two values are numerically the same
   ([veq]) when all their parts agree, whatever representation (absent / explicit zeros / any mixture) each uses.
   Every operation maps numerically-same operands to numerically-same results, hence so does every sequence of
   compound assignments.  The congruences are derived once, for an abstract jet type of order <= 2, from the
   statements C02 / C01 prove about the GENERATED code, and instantiated for DualVec, Dual2Vec, HyperDualVec. *)
From ND Require Import Tactics C02_proofs C01_towers C01_faa C08_lift.
Local Open Scope R_scope.

Lemma leibniz_ext {L} (a a' b b' : @block L -> R) S :
  (forall A, a A = a' A) -> (forall B, b B = b' B) -> leibniz a b S = leibniz a' b' S.
Proof. intros Ha Hb; unfold leibniz; f_equal; apply map_ext; intros [A B]; simpl; rewrite Ha, Hb; reflexivity. Qed.
Lemma faa_ext {L} (f f' : nat -> R) (p p' : @block L -> R) S :
  (forall k, f k = f' k) -> (forall B, p B = p' B) -> faa f p S = faa f' p' S.
Proof.
  intros Hf Hp; unfold faa; f_equal; apply map_ext; intros P; rewrite Hf; f_equal; f_equal.
  apply map_ext; intros B; apply Hp.
Qed.

(* the quotient equation q * b = a has at most one solution on a family of blocks of length <= 2 closed under sub-blocks *)
Lemma quot_unique_fam {L} (fam : @block L -> Prop) (q q' b : @block L -> R) :
  (forall S, fam S -> (length S <= 2)%nat) -> (forall S, fam S -> fam nil) ->
  (forall i j, fam (i :: j :: nil) -> fam (i :: nil) /\ fam (j :: nil)) ->
  b nil <> 0 -> (forall S, fam S -> leibniz q b S = leibniz q' b S) ->
  forall S, fam S -> q S = q' S.
Proof.
  intros Hlen Hnil Hsub Hb E.
  assert (E0 : forall S, fam S -> q nil = q' nil).
  { intros S F. specialize (E nil (Hnil S F)). unfold leibniz in E; simpl in E. nra. }
  assert (E1 : forall i, fam (i :: nil) -> q (i :: nil) = q' (i :: nil)).
  { intros i F. pose proof (E0 _ F) as E00. specialize (E (i :: nil) F). unfold leibniz in E; simpl in E. rewrite E00 in E. nra. }
  intros S F. pose proof (Hlen S F) as HS. destruct S as [|i [|j [|k l]]].
  - apply (E0 nil F).
  - apply E1; assumption.
  - destruct (Hsub i j F) as [Fi Fj]. pose proof (E0 _ F) as E00. pose proof (E1 i Fi) as Ei. pose proof (E1 j Fj) as Ej.
    specialize (E (i :: j :: nil) F). unfold leibniz in E; simpl in E. rewrite E00, Ei, Ej in E. nra.
  - simpl in HS; lia.
Qed.

Inductive aop := AddA | SubA | MulA | DivA.

(* what C02 / C01 establish about a vector dual number type, bundled *)
Record JetAlg {L X : Type} (part : X -> @block L -> R) (wf : X -> Prop) (fam : @block L -> Prop)
       (add sub mul div : X -> X -> X) (neg : X -> X) : Prop := {
  ja_dec : forall S, fam S \/ ~ fam S;
  ja_len : forall S, fam S -> (length S <= 2)%nat;
  ja_nil : forall S, fam S -> fam nil;
  ja_sub : forall i j, fam (i :: j :: nil) -> fam (i :: nil) /\ fam (j :: nil);
  ja_out0 : forall x S, ~ fam S -> part x S = 0;
  ja_mul : forall a b, wf a -> wf b -> forall S, fam S -> part (mul a b) S = leibniz (part a) (part b) S;
  ja_div : forall a b, wf a -> wf b -> part b nil <> 0 -> forall S, fam S -> leibniz (part (div a b)) (part b) S = part a S;
  ja_lin : forall a b S, fam S -> part (add a b) S = part a S + part b S /\ part (sub a b) S = part a S - part b S /\ part (neg a) S = - part a S;
  ja_wf_mul : forall a b, wf a -> wf b -> wf (mul a b);
  ja_wf_div : forall a b, wf a -> wf b -> wf (div a b);
  ja_wf_add : forall a b, wf a -> wf b -> wf (add a b);
  ja_wf_sub : forall a b, wf a -> wf b -> wf (sub a b);
}.

Section VecCong.
  Context {L X : Type} {part : X -> @block L -> R} {wf : X -> Prop} {fam : @block L -> Prop}.
  Context {add sub mul div : X -> X -> X} {neg : X -> X}.
  Context (J : JetAlg part wf fam add sub mul div neg).
  Let fam_dec := ja_dec _ _ _ _ _ _ _ _ J.
  Let fam_len := ja_len _ _ _ _ _ _ _ _ J.
  Let fam_nil := ja_nil _ _ _ _ _ _ _ _ J.
  Let fam_sub := ja_sub _ _ _ _ _ _ _ _ J.
  Let out0 := ja_out0 _ _ _ _ _ _ _ _ J.
  Let H_mul := ja_mul _ _ _ _ _ _ _ _ J.
  Let H_div := ja_div _ _ _ _ _ _ _ _ J.
  Let H_lin := ja_lin _ _ _ _ _ _ _ _ J.
  Let wf_mul := ja_wf_mul _ _ _ _ _ _ _ _ J.
  Let wf_div := ja_wf_div _ _ _ _ _ _ _ _ J.
  Let wf_add := ja_wf_add _ _ _ _ _ _ _ _ J.
  Let wf_sub := ja_wf_sub _ _ _ _ _ _ _ _ J.

  Definition veq (x y : X) : Prop := forall S, part x S = part y S.
  Definition jet_step := 0%nat.
  Lemma veq_refl x : veq x x. Proof. intros S; reflexivity. Qed.
  Lemma veq_sym x y : veq x y -> veq y x. Proof. intros H S; symmetry; apply H. Qed.
  Lemma veq_trans x y z : veq x y -> veq y z -> veq x z. Proof. intros H1 H2 S; rewrite H1; apply H2. Qed.

  Lemma cong_add a a' b b' : veq a a' -> veq b b' -> veq (add a b) (add a' b').
  Proof. intros Ha Hb S. destruct (fam_dec S) as [F|F]; [|rewrite !out0 by assumption; reflexivity].
    destruct (H_lin a b S F) as [-> _]. destruct (H_lin a' b' S F) as [-> _]. rewrite Ha, Hb; reflexivity. Qed.
  Lemma cong_sub a a' b b' : veq a a' -> veq b b' -> veq (sub a b) (sub a' b').
  Proof. intros Ha Hb S. destruct (fam_dec S) as [F|F]; [|rewrite !out0 by assumption; reflexivity].
    destruct (H_lin a b S F) as [_ [-> _]]. destruct (H_lin a' b' S F) as [_ [-> _]]. rewrite Ha, Hb; reflexivity. Qed.
  Lemma cong_neg a a' : veq a a' -> veq (neg a) (neg a').
  Proof. intros Ha S. destruct (fam_dec S) as [F|F]; [|rewrite !out0 by assumption; reflexivity].
    destruct (H_lin a a S F) as [_ [_ ->]]. destruct (H_lin a' a' S F) as [_ [_ ->]]. rewrite Ha; reflexivity. Qed.
  Lemma cong_mul a a' b b' : wf a -> wf a' -> wf b -> wf b' -> veq a a' -> veq b b' -> veq (mul a b) (mul a' b').
  Proof. intros Wa Wa' Wb Wb' Ha Hb S. destruct (fam_dec S) as [F|F]; [|rewrite !out0 by assumption; reflexivity].
    rewrite !H_mul by assumption. apply leibniz_ext; assumption. Qed.
  Lemma cong_div a a' b b' : wf a -> wf a' -> wf b -> wf b' -> part b nil <> 0 -> veq a a' -> veq b b' -> veq (div a b) (div a' b').
  Proof.
    intros Wa Wa' Wb Wb' Hr Ha Hb S.
    destruct (fam_dec S) as [F|F]; [|rewrite !out0 by assumption; reflexivity].
    apply (quot_unique_fam fam (part (div a b)) (part (div a' b')) (part b)); auto.
    intros S' F'.
    rewrite H_div by assumption.
    rewrite (leibniz_ext (part (div a' b')) (part (div a' b')) (part b) (part b') S') by (intros; auto).
    rewrite H_div; auto. rewrite <- Hb; assumption.
  Qed.

  (* elementary functions: congruence from the Faa di Bruno statement of C01 *)
  Lemma cong_unary (g : X -> X) (tw : R -> nat -> R) (dom : R -> Prop) :
    (forall x, wf x -> dom (part x nil) -> forall S, fam S -> part (g x) S = faa (tw (part x nil)) (part x) S) ->
    forall x x', wf x -> wf x' -> dom (part x nil) -> veq x x' -> veq (g x) (g x').
  Proof.
    intros Hg x x' W W' D E S. destruct (fam_dec S) as [F|F]; [|rewrite !out0 by assumption; reflexivity].
    assert (D' : dom (part x' nil)) by (rewrite <- E; exact D).
    rewrite (Hg x W D S F), (Hg x' W' D' S F). rewrite <- (E nil). apply faa_ext; auto.
  Qed.

  (* ---- any sequence of compound assignments applied to an accumulator ---- *)
  Definition step (acc : X) (oy : aop * X) : X :=
    match fst oy with AddA => add acc (snd oy) | SubA => sub acc (snd oy) | MulA => mul acc (snd oy) | DivA => div acc (snd oy) end.
  Definition ok_step (oy : aop * X) : Prop := wf (snd oy) /\ (fst oy = DivA -> part (snd oy) nil <> 0).

  Lemma wf_step acc oy : wf acc -> wf (snd oy) -> wf (step acc oy).
  Proof. destruct oy as [o y]; destruct o; unfold step; simpl; intros; auto. Qed.

  Theorem history ops : forall ys ys' acc acc',
    length ys = length ops -> length ys' = length ops ->
    wf acc -> wf acc' -> veq acc acc' ->
    List.Forall2 veq ys ys' -> List.Forall ok_step (combine ops ys) -> List.Forall ok_step (combine ops ys') ->
    veq (fold_left step (combine ops ys) acc) (fold_left step (combine ops ys') acc').
  Proof.
    induction ops as [|o ops IH]; intros ys ys' acc acc' L1 L2 W W' E F2 O O'.
    - destruct ys; destruct ys'; simpl in *; try discriminate; assumption.
    - destruct ys as [|y ys]; [discriminate|]. destruct ys' as [|y' ys']; [discriminate|].
      simpl in *. inversion F2 as [|? ? ? ? Ey F2']; subst. inversion O as [|? ? [Wy Dy] O1]; subst. inversion O' as [|? ? [Wy' Dy'] O1']; subst.
      simpl in *.
      assert (L1' : length ys = length ops) by (injection L1; auto).
      assert (L2' : length ys' = length ops) by (injection L2; auto).
      apply IH; try assumption.
      + apply wf_step; assumption.
      + apply wf_step; assumption.
      + unfold step; simpl. destruct o; simpl.
        * apply cong_add; assumption.
        * apply cong_sub; assumption.
        * apply cong_mul; assumption.
        * apply cong_div; auto.
  Qed.
End VecCong.
