#!/usr/bin/env python3
"""Runs operations of the num_dual PYTHON module (built from /repo with the python feature) on inputs given as bit patterns.
usage: pyrun.py <dir containing num_dual.abi3.so> < cases.json > results.json
A case: {"id", "kind": "op"|"driver", ...}.  Values are nested lists mirroring the Rust structs (leaves: integers = f64 bit patterns).
Result per id: {"repr": str} | {"reprs": [str, str]} | {"floats": [bits...]} | {"error": "<ExceptionType>"}"""
import sys, json, struct

sys.path.insert(0, sys.argv[1])
import num_dual as nd


def f(b):
    return struct.unpack('<d', struct.pack('<Q', b))[0]


def bits(x):
    return struct.unpack('<Q', struct.pack('<d', float(x)))[0]


CLS = {'Dual64': nd.Dual64, 'Dual2_64': nd.Dual2_64, 'Dual3_64': nd.Dual3_64, 'HyperDual64': nd.HyperDual64, 'HyperHyperDual64': nd.HyperHyperDual64,
       'HyperDual_Dual64': nd.HyperDualDual64, 'Dual2_Dual64': nd.Dual2Dual64, 'Dual3_Dual64': nd.Dual3Dual64}


def build(tname, v):
    """value (nested list of bit patterns, fields in declaration order) -> Python object"""
    if '_Dual64' in tname and tname != 'Dual64':
        return CLS[tname](*[nd.Dual64(f(p[0]), f(p[1])) for p in v])
    return CLS[tname](*[f(p) for p in v])


def getters(o):
    out = {}
    for g in ('value', 'first_derivative', 'second_derivative', 'third_derivative'):
        if hasattr(o, g):
            x = getattr(o, g)
            out[g] = flat(x)
    return out


def flat(x):
    if isinstance(x, (tuple, list)):
        r = []
        for e in x:
            r += flat(e)
        return r
    if isinstance(x, float):
        return [bits(x)]
    if x is None:
        return [None]
    return [repr(x)]


def cji(j, i):
    return float(1 + (3 * j + 5 * i) % 7)


def poly(x, j):
    n = len(x)
    if j >= 3 and j % 2 == 1:       # a constant output (as in the harness): no derivative parts at all
        return type(x[0]).from_re(0.5 * j)
    acc = type(x[0]).from_re(0.5 * j)
    for i in range(n):
        acc = acc + (x[i] * x[i] * x[(i + 1) % n]) * cji(j, i)
    if n >= 2:
        acc = acc + x[0] / (x[1] * x[1] + 3.0)
    if n > 0:
        acc = acc + x[j % n] * (2.0 + j)
    return acc


def poly2(x, y):
    acc = type(x[0]).from_re(0.25)
    for i in range(len(x)):
        for k in range(len(y)):
            acc = acc + (x[i] * y[k] * y[k]) * cji(i, k)
    if len(x) and len(y):
        acc = acc + x[0] / (y[0] * y[0] + 3.0)
    for i in range(len(x)):
        acc = acc + x[i] * (2.0 + i)
    return acc


def run_op(c):
    a = [build(c['type'], v) for v in c['args']]
    op = c['op']
    aux = c.get('aux', [])
    x = a[0] if a else None
    if op == 'from_re':
        if len(aux) == 2:
            return {'repr': repr(CLS[c['type']].from_re(nd.Dual64(f(aux[0]), f(aux[1]))))}
        return {'repr': repr(CLS[c['type']].from_re(f(aux[0])))}
    if op == 'getters':
        return {'getters': getters(x), 'repr': repr(x)}
    if op == 'sin_cos':
        s, co = x.sin_cos()
        return {'reprs': [repr(s), repr(co)]}
    if op in ('powi',):
        return {'repr': repr(x.powi(aux[0]))}
    if op == 'powf':
        return {'repr': repr(x.powf(f(aux[0])))}
    if op == 'log_base':
        return {'repr': repr(x.log_base(f(aux[0])))}
    if op == 'powd':
        return {'repr': repr(x.powd(a[1]))}
    if op == 'mul_add':
        return {'repr': repr(x.mul_add(a[1], a[2]))}
    if op == 'neg':
        return {'repr': repr(-x)}
    if op in ('add', 'sub', 'mul', 'truediv', 'pow'):
        import operator
        fn = {'add': operator.add, 'sub': operator.sub, 'mul': operator.mul, 'truediv': operator.truediv, 'pow': operator.pow}[op]
        mode = c['mode']
        if mode == 'dd':
            return {'repr': repr(fn(x, a[1]))}
        if mode == 'df':
            return {'repr': repr(fn(x, f(aux[0])))}
        if mode == 'di':
            return {'repr': repr(fn(x, int(aux[0])))}
        if mode == 'fd':
            return {'repr': repr(fn(f(aux[0]), x))}
        if mode == 'id':
            return {'repr': repr(fn(int(aux[0]), x))}
    return {'repr': repr(getattr(x, op)())}


def run_driver(c):
    name = c['name']
    x = [f(b) for b in c['x']]
    y = [f(b) for b in c.get('y', [])]
    m = c.get('m', 1)
    if name == 'first_derivative':
        r = nd.first_derivative(lambda d: poly([d], 1), x[0])
    elif name == 'second_derivative':
        r = nd.second_derivative(lambda d: poly([d], 1), x[0])
    elif name == 'third_derivative':
        r = nd.third_derivative(lambda d: poly([d], 1), x[0])
    elif name == 'second_partial_derivative':
        r = nd.second_partial_derivative(lambda p, q: poly2([p], [q]), x[0], y[0])
    elif name == 'third_partial_derivative':
        r = nd.third_partial_derivative(lambda p, q, s: poly([p, q, s], 2), x[0], x[1], x[2])
    elif name == 'third_partial_derivative_vec':
        i, j, k = c['ijk']
        r = nd.third_partial_derivative_vec(lambda v: poly(v, 1), x, i, j, k)
    elif name == 'gradient':
        r = nd.gradient(lambda v: poly(v, 1), x)
    elif name == 'jacobian':
        r = nd.jacobian(lambda v: [poly(v, j) for j in range(m)], x)
    elif name == 'hessian':
        r = nd.hessian(lambda v: poly(v, 1), x)
    elif name == 'partial_hessian':
        r = nd.partial_hessian(lambda p, q: poly2(p, q), x, y)
    else:
        raise KeyError(name)
    return {'floats': flat(r)}


def main():
    cases = json.load(sys.stdin)
    out = {}
    for c in cases:
        try:
            out[c['id']] = run_op(c) if c['kind'] == 'op' else run_driver(c)
        except BaseException as e:       # pyo3 panics surface as BaseException subclasses
            out[c['id']] = {'error': type(e).__name__, 'message': str(e)[:200]}
    json.dump(out, sys.stdout)


main()
