(* Proofs/C12_lu.v -- the elimination loop of LU::new: code-level specification of one elimination step (which entries change, and to what),
   for any size, over any number type (no algebraic laws needed for the specification itself). *)
From Coq Require Import List Arith Lia.
From ND Require Import Tactics LinAlg C12_proofs.
From NDgen Require Import Classes.
Import ListNotations.

Section Spec.
  Context {F T : Type} {dn : DN F T}.
  Local Open Scope rs_scope.

  Definition is_mat (n : nat) (a : list (list T)) : Prop := length a = n /\ forall i, (i < n)%nat -> length (nth i a nil) = n.

  Lemma mg_ms_same a i j (v : T) n : is_mat n a -> (i < n)%nat -> (j < n)%nat -> mg (ms a i j v) i j = v.
  Proof.
    intros [L R] Hi Hj. unfold mg, ms. rewrite nth_upd_same by lia. apply nth_upd_same. rewrite R by lia. exact Hj.
  Qed.
  Lemma mg_ms_other a i j (v : T) i' j' : (i' <> i \/ j' <> j) -> mg (ms a i j v) i' j' = mg a i' j'.
  Proof.
    intros H. unfold mg, ms. destruct (Nat.eq_dec i' i) as [->|Hne].
    - destruct H as [H|H]; [congruence|].
      destruct (Nat.lt_ge_cases i (length a)) as [Hl|Hl].
      + rewrite nth_upd_same by exact Hl. apply nth_upd_other. congruence.
      + assert (E : upd a i (upd (nth i a nil) j v) = a).
        { clear -Hl. revert i Hl. induction a as [|x r IH]; intros [|i] Hl; simpl in *; try reflexivity; try lia. f_equal. apply IH. lia. }
        rewrite E. reflexivity.
    - rewrite nth_upd_other by congruence. reflexivity.
  Qed.
  Lemma is_mat_ms n a i j (v : T) : is_mat n a -> is_mat n (ms a i j v).
  Proof.
    intros [L R]. unfold ms. split; [rewrite upd_length; exact L|]. intros k Hk.
    destruct (Nat.eq_dec k i) as [->|Hne].
    - rewrite nth_upd_same by lia. rewrite upd_length. apply R. exact Hk.
    - rewrite nth_upd_other by congruence. apply R. exact Hk.
  Qed.

  (* the innermost loop: for k in ks { a[(j, k)] = a[(j, k)] - a[(j, i)] * a[(i, k)] }, with i <> j and i not among the ks *)
  Definition row_update (a : list (list T)) (i j : nat) (ks : list nat) : list (list T) :=
    fold_left (fun a k => ms a j k (mg a j k - mg a j i * mg a i k)) ks a.
  Lemma row_update_spec n i j ks : forall a, is_mat n a -> (i < n)%nat -> (j < n)%nat -> i <> j -> ~ In i ks -> NoDup ks -> (forall k, In k ks -> (k < n)%nat) ->
    is_mat n (row_update a i j ks) /\
    (forall k, In k ks -> mg (row_update a i j ks) j k = mg a j k - mg a j i * mg a i k) /\
    (forall r c, (r <> j \/ ~ In c ks) -> mg (row_update a i j ks) r c = mg a r c).
  Proof.
    induction ks as [|k ks IH]; intros a Ha Hi Hj Hij Hni Hnd Hk; simpl.
    - split; [exact Ha|]. split; [intros k []|]. intros r c _. reflexivity.
    - inversion Hnd as [|? ? Hnk Hnd']; subst.
      set (a1 := ms a j k (mg a j k - mg a j i * mg a i k)).
      assert (Ha1 : is_mat n a1) by (apply is_mat_ms; exact Ha).
      assert (Hni' : ~ In i ks) by (intros H; apply Hni; right; exact H).
      destruct (IH a1 Ha1 Hi Hj Hij Hni' Hnd' (fun q Hq => Hk q (or_intror Hq))) as [M [U O]].
      assert (Hki : k <> i) by (intros ->; apply Hni; left; reflexivity).
      split; [exact M|]. split.
      + intros q [->|Hq].
        * rewrite (O j q (or_intror Hnk)). unfold a1. apply (mg_ms_same a j q _ n Ha Hj (Hk q (or_introl eq_refl))).
        * rewrite (U q Hq). unfold a1.
          assert (Hqk : q <> k) by (intros ->; exact (Hnk Hq)).
          rewrite (mg_ms_other a j k _ j q (or_intror Hqk)), (mg_ms_other a j k _ j i (or_intror (not_eq_sym Hki))), (mg_ms_other a j k _ i q (or_introl Hij)). reflexivity.
      + intros r c H. rewrite (O r c); [|destruct H as [H|H]; [left; exact H|right; intros Hc; apply H; right; exact Hc]].
        unfold a1. apply mg_ms_other. destruct H as [H|H]; [left; exact H|right; intros ->; apply H; left; reflexivity].
  Qed.

  Lemma in_range' k a b : In k (range a b) <-> (a <= k < b)%nat.
  Proof. unfold range. rewrite in_seq. lia. Qed.
  Lemma NoDup_range a b : NoDup (range a b).
  Proof. unfold range. apply seq_NoDup. Qed.

  (* the loop over the rows below the pivot row *)
  Definition elim_rows (a : list (list T)) (n i : nat) (js : list nat) : list (list T) :=
    fold_left (fun a j => row_update (ms a j i (mg a j i / mg a i i)) i j (range (S i) n)) js a.
  Lemma eliminate_is_elim_rows a n i : eliminate a n i = elim_rows a n i (range (S i) n).
  Proof. reflexivity. Qed.

  Lemma elim_rows_spec n i js : forall a, is_mat n a -> (i < n)%nat -> NoDup js -> (forall j, In j js -> (i < j < n)%nat) ->
    is_mat n (elim_rows a n i js) /\
    (forall j, In j js -> mg (elim_rows a n i js) j i = mg a j i / mg a i i) /\
    (forall j k, In j js -> (i < k < n)%nat -> mg (elim_rows a n i js) j k = mg a j k - (mg a j i / mg a i i) * mg a i k) /\
    (forall r c, (~ In r js \/ (c < i)%nat) -> mg (elim_rows a n i js) r c = mg a r c).
  Proof.
    induction js as [|j js IH]; intros a Ha Hi Hnd Hjs; simpl.
    - split; [exact Ha|]. split; [intros j []|]. split; [intros j k []|]. intros r c _. reflexivity.
    - inversion Hnd as [|? ? Hnj Hnd']; subst.
      assert (Hj : (i < j < n)%nat) by (apply Hjs; left; reflexivity).
      set (a1 := ms a j i (mg a j i / mg a i i)).
      assert (Ha1 : is_mat n a1) by (apply is_mat_ms; exact Ha).
      assert (Nin : ~ In i (range (S i) n)) by (rewrite in_range'; lia).
      assert (Hij0 : i <> j) by lia. assert (Hjn0 : (j < n)%nat) by lia.
      destruct (row_update_spec n i j (range (S i) n) a1 Ha1 Hi Hjn0 Hij0 Nin (NoDup_range _ _) (fun k Hk => proj2 (proj1 (in_range' k (S i) n) Hk)))
        as [M2 [U2 O2]].
      set (a2 := row_update a1 i j (range (S i) n)) in *.
      destruct (IH a2 M2 Hi Hnd' (fun q Hq => Hjs q (or_intror Hq))) as [M [C1 [C2 O]]].
      assert (Hij : i <> j) by lia. assert (Hjn : (j < n)%nat) by lia.
      (* facts about a2 in terms of a *)
      assert (A2ji : mg a2 j i = mg a j i / mg a i i).
      { rewrite (O2 j i (or_intror Nin)). unfold a1. apply (mg_ms_same a j i _ n Ha); lia. }
      assert (A2row_i : forall c, mg a2 i c = mg a i c).
      { intros c. rewrite (O2 i c (or_introl Hij)). unfold a1. apply mg_ms_other. left. exact Hij. }
      assert (A2other : forall r c, r <> j -> mg a2 r c = mg a r c).
      { intros r c Hr. rewrite (O2 r c (or_introl Hr)). unfold a1. apply mg_ms_other. left. exact Hr. }
      assert (A2jk : forall k, (i < k < n)%nat -> mg a2 j k = mg a j k - (mg a j i / mg a i i) * mg a i k).
      { intros k Hk. assert (Hin : In k (range (S i) n)) by (rewrite in_range'; lia). assert (Hki : k <> i) by lia.
        rewrite (U2 k Hin). unfold a1.
        rewrite (mg_ms_other a j i _ j k (or_intror Hki)), (mg_ms_same a j i _ n Ha Hjn Hi), (mg_ms_other a j i _ i k (or_introl Hij)). reflexivity. }
      assert (A2jc : forall c, (c < i)%nat -> mg a2 j c = mg a j c).
      { intros c Hc. assert (Hnin : ~ In c (range (S i) n)) by (rewrite in_range'; lia).
        rewrite (O2 j c (or_intror Hnin)). unfold a1. apply mg_ms_other. right. lia. }
      split; [exact M|]. split; [|split].
      + intros q [->|Hq].
        * rewrite (O q i (or_introl Hnj)). exact A2ji.
        * rewrite (C1 q Hq). assert (q <> j) by (intros ->; exact (Hnj Hq)). rewrite (A2other q i H), (A2row_i i). reflexivity.
      + intros q k [->|Hq] Hk.
        * rewrite (O q k (or_introl Hnj)). apply A2jk; exact Hk.
        * rewrite (C2 q k Hq Hk). assert (q <> j) by (intros ->; exact (Hnj Hq)).
          rewrite (A2other q k H), (A2other q i H), (A2row_i i), (A2row_i k). reflexivity.
      + intros r c H. rewrite (O r c); [|destruct H as [H|H]; [left; intros Hr; apply H; right; exact Hr|right; exact H]].
        destruct (Nat.eq_dec r j) as [->|Hr].
        * destruct H as [H|H]; [exfalso; apply H; left; reflexivity|]. apply A2jc; exact H.
        * apply A2other; exact Hr.
  Qed.
End Spec.

(* ---- the algebra of one step: the invariant  P A = L U "so far" ---- *)
Section Algebra.
  Context {F T : Type} {dn : DN F T}.
  Local Open Scope rs_scope.
  Hypothesis RT : ring_theory (Overload.zero : T) (Overload.one : T) (@hadd T T T dn_add) (@hmul T T T dn_mul) (@hsub T T T dn_sub) (@hneg T T dn_neg) eq.
  Add Ring TRing2 : RT.
  Variable isunit : T -> Prop.
  Hypothesis div_mul : forall x y : T, isunit y -> (x / y) * y = x.

  Lemma sum_list_snoc (f : nat -> T) l x : sum_list f (l ++ (x :: nil)) = sum_list f l + f x.
  Proof. induction l as [|y l IH]; simpl; [ring|]. rewrite IH. ring. Qed.
  Lemma range0_S m : range 0 (S m) = range 0 m ++ (m :: nil).
  Proof. unfold range. rewrite !Nat.sub_0_r. rewrite seq_S. reflexivity. Qed.
  Lemma sum_ext (f g : nat -> T) ks : (forall k, In k ks -> f k = g k) -> sum_list f ks = sum_list g ks.
  Proof. induction ks as [|k r IH]; intros H; simpl; [reflexivity|]. rewrite (H k) by (left; reflexivity). rewrite IH; [reflexivity|]. intros q Hq; apply H; right; exact Hq. Qed.

  Variable n : nat.
  Variable A : list (list T).

  Definition rhs (a : list (list T)) (s r c : nat) : T :=
    sum_list (fun k => mg a r k * mg a k c) (range 0 (Nat.min (Nat.min s r) (S c))) + (if Nat.leb (Nat.min s r) c then mg a r c else (Overload.zero : T)).
  Definition Inv (s : nat) (a : list (list T)) (p : list nat) : Prop :=
    is_mat n a /\ length p = n /\ (forall r, (r < n)%nat -> (nth r p O < n)%nat) /\
    forall r c, (r < n)%nat -> (c < n)%nat -> mg A (nth r p O) c = rhs a s r c.

  (* rows: swapping two rows that are not yet finished *)
  Definition swap_rows {X} (l : list X) (i m : nat) (d : X) : list X := upd (upd l i (nth m l d)) m (nth i l d).
  Lemma nth_swap_rows {X} (l : list X) i m d r : (i < length l)%nat -> (m < length l)%nat ->
    nth r (swap_rows l i m d) d = nth (if Nat.eqb r m then i else if Nat.eqb r i then m else r) l d.
  Proof.
    intros Hi Hm. unfold swap_rows. destruct (Nat.eqb_spec r m) as [->|Hrm].
    - rewrite nth_upd_same by (rewrite upd_length; exact Hm). reflexivity.
    - rewrite nth_upd_other by congruence. destruct (Nat.eqb_spec r i) as [->|Hri].
      + rewrite nth_upd_same by exact Hi. reflexivity.
      + rewrite nth_upd_other by congruence. reflexivity.
  Qed.

  Lemma inv_swap s a p m : Inv s a p -> (s <= m < n)%nat -> (s < n)%nat -> Inv s (swap_rows a s m nil) (swap_rows p s m O).
  Proof.
    intros [Ha [Lp [Pn E]]] Hm Hs. destruct Ha as [La Ra].
    assert (Hnth : forall r, nth r (swap_rows a s m nil) nil = nth (if Nat.eqb r m then s else if Nat.eqb r s then m else r) a nil)
      by (intros r; apply nth_swap_rows; lia).
    assert (Hpn : forall r, nth r (swap_rows p s m O) O = nth (if Nat.eqb r m then s else if Nat.eqb r s then m else r) p O)
      by (intros r; apply nth_swap_rows; lia).
    assert (Hmg : forall r c, mg (swap_rows a s m nil) r c = mg a (if Nat.eqb r m then s else if Nat.eqb r s then m else r) c)
      by (intros r c; unfold mg; rewrite Hnth; reflexivity).
    split; [|split; [|split]].
    - split; [unfold swap_rows; rewrite !upd_length; exact La|]. intros i Hi. rewrite Hnth. apply Ra.
      destruct (Nat.eqb i m); [lia|]. destruct (Nat.eqb i s); lia.
    - unfold swap_rows. rewrite !upd_length. exact Lp.
    - intros r Hr. rewrite Hpn. apply Pn. destruct (Nat.eqb r m); [lia|]. destruct (Nat.eqb r s); lia.
    - intros r c Hr Hc. rewrite Hpn.
      set (r' := if Nat.eqb r m then s else if Nat.eqb r s then m else r).
      assert (Hr' : (r' < n)%nat) by (unfold r'; destruct (Nat.eqb r m); [lia|]; destruct (Nat.eqb r s); lia).
      rewrite (E r' c Hr' Hc). unfold rhs.
      assert (Hmin : Nat.min s r' = Nat.min s r).
      { unfold r'. destruct (Nat.eqb_spec r m) as [->|]; [lia|]. destruct (Nat.eqb_spec r s) as [->|]; lia. }
      rewrite Hmin. rewrite (Hmg r c). fold r'. f_equal.
      apply sum_ext. intros k Hk. apply in_range' in Hk. rewrite (Hmg r k). fold r'. rewrite (Hmg k c).
      assert (Hk' : (if Nat.eqb k m then s else if Nat.eqb k s then m else k) = k).
      { destruct (Nat.eqb_spec k m); [lia|]. destruct (Nat.eqb_spec k s); [lia|]. reflexivity. }
      rewrite Hk'. reflexivity.
  Qed.

  Lemma inv_eliminate s a p : Inv s a p -> (s < n)%nat -> isunit (mg a s s) -> Inv (S s) (eliminate a n s) p.
  Proof.
    intros [Ha [Lp [Pn E]]] Hs Hu. rewrite eliminate_is_elim_rows.
    assert (Hjs : forall j, In j (range (S s) n) -> (s < j < n)%nat) by (intros j Hj; apply in_range' in Hj; lia).
    destruct (elim_rows_spec n s (range (S s) n) a Ha Hs (NoDup_range _ _) Hjs) as [M [F1 [F2 F3]]].
    set (a' := elim_rows a n s (range (S s) n)) in *.
    assert (G1 : forall j, (s < j < n)%nat -> mg a' j s = mg a j s / mg a s s) by (intros j Hj; apply F1; apply in_range'; lia).
    assert (G2 : forall j k, (s < j < n)%nat -> (s < k < n)%nat -> mg a' j k = mg a j k - (mg a j s / mg a s s) * mg a s k)
      by (intros j k Hj Hk; apply F2; [apply in_range'; lia|exact Hk]).
    assert (G3 : forall r c, (r <= s)%nat \/ (c < s)%nat -> mg a' r c = mg a r c).
    { intros r c [H|H]; apply F3; [left; rewrite in_range'; lia|right; exact H]. }
    assert (G3r : forall r c, (r <= s)%nat -> mg a' r c = mg a r c) by (intros r c H; apply G3; left; exact H).
    assert (G3c : forall r c, (c < s)%nat -> mg a' r c = mg a r c) by (intros r c H; apply G3; right; exact H).
    split; [exact M|]. split; [exact Lp|]. split; [exact Pn|].
    intros r c Hr Hc. rewrite (E r c Hr Hc). unfold rhs.
    destruct (Nat.le_gt_cases r s) as [Hrs|Hrs].
    - (* finished rows and the pivot row *)
      replace (Nat.min (S s) r) with r by lia. replace (Nat.min s r) with r by lia.
      rewrite (G3r r c Hrs). f_equal. apply sum_ext. intros k Hk. apply in_range' in Hk.
      assert (Hks : (k <= s)%nat) by lia. rewrite (G3r r k Hrs), (G3r k c Hks). reflexivity.
    - replace (Nat.min (S s) r) with (S s) by lia. replace (Nat.min s r) with s by lia.
      assert (Hrn : (s < r < n)%nat) by lia. assert (Hss : (s <= s)%nat) by lia.
      destruct (Nat.lt_trichotomy c s) as [Hcs|[->|Hcs]].
      + replace (Nat.min (S s) (S c)) with (S c) by lia. replace (Nat.min s (S c)) with (S c) by lia.
        assert (L1 : Nat.leb (S s) c = false) by (apply Nat.leb_gt; lia). assert (L2 : Nat.leb s c = false) by (apply Nat.leb_gt; lia). rewrite L1, L2.
        f_equal. apply sum_ext. intros k Hk. apply in_range' in Hk.
        assert (Hk1 : (k < s)%nat) by lia. assert (Hk2 : (k <= s)%nat) by lia.
        rewrite (G3c r k Hk1), (G3r k c Hk2). reflexivity.
      + replace (Nat.min (S s) (S s)) with (S s) by lia. replace (Nat.min s (S s)) with s by lia.
        assert (L1 : Nat.leb (S s) s = false) by (apply Nat.leb_gt; lia). assert (L2 : Nat.leb s s = true) by (apply Nat.leb_le; lia). rewrite L1, L2.
        rewrite range0_S, sum_list_snoc.
        rewrite (sum_ext (fun k => mg a' r k * mg a' k s) (fun k => mg a r k * mg a k s)).
        2:{ intros k Hk. apply in_range' in Hk. assert (Hk1 : (k < s)%nat) by lia. assert (Hk2 : (k <= s)%nat) by lia.
            rewrite (G3c r k Hk1), (G3r k s Hk2). reflexivity. }
        rewrite (G1 r Hrn), (G3r s s Hss). rewrite (div_mul _ _ Hu). ring.
      + replace (Nat.min (S s) (S c)) with (S s) by lia. replace (Nat.min s (S c)) with s by lia.
        assert (L1 : Nat.leb (S s) c = true) by (apply Nat.leb_le; lia). assert (L2 : Nat.leb s c = true) by (apply Nat.leb_le; lia). rewrite L1, L2.
        rewrite range0_S, sum_list_snoc.
        rewrite (sum_ext (fun k => mg a' r k * mg a' k c) (fun k => mg a r k * mg a k c)).
        2:{ intros k Hk. apply in_range' in Hk. assert (Hk1 : (k < s)%nat) by lia. assert (Hk2 : (k <= s)%nat) by lia.
            rewrite (G3c r k Hk1), (G3r k c Hk2). reflexivity. }
        assert (Hcn : (s < c < n)%nat) by lia.
        rewrite (G1 r Hrn), (G3r s c Hss), (G2 r c Hrn Hcn). ring.
  Qed.

  (* ---- the code: pivot search, swap, eliminate, for s = 0 .. n-1 ---- *)
  #[local] Instance flF_lu : FL F := @flF_la F T dn.
  Hypothesis nz_zero : nt_is_zero (Overload.zero : F) = true.
  Hypothesis pivot_unit : forall x : T, nt_is_zero (m_re (m_abs x) : F) = false -> isunit x.

  Lemma pivot_spec (a : list (list T)) s :
    let r := pivot a n s in
    (snd r = s /\ fst r = (Overload.zero : F)) \/ ((s <= snd r < n)%nat /\ fst r = (m_re (m_abs (mg a (snd r) s)) : F)).
  Proof.
    unfold pivot.
    match goal with |- context [fold_left ?f (range s n) ?st0] =>
      assert (G : forall ks (st : F * nat), (forall k, In k ks -> (s <= k < n)%nat) ->
                 ((snd st = s /\ fst st = (Overload.zero : F)) \/ ((s <= snd st < n)%nat /\ fst st = (m_re (m_abs (mg a (snd st) s)) : F))) ->
                 let r := fold_left f ks st in
                 (snd r = s /\ fst r = (Overload.zero : F)) \/ ((s <= snd r < n)%nat /\ fst r = (m_re (m_abs (mg a (snd r) s)) : F))) end.
    { induction ks as [|k ks IH]; intros st Hk H; cbn [fold_left]; [exact H|].
      apply IH; [intros q Hq; apply Hk; right; exact Hq|]. cbv zeta.
      match goal with |- context [if ?b then _ else _] => destruct b end; [|exact H].
      right. split; [apply Hk; left; reflexivity|reflexivity]. }
    apply G; [intros k Hk; apply in_range' in Hk; lia|]. left. split; reflexivity.
  Qed.

  Definition Inv' (s : nat) (a : list (list T)) (p : list nat) : Prop := Inv s a p /\ forall r, (r < s)%nat -> isunit (mg a r r).

  Lemma lu_step_inv s l l' : Inv' s (lu_a l) (lu_p l) -> (s < n)%nat -> lu_step (Some l) n s = Some l' -> Inv' (S s) (lu_a l') (lu_p l').
  Proof.
    intros [HI HU] Hs H. unfold lu_step in H.
    pose proof (pivot_spec (lu_a l) s) as P. cbv zeta in P.
    destruct (pivot (lu_a l) n s) as [mx imax] eqn:Epiv. cbn [fst snd] in P.
    destruct (nt_is_zero mx) eqn:Enz; [discriminate|]. inversion H as [Hl']. clear H.
    destruct P as [[_ Pz]|[Pr Pv]]; [subst mx; match type of Enz with ?t = false => assert (Z : t = true) by exact nz_zero; rewrite Z in Enz; discriminate end|].
    subst mx. assert (Hunit : isunit (mg (lu_a l) imax s)) by (apply pivot_unit; exact Enz).
    destruct (Nat.eqb_spec imax s) as [->|Hne]; cbn [lu_a lu_p lu_pc].
    - split.
      + apply inv_eliminate; [exact HI|exact Hs|exact Hunit].
      + intros r Hr. destruct HI as [Ha _].
        assert (Hjs : forall j, In j (range (S s) n) -> (s < j < n)%nat) by (intros j Hj; apply in_range' in Hj; lia).
        destruct (elim_rows_spec n s (range (S s) n) (lu_a l) Ha Hs (NoDup_range _ _) Hjs) as [_ [_ [_ F3]]].
        rewrite eliminate_is_elim_rows. rewrite F3 by (left; rewrite in_range'; lia).
        destruct (Nat.eq_dec r s) as [->|Hrs]; [exact Hunit|apply HU; lia].
    - pose proof (inv_swap s (lu_a l) (lu_p l) imax HI Pr Hs) as HS.
      change (upd (upd (lu_a l) s (nth imax (lu_a l) nil)) imax (nth s (lu_a l) nil)) with (swap_rows (lu_a l) s imax nil).
      change (upd (upd (lu_p l) s (nth imax (lu_p l) O)) imax (nth s (lu_p l) O)) with (swap_rows (lu_p l) s imax O).
      destruct HI as [[La Ra] [Lp _]].
      assert (Hmg : forall r c, mg (swap_rows (lu_a l) s imax nil) r c = mg (lu_a l) (if Nat.eqb r imax then s else if Nat.eqb r s then imax else r) c).
      { intros r c. unfold mg. rewrite nth_swap_rows by lia. reflexivity. }
      assert (Hunit' : isunit (mg (swap_rows (lu_a l) s imax nil) s s)).
      { rewrite Hmg. destruct (Nat.eqb_spec s imax) as [E|_]; [congruence|]. rewrite Nat.eqb_refl. exact Hunit. }
      split.
      + apply inv_eliminate; [exact HS|exact Hs|exact Hunit'].
      + intros r Hr. destruct HS as [Ha' _].
        assert (Hjs : forall j, In j (range (S s) n) -> (s < j < n)%nat) by (intros j Hj; apply in_range' in Hj; lia).
        destruct (elim_rows_spec n s (range (S s) n) _ Ha' Hs (NoDup_range _ _) Hjs) as [_ [_ [_ F3]]].
        rewrite eliminate_is_elim_rows. rewrite F3 by (left; rewrite in_range'; lia).
        destruct (Nat.eq_dec r s) as [->|Hrs]; [exact Hunit'|].
        rewrite Hmg. destruct (Nat.eqb_spec r imax); [lia|]. destruct (Nat.eqb_spec r s); [lia|]. apply HU. lia.
  Qed.

  Lemma fold_lu_none ks : fold_left (fun st i => lu_step (T:=T) st n i) ks None = None.
  Proof. induction ks; simpl; auto. Qed.
  Lemma lu_fold_inv m l0 l : (m <= n)%nat -> Inv' 0 (lu_a l0) (lu_p l0) ->
    fold_left (fun st i => lu_step st n i) (range 0 m) (Some l0) = Some l -> Inv' m (lu_a l) (lu_p l).
  Proof.
    revert l. induction m as [|m IH]; intros l Hm H0 H.
    - unfold range in H; simpl in H. inversion H; subst. exact H0.
    - rewrite range0_S, fold_left_app in H. cbn [fold_left] in H.
      destruct (fold_left (fun st i => lu_step st n i) (range 0 m) (Some l0)) as [l1|] eqn:E1; [|discriminate].
      apply (lu_step_inv m l1 l); [apply IH; [lia|exact H0|reflexivity]|lia|exact H].
  Qed.

  Lemma inv_init : is_mat n A -> Inv' 0 A (seq 0 n).
  Proof.
    intros HA. split; [|intros r Hr; lia]. split; [exact HA|]. split; [apply seq_length|]. split.
    - intros r Hr. rewrite seq_nth by exact Hr. lia.
    - intros r c Hr Hc. rewrite seq_nth by exact Hr. unfold rhs. cbn [Nat.min Nat.add]. unfold range; simpl. ring.
  Qed.

  Theorem lu_new_factorises l : is_mat n A -> lu_new A = Some l ->
    is_mat n (lu_a l) /\ length (lu_p l) = n /\ (forall r, (r < n)%nat -> (nth r (lu_p l) O < n)%nat) /\ (forall r, (r < n)%nat -> isunit (mg (lu_a l) r r)) /\
    forall r c, (r < n)%nat -> (c < n)%nat ->
      mg A (nth r (lu_p l) O) c = sum_list (fun k => mg (lu_a l) r k * mg (lu_a l) k c) (range 0 (Nat.min r (S c))) + (if Nat.leb r c then mg (lu_a l) r c else (Overload.zero : T)).
  Proof.
    intros HA H. unfold lu_new in H. destruct HA as [LA RA]. rewrite LA in H.
    pose proof (lu_fold_inv n (mkLU A (seq 0 n) n) l (le_n n) (inv_init (conj LA RA)) H) as [[Ha [Lp [Pn E]]] HU].
    split; [exact Ha|]. split; [exact Lp|]. split; [exact Pn|]. split; [exact HU|].
    intros r c Hr Hc. rewrite (E r c Hr Hc). unfold rhs. replace (Nat.min n r) with r by lia. reflexivity.
  Qed.
End Algebra.

(* ---- A x = b ---- *)
Section Solve.
  Context {F T : Type} {dn : DN F T}.
  Local Open Scope rs_scope.
  Hypothesis RT : ring_theory (Overload.zero : T) (Overload.one : T) (@hadd T T T dn_add) (@hmul T T T dn_mul) (@hsub T T T dn_sub) (@hneg T T dn_neg) eq.
  Add Ring TRing3 : RT.
  Variable isunit : T -> Prop.
  Hypothesis div_mul : forall x y : T, isunit y -> (x / y) * y = x.
  #[local] Instance flF_lu2 : FL F := @flF_la F T dn.
  Hypothesis nz_zero : nt_is_zero (Overload.zero : F) = true.
  Hypothesis pivot_unit : forall x : T, nt_is_zero (m_re (m_abs x) : F) = false -> isunit x.

  Notation Z0 := (Overload.zero : T).
  Lemma sum_zero ks : sum_list (fun _ => Z0) ks = Z0.
  Proof. induction ks; simpl; [reflexivity|]. rewrite IHks. ring. Qed.
  Lemma sum_add (f g : nat -> T) ks : sum_list (fun k => f k + g k) ks = sum_list f ks + sum_list g ks.
  Proof. induction ks; simpl; [ring|]. rewrite IHks. ring. Qed.
  Lemma sum_scale (c : T) (f : nat -> T) ks : sum_list (fun k => c * f k) ks = c * sum_list f ks.
  Proof. induction ks; simpl; [ring|]. rewrite IHks. ring. Qed.
  Lemma sum_scale_r (c : T) (f : nat -> T) ks : sum_list (fun k => f k * c) ks = sum_list f ks * c.
  Proof. induction ks; simpl; [ring|]. rewrite IHks. ring. Qed.
  Lemma sum_swap (g : nat -> nat -> T) cs ks :
    sum_list (fun c => sum_list (fun k => g c k) ks) cs = sum_list (fun k => sum_list (fun c => g c k) cs) ks.
  Proof.
    induction cs as [|c cs IH]; simpl.
    - rewrite sum_zero. reflexivity.
    - rewrite IH. rewrite <- sum_add. reflexivity.
  Qed.
  Lemma sum_ext' (f g : nat -> T) ks : (forall k, In k ks -> f k = g k) -> sum_list f ks = sum_list g ks.
  Proof. induction ks as [|k r IH]; intros H; simpl; [reflexivity|]. rewrite (H k) by (left; reflexivity). rewrite IH; [reflexivity|]. intros q Hq; apply H; right; exact Hq. Qed.
  (* restricting a sum over 0..m-1 by an indicator *)
  Lemma sum_prefix (f : nat -> T) r m : (r <= m)%nat -> sum_list f (range 0 r) = sum_list (fun k => if Nat.ltb k r then f k else Z0) (range 0 m).
  Proof.
    intros H. induction m as [|m IH].
    - replace r with 0%nat by lia. reflexivity.
    - destruct (Nat.eq_dec r (S m)) as [->|Hne].
      + apply sum_ext'. intros k Hk. apply in_range' in Hk. destruct (Nat.ltb_spec k (S m)); [reflexivity|lia].
      + unfold range in *. rewrite !Nat.sub_0_r in *. rewrite seq_S. simpl Nat.add.
        rewrite (sum_list_snoc RT). rewrite <- IH by lia. destruct (Nat.ltb_spec m r); [lia|]. ring.
  Qed.
  Lemma sum_suffix (h : nat -> T) k m : (k <= m)%nat -> sum_list h (range k m) = sum_list (fun c => if Nat.leb k c then h c else Z0) (range 0 m).
  Proof.
    intros H. induction m as [|m IH].
    - replace k with 0%nat by lia. reflexivity.
    - destruct (Nat.eq_dec k (S m)) as [->|Hne].
      + unfold range. replace (S m - S m)%nat with 0%nat by lia. simpl sum_list at 1.
        symmetry. rewrite (sum_ext' _ (fun _ => Z0)); [apply sum_zero|].
        intros c Hc. rewrite Nat.sub_0_r in Hc. apply in_seq in Hc. destruct (Nat.leb_spec (S m) c); [lia|reflexivity].
      + assert (Hk : (k <= m)%nat) by lia.
        assert (R1 : range k (S m) = range k m ++ (m :: nil)).
        { unfold range. replace (S m - k)%nat with (S (m - k)) by lia. rewrite seq_S. f_equal. f_equal. lia. }
        assert (R2 : range 0 (S m) = range 0 m ++ (m :: nil)).
        { unfold range. rewrite !Nat.sub_0_r. rewrite seq_S. reflexivity. }
        rewrite R1, R2, !(sum_list_snoc RT). rewrite (IH Hk). destruct (Nat.leb_spec k m); [reflexivity|lia].
  Qed.

  Theorem lu_solve_correct (A : list (list T)) (b : list T) l : let n := length A in
    is_mat n A -> length b = n -> lu_new A = Some l ->
    let x := lu_solve l b in
    length x = n /\ forall r, (r < n)%nat -> sum_list (fun c => mg A (nth r (lu_p l) O) c * vg x c) (range 0 n) = vg b (nth r (lu_p l) O).
  Proof.
    intros n HA Hb Hl. cbv zeta.
    destruct (lu_new_factorises RT isunit div_mul n A nz_zero pivot_unit l HA Hl) as [Ha [Lp [Pn [HU E]]]].
    rewrite (solve_is_fwd_bwd RT).
    destruct (forward_spec RT (lu_a l) (lu_p l) b) as [Ly Ey]. set (y := fwd (lu_a l) (lu_p l) b) in *.
    assert (HU' : forall i, (i < length y)%nat -> isunit (mg (lu_a l) i i)) by (intros i Hi; apply HU; lia).
    destruct (backward_spec RT isunit div_mul (lu_a l) y HU') as [Lx Ex]. set (x := bwd (lu_a l) y) in *.
    assert (Hny : length y = n) by lia.
    assert (Ex' : forall i, (i < n)%nat -> sum_list (fun k => mg (lu_a l) i k * vg x k) (range i n) = vg y i).
    { intros i Hi. rewrite <- Hny. apply Ex. lia. }
    split; [lia|]. intros r Hr. set (a := lu_a l) in *.
    assert (Hrb : (r < length b)%nat) by lia. rewrite <- (Ey r Hrb).
    (* expand P A = L U *)
    rewrite (sum_ext' _ (fun c => sum_list (fun k => if Nat.leb k c then mg a r k * (mg a k c * vg x c) else Z0) (range 0 r)
                               + (if Nat.leb r c then mg a r c * vg x c else Z0))).
    2:{ intros c Hc. apply in_range' in Hc. rewrite (E r c Hr ltac:(lia)).
        rewrite (sum_prefix (fun k => mg a r k * mg a k c) (Nat.min r (S c)) r ltac:(lia)).
        destruct (Nat.leb r c); [|].
        - transitivity (sum_list (fun k => (if Nat.ltb k (Nat.min r (S c)) then mg a r k * mg a k c else Z0)) (range 0 r) * vg x c + mg a r c * vg x c); [ring|].
          f_equal. rewrite <- sum_scale_r. apply sum_ext'. intros k Hk. apply in_range' in Hk.
          destruct (Nat.ltb_spec k (Nat.min r (S c))), (Nat.leb_spec k c); try lia; ring.
        - transitivity (sum_list (fun k => (if Nat.ltb k (Nat.min r (S c)) then mg a r k * mg a k c else Z0)) (range 0 r) * vg x c + Z0); [ring|].
          f_equal. rewrite <- sum_scale_r. apply sum_ext'. intros k Hk. apply in_range' in Hk.
          destruct (Nat.ltb_spec k (Nat.min r (S c))), (Nat.leb_spec k c); try lia; ring. }
    rewrite sum_add. rewrite sum_swap.
    (* inner sums are the back-substitution identities *)
    rewrite (sum_ext' _ (fun k => mg a r k * vg y k)).
    2:{ intros k Hk. apply in_range' in Hk.
        rewrite (sum_ext' _ (fun c => mg a r k * (if Nat.leb k c then mg a k c * vg x c else Z0))).
        2:{ intros c Hc. destruct (Nat.leb k c); ring. }
        assert (Hkn : (k <= n)%nat) by lia. assert (Hkn' : (k < n)%nat) by lia.
        rewrite sum_scale. f_equal. rewrite <- (sum_suffix (fun c => mg a k c * vg x c) k n Hkn). apply Ex'. exact Hkn'. }
    assert (Hrn : (r <= n)%nat) by lia.
    rewrite <- (sum_suffix (fun c => mg a r c * vg x c) r n Hrn). rewrite (Ex' r Hr). ring.
  Qed.

  (* the row order is a permutation: every row of the system is among the equations above *)
  Definition Surj (n : nat) (p : list nat) : Prop := length p = n /\ forall i, (i < n)%nat -> exists r, (r < n)%nat /\ nth r p O = i.
  Lemma surj_swap n p s m : Surj n p -> (s < n)%nat -> (m < n)%nat -> Surj n (swap_rows p s m O).
  Proof.
    intros [L H] Hs Hm. split; [unfold swap_rows; rewrite !upd_length; exact L|].
    intros i Hi. destruct (H i Hi) as [r [Hr E]].
    exists (if Nat.eqb r m then s else if Nat.eqb r s then m else r). split.
    - destruct (Nat.eqb r m); [lia|]. destruct (Nat.eqb r s); lia.
    - rewrite nth_swap_rows by lia. rewrite <- E. f_equal.
      destruct (Nat.eqb_spec r m) as [->|Hrm].
      + destruct (Nat.eqb_spec s m) as [->|Hsm]; [reflexivity|]. rewrite Nat.eqb_refl. reflexivity.
      + destruct (Nat.eqb_spec r s) as [->|Hrs].
        * rewrite Nat.eqb_refl. reflexivity.
        * destruct (Nat.eqb_spec r m); [lia|]. destruct (Nat.eqb_spec r s); [lia|]. reflexivity.
  Qed.
  Lemma lu_step_surj n s (l l' : lu (T:=T)) : Surj n (lu_p l) -> (s < n)%nat -> lu_step (Some l) n s = Some l' -> Surj n (lu_p l').
  Proof.
    intros HS Hs H. unfold lu_step in H.
    pose proof (pivot_spec n (lu_a l) s) as P. cbv zeta in P.
    destruct (pivot (lu_a l) n s) as [mx imax] eqn:Epiv. cbn [fst snd] in P.
    destruct (nt_is_zero mx) eqn:Enz; [discriminate|]. inversion H as [Hl']. clear H.
    destruct (Nat.eqb_spec imax s) as [->|Hne]; cbn [lu_p]; [exact HS|].
    destruct P as [[Pz _]|[Pr _]]; [congruence|].
    change (upd (upd (lu_p l) s (nth imax (lu_p l) O)) imax (nth s (lu_p l) O)) with (swap_rows (lu_p l) s imax O).
    apply surj_swap; [exact HS|exact Hs|lia].
  Qed.
  Lemma lu_fold_surj n m (l0 l : lu (T:=T)) : (m <= n)%nat -> Surj n (lu_p l0) ->
    fold_left (fun st i => lu_step st n i) (range 0 m) (Some l0) = Some l -> Surj n (lu_p l).
  Proof.
    revert l. induction m as [|m IH]; intros l Hm H0 H.
    - unfold range in H; simpl in H. inversion H; subst. exact H0.
    - rewrite range0_S, fold_left_app in H. cbn [fold_left] in H.
      destruct (fold_left (fun st i => lu_step st n i) (range 0 m) (Some l0)) as [l1|] eqn:E1; [|discriminate].
      apply (lu_step_surj n m l1 l); [apply IH; [lia|exact H0|reflexivity]|lia|exact H].
  Qed.

  Theorem lu_solve_Ax_eq_b (A : list (list T)) (b : list T) l : let n := length A in
    is_mat n A -> length b = n -> lu_new A = Some l ->
    let x := lu_solve l b in
    length x = n /\ forall i, (i < n)%nat -> sum_list (fun c => mg A i c * vg x c) (range 0 n) = vg b i.
  Proof.
    intros n HA Hb Hl. destruct (lu_solve_correct A b l HA Hb Hl) as [Lx E]. split; [exact Lx|].
    assert (HS : Surj n (lu_p l)).
    { unfold lu_new in Hl. fold n in Hl. apply (lu_fold_surj n n (mkLU A (seq 0 n) n) l (le_n n)); [|exact Hl].
      split; [apply seq_length|]. intros i Hi. exists i. split; [exact Hi|apply seq_nth; exact Hi]. }
    intros i Hi. destruct HS as [_ HS]. destruct (HS i Hi) as [r [Hr Er]]. rewrite <- Er. apply E. exact Hr.
  Qed.
End Solve.

(* ---- the dual number types over R ---- *)
Local Open Scope R_scope.
Lemma nz_zero_R : nt_is_zero (Overload.zero : R) = true.
Proof. unfold nt_is_zero. rcbv. unfold Reqb. destruct (Req_EM_T 0 0); [reflexivity|lra]. Qed.
Ltac pu_tac := intros x H E; repeat match goal with d : _ R |- _ => destruct d end;
  match type of E with m_re ?d = 0 => assert (E' : _ = 0) by exact E end; subst; revert H; unfold nt_is_zero; rcbv; unfold Rleb, Reqb;
  repeat match goal with |- context [Rle_dec ?a ?b] => destruct (Rle_dec a b) | |- context [Req_EM_T ?a ?b] => destruct (Req_EM_T a b) end;
  simpl; intros; try discriminate; try lra; try (match goal with n : ?a <> 0 |- False => apply n; exact E end);
  try (match goal with n : ~ (0 <= ?a) |- False => apply n; right; symmetry; exact E end).
Lemma pu_Dual : forall x : Dual R, nt_is_zero (m_re (m_abs x) : R) = false -> m_re x <> 0.  Proof. pu_tac. Qed.
Lemma pu_Dual2 : forall x : Dual2 R, nt_is_zero (m_re (m_abs x) : R) = false -> m_re x <> 0.  Proof. pu_tac. Qed.
Lemma pu_Dual3 : forall x : Dual3 R, nt_is_zero (m_re (m_abs x) : R) = false -> m_re x <> 0.  Proof. pu_tac. Qed.
Lemma pu_HyperDual : forall x : HyperDual R, nt_is_zero (m_re (m_abs x) : R) = false -> m_re x <> 0.  Proof. pu_tac. Qed.
Lemma pu_HHD : forall x : HyperHyperDual R, nt_is_zero (m_re (m_abs x) : R) = false -> m_re x <> 0.  Proof. pu_tac. Qed.

Theorem lu_solve_Dual (A : list (list (Dual R))) b l : is_mat (length A) A -> length b = length A -> lu_new A = Some l ->
  length (lu_solve l b) = length A /\ forall i, (i < length A)%nat -> sum_list (fun c => (mg A i c * vg (lu_solve l b) c)%rs) (range 0 (length A)) = vg b i.
Proof. exact (lu_solve_Ax_eq_b RT_Dual (fun d => m_re d <> 0) div_mul_Dual nz_zero_R pu_Dual A b l). Qed.
Theorem lu_solve_Dual2 (A : list (list (Dual2 R))) b l : is_mat (length A) A -> length b = length A -> lu_new A = Some l ->
  length (lu_solve l b) = length A /\ forall i, (i < length A)%nat -> sum_list (fun c => (mg A i c * vg (lu_solve l b) c)%rs) (range 0 (length A)) = vg b i.
Proof. exact (lu_solve_Ax_eq_b RT_Dual2 (fun d => m_re d <> 0) div_mul_Dual2 nz_zero_R pu_Dual2 A b l). Qed.
Theorem lu_solve_Dual3 (A : list (list (Dual3 R))) b l : is_mat (length A) A -> length b = length A -> lu_new A = Some l ->
  length (lu_solve l b) = length A /\ forall i, (i < length A)%nat -> sum_list (fun c => (mg A i c * vg (lu_solve l b) c)%rs) (range 0 (length A)) = vg b i.
Proof. exact (lu_solve_Ax_eq_b RT_Dual3 (fun d => m_re d <> 0) div_mul_Dual3 nz_zero_R pu_Dual3 A b l). Qed.
Theorem lu_solve_HyperDual (A : list (list (HyperDual R))) b l : is_mat (length A) A -> length b = length A -> lu_new A = Some l ->
  length (lu_solve l b) = length A /\ forall i, (i < length A)%nat -> sum_list (fun c => (mg A i c * vg (lu_solve l b) c)%rs) (range 0 (length A)) = vg b i.
Proof. exact (lu_solve_Ax_eq_b RT_HyperDual (fun d => m_re d <> 0) div_mul_HyperDual nz_zero_R pu_HyperDual A b l). Qed.
Theorem lu_solve_HHD (A : list (list (HyperHyperDual R))) b l : is_mat (length A) A -> length b = length A -> lu_new A = Some l ->
  length (lu_solve l b) = length A /\ forall i, (i < length A)%nat -> sum_list (fun c => (mg A i c * vg (lu_solve l b) c)%rs) (range 0 (length A)) = vg b i.
Proof. exact (lu_solve_Ax_eq_b RT_HHD (fun d => m_re d <> 0) div_mul_HHD nz_zero_R pu_HHD A b l). Qed.
