(* Hand/Prog.v -- programs over the generic dual-number interface: a small expression syntax with sharing (let), evaluated over ANY
   instance of the translated interface [DN F T].  The Rust harness has the same interpreter (harness/src/prog.rs). *)
From ND Require Import Overload Float Mat Opt Wire.
From NDgen Require Import Classes.
Local Open Scope rs_scope.

Inductive unop := U_neg | U_recip | U_sqrt | U_cbrt | U_exp | U_exp2 | U_exp_m1 | U_ln | U_log2 | U_log10 | U_ln_1p | U_sin | U_cos | U_tan
  | U_asin | U_acos | U_atan | U_sinh | U_cosh | U_tanh | U_asinh | U_acosh | U_atanh.
Inductive binop := B_add | B_sub | B_mul | B_div.
(* scalar constants: an integer (cast as the harness does), a numeric literal of the source, a named constant of FloatConst, F::one(), a product *)
Inductive cst := CZ (z : Z) | CL (l : flit) | CK (k : fconst) | CO | CM (a b : cst).
Coercion CZ : Z >-> cst.
Fixpoint cval {F : Type} {flF : FL F} (c : cst) : F :=
  match c with CZ z => castZ z | CL l => lit l | CK k => fl_const k | CO => (one : F) | CM a b => cval a * cval b end.
Arguments cval : simpl never.
Inductive prog :=
  | PVar (i : nat)                         (* input variable, or let-bound value (de Bruijn level in the environment) *)
  | PConst (c : cst)                       (* constant lifted from F *)
  | PUn (u : unop) (a : prog)
  | PBin (b : binop) (a c : prog)
  | PScal (b : binop) (a : prog) (c : cst) (* scalar right operand *)
  | PPowi (a : prog) (n : Z)
  | PLet (a body : prog).                  (* body sees a as the next environment entry *)
Arguments PConst c%Z.
Arguments PScal b a c%Z.

Section Eval.
  Context {F T : Type} {dn : DN F T}.
  #[local] Instance flF_prog : FL F := dn_fl (T:=T).
  Definition eval_un (u : unop) (x : T) : T :=
    match u with
    | U_neg => - x | U_recip => m_recip x | U_sqrt => m_sqrt x | U_cbrt => m_cbrt x | U_exp => m_exp x | U_exp2 => m_exp2 x | U_exp_m1 => m_exp_m1 x
    | U_ln => m_ln x | U_log2 => m_log2 x | U_log10 => m_log10 x | U_ln_1p => m_ln_1p x | U_sin => m_sin x | U_cos => m_cos x | U_tan => m_tan x
    | U_asin => m_asin x | U_acos => m_acos x | U_atan => m_atan x | U_sinh => m_sinh x | U_cosh => m_cosh x | U_tanh => m_tanh x
    | U_asinh => m_asinh x | U_acosh => m_acosh x | U_atanh => m_atanh x
    end.
  Definition eval_bin (b : binop) (x y : T) : T := match b with B_add => x + y | B_sub => x - y | B_mul => x * y | B_div => x / y end.
  Definition eval_scal (b : binop) (x : T) (c : F) : T := match b with B_add => x + c | B_sub => x - c | B_mul => x * c | B_div => x / c end.
  Fixpoint eval (env : list T) (p : prog) : T :=
    match p with
    | PVar i => nth i env (zero : T)
    | PConst c => ofF (cval c : F)
    | PUn u a => eval_un u (eval env a)
    | PBin b a c => eval_bin b (eval env a) (eval env c)
    | PScal b a c => eval_scal b (eval env a) (cval c : F)
    | PPowi a n => m_powi (eval env a) n
    | PLet a body => eval (env ++ [eval env a]) body
    end.
End Eval.

(* ---- wire format: a program as a list of integers in prefix order (the Rust interpreter reads the same list) ----
   [0; i] variable   [1; c] constant   [2; u; <a>] unary   [3; b; <a>; <c>] binary   [4; b; c; <a>] scalar right operand
   [5; n; <a>] integer power   [6; <a>; <body>] let *)
Definition unop_of_Z (z : Z) : unop :=
  match z with
  | 0 => U_neg | 1 => U_recip | 2 => U_sqrt | 3 => U_cbrt | 4 => U_exp | 5 => U_exp2 | 6 => U_exp_m1 | 7 => U_ln | 8 => U_log2 | 9 => U_log10
  | 10 => U_ln_1p | 11 => U_sin | 12 => U_cos | 13 => U_tan | 14 => U_asin | 15 => U_acos | 16 => U_atan | 17 => U_sinh | 18 => U_cosh
  | 19 => U_tanh | 20 => U_asinh | 21 => U_acosh | _ => U_atanh
  end%Z.
(* 4..7: the same operator written in its compound-assignment form in the harness (a += c, ...); C08 proves those forms equal to the operators *)
Definition binop_of_Z (z : Z) : binop := match z with 0 | 4 => B_add | 1 | 5 => B_sub | 2 | 6 => B_mul | _ => B_div end%Z.
Fixpoint dec_prog (fuel : nat) (l : list Z) : prog * list Z :=
  match fuel with
  | O => (PConst 0, l)
  | S k =>
    match l with
    | 0 :: i :: r => (PVar (Z.to_nat i), r)
    | 1 :: c :: r => (PConst c, r)
    | 2 :: u :: r => let '(a, r) := dec_prog k r in (PUn (unop_of_Z u) a, r)
    | 3 :: b :: r => let '(a, r) := dec_prog k r in let '(c, r) := dec_prog k r in (PBin (binop_of_Z b) a c, r)
    | 4 :: b :: c :: r => let '(a, r) := dec_prog k r in (PScal (binop_of_Z b) a c, r)
    | 5 :: n :: r => let '(a, r) := dec_prog k r in (PPowi a n, r)
    | 6 :: r => let '(a, r) := dec_prog k r in let '(c, r) := dec_prog k r in (PLet a c, r)
    | _ => (PConst 0, l)
    end%Z
  end.
(* a length-prefixed program at the head of a list of integers *)
Definition rd_prog (l : list Z) : prog * list Z :=
  match l with
  | n :: r => (fst (dec_prog (S (Z.to_nat n)) (firstn (Z.to_nat n) r)), skipn (Z.to_nat n) r)
  | nil => (PConst 0%Z, nil)
  end.
