"""Reference jet algebra for the implementation-side oracle (failing-input search and always-on sample).
Independent of the translator and of the crate's formulas: general Leibniz rule and set-partition Faa di Bruno over
blocks of labels, derivative towers from sympy evaluated by mpmath at 60 digits (or exact Fractions)."""
import itertools, functools
from fractions import Fraction
import mpmath
from mpmath import mp, mpf

mp.dps = 60

# ------------------------------------------------------------------------------------------------------
# blocks of a type.  A label is (level, x): level = nesting depth of the struct that owns it; a block is a tuple of labels,
# sorted by level (positions inside one level keep the order the reading defines).

OWN = {
    'Dual': lambda dims: [(), (0,)],
    'Dual2': lambda dims: [(), (0,), (0, 0)],
    'Dual3': lambda dims: [(), (0,), (0, 0), (0, 0, 0)],
    'HyperDual': lambda dims: [(), (1,), (2,), (1, 2)],
    'HyperHyperDual': lambda dims: [(), (1,), (2,), (3,), (1, 2), (1, 3), (2, 3), (1, 2, 3)],
    'DualVec': lambda dims: [()] + [(i,) for i in range(dims[0])],
    'Dual2Vec': lambda dims: [()] + [(i,) for i in range(dims[0])] + [(i, j) for i in range(dims[0]) for j in range(dims[0])],
    'HyperDualVec': lambda dims: [()] + [(('L', i),) for i in range(dims[0])] + [(('R', j),) for j in range(dims[1])]
    + [(('L', i), ('R', j)) for i in range(dims[0]) for j in range(dims[1])],
}


def own_field(struct, own):
    """which field (index in declaration order) and which matrix entry an own-level block selects"""
    n = len(own)
    if struct in ('Dual', 'Dual2', 'Dual3'):
        return n, None
    if struct == 'HyperDual':
        return {(): 0, (1,): 1, (2,): 2, (1, 2): 3}[own], None
    if struct == 'HyperHyperDual':
        return {(): 0, (1,): 1, (2,): 2, (3,): 3, (1, 2): 4, (1, 3): 5, (2, 3): 6, (1, 2, 3): 7}[own], None
    if struct == 'DualVec':
        return (0, None) if n == 0 else (1, (own[0], 0))
    if struct == 'Dual2Vec':
        return (0, None) if n == 0 else ((1, (0, own[0])) if n == 1 else (2, (own[0], own[1])))
    if struct == 'HyperDualVec':
        if n == 0:
            return 0, None
        if n == 1:
            return (1, (own[0][1], 0)) if own[0][0] == 'L' else (2, (0, own[0][1]))
        return 3, (own[0][1], own[1][1])
    raise KeyError(struct)


def family(ty, level=0):
    """all blocks (parts) of a type"""
    if ty.is_float:
        return [()]
    inner = family(ty.inner, level + 1)
    return [tuple((level, x) for x in own) + rest for own in OWN[ty.struct](ty.dims) for rest in inner]


def part_bits(v, ty, block, level=0):
    """the leaf (bit pattern) a block denotes in a value, or None when it lies in an absent part"""
    if ty.is_float:
        assert block == ()
        return v
    own = tuple(l[1] for l in block if l[0] == level)
    rest = tuple(l for l in block if l[0] != level)
    fi, entry = own_field(ty.struct, own)
    x = v[fi]
    if entry is None:
        return part_bits(x, ty.inner, rest, level + 1)
    if x is None:
        return None
    r, c, es = x
    i, j = entry
    return part_bits(es[j * r + i], ty.inner, rest, level + 1)


# ------------------------------------------------------------------------------------------------------
# jets: dict block -> number

def splits(S):
    n = len(S)
    for mask in range(1 << n):
        yield tuple(S[k] for k in range(n) if mask >> k & 1), tuple(S[k] for k in range(n) if not mask >> k & 1)


@functools.lru_cache(maxsize=None)
def _partitions_idx(n):
    if n == 0:
        return ((),)
    out = []
    for p in _partitions_idx(n - 1):
        out.append(p + ((n - 1,),))
        for k in range(len(p)):
            out.append(p[:k] + (p[k] + (n - 1,),) + p[k + 1:])
    return tuple(out)


def partitions(S):
    for p in _partitions_idx(len(S)):
        yield [tuple(S[k] for k in blk) for blk in p]


class Jet:
    def __init__(self, parts, fam, zero=0):
        self.p, self.fam, self.zero = parts, fam, zero

    def __getitem__(self, S):
        return self.p.get(S, self.zero)

    @property
    def re(self):
        return self.p[()]

    def map2(self, o, f):
        return Jet({S: f(self[S], o[S]) for S in self.fam}, self.fam, self.zero)

    def __add__(self, o):
        return self.map2(o, lambda a, b: a + b)

    def __sub__(self, o):
        return self.map2(o, lambda a, b: a - b)

    def __neg__(self):
        return Jet({S: -self[S] for S in self.fam}, self.fam, self.zero)

    def __mul__(self, o):
        return Jet({S: sum((self[A] * o[B] for A, B in splits(S)), self.zero) for S in self.fam}, self.fam, self.zero)

    def mul_abs(self, o):
        """sum of the magnitudes of the Leibniz terms (tolerance scale)"""
        return Jet({S: sum((abs(self[A] * o[B]) for A, B in splits(S)), self.zero) for S in self.fam}, self.fam, self.zero)

    def compose(self, derivs):
        """derivs[k] = k-th derivative of the outer function at self.re"""
        out = {}
        for S in self.fam:
            if not S:
                out[S] = derivs[0]
                continue
            tot = self.zero
            for p in partitions(S):
                t = derivs[len(p)]
                for B in p:
                    t = t * self[B]
                tot = tot + t
            out[S] = tot
        return Jet(out, self.fam, self.zero)

    def compose_abs(self, derivs):
        """stability scale of compose: sum over partitions of (|f_k| + |x f_{k+1}|) * prod |parts|"""
        out = {}
        x = abs(self.re)
        for S in self.fam:
            if not S:
                out[S] = abs(derivs[0]) + x * abs(derivs[1])
                continue
            tot = self.zero
            for p in partitions(S):
                k = len(p)
                t = abs(derivs[k]) + x * abs(derivs[k + 1])
                for B in p:
                    t = t * abs(self[B])
                tot = tot + t
            out[S] = tot
        return Jet(out, self.fam, self.zero)

    def order(self):
        return max(len(S) for S in self.fam)

    def recip(self):
        x = self.re
        n = self.order()
        d, f = [], 1 / x
        for k in range(n + 2):
            d.append(f)
            f = f * (-(k + 1)) / x
        return self.compose(d), self.compose_abs(d)

    def __truediv__(self, o):
        r, _ = o.recip()
        return self * r


def jet_of_value(v, ty, conv):
    fam = family(ty)
    parts = {}
    for S in fam:
        b = part_bits(v, ty, S)
        parts[S] = conv(b) if b is not None else conv(None)
    return Jet(parts, fam, conv(None))


# ------------------------------------------------------------------------------------------------------
# derivative towers of the elementary functions (sympy -> mpmath)

_towers = {}


def tower(name, order, aux=None):
    """list of callables d_k(x), k = 0..order"""
    key = (name, order, aux)
    if key in _towers:
        return _towers[key]
    import sympy as sp
    x = sp.Symbol('x')
    n = sp.Symbol('n')
    b = sp.Symbol('b')
    exprs = {
        'recip': 1 / x, 'sqrt': sp.sqrt(x), 'exp': sp.exp(x), 'exp2': 2 ** x, 'exp_m1': sp.exp(x) - 1,
        'ln': sp.log(x), 'log2': sp.log(x) / sp.log(2), 'log10': sp.log(x) / sp.log(10), 'ln_1p': sp.log(1 + x),
        'sin': sp.sin(x), 'cos': sp.cos(x), 'tan': sp.tan(x), 'asin': sp.asin(x), 'acos': sp.acos(x), 'atan': sp.atan(x),
        'sinh': sp.sinh(x), 'cosh': sp.cosh(x), 'tanh': sp.tanh(x), 'asinh': sp.asinh(x), 'acosh': sp.acosh(x),
        'atanh': sp.atanh(x),
        'powf': x ** n, 'log': sp.log(x) / sp.log(b),
    }
    if name == 'cbrt':
        # real cube root, odd: d/dx handled on |x| with sign
        e = sp.Symbol('y', positive=True) ** sp.Rational(1, 3)
        y = sp.Symbol('y', positive=True)
        ds = [e]
        for k in range(order):
            ds.append(sp.diff(ds[-1], y))
        fs = [sp.lambdify(y, d, 'mpmath') for d in ds]
        res = [(lambda k: (lambda t: (fs[k](abs(t)) * (1 if (t > 0 or k % 2 == 1) else -1))))(k) for k in range(order + 1)]
        _towers[key] = res
        return res
    if name == 'tanh':
        # derivatives as polynomials in t = tanh x and s = sech^2 x (dt = s, ds = -2 t s): no cancellation and no overflow at any x
        polys = [{(1, 0): 1}]
        for k in range(order):
            nxt = {}
            for (a, b), c in polys[-1].items():
                if a:
                    nxt[(a - 1, b + 1)] = nxt.get((a - 1, b + 1), 0) + a * c
                if b:
                    nxt[(a + 1, b)] = nxt.get((a + 1, b), 0) - 2 * b * c
            polys.append(nxt)

        def mk(poly):
            def f(x):
                t, s2 = mpmath.tanh(x), mpmath.sech(x) ** 2
                return sum((c * t ** a * s2 ** b for (a, b), c in poly.items()), mpf(0))
            return f
        res = [mk(q) for q in polys]
        _towers[key] = res
        return res
    e = exprs[name]
    ds = [e]
    for k in range(order):
        ds.append(sp.diff(ds[-1], x))
    if name == 'powf':
        fs = [sp.lambdify((x, n), d, 'mpmath') for d in ds]
        res = [(lambda f: (lambda t, f=f: f(t, aux)))(f) for f in fs]
    elif name == 'log':
        fs = [sp.lambdify((x, b), d, 'mpmath') for d in ds]
        res = [(lambda f: (lambda t, f=f: f(t, aux)))(f) for f in fs]
    else:
        res = [sp.lambdify(x, d, 'mpmath') for d in ds]
        if name == 'exp_m1':
            res[0] = mpmath.expm1
        if name == 'ln_1p':
            res[0] = mpmath.log1p
    _towers[key] = res
    return res


def mpf_of_bits(b, width=64):
    import struct
    if b is None:
        return mpf(0)
    if width == 64:
        return mpf(struct.unpack('<d', struct.pack('<Q', b))[0])
    return mpf(struct.unpack('<f', struct.pack('<I', b))[0])


def frac_of_bits(b, width=64):
    import struct
    if b is None:
        return Fraction(0)
    x = struct.unpack('<d', struct.pack('<Q', b))[0] if width == 64 else struct.unpack('<f', struct.pack('<I', b))[0]
    return Fraction(x)


def apply_unary(name, J, aux=None):
    """reference result and stability scale of an elementary function on a jet (mp numbers)"""
    n = J.order()
    tw = tower(name, n + 1, aux)
    d = [f(J.re) for f in tw]
    return J.compose(d), J.compose_abs(d)


# ------------------------------------------------------------------------------------------------------
# spherical Bessel functions j0, j1, j2: derivative towers valid at and near zero

def sph_tower(nu, order):
    """list of callables d_k(x) for the spherical Bessel function j_nu: termwise derivatives of the Maclaurin series
    j_nu(x) = sum_m (-1)^m x^(2m+nu) / (2^m m! (2nu+2m+1)!!)   (entire function; 260 terms at 130 digits cover |x| <= 60)"""
    key = ('sph', nu, order)
    if key in _towers:
        return _towers[key]
    old = mp.dps
    mp.dps = 130
    coef = []
    for m in range(0, 260):
        coef.append(mpf(-1) ** m / (mpf(2) ** m * mpmath.factorial(m) * mpmath.fac2(2 * nu + 2 * m + 1)))
    mp.dps = old

    def series(k):
        def f(t):
            old = mp.dps
            mp.dps = 130
            try:
                t = mpf(t)
                tot = mpf(0)
                for m in range(0, 260):
                    p = 2 * m + nu
                    if p < k:
                        continue
                    ff = 1
                    for q in range(k):
                        ff *= (p - q)
                    term = coef[m] * ff * (t ** (p - k) if p - k > 0 else 1)
                    tot += term
                    if m > 20 and term != 0 and abs(term) < mpf(10) ** -125 * (abs(tot) + mpf(10) ** -300):
                        break
                return +tot
            finally:
                mp.dps = old
        return f
    res = [series(k) for k in range(order + 1)]
    _towers[key] = res
    return res


# ------------------------------------------------------------------------------------------------------
# programs (coq/ND/Hand/Prog.v): reference evaluation with a first-order running rounding-error bound
#
# A value is a pair (val, err): val the exact jet of the real program, err[S] a bound on |computed part - val[S]| to first order.
# Errors are propagated with the SAME jet algebra on absolute values, over the family extended by one extra label EPS:
# the part of the extended jet at S+EPS is err[S]; Leibniz / Faa di Bruno terms linear in EPS are exactly the first-order
# propagation |d out[S] / d in[B]| err_in[B].  Each operation adds its local error  c u Sum|terms|.

EPS = ('~eps', 0)
UNOPS = ['neg', 'recip', 'sqrt', 'cbrt', 'exp', 'exp2', 'exp_m1', 'ln', 'log2', 'log10', 'ln_1p', 'sin', 'cos', 'tan', 'asin', 'acos', 'atan',
         'sinh', 'cosh', 'tanh', 'asinh', 'acosh', 'atanh']
BINOPS = ['add', 'sub', 'mul', 'div']


class DomainError(Exception):
    pass


def in_domain(name, x, margin=True):
    """is the real number x inside the domain of the elementary function (with a safety margin away from the boundary)"""
    m = 0.02 if margin else 0.0
    ax = abs(x)
    if ax > 1e4:
        return False
    if name in ('recip', 'cbrt'):
        return ax > m
    if name in ('sqrt', 'ln', 'log2', 'log10'):
        return x > m
    if name == 'ln_1p':
        return x > -1 + m
    if name == 'tan':
        return abs(mpmath.cos(x)) > 0.05 and ax < 20
    if name in ('asin', 'acos', 'atanh'):
        return ax < 1 - 2.5 * m
    if name == 'acosh':
        return x > 1 + 2.5 * m
    if name in ('exp', 'exp2', 'exp_m1', 'sinh', 'cosh'):
        return ax < 12
    if name in ('sin', 'cos'):
        return ax < 50
    if name == 'tanh':
        return ax < 150          # beyond: KNOWN FINDING tanh-nested-intermediate-overflow (decided under C01)
    return True


class EJ:
    def __init__(self, val, err):
        self.val, self.err = val, err

    @property
    def fam(self):
        return self.val.fam

    def ext(self):
        """the extended absolute-value jet"""
        parts = {}
        for S in self.fam:
            parts[S] = abs(self.val[S])
            parts[S + (EPS,)] = self.err[S]
        fam2 = list(self.fam) + [S + (EPS,) for S in self.fam]
        return Jet(parts, fam2, self.val.zero * 0)


def ej_exact(J):
    return EJ(J, {S: J.zero * 0 for S in J.fam})


def _lin(a, b, sign, u):
    val = a.val + b.val if sign > 0 else a.val - b.val
    err = {S: a.err[S] + b.err[S] + u * (abs(a.val[S]) + abs(b.val[S])) for S in val.fam}
    return EJ(val, err)


def _mul(a, b, u, c):
    val = a.val * b.val
    loc = a.val.mul_abs(b.val)
    prop = a.ext() * b.ext()
    err = {S: prop[S + (EPS,)] + c * u * loc[S] for S in val.fam}
    return EJ(val, err)


def _compose(a, derivs, u, c):
    val = a.val.compose(derivs)
    loc = a.val.compose_abs(derivs)
    prop = a.ext().compose([abs(d) for d in derivs])
    err = {S: prop[S + (EPS,)] + c * u * loc[S] for S in val.fam}
    return EJ(val, err)


def powi_derivs(x, n, order):
    d, coef = [], 1
    for k in range(order + 1):
        d.append(coef * (x ** (n - k)) if (n - k >= 0 or x != 0) else x * 0)
        coef *= (n - k)
        if coef == 0:
            d += [x * 0] * (order - k)
            break
    return d[:order + 1]


def ej_unary(name, a, u, c=64):
    if name == 'neg':
        return EJ(-a.val, dict(a.err))
    if not in_domain(name, a.val.re):
        raise DomainError(name)
    n = a.val.order()
    tw = tower(name, n + 2)
    d = [f(a.val.re) for f in tw]
    return _compose(a, d, u, c)


def ej_const(fam, cst, zero):
    return EJ(Jet({S: (cst if not S else zero) for S in fam}, fam, zero), {S: zero for S in fam})


def ej_binary(name, a, b, u, c=64):
    if name == 'add':
        return _lin(a, b, 1, u)
    if name == 'sub':
        return _lin(a, b, -1, u)
    if name == 'mul':
        return _mul(a, b, u, c)
    if not in_domain('recip', b.val.re):
        raise DomainError('div')
    x = b.val.re
    n = b.val.order()
    d, f = [], 1 / x
    for k in range(n + 3):
        d.append(f)
        f = f * (-(k + 1)) / x
    return _mul(a, _compose(b, d, u, c), u, c)


def ej_powi(a, n, u, c=64):
    x = a.val.re
    if (n < 0 or n > 2) and not in_domain('recip', x):
        raise DomainError('powi')
    if abs(n) * abs(mpmath.log(mpf(float(abs(x))) + mpf(10) ** -30)) > 25:
        raise DomainError('powi-range')
    d = powi_derivs(x, n, a.val.order() + 2)
    return _compose(a, d, u, c)


def prog_eval(code, env, u, conv_const, c=64, on_value=None):
    """evaluate a program (prefix list of integers, as in Hand/Prog.v) over EJ values; raises DomainError"""
    pos = [0]
    env = list(env)

    def go():
        tag = code[pos[0]]
        pos[0] += 1
        if tag == 0:
            i = code[pos[0]]; pos[0] += 1
            return env[i]
        if tag == 1:
            cst = code[pos[0]]; pos[0] += 1
            e0 = env[0]
            return ej_const(e0.fam, conv_const(cst), e0.val.zero * 0)
        if tag == 2:
            un = code[pos[0]]; pos[0] += 1
            a = go()
            r = ej_unary(UNOPS[min(un, 22)], a, u, c)
        elif tag == 3:
            b = code[pos[0]]; pos[0] += 1
            a = go(); d = go()
            r = ej_binary(BINOPS[b % 4], a, d, u, c)
        elif tag == 4:
            b = code[pos[0]]; cst = code[pos[0] + 1]; pos[0] += 2
            a = go()
            r = ej_binary(BINOPS[b % 4], a, ej_const(a.fam, conv_const(cst), a.val.zero * 0), u, c)
        elif tag == 5:
            n = code[pos[0]]; pos[0] += 1
            a = go()
            r = ej_powi(a, n, u, c)
        elif tag == 6:
            a = go()
            env.append(a)
            r = go()
            env.pop()
        else:
            raise ValueError('bad program tag %r' % tag)
        if on_value is not None:
            on_value(r)
        if abs(r.val.re) > 1e6:
            raise DomainError('magnitude')
        return r
    return go()


def prog_str(code, nvars=0):
    """readable rendering of a program"""
    pos = [0]
    depth = [0]

    def go(nv):
        tag = code[pos[0]]; pos[0] += 1
        if tag == 0:
            i = code[pos[0]]; pos[0] += 1
            return 'x%d' % i
        if tag == 1:
            cst = code[pos[0]]; pos[0] += 1
            return str(cst)
        if tag == 2:
            un = code[pos[0]]; pos[0] += 1
            a = go(nv)
            return ('-%s' % a) if un == 0 else '%s(%s)' % (UNOPS[min(un, 22)], a)
        if tag == 3:
            b = code[pos[0]]; pos[0] += 1
            a = go(nv); d = go(nv)
            return '(%s %s %s)' % (a, ('+-*/'[b % 4] + ('=' if b >= 4 else '')), d)
        if tag == 4:
            b = code[pos[0]]; cst = code[pos[0] + 1]; pos[0] += 2
            a = go(nv)
            return '(%s %s %s_F)' % (a, ('+-*/'[b % 4] + ('=' if b >= 4 else '')), cst)
        if tag == 5:
            n = code[pos[0]]; pos[0] += 1
            return 'powi(%s, %d)' % (go(nv), n)
        if tag == 6:
            a = go(nv)
            body = go(nv + 1)
            return 'let x%d = %s in %s' % (nv, a, body)
        raise ValueError(tag)
    return go(nvars)
