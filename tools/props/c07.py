"""C07 -- absent derivative parts behave exactly like all-zero derivative parts."""
import vlib, pyjet, genvals
from vlib import Case
from props.base import BaseProp, Violation
import props.c01 as c01

UN = ['neg', 'recip', 'sqrt', 'exp', 'ln', 'sin', 'cos', 'tan', 'atan', 'tanh', 'cbrt', 'asin', 'acosh', 'exp_m1', 'ln_1p', 'sph_j0', 'abs', 'signum']
BIN = ['add', 'sub', 'mul', 'div', 'add_assign', 'sub_assign', 'mul_assign', 'div_assign', 'powd', 'atan2']
SC = ['add_F', 'sub_F', 'mul_F', 'div_F', 'add_assign_F', 'sub_assign_F', 'mul_assign_F', 'div_assign_F', 'powf', 'log']
ASSIGN = ['add_assign', 'sub_assign', 'mul_assign', 'div_assign']


def partial_dense(rng, v, ty):
    """replace a random subset of the absent parts by explicit zeros"""
    out = []
    for fld, x in zip(ty.fields(), v):
        if fld['kind'] == 'D' and x is None and rng.below(2) == 0:
            r, c = ty.shape(fld)
            out.append((r, c, [genvals.zero_value(ty.inner) for _ in range(r * c)]))
        else:
            out.append(x)
    return out


def num_equal(a, b, ty):
    """numerical equality of every part (absent = zero, -0 = +0, NaN = NaN)"""
    if a == 'panic' or b == 'panic':
        return a == b, None
    for S in pyjet.family(ty):
        x, y = pyjet.part_bits(a, ty, S), pyjet.part_bits(b, ty, S)
        x = 0 if x is None else x
        y = 0 if y is None else y
        if x != y:
            return False, S
    return True, None


class Prop(BaseProp):
    replay_whole = True
    coq_targets = ['ND/Proofs/C07_proofs.vo', 'ND/Proofs/C07_inst.vo']
    n_quick, n_thorough = 1100, 12000

    def vec_types(self):
        return [t for t in genvals.type_list(self.tier) if t.struct in ('DualVec', 'Dual2Vec', 'HyperDualVec')]

    def cases(self, rng, n):
        tys = self.vec_types()
        out = []
        self.twins = []
        ops = UN + BIN + SC + ['powi']

        def twins(ty, op, a, aux):
            b = [genvals.densify(x, ty) for x in a]
            c = [partial_dense(rng, x, ty) for x in a]
            ids = []
            for tag, args in (('absent', a), ('dense', b), ('mixed', c)):
                cs = Case('c%d' % len(out), ty, op, args, aux, tag=tag)
                out.append(cs)
                ids.append(cs.id)
            self.twins.append(ids)
        # two-operand operations with one operand a constant (EVERY part absent) and the other with every part present, both ways round:
        # the patterns a 'constant operand' fast path would key on (random presence reaches them only with probability 3^-k)
        for ty in tys:
            for op in BIN:
                for pa, pb in ((True, False), (False, True)):
                    a = [genvals.gen_value(rng, ty, genvals.leaf_rand, re_leaf=lambda r: r.uniform(0.3, 3), presence=pp) for pp in (pa, pb)]
                    twins(ty, op, a, [])
        # product and quotient with exactly one part of one operand absent (a fast path keyed on a single part)
        for ty in tys:
            nopt = sum(1 for f in ty.fields() if f['kind'] != 'T')
            if nopt < 2:
                continue
            for op in ('mul', 'div'):
                for side in (0, 1):
                    for miss in range(nopt):
                        a = [genvals.gen_value(rng, ty, genvals.leaf_rand, re_leaf=lambda r: r.uniform(0.3, 3), presence=True) for _ in range(2)]
                        w = list(a[side])
                        idx = [i for i, f in enumerate(ty.fields()) if f['kind'] != 'T'][miss]
                        w[idx] = None
                        a[side] = w
                        twins(ty, op, a, [])
        k = 0
        while len(out) < n:
            # every operation early: the operation index runs fastest, the type advances with a stride
            op = ops[k % len(ops)] if k < len(tys) * len(ops) else rng.choice(ops)
            ty = tys[(3 * k + k // len(ops)) % len(tys)]
            k += 1
            dom = c01.DOM.get(op) or (lambda r: r.uniform(0.3, 3))
            if op in ('div', 'div_assign', 'powd', 'powf', 'log', 'atan2', 'powi'):
                dom = lambda r: r.uniform(0.3, 3)
            nargs = vlib.OPS[op][2]
            aux = []
            if op in SC:
                aux = [vlib.f2b(rng.choice([2.0, 0.5, -1.5, 3.0, 2.5, 1.0, 0.0]) if op != 'log' else rng.choice([2.0, 10.0, 0.5]))]
                if op.startswith('div') and aux[0] == vlib.f2b(0.0):
                    aux = [vlib.f2b(4.0)]      # x / 0 is outside the domain: an explicit zero part becomes 0/0 = NaN under IEEE, an absent one stays absent
            if op == 'powi':
                aux = [rng.choice([0, 1, 2, 3, 4, -1, -2, 5])]
            a = [genvals.gen_value(rng, ty, genvals.leaf_rand, re_leaf=dom) for _ in range(nargs)]
            twins(ty, op, a, aux)
        return out

    def extra_checks(self):
        impl = getattr(self, 'impl_results', None)
        if not impl:
            return
        C = self.case_by_id
        for ids in self.twins:
            ref = impl[ids[0]]
            for i in ids[1:]:
                ok, S = num_equal(ref, impl[i], C[i].ty)
                if not ok:
                    self.violations.append(Violation('counterexample', '%s on %s: part %s differs when absent parts are written as explicit zeros (%s)' % (
                        C[i].op, C[i].ty, S, C[i].tag), case=C[ids[0]], expected=ref, obtained=impl[i], detail={'other_operands': C[i].describe()}))
                    break
        self.histories()

    def histories(self):
        """sequences of compound assignments applied to an accumulator, in two representations, compared after every step"""
        rng = self.rng.fork('hist')
        tys = self.vec_types()
        nh = 24 if self.tier == 'quick' else 400
        steps = 6
        H = []
        for h in range(nh):
            ty = tys[h % len(tys)]
            acc = genvals.gen_value(rng, ty, genvals.leaf_rand, re_leaf=lambda r: r.uniform(0.5, 2))
            ops = [rng.choice(c07_ASSIGN) for _ in range(steps)]
            ys = [genvals.gen_value(rng, ty, genvals.leaf_rand, re_leaf=lambda r: r.uniform(0.5, 2)) for _ in range(steps)]
            H.append({'ty': ty, 'ops': ops, 'ys': ys, 'a': acc, 'b': genvals.densify(acc, ty), 'alive': True})
        exe = self.exe
        nsteps = 0
        for s in range(steps):
            cases = []
            for hi, h in enumerate(H):
                if not h['alive']:
                    continue
                y = h['ys'][s]
                yb = genvals.densify(y, h['ty']) if rng.below(2) == 0 else partial_dense(rng, y, h['ty'])
                cases.append(Case('h%d_a' % hi, h['ty'], h['ops'][s], [h['a'], y]))
                cases.append(Case('h%d_b' % hi, h['ty'], h['ops'][s], [h['b'], yb]))
            if not cases:
                break
            raw = vlib.run_harness(exe, [c.harness_line() for c in cases])
            for hi, h in enumerate(H):
                if not h['alive']:
                    continue
                ra, rb = raw['h%d_a' % hi], raw['h%d_b' % hi]
                if ra[0] == 'panic' or rb[0] == 'panic':
                    h['alive'] = False
                    continue
                va, _ = vlib.val_from_tokens(ra[1], h['ty'])
                vb, _ = vlib.val_from_tokens(rb[1], h['ty'])
                nsteps += 1
                ok, S = num_equal(vlib.canon_val(va, h['ty']), vlib.canon_val(vb, h['ty']), h['ty'])
                if not ok:
                    self.violations.append(Violation('counterexample', 'history of compound assignments on %s: after step %d (%s) part %s differs between the absent and the explicit-zero representation' % (
                        h['ty'], s + 1, ' '.join(h['ops'][:s + 1]), S), case=Case('hist', h['ty'], h['ops'][s], [h['a'], h['ys'][s]]),
                        expected=vlib.canon_val(va, h['ty']), obtained=vlib.canon_val(vb, h['ty'])))
                    h['alive'] = False
                h['a'], h['b'] = va, vb
        self.cov['histories'] = {'sequences': nh, 'steps_compared': nsteps, 'length': steps}

    def nontrivial(self, case, impl):
        return impl != 'panic' and case.tag == 'absent'

    def rule_text(self):
        return ('triples per (vector type, operation): operands with random presence pattern (two-operand operations also with one operand entirely constant and the other entirely present, both ways round), the same with every absent part written as explicit zeros, and a random '
                'partial replacement; all parts of the three results must be numerically equal; plus sequences of 6 random compound assignments on an accumulator in two '
                'representations, compared after every step; distinct by (type, op, operand bits); non-trivial = the absent-representation case without panic')


c07_ASSIGN = ASSIGN
