(* Proofs/C10_proofs.v -- smooth special points.  What can be said over the reals (where nothing is NaN) is said here;
   finiteness of the binary64 evaluation at the enumerated points is decided by executing the generated model on
   primitive floats inside Coq and comparing with the implementation (tools/props/c10.py), because over R the
   totalised 1/0 and ln 0 would make such statements true for the wrong reason. *)
From ND Require Import Tactics C01_towers C01_faa C09_proofs.
Local Open Scope R_scope.

(* ---- non-negative integer powers: the tower is right at every base, zero included ---- *)
Lemma tower_powi_nonneg (k : nat) x : (Z.of_nat (k + 3) <= 2147483647)%Z -> is_tower (fun t => t ^ (k + 3)) (tw3 (fun d => m_powi d (Z.of_nat (k + 3)))) x.
Proof.
  intros Hrange. unfold is_tower.
  assert (E : forall t j, tw3 (fun d => m_powi d (Z.of_nat (k + 3))) t j =
     match j with
     | 0%nat => t ^ k * t * t * t | 1%nat => t ^ k * t * t * INR (k + 3) * 1
     | 2%nat => t ^ k * t * (INR (k + 3) * INR (k + 2)) * 1 * 1 + t ^ k * t * t * INR (k + 3) * 0
     | 3%nat => t ^ k * (INR (k + 3) * INR (k + 2) * INR (k + 1)) * 1 * 1 * 1 + (1 + 1 + 1) * (t ^ k * t * (INR (k + 3) * INR (k + 2))) * 1 * 0
                + t ^ k * t * t * INR (k + 3) * 0
     | _ => 0 end).
  { intros t j.
    assert (Hn : (3 <= Z.of_nat (k + 3) <= 2147483647)%Z) by lia.
    remember (Z.of_nat (k + 3)) as n eqn:En.
    assert (Hk : (n - 3 = Z.of_nat k)%Z) by lia.
    assert (H3 : INR (k + 3) = IZR n) by (rewrite En, <- INR_IZR_INZ; reflexivity).
    assert (H2 : INR (k + 2) = IZR (n - 1)) by (rewrite INR_IZR_INZ; f_equal; lia).
    assert (H1 : INR (k + 1) = IZR (n - 2)) by (rewrite INR_IZR_INZ; f_equal; lia).
    rewrite H3, H2, H1, (pow_powerRZ t k), <- Hk.
    destruct n as [|[[p|p|]|[p|p|]|]|p]; try (exfalso; lia);
      (destruct j as [|[|[|[|j]]]]; rcbvZ; rewrite ?wrap32_small by lia; reflexivity). }
  split; [rewrite E; replace (k + 3)%nat with (S (S (S k))) by lia; simpl; ring|].
  split; [|split]; (eapply is_derive_ext; [intros t; symmetry; apply E|]; rewrite E; auto_derive; [side|];
    rewrite ?plus_INR; simpl; destruct k; simpl; try rewrite S_INR; ring).
Qed.

(* ---- atan2: the gradient formula holds on both sides of the diagonal, in particular on and near both axes ---- *)
Lemma Rabs_lt_nz a b : Rabs a < Rabs b -> b <> 0.
Proof. intros H E; subst b. rewrite Rabs_R0 in H. pose proof (Rabs_pos a). lra. Qed.
Lemma Rabs_ge_nz a b : ~ Rabs a < Rabs b -> (a <> 0 \/ b <> 0) -> a <> 0.
Proof.
  intros H [Ha|Hb]; [assumption|]. intros E; subst a. apply H. rewrite Rabs_R0. apply Rabs_pos_lt; assumption.
Qed.
Definition atan2_grad (ry rx dy dx : R) : R := (rx * dy - ry * dx) / (rx * rx + ry * ry).
Ltac atan2_tac :=
  rcbv; unfold Rltb, atan2_grad;
  try match goal with |- context [Rlt_dec (Rabs ?a) (Rabs ?b)] =>
    destruct (Rlt_dec (Rabs a) (Rabs b)) as [Hlt|Hge];
    [ pose proof (Rabs_lt_nz _ _ Hlt) | pose proof (Rabs_ge_nz _ _ Hge ltac:(tauto)) ] end;
  try reflexivity; field; side.

Lemma atan2_Dual (y x : Dual R) : (Dual_f_re x <> 0 \/ Dual_f_re y <> 0) ->
  Dual_f_re (m_atan2 y x) = Ratan2 (Dual_f_re y) (Dual_f_re x) /\
  Dual_f_eps (m_atan2 y x) = atan2_grad (Dual_f_re y) (Dual_f_re x) (Dual_f_eps y) (Dual_f_eps x).
Proof. destruct y as [ry dy], x as [rx dx]; simpl; intros H; split; atan2_tac. Qed.
Lemma atan2_Dual2 (y x : Dual2 R) : (Dual2_f_re x <> 0 \/ Dual2_f_re y <> 0) ->
  Dual2_f_re (m_atan2 y x) = Ratan2 (Dual2_f_re y) (Dual2_f_re x) /\
  Dual2_f_v1 (m_atan2 y x) = atan2_grad (Dual2_f_re y) (Dual2_f_re x) (Dual2_f_v1 y) (Dual2_f_v1 x).
Proof. destruct y as [ry dy ?], x as [rx dx ?]; simpl; intros H; split; atan2_tac. Qed.
Lemma atan2_Dual3 (y x : Dual3 R) : (Dual3_f_re x <> 0 \/ Dual3_f_re y <> 0) ->
  Dual3_f_re (m_atan2 y x) = Ratan2 (Dual3_f_re y) (Dual3_f_re x) /\
  Dual3_f_v1 (m_atan2 y x) = atan2_grad (Dual3_f_re y) (Dual3_f_re x) (Dual3_f_v1 y) (Dual3_f_v1 x).
Proof. destruct y as [ry dy ? ?], x as [rx dx ? ?]; simpl; intros H; split; atan2_tac. Qed.
Lemma atan2_HyperDual (y x : HyperDual R) : (HyperDual_f_re x <> 0 \/ HyperDual_f_re y <> 0) ->
  HyperDual_f_re (m_atan2 y x) = Ratan2 (HyperDual_f_re y) (HyperDual_f_re x) /\
  HyperDual_f_eps1 (m_atan2 y x) = atan2_grad (HyperDual_f_re y) (HyperDual_f_re x) (HyperDual_f_eps1 y) (HyperDual_f_eps1 x) /\
  HyperDual_f_eps2 (m_atan2 y x) = atan2_grad (HyperDual_f_re y) (HyperDual_f_re x) (HyperDual_f_eps2 y) (HyperDual_f_eps2 x).
Proof. destruct y as [ry ? ? ?], x as [rx ? ? ?]; simpl; intros H; repeat split; atan2_tac. Qed.
Lemma atan2_HyperHyperDual (y x : HyperHyperDual R) : (HyperHyperDual_f_re x <> 0 \/ HyperHyperDual_f_re y <> 0) ->
  HyperHyperDual_f_re (m_atan2 y x) = Ratan2 (HyperHyperDual_f_re y) (HyperHyperDual_f_re x) /\
  HyperHyperDual_f_eps1 (m_atan2 y x) = atan2_grad (HyperHyperDual_f_re y) (HyperHyperDual_f_re x) (HyperHyperDual_f_eps1 y) (HyperHyperDual_f_eps1 x) /\
  HyperHyperDual_f_eps2 (m_atan2 y x) = atan2_grad (HyperHyperDual_f_re y) (HyperHyperDual_f_re x) (HyperHyperDual_f_eps2 y) (HyperHyperDual_f_eps2 x) /\
  HyperHyperDual_f_eps3 (m_atan2 y x) = atan2_grad (HyperHyperDual_f_re y) (HyperHyperDual_f_re x) (HyperHyperDual_f_eps3 y) (HyperHyperDual_f_eps3 x).
Proof. destruct y as [ry ? ? ? ? ? ? ?], x as [rx ? ? ? ? ? ? ?]; simpl; intros H; repeat split; atan2_tac. Qed.
Lemma atan2_DualVec i (y x : DualVec R) : (DualVec_f_re x <> 0 \/ DualVec_f_re y <> 0) ->
  part_DualVec (m_atan2 y x) nil = Ratan2 (DualVec_f_re y) (DualVec_f_re x) /\
  part_DualVec (m_atan2 y x) (i :: nil) = atan2_grad (DualVec_f_re y) (DualVec_f_re x) (part_DualVec y (i :: nil)) (part_DualVec x (i :: nil)).
Proof. destruct y as [ry [[?|]]], x as [rx [[?|]]]; dmat; simpl; intros H; split; atan2_tac. Qed.
Lemma atan2_Dual2Vec i (y x : Dual2Vec R) : (Dual2Vec_f_re x <> 0 \/ Dual2Vec_f_re y <> 0) ->
  part_Dual2Vec (m_atan2 y x) nil = Ratan2 (Dual2Vec_f_re y) (Dual2Vec_f_re x) /\
  part_Dual2Vec (m_atan2 y x) (i :: nil) = atan2_grad (Dual2Vec_f_re y) (Dual2Vec_f_re x) (part_Dual2Vec y (i :: nil)) (part_Dual2Vec x (i :: nil)).
Proof. destruct y as [ry [[?|]] [[?|]]], x as [rx [[?|]] [[?|]]]; dmat; simpl; intros H; split; atan2_tac. Qed.
Lemma atan2_HyperDualVec i j (y x : HyperDualVec R) : (HyperDualVec_f_re x <> 0 \/ HyperDualVec_f_re y <> 0) ->
  part_HyperDualVec (m_atan2 y x) nil = Ratan2 (HyperDualVec_f_re y) (HyperDualVec_f_re x) /\
  part_HyperDualVec (m_atan2 y x) (inl i :: nil) = atan2_grad (HyperDualVec_f_re y) (HyperDualVec_f_re x) (part_HyperDualVec y (inl i :: nil)) (part_HyperDualVec x (inl i :: nil)) /\
  part_HyperDualVec (m_atan2 y x) (inr j :: nil) = atan2_grad (HyperDualVec_f_re y) (HyperDualVec_f_re x) (part_HyperDualVec y (inr j :: nil)) (part_HyperDualVec x (inr j :: nil)).
Proof. destruct y as [ry [[?|]] [[?|]] [[?|]]], x as [rx [[?|]] [[?|]] [[?|]]]; dmat; simpl; intros H; repeat split; atan2_tac. Qed.

(* ---- spherical Bessel functions below the switch: the jet at 0 is the Maclaurin jet of sin x / x etc. ---- *)
Lemma sph_series_at_0 :
  (forall k, (k <= 3)%nat -> tw3 m_sph_j0 0 k = nth k [1; 0; - / 3; 0] 0) /\
  (forall k, (k <= 3)%nat -> tw3 m_sph_j1 0 k = nth k [0; / 3; 0; - / 5] 0) /\
  (forall k, (k <= 3)%nat -> tw3 m_sph_j2 0 k = nth k [0; 0; 2 / 15; 0] 0).
Proof.
  assert (He : 0 < / 4503599627370496) by (apply Rinv_0_lt_compat; lra).
  repeat split; intros k Hk; destruct k as [|[|[|[|k]]]]; try lia;
    unfold tw3; rcbv; unfold Rltb; rewrite ?Rabs_R0; (destruct (Rlt_dec 0 (/ 4503599627370496)); [|contradiction]); simpl; field.
Qed.

(* ---- exp(x)-1 and ln(1+x) at zero: the towers of C01 hold there ---- *)
Lemma tower_exp_m1_at_0 : is_tower g_exp_m1 (tw3 m_exp_m1) 0.
Proof. apply tower_exp_m1. Qed.
Lemma tower_ln_1p_at_0 : is_tower g_ln_1p (tw3 m_ln_1p) 0.
Proof. apply tower_ln_1p; lra. Qed.
