(* Proofs/C14_proofs.v -- cylindrical Bessel functions (hand model Hand/Bessel.v with the tables regenerated from src/bessel.rs).
   What is proved: (1) polevl / p1evl are Horner evaluations of the polynomials with the given coefficients; (2) over Dual, each branch of
   bessel_j0 / bessel_j1 / bessel_j2 returns the value and the DERIVATIVE (Coquelicot is_derive) of the real function the same code computes over R,
   along any differentiable curve -- the derivative parts are the exact derivatives of the approximating function, whatever the coefficients are;
   (3) the denominators of the rational approximations are positive on z >= 0; (4) which branch is taken is decided by the real part; (5) parity.
   NOT proved: closeness of the approximating functions to the true J0, J1, J2 (a statement about 96 floating-point coefficients; decided on the
   implementation against 60-digit references). *)
From ND Require Import Tactics C02_proofs C01_towers C01_faa C07_proofs C09_proofs Prog Agree C04_inst C03_proofs Bessel.
From NDgen Require Import Gen_Bessel.
Local Open Scope R_scope.

(* ---- Horner ---- *)
Fixpoint poly_sum (x : R) (l : list R) : R := match l with nil => 0 | c :: r => c * x ^ length r + poly_sum x r end.
Lemma fold_horner (x : R) (l : list R) (a : R) :
  fold_left (fun acc c => (acc * x + c)%rs) l a = a * x ^ length l + poly_sum x l.
Proof.
  revert a; induction l as [|c r IH]; intros a; simpl.
  - ring.
  - rewrite IH. change ((a * x + c)%rs) with (a * x + c). ring.
Qed.
Lemma polevl_spec (x : R) (c0 : R) (r : list R) : polevl (T:=R) x (c0 :: r) = poly_sum x (c0 :: r).
Proof. unfold polevl. rewrite fold_horner. simpl. change (ofF c0 : R) with c0. ring. Qed.
Lemma p1evl_spec (x : R) (l : list R) : p1evl (T:=R) x l = x ^ length l + poly_sum x l.
Proof. unfold p1evl. rewrite fold_horner. change (Overload.one : R) with 1. ring. Qed.

Lemma fold_pos (x : R) (l : list R) (a : R) : 0 <= x -> 0 < a -> List.Forall (fun c => 0 < c) l ->
  0 < fold_left (fun acc c => (acc * x + c)%rs) l a.
Proof.
  intros Hx; revert a; induction l as [|c r IH]; intros a Ha Hl; simpl; [exact Ha|].
  inversion Hl; subst. apply IH; [|assumption]. change ((a * x + c)%rs) with (a * x + c). nra.
Qed.

(* ---- the first-order representation is preserved by Horner evaluation ---- *)
Section RepFold.
  Variable t0 : R.
  Lemma rep_fold (v a : R -> R) (x A : Dual R) (l : list R) : Rep1 t0 v x -> Rep1 t0 a A ->
    Rep1 t0 (fun t => fold_left (fun acc c => (acc * v t + c)%rs) l (a t)) (fold_left (fun acc c => (acc * x + c)%rs) l A).
  Proof.
    intros Hv; revert a A; induction l as [|c r IH]; intros a A Ha; simpl; [exact Ha|].
    apply (IH (fun t => (a t * v t + c)%rs)).
    apply (rep_scal t0 B_add (fun t => (a t * v t)%rs) (A * x)%rs c); [|discriminate].
    apply (rep_bin t0 B_mul a v A x Ha Hv). discriminate.
  Qed.
  Lemma rep_polevl (v : R -> R) (x : Dual R) (l : list R) : Rep1 t0 v x -> Rep1 t0 (fun t => polevl (T:=R) (v t) l) (polevl x l).
  Proof.
    intros Hv. destruct l as [|c0 r]; unfold polevl; [apply rep_const|].
    apply (rep_fold v (fun _ => c0) x (ofF c0) r Hv). apply rep_const.
  Qed.
  Lemma rep_p1evl (v : R -> R) (x : Dual R) (l : list R) : Rep1 t0 v x -> Rep1 t0 (fun t => p1evl (T:=R) (v t) l) (p1evl x l).
  Proof. intros Hv. unfold p1evl. apply (rep_fold v (fun _ => 1) x (Overload.one : Dual R) l Hv). apply (rep_const t0 1). Qed.
End RepFold.

(* ---- the branches over Dual: value and derivative of the real branch function ---- *)
Ltac rbin b := eapply (rep_bin _ b); [| |try discriminate].
Ltac rscal b := eapply (rep_scal _ b); [|try discriminate].
Section Branches.
  Variable t0 : R.
  Lemma rep_j0_mid v x : Rep1 t0 v x -> p1evl (T:=R) (v t0) B_RQ0 <> 0 -> Rep1 t0 (fun t => j0_mid (T:=R) (v t)) (j0_mid x).
  Proof.
    intros H Hq. unfold j0_mid.
    rbin B_div; [rbin B_mul; [rbin B_mul; [rscal B_sub; exact H | rscal B_sub; exact H] | apply rep_polevl; exact H] | apply rep_p1evl; exact H | intros _; exact Hq].
  Qed.
  Ltac litnz := intros _; rcbv; lra.
  Lemma rep_j0_small v x : Rep1 t0 v x -> Rep1 t0 (fun t => j0_small (T:=R) (v t)) (j0_small x).
  Proof.
    intros H. unfold j0_small.
    rbin B_sub; [rbin B_add; [rbin B_sub; [apply (rep_const t0 1) | rscal B_div; [exact H | litnz]] | rscal B_div; [rbin B_mul; exact H | litnz]] |
                 rscal B_div; [rbin B_mul; [rbin B_mul; exact H | exact H] | litnz]].
  Qed.
  Lemma rep_j1_mid v x : Rep1 t0 v x -> p1evl (T:=R) (v t0 * v t0) B_RQ1 <> 0 -> Rep1 t0 (fun t => j1_mid (T:=R) (v t)) (j1_mid x).
  Proof.
    intros H Hq. unfold j1_mid.
    assert (Hz : Rep1 t0 (fun t => (v t * v t)%rs) (x * x)%rs) by (rbin B_mul; exact H).
    rbin B_mul; [rbin B_mul; [rbin B_mul; [rbin B_div; [apply rep_polevl; exact Hz | apply rep_p1evl; exact Hz | intros _; exact Hq] | exact H] | rscal B_sub; exact Hz] | rscal B_sub; exact Hz].
  Qed.
  Lemma rep_j2_series v x : Rep1 t0 v x -> Rep1 t0 (fun t => j2_series (T:=R) (v t)) (j2_series x).
  Proof.
    intros H. unfold j2_series. cbv zeta.
    assert (Hz : Rep1 t0 (fun t => (v t * v t)%rs) (x * x)%rs) by (rbin B_mul; exact H).
    rbin B_mul; [rscal B_div; [exact Hz | litnz] | apply rep_polevl; exact Hz].
  Qed.
  Lemma rep_j0_asym v x : Rep1 t0 v x -> 0 < v t0 ->
    (let q := ((m_recip (v t0) * lk (T:=R) L_bessel_j0 5) * (m_recip (v t0) * lk (T:=R) L_bessel_j0 5))%rs in polevl (T:=R) q B_PQ0 <> 0 /\ p1evl (T:=R) q B_QQ0 <> 0) ->
    Rep1 t0 (fun t => j0_asym (T:=R) (v t)) (j0_asym x).
  Proof.
    intros H Hpos [Hq1 Hq2]. unfold j0_asym. cbv zeta. rewrite sin_cos_Dual. cbn [fst snd].
    assert (Hw : Rep1 t0 (fun t => (m_recip (v t) * lk (T:=R) L_bessel_j0 5)%rs) (m_recip x * lk (T:=Dual R) L_bessel_j0 5)%rs).
    { rscal B_mul. apply (rep_un t0 U_recip v x H). simpl. lra. }
    assert (Hqq : Rep1 t0 (fun t => ((m_recip (v t) * lk (T:=R) L_bessel_j0 5) * (m_recip (v t) * lk (T:=R) L_bessel_j0 5))%rs)
                         ((m_recip x * lk (T:=Dual R) L_bessel_j0 5) * (m_recip x * lk (T:=Dual R) L_bessel_j0 5))%rs) by (rbin B_mul; exact Hw).
    assert (Harg : Rep1 t0 (fun t => (v t - (fl_const C_FRAC_PI_4 : R))%rs) (x - (fl_const C_FRAC_PI_4 : R))%rs) by (rscal B_sub; exact H).
    rbin B_mul.
    - rbin B_sub.
      + rbin B_mul; [rbin B_div; [apply rep_polevl; exact Hqq | apply rep_polevl; exact Hqq | intros _; exact Hq1] |].
        apply (rep_un t0 U_cos _ _ Harg). exact I.
      + rbin B_mul; [rbin B_mul; [exact Hw | rbin B_div; [apply rep_polevl; exact Hqq | apply rep_p1evl; exact Hqq | intros _; exact Hq2]] |].
        apply (rep_un t0 U_sin _ _ Harg). exact I.
    - apply (rep_un t0 U_sqrt (fun t => ((ofF (fl_const C_FRAC_2_PI : R) : R) / v t)%rs) ((ofF (fl_const C_FRAC_2_PI : R) : Dual R) / x)%rs).
      + rbin B_div; [apply rep_const | exact H | intros _; lra].
      + simpl. change (0 < (2 / PI) / v t0). pose proof PI_RGT_0. apply Rdiv_lt_0_compat; [apply Rdiv_lt_0_compat; lra | exact Hpos].
  Qed.
End Branches.

(* ---- Dual R as a ring with sign operations (what parity needs) ---- *)
Ltac deq := intros; repeat match goal with d : Dual R |- _ => destruct d end; rcbv; f_equal; ring.
Lemma dneg_neg (d : Dual R) : (- (- d))%rs = d.  Proof. deq. Qed.
Lemma dmul_neg_neg (a b : Dual R) : ((- a) * (- b))%rs = (a * b)%rs.  Proof. deq. Qed.
Lemma dmul_neg_r (a b : Dual R) : (a * (- b))%rs = (- (a * b))%rs.  Proof. deq. Qed.
Lemma dmul_neg_l (a b : Dual R) : ((- a) * b)%rs = (- (a * b))%rs.  Proof. deq. Qed.
Lemma dre_neg (d : Dual R) : m_re (- d)%rs = - m_re d.  Proof. destruct d; reflexivity. Qed.

Ltac dec_R := repeat match goal with
  | |- context [Rle_dec ?a ?b] => destruct (Rle_dec a b); try lra
  | |- context [Rlt_dec ?a ?b] => destruct (Rlt_dec a b); try lra
  | |- context [Req_EM_T ?a ?b] => destruct (Req_EM_T a b); try lra end.
Lemma dabs_pos (d : Dual R) : 0 < m_re d -> m_abs d = d.
Proof. destruct d as [r e]; intros H. assert (H' : 0 < r) by exact H. rcbv. unfold Rleb. dec_R. reflexivity. Qed.
Lemma dabs_neg (d : Dual R) : m_re d < 0 -> m_abs d = (- d)%rs.
Proof. destruct d as [r e]; intros H. assert (H' : r < 0) by exact H. rcbv. unfold Rleb. dec_R. reflexivity. Qed.
Lemma dis_negative (d : Dual R) : (m_is_negative d : bool) = if Rlt_dec (m_re d) 0 then true else false.
Proof. destruct d as [r e]; simpl. rcbv. unfold Rleb. dec_R; reflexivity. Qed.
Lemma dsignum_neg (d : Dual R) : m_re d <> 0 -> m_signum (- d)%rs = (- (m_signum d))%rs.
Proof. destruct d as [r e]; intros H. assert (H' : r <> 0) by exact H. rcbv. unfold Rleb, Reqb. dec_R; f_equal; ring. Qed.
Lemma dabs_neg_eq (d : Dual R) : m_re d <> 0 -> m_abs (- d)%rs = m_abs d.
Proof.
  intros H. destruct (Rlt_dec (m_re d) 0) as [Hn|Hp].
  - rewrite (dabs_neg d Hn). apply dabs_pos. rewrite dre_neg. lra.
  - assert (0 < m_re d) by lra. rewrite (dabs_pos d H0). rewrite dabs_neg by (rewrite dre_neg; lra). apply dneg_neg.
Qed.
Lemma dscal_neg_l (a : Dual R) (c : R) : ((- a) * c)%rs = (- (a * c))%rs.  Proof. deq. Qed.
Lemma ddiv_neg_neg (a b : Dual R) : m_re b <> 0 -> ((- a) / (- b))%rs = (a / b)%rs.
Proof. destruct a as [a0 a1], b as [b0 b1]; intros H. assert (H' : b0 <> 0) by exact H. rcbv. f_equal; field; assumption. Qed.

Lemma nz_false (r : R) : r <> 0 -> nt_is_zero r = false.
Proof. intros H. unfold nt_is_zero. rcbv. unfold Reqb. dec_R; try reflexivity. Qed.
Lemma nz_true (r : R) : r = 0 -> nt_is_zero r = true.
Proof. intros H. unfold nt_is_zero. rcbv. unfold Reqb. dec_R; try reflexivity. Qed.

(* ---- parity: J0 and J2 even, J1 odd, as dual numbers (every part) ---- *)
Theorem j0_even (d : Dual R) : m_re d <> 0 -> bessel_j0 (- d)%rs = bessel_j0 d.
Proof.
  intros H. unfold bessel_j0. rewrite !dis_negative, dre_neg.
  destruct (Rlt_dec (- m_re d) 0), (Rlt_dec (m_re d) 0); try lra; rewrite ?dneg_neg; reflexivity.
Qed.
Theorem j1_odd (d : Dual R) : m_re d <> 0 -> bessel_j1 (- d)%rs = (- (bessel_j1 d))%rs.
Proof.
  intros H. unfold bessel_j1. rewrite (dabs_neg_eq d H).
  destruct ((m_re (m_abs d) : R) <=? lk L_bessel_j1 0)%rs.
  - unfold j1_mid. rewrite dmul_neg_neg. rewrite dmul_neg_r, !dmul_neg_l. reflexivity.
  - unfold j1_asym. cbv zeta. rewrite (dabs_neg_eq d H), (dsignum_neg d H). rewrite !dmul_neg_l. reflexivity.
Qed.
Theorem j2_even (d : Dual R) : m_re d <> 0 -> bessel_j2 (- d)%rs = bessel_j2 d.
Proof.
  intros H. unfold bessel_j2. rewrite dre_neg.
  change (std_abs (- m_re d : R)) with (Rabs (- m_re d)). change (std_abs (m_re d : R)) with (Rabs (m_re d)). rewrite Rabs_Ropp.
  destruct (Rabs (m_re d) <? lk L_bessel_j2 0)%rs.
  - unfold j2_series. cbv zeta. rewrite dmul_neg_neg. reflexivity.
  - unfold j2_rec. rewrite (j1_odd d H), (j0_even d H). rewrite dscal_neg_l. rewrite (ddiv_neg_neg _ d H). reflexivity.
Qed.

(* ---- which branch: decided by the real part ---- *)
Theorem j0_branches (d : Dual R) :
  (0 <= m_re d < lk (T:=R) L_bessel_j0 1 -> lk (T:=R) L_bessel_j0 1 <= lk (T:=R) L_bessel_j0 0 -> bessel_j0 d = j0_small (d * d)%rs) /\
  (lk (T:=R) L_bessel_j0 1 <= m_re d <= lk (T:=R) L_bessel_j0 0 -> 0 <= m_re d -> bessel_j0 d = j0_mid (d * d)%rs) /\
  (lk (T:=R) L_bessel_j0 0 < m_re d -> 0 <= m_re d -> bessel_j0 d = j0_asym d).
Proof.
  unfold bessel_j0. rewrite dis_negative.
  repeat split; intros; (destruct (Rlt_dec (m_re d) 0); [lra|]);
    change (@lk R (Dual R) _ L_bessel_j0 0) with (@lk R R _ L_bessel_j0 0); change (@lk R (Dual R) _ L_bessel_j0 1) with (@lk R R _ L_bessel_j0 1);
    change (@hleb R R _) with Rleb; change (@hltb R R _) with Rltb; unfold Rleb, Rltb; dec_R; reflexivity.
Qed.
Theorem j2_branches (d : Dual R) :
  (Rabs (m_re d) < lk (T:=R) L_bessel_j2 0 -> bessel_j2 d = j2_series d) /\
  (lk (T:=R) L_bessel_j2 0 <= Rabs (m_re d) -> bessel_j2 d = (bessel_j1 d * lk (T:=Dual R) L_bessel_j2 2 / d - bessel_j0 d)%rs).
Proof.
  unfold bessel_j2. change (std_abs (m_re d : R)) with (Rabs (m_re d)).
  change (@lk R (Dual R) _ L_bessel_j2 0) with (@lk R R _ L_bessel_j2 0). change (@hltb R R _) with Rltb. unfold Rltb.
  split; intros H; dec_R; reflexivity.
Qed.

(* ---- the denominators of the rational approximations are positive for z >= 0 (their coefficients are) ---- *)
Ltac allpos := repeat constructor; rcbv; lra.
Lemma RQ0_pos : List.Forall (fun c => 0 < c) (B_RQ0 (F:=R)).  Proof. unfold B_RQ0. allpos. Qed.
Lemma PQ0_pos : List.Forall (fun c => 0 < c) (B_PQ0 (F:=R)).  Proof. unfold B_PQ0. allpos. Qed.
Lemma QQ0_pos : List.Forall (fun c => 0 < c) (B_QQ0 (F:=R)).  Proof. unfold B_QQ0. allpos. Qed.
Lemma RQ1_pos : List.Forall (fun c => 0 < c) (B_RQ1 (F:=R)).  Proof. unfold B_RQ1. allpos. Qed.
Lemma PQ1_pos : List.Forall (fun c => 0 < c) (B_PQ1 (F:=R)).  Proof. unfold B_PQ1. allpos. Qed.
Lemma QQ1_pos : List.Forall (fun c => 0 < c) (B_QQ1 (F:=R)).  Proof. unfold B_QQ1. allpos. Qed.
Lemma p1evl_pos (z : R) l : 0 <= z -> List.Forall (fun c => 0 < c) l -> 0 < p1evl (T:=R) z l.
Proof. intros Hz Hl. unfold p1evl. apply fold_pos; [exact Hz | change (0 < 1); lra | exact Hl]. Qed.
Lemma polevl_pos (z : R) l : 0 <= z -> l <> nil -> List.Forall (fun c => 0 < c) l -> 0 < polevl (T:=R) z l.
Proof. intros Hz Hn Hl. destruct l as [|c0 r]; [congruence|]. inversion Hl; subst. unfold polevl. apply fold_pos; assumption. Qed.

(* hence the mid-range branches need no side condition, and the asymptotic branch only x > 0 *)
Theorem rep_j0_mid' t0 v x : Rep1 t0 v x -> Rep1 t0 (fun t => j0_mid (T:=R) (v t * v t)%rs) (j0_mid (x * x)%rs).
Proof.
  intros H. apply (rep_j0_mid t0 (fun t => (v t * v t)%rs)); [eapply (rep_bin _ B_mul); [exact H|exact H|discriminate]|].
  apply Rgt_not_eq. apply p1evl_pos; [apply Rle_0_sqr | exact RQ0_pos].
Qed.
Theorem rep_j1_mid' t0 v x : Rep1 t0 v x -> Rep1 t0 (fun t => j1_mid (T:=R) (v t)) (j1_mid x).
Proof. intros H. apply (rep_j1_mid t0 v x H). apply Rgt_not_eq. apply p1evl_pos; [apply Rle_0_sqr | exact RQ1_pos]. Qed.
Theorem rep_j0_asym' t0 v x : Rep1 t0 v x -> 0 < v t0 -> Rep1 t0 (fun t => j0_asym (T:=R) (v t)) (j0_asym x).
Proof.
  intros H Hp. apply (rep_j0_asym t0 v x H Hp). cbv zeta. split; apply Rgt_not_eq.
  - apply polevl_pos; [apply Rle_0_sqr | unfold B_PQ0; discriminate | exact PQ0_pos].
  - apply p1evl_pos; [apply Rle_0_sqr | exact QQ0_pos].
Qed.

Lemma denominators_positive (z : R) : 0 <= z ->
  0 < p1evl (T:=R) z B_RQ0 /\ 0 < polevl (T:=R) z B_PQ0 /\ 0 < p1evl (T:=R) z B_QQ0 /\
  0 < p1evl (T:=R) z B_RQ1 /\ 0 < polevl (T:=R) z B_PQ1 /\ 0 < p1evl (T:=R) z B_QQ1.
Proof.
  intros Hz. repeat split.
  - apply p1evl_pos; [exact Hz|exact RQ0_pos].
  - apply polevl_pos; [exact Hz|unfold B_PQ0; discriminate|exact PQ0_pos].
  - apply p1evl_pos; [exact Hz|exact QQ0_pos].
  - apply p1evl_pos; [exact Hz|exact RQ1_pos].
  - apply polevl_pos; [exact Hz|unfold B_PQ1; discriminate|exact PQ1_pos].
  - apply p1evl_pos; [exact Hz|exact QQ1_pos].
Qed.
Lemma example_c14 : Rep1 2 (fun t => t) (mkDual 2 1) /\ lk (T:=R) L_bessel_j0 1 <= m_re (mkDual 2 1) <= lk (T:=R) L_bessel_j0 0.
Proof.
  split; [split; [reflexivity|simpl; apply (is_derive_id (K:=R_AbsRing) 2)]|]. rcbv. lra.
Qed.

(* ---- locality: a representation transfers along functions that agree near t0; a differentiable curve stays on its side of a threshold near t0 ---- *)
Lemma rep_ext_loc t0 (f g : R -> R) d : Rep1 t0 f d -> locally t0 (fun t => f t = g t) -> Rep1 t0 g d.
Proof.
  intros [A B] H. split.
  - rewrite A. apply (locally_singleton _ _ H).
  - apply (is_derive_ext_loc f g t0 _ H B).
Qed.
Lemma locally_gt (v : R -> R) t0 l a : is_derive v t0 l -> a < v t0 -> locally t0 (fun t => a < v t).
Proof.
  intros D H. assert (C : continuous v t0) by (apply (ex_derive_continuous v t0); exists l; exact D).
  apply (C (fun y => a < y)). apply (open_gt a (v t0) H).
Qed.
Lemma locally_lt (v : R -> R) t0 l a : is_derive v t0 l -> v t0 < a -> locally t0 (fun t => v t < a).
Proof.
  intros D H. assert (C : continuous v t0) by (apply (ex_derive_continuous v t0); exists l; exact D).
  apply (C (fun y => y < a)). apply (open_lt a (v t0) H).
Qed.

(* ---- the same branch selection on the reals ---- *)
Ltac solve_if := match goal with |- context [if ?b then _ else _] =>
  first [ let E := fresh in assert (E : b = true) by (rcbv; unfold Rleb, Rltb; dec_R; reflexivity); rewrite E; clear E
        | let E := fresh in assert (E : b = false) by (rcbv; unfold Rleb, Rltb; dec_R; reflexivity); rewrite E; clear E ] end.
Lemma lits_j0 : lk (T:=R) L_bessel_j0 1 = 1 / 100000 /\ lk (T:=R) L_bessel_j0 0 = 5.
Proof. split; rcbv; lra. Qed.
Lemma j0_branches_R (r : R) : 0 <= r ->
  (r < lk (T:=R) L_bessel_j0 1 -> bessel_j0 (T:=R) r = j0_small (r * r)%rs) /\
  (lk (T:=R) L_bessel_j0 1 <= r <= lk (T:=R) L_bessel_j0 0 -> bessel_j0 (T:=R) r = j0_mid (r * r)%rs) /\
  (lk (T:=R) L_bessel_j0 0 < r -> bessel_j0 (T:=R) r = j0_asym r).
Proof.
  intros H0. destruct lits_j0 as [E1 E0]. rewrite E1, E0. unfold bessel_j0.
  repeat split; intros; repeat solve_if; reflexivity.
Qed.

(* ---- bessel_j0 itself, on the open middle and outer ranges: value and derivative of the real function bessel_j0 computes ---- *)
Theorem j0_derivative_mid t0 v x : Rep1 t0 v x -> lk (T:=R) L_bessel_j0 1 < v t0 < lk (T:=R) L_bessel_j0 0 ->
  Rep1 t0 (fun t => bessel_j0 (T:=R) (v t)) (bessel_j0 x).
Proof.
  intros H [Ha Hb]. destruct lits_j0 as [E1 E0]. pose proof H as [Hre Hd].
  assert (Hx : m_re x = v t0) by exact Hre.
  destruct (j0_branches x) as [_ [Bm _]]. rewrite Bm by (rewrite Hx; lra).
  apply (rep_ext_loc t0 (fun t => j0_mid (T:=R) (v t * v t)%rs)); [apply rep_j0_mid'; exact H|].
  pose proof (locally_gt v t0 _ _ Hd Ha) as La. pose proof (locally_lt v t0 _ _ Hd Hb) as Lb.
  apply (filter_imp (fun t => lk (T:=R) L_bessel_j0 1 < v t /\ v t < lk (T:=R) L_bessel_j0 0)); [|apply filter_and; assumption].
  intros t [Ta Tb]. destruct (j0_branches_R (v t) ltac:(lra)) as [_ [Bm' _]]. rewrite Bm' by lra. reflexivity.
Qed.
Theorem j0_derivative_outer t0 v x : Rep1 t0 v x -> lk (T:=R) L_bessel_j0 0 < v t0 ->
  Rep1 t0 (fun t => bessel_j0 (T:=R) (v t)) (bessel_j0 x).
Proof.
  intros H Ha. destruct lits_j0 as [E1 E0]. pose proof H as [Hre Hd].
  assert (Hx : m_re x = v t0) by exact Hre.
  destruct (j0_branches x) as [_ [_ Bo]]. rewrite Bo by (rewrite Hx; lra).
  apply (rep_ext_loc t0 (fun t => j0_asym (T:=R) (v t))); [apply rep_j0_asym'; [exact H|lra]|].
  pose proof (locally_gt v t0 _ _ Hd Ha) as La.
  apply (filter_imp (fun t => lk (T:=R) L_bessel_j0 0 < v t)); [|exact La].
  intros t Ta. destruct (j0_branches_R (v t) ltac:(lra)) as [_ [_ Bo']]. rewrite Bo' by lra. reflexivity.
Qed.

(* ---- bessel_j1 on the open range |x| < 5 (both signs): value and derivative of the real function ---- *)
Lemma lits_j1 : lk (T:=R) L_bessel_j1 0 = 5.
Proof. rcbv; lra. Qed.
Lemma re_abs_Dual (d : Dual R) : m_re (m_abs d) = Rabs (m_re d).
Proof. destruct d as [r e]. rcbv. unfold Rleb. destruct (Rle_dec 0 r); simpl; unfold Rabs; destruct (Rcase_abs r); lra. Qed.
Lemma Rleb_abs r c : Rabs r <= c -> Rleb (Rabs r) c = true.
Proof. intros H. unfold Rleb. destruct (Rle_dec (Rabs r) c); [reflexivity|contradiction]. Qed.
Lemma j1_branch_Dual (d : Dual R) : Rabs (m_re d) <= lk (T:=R) L_bessel_j1 0 -> bessel_j1 d = j1_mid d.
Proof.
  intros H. unfold bessel_j1. cbv zeta. change (@hleb R R _) with Rleb.
  match goal with |- context [Rleb ?t ?c] => replace t with (Rabs (m_re d)) by (symmetry; exact (re_abs_Dual d)); change c with (lk (T:=R) L_bessel_j1 0) end.
  rewrite (Rleb_abs _ _ H). reflexivity.
Qed.
Lemma j1_branch_R (r : R) : Rabs r <= lk (T:=R) L_bessel_j1 0 -> bessel_j1 (T:=R) r = j1_mid r.
Proof.
  intros H. unfold bessel_j1. cbv zeta. change (@hleb R R _) with Rleb.
  match goal with |- context [Rleb ?t ?c] => change t with (Rabs r); change c with (lk (T:=R) L_bessel_j1 0) end.
  rewrite (Rleb_abs _ _ H). reflexivity.
Qed.
Theorem j1_derivative_mid t0 v x : Rep1 t0 v x -> Rabs (v t0) < lk (T:=R) L_bessel_j1 0 ->
  Rep1 t0 (fun t => bessel_j1 (T:=R) (v t)) (bessel_j1 x).
Proof.
  intros H Ha. pose proof lits_j1 as E0. pose proof H as [Hre Hd].
  assert (Hx : m_re x = v t0) by exact Hre.
  rewrite (j1_branch_Dual x) by (rewrite Hx; lra).
  apply (rep_ext_loc t0 (fun t => j1_mid (T:=R) (v t))); [apply rep_j1_mid'; exact H|].
  rewrite E0 in Ha. apply Rabs_def2 in Ha. destruct Ha as [Hb Hc].
  pose proof (locally_gt v t0 _ _ Hd Hc) as La. pose proof (locally_lt v t0 _ _ Hd Hb) as Lb.
  apply (filter_imp (fun t => -5 < v t /\ v t < 5)); [|apply filter_and; assumption].
  intros t [Ta Tb]. rewrite j1_branch_R; [reflexivity|]. rewrite E0. apply Rabs_le_between. lra.
Qed.

(* ---- bessel_j2 on the open range |x| < 0.25 (its power series) ---- *)
Lemma lits_j2 : lk (T:=R) L_bessel_j2 0 = 1 / 4.
Proof. rcbv; lra. Qed.
Lemma j2_branch_R (r : R) : Rabs r < lk (T:=R) L_bessel_j2 0 -> bessel_j2 (T:=R) r = j2_series r.
Proof.
  intros H. unfold bessel_j2. change (@hltb R R _) with Rltb.
  match goal with |- context [Rltb ?t ?c] => change t with (Rabs r); change c with (lk (T:=R) L_bessel_j2 0) end.
  unfold Rltb. destruct (Rlt_dec (Rabs r) (lk (T:=R) L_bessel_j2 0)); [reflexivity|contradiction].
Qed.
Theorem j2_derivative_small t0 v x : Rep1 t0 v x -> Rabs (v t0) < lk (T:=R) L_bessel_j2 0 ->
  Rep1 t0 (fun t => bessel_j2 (T:=R) (v t)) (bessel_j2 x).
Proof.
  intros H Ha. pose proof lits_j2 as E0. pose proof H as [Hre Hd].
  assert (Hx : m_re x = v t0) by exact Hre.
  destruct (j2_branches x) as [Bs _]. rewrite Bs by (rewrite Hx; exact Ha).
  apply (rep_ext_loc t0 (fun t => j2_series (T:=R) (v t))); [apply rep_j2_series; exact H|].
  rewrite E0 in Ha. apply Rabs_def2 in Ha. destruct Ha as [Hb Hc].
  pose proof (locally_gt v t0 _ _ Hd Hc) as La. pose proof (locally_lt v t0 _ _ Hd Hb) as Lb.
  apply (filter_imp (fun t => - (1 / 4) < v t /\ v t < 1 / 4)); [|apply filter_and; assumption].
  intros t [Ta Tb]. rewrite j2_branch_R; [reflexivity|]. rewrite E0. apply Rabs_def1; lra.
Qed.
