(* Proofs/C09_agree.v -- the power functions agree where their domains overlap: for a base with positive real part and an integer exponent,
   powi(n) and powf(n as float) have the same parts in every type.  Route: both third-order towers (read off the generated code) are derivative
   towers of the same real function on (0, inf) -- powerRZ x n = Rpower x n there -- and a derivative tower on an open set is unique; the parts are
   Faa di Bruno sums over the towers (C09_faa).  For n = 0, 1, 2 the two functions take literally the same branch. *)
From ND Require Import Tactics C01_towers C01_faa C07_proofs C09_proofs C09_faa.
Local Open Scope R_scope.

Lemma derive_agree (f1 f2 : R -> R) (D : R -> Prop) x l1 l2 : (forall z, D z -> locally z D) -> D x -> (forall z, D z -> f1 z = f2 z) ->
  is_derive f1 x l1 -> is_derive f2 x l2 -> l1 = l2.
Proof.
  intros Hopen Hx E D1 D2.
  assert (L : locally x (fun z => f1 z = f2 z)) by (eapply filter_imp; [|exact (Hopen x Hx)]; intros z Hz; exact (E z Hz)).
  pose proof (is_derive_ext_loc f1 f2 x l1 L D1) as D1'.
  rewrite <- (is_derive_unique f2 x l1 D1'). apply (is_derive_unique f2 x l2 D2).
Qed.
Lemma tower_agree (g1 g2 : R -> R) (tw1 tw2 : R -> nat -> R) (D : R -> Prop) : (forall z, D z -> locally z D) ->
  (forall z, D z -> is_tower g1 tw1 z) -> (forall z, D z -> is_tower g2 tw2 z) -> (forall z, D z -> g1 z = g2 z) ->
  forall x, D x -> tw1 x 0%nat = tw2 x 0%nat /\ tw1 x 1%nat = tw2 x 1%nat /\ tw1 x 2%nat = tw2 x 2%nat /\ tw1 x 3%nat = tw2 x 3%nat.
Proof.
  intros Hopen T1 T2 E.
  assert (E0 : forall z, D z -> tw1 z 0%nat = tw2 z 0%nat).
  { intros z Hz. destruct (T1 z Hz) as [A _]. destruct (T2 z Hz) as [B _]. rewrite A, B. apply E; exact Hz. }
  assert (E1 : forall z, D z -> tw1 z 1%nat = tw2 z 1%nat).
  { intros z Hz. destruct (T1 z Hz) as [_ [A _]]. destruct (T2 z Hz) as [_ [B _]]. exact (derive_agree _ _ D z _ _ Hopen Hz E0 A B). }
  assert (E2 : forall z, D z -> tw1 z 2%nat = tw2 z 2%nat).
  { intros z Hz. destruct (T1 z Hz) as [_ [_ [A _]]]. destruct (T2 z Hz) as [_ [_ [B _]]]. exact (derive_agree _ _ D z _ _ Hopen Hz E1 A B). }
  assert (E3 : forall z, D z -> tw1 z 3%nat = tw2 z 3%nat).
  { intros z Hz. destruct (T1 z Hz) as [_ [_ [_ A]]]. destruct (T2 z Hz) as [_ [_ [_ B]]]. exact (derive_agree _ _ D z _ _ Hopen Hz E2 A B). }
  intros x Hx. repeat split; auto.
Qed.

(* exponents 0, 1, 2: the same branch of the code, at every base *)
Lemma tw_powf_powi_0 t k : tw3 (fun d => m_powf d 0) t k = tw3 (fun d => m_powi d 0%Z) t k.
Proof. unfold tw3. rcbv. unfold Reqb, Rltb. destruct (Req_EM_T 0 0) as [_|N]; [reflexivity|exfalso; apply N; reflexivity]. Qed.
Lemma tw_powf_powi_1 t k : tw3 (fun d => m_powf d 1) t k = tw3 (fun d => m_powi d 1%Z) t k.
Proof.
  unfold tw3. rcbv. unfold Reqb, Rltb. destruct (Req_EM_T 1 0) as [?|_]; [lra|]. destruct (Req_EM_T 1 1) as [_|N]; [reflexivity|exfalso; apply N; reflexivity].
Qed.
Lemma tw_powf_powi_2 t k : tw3 (fun d => m_powf d 2) t k = tw3 (fun d => m_powi d 2%Z) t k.
Proof.
  unfold tw3. rcbv. unfold Reqb, Rltb.
  destruct (Req_EM_T 2 0) as [?|_]; [lra|]. destruct (Req_EM_T 2 1) as [?|_]; [lra|].
  destruct (Rlt_dec (Rabs (2 - 1 - 1)) (/ 4503599627370496)) as [_|N]; [reflexivity|].
  exfalso; apply N. replace (2 - 1 - 1) with 0 by ring. rewrite Rabs_R0. lra.
Qed.

Theorem tw_powi_powf (n : Z) (x : R) : 0 < x -> (-2147483645 <= n <= 2147483647)%Z ->
  forall k, tw3 (fun d => m_powi d n) x k = tw3 (fun d => m_powf d (IZR n)) x k.
Proof.
  intros Hx Hn k.
  destruct (Z.eq_dec n 0) as [->|N0]; [symmetry; apply tw_powf_powi_0|].
  destruct (Z.eq_dec n 1) as [->|N1]; [symmetry; apply tw_powf_powi_1|].
  destruct (Z.eq_dec n 2) as [->|N2]; [symmetry; apply tw_powf_powi_2|].
  assert (R0 : IZR n <> 0) by (apply not_0_IZR; exact N0).
  assert (R1 : IZR n <> 1) by (intros H; apply eq_IZR in H; contradiction).
  assert (R2 : ~ Rabs (IZR n - 1 - 1) < eps64).
  { intros H. assert (A : (n - 2 <> 0)%Z) by lia. replace (IZR n - 1 - 1) with (IZR (n - 2)) in H by (rewrite minus_IZR; simpl; ring).
    assert (B : 1 <= Rabs (IZR (n - 2))).
    { rewrite <- abs_IZR. apply IZR_le. lia. }
    unfold eps64 in H. lra. }
  pose proof (tower_agree (g_powi n) (g_powf (IZR n)) (tw3 (fun d => m_powi d n)) (tw3 (fun d => m_powf d (IZR n))) (fun z => 0 < z)
    (fun z Hz => open_gt 0 z Hz)
    (fun z Hz => tower_powi n z ltac:(lra) Hn)
    (fun z Hz => tower_powf_general (IZR n) z Hz R0 R1 R2)
    (fun z Hz => powerRZ_Rpower z n Hz) x Hx) as [E0 [E1 [E2 E3]]].
  destruct k as [|[|[|[|k]]]]; try assumption. reflexivity.
Qed.

(* ---- every part, every type ---- *)
Theorem agree_powi_powf_Dual : forall (n : Z) (x : Dual R), 0 < Dual_f_re x -> (-2147483645 <= n <= 2147483647)%Z -> forall S, In S idx_Dual ->
  part_Dual (m_powi x n) S = part_Dual (m_powf x (IZR n)) S.
Proof.
  intros n x Hx Hn S HS. rewrite (faa_Dual_powi n x S HS), (faa_Dual_powf (IZR n) x S HS).
  apply faa_ext; [intros k; apply tw_powi_powf; assumption|reflexivity].
Qed.
Theorem agree_powi_powf_Dual2 : forall (n : Z) (x : Dual2 R), 0 < Dual2_f_re x -> (-2147483645 <= n <= 2147483647)%Z -> forall S, In S idx_Dual2 ->
  part_Dual2 (m_powi x n) S = part_Dual2 (m_powf x (IZR n)) S.
Proof.
  intros n x Hx Hn S HS. rewrite (faa_Dual2_powi n x S HS), (faa_Dual2_powf (IZR n) x S HS).
  apply faa_ext; [intros k; apply tw_powi_powf; assumption|reflexivity].
Qed.
Theorem agree_powi_powf_Dual3 : forall (n : Z) (x : Dual3 R), 0 < Dual3_f_re x -> (-2147483645 <= n <= 2147483647)%Z -> forall S, In S idx_Dual3 ->
  part_Dual3 (m_powi x n) S = part_Dual3 (m_powf x (IZR n)) S.
Proof.
  intros n x Hx Hn S HS. rewrite (faa_Dual3_powi n x S HS), (faa_Dual3_powf (IZR n) x S HS).
  apply faa_ext; [intros k; apply tw_powi_powf; assumption|reflexivity].
Qed.
Theorem agree_powi_powf_HyperDual : forall (n : Z) (x : HyperDual R), 0 < HyperDual_f_re x -> (-2147483645 <= n <= 2147483647)%Z -> forall S, In S idx_HyperDual ->
  part_HyperDual (m_powi x n) S = part_HyperDual (m_powf x (IZR n)) S.
Proof.
  intros n x Hx Hn S HS. rewrite (faa_HyperDual_powi n x S HS), (faa_HyperDual_powf (IZR n) x S HS).
  apply faa_ext; [intros k; apply tw_powi_powf; assumption|reflexivity].
Qed.
Theorem agree_powi_powf_HyperHyperDual : forall (n : Z) (x : HyperHyperDual R), 0 < HyperHyperDual_f_re x -> (-2147483645 <= n <= 2147483647)%Z -> forall S, In S idx_HHD ->
  part_HHD (m_powi x n) S = part_HHD (m_powf x (IZR n)) S.
Proof.
  intros n x Hx Hn S HS. rewrite (faa_HyperHyperDual_powi n x S HS), (faa_HyperHyperDual_powf (IZR n) x S HS).
  apply faa_ext; [intros k; apply tw_powi_powf; assumption|reflexivity].
Qed.
Theorem agree_powi_powf_DualVec : forall i, forall (n : Z) (x : DualVec R), 0 < DualVec_f_re x -> (-2147483645 <= n <= 2147483647)%Z -> forall S, In S (idx_DualVec i) ->
  part_DualVec (m_powi x n) S = part_DualVec (m_powf x (IZR n)) S.
Proof.
  intros i n x Hx Hn S HS. rewrite (faa_DualVec_powi i n x S HS), (faa_DualVec_powf i (IZR n) x S HS).
  apply faa_ext; [intros k; apply tw_powi_powf; assumption|reflexivity].
Qed.
Theorem agree_powi_powf_Dual2Vec : forall i j, forall (n : Z) (x : Dual2Vec R), wf_Dual2Vec x -> 0 < Dual2Vec_f_re x -> (-2147483645 <= n <= 2147483647)%Z -> forall S, In S (idx_Dual2Vec i j) ->
  part_Dual2Vec (m_powi x n) S = part_Dual2Vec (m_powf x (IZR n)) S.
Proof.
  intros i j n x Hw Hx Hn S HS. rewrite (faa_Dual2Vec_powi i j n x Hw S HS), (faa_Dual2Vec_powf i j (IZR n) x Hw S HS).
  apply faa_ext; [intros k; apply tw_powi_powf; assumption|reflexivity].
Qed.
Theorem agree_powi_powf_HyperDualVec : forall i j, forall (n : Z) (x : HyperDualVec R), wf_HyperDualVec x -> 0 < HyperDualVec_f_re x -> (-2147483645 <= n <= 2147483647)%Z -> forall S, In S (idx_HyperDualVec i j) ->
  part_HyperDualVec (m_powi x n) S = part_HyperDualVec (m_powf x (IZR n)) S.
Proof.
  intros i j n x Hw Hx Hn S HS. rewrite (faa_HyperDualVec_powi i j n x Hw S HS), (faa_HyperDualVec_powf i j (IZR n) x Hw S HS).
  apply faa_ext; [intros k; apply tw_powi_powf; assumption|reflexivity].
Qed.
