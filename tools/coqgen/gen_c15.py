#!/usr/bin/env python3
"""Writes coq/ND/Proofs/C15_faa.v and coq/ND/Props/C15.v."""
import re
src = open('/verif/tools/coqgen/gen_c01.py').read()
ns = {}
exec(src[src.index('TYPES = ['):src.index('CHAIN = {')], ns)
TYPES = ns['TYPES']
out = ['''(* Proofs/C15_faa.v -- written by tools/coqgen/gen_c15.py: on both branches, every part of every type is Faa di Bruno of the
   coefficient tower of the branch taken at the real part (C15_proofs.v identifies those towers). *)
From ND Require Import Tactics C01_towers C01_faa C09_proofs C15_proofs.
Local Open Scope R_scope.
Ltac sph_tac := rcbv; unfold Rltb;
  match goal with |- context [Rlt_dec (Rabs ?a) ?e] =>
    destruct (Rlt_dec (Rabs a) e) as [Hs|Hc];
    [ rcbv; first [ring | field; side]
    | assert (a <> 0) by (apply not_small_nz; exact Hc); rcbv; field; side ] end.
''']
L = []
for (T, part, idx, bind, wf, destr, re_) in TYPES:
    b = ('forall %s, ' % bind) if bind else ''
    wfp = ('%s -> ' % wf) if wf else ''
    for k in (0, 1, 2):
        st = '%sforall (x : %s R), %sforall S, In S %s ->\n  %s (m_sph_j%d x) S = faa (tw3 m_sph_j%d (%s x)) (%s x) S' % (b, T, wfp, idx, part, k, k, re_, part)
        pr = 'intros %s x %s S H; %s; each_block H sph_tac.' % (bind, 'Hwf' if wf else '', destr)
        L.append(('faa_%s_sph_j%d' % (T, k), st, pr))
for n, st, pr in L:
    out.append('Lemma %s : %s.\nProof. %s Qed.' % (n, st, pr))
open('/verif/coq/ND/Proofs/C15_faa.v', 'w').write('\n'.join(out) + '\n')

props = ['''(* Props/C15.v -- property C15: spherical Bessel functions j0, j1, j2.  Written by tools/coqgen/gen_c15.py. *)
From ND Require Import Tactics C01_towers C01_faa C09_proofs C15_proofs C15_faa.
Local Open Scope R_scope.
''']
names = []
tow = open('/verif/coq/ND/Proofs/C15_proofs.v').read()
tow = re.sub(r'\(\*.*?\*\)', '', tow, flags=re.S)
for m in re.finditer(r'Lemma (tower_closed_j\d|tower_series_j\d|sph_branches|tw3_sph_closed|tw3_sph_series|float_impl_agrees|not_small_nz)\s*((?:\([^)]*\)|\w+|\s)*?):\s*((?:.|\n)*?)\.\nProof', tow):
    nm, binders, stmt = m.group(1), m.group(2).strip(), m.group(3)
    fa = ('forall %s, ' % binders) if binders else ''
    props.append('Theorem C15_%s : %s%s.\nProof. exact %s. Qed.' % (nm, fa, stmt, nm))
    names.append('C15_' + nm)
for n, st, pr in L:
    props.append('Theorem C15_%s : %s.\nProof. exact %s. Qed.' % (n, st, n))
    names.append('C15_' + n)
props.append('''
(* non-vacuity: 1.2 and -1.2 are above the switch, 0 is below *)
Example C15_premises_hold : ~ Rabs (-12 / 10) < eps64 /\\ Rabs 0 < eps64.
Proof. unfold eps64. split. - rewrite Rabs_left by lra. lra. - rewrite Rabs_R0. apply Rinv_0_lt_compat. lra. Qed.
(* the defect repaired in /repo: testing the signed value sends every negative argument to the series *)
Example C15_signed_test_was_wrong : -12 / 10 < eps64.
Proof. unfold eps64. assert (0 < / 4503599627370496) by (apply Rinv_0_lt_compat; lra). lra. Qed.
''')
props.append('Definition C15_bundle := (' + ',\n  '.join(names) + ').\nPrint Assumptions C15_bundle.')
open('/verif/coq/ND/Props/C15.v', 'w').write('\n'.join(props) + '\n')
print(len(names), 'theorems')
