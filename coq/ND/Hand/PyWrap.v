(* Hand/PyWrap.v -- hand model of the Python wrapper layer (src/python_macro.rs, impl_dual_num!): every method forwards to the Rust operation
   of the wrapped number; the reflected operators are the compositions the macro writes.  Generic in the wrapped number type. *)
From ND Require Import Overload Float Mat Opt Wire.
From NDgen Require Import Classes.
Local Open Scope rs_scope.

Inductive pymethod := Py_recip | Py_sqrt | Py_cbrt | Py_exp | Py_exp2 | Py_expm1 | Py_log | Py_log2 | Py_log10 | Py_log1p | Py_sin | Py_cos | Py_tan
  | Py_arcsin | Py_arccos | Py_arctan | Py_sinh | Py_cosh | Py_tanh | Py_arcsinh | Py_arccosh | Py_arctanh | Py_sph_j0 | Py_sph_j1 | Py_sph_j2 | Py_neg.

Section Wrap.
  Context {F T : Type} {dn : DN F T}.
  Definition py_method (m : pymethod) (d : T) : T :=
    match m with
    | Py_recip => m_recip d | Py_sqrt => m_sqrt d | Py_cbrt => m_cbrt d | Py_exp => m_exp d | Py_exp2 => m_exp2 d | Py_expm1 => m_exp_m1 d
    | Py_log => m_ln d | Py_log2 => m_log2 d | Py_log10 => m_log10 d | Py_log1p => m_ln_1p d | Py_sin => m_sin d | Py_cos => m_cos d | Py_tan => m_tan d
    | Py_arcsin => m_asin d | Py_arccos => m_acos d | Py_arctan => m_atan d | Py_sinh => m_sinh d | Py_cosh => m_cosh d | Py_tanh => m_tanh d
    | Py_arcsinh => m_asinh d | Py_arccosh => m_acosh d | Py_arctanh => m_atanh d | Py_sph_j0 => m_sph_j0 d | Py_sph_j1 => m_sph_j1 d
    | Py_sph_j2 => m_sph_j2 d | Py_neg => - d
    end.
  (* d + f, d - f, d * f, d / f with a float (or int, converted by pyo3) on the right *)
  Definition py_add_f (d : T) (f : F) : T := d + f.
  Definition py_sub_f (d : T) (f : F) : T := d - f.
  Definition py_mul_f (d : T) (f : F) : T := d * f.
  Definition py_div_f (d : T) (f : F) : T := d / f.
  (* float on the left: __radd__, __rsub__, __rmul__, __rtruediv__ *)
  Definition py_radd (d : T) (f : F) : T := d + f.
  Definition py_rsub (d : T) (f : F) : T := (- d) + f.
  Definition py_rmul (d : T) (f : F) : T := d * f.
  Definition py_rtruediv (d : T) (f : F) : T := m_recip d * f.
  (* __pow__: int -> powi, float -> powf, dual -> powd *)
  Definition py_pow_int (d : T) (n : Z) : T := m_powi d n.
  Definition py_pow_float (d : T) (q : F) : T := m_powf d q.
  Definition py_pow_dual (d e : T) : T := m_powd d e.
  Definition py_log_base (d : T) (b : F) : T := m_log d b.
  Definition py_mul_add (d a b : T) : T := m_mul_add d a b.
  Definition py_from_re (f : F) : T := ofF f.
End Wrap.
