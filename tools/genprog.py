"""Random programs over the syntax of coq/ND/Hand/Prog.v, as prefix lists of integers.
   [0,i] variable  [1,c] constant  [2,u,<a>] unary  [3,b,<a>,<c>] binary  [4,b,c,<a>] scalar right operand (b + 4: the same operator in its compound-assignment form)  [5,n,<a>] powi  [6,<a>,<body>] let"""
import math

U_NEG = 0
SAFE_UN = [4, 6, 11, 12, 16, 17, 18, 19, 20]          # exp exp_m1 sin cos atan sinh cosh tanh asinh: total functions
ALL_UN = list(range(0, 23))


def gen(rng, nvars, depth, rational=False, allow_let=True):
    """a random program of at most the given depth over nvars inputs (more variables appear under let)"""
    def go(d, nv):
        r = rng.below(100)
        if d <= 0 or r < 12:
            if rng.below(5) == 0:
                return [1, rng.choice([1, 2, 3, -1, -2, 5])]
            return [0, rng.below(nv)]
        if allow_let and d >= 2 and r < 24:
            a = go(d - 1, nv)
            body = go(d - 1, nv + 1)
            # make sure the bound value is used (sharing): multiply it in with some probability
            if rng.below(2) == 0:
                body = [3, rng.choice([0, 2]), [0, nv], body]
                body = flat(body)
            return [6] + a + body
        if r < 52:
            b = rng.below(4) if not rational else rng.choice([0, 1, 2])
            return [3, b + (4 if rng.below(4) == 0 else 0)] + go(d - 1, nv) + go(d - 1, nv)
        if r < 64:
            if rational:
                b = rng.below(4)
                c = rng.choice([2, 4, 8]) if b == 3 else rng.choice([1, 2, 3, -1, -2, 4])
            else:
                b = rng.below(4)
                c = rng.choice([1, 2, 3, -1, -2, 4, 7])
            return [4, b + (4 if rng.below(4) == 0 else 0), c] + go(d - 1, nv)
        if r < 74:
            n = rng.choice([0, 1, 2, 3]) if rational else rng.choice([0, 1, 2, 3, 4, 5, -1, -2, -3, 7])
            return [5, n] + go(d - 1, nv)
        if rational:
            return [2, U_NEG] + go(d - 1, nv)
        u = rng.choice(ALL_UN) if rng.below(3) else rng.choice(SAFE_UN)
        return [2, u] + go(d - 1, nv)
    return go(depth, nvars)


def flat(t):
    out = []
    for x in t:
        if isinstance(x, list):
            out += flat(x)
        else:
            out.append(x)
    return out


def size(code):
    """number of operation nodes"""
    n, i = 0, 0
    while i < len(code):
        t = code[i]
        if t in (0, 1):
            i += 2
        elif t in (2, 3, 5):
            i += 2; n += 1
        elif t == 4:
            i += 3; n += 1
        else:
            i += 1; n += 1
    return n


def libm_depth(code):
    """longest chain of library calls (each needs its own oracle round in the Coq evaluation)"""
    pos = [0]
    env = []

    def go():
        t = code[pos[0]]; pos[0] += 1
        if t == 0:
            i = code[pos[0]]; pos[0] += 1
            return env[i] if i < len(env) else 0
        if t == 1:
            pos[0] += 1
            return 0
        if t == 2:
            u = code[pos[0]]; pos[0] += 1
            a = go()
            return a + (0 if u in (0, 1) else 1)
        if t == 3:
            pos[0] += 1
            a = go(); b = go()
            return max(a, b)
        if t == 4:
            pos[0] += 2
            return go()
        if t == 5:
            pos[0] += 1
            return go() + 1
        a = go()
        env.append(a)
        r = go()
        env.pop()
        return r
    return go()


def real_eval(code, xs):
    """float evaluation of the real function with a domain check; None when some intermediate leaves the (margined) domain"""
    import pyjet
    pos = [0]
    env = list(xs)
    ok = [True]

    def fn(u, x):
        name = pyjet.UNOPS[u]
        if not pyjet.in_domain(name, x):
            ok[0] = False
            return 1.0
        return {
            'neg': lambda: -x, 'recip': lambda: 1 / x, 'sqrt': lambda: math.sqrt(x), 'cbrt': lambda: math.copysign(abs(x) ** (1 / 3), x),
            'exp': lambda: math.exp(x), 'exp2': lambda: 2.0 ** x, 'exp_m1': lambda: math.expm1(x), 'ln': lambda: math.log(x),
            'log2': lambda: math.log2(x), 'log10': lambda: math.log10(x), 'ln_1p': lambda: math.log1p(x), 'sin': lambda: math.sin(x),
            'cos': lambda: math.cos(x), 'tan': lambda: math.tan(x), 'asin': lambda: math.asin(x), 'acos': lambda: math.acos(x),
            'atan': lambda: math.atan(x), 'sinh': lambda: math.sinh(x), 'cosh': lambda: math.cosh(x), 'tanh': lambda: math.tanh(x),
            'asinh': lambda: math.asinh(x), 'acosh': lambda: math.acosh(x), 'atanh': lambda: math.atanh(x)}[name]()

    def go():
        t = code[pos[0]]; pos[0] += 1
        if t == 0:
            i = code[pos[0]]; pos[0] += 1
            return env[i]
        if t == 1:
            c = code[pos[0]]; pos[0] += 1
            return float(c)
        if t == 2:
            u = code[pos[0]]; pos[0] += 1
            r = fn(min(u, 22), go())
        elif t in (3, 4):
            b = code[pos[0]] % 4; pos[0] += 1
            if t == 4:
                c = float(code[pos[0]]); pos[0] += 1
                a = go()
            else:
                a = go(); c = go()
            if b == 0:
                r = a + c
            elif b == 1:
                r = a - c
            elif b == 2:
                r = a * c
            else:
                if abs(c) < 0.02:
                    ok[0] = False
                    c = 1.0
                r = a / c
        elif t == 5:
            n = code[pos[0]]; pos[0] += 1
            a = go()
            if (n < 0 or n > 2) and abs(a) < 0.02:
                ok[0] = False
                a = 1.0
            if abs(n) * abs(math.log(abs(a) + 1e-30)) > 25:
                ok[0] = False
                a = 1.0
            r = a ** n
        else:
            a = go()
            env.append(a)
            r = go()
            env.pop()
        if not (abs(r) < 1e5):
            ok[0] = False
            r = 1.0
        return r
    try:
        v = go()
    except (OverflowError, ValueError, ZeroDivisionError):
        return None
    return v if ok[0] else None
