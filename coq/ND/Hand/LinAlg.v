(* Hand/LinAlg.v -- hand model of src/linalg.rs (LU with partial pivoting on the real part, solve, determinant, inverse, norm), generic in the
   number type.  Matrices are lists of rows; every loop of the Rust code is a fold over the same index range, every assignment a list update, so the
   sequence of arithmetic operations is the one of the implementation (the model is executed in Coq on binary64 against it). *)
From Coq Require Import List Arith.
From ND Require Import Overload Float Mat Opt Wire.
From NDgen Require Import Classes.
Import ListNotations.
Local Open Scope rs_scope.

Fixpoint upd {A} (l : list A) (i : nat) (v : A) : list A :=
  match l, i with
  | nil, _ => nil
  | _ :: r, O => v :: r
  | x :: r, S k => x :: upd r k v
  end.
Definition range (a b : nat) : list nat := seq a (b - a).

Section LinAlg.
  Context {F T : Type} {dn : DN F T}.
  #[local] Instance flF_la : FL F := dn_fl (T:=T).
  Definition vg (v : list T) (i : nat) : T := nth i v (zero : T).
  Definition mg (a : list (list T)) (i j : nat) : T := nth j (nth i a nil) (zero : T).
  Definition ms (a : list (list T)) (i j : nat) (v : T) : list (list T) := upd a i (upd (nth i a nil) j v).

  Record lu := mkLU { lu_a : list (list T); lu_p : list nat; lu_pc : nat }.

  (* for k in i..n { let abs_a = a[(k, i)].abs(); if abs_a.re() > max_a { max_a = abs_a.re(); imax = k; } } *)
  Definition pivot (a : list (list T)) (n i : nat) : F * nat :=
    fold_left (fun (st : F * nat) k => let abs_a := m_abs (mg a k i) in
                 if ((m_re abs_a : F) >? fst st) then ((m_re abs_a : F), k) else st) (range i n) ((zero : F), i).
  Definition eliminate (a : list (list T)) (n i : nat) : list (list T) :=
    fold_left (fun a j =>
      let a := ms a j i (mg a j i / mg a i i) in
      fold_left (fun a k => ms a j k (mg a j k - mg a j i * mg a i k)) (range (S i) n) a) (range (S i) n) a.
  Definition lu_step (st : option lu) (n i : nat) : option lu :=
    match st with
    | None => None
    | Some l =>
      let '(mx, imax) := pivot (lu_a l) n i in
      if nt_is_zero mx then None else
      let l' := if Nat.eqb imax i then l else
        let p := lu_p l in
        let pj := nth i p O in
        let p := upd (upd p i (nth imax p O)) imax pj in
        let a := lu_a l in
        let ri := nth i a nil in
        let rm := nth imax a nil in
        mkLU (upd (upd a i rm) imax ri) p (S (lu_pc l)) in
      Some (mkLU (eliminate (lu_a l') n i) (lu_p l') (lu_pc l'))
    end.
  Definition lu_new (a : list (list T)) : option lu :=
    let n := length a in
    fold_left (fun st i => lu_step st n i) (range 0 n) (Some (mkLU a (seq 0 n) n)).

  Definition sub_dot (a : list (list T)) (i : nat) (ks : list nat) (x : list T) : list T :=
    fold_left (fun x k => upd x i (vg x i - mg a i k * vg x k)) ks x.
  Definition lu_solve (l : lu) (b : list T) : list T :=
    let n := length b in
    let a := lu_a l in
    let x := repeat (zero : T) n in
    let x := fold_left (fun x i => sub_dot a i (range 0 i) (upd x i (vg b (nth i (lu_p l) O)))) (range 0 n) x in
    fold_left (fun x i => let x := sub_dot a i (range (S i) n) x in upd x i (vg x i / mg a i i)) (rev (range 0 n)) x.

  (* (0..n).map(|i| a[(i, i)]).product(): the left fold from one (C08); sign from the parity of the row exchanges *)
  Definition lu_det (l : lu) : T :=
    let n := length (lu_p l) in
    let det := fold_left (fun acc i => acc * mg (lu_a l) i i) (range 0 n) (one : T) in
    if Nat.eqb ((lu_pc l - n) mod 2) 0 then det else - det.

  Definition lu_inverse (l : lu) : list (list T) :=
    let n := length (lu_p l) in
    let a := lu_a l in
    let ia := repeat (repeat (zero : T) n) n in
    fold_left (fun ia j =>
      let ia := fold_left (fun ia i =>
                  let ia := ms ia i j (if Nat.eqb (nth i (lu_p l) O) j then (one : T) else (zero : T)) in
                  fold_left (fun ia k => ms ia i j (mg ia i j - mg a i k * mg ia k j)) (range 0 i) ia) (range 0 n) ia in
      fold_left (fun ia i =>
                  let ia := fold_left (fun ia k => ms ia i j (mg ia i j - mg a i k * mg ia k j)) (range (S i) n) ia in
                  ms ia i j (mg ia i j / mg a i i)) (rev (range 0 n)) ia) (range 0 n) ia.

  Definition norm (x : list T) : T := m_sqrt (fold_left (fun acc v => acc + v * v) x (zero : T)).
  (* ---- jacobi_eigenvalue (cyclic Jacobi, src/linalg.rs): state a (upper triangle used), v, d, bw, zw ---- *)
  Record jst := mkJ { j_a : list (list T); j_v : list (list T); j_d : list T; j_bw : list T; j_zw : list T }.
  Definition eye (n : nat) : list (list T) := map (fun i => map (fun j => if Nat.eqb i j then (one : T) else (zero : T)) (range 0 n)) (range 0 n).
  Definition diag (a : list (list T)) (n : nat) : list T := map (fun i => mg a i i) (range 0 n).
  (* thresh = sqrt(sum_{j} sum_{i<j} a[(i,j)].re().powi(2)) / n; f64::powi(x, 2) is the correctly rounded square x * x (compiler-rt's __powidf2
     computes 1 * (x * x), LLVM folds it to x * x), written so here to keep this evaluation free of the libm oracle table *)
  Definition j_thresh (a : list (list T)) (n : nat) : F :=
    let s := fold_left (fun th j => fold_left (fun th i => let r : F := m_re (mg a i j) in th + r * r) (range 0 j) th) (range 0 n) (zero : F) in
    std_sqrt s / (castZ (Z.of_nat n) : F).
  (* (a[x1], a[x2]) <- (g - s (h + g tau), h + s (g - h tau)) *)
  Definition rot2 (m : list (list T)) (i1 j1 i2 j2 : nat) (s tau : T) : list (list T) :=
    let g := mg m i1 j1 in let h := mg m i2 j2 in
    let m := ms m i1 j1 (g - s * (h + g * tau)) in
    ms m i2 j2 (h + s * (g - h * tau)).
  Definition j_pair (it_num n : nat) (thresh : F) (st : jst) (p q : nat) : jst :=
    let a := j_a st in let d := j_d st in
    let ten : F := castZ 10 in let half : F := (one : F) / (castZ 2 : F) in
    let gapq := m_abs (mg a p q) * ten in
    let termp := gapq + m_abs (vg d p) in
    let termq := gapq + m_abs (vg d q) in
    if (Nat.ltb 4 it_num && (termp == m_abs (vg d p)) && (termq == m_abs (vg d q)))%bool then
      mkJ (ms a p q (zero : T)) (j_v st) d (j_bw st) (j_zw st)
    else if (thresh <=? std_abs (m_re (mg a p q) : F)) then
      let h := vg d q - vg d p in
      let term := m_abs h + gapq in
      let t := if (term == m_abs h) then mg a p q / h
               else let theta := h * half / mg a p q in
                    let t := m_recip (m_abs theta + m_sqrt (theta * theta + (one : F))) in
                    if (m_is_negative theta : bool) then - t else t in
      let c := m_recip (m_sqrt (t * t + (one : F))) in
      let s := t * c in
      let tau := s / (c + (one : F)) in
      let h := t * mg a p q in
      let zw := upd (j_zw st) p (vg (j_zw st) p - h) in
      let zw := upd zw q (vg zw q + h) in
      let d := upd d p (vg d p - h) in
      let d := upd d q (vg d q + h) in
      let a := ms a p q (zero : T) in
      let a := fold_left (fun a j => rot2 a j p j q s tau) (range 0 p) a in
      let a := fold_left (fun a j => rot2 a p j j q s tau) (range (S p) q) a in
      let a := fold_left (fun a j => rot2 a p j q j s tau) (range (S q) n) a in
      let v := fold_left (fun v j => rot2 v j p j q s tau) (range 0 n) (j_v st) in
      mkJ a v d (j_bw st) zw
    else st.
  Definition j_sweep (n : nat) (sd : jst * bool) (it_num : nat) : jst * bool :=
    let '(st, done) := sd in
    if done then sd else
    let thresh := j_thresh (j_a st) n in
    if nt_is_zero thresh then (st, true) else
    let st := fold_left (fun st p => fold_left (fun st q => j_pair it_num n thresh st p q) (range (S p) n) st) (range 0 n) st in
    let bw := map (fun i => vg (j_bw st) i + vg (j_zw st) i) (range 0 n) in
    (mkJ (j_a st) (j_v st) bw bw (repeat (zero : T) n), false).
  (* selection sort of d by real part, ascending, with the columns of v *)
  Definition swap_l {A} (dflt : A) (l : list A) (i j : nat) : list A := upd (upd l i (nth j l dflt)) j (nth i l dflt).
  Definition j_sort_step (n : nat) (dv : list T * list (list T)) (k : nat) : list T * list (list T) :=
    let '(d, v) := dv in
    let m := fold_left (fun m l => if ((m_re (vg d l) : F) <? (m_re (vg d m) : F)) then l else m) (range (S k) n) k in
    if Nat.eqb m k then dv else
    (swap_l (zero : T) d m k, map (fun row => swap_l (zero : T) row m k) v).
  Definition j_sort (n : nat) (d : list T) (v : list (list T)) : list T * list (list T) := fold_left (j_sort_step n) (range 0 (n - 1)) (d, v).
  Definition jacobi_eigenvalue (a : list (list T)) (max_iter : nat) : list T * list (list T) :=
    let n := length a in
    let d := diag a n in
    let st0 := mkJ a (eye n) d d (repeat (zero : T) n) in
    let '(st, _) := fold_left (j_sweep n) (range 0 max_iter) (st0, false) in
    j_sort n (j_d st) (j_v st).
  Definition smallest_ev (a : list (list T)) : T * list T :=
    let '(e, v) := jacobi_eigenvalue a 200 in (vg e 0, map (fun row => nth 0 row (zero : T)) v).
End LinAlg.
