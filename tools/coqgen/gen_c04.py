#!/usr/bin/env python3
"""Writes coq/ND/Proofs/C04_inst.v: every flat dual number type (over R) is a jet algebra in the sense of Proofs/Agree.v, from the
theorems of C01 / C02 / C08 / C09 about the generated code."""
FNS = 'recip sqrt cbrt exp exp2 exp_m1 ln log2 log10 ln_1p sin cos tan asin acos atan sinh cosh tanh asinh acosh atanh'.split()
T = {  # type -> (part, wf, label type, fam, idx-intro pattern, vector binders)
 'Dual': ('part_Dual', '(fun _ : Dual R => True)', 'unit', 'fun S => In S idx_Dual', ''),
 'Dual2': ('part_Dual2', '(fun _ : Dual2 R => True)', 'unit', 'fun S => In S idx_Dual2', ''),
 'Dual3': ('part_Dual3', '(fun _ : Dual3 R => True)', 'unit', 'fun S => In S idx_Dual3', ''),
 'HyperDual': ('part_HyperDual', '(fun _ : HyperDual R => True)', 'nat', 'fun S => In S idx_HyperDual', ''),
 'HyperHyperDual': ('part_HHD', '(fun _ : HyperHyperDual R => True)', 'nat', 'fun S => In S idx_HHD', ''),
 'DualVec': ('part_DualVec', '(fun _ : DualVec R => True)', 'nat', 'fun S => exists i, In S (idx_DualVec i)', 'i'),
 'Dual2Vec': ('part_Dual2Vec', 'wf_Dual2Vec', 'nat', 'fun S => exists i j, In S (idx_Dual2Vec i j)', 'i j'),
 'HyperDualVec': ('part_HyperDualVec', 'wf_HyperDualVec', '(nat + nat)%type', 'fun S => exists i j, In S (idx_HyperDualVec i j)', 'i j'),
}
out = ['''(* Proofs/C04_inst.v -- written by tools/coqgen/gen_c04.py: each of the eight dual number types over R is a jet algebra (Agree.JetAlgF). *)
From ND Require Import Tactics C02_proofs C01_towers C01_faa C07_proofs C08_lift C09_proofs C09_faa Prog Agree.
Local Open Scope R_scope.

Ltac subl_inv := repeat match goal with
  | H : subl _ (_ :: _) |- _ => inversion H; clear H; subst
  | H : subl _ nil |- _ => inversion H; clear H; subst end.
Ltac in_cases H := repeat (destruct H as [<-|H]); try solve [destruct H].
''']
for S, dd, unf in (('Dual2Vec', 'destruct x as [? [[?|]] [[?|]]]', 'unfold wf_Dual2Vec, wf_row in *'),
                   ('HyperDualVec', 'destruct x as [? [[?|]] [[?|]] [[?|]]]', 'unfold wf_HyperDualVec, wf_col in *')):
    ddy = dd.replace('destruct x', 'destruct y')
    out.append('Lemma wf_bin_%s b (x y : %s R) : wf_%s x -> wf_%s y -> wf_%s (eval_bin b x y).' % (S, S, S, S, S))
    out.append('Proof. intros Wx Wy; %s; %s; dmat; %s; simpl in *; subst; destruct b; rcbv; try reflexivity; exact I. Qed.' % (dd, ddy, unf))
    out.append('Lemma wf_un_%s u (x : %s R) : wf_%s x -> wf_%s (eval_un u x).' % (S, S, S, S))
    out.append('Proof. intros Wx; %s; dmat; %s; simpl in *; subst; destruct u; rcbv; try reflexivity; exact I. Qed.' % (dd, unf))
    out.append('Lemma wf_powi_%s n (x : %s R) : wf_%s x -> wf_%s (m_powi x n).' % (S, S, S, S))
    out.append('Proof. intros Wx; %s; dmat; %s; simpl in *; subst; destruct n as [|[[p|p|]|[p|p|]|]|p]; rcbvZ; try reflexivity; exact I. Qed.' % (dd, unf))
    out.append('Lemma wf_scal_%s b (x : %s R) (c : R) : wf_%s x -> wf_%s (eval_scal b x c).' % (S, S, S, S))
    out.append('Proof. intros Wx; %s; dmat; %s; simpl in *; subst; destruct b; rcbv; try reflexivity; exact I. Qed.\n' % (dd, unf))
for S, (part, wf, L, fam, vb) in T.items():
    vec = bool(vb)
    haswf = wf.startswith('wf_')
    ex = {'': '', 'i': 'destruct F as [i F]', 'i j': 'destruct F as [i [j F]]'}[vb]
    args = {'': '', 'i': 'i ', 'i j': 'i j '}[vb]
    wfarg = lambda v: (' W%s' % v) if haswf else ''
    out.append('Definition fam_c04_%s : @block %s -> Prop := %s.' % (S, L, fam))
    # closure under sub-blocks
    if not vec:
        out.append('Lemma fam_sub_%s S B : fam_c04_%s S -> subl B S -> fam_c04_%s B.\nProof. unfold fam_c04_%s; intros F H; in_cases F; subl_inv; simpl; auto 12. Qed.' % (S, S, S, S))
        out.append('Lemma fam_len_%s S : fam_c04_%s S -> (length S <= 3)%%nat.\nProof. unfold fam_c04_%s; intros F; in_cases F; simpl; lia. Qed.' % (S, S, S))
    else:
        wit = {'i': 'exists i', 'i j': 'exists i, j'}[vb]
        # sub-blocks of [i;j] are [], [i], [j], [i;j]: [j] belongs to the family of direction j
        out.append('Lemma fam_sub_%s S B : fam_c04_%s S -> subl B S -> fam_c04_%s B.' % (S, S, S))
        if S == 'DualVec':
            out.append('Proof. unfold fam_c04_DualVec; intros [i F] H; in_cases F; subl_inv; try (exists i; simpl; auto); exists 0%nat; simpl; auto. Qed.')
        elif S == 'Dual2Vec':
            out.append('Proof. unfold fam_c04_Dual2Vec; intros [i [j F]] H; in_cases F; subl_inv; try (exists i, j; simpl; now auto 8); try (exists j, j; simpl; now auto 8); exists 0%nat, 0%nat; simpl; auto. Qed.')
        else:
            out.append('Proof. unfold fam_c04_HyperDualVec; intros [i [j F]] H; in_cases F; subl_inv; try (exists i, j; simpl; now auto 8); exists 0%nat, 0%nat; simpl; auto. Qed.')
        out.append('Lemma fam_len_%s S : fam_c04_%s S -> (length S <= 3)%%nat.\nProof. unfold fam_c04_%s; intros F; %s; in_cases F; simpl; lia. Qed.' % (S, S, S, ex))
    # the record
    W = lambda v: ('W%s ' % v) if haswf else ''
    un_tac = ' | '.join('exact (faa_%s_%s %sx %s%sS F)' % (S, fn, args, 'Hd ' if fn not in ('exp exp2 exp_m1 sin cos atan sinh cosh tanh asinh'.split()) else '', 'Wx ' if haswf else '') for fn in FNS)
    out.append('Lemma JA_c04_%s : JetAlgF (DN_%s (T:=R)) %s %s fam_c04_%s (fun _ => True).' % (S, S, part, wf, S))
    out.append('Proof.\n  constructor.')
    out.append('  - reflexivity.')
    out.append('  - exact fam_sub_%s.\n  - exact fam_len_%s.' % (S, S))
    if S in ('Dual2Vec', 'HyperDualVec'):
        out.append('  - intros a b Wa Wb S F; %s; exact (mul_%s %sa b Wa Wb S F).' % (ex, S, args))
        out.append('  - intros a b Wa Wb Hb S F; %s; exact (div_%s %sa b Wa Wb Hb S F).' % (ex, S, args))
    elif S == 'DualVec':
        out.append('  - intros a b _ _ S F; %s; exact (mul_DualVec i a b S F).' % ex)
        out.append('  - intros a b _ _ Hb S F; %s; exact (div_DualVec i a b S Hb F).' % ex)
    else:
        out.append('  - intros a b _ _ S F; exact (mul_%s a b S F).' % S.replace('HyperHyperDual', 'HHD'))
        out.append('  - intros a b _ _ Hb S F; exact (div_%s a b S Hb F).' % S.replace('HyperHyperDual', 'HHD'))
    out.append('  - intros a b S F; %s exact (lin_%s %sa b S F).' % ((ex + ';') if ex else '', S.replace('HyperHyperDual', 'HHD'), args))
    out.append('  - intros u x Hu Wx Hd S F; %s destruct u; try (exfalso; apply Hu; reflexivity); simpl in Hd;\n    first [ %s ].' % ((ex + ';') if ex else '', un_tac))
    out.append('  - intros n x _ Wx S F; %s exact (faa_%s_powi %sn x %sS F).' % ((ex + ';') if ex else '', S, args, 'Wx ' if haswf else ''))
    out.append('  - intros c S F; %s in_cases F; reflexivity.' % ((ex + ';') if ex else ''))
    lift = lambda o: 'lift_%s_%s %sx c S' % (S, o, args)
    out.append('  - intros b x c S Hc F; %s destruct b; simpl; [exact (%s F) | exact (%s F) | exact (%s F) | exact (%s (Hc eq_refl) F)].' % (
        (ex + ';') if ex else '', lift('add'), lift('sub'), lift('mul'), lift('div')))
    if haswf:
        out.append('  - intros b x y Wx Wy; apply wf_bin_%s; assumption.' % S)
        out.append('  - intros u x Wx; apply wf_un_%s; assumption.' % S)
        out.append('  - intros n x Wx; apply wf_powi_%s; assumption.' % S)
        out.append('  - intros c; reflexivity || exact I.')
        out.append('  - intros b x c Wx; apply wf_scal_%s; assumption.' % S)
    else:
        out.append('  - intros; exact I.\n  - intros; exact I.\n  - intros; exact I.\n  - intros; exact I.\n  - intros; exact I.')
    out.append('Qed.\n')
open('/verif/coq/ND/Proofs/C04_inst.v', 'w').write('\n'.join(out) + '\n')
print('written')
