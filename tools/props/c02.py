"""C02 -- dual arithmetic is the exact truncated Taylor algebra."""
from fractions import Fraction
import vlib, pyjet, genvals
from vlib import Case
from props.base import BaseProp, Violation

OPS2 = ['add', 'sub', 'mul', 'div']
# the compound-assignment forms compute the same sum / difference / product / quotient
ASSIGN_FORMS = ['add_assign', 'sub_assign', 'mul_assign', 'div_assign']
U = {64: 2.0 ** -53, 32: 2.0 ** -24}


class Prop(BaseProp):
    coq_targets = ['ND/Proofs/C02_proofs.vo']
    n_quick, n_thorough = 420, 6000

    def cases(self, rng, n):
        tys = genvals.type_list(self.tier, include32=True)
        out = []
        k = 0
        while len(out) < n:
            ty = tys[k % len(tys)]
            k += 1
            grid = rng.below(2) == 0
            op = rng.choice(OPS2 + ['neg', 'mul', 'div'] + ASSIGN_FORMS)
            leaf = genvals.leaf_grid if grid else genvals.leaf_rand
            a = genvals.gen_value(rng, ty, leaf)
            args = [a]
            if op != 'neg':
                if op in ('div', 'div_assign'):
                    re_leaf = (lambda r: r.choice([1.0, -1.0]) * 2.0 ** (r.below(7) - 3)) if grid else (lambda r: r.choice([1.0, -1.0]) * r.uniform(0.3, 3))
                    b = genvals.gen_value(rng, ty, leaf, re_leaf=re_leaf)
                else:
                    b = genvals.gen_value(rng, ty, leaf)
                args.append(b)
            out.append(Case('c%d' % len(out), ty, op, args, tag='grid' if grid else 'rand'))
        return out

    def reference(self, case, conv):
        J = [pyjet.jet_of_value(v, case.ty, conv) for v in case.args]
        op = case.op.replace('_assign', '')
        if op == 'add':
            return J[0] + J[1], None
        if op == 'sub':
            return J[0] - J[1], None
        if op == 'neg':
            return -J[0], None
        if op == 'mul':
            return J[0] * J[1], J[0].mul_abs(J[1])
        if op == 'div':
            r, rs = J[1].recip()
            absa = pyjet.Jet({S: abs(J[0][S]) for S in J[0].fam}, J[0].fam, J[0].zero)
            return J[0] * r, absa.mul_abs(rs)
        raise KeyError(op)

    def oracle(self, case, impl):
        if impl == 'panic':
            return Violation('counterexample', '%s on %s panics' % (case.op, case.ty), case=case, obtained='panic')
        w = case.ty.leaf().width
        conv = lambda b: pyjet.frac_of_bits(b, w)
        ref, scale = self.reference(case, conv)
        exact = case.tag == 'grid'
        if exact and w == 32:
            # binary32 has 24 significant bits: a part of order k of a quotient / power is a sum of products of up to k+1 seven-bit grid values,
            # which fits only for first-order types (and always for the linear operations and products of second order)
            order = max(len(S) for S in ref.fam)
            linear = case.op.split('_')[0] in ('add', 'sub', 'neg')
            product = case.op.split('_')[0] == 'mul' and order <= 2
            if not (order <= 1 or linear or product):
                exact = False
        for S in ref.fam:
            b = pyjet.part_bits(impl, case.ty, S)
            if b == vlib.NAN:
                return Violation('counterexample', '%s on %s: part %s is NaN' % (case.op, case.ty, S), case=case, expected=str(ref[S]), obtained='NaN')
            got = conv(b)
            want = ref[S]
            if exact:
                okk = got == want
            else:
                sc = scale[S] if scale is not None else abs(want)
                okk = abs(got - want) <= 32 * Fraction(U[w]) * sc + Fraction(1, 10 ** 300)
            if not okk:
                return Violation('counterexample', '%s on %s: part %s = %s, Taylor algebra gives %s%s' % (
                    case.op, case.ty, S, float(got), float(want), ' (operands on the dyadic grid: must be exact)' if exact else ''),
                    case=case, expected=str(want), obtained=str(got), detail={'block': str(S)})
        return None

    def nontrivial(self, case, impl):
        if impl == 'panic':
            return False
        lv = vlib.leaves(impl, case.ty)
        return any(x not in (0, vlib.NAN) for x in lv[1:])

    def rule_text(self):
        return ('operand pairs per (type, operation): half on the dyadic grid k*2^-4, |k|<=64, divisor real parts +-2^j (exact rational '
                'comparison), half random magnitudes (tolerance 32 u Sum|Leibniz terms|); optional parts present with probability 2/3; '
                'distinct by (type, op, operand bits); non-trivial = no panic and at least one non-zero derivative part in the result')
