(* Proofs/C01_faa.v -- written by tools/coqgen/gen_c01.py (statements repeat over 8 types x 22 functions).
   (1) every type's private chain rule is the set-partition Faa di Bruno formula on every part;
   (2) every elementary function of every type returns, in every part, Faa di Bruno of the derivative tower
       (C01_towers.v: a true derivative tower of the function) with the operand's parts -- any real part in the domain,
       arbitrary derivative parts, every dimension and presence pattern. *)
From ND Require Import Tactics C01_towers.
Local Open Scope R_scope.
Require Import ND.Proofs.C02_proofs.

Definition coef (l : list R) (k : nat) : R := nth k l 0.
Ltac fld := rcbv; try replace (1 + 1) with 2 by lra; field; side.

Lemma chain_Dual : forall (x : Dual R) f0 f1, forall S, In S idx_Dual ->
  part_Dual (Dual_chain_rule x f0 f1) S = faa (coef [f0; f1]) (part_Dual x) S.
Proof. intros  x f0 f1  S H; destruct x as [r ?]; each_block H jet_ring. Qed.

Lemma chain_Dual2 : forall (x : Dual2 R) f0 f1 f2, forall S, In S idx_Dual2 ->
  part_Dual2 (Dual2_chain_rule x f0 f1 f2) S = faa (coef [f0; f1; f2]) (part_Dual2 x) S.
Proof. intros  x f0 f1 f2  S H; destruct x as [r ? ?]; each_block H jet_ring. Qed.

Lemma chain_Dual3 : forall (x : Dual3 R) f0 f1 f2 f3, forall S, In S idx_Dual3 ->
  part_Dual3 (Dual3_chain_rule x f0 f1 f2 f3) S = faa (coef [f0; f1; f2; f3]) (part_Dual3 x) S.
Proof. intros  x f0 f1 f2 f3  S H; destruct x as [r ? ? ?]; each_block H jet_ring. Qed.

Lemma chain_HyperDual : forall (x : HyperDual R) f0 f1 f2, forall S, In S idx_HyperDual ->
  part_HyperDual (HyperDual_chain_rule x f0 f1 f2) S = faa (coef [f0; f1; f2]) (part_HyperDual x) S.
Proof. intros  x f0 f1 f2  S H; destruct x as [r ? ? ?]; each_block H jet_ring. Qed.

Lemma chain_HyperHyperDual : forall (x : HyperHyperDual R) f0 f1 f2 f3, forall S, In S idx_HHD ->
  part_HHD (HyperHyperDual_chain_rule x f0 f1 f2 f3) S = faa (coef [f0; f1; f2; f3]) (part_HHD x) S.
Proof. intros  x f0 f1 f2 f3  S H; destruct x as [r ? ? ? ? ? ? ?]; each_block H jet_ring. Qed.

Lemma chain_DualVec : forall i, forall (x : DualVec R) f0 f1, forall S, In S (idx_DualVec i) ->
  part_DualVec (DualVec_chain_rule x f0 f1) S = faa (coef [f0; f1]) (part_DualVec x) S.
Proof. intros i x f0 f1  S H; destruct x as [r [[?|]]]; dmat; each_block H jet_ring. Qed.

Lemma chain_Dual2Vec : forall i j, forall (x : Dual2Vec R) f0 f1 f2, wf_Dual2Vec x -> forall S, In S (idx_Dual2Vec i j) ->
  part_Dual2Vec (Dual2Vec_chain_rule x f0 f1 f2) S = faa (coef [f0; f1; f2]) (part_Dual2Vec x) S.
Proof. intros i j x f0 f1 f2 Hwf S H; destruct x as [r [[?|]] [[?|]]]; dmat; unfold wf_Dual2Vec, wf_row in Hwf; simpl in Hwf; subst; each_block H jet_ring. Qed.

Lemma chain_HyperDualVec : forall i j, forall (x : HyperDualVec R) f0 f1 f2, wf_HyperDualVec x -> forall S, In S (idx_HyperDualVec i j) ->
  part_HyperDualVec (HyperDualVec_chain_rule x f0 f1 f2) S = faa (coef [f0; f1; f2]) (part_HyperDualVec x) S.
Proof. intros i j x f0 f1 f2 Hwf S H; destruct x as [r [[?|]] [[?|]] [[?|]]]; dmat; unfold wf_HyperDualVec, wf_col in Hwf; simpl in Hwf; subst; each_block H jet_ring. Qed.

Lemma faa_Dual_recip : forall x : Dual R, (Dual_f_re x) <> 0 -> forall S, In S idx_Dual ->
  part_Dual (m_recip x) S = faa (tw3 m_recip (Dual_f_re x)) (part_Dual x) S.
Proof. intros  x Hd  S H; destruct x as [r ?]; simpl in Hd;  each_block H fld. Qed.
Lemma faa_Dual2_recip : forall x : Dual2 R, (Dual2_f_re x) <> 0 -> forall S, In S idx_Dual2 ->
  part_Dual2 (m_recip x) S = faa (tw3 m_recip (Dual2_f_re x)) (part_Dual2 x) S.
Proof. intros  x Hd  S H; destruct x as [r ? ?]; simpl in Hd;  each_block H fld. Qed.
Lemma faa_Dual3_recip : forall x : Dual3 R, (Dual3_f_re x) <> 0 -> forall S, In S idx_Dual3 ->
  part_Dual3 (m_recip x) S = faa (tw3 m_recip (Dual3_f_re x)) (part_Dual3 x) S.
Proof. intros  x Hd  S H; destruct x as [r ? ? ?]; simpl in Hd;  each_block H fld. Qed.
Lemma faa_HyperDual_recip : forall x : HyperDual R, (HyperDual_f_re x) <> 0 -> forall S, In S idx_HyperDual ->
  part_HyperDual (m_recip x) S = faa (tw3 m_recip (HyperDual_f_re x)) (part_HyperDual x) S.
Proof. intros  x Hd  S H; destruct x as [r ? ? ?]; simpl in Hd;  each_block H fld. Qed.
Lemma faa_HyperHyperDual_recip : forall x : HyperHyperDual R, (HyperHyperDual_f_re x) <> 0 -> forall S, In S idx_HHD ->
  part_HHD (m_recip x) S = faa (tw3 m_recip (HyperHyperDual_f_re x)) (part_HHD x) S.
Proof. intros  x Hd  S H; destruct x as [r ? ? ? ? ? ? ?]; simpl in Hd;  each_block H fld. Qed.
Lemma faa_DualVec_recip : forall i, forall x : DualVec R, (DualVec_f_re x) <> 0 -> forall S, In S (idx_DualVec i) ->
  part_DualVec (m_recip x) S = faa (tw3 m_recip (DualVec_f_re x)) (part_DualVec x) S.
Proof. intros i x Hd  S H; destruct x as [r [[?|]]]; dmat; simpl in Hd;  each_block H fld. Qed.
Lemma faa_Dual2Vec_recip : forall i j, forall x : Dual2Vec R, (Dual2Vec_f_re x) <> 0 -> wf_Dual2Vec x -> forall S, In S (idx_Dual2Vec i j) ->
  part_Dual2Vec (m_recip x) S = faa (tw3 m_recip (Dual2Vec_f_re x)) (part_Dual2Vec x) S.
Proof. intros i j x Hd Hwf S H; destruct x as [r [[?|]] [[?|]]]; dmat; unfold wf_Dual2Vec, wf_row in Hwf; simpl in Hwf; subst; simpl in Hd;  each_block H fld. Qed.
Lemma faa_HyperDualVec_recip : forall i j, forall x : HyperDualVec R, (HyperDualVec_f_re x) <> 0 -> wf_HyperDualVec x -> forall S, In S (idx_HyperDualVec i j) ->
  part_HyperDualVec (m_recip x) S = faa (tw3 m_recip (HyperDualVec_f_re x)) (part_HyperDualVec x) S.
Proof. intros i j x Hd Hwf S H; destruct x as [r [[?|]] [[?|]] [[?|]]]; dmat; unfold wf_HyperDualVec, wf_col in Hwf; simpl in Hwf; subst; simpl in Hd;  each_block H fld. Qed.

Lemma faa_Dual_sqrt : forall x : Dual R, 0 < (Dual_f_re x) -> forall S, In S idx_Dual ->
  part_Dual (m_sqrt x) S = faa (tw3 m_sqrt (Dual_f_re x)) (part_Dual x) S.
Proof. intros  x Hd  S H; destruct x as [r ?]; simpl in Hd;  each_block H fld. Qed.
Lemma faa_Dual2_sqrt : forall x : Dual2 R, 0 < (Dual2_f_re x) -> forall S, In S idx_Dual2 ->
  part_Dual2 (m_sqrt x) S = faa (tw3 m_sqrt (Dual2_f_re x)) (part_Dual2 x) S.
Proof. intros  x Hd  S H; destruct x as [r ? ?]; simpl in Hd;  each_block H fld. Qed.
Lemma faa_Dual3_sqrt : forall x : Dual3 R, 0 < (Dual3_f_re x) -> forall S, In S idx_Dual3 ->
  part_Dual3 (m_sqrt x) S = faa (tw3 m_sqrt (Dual3_f_re x)) (part_Dual3 x) S.
Proof. intros  x Hd  S H; destruct x as [r ? ? ?]; simpl in Hd;  each_block H fld. Qed.
Lemma faa_HyperDual_sqrt : forall x : HyperDual R, 0 < (HyperDual_f_re x) -> forall S, In S idx_HyperDual ->
  part_HyperDual (m_sqrt x) S = faa (tw3 m_sqrt (HyperDual_f_re x)) (part_HyperDual x) S.
Proof. intros  x Hd  S H; destruct x as [r ? ? ?]; simpl in Hd;  each_block H fld. Qed.
Lemma faa_HyperHyperDual_sqrt : forall x : HyperHyperDual R, 0 < (HyperHyperDual_f_re x) -> forall S, In S idx_HHD ->
  part_HHD (m_sqrt x) S = faa (tw3 m_sqrt (HyperHyperDual_f_re x)) (part_HHD x) S.
Proof. intros  x Hd  S H; destruct x as [r ? ? ? ? ? ? ?]; simpl in Hd;  each_block H fld. Qed.
Lemma faa_DualVec_sqrt : forall i, forall x : DualVec R, 0 < (DualVec_f_re x) -> forall S, In S (idx_DualVec i) ->
  part_DualVec (m_sqrt x) S = faa (tw3 m_sqrt (DualVec_f_re x)) (part_DualVec x) S.
Proof. intros i x Hd  S H; destruct x as [r [[?|]]]; dmat; simpl in Hd;  each_block H fld. Qed.
Lemma faa_Dual2Vec_sqrt : forall i j, forall x : Dual2Vec R, 0 < (Dual2Vec_f_re x) -> wf_Dual2Vec x -> forall S, In S (idx_Dual2Vec i j) ->
  part_Dual2Vec (m_sqrt x) S = faa (tw3 m_sqrt (Dual2Vec_f_re x)) (part_Dual2Vec x) S.
Proof. intros i j x Hd Hwf S H; destruct x as [r [[?|]] [[?|]]]; dmat; unfold wf_Dual2Vec, wf_row in Hwf; simpl in Hwf; subst; simpl in Hd;  each_block H fld. Qed.
Lemma faa_HyperDualVec_sqrt : forall i j, forall x : HyperDualVec R, 0 < (HyperDualVec_f_re x) -> wf_HyperDualVec x -> forall S, In S (idx_HyperDualVec i j) ->
  part_HyperDualVec (m_sqrt x) S = faa (tw3 m_sqrt (HyperDualVec_f_re x)) (part_HyperDualVec x) S.
Proof. intros i j x Hd Hwf S H; destruct x as [r [[?|]] [[?|]] [[?|]]]; dmat; unfold wf_HyperDualVec, wf_col in Hwf; simpl in Hwf; subst; simpl in Hd;  each_block H fld. Qed.

Lemma faa_Dual_cbrt : forall x : Dual R, (Dual_f_re x) <> 0 -> forall S, In S idx_Dual ->
  part_Dual (m_cbrt x) S = faa (tw3 m_cbrt (Dual_f_re x)) (part_Dual x) S.
Proof. intros  x Hd  S H; destruct x as [r ?]; simpl in Hd;  each_block H fld. Qed.
Lemma faa_Dual2_cbrt : forall x : Dual2 R, (Dual2_f_re x) <> 0 -> forall S, In S idx_Dual2 ->
  part_Dual2 (m_cbrt x) S = faa (tw3 m_cbrt (Dual2_f_re x)) (part_Dual2 x) S.
Proof. intros  x Hd  S H; destruct x as [r ? ?]; simpl in Hd;  each_block H fld. Qed.
Lemma faa_Dual3_cbrt : forall x : Dual3 R, (Dual3_f_re x) <> 0 -> forall S, In S idx_Dual3 ->
  part_Dual3 (m_cbrt x) S = faa (tw3 m_cbrt (Dual3_f_re x)) (part_Dual3 x) S.
Proof. intros  x Hd  S H; destruct x as [r ? ? ?]; simpl in Hd;  each_block H fld. Qed.
Lemma faa_HyperDual_cbrt : forall x : HyperDual R, (HyperDual_f_re x) <> 0 -> forall S, In S idx_HyperDual ->
  part_HyperDual (m_cbrt x) S = faa (tw3 m_cbrt (HyperDual_f_re x)) (part_HyperDual x) S.
Proof. intros  x Hd  S H; destruct x as [r ? ? ?]; simpl in Hd;  each_block H fld. Qed.
Lemma faa_HyperHyperDual_cbrt : forall x : HyperHyperDual R, (HyperHyperDual_f_re x) <> 0 -> forall S, In S idx_HHD ->
  part_HHD (m_cbrt x) S = faa (tw3 m_cbrt (HyperHyperDual_f_re x)) (part_HHD x) S.
Proof. intros  x Hd  S H; destruct x as [r ? ? ? ? ? ? ?]; simpl in Hd;  each_block H fld. Qed.
Lemma faa_DualVec_cbrt : forall i, forall x : DualVec R, (DualVec_f_re x) <> 0 -> forall S, In S (idx_DualVec i) ->
  part_DualVec (m_cbrt x) S = faa (tw3 m_cbrt (DualVec_f_re x)) (part_DualVec x) S.
Proof. intros i x Hd  S H; destruct x as [r [[?|]]]; dmat; simpl in Hd;  each_block H fld. Qed.
Lemma faa_Dual2Vec_cbrt : forall i j, forall x : Dual2Vec R, (Dual2Vec_f_re x) <> 0 -> wf_Dual2Vec x -> forall S, In S (idx_Dual2Vec i j) ->
  part_Dual2Vec (m_cbrt x) S = faa (tw3 m_cbrt (Dual2Vec_f_re x)) (part_Dual2Vec x) S.
Proof. intros i j x Hd Hwf S H; destruct x as [r [[?|]] [[?|]]]; dmat; unfold wf_Dual2Vec, wf_row in Hwf; simpl in Hwf; subst; simpl in Hd;  each_block H fld. Qed.
Lemma faa_HyperDualVec_cbrt : forall i j, forall x : HyperDualVec R, (HyperDualVec_f_re x) <> 0 -> wf_HyperDualVec x -> forall S, In S (idx_HyperDualVec i j) ->
  part_HyperDualVec (m_cbrt x) S = faa (tw3 m_cbrt (HyperDualVec_f_re x)) (part_HyperDualVec x) S.
Proof. intros i j x Hd Hwf S H; destruct x as [r [[?|]] [[?|]] [[?|]]]; dmat; unfold wf_HyperDualVec, wf_col in Hwf; simpl in Hwf; subst; simpl in Hd;  each_block H fld. Qed.

Lemma faa_Dual_exp : forall x : Dual R, forall S, In S idx_Dual ->
  part_Dual (m_exp x) S = faa (tw3 m_exp (Dual_f_re x)) (part_Dual x) S.
Proof. intros  x   S H; destruct x as [r ?];   each_block H fld. Qed.
Lemma faa_Dual2_exp : forall x : Dual2 R, forall S, In S idx_Dual2 ->
  part_Dual2 (m_exp x) S = faa (tw3 m_exp (Dual2_f_re x)) (part_Dual2 x) S.
Proof. intros  x   S H; destruct x as [r ? ?];   each_block H fld. Qed.
Lemma faa_Dual3_exp : forall x : Dual3 R, forall S, In S idx_Dual3 ->
  part_Dual3 (m_exp x) S = faa (tw3 m_exp (Dual3_f_re x)) (part_Dual3 x) S.
Proof. intros  x   S H; destruct x as [r ? ? ?];   each_block H fld. Qed.
Lemma faa_HyperDual_exp : forall x : HyperDual R, forall S, In S idx_HyperDual ->
  part_HyperDual (m_exp x) S = faa (tw3 m_exp (HyperDual_f_re x)) (part_HyperDual x) S.
Proof. intros  x   S H; destruct x as [r ? ? ?];   each_block H fld. Qed.
Lemma faa_HyperHyperDual_exp : forall x : HyperHyperDual R, forall S, In S idx_HHD ->
  part_HHD (m_exp x) S = faa (tw3 m_exp (HyperHyperDual_f_re x)) (part_HHD x) S.
Proof. intros  x   S H; destruct x as [r ? ? ? ? ? ? ?];   each_block H fld. Qed.
Lemma faa_DualVec_exp : forall i, forall x : DualVec R, forall S, In S (idx_DualVec i) ->
  part_DualVec (m_exp x) S = faa (tw3 m_exp (DualVec_f_re x)) (part_DualVec x) S.
Proof. intros i x   S H; destruct x as [r [[?|]]]; dmat;   each_block H fld. Qed.
Lemma faa_Dual2Vec_exp : forall i j, forall x : Dual2Vec R, wf_Dual2Vec x -> forall S, In S (idx_Dual2Vec i j) ->
  part_Dual2Vec (m_exp x) S = faa (tw3 m_exp (Dual2Vec_f_re x)) (part_Dual2Vec x) S.
Proof. intros i j x  Hwf S H; destruct x as [r [[?|]] [[?|]]]; dmat; unfold wf_Dual2Vec, wf_row in Hwf; simpl in Hwf; subst;   each_block H fld. Qed.
Lemma faa_HyperDualVec_exp : forall i j, forall x : HyperDualVec R, wf_HyperDualVec x -> forall S, In S (idx_HyperDualVec i j) ->
  part_HyperDualVec (m_exp x) S = faa (tw3 m_exp (HyperDualVec_f_re x)) (part_HyperDualVec x) S.
Proof. intros i j x  Hwf S H; destruct x as [r [[?|]] [[?|]] [[?|]]]; dmat; unfold wf_HyperDualVec, wf_col in Hwf; simpl in Hwf; subst;   each_block H fld. Qed.

Lemma faa_Dual_exp2 : forall x : Dual R, forall S, In S idx_Dual ->
  part_Dual (m_exp2 x) S = faa (tw3 m_exp2 (Dual_f_re x)) (part_Dual x) S.
Proof. intros  x   S H; destruct x as [r ?];   each_block H fld. Qed.
Lemma faa_Dual2_exp2 : forall x : Dual2 R, forall S, In S idx_Dual2 ->
  part_Dual2 (m_exp2 x) S = faa (tw3 m_exp2 (Dual2_f_re x)) (part_Dual2 x) S.
Proof. intros  x   S H; destruct x as [r ? ?];   each_block H fld. Qed.
Lemma faa_Dual3_exp2 : forall x : Dual3 R, forall S, In S idx_Dual3 ->
  part_Dual3 (m_exp2 x) S = faa (tw3 m_exp2 (Dual3_f_re x)) (part_Dual3 x) S.
Proof. intros  x   S H; destruct x as [r ? ? ?];   each_block H fld. Qed.
Lemma faa_HyperDual_exp2 : forall x : HyperDual R, forall S, In S idx_HyperDual ->
  part_HyperDual (m_exp2 x) S = faa (tw3 m_exp2 (HyperDual_f_re x)) (part_HyperDual x) S.
Proof. intros  x   S H; destruct x as [r ? ? ?];   each_block H fld. Qed.
Lemma faa_HyperHyperDual_exp2 : forall x : HyperHyperDual R, forall S, In S idx_HHD ->
  part_HHD (m_exp2 x) S = faa (tw3 m_exp2 (HyperHyperDual_f_re x)) (part_HHD x) S.
Proof. intros  x   S H; destruct x as [r ? ? ? ? ? ? ?];   each_block H fld. Qed.
Lemma faa_DualVec_exp2 : forall i, forall x : DualVec R, forall S, In S (idx_DualVec i) ->
  part_DualVec (m_exp2 x) S = faa (tw3 m_exp2 (DualVec_f_re x)) (part_DualVec x) S.
Proof. intros i x   S H; destruct x as [r [[?|]]]; dmat;   each_block H fld. Qed.
Lemma faa_Dual2Vec_exp2 : forall i j, forall x : Dual2Vec R, wf_Dual2Vec x -> forall S, In S (idx_Dual2Vec i j) ->
  part_Dual2Vec (m_exp2 x) S = faa (tw3 m_exp2 (Dual2Vec_f_re x)) (part_Dual2Vec x) S.
Proof. intros i j x  Hwf S H; destruct x as [r [[?|]] [[?|]]]; dmat; unfold wf_Dual2Vec, wf_row in Hwf; simpl in Hwf; subst;   each_block H fld. Qed.
Lemma faa_HyperDualVec_exp2 : forall i j, forall x : HyperDualVec R, wf_HyperDualVec x -> forall S, In S (idx_HyperDualVec i j) ->
  part_HyperDualVec (m_exp2 x) S = faa (tw3 m_exp2 (HyperDualVec_f_re x)) (part_HyperDualVec x) S.
Proof. intros i j x  Hwf S H; destruct x as [r [[?|]] [[?|]] [[?|]]]; dmat; unfold wf_HyperDualVec, wf_col in Hwf; simpl in Hwf; subst;   each_block H fld. Qed.

Lemma faa_Dual_exp_m1 : forall x : Dual R, forall S, In S idx_Dual ->
  part_Dual (m_exp_m1 x) S = faa (tw3 m_exp_m1 (Dual_f_re x)) (part_Dual x) S.
Proof. intros  x   S H; destruct x as [r ?];   each_block H fld. Qed.
Lemma faa_Dual2_exp_m1 : forall x : Dual2 R, forall S, In S idx_Dual2 ->
  part_Dual2 (m_exp_m1 x) S = faa (tw3 m_exp_m1 (Dual2_f_re x)) (part_Dual2 x) S.
Proof. intros  x   S H; destruct x as [r ? ?];   each_block H fld. Qed.
Lemma faa_Dual3_exp_m1 : forall x : Dual3 R, forall S, In S idx_Dual3 ->
  part_Dual3 (m_exp_m1 x) S = faa (tw3 m_exp_m1 (Dual3_f_re x)) (part_Dual3 x) S.
Proof. intros  x   S H; destruct x as [r ? ? ?];   each_block H fld. Qed.
Lemma faa_HyperDual_exp_m1 : forall x : HyperDual R, forall S, In S idx_HyperDual ->
  part_HyperDual (m_exp_m1 x) S = faa (tw3 m_exp_m1 (HyperDual_f_re x)) (part_HyperDual x) S.
Proof. intros  x   S H; destruct x as [r ? ? ?];   each_block H fld. Qed.
Lemma faa_HyperHyperDual_exp_m1 : forall x : HyperHyperDual R, forall S, In S idx_HHD ->
  part_HHD (m_exp_m1 x) S = faa (tw3 m_exp_m1 (HyperHyperDual_f_re x)) (part_HHD x) S.
Proof. intros  x   S H; destruct x as [r ? ? ? ? ? ? ?];   each_block H fld. Qed.
Lemma faa_DualVec_exp_m1 : forall i, forall x : DualVec R, forall S, In S (idx_DualVec i) ->
  part_DualVec (m_exp_m1 x) S = faa (tw3 m_exp_m1 (DualVec_f_re x)) (part_DualVec x) S.
Proof. intros i x   S H; destruct x as [r [[?|]]]; dmat;   each_block H fld. Qed.
Lemma faa_Dual2Vec_exp_m1 : forall i j, forall x : Dual2Vec R, wf_Dual2Vec x -> forall S, In S (idx_Dual2Vec i j) ->
  part_Dual2Vec (m_exp_m1 x) S = faa (tw3 m_exp_m1 (Dual2Vec_f_re x)) (part_Dual2Vec x) S.
Proof. intros i j x  Hwf S H; destruct x as [r [[?|]] [[?|]]]; dmat; unfold wf_Dual2Vec, wf_row in Hwf; simpl in Hwf; subst;   each_block H fld. Qed.
Lemma faa_HyperDualVec_exp_m1 : forall i j, forall x : HyperDualVec R, wf_HyperDualVec x -> forall S, In S (idx_HyperDualVec i j) ->
  part_HyperDualVec (m_exp_m1 x) S = faa (tw3 m_exp_m1 (HyperDualVec_f_re x)) (part_HyperDualVec x) S.
Proof. intros i j x  Hwf S H; destruct x as [r [[?|]] [[?|]] [[?|]]]; dmat; unfold wf_HyperDualVec, wf_col in Hwf; simpl in Hwf; subst;   each_block H fld. Qed.

Lemma faa_Dual_ln : forall x : Dual R, 0 < (Dual_f_re x) -> forall S, In S idx_Dual ->
  part_Dual (m_ln x) S = faa (tw3 m_ln (Dual_f_re x)) (part_Dual x) S.
Proof. intros  x Hd  S H; destruct x as [r ?]; simpl in Hd;  each_block H fld. Qed.
Lemma faa_Dual2_ln : forall x : Dual2 R, 0 < (Dual2_f_re x) -> forall S, In S idx_Dual2 ->
  part_Dual2 (m_ln x) S = faa (tw3 m_ln (Dual2_f_re x)) (part_Dual2 x) S.
Proof. intros  x Hd  S H; destruct x as [r ? ?]; simpl in Hd;  each_block H fld. Qed.
Lemma faa_Dual3_ln : forall x : Dual3 R, 0 < (Dual3_f_re x) -> forall S, In S idx_Dual3 ->
  part_Dual3 (m_ln x) S = faa (tw3 m_ln (Dual3_f_re x)) (part_Dual3 x) S.
Proof. intros  x Hd  S H; destruct x as [r ? ? ?]; simpl in Hd;  each_block H fld. Qed.
Lemma faa_HyperDual_ln : forall x : HyperDual R, 0 < (HyperDual_f_re x) -> forall S, In S idx_HyperDual ->
  part_HyperDual (m_ln x) S = faa (tw3 m_ln (HyperDual_f_re x)) (part_HyperDual x) S.
Proof. intros  x Hd  S H; destruct x as [r ? ? ?]; simpl in Hd;  each_block H fld. Qed.
Lemma faa_HyperHyperDual_ln : forall x : HyperHyperDual R, 0 < (HyperHyperDual_f_re x) -> forall S, In S idx_HHD ->
  part_HHD (m_ln x) S = faa (tw3 m_ln (HyperHyperDual_f_re x)) (part_HHD x) S.
Proof. intros  x Hd  S H; destruct x as [r ? ? ? ? ? ? ?]; simpl in Hd;  each_block H fld. Qed.
Lemma faa_DualVec_ln : forall i, forall x : DualVec R, 0 < (DualVec_f_re x) -> forall S, In S (idx_DualVec i) ->
  part_DualVec (m_ln x) S = faa (tw3 m_ln (DualVec_f_re x)) (part_DualVec x) S.
Proof. intros i x Hd  S H; destruct x as [r [[?|]]]; dmat; simpl in Hd;  each_block H fld. Qed.
Lemma faa_Dual2Vec_ln : forall i j, forall x : Dual2Vec R, 0 < (Dual2Vec_f_re x) -> wf_Dual2Vec x -> forall S, In S (idx_Dual2Vec i j) ->
  part_Dual2Vec (m_ln x) S = faa (tw3 m_ln (Dual2Vec_f_re x)) (part_Dual2Vec x) S.
Proof. intros i j x Hd Hwf S H; destruct x as [r [[?|]] [[?|]]]; dmat; unfold wf_Dual2Vec, wf_row in Hwf; simpl in Hwf; subst; simpl in Hd;  each_block H fld. Qed.
Lemma faa_HyperDualVec_ln : forall i j, forall x : HyperDualVec R, 0 < (HyperDualVec_f_re x) -> wf_HyperDualVec x -> forall S, In S (idx_HyperDualVec i j) ->
  part_HyperDualVec (m_ln x) S = faa (tw3 m_ln (HyperDualVec_f_re x)) (part_HyperDualVec x) S.
Proof. intros i j x Hd Hwf S H; destruct x as [r [[?|]] [[?|]] [[?|]]]; dmat; unfold wf_HyperDualVec, wf_col in Hwf; simpl in Hwf; subst; simpl in Hd;  each_block H fld. Qed.

Lemma faa_Dual_log2 : forall x : Dual R, 0 < (Dual_f_re x) -> forall S, In S idx_Dual ->
  part_Dual (m_log2 x) S = faa (tw3 m_log2 (Dual_f_re x)) (part_Dual x) S.
Proof. intros  x Hd  S H; destruct x as [r ?]; simpl in Hd; pose proof ln2_pos; each_block H fld. Qed.
Lemma faa_Dual2_log2 : forall x : Dual2 R, 0 < (Dual2_f_re x) -> forall S, In S idx_Dual2 ->
  part_Dual2 (m_log2 x) S = faa (tw3 m_log2 (Dual2_f_re x)) (part_Dual2 x) S.
Proof. intros  x Hd  S H; destruct x as [r ? ?]; simpl in Hd; pose proof ln2_pos; each_block H fld. Qed.
Lemma faa_Dual3_log2 : forall x : Dual3 R, 0 < (Dual3_f_re x) -> forall S, In S idx_Dual3 ->
  part_Dual3 (m_log2 x) S = faa (tw3 m_log2 (Dual3_f_re x)) (part_Dual3 x) S.
Proof. intros  x Hd  S H; destruct x as [r ? ? ?]; simpl in Hd; pose proof ln2_pos; each_block H fld. Qed.
Lemma faa_HyperDual_log2 : forall x : HyperDual R, 0 < (HyperDual_f_re x) -> forall S, In S idx_HyperDual ->
  part_HyperDual (m_log2 x) S = faa (tw3 m_log2 (HyperDual_f_re x)) (part_HyperDual x) S.
Proof. intros  x Hd  S H; destruct x as [r ? ? ?]; simpl in Hd; pose proof ln2_pos; each_block H fld. Qed.
Lemma faa_HyperHyperDual_log2 : forall x : HyperHyperDual R, 0 < (HyperHyperDual_f_re x) -> forall S, In S idx_HHD ->
  part_HHD (m_log2 x) S = faa (tw3 m_log2 (HyperHyperDual_f_re x)) (part_HHD x) S.
Proof. intros  x Hd  S H; destruct x as [r ? ? ? ? ? ? ?]; simpl in Hd; pose proof ln2_pos; each_block H fld. Qed.
Lemma faa_DualVec_log2 : forall i, forall x : DualVec R, 0 < (DualVec_f_re x) -> forall S, In S (idx_DualVec i) ->
  part_DualVec (m_log2 x) S = faa (tw3 m_log2 (DualVec_f_re x)) (part_DualVec x) S.
Proof. intros i x Hd  S H; destruct x as [r [[?|]]]; dmat; simpl in Hd; pose proof ln2_pos; each_block H fld. Qed.
Lemma faa_Dual2Vec_log2 : forall i j, forall x : Dual2Vec R, 0 < (Dual2Vec_f_re x) -> wf_Dual2Vec x -> forall S, In S (idx_Dual2Vec i j) ->
  part_Dual2Vec (m_log2 x) S = faa (tw3 m_log2 (Dual2Vec_f_re x)) (part_Dual2Vec x) S.
Proof. intros i j x Hd Hwf S H; destruct x as [r [[?|]] [[?|]]]; dmat; unfold wf_Dual2Vec, wf_row in Hwf; simpl in Hwf; subst; simpl in Hd; pose proof ln2_pos; each_block H fld. Qed.
Lemma faa_HyperDualVec_log2 : forall i j, forall x : HyperDualVec R, 0 < (HyperDualVec_f_re x) -> wf_HyperDualVec x -> forall S, In S (idx_HyperDualVec i j) ->
  part_HyperDualVec (m_log2 x) S = faa (tw3 m_log2 (HyperDualVec_f_re x)) (part_HyperDualVec x) S.
Proof. intros i j x Hd Hwf S H; destruct x as [r [[?|]] [[?|]] [[?|]]]; dmat; unfold wf_HyperDualVec, wf_col in Hwf; simpl in Hwf; subst; simpl in Hd; pose proof ln2_pos; each_block H fld. Qed.

Lemma faa_Dual_log10 : forall x : Dual R, 0 < (Dual_f_re x) -> forall S, In S idx_Dual ->
  part_Dual (m_log10 x) S = faa (tw3 m_log10 (Dual_f_re x)) (part_Dual x) S.
Proof. intros  x Hd  S H; destruct x as [r ?]; simpl in Hd; pose proof ln10_pos; each_block H fld. Qed.
Lemma faa_Dual2_log10 : forall x : Dual2 R, 0 < (Dual2_f_re x) -> forall S, In S idx_Dual2 ->
  part_Dual2 (m_log10 x) S = faa (tw3 m_log10 (Dual2_f_re x)) (part_Dual2 x) S.
Proof. intros  x Hd  S H; destruct x as [r ? ?]; simpl in Hd; pose proof ln10_pos; each_block H fld. Qed.
Lemma faa_Dual3_log10 : forall x : Dual3 R, 0 < (Dual3_f_re x) -> forall S, In S idx_Dual3 ->
  part_Dual3 (m_log10 x) S = faa (tw3 m_log10 (Dual3_f_re x)) (part_Dual3 x) S.
Proof. intros  x Hd  S H; destruct x as [r ? ? ?]; simpl in Hd; pose proof ln10_pos; each_block H fld. Qed.
Lemma faa_HyperDual_log10 : forall x : HyperDual R, 0 < (HyperDual_f_re x) -> forall S, In S idx_HyperDual ->
  part_HyperDual (m_log10 x) S = faa (tw3 m_log10 (HyperDual_f_re x)) (part_HyperDual x) S.
Proof. intros  x Hd  S H; destruct x as [r ? ? ?]; simpl in Hd; pose proof ln10_pos; each_block H fld. Qed.
Lemma faa_HyperHyperDual_log10 : forall x : HyperHyperDual R, 0 < (HyperHyperDual_f_re x) -> forall S, In S idx_HHD ->
  part_HHD (m_log10 x) S = faa (tw3 m_log10 (HyperHyperDual_f_re x)) (part_HHD x) S.
Proof. intros  x Hd  S H; destruct x as [r ? ? ? ? ? ? ?]; simpl in Hd; pose proof ln10_pos; each_block H fld. Qed.
Lemma faa_DualVec_log10 : forall i, forall x : DualVec R, 0 < (DualVec_f_re x) -> forall S, In S (idx_DualVec i) ->
  part_DualVec (m_log10 x) S = faa (tw3 m_log10 (DualVec_f_re x)) (part_DualVec x) S.
Proof. intros i x Hd  S H; destruct x as [r [[?|]]]; dmat; simpl in Hd; pose proof ln10_pos; each_block H fld. Qed.
Lemma faa_Dual2Vec_log10 : forall i j, forall x : Dual2Vec R, 0 < (Dual2Vec_f_re x) -> wf_Dual2Vec x -> forall S, In S (idx_Dual2Vec i j) ->
  part_Dual2Vec (m_log10 x) S = faa (tw3 m_log10 (Dual2Vec_f_re x)) (part_Dual2Vec x) S.
Proof. intros i j x Hd Hwf S H; destruct x as [r [[?|]] [[?|]]]; dmat; unfold wf_Dual2Vec, wf_row in Hwf; simpl in Hwf; subst; simpl in Hd; pose proof ln10_pos; each_block H fld. Qed.
Lemma faa_HyperDualVec_log10 : forall i j, forall x : HyperDualVec R, 0 < (HyperDualVec_f_re x) -> wf_HyperDualVec x -> forall S, In S (idx_HyperDualVec i j) ->
  part_HyperDualVec (m_log10 x) S = faa (tw3 m_log10 (HyperDualVec_f_re x)) (part_HyperDualVec x) S.
Proof. intros i j x Hd Hwf S H; destruct x as [r [[?|]] [[?|]] [[?|]]]; dmat; unfold wf_HyperDualVec, wf_col in Hwf; simpl in Hwf; subst; simpl in Hd; pose proof ln10_pos; each_block H fld. Qed.

Lemma faa_Dual_ln_1p : forall x : Dual R, -1 < (Dual_f_re x) -> forall S, In S idx_Dual ->
  part_Dual (m_ln_1p x) S = faa (tw3 m_ln_1p (Dual_f_re x)) (part_Dual x) S.
Proof. intros  x Hd  S H; destruct x as [r ?]; simpl in Hd;  each_block H fld. Qed.
Lemma faa_Dual2_ln_1p : forall x : Dual2 R, -1 < (Dual2_f_re x) -> forall S, In S idx_Dual2 ->
  part_Dual2 (m_ln_1p x) S = faa (tw3 m_ln_1p (Dual2_f_re x)) (part_Dual2 x) S.
Proof. intros  x Hd  S H; destruct x as [r ? ?]; simpl in Hd;  each_block H fld. Qed.
Lemma faa_Dual3_ln_1p : forall x : Dual3 R, -1 < (Dual3_f_re x) -> forall S, In S idx_Dual3 ->
  part_Dual3 (m_ln_1p x) S = faa (tw3 m_ln_1p (Dual3_f_re x)) (part_Dual3 x) S.
Proof. intros  x Hd  S H; destruct x as [r ? ? ?]; simpl in Hd;  each_block H fld. Qed.
Lemma faa_HyperDual_ln_1p : forall x : HyperDual R, -1 < (HyperDual_f_re x) -> forall S, In S idx_HyperDual ->
  part_HyperDual (m_ln_1p x) S = faa (tw3 m_ln_1p (HyperDual_f_re x)) (part_HyperDual x) S.
Proof. intros  x Hd  S H; destruct x as [r ? ? ?]; simpl in Hd;  each_block H fld. Qed.
Lemma faa_HyperHyperDual_ln_1p : forall x : HyperHyperDual R, -1 < (HyperHyperDual_f_re x) -> forall S, In S idx_HHD ->
  part_HHD (m_ln_1p x) S = faa (tw3 m_ln_1p (HyperHyperDual_f_re x)) (part_HHD x) S.
Proof. intros  x Hd  S H; destruct x as [r ? ? ? ? ? ? ?]; simpl in Hd;  each_block H fld. Qed.
Lemma faa_DualVec_ln_1p : forall i, forall x : DualVec R, -1 < (DualVec_f_re x) -> forall S, In S (idx_DualVec i) ->
  part_DualVec (m_ln_1p x) S = faa (tw3 m_ln_1p (DualVec_f_re x)) (part_DualVec x) S.
Proof. intros i x Hd  S H; destruct x as [r [[?|]]]; dmat; simpl in Hd;  each_block H fld. Qed.
Lemma faa_Dual2Vec_ln_1p : forall i j, forall x : Dual2Vec R, -1 < (Dual2Vec_f_re x) -> wf_Dual2Vec x -> forall S, In S (idx_Dual2Vec i j) ->
  part_Dual2Vec (m_ln_1p x) S = faa (tw3 m_ln_1p (Dual2Vec_f_re x)) (part_Dual2Vec x) S.
Proof. intros i j x Hd Hwf S H; destruct x as [r [[?|]] [[?|]]]; dmat; unfold wf_Dual2Vec, wf_row in Hwf; simpl in Hwf; subst; simpl in Hd;  each_block H fld. Qed.
Lemma faa_HyperDualVec_ln_1p : forall i j, forall x : HyperDualVec R, -1 < (HyperDualVec_f_re x) -> wf_HyperDualVec x -> forall S, In S (idx_HyperDualVec i j) ->
  part_HyperDualVec (m_ln_1p x) S = faa (tw3 m_ln_1p (HyperDualVec_f_re x)) (part_HyperDualVec x) S.
Proof. intros i j x Hd Hwf S H; destruct x as [r [[?|]] [[?|]] [[?|]]]; dmat; unfold wf_HyperDualVec, wf_col in Hwf; simpl in Hwf; subst; simpl in Hd;  each_block H fld. Qed.

Lemma faa_Dual_sin : forall x : Dual R, forall S, In S idx_Dual ->
  part_Dual (m_sin x) S = faa (tw3 m_sin (Dual_f_re x)) (part_Dual x) S.
Proof. intros  x   S H; destruct x as [r ?];   each_block H fld. Qed.
Lemma faa_Dual2_sin : forall x : Dual2 R, forall S, In S idx_Dual2 ->
  part_Dual2 (m_sin x) S = faa (tw3 m_sin (Dual2_f_re x)) (part_Dual2 x) S.
Proof. intros  x   S H; destruct x as [r ? ?];   each_block H fld. Qed.
Lemma faa_Dual3_sin : forall x : Dual3 R, forall S, In S idx_Dual3 ->
  part_Dual3 (m_sin x) S = faa (tw3 m_sin (Dual3_f_re x)) (part_Dual3 x) S.
Proof. intros  x   S H; destruct x as [r ? ? ?];   each_block H fld. Qed.
Lemma faa_HyperDual_sin : forall x : HyperDual R, forall S, In S idx_HyperDual ->
  part_HyperDual (m_sin x) S = faa (tw3 m_sin (HyperDual_f_re x)) (part_HyperDual x) S.
Proof. intros  x   S H; destruct x as [r ? ? ?];   each_block H fld. Qed.
Lemma faa_HyperHyperDual_sin : forall x : HyperHyperDual R, forall S, In S idx_HHD ->
  part_HHD (m_sin x) S = faa (tw3 m_sin (HyperHyperDual_f_re x)) (part_HHD x) S.
Proof. intros  x   S H; destruct x as [r ? ? ? ? ? ? ?];   each_block H fld. Qed.
Lemma faa_DualVec_sin : forall i, forall x : DualVec R, forall S, In S (idx_DualVec i) ->
  part_DualVec (m_sin x) S = faa (tw3 m_sin (DualVec_f_re x)) (part_DualVec x) S.
Proof. intros i x   S H; destruct x as [r [[?|]]]; dmat;   each_block H fld. Qed.
Lemma faa_Dual2Vec_sin : forall i j, forall x : Dual2Vec R, wf_Dual2Vec x -> forall S, In S (idx_Dual2Vec i j) ->
  part_Dual2Vec (m_sin x) S = faa (tw3 m_sin (Dual2Vec_f_re x)) (part_Dual2Vec x) S.
Proof. intros i j x  Hwf S H; destruct x as [r [[?|]] [[?|]]]; dmat; unfold wf_Dual2Vec, wf_row in Hwf; simpl in Hwf; subst;   each_block H fld. Qed.
Lemma faa_HyperDualVec_sin : forall i j, forall x : HyperDualVec R, wf_HyperDualVec x -> forall S, In S (idx_HyperDualVec i j) ->
  part_HyperDualVec (m_sin x) S = faa (tw3 m_sin (HyperDualVec_f_re x)) (part_HyperDualVec x) S.
Proof. intros i j x  Hwf S H; destruct x as [r [[?|]] [[?|]] [[?|]]]; dmat; unfold wf_HyperDualVec, wf_col in Hwf; simpl in Hwf; subst;   each_block H fld. Qed.

Lemma faa_Dual_cos : forall x : Dual R, forall S, In S idx_Dual ->
  part_Dual (m_cos x) S = faa (tw3 m_cos (Dual_f_re x)) (part_Dual x) S.
Proof. intros  x   S H; destruct x as [r ?];   each_block H fld. Qed.
Lemma faa_Dual2_cos : forall x : Dual2 R, forall S, In S idx_Dual2 ->
  part_Dual2 (m_cos x) S = faa (tw3 m_cos (Dual2_f_re x)) (part_Dual2 x) S.
Proof. intros  x   S H; destruct x as [r ? ?];   each_block H fld. Qed.
Lemma faa_Dual3_cos : forall x : Dual3 R, forall S, In S idx_Dual3 ->
  part_Dual3 (m_cos x) S = faa (tw3 m_cos (Dual3_f_re x)) (part_Dual3 x) S.
Proof. intros  x   S H; destruct x as [r ? ? ?];   each_block H fld. Qed.
Lemma faa_HyperDual_cos : forall x : HyperDual R, forall S, In S idx_HyperDual ->
  part_HyperDual (m_cos x) S = faa (tw3 m_cos (HyperDual_f_re x)) (part_HyperDual x) S.
Proof. intros  x   S H; destruct x as [r ? ? ?];   each_block H fld. Qed.
Lemma faa_HyperHyperDual_cos : forall x : HyperHyperDual R, forall S, In S idx_HHD ->
  part_HHD (m_cos x) S = faa (tw3 m_cos (HyperHyperDual_f_re x)) (part_HHD x) S.
Proof. intros  x   S H; destruct x as [r ? ? ? ? ? ? ?];   each_block H fld. Qed.
Lemma faa_DualVec_cos : forall i, forall x : DualVec R, forall S, In S (idx_DualVec i) ->
  part_DualVec (m_cos x) S = faa (tw3 m_cos (DualVec_f_re x)) (part_DualVec x) S.
Proof. intros i x   S H; destruct x as [r [[?|]]]; dmat;   each_block H fld. Qed.
Lemma faa_Dual2Vec_cos : forall i j, forall x : Dual2Vec R, wf_Dual2Vec x -> forall S, In S (idx_Dual2Vec i j) ->
  part_Dual2Vec (m_cos x) S = faa (tw3 m_cos (Dual2Vec_f_re x)) (part_Dual2Vec x) S.
Proof. intros i j x  Hwf S H; destruct x as [r [[?|]] [[?|]]]; dmat; unfold wf_Dual2Vec, wf_row in Hwf; simpl in Hwf; subst;   each_block H fld. Qed.
Lemma faa_HyperDualVec_cos : forall i j, forall x : HyperDualVec R, wf_HyperDualVec x -> forall S, In S (idx_HyperDualVec i j) ->
  part_HyperDualVec (m_cos x) S = faa (tw3 m_cos (HyperDualVec_f_re x)) (part_HyperDualVec x) S.
Proof. intros i j x  Hwf S H; destruct x as [r [[?|]] [[?|]] [[?|]]]; dmat; unfold wf_HyperDualVec, wf_col in Hwf; simpl in Hwf; subst;   each_block H fld. Qed.

Lemma faa_Dual_tan : forall x : Dual R, cos (Dual_f_re x) <> 0 -> forall S, In S idx_Dual ->
  part_Dual (m_tan x) S = faa (tw3 m_tan (Dual_f_re x)) (part_Dual x) S.
Proof. intros  x Hd  S H; destruct x as [r ?]; simpl in Hd;  each_block H fld. Qed.
Lemma faa_Dual2_tan : forall x : Dual2 R, cos (Dual2_f_re x) <> 0 -> forall S, In S idx_Dual2 ->
  part_Dual2 (m_tan x) S = faa (tw3 m_tan (Dual2_f_re x)) (part_Dual2 x) S.
Proof. intros  x Hd  S H; destruct x as [r ? ?]; simpl in Hd;  each_block H fld. Qed.
Lemma faa_Dual3_tan : forall x : Dual3 R, cos (Dual3_f_re x) <> 0 -> forall S, In S idx_Dual3 ->
  part_Dual3 (m_tan x) S = faa (tw3 m_tan (Dual3_f_re x)) (part_Dual3 x) S.
Proof. intros  x Hd  S H; destruct x as [r ? ? ?]; simpl in Hd;  each_block H fld. Qed.
Lemma faa_HyperDual_tan : forall x : HyperDual R, cos (HyperDual_f_re x) <> 0 -> forall S, In S idx_HyperDual ->
  part_HyperDual (m_tan x) S = faa (tw3 m_tan (HyperDual_f_re x)) (part_HyperDual x) S.
Proof. intros  x Hd  S H; destruct x as [r ? ? ?]; simpl in Hd;  each_block H fld. Qed.
Lemma faa_HyperHyperDual_tan : forall x : HyperHyperDual R, cos (HyperHyperDual_f_re x) <> 0 -> forall S, In S idx_HHD ->
  part_HHD (m_tan x) S = faa (tw3 m_tan (HyperHyperDual_f_re x)) (part_HHD x) S.
Proof. intros  x Hd  S H; destruct x as [r ? ? ? ? ? ? ?]; simpl in Hd;  each_block H fld. Qed.
Lemma faa_DualVec_tan : forall i, forall x : DualVec R, cos (DualVec_f_re x) <> 0 -> forall S, In S (idx_DualVec i) ->
  part_DualVec (m_tan x) S = faa (tw3 m_tan (DualVec_f_re x)) (part_DualVec x) S.
Proof. intros i x Hd  S H; destruct x as [r [[?|]]]; dmat; simpl in Hd;  each_block H fld. Qed.
Lemma faa_Dual2Vec_tan : forall i j, forall x : Dual2Vec R, cos (Dual2Vec_f_re x) <> 0 -> wf_Dual2Vec x -> forall S, In S (idx_Dual2Vec i j) ->
  part_Dual2Vec (m_tan x) S = faa (tw3 m_tan (Dual2Vec_f_re x)) (part_Dual2Vec x) S.
Proof. intros i j x Hd Hwf S H; destruct x as [r [[?|]] [[?|]]]; dmat; unfold wf_Dual2Vec, wf_row in Hwf; simpl in Hwf; subst; simpl in Hd;  each_block H fld. Qed.
Lemma faa_HyperDualVec_tan : forall i j, forall x : HyperDualVec R, cos (HyperDualVec_f_re x) <> 0 -> wf_HyperDualVec x -> forall S, In S (idx_HyperDualVec i j) ->
  part_HyperDualVec (m_tan x) S = faa (tw3 m_tan (HyperDualVec_f_re x)) (part_HyperDualVec x) S.
Proof. intros i j x Hd Hwf S H; destruct x as [r [[?|]] [[?|]] [[?|]]]; dmat; unfold wf_HyperDualVec, wf_col in Hwf; simpl in Hwf; subst; simpl in Hd;  each_block H fld. Qed.

Lemma faa_Dual_asin : forall x : Dual R, -1 < (Dual_f_re x) < 1 -> forall S, In S idx_Dual ->
  part_Dual (m_asin x) S = faa (tw3 m_asin (Dual_f_re x)) (part_Dual x) S.
Proof. intros  x Hd  S H; destruct x as [r ?]; simpl in Hd;  each_block H fld. Qed.
Lemma faa_Dual2_asin : forall x : Dual2 R, -1 < (Dual2_f_re x) < 1 -> forall S, In S idx_Dual2 ->
  part_Dual2 (m_asin x) S = faa (tw3 m_asin (Dual2_f_re x)) (part_Dual2 x) S.
Proof. intros  x Hd  S H; destruct x as [r ? ?]; simpl in Hd;  each_block H fld. Qed.
Lemma faa_Dual3_asin : forall x : Dual3 R, -1 < (Dual3_f_re x) < 1 -> forall S, In S idx_Dual3 ->
  part_Dual3 (m_asin x) S = faa (tw3 m_asin (Dual3_f_re x)) (part_Dual3 x) S.
Proof. intros  x Hd  S H; destruct x as [r ? ? ?]; simpl in Hd;  each_block H fld. Qed.
Lemma faa_HyperDual_asin : forall x : HyperDual R, -1 < (HyperDual_f_re x) < 1 -> forall S, In S idx_HyperDual ->
  part_HyperDual (m_asin x) S = faa (tw3 m_asin (HyperDual_f_re x)) (part_HyperDual x) S.
Proof. intros  x Hd  S H; destruct x as [r ? ? ?]; simpl in Hd;  each_block H fld. Qed.
Lemma faa_HyperHyperDual_asin : forall x : HyperHyperDual R, -1 < (HyperHyperDual_f_re x) < 1 -> forall S, In S idx_HHD ->
  part_HHD (m_asin x) S = faa (tw3 m_asin (HyperHyperDual_f_re x)) (part_HHD x) S.
Proof. intros  x Hd  S H; destruct x as [r ? ? ? ? ? ? ?]; simpl in Hd;  each_block H fld. Qed.
Lemma faa_DualVec_asin : forall i, forall x : DualVec R, -1 < (DualVec_f_re x) < 1 -> forall S, In S (idx_DualVec i) ->
  part_DualVec (m_asin x) S = faa (tw3 m_asin (DualVec_f_re x)) (part_DualVec x) S.
Proof. intros i x Hd  S H; destruct x as [r [[?|]]]; dmat; simpl in Hd;  each_block H fld. Qed.
Lemma faa_Dual2Vec_asin : forall i j, forall x : Dual2Vec R, -1 < (Dual2Vec_f_re x) < 1 -> wf_Dual2Vec x -> forall S, In S (idx_Dual2Vec i j) ->
  part_Dual2Vec (m_asin x) S = faa (tw3 m_asin (Dual2Vec_f_re x)) (part_Dual2Vec x) S.
Proof. intros i j x Hd Hwf S H; destruct x as [r [[?|]] [[?|]]]; dmat; unfold wf_Dual2Vec, wf_row in Hwf; simpl in Hwf; subst; simpl in Hd;  each_block H fld. Qed.
Lemma faa_HyperDualVec_asin : forall i j, forall x : HyperDualVec R, -1 < (HyperDualVec_f_re x) < 1 -> wf_HyperDualVec x -> forall S, In S (idx_HyperDualVec i j) ->
  part_HyperDualVec (m_asin x) S = faa (tw3 m_asin (HyperDualVec_f_re x)) (part_HyperDualVec x) S.
Proof. intros i j x Hd Hwf S H; destruct x as [r [[?|]] [[?|]] [[?|]]]; dmat; unfold wf_HyperDualVec, wf_col in Hwf; simpl in Hwf; subst; simpl in Hd;  each_block H fld. Qed.

Lemma faa_Dual_acos : forall x : Dual R, -1 < (Dual_f_re x) < 1 -> forall S, In S idx_Dual ->
  part_Dual (m_acos x) S = faa (tw3 m_acos (Dual_f_re x)) (part_Dual x) S.
Proof. intros  x Hd  S H; destruct x as [r ?]; simpl in Hd;  each_block H fld. Qed.
Lemma faa_Dual2_acos : forall x : Dual2 R, -1 < (Dual2_f_re x) < 1 -> forall S, In S idx_Dual2 ->
  part_Dual2 (m_acos x) S = faa (tw3 m_acos (Dual2_f_re x)) (part_Dual2 x) S.
Proof. intros  x Hd  S H; destruct x as [r ? ?]; simpl in Hd;  each_block H fld. Qed.
Lemma faa_Dual3_acos : forall x : Dual3 R, -1 < (Dual3_f_re x) < 1 -> forall S, In S idx_Dual3 ->
  part_Dual3 (m_acos x) S = faa (tw3 m_acos (Dual3_f_re x)) (part_Dual3 x) S.
Proof. intros  x Hd  S H; destruct x as [r ? ? ?]; simpl in Hd;  each_block H fld. Qed.
Lemma faa_HyperDual_acos : forall x : HyperDual R, -1 < (HyperDual_f_re x) < 1 -> forall S, In S idx_HyperDual ->
  part_HyperDual (m_acos x) S = faa (tw3 m_acos (HyperDual_f_re x)) (part_HyperDual x) S.
Proof. intros  x Hd  S H; destruct x as [r ? ? ?]; simpl in Hd;  each_block H fld. Qed.
Lemma faa_HyperHyperDual_acos : forall x : HyperHyperDual R, -1 < (HyperHyperDual_f_re x) < 1 -> forall S, In S idx_HHD ->
  part_HHD (m_acos x) S = faa (tw3 m_acos (HyperHyperDual_f_re x)) (part_HHD x) S.
Proof. intros  x Hd  S H; destruct x as [r ? ? ? ? ? ? ?]; simpl in Hd;  each_block H fld. Qed.
Lemma faa_DualVec_acos : forall i, forall x : DualVec R, -1 < (DualVec_f_re x) < 1 -> forall S, In S (idx_DualVec i) ->
  part_DualVec (m_acos x) S = faa (tw3 m_acos (DualVec_f_re x)) (part_DualVec x) S.
Proof. intros i x Hd  S H; destruct x as [r [[?|]]]; dmat; simpl in Hd;  each_block H fld. Qed.
Lemma faa_Dual2Vec_acos : forall i j, forall x : Dual2Vec R, -1 < (Dual2Vec_f_re x) < 1 -> wf_Dual2Vec x -> forall S, In S (idx_Dual2Vec i j) ->
  part_Dual2Vec (m_acos x) S = faa (tw3 m_acos (Dual2Vec_f_re x)) (part_Dual2Vec x) S.
Proof. intros i j x Hd Hwf S H; destruct x as [r [[?|]] [[?|]]]; dmat; unfold wf_Dual2Vec, wf_row in Hwf; simpl in Hwf; subst; simpl in Hd;  each_block H fld. Qed.
Lemma faa_HyperDualVec_acos : forall i j, forall x : HyperDualVec R, -1 < (HyperDualVec_f_re x) < 1 -> wf_HyperDualVec x -> forall S, In S (idx_HyperDualVec i j) ->
  part_HyperDualVec (m_acos x) S = faa (tw3 m_acos (HyperDualVec_f_re x)) (part_HyperDualVec x) S.
Proof. intros i j x Hd Hwf S H; destruct x as [r [[?|]] [[?|]] [[?|]]]; dmat; unfold wf_HyperDualVec, wf_col in Hwf; simpl in Hwf; subst; simpl in Hd;  each_block H fld. Qed.

Lemma faa_Dual_atan : forall x : Dual R, forall S, In S idx_Dual ->
  part_Dual (m_atan x) S = faa (tw3 m_atan (Dual_f_re x)) (part_Dual x) S.
Proof. intros  x   S H; destruct x as [r ?];   each_block H fld. Qed.
Lemma faa_Dual2_atan : forall x : Dual2 R, forall S, In S idx_Dual2 ->
  part_Dual2 (m_atan x) S = faa (tw3 m_atan (Dual2_f_re x)) (part_Dual2 x) S.
Proof. intros  x   S H; destruct x as [r ? ?];   each_block H fld. Qed.
Lemma faa_Dual3_atan : forall x : Dual3 R, forall S, In S idx_Dual3 ->
  part_Dual3 (m_atan x) S = faa (tw3 m_atan (Dual3_f_re x)) (part_Dual3 x) S.
Proof. intros  x   S H; destruct x as [r ? ? ?];   each_block H fld. Qed.
Lemma faa_HyperDual_atan : forall x : HyperDual R, forall S, In S idx_HyperDual ->
  part_HyperDual (m_atan x) S = faa (tw3 m_atan (HyperDual_f_re x)) (part_HyperDual x) S.
Proof. intros  x   S H; destruct x as [r ? ? ?];   each_block H fld. Qed.
Lemma faa_HyperHyperDual_atan : forall x : HyperHyperDual R, forall S, In S idx_HHD ->
  part_HHD (m_atan x) S = faa (tw3 m_atan (HyperHyperDual_f_re x)) (part_HHD x) S.
Proof. intros  x   S H; destruct x as [r ? ? ? ? ? ? ?];   each_block H fld. Qed.
Lemma faa_DualVec_atan : forall i, forall x : DualVec R, forall S, In S (idx_DualVec i) ->
  part_DualVec (m_atan x) S = faa (tw3 m_atan (DualVec_f_re x)) (part_DualVec x) S.
Proof. intros i x   S H; destruct x as [r [[?|]]]; dmat;   each_block H fld. Qed.
Lemma faa_Dual2Vec_atan : forall i j, forall x : Dual2Vec R, wf_Dual2Vec x -> forall S, In S (idx_Dual2Vec i j) ->
  part_Dual2Vec (m_atan x) S = faa (tw3 m_atan (Dual2Vec_f_re x)) (part_Dual2Vec x) S.
Proof. intros i j x  Hwf S H; destruct x as [r [[?|]] [[?|]]]; dmat; unfold wf_Dual2Vec, wf_row in Hwf; simpl in Hwf; subst;   each_block H fld. Qed.
Lemma faa_HyperDualVec_atan : forall i j, forall x : HyperDualVec R, wf_HyperDualVec x -> forall S, In S (idx_HyperDualVec i j) ->
  part_HyperDualVec (m_atan x) S = faa (tw3 m_atan (HyperDualVec_f_re x)) (part_HyperDualVec x) S.
Proof. intros i j x  Hwf S H; destruct x as [r [[?|]] [[?|]] [[?|]]]; dmat; unfold wf_HyperDualVec, wf_col in Hwf; simpl in Hwf; subst;   each_block H fld. Qed.

Lemma faa_Dual_sinh : forall x : Dual R, forall S, In S idx_Dual ->
  part_Dual (m_sinh x) S = faa (tw3 m_sinh (Dual_f_re x)) (part_Dual x) S.
Proof. intros  x   S H; destruct x as [r ?];   each_block H fld. Qed.
Lemma faa_Dual2_sinh : forall x : Dual2 R, forall S, In S idx_Dual2 ->
  part_Dual2 (m_sinh x) S = faa (tw3 m_sinh (Dual2_f_re x)) (part_Dual2 x) S.
Proof. intros  x   S H; destruct x as [r ? ?];   each_block H fld. Qed.
Lemma faa_Dual3_sinh : forall x : Dual3 R, forall S, In S idx_Dual3 ->
  part_Dual3 (m_sinh x) S = faa (tw3 m_sinh (Dual3_f_re x)) (part_Dual3 x) S.
Proof. intros  x   S H; destruct x as [r ? ? ?];   each_block H fld. Qed.
Lemma faa_HyperDual_sinh : forall x : HyperDual R, forall S, In S idx_HyperDual ->
  part_HyperDual (m_sinh x) S = faa (tw3 m_sinh (HyperDual_f_re x)) (part_HyperDual x) S.
Proof. intros  x   S H; destruct x as [r ? ? ?];   each_block H fld. Qed.
Lemma faa_HyperHyperDual_sinh : forall x : HyperHyperDual R, forall S, In S idx_HHD ->
  part_HHD (m_sinh x) S = faa (tw3 m_sinh (HyperHyperDual_f_re x)) (part_HHD x) S.
Proof. intros  x   S H; destruct x as [r ? ? ? ? ? ? ?];   each_block H fld. Qed.
Lemma faa_DualVec_sinh : forall i, forall x : DualVec R, forall S, In S (idx_DualVec i) ->
  part_DualVec (m_sinh x) S = faa (tw3 m_sinh (DualVec_f_re x)) (part_DualVec x) S.
Proof. intros i x   S H; destruct x as [r [[?|]]]; dmat;   each_block H fld. Qed.
Lemma faa_Dual2Vec_sinh : forall i j, forall x : Dual2Vec R, wf_Dual2Vec x -> forall S, In S (idx_Dual2Vec i j) ->
  part_Dual2Vec (m_sinh x) S = faa (tw3 m_sinh (Dual2Vec_f_re x)) (part_Dual2Vec x) S.
Proof. intros i j x  Hwf S H; destruct x as [r [[?|]] [[?|]]]; dmat; unfold wf_Dual2Vec, wf_row in Hwf; simpl in Hwf; subst;   each_block H fld. Qed.
Lemma faa_HyperDualVec_sinh : forall i j, forall x : HyperDualVec R, wf_HyperDualVec x -> forall S, In S (idx_HyperDualVec i j) ->
  part_HyperDualVec (m_sinh x) S = faa (tw3 m_sinh (HyperDualVec_f_re x)) (part_HyperDualVec x) S.
Proof. intros i j x  Hwf S H; destruct x as [r [[?|]] [[?|]] [[?|]]]; dmat; unfold wf_HyperDualVec, wf_col in Hwf; simpl in Hwf; subst;   each_block H fld. Qed.

Lemma faa_Dual_cosh : forall x : Dual R, forall S, In S idx_Dual ->
  part_Dual (m_cosh x) S = faa (tw3 m_cosh (Dual_f_re x)) (part_Dual x) S.
Proof. intros  x   S H; destruct x as [r ?];   each_block H fld. Qed.
Lemma faa_Dual2_cosh : forall x : Dual2 R, forall S, In S idx_Dual2 ->
  part_Dual2 (m_cosh x) S = faa (tw3 m_cosh (Dual2_f_re x)) (part_Dual2 x) S.
Proof. intros  x   S H; destruct x as [r ? ?];   each_block H fld. Qed.
Lemma faa_Dual3_cosh : forall x : Dual3 R, forall S, In S idx_Dual3 ->
  part_Dual3 (m_cosh x) S = faa (tw3 m_cosh (Dual3_f_re x)) (part_Dual3 x) S.
Proof. intros  x   S H; destruct x as [r ? ? ?];   each_block H fld. Qed.
Lemma faa_HyperDual_cosh : forall x : HyperDual R, forall S, In S idx_HyperDual ->
  part_HyperDual (m_cosh x) S = faa (tw3 m_cosh (HyperDual_f_re x)) (part_HyperDual x) S.
Proof. intros  x   S H; destruct x as [r ? ? ?];   each_block H fld. Qed.
Lemma faa_HyperHyperDual_cosh : forall x : HyperHyperDual R, forall S, In S idx_HHD ->
  part_HHD (m_cosh x) S = faa (tw3 m_cosh (HyperHyperDual_f_re x)) (part_HHD x) S.
Proof. intros  x   S H; destruct x as [r ? ? ? ? ? ? ?];   each_block H fld. Qed.
Lemma faa_DualVec_cosh : forall i, forall x : DualVec R, forall S, In S (idx_DualVec i) ->
  part_DualVec (m_cosh x) S = faa (tw3 m_cosh (DualVec_f_re x)) (part_DualVec x) S.
Proof. intros i x   S H; destruct x as [r [[?|]]]; dmat;   each_block H fld. Qed.
Lemma faa_Dual2Vec_cosh : forall i j, forall x : Dual2Vec R, wf_Dual2Vec x -> forall S, In S (idx_Dual2Vec i j) ->
  part_Dual2Vec (m_cosh x) S = faa (tw3 m_cosh (Dual2Vec_f_re x)) (part_Dual2Vec x) S.
Proof. intros i j x  Hwf S H; destruct x as [r [[?|]] [[?|]]]; dmat; unfold wf_Dual2Vec, wf_row in Hwf; simpl in Hwf; subst;   each_block H fld. Qed.
Lemma faa_HyperDualVec_cosh : forall i j, forall x : HyperDualVec R, wf_HyperDualVec x -> forall S, In S (idx_HyperDualVec i j) ->
  part_HyperDualVec (m_cosh x) S = faa (tw3 m_cosh (HyperDualVec_f_re x)) (part_HyperDualVec x) S.
Proof. intros i j x  Hwf S H; destruct x as [r [[?|]] [[?|]] [[?|]]]; dmat; unfold wf_HyperDualVec, wf_col in Hwf; simpl in Hwf; subst;   each_block H fld. Qed.

Lemma faa_Dual_tanh : forall x : Dual R, forall S, In S idx_Dual ->
  part_Dual (m_tanh x) S = faa (tw3 m_tanh (Dual_f_re x)) (part_Dual x) S.
Proof. intros  x   S H; destruct x as [r ?];  pose proof (cosh_pos r); each_block H fld. Qed.
Lemma faa_Dual2_tanh : forall x : Dual2 R, forall S, In S idx_Dual2 ->
  part_Dual2 (m_tanh x) S = faa (tw3 m_tanh (Dual2_f_re x)) (part_Dual2 x) S.
Proof. intros  x   S H; destruct x as [r ? ?];  pose proof (cosh_pos r); each_block H fld. Qed.
Lemma faa_Dual3_tanh : forall x : Dual3 R, forall S, In S idx_Dual3 ->
  part_Dual3 (m_tanh x) S = faa (tw3 m_tanh (Dual3_f_re x)) (part_Dual3 x) S.
Proof. intros  x   S H; destruct x as [r ? ? ?];  pose proof (cosh_pos r); each_block H fld. Qed.
Lemma faa_HyperDual_tanh : forall x : HyperDual R, forall S, In S idx_HyperDual ->
  part_HyperDual (m_tanh x) S = faa (tw3 m_tanh (HyperDual_f_re x)) (part_HyperDual x) S.
Proof. intros  x   S H; destruct x as [r ? ? ?];  pose proof (cosh_pos r); each_block H fld. Qed.
Lemma faa_HyperHyperDual_tanh : forall x : HyperHyperDual R, forall S, In S idx_HHD ->
  part_HHD (m_tanh x) S = faa (tw3 m_tanh (HyperHyperDual_f_re x)) (part_HHD x) S.
Proof. intros  x   S H; destruct x as [r ? ? ? ? ? ? ?];  pose proof (cosh_pos r); each_block H fld. Qed.
Lemma faa_DualVec_tanh : forall i, forall x : DualVec R, forall S, In S (idx_DualVec i) ->
  part_DualVec (m_tanh x) S = faa (tw3 m_tanh (DualVec_f_re x)) (part_DualVec x) S.
Proof. intros i x   S H; destruct x as [r [[?|]]]; dmat;  pose proof (cosh_pos r); each_block H fld. Qed.
Lemma faa_Dual2Vec_tanh : forall i j, forall x : Dual2Vec R, wf_Dual2Vec x -> forall S, In S (idx_Dual2Vec i j) ->
  part_Dual2Vec (m_tanh x) S = faa (tw3 m_tanh (Dual2Vec_f_re x)) (part_Dual2Vec x) S.
Proof. intros i j x  Hwf S H; destruct x as [r [[?|]] [[?|]]]; dmat; unfold wf_Dual2Vec, wf_row in Hwf; simpl in Hwf; subst;  pose proof (cosh_pos r); each_block H fld. Qed.
Lemma faa_HyperDualVec_tanh : forall i j, forall x : HyperDualVec R, wf_HyperDualVec x -> forall S, In S (idx_HyperDualVec i j) ->
  part_HyperDualVec (m_tanh x) S = faa (tw3 m_tanh (HyperDualVec_f_re x)) (part_HyperDualVec x) S.
Proof. intros i j x  Hwf S H; destruct x as [r [[?|]] [[?|]] [[?|]]]; dmat; unfold wf_HyperDualVec, wf_col in Hwf; simpl in Hwf; subst;  pose proof (cosh_pos r); each_block H fld. Qed.

Lemma faa_Dual_asinh : forall x : Dual R, forall S, In S idx_Dual ->
  part_Dual (m_asinh x) S = faa (tw3 m_asinh (Dual_f_re x)) (part_Dual x) S.
Proof. intros  x   S H; destruct x as [r ?];   each_block H fld. Qed.
Lemma faa_Dual2_asinh : forall x : Dual2 R, forall S, In S idx_Dual2 ->
  part_Dual2 (m_asinh x) S = faa (tw3 m_asinh (Dual2_f_re x)) (part_Dual2 x) S.
Proof. intros  x   S H; destruct x as [r ? ?];   each_block H fld. Qed.
Lemma faa_Dual3_asinh : forall x : Dual3 R, forall S, In S idx_Dual3 ->
  part_Dual3 (m_asinh x) S = faa (tw3 m_asinh (Dual3_f_re x)) (part_Dual3 x) S.
Proof. intros  x   S H; destruct x as [r ? ? ?];   each_block H fld. Qed.
Lemma faa_HyperDual_asinh : forall x : HyperDual R, forall S, In S idx_HyperDual ->
  part_HyperDual (m_asinh x) S = faa (tw3 m_asinh (HyperDual_f_re x)) (part_HyperDual x) S.
Proof. intros  x   S H; destruct x as [r ? ? ?];   each_block H fld. Qed.
Lemma faa_HyperHyperDual_asinh : forall x : HyperHyperDual R, forall S, In S idx_HHD ->
  part_HHD (m_asinh x) S = faa (tw3 m_asinh (HyperHyperDual_f_re x)) (part_HHD x) S.
Proof. intros  x   S H; destruct x as [r ? ? ? ? ? ? ?];   each_block H fld. Qed.
Lemma faa_DualVec_asinh : forall i, forall x : DualVec R, forall S, In S (idx_DualVec i) ->
  part_DualVec (m_asinh x) S = faa (tw3 m_asinh (DualVec_f_re x)) (part_DualVec x) S.
Proof. intros i x   S H; destruct x as [r [[?|]]]; dmat;   each_block H fld. Qed.
Lemma faa_Dual2Vec_asinh : forall i j, forall x : Dual2Vec R, wf_Dual2Vec x -> forall S, In S (idx_Dual2Vec i j) ->
  part_Dual2Vec (m_asinh x) S = faa (tw3 m_asinh (Dual2Vec_f_re x)) (part_Dual2Vec x) S.
Proof. intros i j x  Hwf S H; destruct x as [r [[?|]] [[?|]]]; dmat; unfold wf_Dual2Vec, wf_row in Hwf; simpl in Hwf; subst;   each_block H fld. Qed.
Lemma faa_HyperDualVec_asinh : forall i j, forall x : HyperDualVec R, wf_HyperDualVec x -> forall S, In S (idx_HyperDualVec i j) ->
  part_HyperDualVec (m_asinh x) S = faa (tw3 m_asinh (HyperDualVec_f_re x)) (part_HyperDualVec x) S.
Proof. intros i j x  Hwf S H; destruct x as [r [[?|]] [[?|]] [[?|]]]; dmat; unfold wf_HyperDualVec, wf_col in Hwf; simpl in Hwf; subst;   each_block H fld. Qed.

Lemma faa_Dual_acosh : forall x : Dual R, 1 < (Dual_f_re x) -> forall S, In S idx_Dual ->
  part_Dual (m_acosh x) S = faa (tw3 m_acosh (Dual_f_re x)) (part_Dual x) S.
Proof. intros  x Hd  S H; destruct x as [r ?]; simpl in Hd;  each_block H fld. Qed.
Lemma faa_Dual2_acosh : forall x : Dual2 R, 1 < (Dual2_f_re x) -> forall S, In S idx_Dual2 ->
  part_Dual2 (m_acosh x) S = faa (tw3 m_acosh (Dual2_f_re x)) (part_Dual2 x) S.
Proof. intros  x Hd  S H; destruct x as [r ? ?]; simpl in Hd;  each_block H fld. Qed.
Lemma faa_Dual3_acosh : forall x : Dual3 R, 1 < (Dual3_f_re x) -> forall S, In S idx_Dual3 ->
  part_Dual3 (m_acosh x) S = faa (tw3 m_acosh (Dual3_f_re x)) (part_Dual3 x) S.
Proof. intros  x Hd  S H; destruct x as [r ? ? ?]; simpl in Hd;  each_block H fld. Qed.
Lemma faa_HyperDual_acosh : forall x : HyperDual R, 1 < (HyperDual_f_re x) -> forall S, In S idx_HyperDual ->
  part_HyperDual (m_acosh x) S = faa (tw3 m_acosh (HyperDual_f_re x)) (part_HyperDual x) S.
Proof. intros  x Hd  S H; destruct x as [r ? ? ?]; simpl in Hd;  each_block H fld. Qed.
Lemma faa_HyperHyperDual_acosh : forall x : HyperHyperDual R, 1 < (HyperHyperDual_f_re x) -> forall S, In S idx_HHD ->
  part_HHD (m_acosh x) S = faa (tw3 m_acosh (HyperHyperDual_f_re x)) (part_HHD x) S.
Proof. intros  x Hd  S H; destruct x as [r ? ? ? ? ? ? ?]; simpl in Hd;  each_block H fld. Qed.
Lemma faa_DualVec_acosh : forall i, forall x : DualVec R, 1 < (DualVec_f_re x) -> forall S, In S (idx_DualVec i) ->
  part_DualVec (m_acosh x) S = faa (tw3 m_acosh (DualVec_f_re x)) (part_DualVec x) S.
Proof. intros i x Hd  S H; destruct x as [r [[?|]]]; dmat; simpl in Hd;  each_block H fld. Qed.
Lemma faa_Dual2Vec_acosh : forall i j, forall x : Dual2Vec R, 1 < (Dual2Vec_f_re x) -> wf_Dual2Vec x -> forall S, In S (idx_Dual2Vec i j) ->
  part_Dual2Vec (m_acosh x) S = faa (tw3 m_acosh (Dual2Vec_f_re x)) (part_Dual2Vec x) S.
Proof. intros i j x Hd Hwf S H; destruct x as [r [[?|]] [[?|]]]; dmat; unfold wf_Dual2Vec, wf_row in Hwf; simpl in Hwf; subst; simpl in Hd;  each_block H fld. Qed.
Lemma faa_HyperDualVec_acosh : forall i j, forall x : HyperDualVec R, 1 < (HyperDualVec_f_re x) -> wf_HyperDualVec x -> forall S, In S (idx_HyperDualVec i j) ->
  part_HyperDualVec (m_acosh x) S = faa (tw3 m_acosh (HyperDualVec_f_re x)) (part_HyperDualVec x) S.
Proof. intros i j x Hd Hwf S H; destruct x as [r [[?|]] [[?|]] [[?|]]]; dmat; unfold wf_HyperDualVec, wf_col in Hwf; simpl in Hwf; subst; simpl in Hd;  each_block H fld. Qed.

Lemma faa_Dual_atanh : forall x : Dual R, -1 < (Dual_f_re x) < 1 -> forall S, In S idx_Dual ->
  part_Dual (m_atanh x) S = faa (tw3 m_atanh (Dual_f_re x)) (part_Dual x) S.
Proof. intros  x Hd  S H; destruct x as [r ?]; simpl in Hd;  each_block H fld. Qed.
Lemma faa_Dual2_atanh : forall x : Dual2 R, -1 < (Dual2_f_re x) < 1 -> forall S, In S idx_Dual2 ->
  part_Dual2 (m_atanh x) S = faa (tw3 m_atanh (Dual2_f_re x)) (part_Dual2 x) S.
Proof. intros  x Hd  S H; destruct x as [r ? ?]; simpl in Hd;  each_block H fld. Qed.
Lemma faa_Dual3_atanh : forall x : Dual3 R, -1 < (Dual3_f_re x) < 1 -> forall S, In S idx_Dual3 ->
  part_Dual3 (m_atanh x) S = faa (tw3 m_atanh (Dual3_f_re x)) (part_Dual3 x) S.
Proof. intros  x Hd  S H; destruct x as [r ? ? ?]; simpl in Hd;  each_block H fld. Qed.
Lemma faa_HyperDual_atanh : forall x : HyperDual R, -1 < (HyperDual_f_re x) < 1 -> forall S, In S idx_HyperDual ->
  part_HyperDual (m_atanh x) S = faa (tw3 m_atanh (HyperDual_f_re x)) (part_HyperDual x) S.
Proof. intros  x Hd  S H; destruct x as [r ? ? ?]; simpl in Hd;  each_block H fld. Qed.
Lemma faa_HyperHyperDual_atanh : forall x : HyperHyperDual R, -1 < (HyperHyperDual_f_re x) < 1 -> forall S, In S idx_HHD ->
  part_HHD (m_atanh x) S = faa (tw3 m_atanh (HyperHyperDual_f_re x)) (part_HHD x) S.
Proof. intros  x Hd  S H; destruct x as [r ? ? ? ? ? ? ?]; simpl in Hd;  each_block H fld. Qed.
Lemma faa_DualVec_atanh : forall i, forall x : DualVec R, -1 < (DualVec_f_re x) < 1 -> forall S, In S (idx_DualVec i) ->
  part_DualVec (m_atanh x) S = faa (tw3 m_atanh (DualVec_f_re x)) (part_DualVec x) S.
Proof. intros i x Hd  S H; destruct x as [r [[?|]]]; dmat; simpl in Hd;  each_block H fld. Qed.
Lemma faa_Dual2Vec_atanh : forall i j, forall x : Dual2Vec R, -1 < (Dual2Vec_f_re x) < 1 -> wf_Dual2Vec x -> forall S, In S (idx_Dual2Vec i j) ->
  part_Dual2Vec (m_atanh x) S = faa (tw3 m_atanh (Dual2Vec_f_re x)) (part_Dual2Vec x) S.
Proof. intros i j x Hd Hwf S H; destruct x as [r [[?|]] [[?|]]]; dmat; unfold wf_Dual2Vec, wf_row in Hwf; simpl in Hwf; subst; simpl in Hd;  each_block H fld. Qed.
Lemma faa_HyperDualVec_atanh : forall i j, forall x : HyperDualVec R, -1 < (HyperDualVec_f_re x) < 1 -> wf_HyperDualVec x -> forall S, In S (idx_HyperDualVec i j) ->
  part_HyperDualVec (m_atanh x) S = faa (tw3 m_atanh (HyperDualVec_f_re x)) (part_HyperDualVec x) S.
Proof. intros i j x Hd Hwf S H; destruct x as [r [[?|]] [[?|]] [[?|]]]; dmat; unfold wf_HyperDualVec, wf_col in Hwf; simpl in Hwf; subst; simpl in Hd;  each_block H fld. Qed.

Lemma faa_Dual_log : forall (base : R) (x : Dual R), 0 < Dual_f_re x -> ln base <> 0 -> forall S, In S idx_Dual ->
  part_Dual (m_log x base) S = faa (tw3 (fun d => m_log d base) (Dual_f_re x)) (part_Dual x) S.
Proof. intros  base x Hd Hb  S H; destruct x as [r ?]; simpl in Hd; each_block H fld. Qed.
Lemma sin_cos_Dual : forall x : Dual R, m_sin_cos x = (m_sin x, m_cos x).
Proof. intros x; reflexivity. Qed.
Lemma abs_Dual : forall x : Dual R, (0 < Dual_f_re x -> m_abs x = x) /\ (Dual_f_re x < 0 -> m_abs x = (- x)%rs).
Proof. intros x; destruct x as [r ?]; simpl; split; intros Hs; rcbv; unfold Rleb; destruct (Rle_dec 0 r); try reflexivity; lra. Qed.
Lemma signum_Dual : forall x : Dual R, (0 < Dual_f_re x -> m_signum x = (Overload.one : Dual R)) /\ (Dual_f_re x < 0 -> m_signum x = (- (Overload.one : Dual R))%rs).
Proof. intros x; destruct x as [r ?]; simpl; split; intros Hs; rcbv; unfold Rleb, Reqb; destruct (Rle_dec 0 r); try reflexivity; try lra; destruct (Req_EM_T r 0); try reflexivity; lra. Qed.

Lemma faa_Dual2_log : forall (base : R) (x : Dual2 R), 0 < Dual2_f_re x -> ln base <> 0 -> forall S, In S idx_Dual2 ->
  part_Dual2 (m_log x base) S = faa (tw3 (fun d => m_log d base) (Dual2_f_re x)) (part_Dual2 x) S.
Proof. intros  base x Hd Hb  S H; destruct x as [r ? ?]; simpl in Hd; each_block H fld. Qed.
Lemma sin_cos_Dual2 : forall x : Dual2 R, m_sin_cos x = (m_sin x, m_cos x).
Proof. intros x; reflexivity. Qed.
Lemma abs_Dual2 : forall x : Dual2 R, (0 < Dual2_f_re x -> m_abs x = x) /\ (Dual2_f_re x < 0 -> m_abs x = (- x)%rs).
Proof. intros x; destruct x as [r ? ?]; simpl; split; intros Hs; rcbv; unfold Rleb; destruct (Rle_dec 0 r); try reflexivity; lra. Qed.
Lemma signum_Dual2 : forall x : Dual2 R, (0 < Dual2_f_re x -> m_signum x = (Overload.one : Dual2 R)) /\ (Dual2_f_re x < 0 -> m_signum x = (- (Overload.one : Dual2 R))%rs).
Proof. intros x; destruct x as [r ? ?]; simpl; split; intros Hs; rcbv; unfold Rleb, Reqb; destruct (Rle_dec 0 r); try reflexivity; try lra; destruct (Req_EM_T r 0); try reflexivity; lra. Qed.

Lemma faa_Dual3_log : forall (base : R) (x : Dual3 R), 0 < Dual3_f_re x -> ln base <> 0 -> forall S, In S idx_Dual3 ->
  part_Dual3 (m_log x base) S = faa (tw3 (fun d => m_log d base) (Dual3_f_re x)) (part_Dual3 x) S.
Proof. intros  base x Hd Hb  S H; destruct x as [r ? ? ?]; simpl in Hd; each_block H fld. Qed.
Lemma sin_cos_Dual3 : forall x : Dual3 R, m_sin_cos x = (m_sin x, m_cos x).
Proof. intros x; reflexivity. Qed.
Lemma abs_Dual3 : forall x : Dual3 R, (0 < Dual3_f_re x -> m_abs x = x) /\ (Dual3_f_re x < 0 -> m_abs x = (- x)%rs).
Proof. intros x; destruct x as [r ? ? ?]; simpl; split; intros Hs; rcbv; unfold Rleb; destruct (Rle_dec 0 r); try reflexivity; lra. Qed.
Lemma signum_Dual3 : forall x : Dual3 R, (0 < Dual3_f_re x -> m_signum x = (Overload.one : Dual3 R)) /\ (Dual3_f_re x < 0 -> m_signum x = (- (Overload.one : Dual3 R))%rs).
Proof. intros x; destruct x as [r ? ? ?]; simpl; split; intros Hs; rcbv; unfold Rleb, Reqb; destruct (Rle_dec 0 r); try reflexivity; try lra; destruct (Req_EM_T r 0); try reflexivity; lra. Qed.

Lemma faa_HyperDual_log : forall (base : R) (x : HyperDual R), 0 < HyperDual_f_re x -> ln base <> 0 -> forall S, In S idx_HyperDual ->
  part_HyperDual (m_log x base) S = faa (tw3 (fun d => m_log d base) (HyperDual_f_re x)) (part_HyperDual x) S.
Proof. intros  base x Hd Hb  S H; destruct x as [r ? ? ?]; simpl in Hd; each_block H fld. Qed.
Lemma sin_cos_HyperDual : forall x : HyperDual R, m_sin_cos x = (m_sin x, m_cos x).
Proof. intros x; reflexivity. Qed.
Lemma abs_HyperDual : forall x : HyperDual R, (0 < HyperDual_f_re x -> m_abs x = x) /\ (HyperDual_f_re x < 0 -> m_abs x = (- x)%rs).
Proof. intros x; destruct x as [r ? ? ?]; simpl; split; intros Hs; rcbv; unfold Rleb; destruct (Rle_dec 0 r); try reflexivity; lra. Qed.
Lemma signum_HyperDual : forall x : HyperDual R, (0 < HyperDual_f_re x -> m_signum x = (Overload.one : HyperDual R)) /\ (HyperDual_f_re x < 0 -> m_signum x = (- (Overload.one : HyperDual R))%rs).
Proof. intros x; destruct x as [r ? ? ?]; simpl; split; intros Hs; rcbv; unfold Rleb, Reqb; destruct (Rle_dec 0 r); try reflexivity; try lra; destruct (Req_EM_T r 0); try reflexivity; lra. Qed.

Lemma faa_HyperHyperDual_log : forall (base : R) (x : HyperHyperDual R), 0 < HyperHyperDual_f_re x -> ln base <> 0 -> forall S, In S idx_HHD ->
  part_HHD (m_log x base) S = faa (tw3 (fun d => m_log d base) (HyperHyperDual_f_re x)) (part_HHD x) S.
Proof. intros  base x Hd Hb  S H; destruct x as [r ? ? ? ? ? ? ?]; simpl in Hd; each_block H fld. Qed.
Lemma sin_cos_HyperHyperDual : forall x : HyperHyperDual R, m_sin_cos x = (m_sin x, m_cos x).
Proof. intros x; reflexivity. Qed.
Lemma abs_HyperHyperDual : forall x : HyperHyperDual R, (0 < HyperHyperDual_f_re x -> m_abs x = x) /\ (HyperHyperDual_f_re x < 0 -> m_abs x = (- x)%rs).
Proof. intros x; destruct x as [r ? ? ? ? ? ? ?]; simpl; split; intros Hs; rcbv; unfold Rleb; destruct (Rle_dec 0 r); try reflexivity; lra. Qed.
Lemma signum_HyperHyperDual : forall x : HyperHyperDual R, (0 < HyperHyperDual_f_re x -> m_signum x = (Overload.one : HyperHyperDual R)) /\ (HyperHyperDual_f_re x < 0 -> m_signum x = (- (Overload.one : HyperHyperDual R))%rs).
Proof. intros x; destruct x as [r ? ? ? ? ? ? ?]; simpl; split; intros Hs; rcbv; unfold Rleb, Reqb; destruct (Rle_dec 0 r); try reflexivity; try lra; destruct (Req_EM_T r 0); try reflexivity; lra. Qed.

Lemma faa_DualVec_log : forall i, forall (base : R) (x : DualVec R), 0 < DualVec_f_re x -> ln base <> 0 -> forall S, In S (idx_DualVec i) ->
  part_DualVec (m_log x base) S = faa (tw3 (fun d => m_log d base) (DualVec_f_re x)) (part_DualVec x) S.
Proof. intros i base x Hd Hb  S H; destruct x as [r [[?|]]]; dmat; simpl in Hd; each_block H fld. Qed.
Lemma sin_cos_DualVec : forall x : DualVec R, m_sin_cos x = (m_sin x, m_cos x).
Proof. intros x; reflexivity. Qed.
Lemma abs_DualVec : forall x : DualVec R, (0 < DualVec_f_re x -> m_abs x = x) /\ (DualVec_f_re x < 0 -> m_abs x = (- x)%rs).
Proof. intros x; destruct x as [r [[?|]]]; simpl; split; intros Hs; rcbv; unfold Rleb; destruct (Rle_dec 0 r); try reflexivity; lra. Qed.
Lemma signum_DualVec : forall x : DualVec R, (0 < DualVec_f_re x -> m_signum x = (Overload.one : DualVec R)) /\ (DualVec_f_re x < 0 -> m_signum x = (- (Overload.one : DualVec R))%rs).
Proof. intros x; destruct x as [r [[?|]]]; simpl; split; intros Hs; rcbv; unfold Rleb, Reqb; destruct (Rle_dec 0 r); try reflexivity; try lra; destruct (Req_EM_T r 0); try reflexivity; lra. Qed.

Lemma faa_Dual2Vec_log : forall i j, forall (base : R) (x : Dual2Vec R), 0 < Dual2Vec_f_re x -> ln base <> 0 -> wf_Dual2Vec x -> forall S, In S (idx_Dual2Vec i j) ->
  part_Dual2Vec (m_log x base) S = faa (tw3 (fun d => m_log d base) (Dual2Vec_f_re x)) (part_Dual2Vec x) S.
Proof. intros i j base x Hd Hb Hwf S H; destruct x as [r [[?|]] [[?|]]]; dmat; unfold wf_Dual2Vec, wf_row in Hwf; simpl in Hwf; subst; simpl in Hd; each_block H fld. Qed.
Lemma sin_cos_Dual2Vec : forall x : Dual2Vec R, m_sin_cos x = (m_sin x, m_cos x).
Proof. intros x; reflexivity. Qed.
Lemma abs_Dual2Vec : forall x : Dual2Vec R, (0 < Dual2Vec_f_re x -> m_abs x = x) /\ (Dual2Vec_f_re x < 0 -> m_abs x = (- x)%rs).
Proof. intros x; destruct x as [r [[?|]] [[?|]]]; simpl; split; intros Hs; rcbv; unfold Rleb; destruct (Rle_dec 0 r); try reflexivity; lra. Qed.
Lemma signum_Dual2Vec : forall x : Dual2Vec R, (0 < Dual2Vec_f_re x -> m_signum x = (Overload.one : Dual2Vec R)) /\ (Dual2Vec_f_re x < 0 -> m_signum x = (- (Overload.one : Dual2Vec R))%rs).
Proof. intros x; destruct x as [r [[?|]] [[?|]]]; simpl; split; intros Hs; rcbv; unfold Rleb, Reqb; destruct (Rle_dec 0 r); try reflexivity; try lra; destruct (Req_EM_T r 0); try reflexivity; lra. Qed.

Lemma faa_HyperDualVec_log : forall i j, forall (base : R) (x : HyperDualVec R), 0 < HyperDualVec_f_re x -> ln base <> 0 -> wf_HyperDualVec x -> forall S, In S (idx_HyperDualVec i j) ->
  part_HyperDualVec (m_log x base) S = faa (tw3 (fun d => m_log d base) (HyperDualVec_f_re x)) (part_HyperDualVec x) S.
Proof. intros i j base x Hd Hb Hwf S H; destruct x as [r [[?|]] [[?|]] [[?|]]]; dmat; unfold wf_HyperDualVec, wf_col in Hwf; simpl in Hwf; subst; simpl in Hd; each_block H fld. Qed.
Lemma sin_cos_HyperDualVec : forall x : HyperDualVec R, m_sin_cos x = (m_sin x, m_cos x).
Proof. intros x; reflexivity. Qed.
Lemma abs_HyperDualVec : forall x : HyperDualVec R, (0 < HyperDualVec_f_re x -> m_abs x = x) /\ (HyperDualVec_f_re x < 0 -> m_abs x = (- x)%rs).
Proof. intros x; destruct x as [r [[?|]] [[?|]] [[?|]]]; simpl; split; intros Hs; rcbv; unfold Rleb; destruct (Rle_dec 0 r); try reflexivity; lra. Qed.
Lemma signum_HyperDualVec : forall x : HyperDualVec R, (0 < HyperDualVec_f_re x -> m_signum x = (Overload.one : HyperDualVec R)) /\ (HyperDualVec_f_re x < 0 -> m_signum x = (- (Overload.one : HyperDualVec R))%rs).
Proof. intros x; destruct x as [r [[?|]] [[?|]] [[?|]]]; simpl; split; intros Hs; rcbv; unfold Rleb, Reqb; destruct (Rle_dec 0 r); try reflexivity; try lra; destruct (Req_EM_T r 0); try reflexivity; lra. Qed.

