#!/usr/bin/env python3
"""Writes coq/ND/Proofs/C01_faa.v (statements are repetitive over 8 types x 24 functions; the file is committed)."""
FNS = [  # name, term applied to x, domain on the real part r, helper facts
    ('recip', 'm_recip x', 'r <> 0', ''),
    ('sqrt', 'm_sqrt x', '0 < r', ''),
    ('cbrt', 'm_cbrt x', 'r <> 0', ''),
    ('exp', 'm_exp x', 'True', ''),
    ('exp2', 'm_exp2 x', 'True', ''),
    ('exp_m1', 'm_exp_m1 x', 'True', ''),
    ('ln', 'm_ln x', '0 < r', ''),
    ('log2', 'm_log2 x', '0 < r', 'pose proof ln2_pos;'),
    ('log10', 'm_log10 x', '0 < r', 'pose proof ln10_pos;'),
    ('ln_1p', 'm_ln_1p x', '-1 < r', ''),
    ('sin', 'm_sin x', 'True', ''),
    ('cos', 'm_cos x', 'True', ''),
    ('tan', 'm_tan x', 'cos r <> 0', ''),
    ('asin', 'm_asin x', '-1 < r < 1', ''),
    ('acos', 'm_acos x', '-1 < r < 1', ''),
    ('atan', 'm_atan x', 'True', ''),
    ('sinh', 'm_sinh x', 'True', ''),
    ('cosh', 'm_cosh x', 'True', ''),
    ('tanh', 'm_tanh x', 'True', 'pose proof (cosh_pos r);'),
    ('asinh', 'm_asinh x', 'True', ''),
    ('acosh', 'm_acosh x', '1 < r', ''),
    ('atanh', 'm_atanh x', '-1 < r < 1', ''),
]
# type, part fn, idx, binder params, wf premise, destruct tactic, re projection
TYPES = [
    ('Dual', 'part_Dual', 'idx_Dual', '', '', 'destruct x as [r ?]', 'Dual_f_re'),
    ('Dual2', 'part_Dual2', 'idx_Dual2', '', '', 'destruct x as [r ? ?]', 'Dual2_f_re'),
    ('Dual3', 'part_Dual3', 'idx_Dual3', '', '', 'destruct x as [r ? ? ?]', 'Dual3_f_re'),
    ('HyperDual', 'part_HyperDual', 'idx_HyperDual', '', '', 'destruct x as [r ? ? ?]', 'HyperDual_f_re'),
    ('HyperHyperDual', 'part_HHD', 'idx_HHD', '', '', 'destruct x as [r ? ? ? ? ? ? ?]', 'HyperHyperDual_f_re'),
    ('DualVec', 'part_DualVec', '(idx_DualVec i)', 'i', '', 'destruct x as [r [[?|]]]; dmat', 'DualVec_f_re'),
    ('Dual2Vec', 'part_Dual2Vec', '(idx_Dual2Vec i j)', 'i j', 'wf_Dual2Vec x', 'destruct x as [r [[?|]] [[?|]]]; dmat; unfold wf_Dual2Vec, wf_row in Hwf; simpl in Hwf; subst', 'Dual2Vec_f_re'),
    ('HyperDualVec', 'part_HyperDualVec', '(idx_HyperDualVec i j)', 'i j', 'wf_HyperDualVec x', 'destruct x as [r [[?|]] [[?|]] [[?|]]]; dmat; unfold wf_HyperDualVec, wf_col in Hwf; simpl in Hwf; subst', 'HyperDualVec_f_re'),
]
CHAIN = {  # type -> (chain rule call, coefficient list)
    'Dual': ('m_chain_rule x f0 f1', 2), 'DualVec': ('m_chain_rule x f0 f1', 2),
    'Dual2': ('m_chain_rule_3 x f0 f1 f2', 3), 'Dual2Vec': ('m_chain_rule_3 x f0 f1 f2', 3),
    'HyperDual': ('m_chain_rule_3 x f0 f1 f2', 3), 'HyperDualVec': ('m_chain_rule_3 x f0 f1 f2', 3),
    'Dual3': ('m_chain_rule_4 x f0 f1 f2 f3', 4), 'HyperHyperDual': ('m_chain_rule_4 x f0 f1 f2 f3', 4),
}

out = ['''(* Proofs/C01_faa.v -- written by tools/coqgen/gen_c01.py (statements repeat over 8 types x 22 functions).
   (1) every type's private chain rule is the set-partition Faa di Bruno formula on every part;
   (2) every elementary function of every type returns, in every part, Faa di Bruno of the derivative tower
       (C01_towers.v: a true derivative tower of the function) with the operand's parts -- any real part in the domain,
       arbitrary derivative parts, every dimension and presence pattern. *)
From ND Require Import Tactics C01_towers.
Local Open Scope R_scope.
Require Import ND.Proofs.C02_proofs.

Definition coef (l : list R) (k : nat) : R := nth k l 0.
Ltac fld := rcbv; try replace (1 + 1) with 2 by lra; field; side.
''']
for (T, part, idx, bind, wf, destr, re) in TYPES:
    call, n = CHAIN[T]
    call = T + '_chain_rule x ' + ' '.join('f%d' % k for k in range(n))
    fs = ' '.join('f%d' % k for k in range(n))
    b = ('forall %s, ' % bind) if bind else ''
    wfp = ('%s -> ' % wf) if wf else ''
    out.append('Lemma chain_%s : %sforall (x : %s R) %s, %sforall S, In S %s ->\n  %s (%s) S = faa (coef [%s]) (%s x) S.' % (
        T, b, T, fs, wfp, idx, part, call, '; '.join('f%d' % k for k in range(n)), part))
    out.append('Proof. intros %s x %s %s S H; %s; each_block H jet_ring. Qed.\n' % (bind, fs, 'Hwf' if wf else '', destr))
for (name, term, dom, helper) in FNS:
    for (T, part, idx, bind, wf, destr, re) in TYPES:
        b = ('forall %s, ' % bind) if bind else ''
        wfp = ('%s -> ' % wf) if wf else ''
        domx = dom.replace('r', '(%s x)' % re) if dom != 'True' else None
        # careful: replace only the variable r (domains are written with r as a separate token)
        import re as _re
        domx = _re.sub(r'\br\b', '(%s x)' % re, dom) if dom != 'True' else None
        out.append('Lemma faa_%s_%s : %sforall x : %s R, %s%sforall S, In S %s ->\n  %s (%s) S = faa (tw3 m_%s (%s x)) (%s x) S.' % (
            T, name, b, T, (domx + ' -> ') if domx else '', wfp, idx, part, term, name, re, part))
        out.append('Proof. intros %s x %s %s S H; %s; %s %s each_block H fld. Qed.' % (
            bind, 'Hd' if domx else '', 'Hwf' if wf else '', destr, 'simpl in Hd;' if domx else '', helper))
    out.append('')

# ---- extra: log with a base, sin_cos, abs, signum ----
for (T, part, idx, bind, wf, destr, re) in TYPES:
    b = ('forall %s, ' % bind) if bind else ''
    wfp = ('%s -> ' % wf) if wf else ''
    out.append('Lemma faa_%s_log : %sforall (base : R) (x : %s R), 0 < %s x -> ln base <> 0 -> %sforall S, In S %s ->\n  %s (m_log x base) S = faa (tw3 (fun d => m_log d base) (%s x)) (%s x) S.' % (
        T, b, T, re, wfp, idx, part, re, part))
    out.append('Proof. intros %s base x Hd Hb %s S H; %s; simpl in Hd; each_block H fld. Qed.' % (bind, 'Hwf' if wf else '', destr))
    out.append('Lemma sin_cos_%s : forall x : %s R, m_sin_cos x = (m_sin x, m_cos x).' % (T, T))
    out.append('Proof. intros x; reflexivity. Qed.')
    out.append('Lemma abs_%s : forall x : %s R, (0 < %s x -> m_abs x = x) /\\ (%s x < 0 -> m_abs x = (- x)%%rs).' % (T, T, re, re))
    out.append('Proof. intros x; %s; simpl; split; intros Hs; rcbv; unfold Rleb; destruct (Rle_dec 0 r); try reflexivity; lra. Qed.' % destr.split(';')[0])
    out.append('Lemma signum_%s : forall x : %s R, (0 < %s x -> m_signum x = (Overload.one : %s R)) /\\ (%s x < 0 -> m_signum x = (- (Overload.one : %s R))%%rs).' % (T, T, re, T, re, T))
    out.append('Proof. intros x; %s; simpl; split; intros Hs; rcbv; unfold Rleb, Reqb; destruct (Rle_dec 0 r); try reflexivity; try lra; destruct (Req_EM_T r 0); try reflexivity; lra. Qed.' % destr.split(';')[0])
    out.append('')
open('/verif/coq/ND/Proofs/C01_faa.v', 'w').write('\n'.join(out) + '\n')

# ---- Props/C01.v : every lemma above restated as a theorem closed by `exact` ----
import re as _re
txt = '\n'.join(out)
props = ['''(* Props/C01.v -- property C01: elementary functions carry exact derivatives on every dual number type.
   Written by tools/coqgen/gen_c01.py; only statements, `exact` proofs and axiom reports. *)
From ND Require Import Tactics C01_towers C01_faa.
Local Open Scope R_scope.
''']
names = []
tow = open('/verif/coq/ND/Proofs/C01_towers.v').read()
for m in _re.finditer(r'Lemma (tower_\w+) ([^:]*): ((?:.|\n)*?)\.\nProof', tow):
    nm, binders, stmt = m.group(1), m.group(2).strip(), m.group(3)
    props.append('Theorem C01_%s : forall %s, %s.\nProof. exact %s. Qed.' % (nm, binders, stmt, nm))
    names.append('C01_' + nm)
for m in _re.finditer(r'Lemma (\w+) : ((?:.|\n)*?)\.\nProof', txt):
    nm, stmt = m.group(1), m.group(2)
    props.append('Theorem C01_%s : %s.\nProof. exact %s. Qed.' % (nm, stmt, nm))
    names.append('C01_' + nm)
props.append('')
props.append('(* non-vacuity: a point inside every domain premise used above *)')
props.append('Example C01_domains_inhabited : (/2 <> 0) /\\ 0 < /2 /\\ -1 < /2 < 1 /\\ 1 < 2 /\\ cos 0 <> 0 /\\ ln 2 <> 0.')
props.append('Proof. rewrite cos_0. pose proof ln2_pos. repeat split; lra. Qed.')
props.append('')
props.append('(* one axiom report for the whole family (the union bounds every member; 239 separate reports take minutes) *)')
props.append('Definition C01_bundle := (' + ',\n  '.join(names) + ').')
props.append('Print Assumptions C01_bundle.')
open('/verif/coq/ND/Props/C01.v', 'w').write('\n'.join(props) + '\n')
print(len(names), 'theorems')

