(* Proofs/C11_proofs.v -- written by tools/coqgen/gen_c11.py.  For an ARBITRARY scalar instance: each RealField constant is from_re of the float
   constant of the same name; each ComplexField / RealField method is the generic dual operation it names; selection methods return one of the
   operands (or +-abs) with its own parts. *)
From ND Require Import Overload Float Mat Opt Wire.
From NDgen Require Import Classes Gen_Float Gen_Derivative Gen_Dual Gen_Dual2 Gen_Dual3 Gen_HyperDual Gen_HyperHyperDual Gen_DualVec Gen_Dual2Vec Gen_HyperDualVec Gen_Field.
Local Open Scope rs_scope.
Section C11.
Context {F T : Type} {dnFT : DN F T} {ordT : DNOrd T}.
#[local] Instance flF_c11 : FL F := dn_fl (T:=T).
Lemma const_Dual_pi : Dual_RealField_pi = Dual_from_re (ofF (fl_const C_PI : F) : T).
Proof. reflexivity. Qed.
Lemma const_Dual_two_pi : Dual_RealField_two_pi = Dual_from_re (ofF (fl_const C_TAU : F) : T).
Proof. reflexivity. Qed.
Lemma const_Dual_frac_pi_2 : Dual_RealField_frac_pi_2 = Dual_from_re (ofF (fl_const C_FRAC_PI_2 : F) : T).
Proof. reflexivity. Qed.
Lemma const_Dual_frac_pi_3 : Dual_RealField_frac_pi_3 = Dual_from_re (ofF (fl_const C_FRAC_PI_3 : F) : T).
Proof. reflexivity. Qed.
Lemma const_Dual_frac_pi_4 : Dual_RealField_frac_pi_4 = Dual_from_re (ofF (fl_const C_FRAC_PI_4 : F) : T).
Proof. reflexivity. Qed.
Lemma const_Dual_frac_pi_6 : Dual_RealField_frac_pi_6 = Dual_from_re (ofF (fl_const C_FRAC_PI_6 : F) : T).
Proof. reflexivity. Qed.
Lemma const_Dual_frac_pi_8 : Dual_RealField_frac_pi_8 = Dual_from_re (ofF (fl_const C_FRAC_PI_8 : F) : T).
Proof. reflexivity. Qed.
Lemma const_Dual_frac_1_pi : Dual_RealField_frac_1_pi = Dual_from_re (ofF (fl_const C_FRAC_1_PI : F) : T).
Proof. reflexivity. Qed.
Lemma const_Dual_frac_2_pi : Dual_RealField_frac_2_pi = Dual_from_re (ofF (fl_const C_FRAC_2_PI : F) : T).
Proof. reflexivity. Qed.
Lemma const_Dual_frac_2_sqrt_pi : Dual_RealField_frac_2_sqrt_pi = Dual_from_re (ofF (fl_const C_FRAC_2_SQRT_PI : F) : T).
Proof. reflexivity. Qed.
Lemma const_Dual_e : Dual_RealField_e = Dual_from_re (ofF (fl_const C_E : F) : T).
Proof. reflexivity. Qed.
Lemma const_Dual_log2_e : Dual_RealField_log2_e = Dual_from_re (ofF (fl_const C_LOG2_E : F) : T).
Proof. reflexivity. Qed.
Lemma const_Dual_log10_e : Dual_RealField_log10_e = Dual_from_re (ofF (fl_const C_LOG10_E : F) : T).
Proof. reflexivity. Qed.
Lemma const_Dual_ln_2 : Dual_RealField_ln_2 = Dual_from_re (ofF (fl_const C_LN_2 : F) : T).
Proof. reflexivity. Qed.
Lemma const_Dual_ln_10 : Dual_RealField_ln_10 = Dual_from_re (ofF (fl_const C_LN_10 : F) : T).
Proof. reflexivity. Qed.
Lemma fwd_Dual_recip : forall x : Dual T, Dual_ComplexField_recip x = m_recip x.
Proof. intros; reflexivity. Qed.
Lemma fwd_Dual_sin : forall x : Dual T, Dual_ComplexField_sin x = m_sin x.
Proof. intros; reflexivity. Qed.
Lemma fwd_Dual_cos : forall x : Dual T, Dual_ComplexField_cos x = m_cos x.
Proof. intros; reflexivity. Qed.
Lemma fwd_Dual_tan : forall x : Dual T, Dual_ComplexField_tan x = m_tan x.
Proof. intros; reflexivity. Qed.
Lemma fwd_Dual_asin : forall x : Dual T, Dual_ComplexField_asin x = m_asin x.
Proof. intros; reflexivity. Qed.
Lemma fwd_Dual_acos : forall x : Dual T, Dual_ComplexField_acos x = m_acos x.
Proof. intros; reflexivity. Qed.
Lemma fwd_Dual_atan : forall x : Dual T, Dual_ComplexField_atan x = m_atan x.
Proof. intros; reflexivity. Qed.
Lemma fwd_Dual_sinh : forall x : Dual T, Dual_ComplexField_sinh x = m_sinh x.
Proof. intros; reflexivity. Qed.
Lemma fwd_Dual_cosh : forall x : Dual T, Dual_ComplexField_cosh x = m_cosh x.
Proof. intros; reflexivity. Qed.
Lemma fwd_Dual_tanh : forall x : Dual T, Dual_ComplexField_tanh x = m_tanh x.
Proof. intros; reflexivity. Qed.
Lemma fwd_Dual_asinh : forall x : Dual T, Dual_ComplexField_asinh x = m_asinh x.
Proof. intros; reflexivity. Qed.
Lemma fwd_Dual_acosh : forall x : Dual T, Dual_ComplexField_acosh x = m_acosh x.
Proof. intros; reflexivity. Qed.
Lemma fwd_Dual_atanh : forall x : Dual T, Dual_ComplexField_atanh x = m_atanh x.
Proof. intros; reflexivity. Qed.
Lemma fwd_Dual_log2 : forall x : Dual T, Dual_ComplexField_log2 x = m_log2 x.
Proof. intros; reflexivity. Qed.
Lemma fwd_Dual_log10 : forall x : Dual T, Dual_ComplexField_log10 x = m_log10 x.
Proof. intros; reflexivity. Qed.
Lemma fwd_Dual_ln : forall x : Dual T, Dual_ComplexField_ln x = m_ln x.
Proof. intros; reflexivity. Qed.
Lemma fwd_Dual_ln_1p : forall x : Dual T, Dual_ComplexField_ln_1p x = m_ln_1p x.
Proof. intros; reflexivity. Qed.
Lemma fwd_Dual_sqrt : forall x : Dual T, Dual_ComplexField_sqrt x = m_sqrt x.
Proof. intros; reflexivity. Qed.
Lemma fwd_Dual_exp : forall x : Dual T, Dual_ComplexField_exp x = m_exp x.
Proof. intros; reflexivity. Qed.
Lemma fwd_Dual_exp2 : forall x : Dual T, Dual_ComplexField_exp2 x = m_exp2 x.
Proof. intros; reflexivity. Qed.
Lemma fwd_Dual_exp_m1 : forall x : Dual T, Dual_ComplexField_exp_m1 x = m_exp_m1 x.
Proof. intros; reflexivity. Qed.
Lemma fwd_Dual_cbrt : forall x : Dual T, Dual_ComplexField_cbrt x = m_cbrt x.
Proof. intros; reflexivity. Qed.
Lemma fwd_Dual_sin_cos : forall x : Dual T, Dual_ComplexField_sin_cos x = m_sin_cos x.
Proof. intros; reflexivity. Qed.
Lemma fwd_Dual_real : forall x : Dual T, Dual_ComplexField_real x = x.
Proof. intros; reflexivity. Qed.
Lemma fwd_Dual_conjugate : forall x : Dual T, Dual_ComplexField_conjugate x = x.
Proof. intros; reflexivity. Qed.
Lemma fwd_Dual_from_real : forall x : Dual T, Dual_ComplexField_from_real x = x.
Proof. intros; reflexivity. Qed.
Lemma fwd_Dual_imaginary : forall x : Dual T, Dual_ComplexField_imaginary x = (zero : Dual T).
Proof. intros; reflexivity. Qed.
Lemma fwd_Dual_modulus : forall x : Dual T, Dual_ComplexField_modulus x = m_abs x.
Proof. intros; reflexivity. Qed.
Lemma fwd_Dual_norm1 : forall x : Dual T, Dual_ComplexField_norm1 x = m_abs x.
Proof. intros; reflexivity. Qed.
Lemma fwd_Dual_abs : forall x : Dual T, Dual_ComplexField_abs x = m_abs x.
Proof. intros; reflexivity. Qed.
Lemma fwd_Dual_modulus_squared : forall x : Dual T, Dual_ComplexField_modulus_squared x = x * x.
Proof. intros; reflexivity. Qed.
Lemma fwd_Dual_argument : forall x : Dual T, Dual_ComplexField_argument x = if ((zero : T) <=? Dual_f_re x) then (zero : Dual T) else Dual_from_re (ofF (fl_const C_PI : F) : T).
Proof. intros; reflexivity. Qed.
Lemma fwd_Dual_scale : forall x f : Dual T, Dual_ComplexField_scale x f = x * f /\ Dual_ComplexField_unscale x f = x / f.
Proof. intros; split; reflexivity. Qed.
Lemma fwd_Dual_hypot : forall x y : Dual T, Dual_ComplexField_hypot x y = m_sqrt (m_powi x 2%Z + m_powi y 2%Z).
Proof. intros; reflexivity. Qed.
Lemma fwd_Dual_log : forall x b : Dual T, Dual_ComplexField_log x b = m_ln x / m_ln b.
Proof. intros; reflexivity. Qed.
Lemma fwd_Dual_pow : forall (x n : Dual T) (k : Z), Dual_ComplexField_powf x n = m_powd x n /\ Dual_ComplexField_powc x n = m_powd x n /\ Dual_ComplexField_powi x k = m_powi x k.
Proof. intros; repeat split; reflexivity. Qed.
Lemma fwd_Dual_mul_add : forall x a b : Dual T, Dual_ComplexField_mul_add x a b = m_mul_add x a b.
Proof. intros; reflexivity. Qed.
Lemma fwd_Dual_atan2 : forall y x : Dual T, Dual_RealField_atan2 y x = m_atan2 y x.
Proof. intros; reflexivity. Qed.
Lemma sel_Dual_max_min : forall x y : Dual T, (Dual_RealField_max x y = x \/ Dual_RealField_max x y = y) /\ (Dual_RealField_min x y = x \/ Dual_RealField_min x y = y).
Proof. intros; unfold Dual_RealField_max, Dual_RealField_min; split; match goal with |- context [if ?c then _ else _] => destruct c end; auto. Qed.
Lemma sel_Dual_clamp : forall x lo hi : Dual T, Dual_RealField_clamp x lo hi = x \/ Dual_RealField_clamp x lo hi = lo \/ Dual_RealField_clamp x lo hi = hi.
Proof. intros; unfold Dual_RealField_clamp; repeat match goal with |- context [if ?c then _ else _] => destruct c end; auto. Qed.
Lemma sel_Dual_copysign : forall x s : Dual T, Dual_RealField_copysign x s = m_abs x \/ Dual_RealField_copysign x s = - (m_abs x).
Proof. intros; unfold Dual_RealField_copysign; match goal with |- context [if ?c then _ else _] => destruct c end; auto. Qed.
Lemma sign_Dual : forall x : Dual T, Dual_RealField_is_sign_positive x = fl_sign_pos (m_re (Dual_f_re x)) /\ Dual_RealField_is_sign_negative x = negb (fl_sign_pos (m_re (Dual_f_re x))).
Proof. intros; split; reflexivity. Qed.
Lemma const_Dual2_pi : Dual2_RealField_pi = Dual2_from_re (ofF (fl_const C_PI : F) : T).
Proof. reflexivity. Qed.
Lemma const_Dual2_two_pi : Dual2_RealField_two_pi = Dual2_from_re (ofF (fl_const C_TAU : F) : T).
Proof. reflexivity. Qed.
Lemma const_Dual2_frac_pi_2 : Dual2_RealField_frac_pi_2 = Dual2_from_re (ofF (fl_const C_FRAC_PI_2 : F) : T).
Proof. reflexivity. Qed.
Lemma const_Dual2_frac_pi_3 : Dual2_RealField_frac_pi_3 = Dual2_from_re (ofF (fl_const C_FRAC_PI_3 : F) : T).
Proof. reflexivity. Qed.
Lemma const_Dual2_frac_pi_4 : Dual2_RealField_frac_pi_4 = Dual2_from_re (ofF (fl_const C_FRAC_PI_4 : F) : T).
Proof. reflexivity. Qed.
Lemma const_Dual2_frac_pi_6 : Dual2_RealField_frac_pi_6 = Dual2_from_re (ofF (fl_const C_FRAC_PI_6 : F) : T).
Proof. reflexivity. Qed.
Lemma const_Dual2_frac_pi_8 : Dual2_RealField_frac_pi_8 = Dual2_from_re (ofF (fl_const C_FRAC_PI_8 : F) : T).
Proof. reflexivity. Qed.
Lemma const_Dual2_frac_1_pi : Dual2_RealField_frac_1_pi = Dual2_from_re (ofF (fl_const C_FRAC_1_PI : F) : T).
Proof. reflexivity. Qed.
Lemma const_Dual2_frac_2_pi : Dual2_RealField_frac_2_pi = Dual2_from_re (ofF (fl_const C_FRAC_2_PI : F) : T).
Proof. reflexivity. Qed.
Lemma const_Dual2_frac_2_sqrt_pi : Dual2_RealField_frac_2_sqrt_pi = Dual2_from_re (ofF (fl_const C_FRAC_2_SQRT_PI : F) : T).
Proof. reflexivity. Qed.
Lemma const_Dual2_e : Dual2_RealField_e = Dual2_from_re (ofF (fl_const C_E : F) : T).
Proof. reflexivity. Qed.
Lemma const_Dual2_log2_e : Dual2_RealField_log2_e = Dual2_from_re (ofF (fl_const C_LOG2_E : F) : T).
Proof. reflexivity. Qed.
Lemma const_Dual2_log10_e : Dual2_RealField_log10_e = Dual2_from_re (ofF (fl_const C_LOG10_E : F) : T).
Proof. reflexivity. Qed.
Lemma const_Dual2_ln_2 : Dual2_RealField_ln_2 = Dual2_from_re (ofF (fl_const C_LN_2 : F) : T).
Proof. reflexivity. Qed.
Lemma const_Dual2_ln_10 : Dual2_RealField_ln_10 = Dual2_from_re (ofF (fl_const C_LN_10 : F) : T).
Proof. reflexivity. Qed.
Lemma fwd_Dual2_recip : forall x : Dual2 T, Dual2_ComplexField_recip x = m_recip x.
Proof. intros; reflexivity. Qed.
Lemma fwd_Dual2_sin : forall x : Dual2 T, Dual2_ComplexField_sin x = m_sin x.
Proof. intros; reflexivity. Qed.
Lemma fwd_Dual2_cos : forall x : Dual2 T, Dual2_ComplexField_cos x = m_cos x.
Proof. intros; reflexivity. Qed.
Lemma fwd_Dual2_tan : forall x : Dual2 T, Dual2_ComplexField_tan x = m_tan x.
Proof. intros; reflexivity. Qed.
Lemma fwd_Dual2_asin : forall x : Dual2 T, Dual2_ComplexField_asin x = m_asin x.
Proof. intros; reflexivity. Qed.
Lemma fwd_Dual2_acos : forall x : Dual2 T, Dual2_ComplexField_acos x = m_acos x.
Proof. intros; reflexivity. Qed.
Lemma fwd_Dual2_atan : forall x : Dual2 T, Dual2_ComplexField_atan x = m_atan x.
Proof. intros; reflexivity. Qed.
Lemma fwd_Dual2_sinh : forall x : Dual2 T, Dual2_ComplexField_sinh x = m_sinh x.
Proof. intros; reflexivity. Qed.
Lemma fwd_Dual2_cosh : forall x : Dual2 T, Dual2_ComplexField_cosh x = m_cosh x.
Proof. intros; reflexivity. Qed.
Lemma fwd_Dual2_tanh : forall x : Dual2 T, Dual2_ComplexField_tanh x = m_tanh x.
Proof. intros; reflexivity. Qed.
Lemma fwd_Dual2_asinh : forall x : Dual2 T, Dual2_ComplexField_asinh x = m_asinh x.
Proof. intros; reflexivity. Qed.
Lemma fwd_Dual2_acosh : forall x : Dual2 T, Dual2_ComplexField_acosh x = m_acosh x.
Proof. intros; reflexivity. Qed.
Lemma fwd_Dual2_atanh : forall x : Dual2 T, Dual2_ComplexField_atanh x = m_atanh x.
Proof. intros; reflexivity. Qed.
Lemma fwd_Dual2_log2 : forall x : Dual2 T, Dual2_ComplexField_log2 x = m_log2 x.
Proof. intros; reflexivity. Qed.
Lemma fwd_Dual2_log10 : forall x : Dual2 T, Dual2_ComplexField_log10 x = m_log10 x.
Proof. intros; reflexivity. Qed.
Lemma fwd_Dual2_ln : forall x : Dual2 T, Dual2_ComplexField_ln x = m_ln x.
Proof. intros; reflexivity. Qed.
Lemma fwd_Dual2_ln_1p : forall x : Dual2 T, Dual2_ComplexField_ln_1p x = m_ln_1p x.
Proof. intros; reflexivity. Qed.
Lemma fwd_Dual2_sqrt : forall x : Dual2 T, Dual2_ComplexField_sqrt x = m_sqrt x.
Proof. intros; reflexivity. Qed.
Lemma fwd_Dual2_exp : forall x : Dual2 T, Dual2_ComplexField_exp x = m_exp x.
Proof. intros; reflexivity. Qed.
Lemma fwd_Dual2_exp2 : forall x : Dual2 T, Dual2_ComplexField_exp2 x = m_exp2 x.
Proof. intros; reflexivity. Qed.
Lemma fwd_Dual2_exp_m1 : forall x : Dual2 T, Dual2_ComplexField_exp_m1 x = m_exp_m1 x.
Proof. intros; reflexivity. Qed.
Lemma fwd_Dual2_cbrt : forall x : Dual2 T, Dual2_ComplexField_cbrt x = m_cbrt x.
Proof. intros; reflexivity. Qed.
Lemma fwd_Dual2_sin_cos : forall x : Dual2 T, Dual2_ComplexField_sin_cos x = m_sin_cos x.
Proof. intros; reflexivity. Qed.
Lemma fwd_Dual2_real : forall x : Dual2 T, Dual2_ComplexField_real x = x.
Proof. intros; reflexivity. Qed.
Lemma fwd_Dual2_conjugate : forall x : Dual2 T, Dual2_ComplexField_conjugate x = x.
Proof. intros; reflexivity. Qed.
Lemma fwd_Dual2_from_real : forall x : Dual2 T, Dual2_ComplexField_from_real x = x.
Proof. intros; reflexivity. Qed.
Lemma fwd_Dual2_imaginary : forall x : Dual2 T, Dual2_ComplexField_imaginary x = (zero : Dual2 T).
Proof. intros; reflexivity. Qed.
Lemma fwd_Dual2_modulus : forall x : Dual2 T, Dual2_ComplexField_modulus x = m_abs x.
Proof. intros; reflexivity. Qed.
Lemma fwd_Dual2_norm1 : forall x : Dual2 T, Dual2_ComplexField_norm1 x = m_abs x.
Proof. intros; reflexivity. Qed.
Lemma fwd_Dual2_abs : forall x : Dual2 T, Dual2_ComplexField_abs x = m_abs x.
Proof. intros; reflexivity. Qed.
Lemma fwd_Dual2_modulus_squared : forall x : Dual2 T, Dual2_ComplexField_modulus_squared x = x * x.
Proof. intros; reflexivity. Qed.
Lemma fwd_Dual2_argument : forall x : Dual2 T, Dual2_ComplexField_argument x = if ((zero : T) <=? Dual2_f_re x) then (zero : Dual2 T) else Dual2_from_re (ofF (fl_const C_PI : F) : T).
Proof. intros; reflexivity. Qed.
Lemma fwd_Dual2_scale : forall x f : Dual2 T, Dual2_ComplexField_scale x f = x * f /\ Dual2_ComplexField_unscale x f = x / f.
Proof. intros; split; reflexivity. Qed.
Lemma fwd_Dual2_hypot : forall x y : Dual2 T, Dual2_ComplexField_hypot x y = m_sqrt (m_powi x 2%Z + m_powi y 2%Z).
Proof. intros; reflexivity. Qed.
Lemma fwd_Dual2_log : forall x b : Dual2 T, Dual2_ComplexField_log x b = m_ln x / m_ln b.
Proof. intros; reflexivity. Qed.
Lemma fwd_Dual2_pow : forall (x n : Dual2 T) (k : Z), Dual2_ComplexField_powf x n = m_powd x n /\ Dual2_ComplexField_powc x n = m_powd x n /\ Dual2_ComplexField_powi x k = m_powi x k.
Proof. intros; repeat split; reflexivity. Qed.
Lemma fwd_Dual2_mul_add : forall x a b : Dual2 T, Dual2_ComplexField_mul_add x a b = m_mul_add x a b.
Proof. intros; reflexivity. Qed.
Lemma fwd_Dual2_atan2 : forall y x : Dual2 T, Dual2_RealField_atan2 y x = m_atan2 y x.
Proof. intros; reflexivity. Qed.
Lemma sel_Dual2_max_min : forall x y : Dual2 T, (Dual2_RealField_max x y = x \/ Dual2_RealField_max x y = y) /\ (Dual2_RealField_min x y = x \/ Dual2_RealField_min x y = y).
Proof. intros; unfold Dual2_RealField_max, Dual2_RealField_min; split; match goal with |- context [if ?c then _ else _] => destruct c end; auto. Qed.
Lemma sel_Dual2_clamp : forall x lo hi : Dual2 T, Dual2_RealField_clamp x lo hi = x \/ Dual2_RealField_clamp x lo hi = lo \/ Dual2_RealField_clamp x lo hi = hi.
Proof. intros; unfold Dual2_RealField_clamp; repeat match goal with |- context [if ?c then _ else _] => destruct c end; auto. Qed.
Lemma sel_Dual2_copysign : forall x s : Dual2 T, Dual2_RealField_copysign x s = m_abs x \/ Dual2_RealField_copysign x s = - (m_abs x).
Proof. intros; unfold Dual2_RealField_copysign; match goal with |- context [if ?c then _ else _] => destruct c end; auto. Qed.
Lemma sign_Dual2 : forall x : Dual2 T, Dual2_RealField_is_sign_positive x = fl_sign_pos (m_re (Dual2_f_re x)) /\ Dual2_RealField_is_sign_negative x = negb (fl_sign_pos (m_re (Dual2_f_re x))).
Proof. intros; split; reflexivity. Qed.
Lemma const_DualVec_pi : DualVec_RealField_pi = DualVec_from_re (ofF (fl_const C_PI : F) : T).
Proof. reflexivity. Qed.
Lemma const_DualVec_two_pi : DualVec_RealField_two_pi = DualVec_from_re (ofF (fl_const C_TAU : F) : T).
Proof. reflexivity. Qed.
Lemma const_DualVec_frac_pi_2 : DualVec_RealField_frac_pi_2 = DualVec_from_re (ofF (fl_const C_FRAC_PI_2 : F) : T).
Proof. reflexivity. Qed.
Lemma const_DualVec_frac_pi_3 : DualVec_RealField_frac_pi_3 = DualVec_from_re (ofF (fl_const C_FRAC_PI_3 : F) : T).
Proof. reflexivity. Qed.
Lemma const_DualVec_frac_pi_4 : DualVec_RealField_frac_pi_4 = DualVec_from_re (ofF (fl_const C_FRAC_PI_4 : F) : T).
Proof. reflexivity. Qed.
Lemma const_DualVec_frac_pi_6 : DualVec_RealField_frac_pi_6 = DualVec_from_re (ofF (fl_const C_FRAC_PI_6 : F) : T).
Proof. reflexivity. Qed.
Lemma const_DualVec_frac_pi_8 : DualVec_RealField_frac_pi_8 = DualVec_from_re (ofF (fl_const C_FRAC_PI_8 : F) : T).
Proof. reflexivity. Qed.
Lemma const_DualVec_frac_1_pi : DualVec_RealField_frac_1_pi = DualVec_from_re (ofF (fl_const C_FRAC_1_PI : F) : T).
Proof. reflexivity. Qed.
Lemma const_DualVec_frac_2_pi : DualVec_RealField_frac_2_pi = DualVec_from_re (ofF (fl_const C_FRAC_2_PI : F) : T).
Proof. reflexivity. Qed.
Lemma const_DualVec_frac_2_sqrt_pi : DualVec_RealField_frac_2_sqrt_pi = DualVec_from_re (ofF (fl_const C_FRAC_2_SQRT_PI : F) : T).
Proof. reflexivity. Qed.
Lemma const_DualVec_e : DualVec_RealField_e = DualVec_from_re (ofF (fl_const C_E : F) : T).
Proof. reflexivity. Qed.
Lemma const_DualVec_log2_e : DualVec_RealField_log2_e = DualVec_from_re (ofF (fl_const C_LOG2_E : F) : T).
Proof. reflexivity. Qed.
Lemma const_DualVec_log10_e : DualVec_RealField_log10_e = DualVec_from_re (ofF (fl_const C_LOG10_E : F) : T).
Proof. reflexivity. Qed.
Lemma const_DualVec_ln_2 : DualVec_RealField_ln_2 = DualVec_from_re (ofF (fl_const C_LN_2 : F) : T).
Proof. reflexivity. Qed.
Lemma const_DualVec_ln_10 : DualVec_RealField_ln_10 = DualVec_from_re (ofF (fl_const C_LN_10 : F) : T).
Proof. reflexivity. Qed.
Lemma fwd_DualVec_recip : forall x : DualVec T, DualVec_ComplexField_recip x = m_recip x.
Proof. intros; reflexivity. Qed.
Lemma fwd_DualVec_sin : forall x : DualVec T, DualVec_ComplexField_sin x = m_sin x.
Proof. intros; reflexivity. Qed.
Lemma fwd_DualVec_cos : forall x : DualVec T, DualVec_ComplexField_cos x = m_cos x.
Proof. intros; reflexivity. Qed.
Lemma fwd_DualVec_tan : forall x : DualVec T, DualVec_ComplexField_tan x = m_tan x.
Proof. intros; reflexivity. Qed.
Lemma fwd_DualVec_asin : forall x : DualVec T, DualVec_ComplexField_asin x = m_asin x.
Proof. intros; reflexivity. Qed.
Lemma fwd_DualVec_acos : forall x : DualVec T, DualVec_ComplexField_acos x = m_acos x.
Proof. intros; reflexivity. Qed.
Lemma fwd_DualVec_atan : forall x : DualVec T, DualVec_ComplexField_atan x = m_atan x.
Proof. intros; reflexivity. Qed.
Lemma fwd_DualVec_sinh : forall x : DualVec T, DualVec_ComplexField_sinh x = m_sinh x.
Proof. intros; reflexivity. Qed.
Lemma fwd_DualVec_cosh : forall x : DualVec T, DualVec_ComplexField_cosh x = m_cosh x.
Proof. intros; reflexivity. Qed.
Lemma fwd_DualVec_tanh : forall x : DualVec T, DualVec_ComplexField_tanh x = m_tanh x.
Proof. intros; reflexivity. Qed.
Lemma fwd_DualVec_asinh : forall x : DualVec T, DualVec_ComplexField_asinh x = m_asinh x.
Proof. intros; reflexivity. Qed.
Lemma fwd_DualVec_acosh : forall x : DualVec T, DualVec_ComplexField_acosh x = m_acosh x.
Proof. intros; reflexivity. Qed.
Lemma fwd_DualVec_atanh : forall x : DualVec T, DualVec_ComplexField_atanh x = m_atanh x.
Proof. intros; reflexivity. Qed.
Lemma fwd_DualVec_log2 : forall x : DualVec T, DualVec_ComplexField_log2 x = m_log2 x.
Proof. intros; reflexivity. Qed.
Lemma fwd_DualVec_log10 : forall x : DualVec T, DualVec_ComplexField_log10 x = m_log10 x.
Proof. intros; reflexivity. Qed.
Lemma fwd_DualVec_ln : forall x : DualVec T, DualVec_ComplexField_ln x = m_ln x.
Proof. intros; reflexivity. Qed.
Lemma fwd_DualVec_ln_1p : forall x : DualVec T, DualVec_ComplexField_ln_1p x = m_ln_1p x.
Proof. intros; reflexivity. Qed.
Lemma fwd_DualVec_sqrt : forall x : DualVec T, DualVec_ComplexField_sqrt x = m_sqrt x.
Proof. intros; reflexivity. Qed.
Lemma fwd_DualVec_exp : forall x : DualVec T, DualVec_ComplexField_exp x = m_exp x.
Proof. intros; reflexivity. Qed.
Lemma fwd_DualVec_exp2 : forall x : DualVec T, DualVec_ComplexField_exp2 x = m_exp2 x.
Proof. intros; reflexivity. Qed.
Lemma fwd_DualVec_exp_m1 : forall x : DualVec T, DualVec_ComplexField_exp_m1 x = m_exp_m1 x.
Proof. intros; reflexivity. Qed.
Lemma fwd_DualVec_cbrt : forall x : DualVec T, DualVec_ComplexField_cbrt x = m_cbrt x.
Proof. intros; reflexivity. Qed.
Lemma fwd_DualVec_sin_cos : forall x : DualVec T, DualVec_ComplexField_sin_cos x = m_sin_cos x.
Proof. intros; reflexivity. Qed.
Lemma fwd_DualVec_real : forall x : DualVec T, DualVec_ComplexField_real x = x.
Proof. intros; reflexivity. Qed.
Lemma fwd_DualVec_conjugate : forall x : DualVec T, DualVec_ComplexField_conjugate x = x.
Proof. intros; reflexivity. Qed.
Lemma fwd_DualVec_from_real : forall x : DualVec T, DualVec_ComplexField_from_real x = x.
Proof. intros; reflexivity. Qed.
Lemma fwd_DualVec_imaginary : forall x : DualVec T, DualVec_ComplexField_imaginary x = (zero : DualVec T).
Proof. intros; reflexivity. Qed.
Lemma fwd_DualVec_modulus : forall x : DualVec T, DualVec_ComplexField_modulus x = m_abs x.
Proof. intros; reflexivity. Qed.
Lemma fwd_DualVec_norm1 : forall x : DualVec T, DualVec_ComplexField_norm1 x = m_abs x.
Proof. intros; reflexivity. Qed.
Lemma fwd_DualVec_abs : forall x : DualVec T, DualVec_ComplexField_abs x = m_abs x.
Proof. intros; reflexivity. Qed.
Lemma fwd_DualVec_modulus_squared : forall x : DualVec T, DualVec_ComplexField_modulus_squared x = x * x.
Proof. intros; reflexivity. Qed.
Lemma fwd_DualVec_argument : forall x : DualVec T, DualVec_ComplexField_argument x = if ((zero : T) <=? DualVec_f_re x) then (zero : DualVec T) else DualVec_from_re (ofF (fl_const C_PI : F) : T).
Proof. intros; reflexivity. Qed.
Lemma fwd_DualVec_scale : forall x f : DualVec T, DualVec_ComplexField_scale x f = x * f /\ DualVec_ComplexField_unscale x f = x / f.
Proof. intros; split; reflexivity. Qed.
Lemma fwd_DualVec_hypot : forall x y : DualVec T, DualVec_ComplexField_hypot x y = m_sqrt (m_powi x 2%Z + m_powi y 2%Z).
Proof. intros; reflexivity. Qed.
Lemma fwd_DualVec_log : forall x b : DualVec T, DualVec_ComplexField_log x b = m_ln x / m_ln b.
Proof. intros; reflexivity. Qed.
Lemma fwd_DualVec_pow : forall (x n : DualVec T) (k : Z), DualVec_ComplexField_powf x n = m_powd x n /\ DualVec_ComplexField_powc x n = m_powd x n /\ DualVec_ComplexField_powi x k = m_powi x k.
Proof. intros; repeat split; reflexivity. Qed.
Lemma fwd_DualVec_mul_add : forall x a b : DualVec T, DualVec_ComplexField_mul_add x a b = m_mul_add x a b.
Proof. intros; reflexivity. Qed.
Lemma fwd_DualVec_atan2 : forall y x : DualVec T, DualVec_RealField_atan2 y x = m_atan2 y x.
Proof. intros; reflexivity. Qed.
Lemma sel_DualVec_max_min : forall x y : DualVec T, (DualVec_RealField_max x y = x \/ DualVec_RealField_max x y = y) /\ (DualVec_RealField_min x y = x \/ DualVec_RealField_min x y = y).
Proof. intros; unfold DualVec_RealField_max, DualVec_RealField_min; split; match goal with |- context [if ?c then _ else _] => destruct c end; auto. Qed.
Lemma sel_DualVec_clamp : forall x lo hi : DualVec T, DualVec_RealField_clamp x lo hi = x \/ DualVec_RealField_clamp x lo hi = lo \/ DualVec_RealField_clamp x lo hi = hi.
Proof. intros; unfold DualVec_RealField_clamp; repeat match goal with |- context [if ?c then _ else _] => destruct c end; auto. Qed.
Lemma sel_DualVec_copysign : forall x s : DualVec T, DualVec_RealField_copysign x s = m_abs x \/ DualVec_RealField_copysign x s = - (m_abs x).
Proof. intros; unfold DualVec_RealField_copysign; match goal with |- context [if ?c then _ else _] => destruct c end; auto. Qed.
Lemma sign_DualVec : forall x : DualVec T, DualVec_RealField_is_sign_positive x = fl_sign_pos (m_re (DualVec_f_re x)) /\ DualVec_RealField_is_sign_negative x = negb (fl_sign_pos (m_re (DualVec_f_re x))).
Proof. intros; split; reflexivity. Qed.
Lemma const_Dual2Vec_pi : Dual2Vec_RealField_pi = Dual2Vec_from_re (ofF (fl_const C_PI : F) : T).
Proof. reflexivity. Qed.
Lemma const_Dual2Vec_two_pi : Dual2Vec_RealField_two_pi = Dual2Vec_from_re (ofF (fl_const C_TAU : F) : T).
Proof. reflexivity. Qed.
Lemma const_Dual2Vec_frac_pi_2 : Dual2Vec_RealField_frac_pi_2 = Dual2Vec_from_re (ofF (fl_const C_FRAC_PI_2 : F) : T).
Proof. reflexivity. Qed.
Lemma const_Dual2Vec_frac_pi_3 : Dual2Vec_RealField_frac_pi_3 = Dual2Vec_from_re (ofF (fl_const C_FRAC_PI_3 : F) : T).
Proof. reflexivity. Qed.
Lemma const_Dual2Vec_frac_pi_4 : Dual2Vec_RealField_frac_pi_4 = Dual2Vec_from_re (ofF (fl_const C_FRAC_PI_4 : F) : T).
Proof. reflexivity. Qed.
Lemma const_Dual2Vec_frac_pi_6 : Dual2Vec_RealField_frac_pi_6 = Dual2Vec_from_re (ofF (fl_const C_FRAC_PI_6 : F) : T).
Proof. reflexivity. Qed.
Lemma const_Dual2Vec_frac_pi_8 : Dual2Vec_RealField_frac_pi_8 = Dual2Vec_from_re (ofF (fl_const C_FRAC_PI_8 : F) : T).
Proof. reflexivity. Qed.
Lemma const_Dual2Vec_frac_1_pi : Dual2Vec_RealField_frac_1_pi = Dual2Vec_from_re (ofF (fl_const C_FRAC_1_PI : F) : T).
Proof. reflexivity. Qed.
Lemma const_Dual2Vec_frac_2_pi : Dual2Vec_RealField_frac_2_pi = Dual2Vec_from_re (ofF (fl_const C_FRAC_2_PI : F) : T).
Proof. reflexivity. Qed.
Lemma const_Dual2Vec_frac_2_sqrt_pi : Dual2Vec_RealField_frac_2_sqrt_pi = Dual2Vec_from_re (ofF (fl_const C_FRAC_2_SQRT_PI : F) : T).
Proof. reflexivity. Qed.
Lemma const_Dual2Vec_e : Dual2Vec_RealField_e = Dual2Vec_from_re (ofF (fl_const C_E : F) : T).
Proof. reflexivity. Qed.
Lemma const_Dual2Vec_log2_e : Dual2Vec_RealField_log2_e = Dual2Vec_from_re (ofF (fl_const C_LOG2_E : F) : T).
Proof. reflexivity. Qed.
Lemma const_Dual2Vec_log10_e : Dual2Vec_RealField_log10_e = Dual2Vec_from_re (ofF (fl_const C_LOG10_E : F) : T).
Proof. reflexivity. Qed.
Lemma const_Dual2Vec_ln_2 : Dual2Vec_RealField_ln_2 = Dual2Vec_from_re (ofF (fl_const C_LN_2 : F) : T).
Proof. reflexivity. Qed.
Lemma const_Dual2Vec_ln_10 : Dual2Vec_RealField_ln_10 = Dual2Vec_from_re (ofF (fl_const C_LN_10 : F) : T).
Proof. reflexivity. Qed.
Lemma fwd_Dual2Vec_recip : forall x : Dual2Vec T, Dual2Vec_ComplexField_recip x = m_recip x.
Proof. intros; reflexivity. Qed.
Lemma fwd_Dual2Vec_sin : forall x : Dual2Vec T, Dual2Vec_ComplexField_sin x = m_sin x.
Proof. intros; reflexivity. Qed.
Lemma fwd_Dual2Vec_cos : forall x : Dual2Vec T, Dual2Vec_ComplexField_cos x = m_cos x.
Proof. intros; reflexivity. Qed.
Lemma fwd_Dual2Vec_tan : forall x : Dual2Vec T, Dual2Vec_ComplexField_tan x = m_tan x.
Proof. intros; reflexivity. Qed.
Lemma fwd_Dual2Vec_asin : forall x : Dual2Vec T, Dual2Vec_ComplexField_asin x = m_asin x.
Proof. intros; reflexivity. Qed.
Lemma fwd_Dual2Vec_acos : forall x : Dual2Vec T, Dual2Vec_ComplexField_acos x = m_acos x.
Proof. intros; reflexivity. Qed.
Lemma fwd_Dual2Vec_atan : forall x : Dual2Vec T, Dual2Vec_ComplexField_atan x = m_atan x.
Proof. intros; reflexivity. Qed.
Lemma fwd_Dual2Vec_sinh : forall x : Dual2Vec T, Dual2Vec_ComplexField_sinh x = m_sinh x.
Proof. intros; reflexivity. Qed.
Lemma fwd_Dual2Vec_cosh : forall x : Dual2Vec T, Dual2Vec_ComplexField_cosh x = m_cosh x.
Proof. intros; reflexivity. Qed.
Lemma fwd_Dual2Vec_tanh : forall x : Dual2Vec T, Dual2Vec_ComplexField_tanh x = m_tanh x.
Proof. intros; reflexivity. Qed.
Lemma fwd_Dual2Vec_asinh : forall x : Dual2Vec T, Dual2Vec_ComplexField_asinh x = m_asinh x.
Proof. intros; reflexivity. Qed.
Lemma fwd_Dual2Vec_acosh : forall x : Dual2Vec T, Dual2Vec_ComplexField_acosh x = m_acosh x.
Proof. intros; reflexivity. Qed.
Lemma fwd_Dual2Vec_atanh : forall x : Dual2Vec T, Dual2Vec_ComplexField_atanh x = m_atanh x.
Proof. intros; reflexivity. Qed.
Lemma fwd_Dual2Vec_log2 : forall x : Dual2Vec T, Dual2Vec_ComplexField_log2 x = m_log2 x.
Proof. intros; reflexivity. Qed.
Lemma fwd_Dual2Vec_log10 : forall x : Dual2Vec T, Dual2Vec_ComplexField_log10 x = m_log10 x.
Proof. intros; reflexivity. Qed.
Lemma fwd_Dual2Vec_ln : forall x : Dual2Vec T, Dual2Vec_ComplexField_ln x = m_ln x.
Proof. intros; reflexivity. Qed.
Lemma fwd_Dual2Vec_ln_1p : forall x : Dual2Vec T, Dual2Vec_ComplexField_ln_1p x = m_ln_1p x.
Proof. intros; reflexivity. Qed.
Lemma fwd_Dual2Vec_sqrt : forall x : Dual2Vec T, Dual2Vec_ComplexField_sqrt x = m_sqrt x.
Proof. intros; reflexivity. Qed.
Lemma fwd_Dual2Vec_exp : forall x : Dual2Vec T, Dual2Vec_ComplexField_exp x = m_exp x.
Proof. intros; reflexivity. Qed.
Lemma fwd_Dual2Vec_exp2 : forall x : Dual2Vec T, Dual2Vec_ComplexField_exp2 x = m_exp2 x.
Proof. intros; reflexivity. Qed.
Lemma fwd_Dual2Vec_exp_m1 : forall x : Dual2Vec T, Dual2Vec_ComplexField_exp_m1 x = m_exp_m1 x.
Proof. intros; reflexivity. Qed.
Lemma fwd_Dual2Vec_cbrt : forall x : Dual2Vec T, Dual2Vec_ComplexField_cbrt x = m_cbrt x.
Proof. intros; reflexivity. Qed.
Lemma fwd_Dual2Vec_sin_cos : forall x : Dual2Vec T, Dual2Vec_ComplexField_sin_cos x = m_sin_cos x.
Proof. intros; reflexivity. Qed.
Lemma fwd_Dual2Vec_real : forall x : Dual2Vec T, Dual2Vec_ComplexField_real x = x.
Proof. intros; reflexivity. Qed.
Lemma fwd_Dual2Vec_conjugate : forall x : Dual2Vec T, Dual2Vec_ComplexField_conjugate x = x.
Proof. intros; reflexivity. Qed.
Lemma fwd_Dual2Vec_from_real : forall x : Dual2Vec T, Dual2Vec_ComplexField_from_real x = x.
Proof. intros; reflexivity. Qed.
Lemma fwd_Dual2Vec_imaginary : forall x : Dual2Vec T, Dual2Vec_ComplexField_imaginary x = (zero : Dual2Vec T).
Proof. intros; reflexivity. Qed.
Lemma fwd_Dual2Vec_modulus : forall x : Dual2Vec T, Dual2Vec_ComplexField_modulus x = m_abs x.
Proof. intros; reflexivity. Qed.
Lemma fwd_Dual2Vec_norm1 : forall x : Dual2Vec T, Dual2Vec_ComplexField_norm1 x = m_abs x.
Proof. intros; reflexivity. Qed.
Lemma fwd_Dual2Vec_abs : forall x : Dual2Vec T, Dual2Vec_ComplexField_abs x = m_abs x.
Proof. intros; reflexivity. Qed.
Lemma fwd_Dual2Vec_modulus_squared : forall x : Dual2Vec T, Dual2Vec_ComplexField_modulus_squared x = x * x.
Proof. intros; reflexivity. Qed.
Lemma fwd_Dual2Vec_argument : forall x : Dual2Vec T, Dual2Vec_ComplexField_argument x = if ((zero : T) <=? Dual2Vec_f_re x) then (zero : Dual2Vec T) else Dual2Vec_from_re (ofF (fl_const C_PI : F) : T).
Proof. intros; reflexivity. Qed.
Lemma fwd_Dual2Vec_scale : forall x f : Dual2Vec T, Dual2Vec_ComplexField_scale x f = x * f /\ Dual2Vec_ComplexField_unscale x f = x / f.
Proof. intros; split; reflexivity. Qed.
Lemma fwd_Dual2Vec_hypot : forall x y : Dual2Vec T, Dual2Vec_ComplexField_hypot x y = m_sqrt (m_powi x 2%Z + m_powi y 2%Z).
Proof. intros; reflexivity. Qed.
Lemma fwd_Dual2Vec_log : forall x b : Dual2Vec T, Dual2Vec_ComplexField_log x b = m_ln x / m_ln b.
Proof. intros; reflexivity. Qed.
Lemma fwd_Dual2Vec_pow : forall (x n : Dual2Vec T) (k : Z), Dual2Vec_ComplexField_powf x n = m_powd x n /\ Dual2Vec_ComplexField_powc x n = m_powd x n /\ Dual2Vec_ComplexField_powi x k = m_powi x k.
Proof. intros; repeat split; reflexivity. Qed.
Lemma fwd_Dual2Vec_mul_add : forall x a b : Dual2Vec T, Dual2Vec_ComplexField_mul_add x a b = m_mul_add x a b.
Proof. intros; reflexivity. Qed.
Lemma fwd_Dual2Vec_atan2 : forall y x : Dual2Vec T, Dual2Vec_RealField_atan2 y x = m_atan2 y x.
Proof. intros; reflexivity. Qed.
Lemma sel_Dual2Vec_max_min : forall x y : Dual2Vec T, (Dual2Vec_RealField_max x y = x \/ Dual2Vec_RealField_max x y = y) /\ (Dual2Vec_RealField_min x y = x \/ Dual2Vec_RealField_min x y = y).
Proof. intros; unfold Dual2Vec_RealField_max, Dual2Vec_RealField_min; split; match goal with |- context [if ?c then _ else _] => destruct c end; auto. Qed.
Lemma sel_Dual2Vec_clamp : forall x lo hi : Dual2Vec T, Dual2Vec_RealField_clamp x lo hi = x \/ Dual2Vec_RealField_clamp x lo hi = lo \/ Dual2Vec_RealField_clamp x lo hi = hi.
Proof. intros; unfold Dual2Vec_RealField_clamp; repeat match goal with |- context [if ?c then _ else _] => destruct c end; auto. Qed.
Lemma sel_Dual2Vec_copysign : forall x s : Dual2Vec T, Dual2Vec_RealField_copysign x s = m_abs x \/ Dual2Vec_RealField_copysign x s = - (m_abs x).
Proof. intros; unfold Dual2Vec_RealField_copysign; match goal with |- context [if ?c then _ else _] => destruct c end; auto. Qed.
Lemma sign_Dual2Vec : forall x : Dual2Vec T, Dual2Vec_RealField_is_sign_positive x = fl_sign_pos (m_re (Dual2Vec_f_re x)) /\ Dual2Vec_RealField_is_sign_negative x = negb (fl_sign_pos (m_re (Dual2Vec_f_re x))).
Proof. intros; split; reflexivity. Qed.
End C11.
