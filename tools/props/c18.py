"""C18 -- textual rendering shows every part faithfully."""
import re
import vlib, genvals
from vlib import Case
from props.base import BaseProp, Violation

SYMS = {'Dual': ['ε'], 'Dual2': ['ε1', 'ε1²'], 'Dual3': ['v1', 'v2', 'v3'], 'HyperDual': ['ε1', 'ε2', 'ε1ε2'],
        'HyperHyperDual': ['ε1', 'ε2', 'ε3', 'ε1ε2', 'ε1ε3', 'ε2ε3', 'ε1ε2ε3'], 'DualVec': ['ε'], 'Dual2Vec': ['ε1', 'ε1²'],
        'HyperDualVec': ['ε1', 'ε2', 'ε1ε2']}


def leaf_print(rng):
    k = rng.below(8)
    if k == 0:
        return rng.choice([0.0, -0.0, 1.0, -1.0, 0.1, 1e-7, 1e21, 123456789.125, 5e-324, 1.7976931348623157e308])
    if k == 1:
        return float(rng.below(2000) - 1000)
    return genvals.leaf_rand(rng)


def expected_canon(v, ty):
    """independent rendering of the property's statement: real part, then every PRESENT part in declaration order, numbers in
    reading order, documented symbol (canonical form: numbers as <bits>, layout dropped)"""
    if ty.is_float:
        return '<%s>' % vlib.canon_bits(v, ty.width)
    out = expected_canon(v[0], ty.inner)
    for fld, x, sym in zip(ty.fields()[1:], v[1:], SYMS[ty.struct]):
        if fld['kind'] == 'T':
            out += '+' + expected_canon(x, ty.inner) + sym
        elif x is not None:
            r, c, es = x
            if r == 1 and c == 1:
                body = expected_canon(es[0], ty.inner)
            elif r == 1 or c == 1:
                body = '[' + ','.join(expected_canon(e, ty.inner) for e in es) + ']'
            elif r * c == 0:
                body = '[]'          # an empty (0 x n, n x 0) matrix part of a dynamically sized number: nalgebra's printer writes an empty bracket pair
            else:
                body = ''.join(expected_canon(es[j * r + i], ty.inner) for i in range(r) for j in range(c))    # row-major reading order
            out += '+' + body + sym
    return out


class Prop(BaseProp):
    coq_targets = ['ND/Proofs/C18_proofs.vo']
    extra_model_targets = ['gen/Gen_Display.vo', 'ND/Hand/DerFmt.vo', 'ND/Base/Show.vo']
    extra_imports = 'From ND Require Import Show DerFmt.\nFrom NDgen Require Import Gen_Display.'
    n_quick, n_thorough = 500, 8000

    def cases(self, rng, n):
        tys = genvals.type_list(self.tier, include32=True)
        extra = ['DualDVec64:1', 'DualDVec64:0', 'Dual2DVec64:1', 'HyperDualDVec64:1:1', 'HyperDualDVec64:4:1', 'HyperDualDVec64:1:4', 'DualSVec_Dual64_2',
                 'Dual_HyperDual64', 'Dual3_Dual64']
        tys = tys + [vlib.types()[e] for e in extra]
        out = []
        k = 0
        while len(out) < n:
            ty = tys[k % len(tys)]
            k += 1
            pres = [None, True, False][rng.below(3)]
            a = genvals.gen_value(rng, ty, leaf_print, presence=pres)
            out.append(Case('c%d' % len(out), ty, 'display', [a], tag={None: 'mixed', True: 'present', False: 'absent'}[pres]))
        return out

    def model_applicable(self, case):
        return case.ty.leaf().width == 64

    def oracle(self, case, impl):
        if impl == 'panic':
            return Violation('counterexample', 'Display of %s panics' % case.ty, case=case, obtained='panic')
        want = expected_canon(case.args[0], case.ty)
        if impl != want:
            return Violation('counterexample', 'Display of %s does not list the parts faithfully (numbers parsed back and compared by bits, symbols by text)' % case.ty,
                             case=case, expected=want, obtained=impl)
        return None

    def nontrivial(self, case, impl):
        return impl != 'panic' and not case.ty.is_float

    def rule_text(self):
        return ('to_string of every type of the tier matrix plus dimensions 0, 1 and 1xN/Nx1 hyper-dual shapes, nested and vector-of-dual types, f32 types; parts from integers, '
                'extremes (5e-324, 1.8e308, 1e21, 1e-7), signed zeros and random values; presence all / none / random; every printed number is parsed back and compared by bits, '
                'symbols compared as text, in order; compared with the generated token model and with an independent rendering of the documented layout')
