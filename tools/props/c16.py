"""C16 -- serialization round-trips every part of a dual number."""
import os, re, subprocess
import vlib, genvals
from vlib import Case, InfraError
from props.base import BaseProp, Violation
from props.c18 import leaf_print

TYPES = ['Dual64', 'Dual2_64', 'Dual3_64', 'HyperDual64', 'HyperHyperDual64', 'Dual32', 'Dual2_32', 'Dual3_32', 'HyperDual32', 'Dual_Dual64',
         'Dual_Dual_Dual64', 'Dual2_Dual64', 'Dual_Dual2_64', 'Dual3_Dual64', 'HyperDual_Dual64', 'Dual_HyperDual64', 'Dual2_Dual2_64']


def coq_ty(ty):
    return 'TLeaf' if ty.is_float else '(TStruct d_%s %s)' % (ty.struct, coq_ty(ty.inner))


class Prop(BaseProp):
    coq_targets = ['ND/Hand/Serde.vo', 'gen/Gen_Serde.vo']
    n_quick, n_thorough = 400, 6000

    def step_correspondence(self):
        rng = self.rng.fork('cases')
        n = self.n_quick if self.tier == 'quick' else self.n_thorough
        T = vlib.types()
        exe = vlib.build_harness('dev')
        self.exe = exe
        # leaf values that the same serde_json build round-trips as plain floats (the property's "exactly representable in the format")
        cand = {64: [], 32: []}
        for w in (64, 32):
            for _ in range(600):
                x = leaf_print(rng)
                if x != x or abs(x) == float('inf'):
                    continue
                b = genvals.enc_leaf(x, w)
                if w == 32 and (b & 0x7f800000) == 0x7f800000:
                    continue
                cand[w].append(b)
        good = {64: [], 32: []}
        for w, name in ((64, 'f64'), (32, 'f32')):
            lines = ['p%d serde %s x | %s' % (i, name, ('%016x' if w == 64 else '%08x') % b) for i, b in enumerate(cand[w])]
            raw = vlib.run_harness(exe, lines)
            for i, b in enumerate(cand[w]):
                st, toks = raw['p%d' % i]
                if st == 'ok' and int(toks[0], 16) == b:
                    good[w].append(b)
        self.cov['leaf_pool'] = {'f64': len(good[64]), 'f32': len(good[32]), 'rejected_f64': len(cand[64]) - len(good[64]), 'rejected_f32': len(cand[32]) - len(good[32])}
        # expected key sequences from the Coq model evaluated on the extracted tables
        expected = self.model_keys([T[t] for t in TYPES])
        lines, cases = [], []
        for k in range(n):
            ty = T[TYPES[k % len(TYPES)]]
            w = ty.leaf().width
            pool = good[w]
            v = genvals.gen_value(rng, ty, lambda r: 0.0)
            def fill(v, t):
                if t.is_float:
                    return rng.choice(pool)
                return [fill(x, t.inner) for x in v]
            v = fill(v, ty)
            c = Case('c%d' % k, ty, 'serde', [v])
            cases.append(c)
            lines.append('c%d serde %s x | %s' % (k, vlib.harness_type_name(ty), ' '.join(vlib.val_to_tokens(v, ty))))
        raw = vlib.run_harness(exe, lines)
        nontriv = 0
        for c in cases:
            st, toks = raw[c.id]
            if st != 'ok':
                self.violations.append(Violation('counterexample', 'serde round trip of %s panics' % c.ty, case=c.describe(), obtained='panic'))
                continue
            back, i = vlib.val_from_tokens(toks, c.ty)
            keys = bytes.fromhex(toks[i][1:]).decode().split(',') if toks[i] != 'k' else []
            if back != c.args[0]:
                self.violations.append(Violation('counterexample', 'serde round trip of %s does not restore every part bit for bit' % c.ty, case=c.describe(),
                                                 expected=vlib.val_to_tokens(c.args[0], c.ty), obtained=vlib.val_to_tokens(back, c.ty)))
            elif i + 1 < len(toks) and toks[i + 1] == 'v0':
                self.violations.append(Violation('counterexample', 'round trip of %s through serde_json::Value (keys handed over in alphabetical order) does not restore every part bit for bit' % c.ty,
                                                 case=c.describe(), expected=vlib.val_to_tokens(c.args[0], c.ty), obtained='differs'))
            elif keys != expected[c.ty.hname]:
                self.violations.append(Violation('counterexample', 'serialized %s stores its parts under keys %s, the model (documented names) says %s' % (c.ty, keys, expected[c.ty.hname]),
                                                 case=c.describe(), expected=expected[c.ty.hname], obtained=keys))
            else:
                nontriv += 1
        self.cases_run = cases
        self.cov.update({'evaluations': len(cases), 'distinct_nontrivial': nontriv,
                         'correspondence': {'cases': len(cases), 'agree': nontriv, 'disagree': len(cases) - nontriv, 'model_errors': 0},
                         'samples': [dict(c.describe(), keys=expected[c.ty.hname]) for c in cases[:4]]})
        vlib.log('%s: %d serde round trips, %d agree with the model' % (self.pid, len(cases), nontriv))

    def model_keys(self, tys):
        cdir = vlib.CACHE + '/cases/C16'
        os.makedirs(cdir, exist_ok=True)
        src = ['From Coq Require Import String List.', 'From ND Require Import Serde.', 'From NDgen Require Import Gen_Serde.', 'Import ListNotations.']
        for s_ in ('Dual', 'Dual2', 'Dual3', 'HyperDual', 'HyperHyperDual'):
            src.append('Definition d_%s := {| sd_members := serde_members_%s; sd_ser := serde_ser_%s; sd_de := serde_de_%s |}.' % (s_, s_, s_, s_))
        for t in tys:
            src.append('Eval vm_compute in (all_keys %s).' % coq_ty(t))
        open(cdir + '/keys.v', 'w').write('\n'.join(src) + '\n')
        rc, o, e = vlib.sh(['coqc', '-noglob'] + vlib.COQFLAGS + [cdir + '/keys.v'], 600, cwd=cdir)
        if rc != 0:
            raise InfraError('model key evaluation failed: ' + (e or o)[-800:])
        blocks = re.findall(r'=\s*\[(.*?)\]\s*:\s*list string', o, re.S)
        if len(blocks) != len(tys):
            raise InfraError('model key evaluation: %d results for %d types' % (len(blocks), len(tys)))
        return {t.hname: re.findall(r'"(\w+)"', b) for t, b in zip(tys, blocks)}

    def step_search(self):
        pass

    def rule_text(self):
        return ('serde_json round trips of all scalar types over f32/f64 and nestings to depth 3; leaf values drawn from a pool of finite values that the same serde_json build round-trips '
                'as plain floats (integers, extremes, signed zeros, random); compared: every part bit for bit (through the JSON text and through serde_json::Value, whose map hands the keys over in alphabetical order), and the key sequence of the JSON text against the model evaluated on the tables '
                'extracted from the serde_derive output; non-trivial = both agree')
