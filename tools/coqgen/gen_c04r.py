#!/usr/bin/env python3
"""Writes coq/ND/Proofs/C04_real.v and coq/ND/Props/C04.v: the agreement theorems with the domain condition stated on the real function."""
PAIRS = [
 # name, binders, hyp, X, Y, f, famtac, F0tac, l0, partX, nested
 ('DualVec_Dual', '(i : nat)', '', 'DualVec', 'Dual', '(fun _ : unit => i)', 'unfold fam_c04_Dual in F; exists i; in_cases F; simpl; auto', 'exists 0%nat; simpl; auto', 'i', 'part_DualVec', False,
  'rel_DualVec_Dual i', 'vector type, component i  <->  scalar first-order type'),
 ('Dual2Vec_HyperDual', '(i j : nat)', '', 'Dual2Vec', 'HyperDual', '(f_ij i j)', 'unfold fam_c04_HyperDual in F; in_cases F; simpl; [exists i, j | exists i, j | exists j, j | exists i, j]; simpl; auto', 'exists 0%nat, 0%nat; simpl; auto', 'i', 'part_Dual2Vec', False,
  'rel_Dual2Vec_HyperDual i j', 'second-order vector type, entries (i), (j), (i,j)  <->  hyper-dual scalar type'),
 ('HyperDualVec_HyperDual', '(i j : nat)', '', 'HyperDualVec', 'HyperDual', '(f_ij (inl i) (inr j))', 'unfold fam_c04_HyperDual in F; exists i, j; in_cases F; simpl; auto', 'exists 0%nat, 0%nat; simpl; auto', '(inl i)', 'part_HyperDualVec', False,
  'rel_HyperDualVec_HyperDual i j', 'hyper-dual vector type, entries (i), (j), (i,j)  <->  hyper-dual scalar type'),
 ('Dual2_HyperDual', '', '', 'Dual2', 'HyperDual', '(fun _ : nat => tt)', 'unfold fam_c04_HyperDual in F; unfold fam_c04_Dual2; in_cases F; simpl; auto', 'unfold fam_c04_Dual2; simpl; auto', 'tt', 'part_Dual2', False,
  'rel_Dual2_HyperDual', 'the same variable differentiated twice  <->  two directions on that variable'),
 ('Dual3_HHD', '', '', 'Dual3', 'HyperHyperDual', '(fun _ : nat => tt)', 'unfold fam_c04_HyperHyperDual in F; unfold fam_c04_Dual3; in_cases F; simpl; auto 8', 'unfold fam_c04_Dual3; simpl; auto', 'tt', 'part_Dual3', False,
  'rel_Dual3_HHD', 'the same variable differentiated three times  <->  three directions on that variable'),
 ('Dual3_Dual2', '', '', 'Dual3', 'Dual2', '(fun u : unit => u)', 'unfold fam_c04_Dual2 in F; unfold fam_c04_Dual3; in_cases F; simpl; auto 8', 'unfold fam_c04_Dual3; simpl; auto', 'tt', 'part_Dual3', False,
  'rel_Dual3_Dual2', 'lower orders are prefixes of higher orders'),
 ('Dual2_Dual', '', '', 'Dual2', 'Dual', '(fun u : unit => u)', 'unfold fam_c04_Dual in F; unfold fam_c04_Dual2; in_cases F; simpl; auto 8', 'unfold fam_c04_Dual2; simpl; auto', 'tt', 'part_Dual2', False,
  'rel_Dual2_Dual', ''),
 ('HyperDual_Dual', '(k : nat)', '(k = 1 \\/ k = 2)%nat', 'HyperDual', 'Dual', '(fun _ : unit => k)', 'unfold fam_c04_Dual in F; unfold fam_c04_HyperDual; destruct Hk as [ -> | -> ]; in_cases F; simpl; auto 8', 'unfold fam_c04_HyperDual; simpl; auto', 'k', 'part_HyperDual', False,
  'rel_HyperDual_Dual k', 'hyper-dual: each direction alone is a first-order number'),
 ('HyperDual_DD', '', '', 'HyperDual', 'DD', '(fun n : nat => n)', 'rewrite map_id; exact F', 'unfold fam_c04_HyperDual; simpl; auto', '0%nat', 'part_HyperDual', True,
  'rel_HyperDual_DD', 'hyper-dual  <->  nested first-order numbers Dual<Dual<R>>'),
 ('HHD_DDD', '', '', 'HyperHyperDual', 'DDD', '(fun n : nat => n)', 'rewrite map_id; exact F', 'unfold fam_c04_HyperHyperDual; simpl; auto', '0%nat', 'part_HHD', True,
  'rel_HHD_DDD', 'hyper-hyper-dual  <->  triply nested first-order numbers'),
]
COQT = {'DD': 'Dual (Dual R)', 'DDD': 'Dual (Dual (Dual R))'}
proofs = ['''(* Proofs/C04_real.v -- written by tools/coqgen/gen_c04r.py: the agreement theorems of C04_proofs / C04_nested with the domain condition stated on
   the real function the program computes (okR), through C03_proofs.prog_agree_R. *)
From ND Require Import Tactics C02_proofs C01_towers C01_faa C07_proofs Prog Agree C04_inst C04_proofs C04_nested C03_proofs.
Local Open Scope R_scope.
''']
props = ['''(* Props/C04.v -- property C04: all number types, nestings and storage variants agree on shared derivatives.
   For EVERY program of Hand/Prog.v whose intermediate real values lie in the operations' domains (okR, a condition on the real function only), the
   parts of the evaluation over one type equal the corresponding parts of the evaluation over the other:  rel f x y  :=  wf x /\\ wf y /\\ for every
   block S of y's family, part y S = part x (map f S).  Dimensions and presence patterns are arbitrary (absent parts read as 0; the generated
   code is the same for static and dynamic storage).  Only `exact` proofs here. *)
From ND Require Import Tactics C02_proofs C01_towers C01_faa C07_proofs Prog Agree C04_inst C04_proofs C04_nested C03_proofs C04_real C04_nderiv.
From NDgen Require Import Classes Gen_Float Gen_Derivative Gen_Dual Gen_Dual2 Gen_Dual3 Gen_HyperDual Gen_HyperHyperDual Gen_DualVec Gen_Dual2Vec Gen_HyperDualVec.
Local Open Scope R_scope.
''']
names = []
for (nm, bind, hyp, X, Y, f, famtac, f0tac, l0, partX, nested, relname, comment) in PAIRS:
    TX = COQT.get(X, X + ' R')
    TY = COQT.get(Y, Y + ' R')
    hy = ('%s -> ' % hyp) if hyp else ''
    ex = ' -> exps pw_nested p' if nested else ''
    stmt = 'forall %s(p : prog) (envX : list (%s)) (envY : list (%s)), %sForall2 (%s) envX envY -> okR (map (fun x => %s x nil) envX) p%s -> %s (eval envX p) (eval envY p)' % (
        (bind + ' ') if bind else '', TX, TY, hy, relname, partX, ex, relname)
    JX = 'JA_c04_' + X
    JY = 'JA_c04_' + Y
    proofs.append('Lemma agreeR_%s : %s.' % (nm, stmt))
    intro = 'intros %sp envX envY %sHE Hok%s.' % ((' '.join(b.split(':')[0].strip('( ') for b in [bind]) + ' ') if bind else '', 'Hk ' if hyp else '', ' Hex' if nested else '')
    if nested:
        extac = 'apply (exps_imp pw_nested); [intros n H; split; [exact I|exact H]|exact Hex]'
    else:
        extac = 'apply (exps_imp (fun _ => True)); [tauto|apply exps_true]'
    proofs.append('Proof.\n  %s\n  assert (fam_f : forall S, fam_c04_%s S -> fam_c04_%s (map %s S)) by (intros S F; %s).\n  assert (F0 : fam_c04_%s nil) by (%s).' % (
        intro, {'DD': 'HyperDual', 'DDD': 'HyperHyperDual'}.get(Y, Y), X, f, famtac, X, f0tac))
    proofs.append('  apply (prog_agree_R %s %s %s fam_f F0 %s p envX envY HE Hok). %s.\nQed.' % (JX, JY, f, l0, extac))
    if comment:
        props.append('(* %s *)' % comment)
    props.append('Theorem C04_%s : %s.\nProof. exact agreeR_%s. Qed.' % (nm, stmt, nm))
    names.append('C04_' + nm)
props.append('''
(* the advertised maximum derivative order of a (nested) type is the sum over its levels, for any scalar instance and any inner type *)
Section NDeriv.
  Context {F T : Type} {dnFT : DN F T} {ordT : DNOrd T}.
  Theorem C04_nderiv_levels :
    nderiv (Dual T) = (nderiv T + 1)%nat /\\ nderiv (DualVec T) = (nderiv T + 1)%nat /\\
    nderiv (Dual2 T) = (nderiv T + 2)%nat /\\ nderiv (Dual2Vec T) = (nderiv T + 2)%nat /\\
    nderiv (HyperDual T) = (nderiv T + 2)%nat /\\ nderiv (HyperDualVec T) = (nderiv T + 2)%nat /\\
    nderiv (Dual3 T) = (nderiv T + 3)%nat /\\ nderiv (HyperHyperDual T) = (nderiv T + 3)%nat.
  Proof. exact nderiv_levels. Qed.
End NDeriv.
Theorem C04_nderiv_float : forall {F} {fl : FL F}, nderiv F = 0%nat.
Proof. exact @nderiv_float. Qed.

(* non-vacuity: the seeds of a gradient in direction 1 and of a scalar derivative are related, and x0 * sin(x1) satisfies the domain condition *)
Example C04_example : Forall2 (rel_DualVec_Dual 1) (mkDualVec 3 (mkDerivative (Some (mkMat 2 1 (fun i _ => if Nat.eqb i 1 then 1 else 0)))) :: nil) (mkDual 3 1 :: nil) /\\
  okR (3 :: nil) (PBin B_mul (PVar 0) (PUn U_sin (PVar 0))).
Proof. exact example_c04. Qed.
''')
names += ['@C04_nderiv_levels', '@C04_nderiv_float']
props.append('Definition C04_bundle := (%s).\nPrint Assumptions C04_bundle.' % ',\n  '.join(names))
proofs.append('''
Lemma example_c04 : Forall2 (rel_DualVec_Dual 1) (mkDualVec 3 (mkDerivative (Some (mkMat 2 1 (fun i _ => if Nat.eqb i 1 then 1 else 0)))) :: nil) (mkDual 3 1 :: nil) /\\
  okR (3 :: nil) (PBin B_mul (PVar 0) (PUn U_sin (PVar 0))).
Proof.
  split.
  - constructor; [|constructor]. split; [exact I|]. split; [exact I|]. intros S F. unfold fam_c04_Dual in F. in_cases F; rcbv; reflexivity.
  - simpl. repeat split; try lia; discriminate.
Qed.''')
import os
root = os.path.dirname(os.path.abspath(__file__)) + '/../../coq/ND/'
open(root + 'Proofs/C04_real.v', 'w').write('\n'.join(proofs) + '\n')
open(root + 'Props/C04.v', 'w').write('\n'.join(props) + '\n')
