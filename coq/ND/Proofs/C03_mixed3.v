(* Proofs/C03_mixed3.v -- mixed THIRD partial derivatives: for every program, the eps1eps2eps3 part of the evaluation over HyperHyperDual is
   d/ds d/dt d/du of the real function the program computes along a three-parameter family of inputs (eps1 = d/ds, eps2 = d/dt, eps3 = d/du).
   A hyper-hyper-dual number is a dual number over hyper-dual numbers: h = lo h + hi h * eps3 with lo h = (re, eps1, eps2, eps1eps2) and
   hi h = (eps3, eps1eps3, eps2eps3, eps1eps2eps3); the arithmetic of the translated type IS that of Dual over HyperDual (the lohi lemmas below).
   RepT s0 t0 u0 v h: lo h represents (RepH) the family v(.,.,u0); there is g3(s,t), the u-derivative of v(s,t,.) at u0 for (s,t) near (s0,t0), and
   hi h represents g3.  So eps3 = dv/du, eps1eps3 = d/ds dv/du, eps2eps3 = d/dt dv/du and eps1eps2eps3 = d/ds d/dt dv/du, all at (s0,t0,u0). *)
From ND Require Import Tactics C02_proofs C01_towers C01_faa C07_proofs C09_proofs Prog Agree C04_inst C03_proofs C03_second C03_third C03_mixed.
Local Open Scope R_scope.

Definition lo (h : HyperHyperDual R) : HyperDual R :=
  mkHyperDual (HyperHyperDual_f_re h) (HyperHyperDual_f_eps1 h) (HyperHyperDual_f_eps2 h) (HyperHyperDual_f_eps1eps2 h).
Definition hi (h : HyperHyperDual R) : HyperDual R :=
  mkHyperDual (HyperHyperDual_f_eps3 h) (HyperHyperDual_f_eps1eps3 h) (HyperHyperDual_f_eps2eps3 h) (HyperHyperDual_f_eps1eps2eps3 h).
Definition heq (a b : HyperDual R) : Prop :=
  HyperDual_f_re a = HyperDual_f_re b /\ HyperDual_f_eps1 a = HyperDual_f_eps1 b /\ HyperDual_f_eps2 a = HyperDual_f_eps2 b /\ HyperDual_f_eps1eps2 a = HyperDual_f_eps1eps2 b.

Definition RepT (s0 t0 u0 : R) (v : R -> R -> R -> R) (h : HyperHyperDual R) : Prop :=
  RepH s0 t0 (fun s t => v s t u0) (lo h) /\
  exists g3 : R -> R -> R, locally s0 (fun s => locally t0 (fun t => is_derive (v s t) u0 (g3 s t))) /\ RepH s0 t0 g3 (hi h).

(* ---- the arithmetic of HyperHyperDual is that of Dual over HyperDual ---- *)
Lemma lohi_add x y : heq (lo (eval_bin B_add x y)) (eval_bin B_add (lo x) (lo y)) /\ heq (hi (eval_bin B_add x y)) (eval_bin B_add (hi x) (hi y)).
Proof. destruct x, y; unfold heq, lo, hi; rcbv; repeat split; ring. Qed.
Lemma lohi_sub x y : heq (lo (eval_bin B_sub x y)) (eval_bin B_sub (lo x) (lo y)) /\ heq (hi (eval_bin B_sub x y)) (eval_bin B_sub (hi x) (hi y)).
Proof. destruct x, y; unfold heq, lo, hi; rcbv; repeat split; ring. Qed.
Lemma lohi_mul x y : heq (lo (eval_bin B_mul x y)) (eval_bin B_mul (lo x) (lo y)) /\
  heq (hi (eval_bin B_mul x y)) (eval_bin B_add (eval_bin B_mul (hi x) (lo y)) (eval_bin B_mul (lo x) (hi y))).
Proof. destruct x, y; unfold heq, lo, hi; rcbv; repeat split; ring. Qed.
Lemma lohi_div x y : HyperHyperDual_f_re y <> 0 -> heq (lo (eval_bin B_div x y)) (eval_bin B_div (lo x) (lo y)) /\
  heq (hi (eval_bin B_div x y)) (eval_bin B_div (eval_bin B_sub (eval_bin B_mul (hi x) (lo y)) (eval_bin B_mul (lo x) (hi y))) (eval_bin B_mul (lo y) (lo y))).
Proof. destruct x, y; unfold heq, lo, hi; intros H; simpl in H; rcbv; repeat split; field; assumption. Qed.
Lemma lohi_scal b x (c : R) : (b = B_div -> c <> 0) -> heq (lo (eval_scal b x c)) (eval_scal b (lo x) c) /\
  heq (hi (eval_scal b x c)) (match b with B_add | B_sub => hi x | B_mul => eval_scal B_mul (hi x) c | B_div => eval_scal B_div (hi x) c end).
Proof. intros H. destruct x, b; unfold heq, lo, hi; rcbv; repeat split; try ring; field; apply H; reflexivity. Qed.
Lemma lohi_const (c : R) : heq (lo (ofF c)) (ofF c) /\ heq (hi (ofF c)) (ofF 0).
Proof. unfold heq, lo, hi; rcbv; repeat split; reflexivity. Qed.

Lemma repH_heq s0 t0 v a b : RepH s0 t0 v a -> heq b a -> RepH s0 t0 v b.
Proof.
  intros [A [vt [L [D1 [E2 D12]]]]] [H0 [H1 [H2 H12]]]. split; [rewrite H0; exact A|]. exists vt. rewrite H1, H2, H12.
  split; [exact L|split; [exact D1|split; [exact E2|exact D12]]].
Qed.

Section Loc2.
  Variables s0 t0 : R.
  Definition loc2 (P : R -> R -> Prop) : Prop := locally s0 (fun s => locally t0 (fun t => P s t)).
  Lemma loc2_and P Q : loc2 P -> loc2 Q -> loc2 (fun s t => P s t /\ Q s t).
  Proof. intros A B. unfold loc2. eapply filter_imp; [|exact (filter_and _ _ A B)]. intros s K; cbv beta in K; destruct K as [K1 K2]. exact (filter_and _ _ K1 K2). Qed.
  Lemma loc2_imp (P Q : R -> R -> Prop) : (forall s t, P s t -> Q s t) -> loc2 P -> loc2 Q.
  Proof. intros H A. unfold loc2. eapply filter_imp; [|exact A]. intros s K; cbv beta in K. eapply filter_imp; [|exact K]. intros t; apply H. Qed.
  Lemma loc2_true (P : R -> R -> Prop) : (forall s t, P s t) -> loc2 P.
  Proof. intros H. apply locally_true; intros s; apply locally_true; intros t; apply H. Qed.
  (* a represented family stays, near (s0,t0), in any open set containing its value *)
  Lemma repH_loc2_open (dom : R -> Prop) V x : (forall z, dom z -> locally z dom) -> RepH s0 t0 V x -> dom (V s0 t0) -> loc2 (fun s t => dom (V s t)).
  Proof.
    intros Hopen [_ [vt [Lv [Dvs _]]]] Hd.
    assert (C : continuous (fun s => V s t0) s0) by (apply (ex_derive_continuous (fun s => V s t0) s0); eexists; exact Dvs).
    assert (Ls : locally s0 (fun s => dom (V s t0))) by exact (C dom (Hopen _ Hd)).
    unfold loc2. eapply filter_imp; [|exact (filter_and _ _ Ls Lv)]. intros s K; cbv beta in K; destruct K as [Ps Ds].
    assert (Ct : continuous (V s) t0) by (apply (ex_derive_continuous (V s) t0); eexists; exact Ds).
    exact (Ct dom (Hopen _ Ps)).
  Qed.
End Loc2.

Section Mixed3.
  Variables s0 t0 u0 : R.
  Notation L2 := (loc2 s0 t0).

  Lemma repT_const c : RepT s0 t0 u0 (fun _ _ _ => c) (ofF c).
  Proof.
    destruct (lohi_const c) as [HL HH]. split; [apply (repH_heq s0 t0 _ (ofF c)); [apply repH_const|exact HL]|].
    exists (fun _ _ => 0). split; [apply loc2_true; intros s t; apply (is_derive_const (V:=R_NormedModule) c u0)|].
    apply (repH_heq s0 t0 _ (ofF 0)); [apply repH_const|exact HH].
  Qed.

  Lemma repT_bin b v w x y : RepT s0 t0 u0 v x -> RepT s0 t0 u0 w y -> (b = B_div -> w s0 t0 u0 <> 0) ->
    RepT s0 t0 u0 (fun s t u => eval_bin (T:=R) b (v s t u) (w s t u)) (eval_bin b x y).
  Proof.
    intros [HV [gv [Lgv Hgv]]] [HW [gw [Lgw Hgw]]] Hd.
    pose proof (loc2_and s0 t0 _ _ Lgv Lgw) as Lg.
    destruct b.
    - destruct (lohi_add x y) as [HL HH]. split.
      + apply (repH_heq s0 t0 _ _ _ (repH_bin s0 t0 B_add _ _ _ _ HV HW ltac:(discriminate)) HL).
      + exists (fun s t => eval_bin (T:=R) B_add (gv s t) (gw s t)). split.
        * eapply loc2_imp; [|exact Lg]. intros s t K; cbv beta in K; destruct K as [A B]; cbv beta in A, B. apply (is_derive_plus (V:=R_NormedModule) (v s t) (w s t) u0 _ _ A B).
        * apply (repH_heq s0 t0 _ _ _ (repH_bin s0 t0 B_add _ _ _ _ Hgv Hgw ltac:(discriminate)) HH).
    - destruct (lohi_sub x y) as [HL HH]. split.
      + apply (repH_heq s0 t0 _ _ _ (repH_bin s0 t0 B_sub _ _ _ _ HV HW ltac:(discriminate)) HL).
      + exists (fun s t => eval_bin (T:=R) B_sub (gv s t) (gw s t)). split.
        * eapply loc2_imp; [|exact Lg]. intros s t K; cbv beta in K; destruct K as [A B]; cbv beta in A, B. apply (is_derive_minus (V:=R_NormedModule) (v s t) (w s t) u0 _ _ A B).
        * apply (repH_heq s0 t0 _ _ _ (repH_bin s0 t0 B_sub _ _ _ _ Hgv Hgw ltac:(discriminate)) HH).
    - destruct (lohi_mul x y) as [HL HH]. split.
      + apply (repH_heq s0 t0 _ _ _ (repH_bin s0 t0 B_mul _ _ _ _ HV HW ltac:(discriminate)) HL).
      + exists (fun s t => eval_bin (T:=R) B_add (eval_bin (T:=R) B_mul (gv s t) (w s t u0)) (eval_bin (T:=R) B_mul (v s t u0) (gw s t))). split.
        * eapply loc2_imp; [|exact Lg]. intros s t K; cbv beta in K; destruct K as [A B]; cbv beta in A, B.
          change (is_derive (fun u => v s t u * w s t u) u0 (gv s t * w s t u0 + v s t u0 * gw s t)). auto_derive; [exd|]. un A; un B. ring.
        * refine (repH_heq s0 t0 _ _ _ _ HH).
          apply (repH_bin s0 t0 B_add); [apply (repH_bin s0 t0 B_mul _ _ _ _ Hgv HW); discriminate|apply (repH_bin s0 t0 B_mul _ _ _ _ HV Hgw); discriminate|discriminate].
    - assert (Hw : w s0 t0 u0 <> 0) by (apply Hd; reflexivity).
      assert (Hy : HyperHyperDual_f_re y <> 0).
      { destruct HW as [E _]. change (HyperDual_f_re (lo y)) with (HyperHyperDual_f_re y) in E. rewrite E. exact Hw. }
      destruct (lohi_div x y Hy) as [HL HH]. split.
      + apply (repH_heq s0 t0 _ _ _ (repH_bin s0 t0 B_div _ _ _ _ HV HW (fun _ => Hw)) HL).
      + pose proof (repH_loc2_open s0 t0 (fun z => z <> 0) (fun s t => w s t u0) (lo y) (fun z Hz => open_neq 0 z Hz) HW Hw) as Ln.
        exists (fun s t => eval_bin (T:=R) B_div (eval_bin (T:=R) B_sub (eval_bin (T:=R) B_mul (gv s t) (w s t u0)) (eval_bin (T:=R) B_mul (v s t u0) (gw s t)))
                                        (eval_bin (T:=R) B_mul (w s t u0) (w s t u0))). split.
        * eapply loc2_imp; [|exact (loc2_and s0 t0 _ _ Lg Ln)]. intros s t K; cbv beta in K; destruct K as [K' C]; cbv beta in K', C; destruct K' as [A B]; cbv beta in A, B.
          change (is_derive (fun u => v s t u / w s t u) u0 ((gv s t * w s t u0 - v s t u0 * gw s t) / (w s t u0 * w s t u0))). auto_derive; [exd|]. un A; un B. field. exact C.
        * refine (repH_heq s0 t0 _ _ _ _ HH).
          apply (repH_bin s0 t0 B_div).
          -- apply (repH_bin s0 t0 B_sub); [apply (repH_bin s0 t0 B_mul _ _ _ _ Hgv HW); discriminate|apply (repH_bin s0 t0 B_mul _ _ _ _ HV Hgw); discriminate|discriminate].
          -- apply (repH_bin s0 t0 B_mul _ _ _ _ HW HW); discriminate.
          -- intros _. simpl. apply Rmult_integral_contrapositive_currified; exact Hw.
  Qed.

  Lemma repT_scal b v x (c : R) : RepT s0 t0 u0 v x -> (b = B_div -> c <> 0) ->
    RepT s0 t0 u0 (fun s t u => eval_scal (T:=R) b (v s t u) c) (eval_scal b x c).
  Proof.
    intros [HV [gv [Lgv Hgv]]] Hc. destruct (lohi_scal b x c Hc) as [HL HH]. split.
    - apply (repH_heq s0 t0 _ _ _ (repH_scal s0 t0 b _ _ c HV Hc) HL).
    - destruct b.
      + exists gv. split; [|apply (repH_heq s0 t0 _ _ _ Hgv HH)].
        eapply loc2_imp; [|exact Lgv]. intros s t A; cbv beta in A. change (is_derive (fun u => v s t u + c) u0 (gv s t)). auto_derive; [exd|]. un A. ring.
      + exists gv. split; [|apply (repH_heq s0 t0 _ _ _ Hgv HH)].
        eapply loc2_imp; [|exact Lgv]. intros s t A; cbv beta in A. change (is_derive (fun u => v s t u - c) u0 (gv s t)). auto_derive; [exd|]. un A. ring.
      + exists (fun s t => eval_scal (T:=R) B_mul (gv s t) c). split; [|apply (repH_heq s0 t0 _ _ _ (repH_scal s0 t0 B_mul _ _ c Hgv Hc) HH)].
        eapply loc2_imp; [|exact Lgv]. intros s t A; cbv beta in A. change (is_derive (fun u => v s t u * c) u0 (gv s t * c)). auto_derive; [exd|]. un A. ring.
      + assert (H : c <> 0) by (apply Hc; reflexivity).
        exists (fun s t => eval_scal (T:=R) B_div (gv s t) c). split; [|apply (repH_heq s0 t0 _ _ _ (repH_scal s0 t0 B_div _ _ c Hgv Hc) HH)].
        eapply loc2_imp; [|exact Lgv]. intros s t A; cbv beta in A. change (is_derive (fun u => v s t u / c) u0 (gv s t / c)). auto_derive; [exd|]. un A. field. exact H.
  Qed.

  (* composition with a function whose derivative steps T0' = T1, T1' = T2, T2' = T3 hold on an open set containing v(s0,t0,u0) *)
  Lemma repT_compose (T0 T1 T2 T3 : R -> R) (dom : R -> Prop) v (x r : HyperHyperDual R) :
    (forall z, dom z -> locally z dom) -> (forall z, dom z -> is_derive T0 z (T1 z)) -> (forall z, dom z -> is_derive T1 z (T2 z)) ->
    (forall z, dom z -> is_derive T2 z (T3 z)) ->
    RepT s0 t0 u0 v x -> dom (v s0 t0 u0) ->
    let z0 := v s0 t0 u0 in
    let x1 := HyperHyperDual_f_eps1 x in let x2 := HyperHyperDual_f_eps2 x in let x3 := HyperHyperDual_f_eps3 x in
    let x12 := HyperHyperDual_f_eps1eps2 x in let x13 := HyperHyperDual_f_eps1eps3 x in let x23 := HyperHyperDual_f_eps2eps3 x in
    let x123 := HyperHyperDual_f_eps1eps2eps3 x in
    HyperHyperDual_f_re r = T0 z0 -> HyperHyperDual_f_eps1 r = T1 z0 * x1 -> HyperHyperDual_f_eps2 r = T1 z0 * x2 -> HyperHyperDual_f_eps3 r = T1 z0 * x3 ->
    HyperHyperDual_f_eps1eps2 r = T1 z0 * x12 + T2 z0 * x1 * x2 -> HyperHyperDual_f_eps1eps3 r = T1 z0 * x13 + T2 z0 * x1 * x3 ->
    HyperHyperDual_f_eps2eps3 r = T1 z0 * x23 + T2 z0 * x2 * x3 ->
    HyperHyperDual_f_eps1eps2eps3 r = T1 z0 * x123 + T2 z0 * (x1 * x23 + x2 * x13 + x3 * x12) + T3 z0 * x1 * x2 * x3 ->
    RepT s0 t0 u0 (fun s t u => T0 (v s t u)) r.
  Proof.
    intros Hopen H1 H2 H3 [HV [g3 [Lg Hg]]] Hd z0 x1 x2 x3 x12 x13 x23 x123 E0 E1 E2 E3 E12 E13 E23 E123.
    set (V := fun s t => v s t u0) in *.
    split.
    - apply (repH_compose s0 t0 T0 T1 T2 dom V (lo x) (lo r) Hopen H1 H2 HV Hd); assumption.
    - exists (fun s t => eval_bin (T:=R) B_mul (T1 (V s t)) (g3 s t)). split.
      + pose proof (repH_loc2_open s0 t0 dom V (lo x) Hopen HV Hd) as Ld.
        eapply loc2_imp; [|exact (loc2_and s0 t0 _ _ Ld Lg)]. intros s t K; cbv beta in K; destruct K as [Ds A]; cbv beta in Ds, A.
        pose proof (H1 _ Ds) as B. unfold V in B. change (is_derive (fun u => T0 (v s t u)) u0 (T1 (v s t u0) * g3 s t)). auto_derive; [exd|]. un A; un B. ring.
      + set (P := mkHyperDual (T1 z0) (T2 z0 * x1) (T2 z0 * x2) (T2 z0 * x12 + T3 z0 * x1 * x2)).
        assert (HP : RepH s0 t0 (fun s t => T1 (V s t)) P).
        { apply (repH_compose s0 t0 T1 T2 T3 dom V (lo x) P Hopen H2 H3 HV Hd); unfold P; simpl; try reflexivity; try (fold z0; ring). }
        refine (repH_heq s0 t0 _ _ _ (repH_bin s0 t0 B_mul _ _ _ _ HP Hg ltac:(discriminate)) _).
        unfold heq, hi, P. cbn [HyperDual_f_re HyperDual_f_eps1 HyperDual_f_eps2 HyperDual_f_eps1eps2].
        rewrite E3, E13, E23, E123. fold x3 x13 x23 x123. rcbv. repeat split; ring.
  Qed.

  (* an everywhere-equal family *)
  Lemma repT_ext (f g : R -> R -> R -> R) r : RepT s0 t0 u0 f r -> (forall s t u, f s t u = g s t u) -> RepT s0 t0 u0 g r.
  Proof.
    intros [HV [g3 [Lg Hg]]] E. split.
    - apply (repH_ext_loc s0 t0 _ _ _ HV). apply loc2_true. intros s t. apply E.
    - exists g3. split; [|exact Hg]. eapply loc2_imp; [|exact Lg]. intros s t A; cbv beta in A. apply (is_derive_ext (f s t) (g s t)); [intros u; apply E|exact A].
  Qed.

  (* a family equal to another near (s0,t0,u0) *)
  Definition loc3 (P : R -> R -> R -> Prop) : Prop := L2 (fun s t => locally u0 (fun u => P s t u)).
  Lemma repT_ext_loc (f g : R -> R -> R -> R) r : RepT s0 t0 u0 f r -> loc3 (fun s t u => f s t u = g s t u) -> RepT s0 t0 u0 g r.
  Proof.
    intros [HV [g3 [Lg Hg]]] E. split.
    - apply (repH_ext_loc s0 t0 _ _ _ HV). eapply loc2_imp; [|exact E]. intros s t K; cbv beta in K. exact (locally_singleton _ _ K).
    - exists g3. split; [|exact Hg]. eapply loc2_imp; [|exact (loc2_and s0 t0 _ _ Lg E)]. intros s t K; cbv beta in K; destruct K as [A B]; cbv beta in A, B.
      apply (is_derive_ext_loc (f s t) (g s t) u0 _ B A).
  Qed.
  Lemma repT_loc3_open (dom : R -> Prop) v x : (forall z, dom z -> locally z dom) -> RepT s0 t0 u0 v x -> dom (v s0 t0 u0) -> loc3 (fun s t u => dom (v s t u)).
  Proof.
    intros Hopen [HV [g3 [Lg _]]] Hd.
    pose proof (repH_loc2_open s0 t0 dom (fun s t => v s t u0) (lo x) Hopen HV Hd) as Ld.
    unfold loc3. eapply loc2_imp; [|exact (loc2_and s0 t0 _ _ Ld Lg)]. intros s t K; cbv beta in K; destruct K as [Ds A]; cbv beta in Ds, A.
    assert (C : continuous (v s t) u0) by (apply (ex_derive_continuous (v s t) u0); eexists; exact A).
    exact (C dom (Hopen _ Ds)).
  Qed.

  (* the eight parts of a Faa di Bruno composite *)
  Lemma hhd_faa (tw : nat -> R) (x r : HyperHyperDual R) : (forall S, fam_c04_HyperHyperDual S -> part_HHD r S = faa tw (part_HHD x) S) ->
    let x1 := HyperHyperDual_f_eps1 x in let x2 := HyperHyperDual_f_eps2 x in let x3 := HyperHyperDual_f_eps3 x in
    let x12 := HyperHyperDual_f_eps1eps2 x in let x13 := HyperHyperDual_f_eps1eps3 x in let x23 := HyperHyperDual_f_eps2eps3 x in
    let x123 := HyperHyperDual_f_eps1eps2eps3 x in
    HyperHyperDual_f_re r = tw 0%nat /\ HyperHyperDual_f_eps1 r = tw 1%nat * x1 /\ HyperHyperDual_f_eps2 r = tw 1%nat * x2 /\ HyperHyperDual_f_eps3 r = tw 1%nat * x3 /\
    HyperHyperDual_f_eps1eps2 r = tw 1%nat * x12 + tw 2%nat * x1 * x2 /\ HyperHyperDual_f_eps1eps3 r = tw 1%nat * x13 + tw 2%nat * x1 * x3 /\
    HyperHyperDual_f_eps2eps3 r = tw 1%nat * x23 + tw 2%nat * x2 * x3 /\
    HyperHyperDual_f_eps1eps2eps3 r = tw 1%nat * x123 + tw 2%nat * (x1 * x23 + x2 * x13 + x3 * x12) + tw 3%nat * x1 * x2 * x3.
  Proof.
    intros H x1 x2 x3 x12 x13 x23 x123.
    pose proof (H nil ltac:(unfold fam_c04_HyperHyperDual; simpl; auto 12)) as E0. pose proof (H (1 :: nil)%nat ltac:(unfold fam_c04_HyperHyperDual; simpl; auto 12)) as E1.
    pose proof (H (2 :: nil)%nat ltac:(unfold fam_c04_HyperHyperDual; simpl; auto 12)) as E2. pose proof (H (3 :: nil)%nat ltac:(unfold fam_c04_HyperHyperDual; simpl; auto 12)) as E3.
    pose proof (H (1 :: 2 :: nil)%nat ltac:(unfold fam_c04_HyperHyperDual; simpl; auto 12)) as E12. pose proof (H (1 :: 3 :: nil)%nat ltac:(unfold fam_c04_HyperHyperDual; simpl; auto 12)) as E13.
    pose proof (H (2 :: 3 :: nil)%nat ltac:(unfold fam_c04_HyperHyperDual; simpl; auto 12)) as E23. pose proof (H (1 :: 2 :: 3 :: nil)%nat ltac:(unfold fam_c04_HyperHyperDual; simpl; auto 12)) as E123.
    rewrite faa_nil in E0. rewrite faa_one in E1, E2, E3. rewrite faa_two in E12, E13, E23. rewrite faa_three in E123.
    cbn [part_HHD] in E0, E1, E2, E3, E12, E13, E23, E123.
    repeat split; assumption.
  Qed.

  Lemma lohi_neg x : heq (lo (eval_un U_neg x)) (eval_un U_neg (lo x)) /\ heq (hi (eval_un U_neg x)) (eval_un U_neg (hi x)).
  Proof. destruct x; unfold heq, lo, hi; rcbv; repeat split; ring. Qed.

  Lemma repT_un u v x : RepT s0 t0 u0 v x -> dom_un u (v s0 t0 u0) -> RepT s0 t0 u0 (fun s t w => eval_un (T:=R) u (v s t w)) (eval_un u x).
  Proof.
    intros H Hd. destruct (unop_eq_neg u) as [->|Hu].
    - destruct H as [HV [g3 [Lg Hg]]]. destruct (lohi_neg x) as [HL HH]. split.
      + apply (repH_heq s0 t0 _ _ _ (repH_un s0 t0 U_neg _ _ HV I) HL).
      + exists (fun s t => eval_un (T:=R) U_neg (g3 s t)). split; [|apply (repH_heq s0 t0 _ _ _ (repH_un s0 t0 U_neg _ _ Hg I) HH)].
        eapply loc2_imp; [|exact Lg]. intros s t A; cbv beta in A. change (is_derive (fun w => - v s t w) u0 (- g3 s t)). auto_derive; [exd|]. un A. ring.
    - pose proof H as [[Hx _] _]. change (HyperDual_f_re (lo x)) with (HyperHyperDual_f_re x) in Hx.
      assert (Hdx : dom_un u (part_HHD x nil)) by (change (dom_un u (HyperHyperDual_f_re x)); rewrite Hx; exact Hd).
      pose proof (hhd_faa (tw_un u (part_HHD x nil)) x (eval_un u x) (jf_un _ _ _ _ _ JA_c04_HyperHyperDual u x Hu I Hdx)) as E. cbv zeta in E.
      change (part_HHD x nil) with (HyperHyperDual_f_re x) in E. rewrite Hx in E.
      destruct E as [E0 [E1 [E2 [E3 [E12 [E13 [E23 E123]]]]]]].
      apply (repT_ext (fun s t w => tw_un u (v s t w) 0)).
      + apply (repT_compose (fun z => tw_un u z 0) (fun z => tw_un u z 1) (fun z => tw_un u z 2) (fun z => tw_un u z 3) (dom_un u) v x (eval_un u x)); try assumption.
        * intros z Hz. apply dom_un_open; exact Hz.
        * intros z Hz. apply tw_un_derive; assumption.
        * intros z Hz. apply tw_un_derive2; assumption.
        * intros z Hz. apply tw_un_derive3; assumption.
      + intros s t w. rewrite eval_un_R_all. destruct u; reflexivity.
  Qed.

  Lemma repT_powi n v x : RepT s0 t0 u0 v x -> pw_ok n (v s0 t0 u0) -> RepT s0 t0 u0 (fun s t w => m_powi (v s t w : R) n) (m_powi x n).
  Proof.
    intros H Hp. pose proof H as [[Hx _] _]. change (HyperDual_f_re (lo x)) with (HyperHyperDual_f_re x) in Hx.
    set (tw := tw3 (fun q => m_powi q n)).
    pose proof (hhd_faa (tw (part_HHD x nil)) x (m_powi x n) (jf_powi _ _ _ _ _ JA_c04_HyperHyperDual n x I I)) as E. cbv zeta in E.
    change (part_HHD x nil) with (HyperHyperDual_f_re x) in E. rewrite Hx in E.
    destruct E as [E0 [E1 [E2 [E3 [E12 [E13 [E23 E123]]]]]]].
    apply (repT_ext_loc (fun s t w => tw (v s t w) 0%nat)).
    - apply (repT_compose (fun z => tw z 0%nat) (fun z => tw z 1%nat) (fun z => tw z 2%nat) (fun z => tw z 3%nat) (pw_ok n) v x (m_powi x n)); try assumption.
      + intros z Hz. apply pw_ok_open; exact Hz.
      + intros z Hz. apply (powi_tower_any n z Hz).
      + intros z Hz. apply (powi_tower_any n z Hz).
      + intros z Hz. apply (powi_tower_any n z Hz).
    - pose proof (repT_loc3_open (pw_ok n) v x (pw_ok_open n) H Hp) as L3. unfold loc3 in *.
      eapply loc2_imp; [|exact L3]. intros s t K; cbv beta in K. eapply filter_imp; [|exact K]. intros w Pw; cbv beta in Pw. apply (powi_tower_any n (v s t w) Pw).
  Qed.

  (* ---- the theorem: programs ---- *)
  Definition at_stu (envV : list (R -> R -> R -> R)) (s t u : R) : list R := map (fun v => v s t u) envV.
  Theorem mixed_third_order p : forall (envV : list (R -> R -> R -> R)) (envD : list (HyperHyperDual R)),
    Forall2 (RepT s0 t0 u0) envV envD -> okR (at_stu envV s0 t0 u0) p ->
    RepT s0 t0 u0 (fun s t u => eval (T:=R) (at_stu envV s t u) p) (eval envD p).
  Proof.
    induction p as [i|c|u a IH|b a IHa c IHc|b a IH c|a IH n|a IHa body IHb]; intros envV envD HE Hok; simpl in *.
    - unfold at_stu in Hok; rewrite map_length in Hok. revert i Hok. induction HE as [|x y ex ey Hxy HE' IHE]; intros i Hi; simpl in *; [lia|].
      destruct i; [|apply IHE; lia]. apply (repT_ext x); [exact Hxy|]. intros; reflexivity.
    - apply repT_const.
    - destruct Hok as [Ha Hd]. apply (repT_un u (fun s t w => eval (T:=R) (at_stu envV s t w) a)); [apply IH; assumption|exact Hd].
    - destruct Hok as [Ha [Hc Hd]]. apply (repT_bin b (fun s t w => eval (T:=R) (at_stu envV s t w) a) (fun s t w => eval (T:=R) (at_stu envV s t w) c)); [apply IHa|apply IHc|]; assumption.
    - destruct Hok as [Ha Hc]. apply (repT_scal b (fun s t w => eval (T:=R) (at_stu envV s t w) a)); [apply IH; assumption|exact Hc].
    - destruct Hok as [Ha Hp]. apply (repT_powi n (fun s t w => eval (T:=R) (at_stu envV s t w) a)); [apply IH; assumption|exact Hp].
    - destruct Hok as [Ha Hb].
      pose proof (IHa envV envD HE Ha) as Ra.
      assert (HE' : Forall2 (RepT s0 t0 u0) (envV ++ ((fun s t w => eval (T:=R) (at_stu envV s t w) a) :: nil)) (envD ++ (eval envD a :: nil))).
      { apply Forall2_app; [assumption|]. constructor; [exact Ra|constructor]. }
      assert (Hm : forall s t w, at_stu (envV ++ ((fun s t w => eval (T:=R) (at_stu envV s t w) a) :: nil)) s t w = at_stu envV s t w ++ (eval (T:=R) (at_stu envV s t w) a :: nil)).
      { intros s t w. unfold at_stu. rewrite map_app. reflexivity. }
      specialize (IHb _ _ HE'). rewrite Hm in IHb. specialize (IHb Hb).
      apply (repT_ext _ _ _ IHb). intros s t w. simpl. rewrite Hm. reflexivity.
  Qed.
End Mixed3.

(* the third_partial_derivative seeds: x in direction 1, y in direction 2, z in direction 3 *)
Corollary third_partial_program p x y z : okR (x :: y :: z :: nil) p ->
  RepT x y z (fun s t u => eval (T:=R) (s :: t :: u :: nil) p)
       (eval (mkHyperHyperDual x 1 0 0 0 0 0 0 :: mkHyperHyperDual y 0 1 0 0 0 0 0 :: mkHyperHyperDual z 0 0 1 0 0 0 0 :: nil) p).
Proof.
  intros Hok.
  assert (Z : RepH x y (fun _ _ => 0) (mkHyperDual 0 0 0 0)) by exact (repH_const x y 0).
  assert (HE : Forall2 (RepT x y z) ((fun s _ _ => s) :: (fun _ t _ => t) :: (fun _ _ u => u) :: nil)
                 (mkHyperHyperDual x 1 0 0 0 0 0 0 :: mkHyperHyperDual y 0 1 0 0 0 0 0 :: mkHyperHyperDual z 0 0 1 0 0 0 0 :: nil)).
  { constructor; [|constructor; [|constructor; [|constructor]]].
    - split.
      + split; [reflexivity|]. exists (fun _ => 0). split; [|split; [|split]].
        * apply locally_true. intros s. apply (is_derive_const (V:=R_NormedModule) s y).
        * apply (is_derive_id (K:=R_AbsRing) x).
        * reflexivity.
        * apply (is_derive_const (V:=R_NormedModule) 0 x).
      + exists (fun _ _ => 0). split; [|exact Z]. apply loc2_true. intros s t. apply (is_derive_const (V:=R_NormedModule) s z).
    - split.
      + split; [reflexivity|]. exists (fun _ => 1). split; [|split; [|split]].
        * apply locally_true. intros s. apply (is_derive_id (K:=R_AbsRing) y).
        * apply (is_derive_const (V:=R_NormedModule) y x).
        * reflexivity.
        * apply (is_derive_const (V:=R_NormedModule) 1 x).
      + exists (fun _ _ => 0). split; [|exact Z]. apply loc2_true. intros s t. apply (is_derive_const (V:=R_NormedModule) t z).
    - split.
      + exact (repH_const x y z).
      + exists (fun _ _ => 1). split; [|exact (repH_const x y 1)]. apply loc2_true. intros s t. apply (is_derive_id (K:=R_AbsRing) z). }
  exact (mixed_third_order x y z p _ _ HE Hok).
Qed.

(* RepT spelled out on the eight parts *)
Lemma repT_parts s0 t0 u0 v (h : HyperHyperDual R) : RepT s0 t0 u0 v h ->
  HyperHyperDual_f_re h = v s0 t0 u0 /\
  (exists vt : R -> R, locally s0 (fun s => is_derive (fun t => v s t u0) t0 (vt s)) /\ is_derive (fun s => v s t0 u0) s0 (HyperHyperDual_f_eps1 h) /\
     HyperHyperDual_f_eps2 h = vt s0 /\ is_derive vt s0 (HyperHyperDual_f_eps1eps2 h)) /\
  exists g3 : R -> R -> R, locally s0 (fun s => locally t0 (fun t => is_derive (v s t) u0 (g3 s t))) /\ HyperHyperDual_f_eps3 h = g3 s0 t0 /\
    exists gt : R -> R, locally s0 (fun s => is_derive (g3 s) t0 (gt s)) /\ is_derive (fun s => g3 s t0) s0 (HyperHyperDual_f_eps1eps3 h) /\
      HyperHyperDual_f_eps2eps3 h = gt s0 /\ is_derive gt s0 (HyperHyperDual_f_eps1eps2eps3 h).
Proof.
  intros [[A [vt HV]] [g3 [Lg [B [gt HG]]]]]. split; [exact A|]. split; [exists vt; exact HV|]. exists g3. split; [exact Lg|]. split; [exact B|]. exists gt. exact HG.
Qed.
