(* Inst/RModel.v -- the real-number interpretation of the generated model, the readings of every dual number
   type as a jet (block -> R), and the tactic that exposes generated code to ring / field. *)
From Coq Require Export Reals Lra List.
From ND Require Export Overload Float Mat Opt RInst Jet.
From NDgen Require Export Classes Gen_Float Gen_Derivative Gen_Dual Gen_Dual2 Gen_Dual3 Gen_HyperDual Gen_HyperHyperDual
  Gen_DualVec Gen_Dual2Vec Gen_HyperDualVec.
Export ListNotations.
Local Open Scope R_scope.

#[global] Instance DN_R : DN R R := DN_Float (F:=R).
#[global] Instance Ord_R : DNOrd R := DNOrd_F.

(* unfold everything the translator produced (whatever its names are after regeneration) down to the
   operations of R, which stay folded *)
Declare Reduction rred := cbv -[Rplus Rmult Rminus Ropp Rdiv Rinv IZR sqrt exp ln sin cos tan atan asin acos sinh cosh tanh arcsinh
                   Rabs PI powerRZ Rpower Rcbrt Ratan2 Rltb Rleb Reqb Rlt_dec Rle_dec Req_EM_T].
(* the same, keeping the i32 arithmetic of integer exponents folded (symbolic exponents must not be normalised) *)
Declare Reduction rredZ := cbv -[Rplus Rmult Rminus Ropp Rdiv Rinv IZR sqrt exp ln sin cos tan atan asin acos sinh cosh tanh arcsinh
                   Rabs PI powerRZ Rpower Rcbrt Ratan2 Rltb Rleb Reqb Rlt_dec Rle_dec Req_EM_T wrap32 Z.sub Z.mul Z.add Z.opp].
Ltac rcbvZ := match goal with |- ?G => let G' := eval rredZ in G in change G' end.
Ltac rcbv := match goal with |- ?G => let G' := eval rred in G in change G' end.
Ltac rcbv_in H := let T := type of H in let T' := eval rred in T in change T' in H.

(* ---- readings: which number a block denotes in each type ---- *)
Definition dget (d : Derivative R) (i j : nat) : R :=
  match Derivative_f_0 d with Some m => mget m i j | None => 0 end.
Definition dpresent (d : Derivative R) : bool := match Derivative_f_0 d with Some _ => true | None => false end.

Definition part_Dual (x : Dual R) (S : @block unit) : R :=
  match S with [] => Dual_f_re x | [_] => Dual_f_eps x | _ => 0 end.
Definition part_Dual2 (x : Dual2 R) (S : @block unit) : R :=
  match S with [] => Dual2_f_re x | [_] => Dual2_f_v1 x | [_; _] => Dual2_f_v2 x | _ => 0 end.
Definition part_Dual3 (x : Dual3 R) (S : @block unit) : R :=
  match S with [] => Dual3_f_re x | [_] => Dual3_f_v1 x | [_; _] => Dual3_f_v2 x | [_; _; _] => Dual3_f_v3 x | _ => 0 end.
(* hyper-dual types: labels 1, 2 (, 3) are distinct variables; blocks are sorted *)
Definition part_HyperDual (x : HyperDual R) (S : @block nat) : R :=
  match S with
  | [] => HyperDual_f_re x | [1%nat] => HyperDual_f_eps1 x | [2%nat] => HyperDual_f_eps2 x
  | [1%nat; 2%nat] => HyperDual_f_eps1eps2 x | _ => 0 end.
Definition part_HHD (x : HyperHyperDual R) (S : @block nat) : R :=
  match S with
  | [] => HyperHyperDual_f_re x
  | [1%nat] => HyperHyperDual_f_eps1 x | [2%nat] => HyperHyperDual_f_eps2 x | [3%nat] => HyperHyperDual_f_eps3 x
  | [1%nat; 2%nat] => HyperHyperDual_f_eps1eps2 x | [1%nat; 3%nat] => HyperHyperDual_f_eps1eps3 x
  | [2%nat; 3%nat] => HyperHyperDual_f_eps2eps3 x
  | [1%nat; 2%nat; 3%nat] => HyperHyperDual_f_eps1eps2eps3 x
  | _ => 0 end.
(* vector types: label i = direction i of the gradient; the gradient is a column (DualVec), the first-order
   part of Dual2Vec a row, the Hessian a square matrix; an absent part reads as zero *)
Definition part_DualVec (x : DualVec R) (S : @block nat) : R :=
  match S with [] => DualVec_f_re x | [i] => dget (DualVec_f_eps x) i 0 | _ => 0 end.
Definition part_Dual2Vec (x : Dual2Vec R) (S : @block nat) : R :=
  match S with [] => Dual2Vec_f_re x | [i] => dget (Dual2Vec_f_v1 x) 0 i | [i; j] => dget (Dual2Vec_f_v2 x) i j | _ => 0 end.
(* HyperDualVec: inl i = direction i of the first (column) gradient, inr j = direction j of the second (row) one *)
Definition part_HyperDualVec (x : HyperDualVec R) (S : @block (nat + nat)) : R :=
  match S with
  | [] => HyperDualVec_f_re x | [inl i] => dget (HyperDualVec_f_eps1 x) i 0 | [inr j] => dget (HyperDualVec_f_eps2 x) 0 j
  | [inl i; inr j] => dget (HyperDualVec_f_eps1eps2 x) i j | _ => 0 end.

(* shapes the constructors of the crate guarantee for present parts (nalgebra's type-level dimensions) *)
Definition wf_row (d : Derivative R) : Prop := match Derivative_f_0 d with Some m => mrows m = 1%nat | None => True end.
Definition wf_Dual2Vec (x : Dual2Vec R) : Prop := wf_row (Dual2Vec_f_v1 x).
Definition wf_col (d : Derivative R) : Prop := match Derivative_f_0 d with Some m => mcols m = 1%nat | None => True end.
Definition wf_HyperDualVec (x : HyperDualVec R) : Prop := wf_col (HyperDualVec_f_eps1 x).

(* index sets: every part of each type *)
Definition idx_Dual : list (@block unit) := [[]; [tt]].
Definition idx_Dual2 : list (@block unit) := [[]; [tt]; [tt; tt]].
Definition idx_Dual3 : list (@block unit) := [[]; [tt]; [tt; tt]; [tt; tt; tt]].
Definition idx_HyperDual : list (@block nat) := [[]; [1]; [2]; [1; 2]]%nat.
Definition idx_HHD : list (@block nat) := [[]; [1]; [2]; [3]; [1; 2]; [1; 3]; [2; 3]; [1; 2; 3]]%nat.
Definition idx_DualVec (i : nat) : list (@block nat) := [[]; [i]].
Definition idx_Dual2Vec (i j : nat) : list (@block nat) := [[]; [i]; [i; j]].
Definition idx_HyperDualVec (i j : nat) : list (@block (nat + nat)) := [[]; [inl i]; [inr j]; [inl i; inr j]].

