(* Proofs/C03_unique.v -- the derivative parts depend on the real function alone.  Each representation predicate determines the number it
   describes (derivatives are unique), hence: two programs that compute the same real function near the evaluation point have IDENTICAL evaluations
   over Dual, Dual2, Dual3, HyperDual and HyperHyperDual, whatever their syntax (powi against repeated multiplication, against exp(n ln x), ...). *)
From ND Require Import Tactics C02_proofs C01_towers C01_faa C07_proofs C09_proofs Prog Agree C04_inst C03_proofs C03_second C03_third C03_mixed C03_mixed3.
Local Open Scope R_scope.

(* two derivative functions of one function agree near the point *)
Lemma deriv_fun_unique t0 (v a b : R -> R) : locally t0 (fun t => is_derive v t (a t)) -> locally t0 (fun t => is_derive v t (b t)) ->
  locally t0 (fun t => a t = b t).
Proof.
  intros A B. eapply filter_imp; [|exact (filter_and _ _ A B)]. intros t K; cbv beta in K; destruct K as [Ka Kb].
  rewrite <- (is_derive_unique v t _ Ka). apply (is_derive_unique v t _ Kb).
Qed.
Lemma derive_loc_unique t0 (a b : R -> R) la lb : locally t0 (fun t => a t = b t) -> is_derive a t0 la -> is_derive b t0 lb -> la = lb.
Proof.
  intros L A B. pose proof (is_derive_ext_loc a b t0 la L A) as A'. rewrite <- (is_derive_unique b t0 _ A'). apply (is_derive_unique b t0 _ B).
Qed.
(* if a' is the derivative of a near t0, b' that of b, and a = b near t0, then a' = b' near t0 *)
Lemma deriv_fun_unique_loc t0 (a b a' b' : R -> R) : locally t0 (fun t => a t = b t) ->
  locally t0 (fun t => is_derive a t (a' t)) -> locally t0 (fun t => is_derive b t (b' t)) -> locally t0 (fun t => a' t = b' t).
Proof.
  intros E A B. pose proof (locally_locally _ _ E) as E2.
  eapply filter_imp; [|exact (filter_and _ _ E2 (filter_and _ _ A B))]. intros t K; cbv beta in K; destruct K as [Ke [Ka Kb]].
  exact (derive_loc_unique t a b _ _ Ke Ka Kb).
Qed.

Lemma rep1_unique t0 v a b : Rep1 t0 v a -> Rep1 t0 v b -> a = b.
Proof.
  intros [A0 A1] [B0 B1]. destruct a as [a0 a1], b as [b0 b1]; simpl in *. f_equal; [congruence|].
  rewrite <- (is_derive_unique v t0 _ A1). apply (is_derive_unique v t0 _ B1).
Qed.
Lemma rep2_unique t0 v a b : Rep2 t0 v a -> Rep2 t0 v b -> a = b.
Proof.
  intros [A0 [a' [La [A1 A2]]]] [B0 [b' [Lb [B1 B2]]]]. destruct a as [a0 a1 a2], b as [b0 b1 b2]; simpl in *.
  pose proof (deriv_fun_unique t0 v a' b' La Lb) as E.
  f_equal; [congruence | rewrite A1, B1; exact (locally_singleton _ _ E) | exact (derive_loc_unique t0 a' b' _ _ E A2 B2)].
Qed.
Lemma rep3_unique t0 v a b : Rep3 t0 v a -> Rep3 t0 v b -> a = b.
Proof.
  intros [A0 [a' [a'' [La [La' [A1 [A2 A3]]]]]]] [B0 [b' [b'' [Lb [Lb' [B1 [B2 B3]]]]]]]. destruct a as [a0 a1 a2 a3], b as [b0 b1 b2 b3]; simpl in *.
  pose proof (deriv_fun_unique t0 v a' b' La Lb) as E.
  pose proof (deriv_fun_unique_loc t0 a' b' a'' b'' E La' Lb') as E'.
  f_equal; [congruence | rewrite A1, B1; exact (locally_singleton _ _ E) | rewrite A2, B2; exact (locally_singleton _ _ E') | exact (derive_loc_unique t0 a'' b'' _ _ E' A3 B3)].
Qed.
Lemma repH_unique s0 t0 v a b : RepH s0 t0 v a -> RepH s0 t0 v b -> a = b.
Proof.
  intros [A0 [at' [La [A1 [A2 A12]]]]] [B0 [bt' [Lb [B1 [B2 B12]]]]]. destruct a as [a0 a1 a2 a12], b as [b0 b1 b2 b12]; simpl in *.
  assert (E : locally s0 (fun s => at' s = bt' s)).
  { eapply filter_imp; [|exact (filter_and _ _ La Lb)]. intros s K; cbv beta in K; destruct K as [Ka Kb].
    rewrite <- (is_derive_unique (v s) t0 _ Ka). apply (is_derive_unique (v s) t0 _ Kb). }
  f_equal; [congruence | rewrite <- (is_derive_unique (fun s => v s t0) s0 _ A1); apply (is_derive_unique (fun s => v s t0) s0 _ B1)
           | rewrite A2, B2; exact (locally_singleton _ _ E) | exact (derive_loc_unique s0 at' bt' _ _ E A12 B12)].
Qed.
Lemma hhd_lohi_eq (a b : HyperHyperDual R) : lo a = lo b -> hi a = hi b -> a = b.
Proof. destruct a, b; unfold lo, hi; simpl. intros H1 H2. inversion H1; inversion H2; subst. reflexivity. Qed.
Lemma repT_unique s0 t0 u0 v a b : RepT s0 t0 u0 v a -> RepT s0 t0 u0 v b -> a = b.
Proof.
  intros [AL [ga [Lga AH]]] [BL [gb [Lgb BH]]]. apply hhd_lohi_eq; [exact (repH_unique s0 t0 _ _ _ AL BL)|].
  assert (E : loc2 s0 t0 (fun s t => ga s t = gb s t)).
  { eapply loc2_imp; [|exact (loc2_and s0 t0 _ _ Lga Lgb)]. intros s t K; cbv beta in K; destruct K as [Ka Kb]; cbv beta in Ka, Kb.
    rewrite <- (is_derive_unique (v s t) u0 _ Ka). apply (is_derive_unique (v s t) u0 _ Kb). }
  apply (repH_unique s0 t0 gb); [exact (repH_ext_loc s0 t0 ga gb _ AH E)|exact BH].
Qed.

(* ---- programs computing the same real function near the point ---- *)
Definition near (d : R) (env base : list R) : Prop := Forall2 (fun a r => r - d < a < r + d) env base.
Definition same_near (p q : prog) (base : list R) : Prop := exists d, 0 < d /\ forall env, near d env base -> eval (T:=R) env p = eval (T:=R) env q.
Lemma open_interval (c d : R) : forall z, c - d < z < c + d -> locally z (fun y => c - d < y < c + d).
Proof. intros z [A B]. apply (filter_and (fun y => c - d < y) (fun y => y < c + d)); [apply (open_gt (c - d) z A)|apply (open_lt (c + d) z B)]. Qed.
Lemma rep3_ext_loc' t0 (f g : R -> R) r : Rep3 t0 f r -> locally t0 (fun t => f t = g t) -> Rep3 t0 g r.
Proof. apply rep3_ext_loc. Qed.
Lemma rep1_ext_loc t0 (f g : R -> R) d : Rep1 t0 f d -> locally t0 (fun t => f t = g t) -> Rep1 t0 g d.
Proof. intros [A B] H. split; [rewrite A; apply (locally_singleton _ _ H)|apply (is_derive_ext_loc f g t0 _ H B)]. Qed.
Lemma rep2_ext_loc t0 (f g : R -> R) r : Rep2 t0 f r -> locally t0 (fun t => f t = g t) -> Rep2 t0 g r.
Proof.
  intros [A [f' [L [B C]]]] E. split; [rewrite A; apply (locally_singleton _ _ E)|]. exists f'. split; [|split; assumption].
  pose proof (locally_locally _ _ E) as E2.
  eapply filter_imp; [|apply (filter_and _ _ L E2)]. intros t K; cbv beta in K; destruct K as [K1 K2].
  apply (is_derive_ext_loc f g t _ K2 K1).
Qed.

Section OneParam.
  Variable t0 : R.
  (* curves that are continuous at t0 stay near their values *)
  Lemma near_curves (envV : list (R -> R)) d : 0 < d -> List.Forall (fun v => continuous v t0) envV -> locally t0 (fun t => near d (at_t envV t) (at_t envV t0)).
  Proof.
    intros Hd H. induction H as [|v l Hv Hl IH]; simpl; [apply locally_true; intros; constructor|].
    assert (Lv : locally t0 (fun t => v t0 - d < v t < v t0 + d)) by (apply (Hv (fun y => v t0 - d < y < v t0 + d)); apply open_interval; lra).
    eapply filter_imp; [|exact (filter_and _ _ Lv IH)]. intros t K; cbv beta in K; destruct K as [K1 K2]. constructor; assumption.
  Qed.
  Lemma cont_of_derive (v : R -> R) l : is_derive v t0 l -> continuous v t0.
  Proof. intros D. apply (ex_derive_continuous v t0). exists l. exact D. Qed.

  Theorem equiv_Dual p q envV (envD : list (Dual R)) : Forall2 (Rep1 t0) envV envD -> okR (at_t envV t0) p -> okR (at_t envV t0) q ->
    same_near p q (at_t envV t0) -> eval envD p = eval envD q.
  Proof.
    intros HE Hp Hq [d [Hd E]].
    assert (C : List.Forall (fun v => continuous v t0) envV).
    { clear -HE. induction HE as [|v x lv lx [_ D] _ IH]; constructor; [exact (cont_of_derive v _ D)|exact IH]. }
    apply (rep1_unique t0 (fun t => eval (T:=R) (at_t envV t) q)); [|apply first_order; assumption].
    apply (rep1_ext_loc t0 (fun t => eval (T:=R) (at_t envV t) p)); [apply first_order; assumption|].
    eapply filter_imp; [|exact (near_curves envV d Hd C)]. intros t K. apply E. exact K.
  Qed.
  Theorem equiv_Dual2 p q envV (envD : list (Dual2 R)) : Forall2 (Rep2 t0) envV envD -> okR (at_t envV t0) p -> okR (at_t envV t0) q ->
    same_near p q (at_t envV t0) -> eval envD p = eval envD q.
  Proof.
    intros HE Hp Hq [d [Hd E]].
    assert (C : List.Forall (fun v => continuous v t0) envV).
    { clear -HE. induction HE as [|v x lv lx [_ [v' [L _]]] _ IH]; constructor; [exact (cont_of_derive v _ (rep2_at _ _ _ L))|exact IH]. }
    apply (rep2_unique t0 (fun t => eval (T:=R) (at_t envV t) q)); [|apply second_order; assumption].
    apply (rep2_ext_loc t0 (fun t => eval (T:=R) (at_t envV t) p)); [apply second_order; assumption|].
    eapply filter_imp; [|exact (near_curves envV d Hd C)]. intros t K. apply E. exact K.
  Qed.
  Theorem equiv_Dual3 p q envV (envD : list (Dual3 R)) : Forall2 (Rep3 t0) envV envD -> okR (at_t envV t0) p -> okR (at_t envV t0) q ->
    same_near p q (at_t envV t0) -> eval envD p = eval envD q.
  Proof.
    intros HE Hp Hq [d [Hd E]].
    assert (C : List.Forall (fun v => continuous v t0) envV).
    { clear -HE. induction HE as [|v x lv lx [_ [v' [v'' [L _]]]] _ IH]; constructor; [exact (cont_of_derive v _ (rep2_at _ _ _ L))|exact IH]. }
    apply (rep3_unique t0 (fun t => eval (T:=R) (at_t envV t) q)); [|apply third_order; assumption].
    apply (rep3_ext_loc t0 (fun t => eval (T:=R) (at_t envV t) p)); [apply third_order; assumption|].
    eapply filter_imp; [|exact (near_curves envV d Hd C)]. intros t K. apply E. exact K.
  Qed.
End OneParam.

Section TwoParam.
  Variables s0 t0 : R.
  Lemma near_families2 (envV : list (R -> R -> R)) (envD : list (HyperDual R)) d : 0 < d -> Forall2 (RepH s0 t0) envV envD ->
    loc2 s0 t0 (fun s t => near d (at_st envV s t) (at_st envV s0 t0)).
  Proof.
    intros Hd HE. induction HE as [|v x lv lx Hv _ IH]; simpl; [apply loc2_true; intros; constructor|].
    pose proof (repH_loc2_open s0 t0 (fun y => v s0 t0 - d < y < v s0 t0 + d) v x (open_interval (v s0 t0) d) Hv ltac:(lra)) as Lv.
    eapply loc2_imp; [|exact (loc2_and s0 t0 _ _ Lv IH)]. intros s t K; cbv beta in K; destruct K as [K1 K2]. constructor; assumption.
  Qed.
  Theorem equiv_HyperDual p q envV (envD : list (HyperDual R)) : Forall2 (RepH s0 t0) envV envD -> okR (at_st envV s0 t0) p -> okR (at_st envV s0 t0) q ->
    same_near p q (at_st envV s0 t0) -> eval envD p = eval envD q.
  Proof.
    intros HE Hp Hq [d [Hd E]].
    apply (repH_unique s0 t0 (fun s t => eval (T:=R) (at_st envV s t) q)); [|apply mixed_second_order; assumption].
    apply (repH_ext_loc s0 t0 (fun s t => eval (T:=R) (at_st envV s t) p)); [apply mixed_second_order; assumption|].
    eapply loc2_imp; [|exact (near_families2 envV envD d Hd HE)]. intros s t K. apply E. exact K.
  Qed.
End TwoParam.

Section ThreeParam.
  Variables s0 t0 u0 : R.
  Lemma loc3_and (P Q : R -> R -> R -> Prop) : loc3 s0 t0 u0 P -> loc3 s0 t0 u0 Q -> loc3 s0 t0 u0 (fun s t u => P s t u /\ Q s t u).
  Proof.
    intros A B. unfold loc3 in *. eapply loc2_imp; [|exact (loc2_and s0 t0 _ _ A B)]. intros s t K; cbv beta in K; destruct K as [K1 K2].
    exact (filter_and _ _ K1 K2).
  Qed.
  Lemma near_families3 (envV : list (R -> R -> R -> R)) (envD : list (HyperHyperDual R)) d : 0 < d -> Forall2 (RepT s0 t0 u0) envV envD ->
    loc3 s0 t0 u0 (fun s t u => near d (at_stu envV s t u) (at_stu envV s0 t0 u0)).
  Proof.
    intros Hd HE. induction HE as [|v x lv lx Hv _ IH]; simpl.
    - unfold loc3. apply loc2_true; intros; apply locally_true; intros; constructor.
    - pose proof (repT_loc3_open s0 t0 u0 (fun y => v s0 t0 u0 - d < y < v s0 t0 u0 + d) v x (open_interval (v s0 t0 u0) d) Hv ltac:(lra)) as Lv.
      pose proof (loc3_and _ _ Lv IH) as L. unfold loc3 in *. eapply loc2_imp; [|exact L]. intros s t K; cbv beta in K.
      eapply filter_imp; [|exact K]. intros u Ku; cbv beta in Ku; destruct Ku as [K1 K2]. constructor; assumption.
  Qed.
  Theorem equiv_HyperHyperDual p q envV (envD : list (HyperHyperDual R)) : Forall2 (RepT s0 t0 u0) envV envD ->
    okR (at_stu envV s0 t0 u0) p -> okR (at_stu envV s0 t0 u0) q -> same_near p q (at_stu envV s0 t0 u0) -> eval envD p = eval envD q.
  Proof.
    intros HE Hp Hq [d [Hd E]].
    apply (repT_unique s0 t0 u0 (fun s t u => eval (T:=R) (at_stu envV s t u) q)); [|apply mixed_third_order; assumption].
    apply (repT_ext_loc s0 t0 u0 (fun s t u => eval (T:=R) (at_stu envV s t u) p)); [apply mixed_third_order; assumption|].
    pose proof (near_families3 envV envD d Hd HE) as L. unfold loc3 in *. eapply loc2_imp; [|exact L]. intros s t K; cbv beta in K.
    eapply filter_imp; [|exact K]. intros u Ku. apply E. exact Ku.
  Qed.
End ThreeParam.

(* ---- every number is represented by a polynomial family: the theorems hold for ARBITRARY arguments ---- *)
Lemma rep1_any (X : Dual R) : Rep1 0 (fun t => Dual_f_re X + Dual_f_eps X * t) X.
Proof. split; [ring|]. auto_derive; [exact I|]. ring. Qed.
Lemma rep2_any (X : Dual2 R) : Rep2 0 (fun t => Dual2_f_re X + Dual2_f_v1 X * t + Dual2_f_v2 X * t * t / 2) X.
Proof.
  split; [field|]. exists (fun t => Dual2_f_v1 X + Dual2_f_v2 X * t). split; [|split].
  - apply locally_true. intros t. auto_derive; [exact I|]. field.
  - ring.
  - auto_derive; [exact I|]. ring.
Qed.
Lemma rep3_any (X : Dual3 R) : Rep3 0 (fun t => Dual3_f_re X + Dual3_f_v1 X * t + Dual3_f_v2 X * t * t / 2 + Dual3_f_v3 X * t * t * t / 6) X.
Proof.
  split; [field|]. exists (fun t => Dual3_f_v1 X + Dual3_f_v2 X * t + Dual3_f_v3 X * t * t / 2), (fun t => Dual3_f_v2 X + Dual3_f_v3 X * t).
  split; [|split; [|split; [|split]]].
  - apply locally_true. intros t. auto_derive; [exact I|]. field.
  - apply locally_true. intros t. auto_derive; [exact I|]. field.
  - field.
  - ring.
  - auto_derive; [exact I|]. ring.
Qed.
Definition polyH (X : HyperDual R) (s t : R) : R := HyperDual_f_re X + HyperDual_f_eps1 X * s + HyperDual_f_eps2 X * t + HyperDual_f_eps1eps2 X * s * t.
Lemma repH_any (X : HyperDual R) : RepH 0 0 (polyH X) X.
Proof.
  unfold polyH. split; [ring|]. exists (fun s => HyperDual_f_eps2 X + HyperDual_f_eps1eps2 X * s). split; [|split; [|split]].
  - apply locally_true. intros s. auto_derive; [exact I|]. ring.
  - auto_derive; [exact I|]. ring.
  - ring.
  - auto_derive; [exact I|]. ring.
Qed.
Lemma repT_any (X : HyperHyperDual R) : RepT 0 0 0 (fun s t u => polyH (lo X) s t + polyH (hi X) s t * u) X.
Proof.
  split.
  - apply (repH_ext_loc 0 0 (polyH (lo X))); [apply repH_any|]. apply loc2_true. intros s t. ring.
  - exists (polyH (hi X)). split; [|apply repH_any]. apply loc2_true. intros s t. auto_derive; [exact I|]. ring.
Qed.

Lemma Forall2_map_l {A B} (P : A -> B -> Prop) (f : B -> A) (l : list B) : (forall b, P (f b) b) -> Forall2 P (map f l) l.
Proof. intros H. induction l; simpl; constructor; auto. Qed.

Theorem denot_Dual p q (envD : list (Dual R)) : okR (map Dual_f_re envD) p -> okR (map Dual_f_re envD) q -> same_near p q (map Dual_f_re envD) ->
  eval envD p = eval envD q.
Proof.
  set (envV := map (fun X : Dual R => fun t => Dual_f_re X + Dual_f_eps X * t) envD).
  assert (Hat : at_t envV 0 = map Dual_f_re envD) by (unfold at_t, envV; rewrite map_map; apply map_ext; intros; ring).
  intros Hp Hq Hs. apply (equiv_Dual 0 p q envV envD); [apply Forall2_map_l; apply rep1_any | rewrite Hat; assumption..].
Qed.
Theorem denot_Dual2 p q (envD : list (Dual2 R)) : okR (map Dual2_f_re envD) p -> okR (map Dual2_f_re envD) q -> same_near p q (map Dual2_f_re envD) ->
  eval envD p = eval envD q.
Proof.
  set (envV := map (fun X : Dual2 R => fun t => Dual2_f_re X + Dual2_f_v1 X * t + Dual2_f_v2 X * t * t / 2) envD).
  assert (Hat : at_t envV 0 = map Dual2_f_re envD) by (unfold at_t, envV; rewrite map_map; apply map_ext; intros; field).
  intros Hp Hq Hs. apply (equiv_Dual2 0 p q envV envD); [apply Forall2_map_l; apply rep2_any | rewrite Hat; assumption..].
Qed.
Theorem denot_Dual3 p q (envD : list (Dual3 R)) : okR (map Dual3_f_re envD) p -> okR (map Dual3_f_re envD) q -> same_near p q (map Dual3_f_re envD) ->
  eval envD p = eval envD q.
Proof.
  set (envV := map (fun X : Dual3 R => fun t => Dual3_f_re X + Dual3_f_v1 X * t + Dual3_f_v2 X * t * t / 2 + Dual3_f_v3 X * t * t * t / 6) envD).
  assert (Hat : at_t envV 0 = map Dual3_f_re envD) by (unfold at_t, envV; rewrite map_map; apply map_ext; intros; field).
  intros Hp Hq Hs. apply (equiv_Dual3 0 p q envV envD); [apply Forall2_map_l; apply rep3_any | rewrite Hat; assumption..].
Qed.
Theorem denot_HyperDual p q (envD : list (HyperDual R)) : okR (map HyperDual_f_re envD) p -> okR (map HyperDual_f_re envD) q ->
  same_near p q (map HyperDual_f_re envD) -> eval envD p = eval envD q.
Proof.
  set (envV := map polyH envD).
  assert (Hat : at_st envV 0 0 = map HyperDual_f_re envD) by (unfold at_st, envV; rewrite map_map; apply map_ext; intros; unfold polyH; ring).
  intros Hp Hq Hs. apply (equiv_HyperDual 0 0 p q envV envD); [apply Forall2_map_l; apply repH_any | rewrite Hat; assumption..].
Qed.
Theorem denot_HyperHyperDual p q (envD : list (HyperHyperDual R)) : okR (map HyperHyperDual_f_re envD) p -> okR (map HyperHyperDual_f_re envD) q ->
  same_near p q (map HyperHyperDual_f_re envD) -> eval envD p = eval envD q.
Proof.
  set (envV := map (fun X : HyperHyperDual R => fun s t u => polyH (lo X) s t + polyH (hi X) s t * u) envD).
  assert (Hat : at_stu envV 0 0 0 = map HyperHyperDual_f_re envD) by (unfold at_stu, envV; rewrite map_map; apply map_ext; intros; unfold polyH, lo, hi; simpl; ring).
  intros Hp Hq Hs. apply (equiv_HyperHyperDual 0 0 0 p q envV envD); [apply Forall2_map_l; apply repT_any | rewrite Hat; assumption..].
Qed.
