(* Proofs/Tactics.v -- small tactics shared by the proof files *)
From ND Require Export RModel.
Ltac dmat := repeat match goal with m : mat R |- _ => destruct m as [? ? ?] end.
(* H : In S [b1; ...; bn]  -- run tac once per block *)
Ltac each_block H tac := repeat (destruct H as [<-|H]; [tac|]); try solve [destruct H].
Ltac jet_ring := rcbv; ring.
Ltac jet_field := rcbv; field; auto.
