(* Props/C13.v -- property C13: subset / superset conversions are lossless and coherent (the memory-safety clause is about the
   compiled unsafe code and is outside any Gallina statement: see DESIGN.md).  Statements about the hand model Hand/Subset.v,
   for arbitrary leaf conversions with narrow (widen a) = a and in_sub (widen a) = true (binary32 inside binary64). *)
From Coq Require Import List Bool.
From ND Require Import Subset.
Import ListNotations.

Section C13.
  Context {A B : Type} (widen : A -> B) (narrow : B -> A) (in_sub : B -> bool).
  Hypothesis narrow_widen : forall a, narrow (widen a) = a.
  Hypothesis widen_in_sub : forall a, in_sub (widen a) = true.

  Theorem C13_narrow_widen_id : forall x : dv A, from_superset narrow in_sub (to_superset widen x) = Some x.
  Proof. exact (narrow_widen_id widen narrow in_sub narrow_widen widen_in_sub). Qed.
  Theorem C13_widen_member : forall x : dv A, is_in_subset in_sub (to_superset widen x) = true.
  Proof. exact (widen_member widen in_sub widen_in_sub). Qed.
  Theorem C13_checked_iff : forall y : dv B, (exists x, from_superset narrow in_sub y = Some x) <-> is_in_subset in_sub y = true.
  Proof. exact (checked_iff narrow in_sub). Qed.
  Theorem C13_checked_value : forall (y : dv B) (x : dv A), from_superset narrow in_sub y = Some x -> x = from_superset_unchecked narrow y.
  Proof. exact (checked_value narrow in_sub). Qed.
  Theorem C13_presence_kept : forall (x : dv A) (y : dv B),
    presence (to_superset widen x) = presence x /\ presence (from_superset_unchecked narrow y) = presence y.
  Proof. exact (presence_kept widen narrow). Qed.
  Theorem C13_lift_extract : forall n z sp a, extract_unchecked narrow (lift widen n z sp a) = a /\ dv_re B (lift widen n z sp a) = widen a.
  Proof. exact (lift_extract widen narrow narrow_widen). Qed.
End C13.

(* for primitive floats simba's membership test is constantly true: checked narrowing always succeeds, absent parts included *)
Theorem C13_floats_always_succeed : forall {A B : Type} (narrow : B -> A) (y : dv B), exists x, from_superset narrow (fun _ => true) y = Some x.
Proof.
  intros A B narrow y. apply (checked_iff narrow (fun _ => true)). destruct y as [r ps]. unfold is_in_subset; simpl.
  apply forallb_forall. intros [l|] _; simpl; [apply forallb_forall; reflexivity | reflexivity].
Qed.
(* non-vacuity: a value with an absent part (the case the original code got wrong) *)
Example C13_absent_example : from_superset (fun b : nat => b) (fun _ => true) (mkdv nat 3 [None; Some [1; 2]]) = Some (mkdv nat 3 [None; Some [1; 2]]).
Proof. reflexivity. Qed.

Print Assumptions C13_narrow_widen_id. Print Assumptions C13_widen_member. Print Assumptions C13_checked_iff. Print Assumptions C13_checked_value.
Print Assumptions C13_presence_kept. Print Assumptions C13_lift_extract. Print Assumptions C13_floats_always_succeed.
