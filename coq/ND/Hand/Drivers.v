(* Hand/Drivers.v -- HAND-WRITTEN model of the twenty driver functions (try_* and their infallible wrappers) of
   src/dual*.rs, src/hyperdual*.rs, src/hyperhyperdual.rs.  Vectors are lists, matrices [mat]; the seeding helpers
   Derivative::derivative_generic / unwrap_generic and from_re / derivative are the TRANSLATED ones (gen/).  Tied to the code
   by the correspondence check (tools/props/c05.py) on closures that exist on both sides. *)
From ND Require Import Overload Float Mat Opt Wire.
From NDgen Require Import Classes Gen_Float Gen_Derivative Gen_Dual Gen_Dual2 Gen_Dual3 Gen_HyperDual Gen_HyperHyperDual Gen_DualVec Gen_Dual2Vec Gen_HyperDualVec.
From Coq Require Import Arith.
Local Open Scope rs_scope.

Inductive infallible : Type := .                (* std::convert::Infallible *)
Definition unwrap_ok {A} (r : result A infallible) : A := match r with Ok a => a | Err e => match e with end end.
Fixpoint mapi_from {A B} (f : nat -> A -> B) (i : nat) (l : list A) : list B :=
  match l with [] => [] | a :: r => f i a :: mapi_from f (S i) r end.
Definition mapi {A B} (f : nat -> A -> B) (l : list A) : list B := mapi_from f 0 l.
Definition map_ok {A B E} (f : A -> B) (r : result A E) : result B E := match r with Ok a => Ok (f a) | Err e => Err e end.

Section Drivers.
  Context {F T : Type} {dnFT : DN F T} {ordT : DNOrd T}.
  Variable E : Type.

  (* ---- scalar drivers ---- *)
  Definition seed_third (x : T) : Dual3 T := set_v1 (one : T) (Dual3_from_re x).
  Definition try_first_derivative (g : Dual T -> result (Dual T) E) (x : T) : result (T * T) E :=
    map_ok (fun r => (Dual_f_re r, Dual_f_eps r)) (g (Dual_derivative (Dual_from_re x))).
  Definition try_second_derivative (g : Dual2 T -> result (Dual2 T) E) (x : T) : result (T * T * T) E :=
    map_ok (fun r => (Dual2_f_re r, Dual2_f_v1 r, Dual2_f_v2 r)) (g (Dual2_derivative (Dual2_from_re x))).
  Definition try_third_derivative (g : Dual3 T -> result (Dual3 T) E) (x : T) : result (T * T * T * T) E :=
    map_ok (fun r => (Dual3_f_re r, Dual3_f_v1 r, Dual3_f_v2 r, Dual3_f_v3 r)) (g (seed_third x)).
  Definition try_second_partial_derivative (g : HyperDual T -> HyperDual T -> result (HyperDual T) E) (x y : T) : result (T * T * T * T) E :=
    map_ok (fun r => (HyperDual_f_re r, HyperDual_f_eps1 r, HyperDual_f_eps2 r, HyperDual_f_eps1eps2 r))
           (g (HyperDual_derivative1 (HyperDual_from_re x)) (HyperDual_derivative2 (HyperDual_from_re y))).
  Definition hhd_out (r : HyperHyperDual T) : list T :=
    [HyperHyperDual_f_re r; HyperHyperDual_f_eps1 r; HyperHyperDual_f_eps2 r; HyperHyperDual_f_eps3 r; HyperHyperDual_f_eps1eps2 r;
     HyperHyperDual_f_eps1eps3 r; HyperHyperDual_f_eps2eps3 r; HyperHyperDual_f_eps1eps2eps3 r].
  Definition try_third_partial_derivative (g : HyperHyperDual T -> HyperHyperDual T -> HyperHyperDual T -> result (HyperHyperDual T) E) (x y z : T) : result (list T) E :=
    map_ok hhd_out (g (set_eps1 (one : T) (HyperHyperDual_from_re x)) (set_eps2 (one : T) (HyperHyperDual_from_re y)) (set_eps3 (one : T) (HyperHyperDual_from_re z))).
  (* x[i].eps1 = 1; x[j].eps2 = 1; x[k].eps3 = 1 -- sequential assignments, repeated indices accumulate on one element *)
  Definition set_nth {A} (f : A -> A) (n : nat) (l : list A) : list A := mapi (fun i a => if Nat.eqb i n then f a else a) l.
  Definition seed_third_vec (x : list T) (i j k : nat) : list (HyperHyperDual T) :=
    set_nth (set_eps3 (one : T)) k (set_nth (set_eps2 (one : T)) j (set_nth (set_eps1 (one : T)) i (map HyperHyperDual_from_re x))).
  Definition try_third_partial_derivative_vec (g : list (HyperHyperDual T) -> result (HyperHyperDual T) E) (x : list T) (i j k : nat) : result (list T) E :=
    map_ok hhd_out (g (seed_third_vec x i j k)).

  (* ---- vector drivers ---- *)
  Definition seed_gradient (x : list T) : list (DualVec T) :=
    mapi (fun i xi => set_eps (Derivative_derivative_generic (length x) 1 i) (DualVec_from_re xi)) x.
  Definition try_gradient (g : list (DualVec T) -> result (DualVec T) E) (x : list T) : result (T * mat T) E :=
    map_ok (fun res => (DualVec_f_re res, Derivative_unwrap_generic (DualVec_f_eps res) (length x) 1)) (g (seed_gradient x)).
  (* jacobian: row i of the result is the transposed gradient of output i *)
  Definition try_jacobian (g : list (DualVec T) -> result (list (DualVec T)) E) (x : list T) : result (list T * mat T) E :=
    map_ok (fun res => (map DualVec_f_re res,
                        mkMat (length res) (length x)
                              (fun i j => match nth_error res i with
                                          | Some ri => mget (mat_transpose (Derivative_unwrap_generic (DualVec_f_eps ri) (length x) 1)) 0 j
                                          | None => zero end)))
           (g (seed_gradient x)).
  Definition seed_hessian (x : list T) : list (Dual2Vec T) :=
    mapi (fun i xi => set_v1 (Derivative_derivative_generic 1 (length x) i) (Dual2Vec_from_re xi)) x.
  Definition try_hessian (g : list (Dual2Vec T) -> result (Dual2Vec T) E) (x : list T) : result (T * mat T * mat T) E :=
    map_ok (fun res => (Dual2Vec_f_re res, mat_transpose (Derivative_unwrap_generic (Dual2Vec_f_v1 res) 1 (length x)),
                        Derivative_unwrap_generic (Dual2Vec_f_v2 res) (length x) (length x))) (g (seed_hessian x)).
  Definition seed_ph_x (x : list T) : list (HyperDualVec T) :=
    mapi (fun i xi => set_eps1 (Derivative_derivative_generic (length x) 1 i) (HyperDualVec_from_re xi)) x.
  Definition seed_ph_y (y : list T) : list (HyperDualVec T) :=
    mapi (fun i yi => set_eps2 (Derivative_derivative_generic 1 (length y) i) (HyperDualVec_from_re yi)) y.
  Definition try_partial_hessian (g : list (HyperDualVec T) -> list (HyperDualVec T) -> result (HyperDualVec T) E) (x y : list T)
    : result (T * mat T * mat T * mat T) E :=
    map_ok (fun r => (HyperDualVec_f_re r, Derivative_unwrap_generic (HyperDualVec_f_eps1 r) (length x) 1,
                      mat_transpose (Derivative_unwrap_generic (HyperDualVec_f_eps2 r) 1 (length y)),
                      Derivative_unwrap_generic (HyperDualVec_f_eps1eps2 r) (length x) (length y))) (g (seed_ph_x x) (seed_ph_y y)).
End Drivers.

(* the infallible variants: try_ with the closure wrapped in Ok, then unwrap *)
Section Infallible.
  Context {F T : Type} {dnFT : DN F T} {ordT : DNOrd T}.
  Definition first_derivative g (x : T) := unwrap_ok (try_first_derivative infallible (fun d => Ok (g d)) x).
  Definition second_derivative g (x : T) := unwrap_ok (try_second_derivative infallible (fun d => Ok (g d)) x).
  Definition third_derivative g (x : T) := unwrap_ok (try_third_derivative infallible (fun d => Ok (g d)) x).
  Definition second_partial_derivative g (x y : T) := unwrap_ok (try_second_partial_derivative infallible (fun a b => Ok (g a b)) x y).
  Definition third_partial_derivative g (x y z : T) := unwrap_ok (try_third_partial_derivative infallible (fun a b c => Ok (g a b c)) x y z).
  Definition third_partial_derivative_vec g (x : list T) i j k := unwrap_ok (try_third_partial_derivative_vec infallible (fun a => Ok (g a)) x i j k).
  Definition gradient g (x : list T) := unwrap_ok (try_gradient infallible (fun a => Ok (g a)) x).
  Definition jacobian g (x : list T) := unwrap_ok (try_jacobian infallible (fun a => Ok (g a)) x).
  Definition hessian g (x : list T) := unwrap_ok (try_hessian infallible (fun a => Ok (g a)) x).
  Definition partial_hessian g (x y : list T) := unwrap_ok (try_partial_hessian infallible (fun a b => Ok (g a b)) x y).
End Infallible.
