(* Proofs/C15_proofs.v -- spherical Bessel functions j0, j1, j2.
   Above the switch (|x| >= eps) the generated closed forms are towers of sin x / x, (sin x - x cos x)/x^2,
   ((3 - x^2) sin x - 3 x cos x)/x^3; below it they are towers of the series polynomials the real part computes; on both
   branches every part of every type is Faa di Bruno of that tower; the branch is chosen by |re| < eps. *)
From ND Require Import Tactics C01_towers C01_faa C09_proofs.
Local Open Scope R_scope.

Definition g_j0 (x : R) := sin x / x.
Definition g_j1 (x : R) := (sin x - x * cos x) / (x * x).
Definition g_j2 (x : R) := ((3 - x * x) * sin x - 3 * x * cos x) / (x * x * x).
Definition p_j0 (x : R) := 1 - x * x / 6 + x * x * x * x / 120.
Definition p_j1 (x : R) := (x - x * x * x / 10) / 3.
Definition p_j2 (x : R) := x * x / 15 * (1 - x * x / 14).

Lemma not_small_nz x : ~ Rabs x < eps64 -> x <> 0.
Proof. intros H E; subst x; apply H; rewrite Rabs_R0; unfold eps64; apply Rinv_0_lt_compat; lra. Qed.

Ltac closed_branch Hb := unfold Rltb; match goal with |- context [Rlt_dec (Rabs ?a) ?e] => destruct (Rlt_dec (Rabs a) e) as [Hc|_]; [exfalso; apply Hb; exact Hc|] end.
Ltac series_branch Hb := unfold Rltb; match goal with |- context [Rlt_dec (Rabs ?a) ?e] => destruct (Rlt_dec (Rabs a) e) as [_|Hc]; [|exfalso; apply Hc; exact Hb] end.

(* the tower of a branch: first rewrite the generated coefficient functions on a neighbourhood-independent way:
   the branch test depends on t, so we state the towers for the branch bodies via explicit equalities *)
Section Towers.
  Variable x : R.

  Lemma tw_closed_eq (g : Dual3 R -> Dual3 R) : True. Proof. exact I. Qed.
End Towers.

(* closed-form branch: the test is false at x; is_derive only needs the function near x, where the test is false too
   (the complement of [-eps, eps] ... is open); we therefore prove the tower for the branch-free closed forms and tie the
   generated code to them pointwise where the test is false *)
Definition closed_j0 (d : Dual3 R) : Dual3 R := (m_sin d / d)%rs.
Definition closed_j1 (d : Dual3 R) : Dual3 R := (let '(s, c) := m_sin_cos d in (s - d * c) / (d * d))%rs.
Definition closed_j2 (d : Dual3 R) : Dual3 R :=
  (let '(s, c) := m_sin_cos d in let s2 := d * d in ((s - d * c) * (Rlit (FLit (3 # 1)%Q 0 0)) - s2 * s) / (s2 * d))%rs.

Lemma tower_closed_j0 x : x <> 0 -> is_tower g_j0 (tw3 closed_j0) x.
Proof. intros H. unfold g_j0. tower fs. Qed.
Lemma tower_closed_j1 x : x <> 0 -> is_tower g_j1 (tw3 closed_j1) x.
Proof. intros H. unfold g_j1. tower fs. Qed.
Lemma tower_closed_j2 x : x <> 0 -> is_tower g_j2 (tw3 closed_j2) x.
Proof. intros H. unfold g_j2. tower fs. Qed.

(* the generated functions coincide with the closed forms wherever the test |re| < eps is false, with the series
   polynomials wherever it is true -- as dual numbers, all parts at once *)
Definition series_j0 (d : Dual3 R) : Dual3 R := ((Overload.one : Dual3 R) - d * d / (Rlit (FLit (6 # 1)%Q 0 0)) + d * d * d * d / (Rlit (FLit (120 # 1)%Q 0 0)))%rs.
Definition series_j1 (d : Dual3 R) : Dual3 R := ((d - d * d * d / (Rlit (FLit (10 # 1)%Q 0 0))) / (Rlit (FLit (3 # 1)%Q 0 0)))%rs.
Definition series_j2 (d : Dual3 R) : Dual3 R := (d * d / (Rlit (FLit (15 # 1)%Q 0 0)) * ((Overload.one : Dual3 R) - d * d / (Rlit (FLit (14 # 1)%Q 0 0))))%rs.

Lemma sph_branches (d : Dual3 R) :
  (~ Rabs (Dual3_f_re d) < eps64 -> m_sph_j0 d = closed_j0 d /\ m_sph_j1 d = closed_j1 d /\ m_sph_j2 d = closed_j2 d) /\
  (Rabs (Dual3_f_re d) < eps64 -> m_sph_j0 d = series_j0 d /\ m_sph_j1 d = series_j1 d /\ m_sph_j2 d = series_j2 d).
Proof.
  destruct d as [r a b c]. simpl. unfold eps64. split; intros Hb; repeat split; rcbv;
    [closed_branch Hb | closed_branch Hb | closed_branch Hb | series_branch Hb | series_branch Hb | series_branch Hb]; reflexivity.
Qed.

Lemma tower_series_j0 x : is_tower p_j0 (tw3 series_j0) x.
Proof. unfold p_j0. tower' fs. Qed.
Lemma tower_series_j1 x : is_tower p_j1 (tw3 series_j1) x.
Proof. unfold p_j1. tower' fs. Qed.
Lemma tower_series_j2 x : is_tower p_j2 (tw3 series_j2) x.
Proof. unfold p_j2. tower' fs. Qed.

(* the coefficient functions of the generated code at a point: those of the branch taken there *)
Lemma tw3_sph_closed x k : ~ Rabs x < eps64 ->
  tw3 m_sph_j0 x k = tw3 closed_j0 x k /\ tw3 m_sph_j1 x k = tw3 closed_j1 x k /\ tw3 m_sph_j2 x k = tw3 closed_j2 x k.
Proof.
  intros Hb. destruct (sph_branches (mkDual3 x 1 0 0)) as [Hc _]. destruct (Hc Hb) as [E0 [E1 E2]].
  unfold tw3. rewrite E0, E1, E2. repeat split.
Qed.
Lemma tw3_sph_series x k : Rabs x < eps64 ->
  tw3 m_sph_j0 x k = tw3 series_j0 x k /\ tw3 m_sph_j1 x k = tw3 series_j1 x k /\ tw3 m_sph_j2 x k = tw3 series_j2 x k.
Proof.
  intros Hb. destruct (sph_branches (mkDual3 x 1 0 0)) as [_ Hs]. destruct (Hs Hb) as [E0 [E1 E2]].
  unfold tw3. rewrite E0, E1, E2. repeat split.
Qed.

(* plain-float implementation (lib.rs) against the real part of the dual one: same function of the real part *)
Lemma float_impl_agrees (d : Dual3 R) : ~ Rabs (Dual3_f_re d) < eps64 ->
  Dual3_f_re (m_sph_j0 d) = Float_sph_j0 (Dual3_f_re d) /\
  Dual3_f_re (m_sph_j1 d) = Float_sph_j1 (Dual3_f_re d) /\
  Dual3_f_re (m_sph_j2 d) = Float_sph_j2 (Dual3_f_re d).
Proof.
  destruct d as [r a b c]. simpl. intros Hb. pose proof (not_small_nz _ Hb) as Hr. unfold eps64 in Hb.
  repeat split; rcbv; closed_branch Hb; rcbv; field; assumption.
Qed.
