#!/usr/bin/env python3
"""Reads src/python_macro.rs (impl_dual_num!) and writes coq/gen/Gen_PyWrap.v: which Rust method each Python method forwards to, the bodies of the
reflected operators and the dispatch order of __pow__, as strings.  Props/C17.v states that these are the documented ones, so a wrapper that forwards
to the wrong function changes a theorem, not only the run-time comparison."""
import re, os, sys
SRC = '/repo/src/python_macro.rs'
OUT = os.path.dirname(os.path.abspath(__file__)) + '/../coq/gen/Gen_PyWrap.v'


def q(s):
    return '"%s"%%string' % s.replace('"', "'")


def main():
    s = open(SRC).read().replace('\r\n', '\n')
    s = re.sub(r'//[^\n]*', '', s)
    fwd = []
    for m in re.finditer(r'fn\s+(\w+)\s*\(\s*&self\s*(?:,([^)]*))?\)\s*->\s*(?:Self|\(Self,\s*Self\))\s*\{(.*?)\n\s{12}\}', s, re.S):
        name, args, body = m.group(1), (m.group(2) or '').strip(), ' '.join(m.group(3).split())
        mm = re.search(r'self\.0\.(\w+)\(', body)
        if name.startswith('__'):
            continue
        fwd.append((name, mm.group(1) if mm else '?', body))
    refl = []
    for m in re.finditer(r'fn\s+(__r\w+__)\s*\(\s*&self\s*,\s*lhs:\s*f64\s*\)\s*->\s*Self\s*\{(.*?)\}', s, re.S):
        refl.append((m.group(1), ' '.join(m.group(2).split())))
    mpow = re.search(r'fn\s+__pow__.*?\{(.*?)\n\s{12}\}', s, re.S)
    pows = re.findall(r'extract::<(\w+)>\(\)\s*\{\s*return\s+Ok\(self\.0\.(\w+)\(', mpow.group(1)) if mpow else []
    out = ['(* gen/Gen_PyWrap.v -- written by tools/gen_pywrap.py from src/python_macro.rs *)', 'From Coq Require Import String List.', 'Import ListNotations.', '',
           'Definition py_forward : list (string * string) := [%s].' % ';\n  '.join('(%s, %s)' % (q(a), q(b)) for a, b, _ in fwd),
           'Definition py_forward_bodies : list (string * string) := [%s].' % ';\n  '.join('(%s, %s)' % (q(a), q(c)) for a, _, c in fwd),
           'Definition py_reflected : list (string * string) := [%s].' % ';\n  '.join('(%s, %s)' % (q(a), q(b)) for a, b in refl),
           'Definition py_pow_dispatch : list (string * string) := [%s].' % '; '.join('(%s, %s)' % (q(a), q(b)) for a, b in pows)]
    txt = '\n'.join(out) + '\n'
    if not os.path.exists(OUT) or open(OUT).read() != txt:
        open(OUT, 'w').write(txt)


if __name__ == '__main__':
    main()
