(* Proofs/C17_proofs.v -- the reflected operators of the Python layer compute, part by part, the operation with the float lifted to a constant on
   the left: f + d, f - d, f * d, f / d (re d <> 0), on each of the five scalar types behind the registered classes (nested classes are these types
   over Dual, covered by the arbitrary-instance forwarding statement).  The forwarding methods are the Rust operations by definition of the model. *)
From ND Require Import Tactics PyWrap.
Local Open Scope R_scope.

Ltac req := intros; rcbv; f_equal; try ring; try (field; assumption).
Lemma refl_Dual (d : Dual R) (f : R) :
  py_radd d f = ((ofF f : Dual R) + d)%rs /\ py_rsub d f = ((ofF f : Dual R) - d)%rs /\ py_rmul d f = ((ofF f : Dual R) * d)%rs /\ (m_re d <> 0 -> py_rtruediv d f = ((ofF f : Dual R) / d)%rs).
Proof. destruct d as [r e]. repeat split; [req|req|req|]. intros H. assert (H' : r <> 0) by exact H. req. Qed.
Lemma refl_Dual2 (d : Dual2 R) (f : R) :
  py_radd d f = ((ofF f : Dual2 R) + d)%rs /\ py_rsub d f = ((ofF f : Dual2 R) - d)%rs /\ py_rmul d f = ((ofF f : Dual2 R) * d)%rs /\ (m_re d <> 0 -> py_rtruediv d f = ((ofF f : Dual2 R) / d)%rs).
Proof. destruct d as [r a b]. repeat split; [req|req|req|]. intros H. assert (H' : r <> 0) by exact H. req. Qed.
Lemma refl_Dual3 (d : Dual3 R) (f : R) :
  py_radd d f = ((ofF f : Dual3 R) + d)%rs /\ py_rsub d f = ((ofF f : Dual3 R) - d)%rs /\ py_rmul d f = ((ofF f : Dual3 R) * d)%rs /\ (m_re d <> 0 -> py_rtruediv d f = ((ofF f : Dual3 R) / d)%rs).
Proof. destruct d as [r a b c]. repeat split; [req|req|req|]. intros H. assert (H' : r <> 0) by exact H. req. Qed.
Lemma refl_HyperDual (d : HyperDual R) (f : R) :
  py_radd d f = ((ofF f : HyperDual R) + d)%rs /\ py_rsub d f = ((ofF f : HyperDual R) - d)%rs /\ py_rmul d f = ((ofF f : HyperDual R) * d)%rs /\ (m_re d <> 0 -> py_rtruediv d f = ((ofF f : HyperDual R) / d)%rs).
Proof. destruct d as [r a b c]. repeat split; [req|req|req|]. intros H. assert (H' : r <> 0) by exact H. req. Qed.
Lemma refl_HHD (d : HyperHyperDual R) (f : R) :
  py_radd d f = ((ofF f : HyperHyperDual R) + d)%rs /\ py_rsub d f = ((ofF f : HyperHyperDual R) - d)%rs /\ py_rmul d f = ((ofF f : HyperHyperDual R) * d)%rs /\ (m_re d <> 0 -> py_rtruediv d f = ((ofF f : HyperHyperDual R) / d)%rs).
Proof. destruct d as [r a b c ab ac bc abc]. repeat split; [req|req|req|]. intros H. assert (H' : r <> 0) by exact H. req. Qed.

(* forwarding: for an ARBITRARY number type, each wrapper method is the Rust operation of the same meaning (the name table is the content) *)
Section Forward.
  Context {F T : Type} {dn : DN F T}.
  Lemma forward_names (d : T) :
    py_method Py_expm1 d = m_exp_m1 d /\ py_method Py_log d = m_ln d /\ py_method Py_log1p d = m_ln_1p d /\ py_method Py_arcsin d = m_asin d /\
    py_method Py_arccos d = m_acos d /\ py_method Py_arctan d = m_atan d /\ py_method Py_arcsinh d = m_asinh d /\ py_method Py_arccosh d = m_acosh d /\
    py_method Py_arctanh d = m_atanh d /\ py_method Py_neg d = (- d)%rs.
  Proof. repeat split; reflexivity. Qed.
  Lemma pow_dispatch (d e : T) (n : Z) (q : F) : py_pow_int d n = m_powi d n /\ py_pow_float d q = m_powf d q /\ py_pow_dual d e = m_powd d e.
  Proof. repeat split; reflexivity. Qed.
End Forward.
