(* Base/Mat.v -- model of nalgebra's owned matrices OMatrix<T, R, C> (static and dynamic storage alike):
   a shape and an entry function.  Only entries inside the shape are meaningful.  Hand-written vocabulary,
   validated by the bit-exact correspondence check. *)
From ND Require Export Overload Opt.
From Coq Require Import Arith.

Record mat (T : Type) := mkMat { mrows : nat; mcols : nat; mget : nat -> nat -> T }.
Arguments mkMat {T}. Arguments mrows {T}. Arguments mcols {T}. Arguments mget {T}.

Section MatOps.
  Context {T : Type}.
  Local Open Scope rs_scope.

  Definition mat_map {U} (f : T -> U) (m : mat T) : mat U := mkMat (mrows m) (mcols m) (fun i j => f (mget m i j)).
  Definition mat_zip {U V} (f : T -> U -> V) (a : mat T) (b : mat U) : mat V :=
    mkMat (mrows a) (mcols a) (fun i j => f (mget a i j) (mget b i j)).
  Definition mat_const (r c : nat) (x : T) : mat T := mkMat r c (fun _ _ => x).
  Definition mat_zeros `{HZero T} (r c : nat) : mat T := mat_const r c zero.
  Definition mat_identity `{HZero T} `{HOne T} (r c : nat) : mat T := mkMat r c (fun i j => if Nat.eqb i j then one else zero).
  Definition mat_transpose (m : mat T) : mat T := mkMat (mcols m) (mrows m) (fun i j => mget m j i).
  (* m[k] = v with nalgebra's column-major linear index *)
  Definition mat_set_lin (m : mat T) (k : nat) (v : T) : mat T :=
    mkMat (mrows m) (mcols m) (fun i j => if Nat.eqb (j * mrows m + i) k then v else mget m i j).
  Definition mat_get_lin (m : mat T) (k : nat) : T := mget m (k mod mrows m) (k / mrows m).
  Definition mat_set (m : mat T) (i0 j0 : nat) (v : T) : mat T :=
    mkMat (mrows m) (mcols m) (fun i j => if Nat.eqb i i0 && Nat.eqb j j0 then v else mget m i j).

  (* sum_{k < n} f k, accumulated left to right starting from the first term (no initial zero) *)
  Fixpoint sum_from `{HAdd T T T} (acc : T) (f : nat -> T) (k n : nat) : T :=
    match n with O => acc | S n' => sum_from (acc + f k) f (S k) n' end.
  Definition dot_n `{HAdd T T T} `{HZero T} (f : nat -> T) (n : nat) : T :=
    match n with O => zero | S n' => sum_from (f 0%nat) f 1%nat n' end.

  Definition mat_mul `{HMul T T T} `{HAdd T T T} `{HZero T} (a b : mat T) : mat T :=
    mkMat (mrows a) (mcols b) (fun i j => dot_n (fun k => mget a i k * mget b k j) (mcols a)).
  (* a.tr_mul(b) = a^T b *)
  Definition mat_tr_mul `{HMul T T T} `{HAdd T T T} `{HZero T} (a b : mat T) : mat T :=
    mkMat (mcols a) (mcols b) (fun i j => dot_n (fun k => mget a k i * mget b k j) (mrows a)).

  (* row-major list of the entries, for printing and comparison *)
  Definition mat_to_rows (m : mat T) : list (list T) :=
    map (fun i => map (fun j => mget m i j) (seq 0 (mcols m))) (seq 0 (mrows m)).
  (* column-major (storage / iteration order of nalgebra) *)
  Definition mat_to_list (m : mat T) : list T :=
    flat_map (fun j => map (fun i => mget m i j) (seq 0 (mrows m))) (seq 0 (mcols m)).
  Definition mat_of_col (l : list T) (d : T) : mat T := mkMat (length l) 1 (fun i _ => nth i l d).
  Definition mat_of_row (l : list T) (d : T) : mat T := mkMat 1 (length l) (fun _ j => nth j l d).
  Definition mat_of_rows (r c : nat) (l : list (list T)) (d : T) : mat T := mkMat r c (fun i j => nth j (nth i l nil) d).
  Definition mat_all (p : T -> bool) (m : mat T) : bool := forallb p (mat_to_list m).
End MatOps.

#[global] Instance HMap_mat : HMap mat := fun A B f m => mat_map f m.

(* nalgebra operators on matrices, entry-wise through the operators of the scalar *)
#[global] Instance mat_HAdd {T} `{HAdd T T T} : HAdd (mat T) (mat T) (mat T) := mat_zip hadd.
#[global] Instance mat_HSub {T} `{HSub T T T} : HSub (mat T) (mat T) (mat T) := mat_zip hsub.
#[global] Instance mat_HNeg {T} `{HNeg T T} : HNeg (mat T) (mat T) := mat_map hneg.
#[global] Instance mat_HMul_scalar {T} `{HMul T T T} : HMul (mat T) T (mat T) := fun m t => mat_map (fun x => hmul x t) m.
#[global] Instance mat_HDiv_scalar {T} `{HDiv T T T} : HDiv (mat T) T (mat T) := fun m t => mat_map (fun x => hdiv x t) m.
#[global] Instance mat_HMul {T} `{HMul T T T} `{HAdd T T T} `{HZero T} : HMul (mat T) (mat T) (mat T) := mat_mul.
(* nalgebra implements `*s += &r` entry-wise through AddAssign of the scalar, `*s *= rhs` through MulAssign *)
#[global] Instance mat_HAddAssign {T} `{HAddAssign T T} : HAddAssign (mat T) (mat T) := mat_zip hadd_assign.
#[global] Instance mat_HSubAssign {T} `{HSubAssign T T} : HSubAssign (mat T) (mat T) := mat_zip hsub_assign.
#[global] Instance mat_HMulAssign_scalar {T} `{HMulAssign T T} : HMulAssign (mat T) T := fun m t => mat_map (fun x => hmul_assign x t) m.
#[global] Instance mat_HDivAssign_scalar {T} `{HDivAssign T T} : HDivAssign (mat T) T := fun m t => mat_map (fun x => hdiv_assign x t) m.

Class HIndex (A I R : Type) := hindex : A -> I -> R.
#[global] Hint Mode HIndex ! ! - : typeclass_instances.
#[global] Instance mat_HIndex_lin {T} : HIndex (mat T) nat T := mat_get_lin.
#[global] Instance mat_HIndex_pair {T} : HIndex (mat T) (nat * nat) T := fun m ij => mget m (fst ij) (snd ij).
Class HIndexSet (A I V : Type) := hindex_set : A -> I -> V -> A.
#[global] Hint Mode HIndexSet ! ! - : typeclass_instances.
#[global] Instance mat_HIndexSet_lin {T} : HIndexSet (mat T) nat T := mat_set_lin.
#[global] Instance mat_HIndexSet_pair {T} : HIndexSet (mat T) (nat * nat) T := fun m ij v => mat_set m (fst ij) (snd ij) v.
#[global] Instance nat_HAdd : HAdd nat nat nat := Nat.add.
#[global] Instance nat_HMul : HMul nat nat nat := Nat.mul.
#[global] Instance mat_HEqb {T} `{HEqb T T} : HEqb (mat T) (mat T) :=
  fun a b => Nat.eqb (mrows a) (mrows b) && Nat.eqb (mcols a) (mcols b) && forallb (fun x => x) (mat_to_list (mat_zip heqb a b)).
