(* Spec/Derivs.v -- derivative facts for the elementary functions Coquelicot's auto_derive does not know,
   registered as UnaryDiff' instances so that auto_derive can differentiate expressions that contain them.
   Hand-written, static; about mathematics only. *)
From Coq Require Import Reals Lra.
From Coquelicot Require Import Coquelicot.
From ND Require Import RInst.
Local Open Scope R_scope.

Lemma is_derive_val (f : R -> R) (x l l' : R) : is_derive f x l -> l = l' -> is_derive f x l'.
Proof. intros H <-; exact H. Qed.

Lemma is_derive_asin x : -1 < x < 1 -> is_derive asin x (1 / sqrt (1 - x * x)).
Proof.
  intros H. apply is_derive_Reals.
  pose proof (derive_pt_asin x H) as E. apply derive_pt_eq_1 in E.
  unfold Rsqr in E. exact E.
Qed.
Lemma is_derive_acos x : -1 < x < 1 -> is_derive acos x (-1 / sqrt (1 - x * x)).
Proof.
  intros H. apply is_derive_Reals.
  pose proof (derive_pt_acos x H) as E. apply derive_pt_eq_1 in E.
  unfold Rsqr in E. exact E.
Qed.
Lemma is_derive_arcsinh x : is_derive arcsinh x (/ sqrt (x * x + 1)).
Proof.
  apply is_derive_Reals. replace (x * x + 1) with (x ^ 2 + 1) by ring. apply derivable_pt_lim_arcsinh.
Qed.

(* the same facts with the derivative written as sqrt (1 / (...)), the shape the crate computes *)
Lemma sqrt_one_div a : sqrt (1 / a) = 1 / sqrt a.
Proof. unfold Rdiv; rewrite !Rmult_1_l; apply sqrt_inv. Qed.
Lemma is_derive_asin' x : -1 < x < 1 -> is_derive asin x (sqrt (1 / (1 - x * x))).
Proof. intros H; rewrite sqrt_one_div; apply is_derive_asin; assumption. Qed.
Lemma is_derive_acos' x : -1 < x < 1 -> is_derive acos x (- sqrt (1 / (1 - x * x))).
Proof. intros H; rewrite sqrt_one_div. eapply is_derive_val; [apply is_derive_acos; assumption|]. field.
  apply Rgt_not_eq, sqrt_lt_R0; nra. Qed.
Lemma is_derive_arcsinh' x : is_derive arcsinh x (sqrt (1 / (1 + x * x))).
Proof. rewrite sqrt_one_div. eapply is_derive_val; [apply is_derive_arcsinh|]. replace (x * x + 1) with (1 + x * x) by ring.
  field. apply Rgt_not_eq, sqrt_lt_R0; nra. Qed.

#[global] Instance UnaryDiff_asin : UnaryDiff' asin :=
  {| UnaryDiff'_f' := fun x => sqrt (1 / (1 - x * x)); UnaryDiff'_df := fun x => -1 < x < 1; UnaryDiff'_H := is_derive_asin' |}.
#[global] Instance UnaryDiff_acos : UnaryDiff' acos :=
  {| UnaryDiff'_f' := fun x => - sqrt (1 / (1 - x * x)); UnaryDiff'_df := fun x => -1 < x < 1; UnaryDiff'_H := is_derive_acos' |}.
#[global] Instance UnaryDiff_arcsinh : UnaryDiff arcsinh :=
  {| UnaryDiff_f' := fun x => sqrt (1 / (1 + x * x)); UnaryDiff_H := is_derive_arcsinh' |}.

(* hyperbolic tangent: derivative sech^2 = 1 / cosh^2 *)
Lemma cosh_pos' x : 0 < cosh x.
Proof. unfold cosh. pose proof (exp_pos x); pose proof (exp_pos (- x)); lra. Qed.
Lemma is_derive_tanh x : is_derive tanh x (1 / (cosh x * cosh x)).
Proof.
  pose proof (cosh_pos' x) as Hc. unfold tanh. auto_derive. lra.
  assert (E : cosh x * cosh x - sinh x * sinh x = 1).
  { unfold cosh, sinh. assert (Hm : exp x * exp (- x) = 1) by (rewrite <- exp_plus, Rplus_opp_r; apply exp_0).
    set (a := exp x) in *. set (b := exp (- x)) in *. nra. }
  field_simplify_eq; [|lra]. nra.
Qed.
#[global] Instance UnaryDiff_tanh : UnaryDiff tanh :=
  {| UnaryDiff_f' := fun x => 1 / (cosh x * cosh x); UnaryDiff_H := is_derive_tanh |}.

(* real cube root (odd extension of x^(1/3)): derivative cbrt x / (3 x) away from 0 *)
Lemma Rcbrt_pos x : 0 < x -> Rcbrt x = exp (/ 3 * ln x).
Proof. intros H; unfold Rcbrt. destruct (Rlt_dec 0 x); [reflexivity | lra]. Qed.
Lemma Rcbrt_neg x : x < 0 -> Rcbrt x = - exp (/ 3 * ln (- x)).
Proof. intros H; unfold Rcbrt. destruct (Rlt_dec 0 x); [lra|]. destruct (Rlt_dec x 0); [reflexivity | lra]. Qed.

Lemma is_derive_Rcbrt x : x <> 0 -> is_derive Rcbrt x (Rcbrt x / (3 * x)).
Proof.
  intros Hx. destruct (Rlt_dec 0 x) as [Hp | Hn].
  - apply (is_derive_ext_loc (fun t => exp (/ 3 * ln t))).
    + assert (He : 0 < x / 2) by lra.
      exists (mkposreal _ He). intros t Ht. simpl in Ht.
      unfold ball in Ht; simpl in Ht; unfold AbsRing_ball, abs, minus, plus, opp in Ht; simpl in Ht.
      apply Rabs_def2 in Ht. symmetry; apply Rcbrt_pos. lra.
    + rewrite Rcbrt_pos by assumption. auto_derive. assumption. field. lra.
  - assert (Hneg : x < 0) by lra.
    apply (is_derive_ext_loc (fun t => - exp (/ 3 * ln (- t)))).
    + assert (He : 0 < - x / 2) by lra.
      exists (mkposreal _ He). intros t Ht. simpl in Ht.
      unfold ball in Ht; simpl in Ht; unfold AbsRing_ball, abs, minus, plus, opp in Ht; simpl in Ht.
      apply Rabs_def2 in Ht. symmetry; apply Rcbrt_neg. lra.
    + rewrite Rcbrt_neg by assumption. auto_derive. lra. field. lra.
Qed.
#[global] Instance UnaryDiff_Rcbrt : UnaryDiff' Rcbrt :=
  {| UnaryDiff'_f' := fun x => Rcbrt x / (3 * x); UnaryDiff'_df := fun x => x <> 0; UnaryDiff'_H := is_derive_Rcbrt |}.

(* sign facts used for domain side conditions *)
Lemma ln2_pos : 0 < ln 2.
Proof. rewrite <- ln_1. apply ln_increasing; lra. Qed.
Lemma ln10_pos : 0 < ln 10.
Proof. rewrite <- ln_1. apply ln_increasing; lra. Qed.
Lemma Rcbrt_cube x : Rcbrt x * Rcbrt x * Rcbrt x = x.
Proof.
  unfold Rcbrt. destruct (Rlt_dec 0 x) as [H|H].
  - unfold Rpower. rewrite <- !exp_plus. replace (/ 3 * ln x + / 3 * ln x + / 3 * ln x) with (ln x) by field. apply exp_ln; assumption.
  - destruct (Rlt_dec x 0) as [H'|H'].
    + unfold Rpower. set (e := exp (/ 3 * ln (- x))).
      assert (He : e * e * e = - x).
      { unfold e. rewrite <- !exp_plus. replace (/ 3 * ln (- x) + / 3 * ln (- x) + / 3 * ln (- x)) with (ln (- x)) by field. apply exp_ln; lra. }
      replace (- e * - e * - e) with (- (e * e * e)) by ring. rewrite He; ring.
    + assert (x = 0) by lra. subst; ring.
Qed.
