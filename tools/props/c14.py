"""C14 -- cylindrical Bessel functions J0, J1, J2 are accurate with derivatives everywhere."""
import mpmath
from mpmath import mpf
import vlib, pyjet, genvals
from vlib import Case
from props.base import BaseProp, Violation

U = 2.0 ** -53
# BesselDual needs Copy: the statically sized types
BESSEL_TYPES_QUICK = ['f64', 'Dual64', 'Dual2_64', 'Dual3_64', 'HyperDual64', 'HyperHyperDual64', 'DualSVec64_2', 'Dual2SVec64_2', 'HyperDualSVec64_2_3',
                      'Dual_Dual64', 'Dual2_Dual64', 'Dual_Dual_Dual64', 'Dual2_Dual2_64']
BESSEL_TYPES_ALL = BESSEL_TYPES_QUICK + ['DualSVec64_1', 'DualSVec64_3', 'Dual2SVec64_1', 'Dual2SVec64_3', 'HyperDualSVec64_1_1', 'HyperDualSVec64_3_2',
                                         'Dual_Dual2_64', 'Dual3_Dual64', 'HyperDual_Dual64', 'Dual_HyperDual64']


def nextafter(x, up):
    import math
    return math.nextafter(x, math.inf if up else -math.inf)


def special_points():
    pts = [0.0, -0.0, 5e-324, 1e-300, 1e-20, 1e-8, 3e-6]
    for c in (1e-5, 5.0, 0.25, 0.5, 1.0, 2.404825557695773, 3.8317059702075125, 5.135622301840683, 5.520078110286311, 25.0, 60.0):
        pts += [c, nextafter(c, True), nextafter(c, False)]
    return pts + [-p for p in pts if p != 0]


_tw = {}


def bessel_tower(n, order):
    key = (n, order)
    if key not in _tw:
        _tw[key] = [(lambda k: (lambda t: mpmath.besselj(n, t, derivative=k)))(k) for k in range(order + 1)]
    return _tw[key]


def tolk(k, x):
    """absolute accuracy granted to the k-th derivative of the approximation (the minimax error curve oscillates: each derivative costs a factor)"""
    return mpf(U) * 16 * mpf(32) ** k * (1 + abs(x) / 8)


class Prop(BaseProp):
    coq_targets = ['ND/Proofs/C14_proofs.vo', 'ND/Proofs/C14_prog.vo']
    extra_model_targets = ['gen/Gen_Bessel.vo', 'ND/Hand/Bessel.vo']
    extra_imports = 'From ND Require Import Bessel.\nFrom NDgen Require Import Gen_Bessel.'
    n_quick, n_thorough = 420, 9000
    model_shard, model_rounds = 32, 10

    def cases(self, rng, n):
        T = vlib.types()
        tys = [T[t] for t in (BESSEL_TYPES_QUICK if self.tier == 'quick' else BESSEL_TYPES_ALL)]
        sp = special_points()
        out = []
        k = 0
        while len(out) < n:
            ty = tys[k % len(tys)]
            fn = 'bessel_j%d' % ((k // len(tys)) % 3)
            if k < 3 * len(tys) * 8 or rng.below(3) == 0:
                x = sp[(k // (3 * len(tys)) + 7 * (k % len(tys))) % len(sp)] if k < 3 * len(tys) * 8 else rng.choice(sp)
                tag = 'special'
            else:
                x = rng.choice([rng.uniform(-60, 60), rng.uniform(-6, 6), rng.uniform(-1, 1), rng.choice([1, -1]) * 10 ** rng.uniform(-9, 0)])
                tag = 'random'
            k += 1
            a = genvals.gen_value(rng, ty, genvals.leaf_rand, re_leaf=lambda r, x=x: x)
            out.append(Case('c%d' % len(out), ty, fn, [a], [], tag=tag))
            if rng.below(4) == 0 and not ty.is_float:
                # the mirrored operand (every part negated): parity
                out.append(Case('c%dm' % (len(out) - 1), ty, fn, [self.negate(a, ty)], [], tag='mirror'))
        return out

    def negate(self, v, ty):
        if ty.is_float:
            return v ^ (1 << 63)
        outv = []
        for fld, x in zip(ty.fields(), v):
            if fld['kind'] == 'T':
                outv.append(self.negate(x, ty.inner))
            elif x is None:
                outv.append(None)
            else:
                outv.append((x[0], x[1], [self.negate(e, ty.inner) for e in x[2]]))
        return outv

    def oracle(self, case, impl):
        n = int(case.op[-1])
        conv = lambda b: pyjet.mpf_of_bits(b, 64)
        J = pyjet.jet_of_value(case.args[0], case.ty, conv)
        x = J.re
        if impl == 'panic':
            return Violation('counterexample', '%s on %s at x=%s panics' % (case.op, case.ty, mpmath.nstr(x, 8)), case=case, obtained='panic')
        order = J.order()
        tw = bessel_tower(n, order + 1)
        d = [f(x) for f in tw]
        ref = J.compose(d)
        Jabs = pyjet.Jet({S: abs(J[S]) for S in J.fam}, J.fam, mpf(0))
        tol = Jabs.compose([tolk(k, x) for k in range(order + 2)])
        for S in ref.fam:
            b = pyjet.part_bits(impl, case.ty, S)
            want = ref[S]
            if b == vlib.NAN:
                return Violation('counterexample', '%s on %s at x=%s: part %s is NaN, true value %s' % (case.op, case.ty, mpmath.nstr(x, 8), S, mpmath.nstr(want, 12)),
                                 case=case, expected=mpmath.nstr(want, 20), obtained='NaN')
            got = conv(b)
            t = tol[S] + mpf(10) ** -300
            if abs(got - want) > t:
                return Violation('counterexample', '%s on %s at x=%s: part %s = %s, composition of the true derivatives of J%d gives %s (|error| = %s, granted %s)' % (
                    case.op, case.ty, mpmath.nstr(x, 17), S, mpmath.nstr(got, 17), n, mpmath.nstr(want, 17), mpmath.nstr(abs(got - want), 4), mpmath.nstr(t, 4)),
                    case=case, expected=mpmath.nstr(want, 25), obtained=mpmath.nstr(got, 25), detail={'block': str(S), 'tolerance': mpmath.nstr(t, 6)})
        # parity: the mirrored operand gives the mirrored (J1) / the same (J0, J2) result, part by part
        if case.tag == 'mirror':
            base = self.case_by_id.get(case.id[:-1])
            bi = self.impl_results.get(case.id[:-1]) if base is not None else None
            if bi is not None and bi != 'panic':
                sgn = -1 if n == 1 else 1
                for S in ref.fam:
                    a, b2 = pyjet.part_bits(impl, case.ty, S), pyjet.part_bits(bi, case.ty, S)
                    if a in (vlib.NAN,) or b2 in (vlib.NAN,):
                        continue
                    if conv(a) != sgn * conv(b2):
                        return Violation('counterexample', '%s on %s: parity fails at x=%s, part %s: f(-X) = %s but f(X) = %s' % (
                            case.op, case.ty, mpmath.nstr(x, 17), S, mpmath.nstr(conv(a), 17), mpmath.nstr(conv(b2), 17)), case=case,
                            expected=mpmath.nstr(sgn * conv(b2), 25), obtained=mpmath.nstr(conv(a), 25), detail={'block': str(S), 'partner': base.describe()})
        return None

    def nontrivial(self, case, impl):
        if impl == 'panic':
            return False
        if case.ty.is_float:
            return True
        lv = vlib.leaves(impl, case.ty)
        return any(v not in (0, vlib.NAN) for v in lv[1:])

    def rule_text(self):
        return ('bessel_j0/j1/j2 x every Copy type of the tier matrix (scalar, static vector, nested up to fourth order, plain f64); real part from the special set '
                '{0, -0, denormal, 1e-300..3e-6, 1e-5, 0.5, 1, 5, zeros of J0/J1/J2, 25, 60 and their floating-point neighbours, both signs} and from '
                '[-60,60], [-6,6], [-1,1], +-10^[-9,0]; derivative parts independent from {0, +-1, small, large, uniform}; every fourth case also with the '
                'operand mirrored (parity, exact).  Correspondence: the hand model Hand/Bessel.v (tables and literals regenerated from src/bessel.rs) evaluated '
                'in Coq on binary64 must equal the implementation bit for bit.  Oracle: set-partition Faa di Bruno of 60-digit mpmath J_n^(k); absolute '
                'accuracy granted to the k-th derivative: 16 u 32^k (1 + |x|/8).  Distinct by (type, function, operand bits); non-trivial = no panic and a '
                'non-zero derivative part')
