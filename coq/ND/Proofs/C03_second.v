(* Proofs/C03_second.v -- second order: for every program, the v2 part of the evaluation over Dual2 is the SECOND derivative of the real function the
   program computes along the input curves (and v1 the first), at every point of the domain.
   Rep2 t0 v d: d carries v(t0); there is a derivative function v' of v near t0 with v1 = v'(t0), and v2 is the derivative of v' at t0. *)
From ND Require Import Tactics C02_proofs C01_towers C01_faa C07_proofs C09_proofs Prog Agree C04_inst C03_proofs.
Local Open Scope R_scope.

Definition Rep2 (t0 : R) (v : R -> R) (d : Dual2 R) : Prop :=
  Dual2_f_re d = v t0 /\
  exists v' : R -> R, locally t0 (fun t => is_derive v t (v' t)) /\ Dual2_f_v1 d = v' t0 /\ is_derive v' t0 (Dual2_f_v2 d).

Lemma rep2_at (t0 : R) (v v' : R -> R) : locally t0 (fun t => is_derive v t (v' t)) -> is_derive v t0 (v' t0).
Proof. intros H. exact (locally_singleton _ _ H). Qed.
Lemma locally_true (t0 : R) (P : R -> Prop) : (forall t, P t) -> locally t0 P.
Proof. intros H. exists (mkposreal 1 Rlt_0_1). intros y _. apply H. Qed.
Lemma locally_ne0 (w : R -> R) t0 l : is_derive w t0 l -> w t0 <> 0 -> locally t0 (fun t => w t <> 0).
Proof.
  intros D H. assert (C : continuous w t0) by (apply (ex_derive_continuous w t0); exists l; exact D).
  apply (C (fun y => y <> 0)). apply (open_neq 0 (w t0) H).
Qed.

Lemma dual2_parts (d : Dual2 R) : part_Dual2 d nil = Dual2_f_re d /\ part_Dual2 d (tt :: nil) = Dual2_f_v1 d /\ part_Dual2 d (tt :: tt :: nil) = Dual2_f_v2 d.
Proof. destruct d; repeat split; reflexivity. Qed.
Lemma faa_two {L} f (p : @block L -> R) i j : faa f p (i :: j :: nil) = f 1%nat * p (i :: j :: nil) + f 2%nat * p (i :: nil) * p (j :: nil).
Proof. unfold faa; simpl. ring. Qed.

Section Second.
  Variable t0 : R.

  Lemma rep2_const c : Rep2 t0 (fun _ => c) (ofF c).
  Proof.
    split; [reflexivity|]. exists (fun _ => 0). split; [|split].
    - apply locally_true. intros t. apply (is_derive_const (V:=R_NormedModule) c t).
    - reflexivity.
    - apply (is_derive_const (V:=R_NormedModule) 0 t0).
  Qed.

  Ltac un H := match type of H with is_derive ?f ?x ?l => rewrite ?(is_derive_unique (fun y : R => f y) x l H) end.
  Ltac exd := repeat split; try (eexists; eassumption); auto.

  Lemma rep2_bin b v w x y : Rep2 t0 v x -> Rep2 t0 w y -> (b = B_div -> w t0 <> 0) ->
    Rep2 t0 (fun t => eval_bin (T:=R) b (v t) (w t)) (eval_bin b x y).
  Proof.
    intros [Hx [v' [Lv [Hx1 Dv']]]] [Hy [w' [Lw [Hy1 Dw']]]] Hd.
    pose proof (rep2_at _ _ _ Lv) as Dv. pose proof (rep2_at _ _ _ Lw) as Dw.
    destruct x as [x0 x1 x2], y as [y0 y1 y2]; simpl in Hx, Hy, Hx1, Hy1, Dv', Dw'. subst x0 y0 x1 y1.
    destruct b.
    - split; [rcbv; reflexivity|]. exists (fun t => v' t + w' t). split; [|split].
      + apply (filter_imp (fun t => is_derive v t (v' t) /\ is_derive w t (w' t))); [|apply filter_and; assumption].
        intros t [A B]. apply (is_derive_plus (V:=R_NormedModule) v w t _ _ A B).
      + rcbv; reflexivity.
      + eapply is_derive_val; [apply (is_derive_plus (V:=R_NormedModule) v' w' t0 _ _ Dv' Dw')|]. rcbv. reflexivity.
    - split; [rcbv; reflexivity|]. exists (fun t => v' t - w' t). split; [|split].
      + apply (filter_imp (fun t => is_derive v t (v' t) /\ is_derive w t (w' t))); [|apply filter_and; assumption].
        intros t [A B]. apply (is_derive_minus (V:=R_NormedModule) v w t _ _ A B).
      + rcbv; reflexivity.
      + eapply is_derive_val; [apply (is_derive_minus (V:=R_NormedModule) v' w' t0 _ _ Dv' Dw')|]. rcbv. reflexivity.
    - split; [rcbv; reflexivity|]. exists (fun t => v' t * w t + v t * w' t). split; [|split].
      + apply (filter_imp (fun t => is_derive v t (v' t) /\ is_derive w t (w' t))); [|apply filter_and; assumption].
        intros t [A B]. change (is_derive (fun s => v s * w s) t (v' t * w t + v t * w' t)). auto_derive; [exd|]. un A; un B. ring.
      + rcbv. ring.
      + auto_derive; [exd|]. un Dv; un Dw; un Dv'; un Dw'. rcbv. ring.
    - assert (Hw : w t0 <> 0) by (apply Hd; reflexivity).
      split; [rcbv; field; exact Hw|]. exists (fun t => (v' t * w t - v t * w' t) / (w t * w t)). split; [|split].
      + apply (filter_imp (fun t => (is_derive v t (v' t) /\ is_derive w t (w' t)) /\ w t <> 0)).
        * intros t [[A B] C]. change (is_derive (fun s => v s / w s) t ((v' t * w t - v t * w' t) / (w t * w t))). auto_derive; [exd|]. un A; un B. field. exact C.
        * apply filter_and; [apply filter_and; assumption|]. apply (locally_ne0 w t0 _ Dw Hw).
      + rcbv. field. exact Hw.
      + auto_derive; [exd|]. un Dv; un Dw; un Dv'; un Dw'. rcbv. field. exact Hw.
  Qed.

  Lemma rep2_scal b v x (c : R) : Rep2 t0 v x -> (b = B_div -> c <> 0) -> Rep2 t0 (fun t => eval_scal (T:=R) b (v t) c) (eval_scal b x c).
  Proof.
    intros [Hx [v' [Lv [Hx1 Dv']]]] Hc. pose proof (rep2_at _ _ _ Lv) as Dv.
    destruct x as [x0 x1 x2]; simpl in Hx, Hx1, Dv'. subst x0 x1.
    destruct b.
    - split; [rcbv; reflexivity|]. exists v'. split; [|split].
      + apply (filter_imp (fun t => is_derive v t (v' t))); [|exact Lv]. intros t A.
        change (is_derive (fun s => v s + c) t (v' t)). auto_derive; [exd|]. un A. ring.
      + rcbv; reflexivity.
      + eapply is_derive_val; [exact Dv'|]. rcbv. reflexivity.
    - split; [rcbv; reflexivity|]. exists v'. split; [|split].
      + apply (filter_imp (fun t => is_derive v t (v' t))); [|exact Lv]. intros t A.
        change (is_derive (fun s => v s - c) t (v' t)). auto_derive; [exd|]. un A. ring.
      + rcbv; reflexivity.
      + eapply is_derive_val; [exact Dv'|]. rcbv. reflexivity.
    - split; [rcbv; reflexivity|]. exists (fun t => v' t * c). split; [|split].
      + apply (filter_imp (fun t => is_derive v t (v' t))); [|exact Lv]. intros t A.
        change (is_derive (fun s => v s * c) t (v' t * c)). auto_derive; [exd|]. un A. ring.
      + rcbv; reflexivity.
      + auto_derive; [exd|]. un Dv'. rcbv. ring.
    - assert (H : c <> 0) by (apply Hc; reflexivity).
      split; [rcbv; reflexivity|]. exists (fun t => v' t / c). split; [|split].
      + apply (filter_imp (fun t => is_derive v t (v' t))); [|exact Lv]. intros t A.
        change (is_derive (fun s => v s / c) t (v' t / c)). auto_derive; [exd|]. un A. field. exact H.
      + rcbv; reflexivity.
      + auto_derive; [exd|]. un Dv'. rcbv. field. exact H.
  Qed.

  (* the domains of the elementary functions are open *)
  Lemma dom_un_open u (x : R) : dom_un u x -> locally x (dom_un u).
  Proof.
    destruct u; simpl; intros H; try (apply locally_true; intros; exact I).
    - apply (open_neq 0 x H). - apply (open_gt 0 x H). - apply (open_neq 0 x H). - apply (open_gt 0 x H). - apply (open_gt 0 x H). - apply (open_gt 0 x H).
    - apply (open_gt (-1) x H).
    - assert (C : continuous cos x) by (apply (ex_derive_continuous cos x); exists (- sin x); apply is_derive_cos).
      apply (C (fun y => y <> 0)). apply (open_neq 0 (cos x) H).
    - destruct H as [A B]. apply filter_and; [apply (open_gt (-1) x A)|apply (open_lt 1 x B)].
    - destruct H as [A B]. apply filter_and; [apply (open_gt (-1) x A)|apply (open_lt 1 x B)].
    - apply (open_gt 1 x H).
    - destruct H as [A B]. apply filter_and; [apply (open_gt (-1) x A)|apply (open_lt 1 x B)].
  Qed.
  Ltac tw2 L := match goal with |- is_derive _ ?x _ => let H := fresh in pose proof L as H; destruct H as [_ [_ [H _]]]; exact H end.
  Lemma tw_un_derive2 u x : u <> U_neg -> dom_un u x -> is_derive (fun t => tw_un u t 1) x (tw_un u x 2).
  Proof.
    intros Hu Hd. destruct u; try (exfalso; apply Hu; reflexivity); simpl in Hd; unfold tw_un; cbn [eval_un].
    - tw2 (tower_recip x Hd). - tw2 (tower_sqrt x Hd). - tw2 (tower_cbrt x Hd). - tw2 (tower_exp x). - tw2 (tower_exp2 x). - tw2 (tower_exp_m1 x).
    - tw2 (tower_ln x Hd). - tw2 (tower_log2 x Hd). - tw2 (tower_log10 x Hd). - tw2 (tower_ln_1p x Hd). - tw2 (tower_sin x). - tw2 (tower_cos x).
    - tw2 (tower_tan x Hd). - tw2 (tower_asin x Hd). - tw2 (tower_acos x Hd). - tw2 (tower_atan x). - tw2 (tower_sinh x). - tw2 (tower_cosh x).
    - tw2 (tower_tanh x). - tw2 (tower_asinh x). - tw2 (tower_acosh x Hd). - tw2 (tower_atanh x Hd).
  Qed.

  Lemma eval_un_R_all u (x : R) : eval_un (T:=R) u x = (if unop_is_neg u then - x else tw_un u x 0).
  Proof. destruct u; simpl; try reflexivity; unfold tw_un, tw3; rcbv; try reflexivity; unfold tan, Rdiv; try ring. Qed.

  Lemma rep2_un u v x : Rep2 t0 v x -> dom_un u (v t0) -> Rep2 t0 (fun t => eval_un (T:=R) u (v t)) (eval_un u x).
  Proof.
    intros [Hx [v' [Lv [Hx1 Dv']]]] Hd. pose proof (rep2_at _ _ _ Lv) as Dv.
    destruct x as [x0 x1 x2]; simpl in Hx, Hx1, Dv'. subst x0 x1.
    destruct (unop_eq_neg u) as [->|Hu].
    - split; [rcbv; reflexivity|]. exists (fun t => - v' t). split; [|split].
      + apply (filter_imp (fun t => is_derive v t (v' t))); [|exact Lv]. intros t A.
        change (is_derive (fun s => - v s) t (- v' t)). auto_derive; [exd|]. un A. ring.
      + rcbv; reflexivity.
      + auto_derive; [exd|]. un Dv'. rcbv. ring.
    - set (d := mkDual2 (v t0) (v' t0) x2).
      assert (Hdx : dom_un u (part_Dual2 d nil)) by exact Hd.
      pose proof (jf_un _ _ _ _ _ JA_c04_Dual2 u d Hu I Hdx nil ltac:(left; reflexivity)) as E0.
      pose proof (jf_un _ _ _ _ _ JA_c04_Dual2 u d Hu I Hdx (tt :: nil) ltac:(right; left; reflexivity)) as E1.
      pose proof (jf_un _ _ _ _ _ JA_c04_Dual2 u d Hu I Hdx (tt :: tt :: nil) ltac:(right; right; left; reflexivity)) as E2.
      destruct (dual2_parts (eval_un u d)) as [Q0 [Q1 Q2]].
      rewrite Q0, faa_nil in E0. rewrite Q1, faa_one in E1. rewrite Q2, faa_two in E2.
      change (part_Dual2 d nil) with (v t0) in E0, E1, E2. change (part_Dual2 d (tt :: nil)) with (v' t0) in E1, E2.
      change (part_Dual2 d (tt :: tt :: nil)) with x2 in E2.
      assert (Ext : forall s, eval_un (T:=R) u s = tw_un u s 0).
      { intros s. rewrite eval_un_R_all. destruct u; reflexivity. }
      split; [rewrite E0; symmetry; apply Ext|].
      exists (fun t => tw_un u (v t) 1 * v' t). split; [|split].
      + assert (C : continuous v t0) by (apply (ex_derive_continuous v t0); exists (v' t0); exact Dv).
        pose proof (C (dom_un u) (dom_un_open u (v t0) Hd)) as Ld.
        apply (filter_imp (fun t => dom_un u (v t) /\ is_derive v t (v' t))); [|apply filter_and; [exact Ld|exact Lv]].
        intros t [Dt A]. apply (is_derive_ext (fun s => tw_un u (v s) 0)); [intros s; symmetry; apply Ext|].
        eapply is_derive_val; [apply (is_derive_comp (fun s => tw_un u s 0) v t (tw_un u (v t) 1) (v' t) (tw_un_derive u (v t) Hu Dt) A)|].
        unfold scal; simpl. unfold mult; simpl. ring.
      + exact E1.
      + rewrite E2.
        assert (D1 : is_derive (fun t => tw_un u (v t) 1) t0 (tw_un u (v t0) 2 * v' t0)).
        { eapply is_derive_val; [apply (is_derive_comp (fun s => tw_un u s 1) v t0 (tw_un u (v t0) 2) (v' t0) (tw_un_derive2 u (v t0) Hu Hd) Dv)|].
          unfold scal; simpl. unfold mult; simpl. ring. }
        eapply is_derive_val; [apply (is_derive_mult (fun t => tw_un u (v t) 1) v' t0 _ _ D1 Dv'); intros; apply Rmult_comm|].
        unfold plus, mult; simpl. ring.
  Qed.

  Lemma rep2_powi n v x : Rep2 t0 v x -> pw_ok n (v t0) -> Rep2 t0 (fun t => m_powi (v t : R) n) (m_powi x n).
  Proof.
    intros [Hx [v' [Lv [Hx1 Dv']]]] Hp. pose proof (rep2_at _ _ _ Lv) as Dv.
    destruct x as [x0 x1 x2]; simpl in Hx, Hx1, Dv'. subst x0 x1.
    set (d := mkDual2 (v t0) (v' t0) x2).
    set (tw := tw3 (fun q => m_powi q n)).
    pose proof (jf_powi _ _ _ _ _ JA_c04_Dual2 n d I I nil ltac:(left; reflexivity)) as E0.
    pose proof (jf_powi _ _ _ _ _ JA_c04_Dual2 n d I I (tt :: nil) ltac:(right; left; reflexivity)) as E1.
    pose proof (jf_powi _ _ _ _ _ JA_c04_Dual2 n d I I (tt :: tt :: nil) ltac:(right; right; left; reflexivity)) as E2.
    destruct (dual2_parts (m_powi d n)) as [Q0 [Q1 Q2]].
    rewrite Q0, faa_nil in E0. rewrite Q1, faa_one in E1. rewrite Q2, faa_two in E2.
    change (part_Dual2 d nil) with (v t0) in E0, E1, E2. change (part_Dual2 d (tt :: nil)) with (v' t0) in E1, E2.
    change (part_Dual2 d (tt :: tt :: nil)) with x2 in E2. fold tw in E0, E1, E2.
    split; [rewrite E0; apply (powi_tower_any n (v t0) Hp)|].
    exists (fun t => tw (v t) 1%nat * v' t). split; [|split].
    - assert (C : continuous v t0) by (apply (ex_derive_continuous v t0); exists (v' t0); exact Dv).
      pose proof (C (pw_ok n) (pw_ok_open n (v t0) Hp)) as Ld.
      apply (filter_imp (fun t => pw_ok n (v t) /\ is_derive v t (v' t))); [|apply filter_and; [exact Ld|exact Lv]].
      intros t [Pt A].
      eapply is_derive_val; [apply (is_derive_comp (g_powi n) v t (tw (v t) 1%nat) (v' t) (powi_derive n (v t) Pt) A)|].
      unfold scal; simpl. unfold mult; simpl. ring.
    - exact E1.
    - rewrite E2.
      assert (D1 : is_derive (fun t => tw (v t) 1%nat) t0 (tw (v t0) 2%nat * v' t0)).
      { destruct (powi_tower_any n (v t0) Hp) as [_ [_ [T2 _]]].
        eapply is_derive_val; [apply (is_derive_comp (fun s => tw s 1%nat) v t0 (tw (v t0) 2%nat) (v' t0) T2 Dv)|].
        unfold scal; simpl. unfold mult; simpl. ring. }
      eapply is_derive_val; [apply (is_derive_mult (fun t => tw (v t) 1%nat) v' t0 _ _ D1 Dv'); intros; apply Rmult_comm|].
      unfold plus, mult; simpl. ring.
  Qed.

  (* ---- the theorem ---- *)
  Theorem second_order p : forall (envV : list (R -> R)) (envD : list (Dual2 R)),
    Forall2 (Rep2 t0) envV envD -> okR (at_t envV t0) p ->
    Rep2 t0 (fun t => eval (T:=R) (at_t envV t) p) (eval envD p).
  Proof.
    induction p as [i|c|u a IH|b a IHa c IHc|b a IH c|a IH n|a IHa body IHb]; intros envV envD HE Hok; simpl in *.
    - unfold at_t in Hok; rewrite map_length in Hok. revert i Hok. induction HE as [|x y ex ey Hxy HE' IHE]; intros i Hi; simpl in *; [lia|].
      destruct i; [|apply IHE; lia]. destruct Hxy as [A [v' [L [B C]]]]. split; [exact A|]. exists v'. split; [|split; assumption].
      apply (filter_imp (fun t => is_derive x t (v' t))); [|exact L]. intros t D. apply (is_derive_ext x); [reflexivity|exact D].
    - apply rep2_const.
    - destruct Hok as [Ha Hd]. apply (rep2_un u (fun t => eval (T:=R) (at_t envV t) a)); [apply IH; assumption|exact Hd].
    - destruct Hok as [Ha [Hc Hd]]. apply (rep2_bin b (fun t => eval (T:=R) (at_t envV t) a) (fun t => eval (T:=R) (at_t envV t) c)); [apply IHa|apply IHc|]; assumption.
    - destruct Hok as [Ha Hc]. apply (rep2_scal b (fun t => eval (T:=R) (at_t envV t) a)); [apply IH; assumption|exact Hc].
    - destruct Hok as [Ha Hp]. apply (rep2_powi n (fun t => eval (T:=R) (at_t envV t) a)); [apply IH; assumption|exact Hp].
    - destruct Hok as [Ha Hb].
      pose proof (IHa envV envD HE Ha) as Ra.
      assert (HE' : Forall2 (Rep2 t0) (envV ++ ((fun t => eval (T:=R) (at_t envV t) a) :: nil)) (envD ++ (eval envD a :: nil))).
      { apply Forall2_app; [assumption|]. constructor; [exact Ra|constructor]. }
      assert (Hm : forall t, at_t (envV ++ ((fun t => eval (T:=R) (at_t envV t) a) :: nil)) t = at_t envV t ++ (eval (T:=R) (at_t envV t) a :: nil)).
      { intros t. unfold at_t. rewrite map_app. reflexivity. }
      specialize (IHb _ _ HE'). rewrite Hm in IHb. specialize (IHb Hb). destruct IHb as [A [v' [L [B C]]]]. split.
      + rewrite A, Hm. reflexivity.
      + exists v'. split; [|split; assumption].
        apply (filter_imp (fun t => is_derive (fun t1 => eval (T:=R) (at_t (envV ++ ((fun t2 => eval (T:=R) (at_t envV t2) a) :: nil)) t1) body) t (v' t))); [|exact L].
        intros t D. eapply is_derive_ext; [|exact D]. intros s; simpl. rewrite Hm. reflexivity.
  Qed.
End Second.

(* the scalar second-derivative driver on a program: (f x, f' x, f'' x) *)
Corollary second_derivative_program p x : okR (x :: nil) p ->
  let d := eval (mkDual2 x 1 0 :: nil) p in
  Dual2_f_re d = eval (T:=R) (x :: nil) p /\
  exists f' : R -> R, locally x (fun t => is_derive (fun s => eval (T:=R) (s :: nil) p) t (f' t)) /\ Dual2_f_v1 d = f' x /\ is_derive f' x (Dual2_f_v2 d).
Proof.
  intros Hok. assert (HE : Forall2 (Rep2 x) ((fun t => t) :: nil) (mkDual2 x 1 0 :: nil)).
  { constructor; [|constructor]. split; [reflexivity|]. exists (fun _ => 1). split; [|split].
    - apply locally_true. intros t. apply (is_derive_id (K:=R_AbsRing) t).
    - reflexivity.
    - apply (is_derive_const (V:=R_NormedModule) 1 x). }
  exact (second_order x p _ _ HE Hok).
Qed.
