(* Proofs/C04_inst.v -- written by tools/coqgen/gen_c04.py: each of the eight dual number types over R is a jet algebra (Agree.JetAlgF). *)
From ND Require Import Tactics C02_proofs C01_towers C01_faa C07_proofs C08_lift C09_proofs C09_faa Prog Agree.
Local Open Scope R_scope.

Ltac subl_inv := repeat match goal with
  | H : subl _ (_ :: _) |- _ => inversion H; clear H; subst
  | H : subl _ nil |- _ => inversion H; clear H; subst end.
Ltac in_cases H := repeat (destruct H as [<-|H]); try solve [destruct H].

Lemma wf_bin_Dual2Vec b (x y : Dual2Vec R) : wf_Dual2Vec x -> wf_Dual2Vec y -> wf_Dual2Vec (eval_bin b x y).
Proof. intros Wx Wy; destruct x as [? [[?|]] [[?|]]]; destruct y as [? [[?|]] [[?|]]]; dmat; unfold wf_Dual2Vec, wf_row in *; simpl in *; subst; destruct b; rcbv; try reflexivity; exact I. Qed.
Lemma wf_un_Dual2Vec u (x : Dual2Vec R) : wf_Dual2Vec x -> wf_Dual2Vec (eval_un u x).
Proof. intros Wx; destruct x as [? [[?|]] [[?|]]]; dmat; unfold wf_Dual2Vec, wf_row in *; simpl in *; subst; destruct u; rcbv; try reflexivity; exact I. Qed.
Lemma wf_powi_Dual2Vec n (x : Dual2Vec R) : wf_Dual2Vec x -> wf_Dual2Vec (m_powi x n).
Proof. intros Wx; destruct x as [? [[?|]] [[?|]]]; dmat; unfold wf_Dual2Vec, wf_row in *; simpl in *; subst; destruct n as [|[[p|p|]|[p|p|]|]|p]; rcbvZ; try reflexivity; exact I. Qed.
Lemma wf_scal_Dual2Vec b (x : Dual2Vec R) (c : R) : wf_Dual2Vec x -> wf_Dual2Vec (eval_scal b x c).
Proof. intros Wx; destruct x as [? [[?|]] [[?|]]]; dmat; unfold wf_Dual2Vec, wf_row in *; simpl in *; subst; destruct b; rcbv; try reflexivity; exact I. Qed.

Lemma wf_bin_HyperDualVec b (x y : HyperDualVec R) : wf_HyperDualVec x -> wf_HyperDualVec y -> wf_HyperDualVec (eval_bin b x y).
Proof. intros Wx Wy; destruct x as [? [[?|]] [[?|]] [[?|]]]; destruct y as [? [[?|]] [[?|]] [[?|]]]; dmat; unfold wf_HyperDualVec, wf_col in *; simpl in *; subst; destruct b; rcbv; try reflexivity; exact I. Qed.
Lemma wf_un_HyperDualVec u (x : HyperDualVec R) : wf_HyperDualVec x -> wf_HyperDualVec (eval_un u x).
Proof. intros Wx; destruct x as [? [[?|]] [[?|]] [[?|]]]; dmat; unfold wf_HyperDualVec, wf_col in *; simpl in *; subst; destruct u; rcbv; try reflexivity; exact I. Qed.
Lemma wf_powi_HyperDualVec n (x : HyperDualVec R) : wf_HyperDualVec x -> wf_HyperDualVec (m_powi x n).
Proof. intros Wx; destruct x as [? [[?|]] [[?|]] [[?|]]]; dmat; unfold wf_HyperDualVec, wf_col in *; simpl in *; subst; destruct n as [|[[p|p|]|[p|p|]|]|p]; rcbvZ; try reflexivity; exact I. Qed.
Lemma wf_scal_HyperDualVec b (x : HyperDualVec R) (c : R) : wf_HyperDualVec x -> wf_HyperDualVec (eval_scal b x c).
Proof. intros Wx; destruct x as [? [[?|]] [[?|]] [[?|]]]; dmat; unfold wf_HyperDualVec, wf_col in *; simpl in *; subst; destruct b; rcbv; try reflexivity; exact I. Qed.

Definition fam_c04_Dual : @block unit -> Prop := fun S => In S idx_Dual.
Lemma fam_sub_Dual S B : fam_c04_Dual S -> subl B S -> fam_c04_Dual B.
Proof. unfold fam_c04_Dual; intros F H; in_cases F; subl_inv; simpl; auto 12. Qed.
Lemma fam_len_Dual S : fam_c04_Dual S -> (length S <= 3)%nat.
Proof. unfold fam_c04_Dual; intros F; in_cases F; simpl; lia. Qed.
Lemma JA_c04_Dual : JetAlgF (DN_Dual (T:=R)) part_Dual (fun _ : Dual R => True) fam_c04_Dual (fun _ => True).
Proof.
  constructor.
  - reflexivity.
  - exact fam_sub_Dual.
  - exact fam_len_Dual.
  - intros a b _ _ S F; exact (mul_Dual a b S F).
  - intros a b _ _ Hb S F; exact (div_Dual a b S Hb F).
  - intros a b S F;  exact (lin_Dual a b S F).
  - intros u x Hu Wx Hd S F;  destruct u; try (exfalso; apply Hu; reflexivity); simpl in Hd;
    first [ exact (faa_Dual_recip x Hd S F) | exact (faa_Dual_sqrt x Hd S F) | exact (faa_Dual_cbrt x Hd S F) | exact (faa_Dual_exp x S F) | exact (faa_Dual_exp2 x S F) | exact (faa_Dual_exp_m1 x S F) | exact (faa_Dual_ln x Hd S F) | exact (faa_Dual_log2 x Hd S F) | exact (faa_Dual_log10 x Hd S F) | exact (faa_Dual_ln_1p x Hd S F) | exact (faa_Dual_sin x S F) | exact (faa_Dual_cos x S F) | exact (faa_Dual_tan x Hd S F) | exact (faa_Dual_asin x Hd S F) | exact (faa_Dual_acos x Hd S F) | exact (faa_Dual_atan x S F) | exact (faa_Dual_sinh x S F) | exact (faa_Dual_cosh x S F) | exact (faa_Dual_tanh x S F) | exact (faa_Dual_asinh x S F) | exact (faa_Dual_acosh x Hd S F) | exact (faa_Dual_atanh x Hd S F) ].
  - intros n x _ Wx S F;  exact (faa_Dual_powi n x S F).
  - intros c S F;  in_cases F; reflexivity.
  - intros b x c S Hc F;  destruct b; simpl; [exact (lift_Dual_add x c S F) | exact (lift_Dual_sub x c S F) | exact (lift_Dual_mul x c S F) | exact (lift_Dual_div x c S (Hc eq_refl) F)].
  - intros; exact I.
  - intros; exact I.
  - intros; exact I.
  - intros; exact I.
  - intros; exact I.
Qed.

Definition fam_c04_Dual2 : @block unit -> Prop := fun S => In S idx_Dual2.
Lemma fam_sub_Dual2 S B : fam_c04_Dual2 S -> subl B S -> fam_c04_Dual2 B.
Proof. unfold fam_c04_Dual2; intros F H; in_cases F; subl_inv; simpl; auto 12. Qed.
Lemma fam_len_Dual2 S : fam_c04_Dual2 S -> (length S <= 3)%nat.
Proof. unfold fam_c04_Dual2; intros F; in_cases F; simpl; lia. Qed.
Lemma JA_c04_Dual2 : JetAlgF (DN_Dual2 (T:=R)) part_Dual2 (fun _ : Dual2 R => True) fam_c04_Dual2 (fun _ => True).
Proof.
  constructor.
  - reflexivity.
  - exact fam_sub_Dual2.
  - exact fam_len_Dual2.
  - intros a b _ _ S F; exact (mul_Dual2 a b S F).
  - intros a b _ _ Hb S F; exact (div_Dual2 a b S Hb F).
  - intros a b S F;  exact (lin_Dual2 a b S F).
  - intros u x Hu Wx Hd S F;  destruct u; try (exfalso; apply Hu; reflexivity); simpl in Hd;
    first [ exact (faa_Dual2_recip x Hd S F) | exact (faa_Dual2_sqrt x Hd S F) | exact (faa_Dual2_cbrt x Hd S F) | exact (faa_Dual2_exp x S F) | exact (faa_Dual2_exp2 x S F) | exact (faa_Dual2_exp_m1 x S F) | exact (faa_Dual2_ln x Hd S F) | exact (faa_Dual2_log2 x Hd S F) | exact (faa_Dual2_log10 x Hd S F) | exact (faa_Dual2_ln_1p x Hd S F) | exact (faa_Dual2_sin x S F) | exact (faa_Dual2_cos x S F) | exact (faa_Dual2_tan x Hd S F) | exact (faa_Dual2_asin x Hd S F) | exact (faa_Dual2_acos x Hd S F) | exact (faa_Dual2_atan x S F) | exact (faa_Dual2_sinh x S F) | exact (faa_Dual2_cosh x S F) | exact (faa_Dual2_tanh x S F) | exact (faa_Dual2_asinh x S F) | exact (faa_Dual2_acosh x Hd S F) | exact (faa_Dual2_atanh x Hd S F) ].
  - intros n x _ Wx S F;  exact (faa_Dual2_powi n x S F).
  - intros c S F;  in_cases F; reflexivity.
  - intros b x c S Hc F;  destruct b; simpl; [exact (lift_Dual2_add x c S F) | exact (lift_Dual2_sub x c S F) | exact (lift_Dual2_mul x c S F) | exact (lift_Dual2_div x c S (Hc eq_refl) F)].
  - intros; exact I.
  - intros; exact I.
  - intros; exact I.
  - intros; exact I.
  - intros; exact I.
Qed.

Definition fam_c04_Dual3 : @block unit -> Prop := fun S => In S idx_Dual3.
Lemma fam_sub_Dual3 S B : fam_c04_Dual3 S -> subl B S -> fam_c04_Dual3 B.
Proof. unfold fam_c04_Dual3; intros F H; in_cases F; subl_inv; simpl; auto 12. Qed.
Lemma fam_len_Dual3 S : fam_c04_Dual3 S -> (length S <= 3)%nat.
Proof. unfold fam_c04_Dual3; intros F; in_cases F; simpl; lia. Qed.
Lemma JA_c04_Dual3 : JetAlgF (DN_Dual3 (T:=R)) part_Dual3 (fun _ : Dual3 R => True) fam_c04_Dual3 (fun _ => True).
Proof.
  constructor.
  - reflexivity.
  - exact fam_sub_Dual3.
  - exact fam_len_Dual3.
  - intros a b _ _ S F; exact (mul_Dual3 a b S F).
  - intros a b _ _ Hb S F; exact (div_Dual3 a b S Hb F).
  - intros a b S F;  exact (lin_Dual3 a b S F).
  - intros u x Hu Wx Hd S F;  destruct u; try (exfalso; apply Hu; reflexivity); simpl in Hd;
    first [ exact (faa_Dual3_recip x Hd S F) | exact (faa_Dual3_sqrt x Hd S F) | exact (faa_Dual3_cbrt x Hd S F) | exact (faa_Dual3_exp x S F) | exact (faa_Dual3_exp2 x S F) | exact (faa_Dual3_exp_m1 x S F) | exact (faa_Dual3_ln x Hd S F) | exact (faa_Dual3_log2 x Hd S F) | exact (faa_Dual3_log10 x Hd S F) | exact (faa_Dual3_ln_1p x Hd S F) | exact (faa_Dual3_sin x S F) | exact (faa_Dual3_cos x S F) | exact (faa_Dual3_tan x Hd S F) | exact (faa_Dual3_asin x Hd S F) | exact (faa_Dual3_acos x Hd S F) | exact (faa_Dual3_atan x S F) | exact (faa_Dual3_sinh x S F) | exact (faa_Dual3_cosh x S F) | exact (faa_Dual3_tanh x S F) | exact (faa_Dual3_asinh x S F) | exact (faa_Dual3_acosh x Hd S F) | exact (faa_Dual3_atanh x Hd S F) ].
  - intros n x _ Wx S F;  exact (faa_Dual3_powi n x S F).
  - intros c S F;  in_cases F; reflexivity.
  - intros b x c S Hc F;  destruct b; simpl; [exact (lift_Dual3_add x c S F) | exact (lift_Dual3_sub x c S F) | exact (lift_Dual3_mul x c S F) | exact (lift_Dual3_div x c S (Hc eq_refl) F)].
  - intros; exact I.
  - intros; exact I.
  - intros; exact I.
  - intros; exact I.
  - intros; exact I.
Qed.

Definition fam_c04_HyperDual : @block nat -> Prop := fun S => In S idx_HyperDual.
Lemma fam_sub_HyperDual S B : fam_c04_HyperDual S -> subl B S -> fam_c04_HyperDual B.
Proof. unfold fam_c04_HyperDual; intros F H; in_cases F; subl_inv; simpl; auto 12. Qed.
Lemma fam_len_HyperDual S : fam_c04_HyperDual S -> (length S <= 3)%nat.
Proof. unfold fam_c04_HyperDual; intros F; in_cases F; simpl; lia. Qed.
Lemma JA_c04_HyperDual : JetAlgF (DN_HyperDual (T:=R)) part_HyperDual (fun _ : HyperDual R => True) fam_c04_HyperDual (fun _ => True).
Proof.
  constructor.
  - reflexivity.
  - exact fam_sub_HyperDual.
  - exact fam_len_HyperDual.
  - intros a b _ _ S F; exact (mul_HyperDual a b S F).
  - intros a b _ _ Hb S F; exact (div_HyperDual a b S Hb F).
  - intros a b S F;  exact (lin_HyperDual a b S F).
  - intros u x Hu Wx Hd S F;  destruct u; try (exfalso; apply Hu; reflexivity); simpl in Hd;
    first [ exact (faa_HyperDual_recip x Hd S F) | exact (faa_HyperDual_sqrt x Hd S F) | exact (faa_HyperDual_cbrt x Hd S F) | exact (faa_HyperDual_exp x S F) | exact (faa_HyperDual_exp2 x S F) | exact (faa_HyperDual_exp_m1 x S F) | exact (faa_HyperDual_ln x Hd S F) | exact (faa_HyperDual_log2 x Hd S F) | exact (faa_HyperDual_log10 x Hd S F) | exact (faa_HyperDual_ln_1p x Hd S F) | exact (faa_HyperDual_sin x S F) | exact (faa_HyperDual_cos x S F) | exact (faa_HyperDual_tan x Hd S F) | exact (faa_HyperDual_asin x Hd S F) | exact (faa_HyperDual_acos x Hd S F) | exact (faa_HyperDual_atan x S F) | exact (faa_HyperDual_sinh x S F) | exact (faa_HyperDual_cosh x S F) | exact (faa_HyperDual_tanh x S F) | exact (faa_HyperDual_asinh x S F) | exact (faa_HyperDual_acosh x Hd S F) | exact (faa_HyperDual_atanh x Hd S F) ].
  - intros n x _ Wx S F;  exact (faa_HyperDual_powi n x S F).
  - intros c S F;  in_cases F; reflexivity.
  - intros b x c S Hc F;  destruct b; simpl; [exact (lift_HyperDual_add x c S F) | exact (lift_HyperDual_sub x c S F) | exact (lift_HyperDual_mul x c S F) | exact (lift_HyperDual_div x c S (Hc eq_refl) F)].
  - intros; exact I.
  - intros; exact I.
  - intros; exact I.
  - intros; exact I.
  - intros; exact I.
Qed.

Definition fam_c04_HyperHyperDual : @block nat -> Prop := fun S => In S idx_HHD.
Lemma fam_sub_HyperHyperDual S B : fam_c04_HyperHyperDual S -> subl B S -> fam_c04_HyperHyperDual B.
Proof. unfold fam_c04_HyperHyperDual; intros F H; in_cases F; subl_inv; simpl; auto 12. Qed.
Lemma fam_len_HyperHyperDual S : fam_c04_HyperHyperDual S -> (length S <= 3)%nat.
Proof. unfold fam_c04_HyperHyperDual; intros F; in_cases F; simpl; lia. Qed.
Lemma JA_c04_HyperHyperDual : JetAlgF (DN_HyperHyperDual (T:=R)) part_HHD (fun _ : HyperHyperDual R => True) fam_c04_HyperHyperDual (fun _ => True).
Proof.
  constructor.
  - reflexivity.
  - exact fam_sub_HyperHyperDual.
  - exact fam_len_HyperHyperDual.
  - intros a b _ _ S F; exact (mul_HHD a b S F).
  - intros a b _ _ Hb S F; exact (div_HHD a b S Hb F).
  - intros a b S F;  exact (lin_HHD a b S F).
  - intros u x Hu Wx Hd S F;  destruct u; try (exfalso; apply Hu; reflexivity); simpl in Hd;
    first [ exact (faa_HyperHyperDual_recip x Hd S F) | exact (faa_HyperHyperDual_sqrt x Hd S F) | exact (faa_HyperHyperDual_cbrt x Hd S F) | exact (faa_HyperHyperDual_exp x S F) | exact (faa_HyperHyperDual_exp2 x S F) | exact (faa_HyperHyperDual_exp_m1 x S F) | exact (faa_HyperHyperDual_ln x Hd S F) | exact (faa_HyperHyperDual_log2 x Hd S F) | exact (faa_HyperHyperDual_log10 x Hd S F) | exact (faa_HyperHyperDual_ln_1p x Hd S F) | exact (faa_HyperHyperDual_sin x S F) | exact (faa_HyperHyperDual_cos x S F) | exact (faa_HyperHyperDual_tan x Hd S F) | exact (faa_HyperHyperDual_asin x Hd S F) | exact (faa_HyperHyperDual_acos x Hd S F) | exact (faa_HyperHyperDual_atan x S F) | exact (faa_HyperHyperDual_sinh x S F) | exact (faa_HyperHyperDual_cosh x S F) | exact (faa_HyperHyperDual_tanh x S F) | exact (faa_HyperHyperDual_asinh x S F) | exact (faa_HyperHyperDual_acosh x Hd S F) | exact (faa_HyperHyperDual_atanh x Hd S F) ].
  - intros n x _ Wx S F;  exact (faa_HyperHyperDual_powi n x S F).
  - intros c S F;  in_cases F; reflexivity.
  - intros b x c S Hc F;  destruct b; simpl; [exact (lift_HyperHyperDual_add x c S F) | exact (lift_HyperHyperDual_sub x c S F) | exact (lift_HyperHyperDual_mul x c S F) | exact (lift_HyperHyperDual_div x c S (Hc eq_refl) F)].
  - intros; exact I.
  - intros; exact I.
  - intros; exact I.
  - intros; exact I.
  - intros; exact I.
Qed.

Definition fam_c04_DualVec : @block nat -> Prop := fun S => exists i, In S (idx_DualVec i).
Lemma fam_sub_DualVec S B : fam_c04_DualVec S -> subl B S -> fam_c04_DualVec B.
Proof. unfold fam_c04_DualVec; intros [i F] H; in_cases F; subl_inv; try (exists i; simpl; auto); exists 0%nat; simpl; auto. Qed.
Lemma fam_len_DualVec S : fam_c04_DualVec S -> (length S <= 3)%nat.
Proof. unfold fam_c04_DualVec; intros F; destruct F as [i F]; in_cases F; simpl; lia. Qed.
Lemma JA_c04_DualVec : JetAlgF (DN_DualVec (T:=R)) part_DualVec (fun _ : DualVec R => True) fam_c04_DualVec (fun _ => True).
Proof.
  constructor.
  - reflexivity.
  - exact fam_sub_DualVec.
  - exact fam_len_DualVec.
  - intros a b _ _ S F; destruct F as [i F]; exact (mul_DualVec i a b S F).
  - intros a b _ _ Hb S F; destruct F as [i F]; exact (div_DualVec i a b S Hb F).
  - intros a b S F; destruct F as [i F]; exact (lin_DualVec i a b S F).
  - intros u x Hu Wx Hd S F; destruct F as [i F]; destruct u; try (exfalso; apply Hu; reflexivity); simpl in Hd;
    first [ exact (faa_DualVec_recip i x Hd S F) | exact (faa_DualVec_sqrt i x Hd S F) | exact (faa_DualVec_cbrt i x Hd S F) | exact (faa_DualVec_exp i x S F) | exact (faa_DualVec_exp2 i x S F) | exact (faa_DualVec_exp_m1 i x S F) | exact (faa_DualVec_ln i x Hd S F) | exact (faa_DualVec_log2 i x Hd S F) | exact (faa_DualVec_log10 i x Hd S F) | exact (faa_DualVec_ln_1p i x Hd S F) | exact (faa_DualVec_sin i x S F) | exact (faa_DualVec_cos i x S F) | exact (faa_DualVec_tan i x Hd S F) | exact (faa_DualVec_asin i x Hd S F) | exact (faa_DualVec_acos i x Hd S F) | exact (faa_DualVec_atan i x S F) | exact (faa_DualVec_sinh i x S F) | exact (faa_DualVec_cosh i x S F) | exact (faa_DualVec_tanh i x S F) | exact (faa_DualVec_asinh i x S F) | exact (faa_DualVec_acosh i x Hd S F) | exact (faa_DualVec_atanh i x Hd S F) ].
  - intros n x _ Wx S F; destruct F as [i F]; exact (faa_DualVec_powi i n x S F).
  - intros c S F; destruct F as [i F]; in_cases F; reflexivity.
  - intros b x c S Hc F; destruct F as [i F]; destruct b; simpl; [exact (lift_DualVec_add i x c S F) | exact (lift_DualVec_sub i x c S F) | exact (lift_DualVec_mul i x c S F) | exact (lift_DualVec_div i x c S (Hc eq_refl) F)].
  - intros; exact I.
  - intros; exact I.
  - intros; exact I.
  - intros; exact I.
  - intros; exact I.
Qed.

Definition fam_c04_Dual2Vec : @block nat -> Prop := fun S => exists i j, In S (idx_Dual2Vec i j).
Lemma fam_sub_Dual2Vec S B : fam_c04_Dual2Vec S -> subl B S -> fam_c04_Dual2Vec B.
Proof. unfold fam_c04_Dual2Vec; intros [i [j F]] H; in_cases F; subl_inv; try (exists i, j; simpl; now auto 8); try (exists j, j; simpl; now auto 8); exists 0%nat, 0%nat; simpl; auto. Qed.
Lemma fam_len_Dual2Vec S : fam_c04_Dual2Vec S -> (length S <= 3)%nat.
Proof. unfold fam_c04_Dual2Vec; intros F; destruct F as [i [j F]]; in_cases F; simpl; lia. Qed.
Lemma JA_c04_Dual2Vec : JetAlgF (DN_Dual2Vec (T:=R)) part_Dual2Vec wf_Dual2Vec fam_c04_Dual2Vec (fun _ => True).
Proof.
  constructor.
  - reflexivity.
  - exact fam_sub_Dual2Vec.
  - exact fam_len_Dual2Vec.
  - intros a b Wa Wb S F; destruct F as [i [j F]]; exact (mul_Dual2Vec i j a b Wa Wb S F).
  - intros a b Wa Wb Hb S F; destruct F as [i [j F]]; exact (div_Dual2Vec i j a b Wa Wb Hb S F).
  - intros a b S F; destruct F as [i [j F]]; exact (lin_Dual2Vec i j a b S F).
  - intros u x Hu Wx Hd S F; destruct F as [i [j F]]; destruct u; try (exfalso; apply Hu; reflexivity); simpl in Hd;
    first [ exact (faa_Dual2Vec_recip i j x Hd Wx S F) | exact (faa_Dual2Vec_sqrt i j x Hd Wx S F) | exact (faa_Dual2Vec_cbrt i j x Hd Wx S F) | exact (faa_Dual2Vec_exp i j x Wx S F) | exact (faa_Dual2Vec_exp2 i j x Wx S F) | exact (faa_Dual2Vec_exp_m1 i j x Wx S F) | exact (faa_Dual2Vec_ln i j x Hd Wx S F) | exact (faa_Dual2Vec_log2 i j x Hd Wx S F) | exact (faa_Dual2Vec_log10 i j x Hd Wx S F) | exact (faa_Dual2Vec_ln_1p i j x Hd Wx S F) | exact (faa_Dual2Vec_sin i j x Wx S F) | exact (faa_Dual2Vec_cos i j x Wx S F) | exact (faa_Dual2Vec_tan i j x Hd Wx S F) | exact (faa_Dual2Vec_asin i j x Hd Wx S F) | exact (faa_Dual2Vec_acos i j x Hd Wx S F) | exact (faa_Dual2Vec_atan i j x Wx S F) | exact (faa_Dual2Vec_sinh i j x Wx S F) | exact (faa_Dual2Vec_cosh i j x Wx S F) | exact (faa_Dual2Vec_tanh i j x Wx S F) | exact (faa_Dual2Vec_asinh i j x Wx S F) | exact (faa_Dual2Vec_acosh i j x Hd Wx S F) | exact (faa_Dual2Vec_atanh i j x Hd Wx S F) ].
  - intros n x _ Wx S F; destruct F as [i [j F]]; exact (faa_Dual2Vec_powi i j n x Wx S F).
  - intros c S F; destruct F as [i [j F]]; in_cases F; reflexivity.
  - intros b x c S Hc F; destruct F as [i [j F]]; destruct b; simpl; [exact (lift_Dual2Vec_add i j x c S F) | exact (lift_Dual2Vec_sub i j x c S F) | exact (lift_Dual2Vec_mul i j x c S F) | exact (lift_Dual2Vec_div i j x c S (Hc eq_refl) F)].
  - intros b x y Wx Wy; apply wf_bin_Dual2Vec; assumption.
  - intros u x Wx; apply wf_un_Dual2Vec; assumption.
  - intros n x Wx; apply wf_powi_Dual2Vec; assumption.
  - intros c; reflexivity || exact I.
  - intros b x c Wx; apply wf_scal_Dual2Vec; assumption.
Qed.

Definition fam_c04_HyperDualVec : @block (nat + nat)%type -> Prop := fun S => exists i j, In S (idx_HyperDualVec i j).
Lemma fam_sub_HyperDualVec S B : fam_c04_HyperDualVec S -> subl B S -> fam_c04_HyperDualVec B.
Proof. unfold fam_c04_HyperDualVec; intros [i [j F]] H; in_cases F; subl_inv; try (exists i, j; simpl; now auto 8); exists 0%nat, 0%nat; simpl; auto. Qed.
Lemma fam_len_HyperDualVec S : fam_c04_HyperDualVec S -> (length S <= 3)%nat.
Proof. unfold fam_c04_HyperDualVec; intros F; destruct F as [i [j F]]; in_cases F; simpl; lia. Qed.
Lemma JA_c04_HyperDualVec : JetAlgF (DN_HyperDualVec (T:=R)) part_HyperDualVec wf_HyperDualVec fam_c04_HyperDualVec (fun _ => True).
Proof.
  constructor.
  - reflexivity.
  - exact fam_sub_HyperDualVec.
  - exact fam_len_HyperDualVec.
  - intros a b Wa Wb S F; destruct F as [i [j F]]; exact (mul_HyperDualVec i j a b Wa Wb S F).
  - intros a b Wa Wb Hb S F; destruct F as [i [j F]]; exact (div_HyperDualVec i j a b Wa Wb Hb S F).
  - intros a b S F; destruct F as [i [j F]]; exact (lin_HyperDualVec i j a b S F).
  - intros u x Hu Wx Hd S F; destruct F as [i [j F]]; destruct u; try (exfalso; apply Hu; reflexivity); simpl in Hd;
    first [ exact (faa_HyperDualVec_recip i j x Hd Wx S F) | exact (faa_HyperDualVec_sqrt i j x Hd Wx S F) | exact (faa_HyperDualVec_cbrt i j x Hd Wx S F) | exact (faa_HyperDualVec_exp i j x Wx S F) | exact (faa_HyperDualVec_exp2 i j x Wx S F) | exact (faa_HyperDualVec_exp_m1 i j x Wx S F) | exact (faa_HyperDualVec_ln i j x Hd Wx S F) | exact (faa_HyperDualVec_log2 i j x Hd Wx S F) | exact (faa_HyperDualVec_log10 i j x Hd Wx S F) | exact (faa_HyperDualVec_ln_1p i j x Hd Wx S F) | exact (faa_HyperDualVec_sin i j x Wx S F) | exact (faa_HyperDualVec_cos i j x Wx S F) | exact (faa_HyperDualVec_tan i j x Hd Wx S F) | exact (faa_HyperDualVec_asin i j x Hd Wx S F) | exact (faa_HyperDualVec_acos i j x Hd Wx S F) | exact (faa_HyperDualVec_atan i j x Wx S F) | exact (faa_HyperDualVec_sinh i j x Wx S F) | exact (faa_HyperDualVec_cosh i j x Wx S F) | exact (faa_HyperDualVec_tanh i j x Wx S F) | exact (faa_HyperDualVec_asinh i j x Wx S F) | exact (faa_HyperDualVec_acosh i j x Hd Wx S F) | exact (faa_HyperDualVec_atanh i j x Hd Wx S F) ].
  - intros n x _ Wx S F; destruct F as [i [j F]]; exact (faa_HyperDualVec_powi i j n x Wx S F).
  - intros c S F; destruct F as [i [j F]]; in_cases F; reflexivity.
  - intros b x c S Hc F; destruct F as [i [j F]]; destruct b; simpl; [exact (lift_HyperDualVec_add i j x c S F) | exact (lift_HyperDualVec_sub i j x c S F) | exact (lift_HyperDualVec_mul i j x c S F) | exact (lift_HyperDualVec_div i j x c S (Hc eq_refl) F)].
  - intros b x y Wx Wy; apply wf_bin_HyperDualVec; assumption.
  - intros u x Wx; apply wf_un_HyperDualVec; assumption.
  - intros n x Wx; apply wf_powi_HyperDualVec; assumption.
  - intros c; reflexivity || exact I.
  - intros b x c Wx; apply wf_scal_HyperDualVec; assumption.
Qed.

