"""Second half of the emitter: collection of impls, naming, ordering, and output of coq/gen/*.v"""
import json, sys, os, re, hashlib
from collections import OrderedDict, defaultdict
from emit import *

SKIP_TRAITS = {'StructuralPartialEq', 'Eq', 'Copy', 'Clone', 'Debug', 'Rem', 'RemAssign', 'Num', 'Serialize', 'Deserialize',
               'AbsDiffEq', 'RelativeEq', 'UlpsEq'}
PHASE = {'From': 2, 'Zero': 2, 'One': 2, 'Neg': 3, 'Add': 3, 'Sub': 3, 'AddAssign': 3, 'SubAssign': 3, 'Mul': 4, 'Div': 4,
         'MulAssign': 5, 'DivAssign': 5, 'Signed': 6, 'DualNum': 7, 'BesselDual': 7, 'Inv': 8, 'Sum': 8, 'Product': 8, 'FloatConst': 8,
         'FromPrimitive': 8, 'Display': 9, 'PartialEq': 9, 'PartialOrd': 9}
FIELD_TRAITS = {'ComplexField', 'RealField', 'Field', 'SimdValue', 'SubsetOf', 'SupersetOf', 'PrimitiveSimdValue'}
FIELD_SKIP = {n: 'panics by design' for n in ('floor', 'ceil', 'round', 'trunc', 'fract')}
FIELD_SKIP.update({n: 'outside the model (%s)' % n for n in ('is_finite', 'try_sqrt', 'min_value', 'max_value', 'cbrt_', 'to_exp', 'signum', 'rem_euclid')})
REGISTER_TRAITS = {None, 'DualNum', 'Signed', 'Zero', 'One', 'Inv', 'From', 'BesselDual', 'PartialEq'} | set(OPS_TRAITS)


def last_id(ty):
    """struct name of a (possibly referenced) path type, and whether it is a reference"""
    isref = False
    while ty['k'] == 'ref':
        isref = True
        ty = ty['elem']
    if ty['k'] == 'path':
        return ty['segs'][-1]['id'], isref
    return None, isref


def arg_kind(text, sname):
    s = strip_ws(re.sub(r"'\w+", '', text))
    isref = s.startswith('&')
    s = s.lstrip('&')
    if s in ('F', 'T'):
        return s, isref
    if s.startswith(sname + '<') or s == 'Self' or s == sname:
        return 'S', isref
    if s in ('f64', 'f32'):
        return 'S', isref
    return '?', isref


class Sections:
    def __init__(self, em):
        self.em = em
        self.secs = OrderedDict()
        self.field_impls = []
        self.display_impls = []

    def section(self, name, struct, kind):
        if name not in self.secs:
            self.secs[name] = Section(name, struct, kind)
        return self.secs[name]

    # -------------------------------------------------- collection
    def collect(self):
        em = self.em
        for mname, mod in em.mods.items():
            for it in mod['items'] or []:
                if it['k'] == 'struct' and it['name'] in ALL_STRUCTS:
                    em.structs[it['name']] = it
        dualnum_trait = None
        for it in em.ast['items']:
            if it['k'] == 'trait' and it['name'] == 'DualNum':
                dualnum_trait = it
        self.dualnum_defaults = [f for f in dualnum_trait['items'] if f['k'] == 'fn' and f['body'] is not None]
        # impls
        for mname, mod in list(em.mods.items()) + [('lib', {'items': em.ast['items']})]:
            for it in mod['items'] or []:
                if it['k'] != 'impl':
                    continue
                sname, sref = last_id(it['self_ty'])
                trait = it['trait']['segs'][-1]['id'] if it['trait'] else None
                if trait in SKIP_TRAITS:
                    continue
                if trait in FIELD_TRAITS:
                    self.field_impls.append(it)
                    continue
                if trait == 'Display' and sname in DUAL_STRUCTS:
                    self.display_impls.append((sname, it))
                    continue
                if sname in ALL_STRUCTS:
                    sec = self.section(sname, sname, 'derivative' if sname == 'Derivative' else 'dual')
                elif sname == 'f64' and trait == 'DualNum':
                    sec = self.section('Float', None, 'float')
                else:
                    continue
                targ = None
                if it['trait'] and isinstance(it['trait']['segs'][-1]['args'], list) and it['trait']['segs'][-1]['args']:
                    targ = it['trait']['segs'][-1]['args'][0]
                extra_generics = [g for g in it['generic_params'] if not re.match(r"^('|T\b|F\b|R\b|C\b|D\b|M\b|N\b|const )", g.strip()) and not re.search(r':\s*Dim\s*$', g)]
                for f in it['items']:
                    if f['k'] == 'fn':
                        sec.fns.append(FnInfo(fn=f, trait=trait, targ=targ, sref=sref, impl=it, mod=mname, kind='fn',
                                              extra_generics=extra_generics))
                    elif f['k'] == 'const' and f['name'] == 'NDERIV':
                        sec.fns.append(FnInfo(fn=f, trait=trait, targ=targ, sref=sref, impl=it, mod=mname, kind='const',
                                              extra_generics=extra_generics))
        # trait default methods of DualNum instantiated per dual struct
        for sname in DUAL_STRUCTS:
            sec = self.secs.get(sname)
            if sec is None:
                continue
            have = {fi.fn['sig']['name'] for fi in sec.fns if fi.kind == 'fn' and fi.trait == 'DualNum'}
            for f in self.dualnum_defaults:
                if f['sig']['name'] not in have:
                    sec.fns.append(FnInfo(fn=f, trait='DualNum', targ='F', sref=False, impl=None, mod='lib', kind='fn',
                                          extra_generics=[], default=True))

    # -------------------------------------------------- naming
    def name_fns(self, sec):
        em = self.em
        S = sec.struct or 'Float'
        used = defaultdict(int)
        for fi in sec.fns:
            fname = fi.fn['sig']['name'] if fi.kind == 'fn' else fi.fn['name']
            tr = fi.trait
            fi.rname = fname
            fi.form = None
            fi.argk = None
            if tr in OPS_TRAITS:
                op = OPS_TRAITS[tr]
                s = 'r' if fi.sref else 'v'
                if tr == 'Neg':
                    base = '%s_neg_%s' % (S, s)
                    fi.form = s
                else:
                    ak, aref = arg_kind(fi.targ, sec.struct or 'f64') if fi.targ else ('S', False)
                    fi.argk = ak
                    if tr.endswith('Assign'):
                        base = '%s_%s_%s' % (S, op, ak if ak != '?' else 'X')
                        fi.form = 'a'
                    else:
                        a = {'S': 'r' if aref else 'v', 'F': 'F', 'T': 'T', '?': 'r' if aref else 'v'}[ak]
                        base = '%s_%s_%s%s' % (S, op, s, a)
                        fi.form = s + a
                fi.op = op
            elif tr is None or tr in ('DualNum', 'BesselDual'):
                base = '%s_%s' % (S, fname)
            else:
                base = '%s_%s_%s' % (S, tr, fname)
            used[base] += 1
            fi.defname = base if used[base] == 1 else '%s_%d' % (base, used[base])
            fi.has_recv = fi.kind == 'fn' and fi.fn['sig']['receiver'] is not None
            if fi.kind == 'fn' and tr is None and not fi.has_recv:
                em.assoc_fns[S].setdefault(fname, fi.defname)
            # phase
            if tr is None:
                ph = 0 if fname == 'new' else (4 if fname == 'chain_rule' else 1)
            else:
                ph = PHASE.get(tr, 10)
            if tr == 'DualNum' and fname in ('re', 'from_inner', 'NDERIV'):
                ph = 2
            if tr in ('Mul', 'Div', 'Add', 'Sub') and fi.argk in ('F',):
                ph = 5
            if tr in ('AddAssign', 'SubAssign') and fi.argk == 'F':
                ph = 5
            fi.phase = ph

    # -------------------------------------------------- translation
    def translate(self, sec):
        em = self.em
        S = sec.struct
        self_ty = '(%s T)' % S if S else 'F'
        for idx, fi in enumerate(sec.fns):
            fi.idx = idx
            fi.ok = False
            fi.why = None
            fi.provides = set()
            fi.deps = set()
            src = fi.fn.get('hash') or json.dumps(fi.fn, sort_keys=True)
            fi.hash = hashlib.sha256(src.encode()).hexdigest()[:16]
            if fi.extra_generics:
                fi.why = 'impl generic over %s (handled by a dedicated section)' % ','.join(fi.extra_generics)
                continue
            try:
                if fi.kind == 'const':
                    ctx = Ctx(em, sec, self_ty, fi.fn['name'])
                    txt = em.expr(fi.fn['e'], ctx).replace('%Z', '%nat')
                    fi.text = 'Definition %s : nat := %s.' % (fi.defname, txt)
                    fi.deps = ctx.deps
                    fi.ok = True
                    fi.inst = ['#[local] Instance %s_inst : NDeriv %s := %s.' % (fi.defname, self_ty, fi.defname)]
                    continue
                gen = fi.fn['sig']['generics'].strip()
                gen_ok = gen in ('', '< >') or all(re.search(r':\s*Dim\s*$', g.strip()) for g in gen.strip('<> ').split(','))
                if not gen_ok and fi.trait not in ('Sum', 'Product'):
                    raise Untranslatable('generic function %s' % fi.fn['sig']['generics'])
                params, body, rty, ctx = em.translate_fn(sec, fi.fn, self_ty, fi.defname, None)
                rt = '' if rty == '_' else ' : %s' % rty
                fi.text = 'Definition %s %s%s :=\n  %s.' % (fi.defname, params, rt, body)
                fi.deps = ctx.deps
                fi.ok = True
                fi.nargs = len(fi.fn['sig']['inputs'])
                fi.param_tys = [em.ty(i['ty'], ctx) for i in fi.fn['sig']['inputs']]
                fi.rty = rty
            except Untranslatable as u:
                fi.why = str(u)
            except RecursionError:
                fi.why = 'recursion'

    # -------------------------------------------------- instance registration
    def registrations(self, sec):
        em = self.em
        S = sec.struct
        self_ty = '(%s T)' % S if S else 'F'
        vis = '#[global]' if sec.kind == 'derivative' else '#[local]'
        # canonical op forms
        groups = defaultdict(list)
        for fi in sec.fns:
            if fi.ok and fi.trait in OPS_TRAITS and fi.kind == 'fn':
                groups[(fi.op, fi.argk)].append(fi)
        pref = {'rr': 0, 'rv': 1, 'vr': 2, 'vv': 3, 'rT': 0, 'vT': 1, 'rF': 0, 'vF': 1, 'r': 0, 'v': 1, 'a': 0}
        sec.canon = {}
        for key, fis in groups.items():
            fis.sort(key=lambda f: (pref.get(f.form, 9), f.idx))
            # several distinct impls with the same preference (Derivative * Derivative2 ...) : first wins
            sec.canon[key] = fis[0]
        for fi in sec.fns:
            fi.inst = getattr(fi, 'inst', [])
            if not fi.ok or fi.kind != 'fn':
                continue
            tr = fi.trait
            if tr in OPS_TRAITS:
                if sec.canon.get((fi.op, fi.argk)) is not fi:
                    continue
                cls = OP_CLASS[fi.op]
                argty = {'S': self_ty, 'F': 'F', 'T': 'T', None: None, '?': None}[fi.argk]
                if fi.op == 'neg':
                    fi.inst.append('%s Instance %s_inst : %s %s %s := %s.' % (vis, fi.defname, cls, self_ty, self_ty, fi.defname))
                    fi.provides.add(('op', 'neg'))
                elif argty is None:
                    pt = fi.param_tys[0]
                    if pt == '_':
                        continue
                    fi.inst.append('%s Instance %s_inst : %s %s %s %s := %s.' % (vis, fi.defname, cls, self_ty, pt, fi.rty if fi.rty != '_' else self_ty, fi.defname))
                    fi.provides.add(('op', fi.op))
                elif fi.op.endswith('_assign'):
                    fi.inst.append('%s Instance %s_inst : %s %s %s := %s.' % (vis, fi.defname, cls, self_ty, argty, fi.defname))
                    fi.provides.add(('op', fi.op))
                else:
                    fi.inst.append('%s Instance %s_inst : %s %s %s %s := %s.' % (vis, fi.defname, cls, self_ty, argty, self_ty, fi.defname))
                    fi.provides.add(('op', fi.op))
                continue
            if tr not in REGISTER_TRAITS:
                continue
            name = fi.rname
            if tr == 'Zero' and name == 'zero':
                fi.inst.append('%s Instance %s_inst : HZero %s := %s.' % (vis, fi.defname, self_ty, fi.defname))
                fi.provides.add(('c', 'zero'))
            elif tr == 'One' and name == 'one':
                fi.inst.append('%s Instance %s_inst : HOne %s := %s.' % (vis, fi.defname, self_ty, fi.defname))
                fi.provides.add(('c', 'one'))
            elif tr == 'From' and name == 'from':
                fi.inst.append('%s Instance %s_inst : OfF F %s := %s.' % (vis, fi.defname, self_ty, fi.defname))
                fi.provides.add(('m', 'from'))
            elif tr == 'PartialEq':
                if name == 'eq':
                    fi.inst.append('%s Instance %s_inst : HEqb %s %s := %s.' % (vis, fi.defname, self_ty, self_ty, fi.defname))
                    fi.provides.add(('op', 'cmp'))
            elif fi.has_recv:
                cls = em.mclass(name, fi.nargs)
                tys = [self_ty] + fi.param_tys + [fi.rty]
                if '_' in tys:
                    fi.why_noinst = 'unknown type in signature'
                    continue
                fi.inst.append('%s Instance %s_inst : M_%s %s := %s.' % (vis, fi.defname, cls, ' '.join(tys), fi.defname))
                fi.provides.add(('m', name))
            elif tr is None:
                fi.provides.add(('a', S or 'Float', name))

    # -------------------------------------------------- ordering
    def order(self, sec):
        fns = [f for f in sec.fns if f.ok]
        provider = defaultdict(list)
        for f in fns:
            for p in f.provides:
                provider[p].append(f)
        # `zero`/`one`/from used through (zero : Self): approximate dependency by phase only
        fns.sort(key=lambda f: (f.phase, f.idx))
        out, done = [], set()
        def visit(f, stack):
            if f.idx in done:
                return
            if f.idx in stack:
                return
            stack = stack | {f.idx}
            for d in sorted(f.deps, key=str):
                for g in provider.get(d, []):
                    if g is not f and g.phase == f.phase:
                        visit(g, stack)
            done.add(f.idx)
            out.append(f)
        for f in fns:
            visit(f, frozenset())
        sec.ordered = out

    # -------------------------------------------------- output
    def emit_record(self, st):
        em = self.em
        name = st['name']
        ctx = Ctx(em, Section(name, name, 'dual'), '(%s T)' % name, '')
        flds = em.model_fields(st)
        lines = []
        fdecl = '; '.join('%s_f_%s : %s' % (name, f['name'], em.ty(f['ty'], ctx)) for f in flds)
        lines.append('Record %s (T : Type) := mk%s { %s }.' % (name, name, fdecl))
        lines.append('Arguments mk%s {T}.' % name)
        for f in flds:
            lines.append('Arguments %s_f_%s {T}.' % (name, f['name']))
        for i, f in enumerate(flds):
            fn = f['name']
            em.fields[fn] = True
            fty = em.ty(f['ty'], ctx)
            lines.append('#[global] Instance %s_Fd_%s {T} : Fd_%s (%s T) %s := %s_f_%s.' % (name, fn, fn, name, fty, name, fn))
            args = ' '.join('v' if j == i else '(%s_f_%s s)' % (name, g['name']) for j, g in enumerate(flds))
            lines.append('#[global] Instance %s_Set_%s {T} : Set_%s (%s T) %s := fun v s => mk%s %s.' % (name, fn, fn, name, fty, name, args))
        # wire format (correspondence check): flatten / read the record field by field, in declaration order
        lines.append('#[global] Instance %s_Flat {T} `{Flat T} : Flat (%s T) := fun x => %s.' % (
            name, name, ' ++ '.join('flat (%s_f_%s x)' % (name, f['name']) for f in flds) or '[]'))
        rd = ''
        for k, f in enumerate(flds):
            rd += "let '(v%d, l) := rd (A:=%s) l in " % (k, em.ty(f['ty'], ctx))
        lines.append('#[global] Instance %s_Rd {T} `{Rd T} : Rd (%s T) := fun l => %s(mk%s %s, l).' % (
            name, name, rd, name, ' '.join('v%d' % k for k in range(len(flds)))))
        return '\n'.join(lines)

    def dn_instance(self, sec):
        """bundle the translated definitions of a dual struct into DN F (S T)"""
        S = sec.struct
        byname = {}
        for fi in sec.ordered:
            byname.setdefault((fi.trait, fi.rname), fi)
        def op(o, ak):
            fi = sec.canon.get((o, ak))
            return fi.defname if fi is not None and fi.ok else None
        def tr(t, n):
            fi = byname.get((t, n))
            return fi.defname if fi is not None else None
        m = OrderedDict()
        m['dn_zero'] = tr('Zero', 'zero'); m['dn_one'] = tr('One', 'one'); m['dn_ofF'] = tr('From', 'from')
        m['dn_re'] = tr('DualNum', 're')
        for o in ('add', 'sub', 'mul', 'div'):
            m['dn_' + o] = op(o, 'S')
            m['dn_%sF' % o] = op(o, 'F')
            m['dn_%s_assign' % o] = op(o + '_assign', 'S')
            m['dn_%s_assignF' % o] = op(o + '_assign', 'F')
        m['dn_neg'] = op('neg', None)
        for u in DN_UNARY:
            m['dn_' + u] = tr('DualNum', u)
        m['dn_abs'] = tr('Signed', 'abs'); m['dn_signum'] = tr('Signed', 'signum'); m['dn_inv'] = tr('Inv', 'inv')
        m['dn_is_zero'] = tr('Zero', 'is_zero'); m['dn_is_one'] = tr('One', 'is_one')
        m['dn_is_positive'] = tr('Signed', 'is_positive'); m['dn_is_negative'] = tr('Signed', 'is_negative')
        for n in ('sin_cos', 'powi', 'powf', 'log', 'atan2', 'powd', 'mul_add'):
            m['dn_' + n] = tr('DualNum', n)
        m['dn_abs_sub'] = tr('Signed', 'abs_sub')
        m['dn_eqb'] = tr('PartialEq', 'eq')
        m['dn_nderiv'] = tr('DualNum', 'NDERIV')
        missing = [k for k, v in m.items() if v is None]
        fields = ';\n  '.join('%s := %s' % (k, v) for k, v in m.items() if v is not None)
        fields = 'dn_fl := dn_fl (T:=T);\n  ' + fields
        txt = '#[global] Instance DN_%s : DN F (%s T) := {|\n  %s |}.' % (S, S, fields)
        return txt, missing

    def float_instance(self, sec):
        byname = {fi.rname: fi for fi in sec.ordered}
        m = OrderedDict()
        m['dn_fl'] = 'flF'
        m['dn_zero'] = '(zero : F)'; m['dn_one'] = '(one : F)'; m['dn_ofF'] = '(fun x : F => x)'
        m['dn_re'] = 'Float_re'
        for o, c in (('add', 'hadd'), ('sub', 'hsub'), ('mul', 'hmul'), ('div', 'hdiv')):
            m['dn_' + o] = '(%s : F -> F -> F)' % c
            m['dn_%sF' % o] = '(%s : F -> F -> F)' % c
            m['dn_%s_assign' % o] = '(%s : F -> F -> F)' % c
            m['dn_%s_assignF' % o] = '(%s : F -> F -> F)' % c
        m['dn_neg'] = '(hneg : F -> F)'
        for u in DN_UNARY:
            m['dn_' + u] = 'Float_' + u if u in byname else None
        m['dn_abs'] = 'std_abs'; m['dn_signum'] = 'nt_signum'; m['dn_inv'] = 'std_recip'
        m['dn_is_zero'] = 'nt_is_zero'; m['dn_is_one'] = 'nt_is_one'
        m['dn_is_positive'] = 'nt_is_positive'; m['dn_is_negative'] = 'nt_is_negative'
        for n in ('sin_cos', 'powi', 'powf', 'log', 'atan2', 'powd', 'mul_add'):
            m['dn_' + n] = 'Float_' + n if n in byname else None
        m['dn_abs_sub'] = 'nt_abs_sub'
        m['dn_eqb'] = '(heqb : F -> F -> bool)'
        m['dn_nderiv'] = 'Float_NDERIV'
        missing = [k for k, v in m.items() if v is None]
        fields = ';\n  '.join('%s := %s' % (k, v) for k, v in m.items() if v is not None)
        return '#[global] Instance DN_Float : DN F F := {|\n  %s |}.' % fields, missing

    def emit_section(self, sec):
        em = self.em
        out = []
        out.append('(* GENERATED by tools/emit.py from the macro-expanded source of /repo -- do not edit *)')
        out.append('From ND Require Import Overload Float Mat Opt Wire.')
        imports = ['Classes']
        if sec.struct in VEC_STRUCTS:
            imports.append('Gen_Derivative')
        out.append('From NDgen Require Import %s.' % ' '.join(imports))
        out.append('Local Open Scope rs_scope.')
        out.append('Set Implicit Arguments. Unset Strict Implicit.' if False else '')
        if sec.struct:
            out.append(self.emit_record(em.structs[sec.struct]))
        out.append('')
        out.append('Section Gen_%s.' % sec.name)
        if sec.kind == 'float':
            out.append('Context {F : Type} {flF : FL F}.')
            out.append('#[local] Instance Float_abs_inst : M_abs F F := std_abs.')
            out.append('#[local] Instance Float_NDERIV_dummy : NDeriv F := 0%nat.')
        else:
            out.append('Context {F T : Type} {dnFT : DN F T}.')
            out.append('#[local] Instance flF : FL F := dn_fl (T:=T).')
            out.append('Context {ordT : DNOrd T}.')
        out.append('')
        for fi in sec.ordered:
            out.append('(* %s %s :: %s  [%s] *)' % (fi.mod, fi.trait or 'inherent', fi.rname, fi.hash))
            out.append(fi.text)
            for i in fi.inst:
                out.append(i)
            out.append('')
        missing = []
        if sec.kind == 'dual':
            txt, missing = self.dn_instance(sec)
            out.append(txt)
        elif sec.kind == 'float':
            txt, missing = self.float_instance(sec)
            out.append(txt)
        out.append('End Gen_%s.' % sec.name)
        sec.missing_dn = missing
        return '\n'.join(out) + '\n'

    # -------------------------------------------------- Display
    def fmt_pieces(self, mac, ctx):
        """format_args!("..{0}..", a, b) -> list of Coq token-list terms"""
        em = self.em
        args = mac['args']
        if not args or args[0]['k'] != 'lit' or args[0]['lit']['k'] != 'str':
            raise Untranslatable('format_args without a literal format string')
        fmt = args[0]['lit']['value']
        out = []
        pos = 0
        for m in re.finditer(r'\{(\d*)\}|\{(\w+)\}', fmt):
            lit = fmt[pos:m.start()]
            if lit:
                out.append('[TLit %s]' % em.coq_string(lit))
            if m.group(1) is not None and m.group(1) != '':
                out.append('(tokens %s)' % em.expr(args[1 + int(m.group(1))], ctx))
            else:
                raise Untranslatable('named / implicit format argument')
            pos = m.end()
        if fmt[pos:]:
            out.append('[TLit %s]' % em.coq_string(fmt[pos:]))
        return out

    def fmt_body(self, stmts, ctx):
        em = self.em
        out = []
        for st in stmts:
            if st['k'] != 'expr':
                raise Untranslatable('statement in fmt')
            e = st['expr']
            if e['k'] == 'try':
                e = e['e']
            if e['k'] == 'method' and e['method'] == 'write_fmt' and e['args'] and e['args'][0]['k'] == 'macro':
                out += self.fmt_pieces(e['args'][0], ctx)
            elif e['k'] == 'method' and e['method'] == 'fmt' and len(e['args']) == 2 and e['args'][1]['k'] == 'lit':
                out.append('(der_fmt %s %s)' % (em.expr(e['recv'], ctx), em.coq_string(e['args'][1]['lit']['value'])))
            else:
                raise Untranslatable('fmt statement %s' % e['k'])
        return out

    def emit_display(self):
        em = self.em
        out = ['(* GENERATED by tools/emit.py: the Display impls as token lists -- do not edit *)',
               'From ND Require Import Overload Float Mat Opt Wire Show DerFmt.',
               'From NDgen Require Import Classes Gen_Derivative ' + ' '.join('Gen_' + s for s in DUAL_STRUCTS) + '.', '']
        cov = []
        for sname, it in self.display_impls:
            fn = [f for f in it['items'] if f['k'] == 'fn' and f['sig']['name'] == 'fmt'][0]
            ctx = Ctx(em, Section(sname, sname, 'dual'), '(%s T)' % sname, 'fmt')
            src = fn.get('hash') or json.dumps(fn, sort_keys=True)
            h = hashlib.sha256(src.encode()).hexdigest()[:16]
            try:
                pieces = self.fmt_body(fn['body']['stmts'], ctx)
                body = ' ++ '.join(pieces) if pieces else '[]'
                out.append('Section Display_%s.\nContext {F T : Type} {showT : Show F T}.' % sname)
                out.append('(* %s Display :: fmt  [%s] *)' % (sname, h))
                out.append('Definition %s_Display_fmt (self_ : %s T) : list (token F) :=\n  %s.' % (sname, sname, body))
                out.append('#[global] Instance Show_%s : Show F (%s T) := %s_Display_fmt.' % (sname, sname, sname))
                out.append('End Display_%s.\n' % sname)
                cov.append({'section': 'Display', 'module': sname, 'trait': 'Display', 'fn': 'fmt', 'def': '%s_Display_fmt' % sname, 'translated': True, 'why': None, 'hash': h})
            except Untranslatable as u:
                cov.append({'section': 'Display', 'module': sname, 'trait': 'Display', 'fn': 'fmt', 'def': None, 'translated': False, 'why': str(u), 'hash': h})
        cov.append({'section': 'Display', 'module': 'derivative', 'trait': None, 'fn': 'Derivative::fmt', 'def': 'der_fmt', 'translated': False,
                    'why': 'hand-modelled (coq/ND/Hand/DerFmt.v), tied by correspondence', 'hash': ''})
        return '\n'.join(out) + '\n', cov

    # -------------------------------------------------- nalgebra ComplexField / RealField impls (C11)
    def emit_field(self):
        """Gen_Field.v: the bodies of the ComplexField / RealField methods of the four field-compatible types.  Methods that
        panic by design or use vocabulary outside the model are listed as untranslated."""
        em = self.em
        out = ['(* GENERATED by tools/emit.py: nalgebra ComplexField / RealField impls -- do not edit *)',
               'From ND Require Import Overload Float Mat Opt Wire.',
               'From NDgen Require Import Classes Gen_Derivative ' + ' '.join('Gen_' + s for s in DUAL_STRUCTS) + '.',
               'Local Open Scope rs_scope.', '']
        cov = []
        bysec = OrderedDict()
        for it in self.field_impls:
            sname, _ = last_id(it['self_ty'])
            trait = it['trait']['segs'][-1]['id']
            if trait not in ('ComplexField', 'RealField') or sname not in DUAL_STRUCTS:
                continue
            bysec.setdefault(sname, []).append((trait, it))
        for sname, impls in bysec.items():
            sec = Section('Field_' + sname, sname, 'dual')
            self_ty = '(%s T)' % sname
            out.append('Section Field_%s.' % sname)
            out.append('Context {F T : Type} {dnFT : DN F T} {ordT : DNOrd T}.')
            out.append('#[local] Instance flF_%s : FL F := dn_fl (T:=T).' % sname)
            out.append('#[local] Instance fv_sign_%s :' % sname + ' M_is_sign_positive T bool := fun t => fl_sign_pos (m_re t).')
            out.append('#[local] Instance fv_sign_neg_%s : M_is_sign_negative T bool := fun t => negb (fl_sign_pos (m_re t)).' % sname)
            out.append('#[local] Instance fv_ord_%s : HLtb %s %s := fun a b => hltb (f_re a) (f_re b).' % (sname, self_ty, self_ty))
            out.append('#[local] Instance fv_simd_abs_%s : M_simd_abs %s %s := fun a => m_abs a.' % (sname, self_ty, self_ty))
            for trait, it in impls:
                for f in it['items']:
                    if f['k'] != 'fn':
                        continue
                    name = f['sig']['name']
                    defname = '%s_%s_%s' % (sname, trait, name)
                    src = f.get('hash') or json.dumps(f, sort_keys=True)
                    h = hashlib.sha256(src.encode()).hexdigest()[:16]
                    try:
                        if name in FIELD_SKIP:
                            raise Untranslatable(FIELD_SKIP[name])
                        params, body, rty, ctx = em.translate_fn(sec, f, self_ty, defname, None)
                        rt = '' if rty == '_' else ' : %s' % rty
                        out.append('(* %s %s :: %s  [%s] *)' % (sname, trait, name, h))
                        out.append('Definition %s %s%s :=\n  %s.' % (defname, params, rt, body))
                        if trait == 'ComplexField' and name == 'powf':
                            out.append('#[local] Instance %s_inst : M_powf %s %s %s := %s.' % (defname, self_ty, self_ty, self_ty, defname))
                        cov.append({'section': 'Field', 'module': sname, 'trait': trait, 'fn': name, 'def': defname, 'translated': True, 'why': None, 'hash': h})
                    except Untranslatable as u:
                        cov.append({'section': 'Field', 'module': sname, 'trait': trait, 'fn': name, 'def': None, 'translated': False, 'why': str(u), 'hash': h})
            out.append('End Field_%s.\n' % sname)
        return '\n'.join(out) + '\n', cov

    def emit_classes(self):
        em = self.em
        out = ['(* GENERATED by tools/emit.py: method / field classes and the DualNum interface record *)',
               'From ND Require Import Overload Float Opt Mat.', '']
        out.append('Class NDeriv (A : Type) := nderiv : nat.')
        out.append('Arguments nderiv {A} {_}.' if False else 'Arguments nderiv A {_}.')
        out.append('Notation "\'nderiv\' ( A := X )" := (nderiv X) (at level 0, only parsing).' if False else '')
        for name, ar in em.methods.items():
            tys = ['A'] + ['B%d' % i for i in range(ar)] + ['R']
            out.append('Class M_%s (%s : Type) := m_%s : %s.' % (name, ' '.join(tys), name, ' -> '.join(tys)))
            out.append('#[global] Hint Mode M_%s ! %s : typeclass_instances.' % (name, ' '.join('-' for _ in tys[1:])))
        out.append('')
        for f in em.fields:
            out.append('Class Fd_%s (A B : Type) := f_%s : A -> B.' % (f, f))
            out.append('#[global] Hint Mode Fd_%s ! - : typeclass_instances.' % f)
            out.append('Class Set_%s (A B : Type) := set_%s : B -> A -> A.' % (f, f))
            out.append('#[global] Hint Mode Set_%s ! - : typeclass_instances.' % f)
        if '0' in em.fields:
            out.append('#[global] Instance pair_Fd_0 {A B} : Fd_0 (A * B) A := fst.')
        if '1' in em.fields:
            out.append('#[global] Instance pair_Fd_1 {A B} : Fd_1 (A * B) B := snd.')
        out.append('')
        out.append('Class DN (F T : Type) := {')
        out.append('  dn_fl :> FL F;')
        out.append(';\n'.join('  %s :> %s' % (n, c) for n, c in DN_FIELDS))
        out.append('}.')
        out.append('#[global] Hint Mode DN - ! : typeclass_instances.')
        out.append('')
        out.append('(* nalgebra matrix methods *)')
        if 'tr_mul' in em.methods:
            out.append('#[global] Instance mat_M_tr_mul {T} `{HMul T T T} `{HAdd T T T} `{HZero T} : M_tr_mul (mat T) (mat T) (mat T) := mat_tr_mul.')
        if 'transpose' in em.methods:
            out.append('#[global] Instance mat_M_transpose {T} : M_transpose (mat T) (mat T) := mat_transpose.')
        out.append('')
        out.append('(* T: PartialOrd -- not a supertrait of DualNum; an extra context of the impls that ask for it *)')
        out.append('Class DNOrd (T : Type) := dn_partial_cmp :> M_partial_cmp T T (option ordering).')
        out.append('#[global] Hint Mode DNOrd ! : typeclass_instances.')
        out.append('#[global] Instance ltb_of_cmp {T} `{DNOrd T} : HLtb T T | 100 := fun a b => match m_partial_cmp a b with Some Less => true | _ => false end.')
        out.append('#[global] Instance leb_of_cmp {T} `{DNOrd T} : HLeb T T | 100 := fun a b => match m_partial_cmp a b with Some Less | Some Equal => true | _ => false end.')
        out.append('#[global] Instance DNOrd_F {F} `{FL F} : DNOrd F := fl_partial_cmp.')
        out.append('')
        out.append('(* methods of num_traits::Float / std called on values of the float type F itself *)')
        for u in ('recip sqrt cbrt exp exp2 exp_m1 ln log2 log10 ln_1p sin cos tan asin acos atan sinh cosh tanh asinh acosh atanh abs').split():
            out.append('#[global] Instance F_%s {F} `{FL F} : M_%s F F := std_%s.' % (u, u, u))
        out.append('#[global] Instance F_signum {F} `{FL F} : M_signum F F := nt_signum.')
        for u in DN_PRED:
            out.append('#[global] Instance F_%s {F} `{FL F} : M_%s F bool := nt_%s.' % (u, u, u))
        out.append('#[global] Instance F_powf {F} `{FL F} : M_powf F F F := std_powf.')
        out.append('#[global] Instance F_powi {F} `{FL F} : M_powi F Z F := std_powi.')
        out.append('#[global] Instance F_atan2 {F} `{FL F} : M_atan2 F F F := std_atan2.')
        out.append('#[global] Instance F_log {F} `{FL F} : M_log F F F := std_log.')
        out.append('#[global] Instance F_sin_cos {F} `{FL F} : M_sin_cos F (F * F) := std_sin_cos.')
        out.append('#[global] Instance F_mul_add {F} `{FL F} : M_mul_add F F F F := std_mul_add.')
        return '\n'.join(out) + '\n'


def write_if_changed(path, text):
    if os.path.exists(path) and open(path).read() == text:
        return False
    with open(path, 'w') as f:
        f.write(text)
    return True


def main():
    astp, outdir = sys.argv[1], sys.argv[2]
    only = sys.argv[3].split(',') if len(sys.argv) > 3 else None
    ast = json.load(open(astp))
    em = Emitter(ast)
    ss = Sections(em)
    ss.collect()
    for sec in ss.secs.values():
        ss.name_fns(sec)
    texts = {}
    cov = []
    for name, sec in ss.secs.items():
        if only and name not in only:
            continue
        ss.translate(sec)
        ss.registrations(sec)
        ss.order(sec)
        texts['Gen_%s.v' % name] = ss.emit_section(sec)
        for fi in sec.fns:
            cov.append({'section': name, 'module': fi.mod, 'trait': fi.trait, 'fn': fi.rname, 'def': fi.defname,
                        'translated': fi.ok, 'why': fi.why, 'hash': fi.hash})
        print('%-16s translated %3d / %3d   missing DN fields: %s' % (name, sum(f.ok for f in sec.fns), len(sec.fns), ','.join(sec.missing_dn) or '-'))
    texts['Gen_Display.v'], dcov = ss.emit_display()
    cov += dcov
    texts['Gen_Field.v'], fcov = ss.emit_field()
    cov += fcov
    texts['Classes.v'] = ss.emit_classes()
    os.makedirs(outdir, exist_ok=True)
    for fn, t in texts.items():
        ch = write_if_changed(os.path.join(outdir, fn), t)
    json.dump(cov, open(os.path.join(outdir, 'coverage.json'), 'w'), indent=1)
    # record layouts for the correspondence driver (field order and kinds come from the source, not from a table)
    structs = {}
    for name, st in em.structs.items():
        flds = []
        for f in em.model_fields(st):
            t = strip_ws(f['ty']['text'])
            m = re.match(r'^Derivative<T,F,(\w+),(\w+)>$', t)
            if t == 'T':
                flds.append({'name': f['name'], 'kind': 'T'})
            elif m:
                flds.append({'name': f['name'], 'kind': 'D', 'rows': m.group(1), 'cols': m.group(2)})
            else:
                flds.append({'name': f['name'], 'kind': 'other', 'ty': t})
        structs[name] = flds
    json.dump(structs, open(os.path.join(outdir, 'structs.json'), 'w'), indent=1)
    why = defaultdict(int)
    for c in cov:
        if not c['translated']:
            why[c['why']] += 1
    for w, n in sorted(why.items(), key=lambda x: -x[1]):
        print('  untranslated %4d : %s' % (n, w))


if __name__ == '__main__':
    main()
