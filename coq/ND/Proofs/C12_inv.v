(* Proofs/C12_inv.v -- LU::inverse: column j of the result is LU::solve applied to the j-th unit vector, hence A A^-1 = I (any size, any pivoting
   path, every derivative part), over any commutative ring with division by units. *)
From Coq Require Import List Arith Lia Ring.
From ND Require Import Tactics LinAlg C12_proofs C12_lu.
From NDgen Require Import Classes.
Import ListNotations.

Section Inverse.
  Context {F T : Type} {dn : DN F T}.
  Local Open Scope rs_scope.
  Notation Z0 := (Overload.zero : T).
  Notation O1 := (Overload.one : T).

  Definition col (ia : list (list T)) (j : nat) : list T := map (fun row => nth j row Z0) ia.
  Lemma col_length ia j : length (col ia j) = length ia.
  Proof. apply map_length. Qed.
  Lemma vg_col ia j k : (k < length ia)%nat -> vg (col ia j) k = mg ia k j.
  Proof.
    intros H. unfold vg, col, mg. rewrite (nth_indep _ Z0 (nth j nil Z0)) by (rewrite map_length; exact H).
    rewrite (map_nth (fun row => nth j row Z0) ia nil k). reflexivity.
  Qed.
  Lemma map_upd {A B} (f : A -> B) (l : list A) i v : map f (upd l i v) = upd (map f l) i (f v).
  Proof. revert i; induction l as [|x r IH]; intros [|i]; simpl; auto. f_equal. apply IH. Qed.
  Lemma upd_same {A} (l : list A) i d : upd l i (nth i l d) = l.
  Proof. revert i; induction l as [|x r IH]; intros [|i]; simpl; auto. f_equal. apply IH. Qed.
  Lemma col_ms_same n ia i j (v : T) : is_mat n ia -> (i < n)%nat -> (j < n)%nat -> col (ms ia i j v) j = upd (col ia j) i v.
  Proof.
    intros [L R] Hi Hj. unfold col, ms. rewrite map_upd. f_equal. apply nth_upd_same. rewrite R by exact Hi. exact Hj.
  Qed.
  Lemma upd_map_same {A B} (f : A -> B) (l : list A) d : forall i v, f v = f (nth i l d) -> upd (map f l) i (f v) = map f l.
  Proof.
    induction l as [|x r IH]; intros [|i] v H; simpl in *; try reflexivity.
    - rewrite H. reflexivity.
    - f_equal. apply IH. exact H.
  Qed.
  Lemma col_ms_other ia i j (v : T) j' : j' <> j -> col (ms ia i j v) j' = col ia j'.
  Proof.
    intros H. unfold col, ms. rewrite map_upd. apply (upd_map_same (fun row => nth j' row Z0) ia nil).
    apply nth_upd_other. congruence.
  Qed.

  Variable n : nat.

  (* a loop whose steps act on column j only, and there like a vector step *)
  Definition col_step (j : nat) (ks : list nat) (Fm : list (list T) -> nat -> list (list T)) (Fv : list T -> nat -> list T) : Prop :=
    forall ia i, is_mat n ia -> In i ks -> is_mat n (Fm ia i) /\ col (Fm ia i) j = Fv (col ia j) i /\ forall j', j' <> j -> col (Fm ia i) j' = col ia j'.
  Lemma fold_col j ks Fm Fv : col_step j ks Fm Fv -> forall ia, is_mat n ia ->
    is_mat n (fold_left Fm ks ia) /\ col (fold_left Fm ks ia) j = fold_left Fv ks (col ia j) /\ forall j', j' <> j -> col (fold_left Fm ks ia) j' = col ia j'.
  Proof.
    induction ks as [|k ks IH]; intros H ia Ha; simpl.
    - split; [exact Ha|]. split; [reflexivity|]. intros; reflexivity.
    - destruct (H ia k Ha (or_introl eq_refl)) as [M [C O]].
      destruct (IH (fun ia' i Ha' Hi => H ia' i Ha' (or_intror Hi)) (Fm ia k) M) as [M' [C' O']].
      split; [exact M'|]. split; [rewrite C', C; reflexivity|]. intros j' Hj'. rewrite (O' j' Hj'). apply O. exact Hj'.
  Qed.

  Variable a : list (list T).
  (* the shared inner loop: ia[(i, j)] -= a[(i, k)] * ia[(k, j)] for k in ks *)
  Definition m_sub (j i : nat) (ks : list nat) (ia : list (list T)) : list (list T) :=
    fold_left (fun ia k => ms ia i j (mg ia i j - mg a i k * mg ia k j)) ks ia.
  Lemma m_sub_col j i ks : (i < n)%nat -> (j < n)%nat -> (forall k, In k ks -> (k < n)%nat) -> forall ia, is_mat n ia ->
    is_mat n (m_sub j i ks ia) /\ col (m_sub j i ks ia) j = sub_dot a i ks (col ia j) /\ forall j', j' <> j -> col (m_sub j i ks ia) j' = col ia j'.
  Proof.
    intros Hi Hj Hk ia Ha. unfold m_sub, sub_dot.
    apply (fold_col j ks (fun ia k => ms ia i j (mg ia i j - mg a i k * mg ia k j)) (fun x k => upd x i (vg x i - mg a i k * vg x k))); [|exact Ha].
    intros ia' k Ha' Hin. pose proof Ha' as [L _]. split; [apply is_mat_ms; exact Ha'|]. split.
    - rewrite (col_ms_same n ia' i j _ Ha' Hi Hj). rewrite !vg_col by (rewrite L; auto). reflexivity.
    - intros j' Hj'. apply col_ms_other. exact Hj'.
  Qed.

  Variable p : list nat.
  Definition unitv (j : nat) : list T := map (fun k => if Nat.eqb k j then O1 else Z0) (seq 0 n).
  Lemma unitv_length j : length (unitv j) = n.
  Proof. unfold unitv. rewrite map_length. apply seq_length. Qed.
  Lemma vg_unitv q j : (j < n)%nat -> vg (unitv j) q = if Nat.eqb q j then O1 else Z0.
  Proof.
    intros Hj. unfold vg, unitv. destruct (Nat.lt_ge_cases q n) as [Hq|Hq].
    - set (f := fun k => if Nat.eqb k j then O1 else Z0).
      transitivity (nth q (map f (seq 0 n)) (f 0%nat)); [apply nth_indep; rewrite map_length, seq_length; exact Hq|].
      rewrite (map_nth f (seq 0 n) 0%nat q). rewrite seq_nth by exact Hq. reflexivity.
    - rewrite nth_overflow by (rewrite map_length, seq_length; exact Hq). destruct (Nat.eqb_spec q j); [lia|reflexivity].
  Qed.

  (* one iteration of the outer loop of LU::inverse, and the two phases of LU::solve started from an arbitrary vector *)
  Definition iter_col (j : nat) (ia : list (list T)) : list (list T) :=
    let ia := fold_left (fun ia i => m_sub j i (range 0 i) (ms ia i j (if Nat.eqb (nth i p O) j then O1 else Z0))) (range 0 n) ia in
    fold_left (fun ia i => let ia := m_sub j i (range (S i) n) ia in ms ia i j (mg ia i j / mg a i i)) (rev (range 0 n)) ia.
  Definition solve_from (b x0 : list T) : list T :=
    let x := fold_left (fun x i => sub_dot a i (range 0 i) (upd x i (vg b (nth i p O)))) (range 0 n) x0 in
    fold_left (fun x i => let x := sub_dot a i (range (S i) n) x in upd x i (vg x i / mg a i i)) (rev (range 0 n)) x.

  Lemma iter_col_spec j ia : (j < n)%nat -> is_mat n ia ->
    is_mat n (iter_col j ia) /\ col (iter_col j ia) j = solve_from (unitv j) (col ia j) /\ forall j', j' <> j -> col (iter_col j ia) j' = col ia j'.
  Proof.
    intros Hj Ha. unfold iter_col, solve_from. cbv zeta.
    assert (S1 : col_step j (range 0 n) (fun ia i => m_sub j i (range 0 i) (ms ia i j (if Nat.eqb (nth i p O) j then O1 else Z0)))
                              (fun x i => sub_dot a i (range 0 i) (upd x i (vg (unitv j) (nth i p O))))).
    { intros ia' i Ha' Hi. apply in_range' in Hi.
      assert (Hi' : (i < n)%nat) by lia.
      assert (Hm : is_mat n (ms ia' i j (if Nat.eqb (nth i p O) j then O1 else Z0))) by (apply is_mat_ms; exact Ha').
      destruct (m_sub_col j i (range 0 i) Hi' Hj (fun k Hk => ltac:(apply in_range' in Hk; lia)) _ Hm) as [M [C O]].
      split; [exact M|]. split.
      - rewrite C. rewrite (col_ms_same n ia' i j _ Ha' Hi' Hj). rewrite (vg_unitv _ j Hj). reflexivity.
      - intros j' Hj'. rewrite (O j' Hj'). apply col_ms_other. exact Hj'. }
    assert (S2 : col_step j (rev (range 0 n)) (fun ia i => let ia := m_sub j i (range (S i) n) ia in ms ia i j (mg ia i j / mg a i i))
                              (fun x i => let x := sub_dot a i (range (S i) n) x in upd x i (vg x i / mg a i i))).
    { intros ia' i Ha' Hi. apply in_rev in Hi. apply in_range' in Hi. assert (Hi' : (i < n)%nat) by lia. cbv zeta.
      destruct (m_sub_col j i (range (S i) n) Hi' Hj (fun k Hk => ltac:(apply in_range' in Hk; lia)) ia' Ha') as [M [C O]].
      pose proof M as [LM _].
      split; [apply is_mat_ms; exact M|]. split.
      - rewrite (col_ms_same n _ i j _ M Hi' Hj). rewrite <- C. rewrite vg_col by (rewrite LM; exact Hi'). reflexivity.
      - intros j' Hj'. rewrite col_ms_other by exact Hj'. apply O. exact Hj'. }
    destruct (fold_col j _ _ _ S1 ia Ha) as [M1 [C1 O1']].
    destruct (fold_col j _ _ _ S2 _ M1) as [M2 [C2 O2]].
    rewrite C1 in C2. split; [exact M2|]. split; [exact C2|]. intros j' Hj'. etransitivity; [exact (O2 j' Hj')|exact (O1' j' Hj')].
  Qed.
End Inverse.

Section InverseLoop.
  Context {F T : Type} {dn : DN F T}.
  Local Open Scope rs_scope.
  Notation Z0 := (Overload.zero : T).
  Notation O1 := (Overload.one : T).
  Variable n : nat.
  Variable a : list (list T).
  Variable p : list nat.

  Lemma outer_loop js : NoDup js -> (forall j, In j js -> (j < n)%nat) -> forall ia, is_mat n ia -> (forall j, In j js -> col ia j = repeat Z0 n) ->
    let ia' := fold_left (fun ia j => iter_col n a p j ia) js ia in
    is_mat n ia' /\ (forall j, In j js -> col ia' j = solve_from n a p (unitv n j) (repeat Z0 n)) /\ (forall j', ~ In j' js -> col ia' j' = col ia j').
  Proof.
    induction js as [|j js IH]; intros Hnd Hjs ia Ha Hz; cbn [fold_left]; cbv zeta.
    - split; [exact Ha|]. split; [intros j []|]. intros; reflexivity.
    - inversion Hnd as [|? ? Hnj Hnd']; subst.
      destruct (iter_col_spec n a p j ia (Hjs j (or_introl eq_refl)) Ha) as [M [C O]].
      assert (Hz' : forall q, In q js -> col (iter_col n a p j ia) q = repeat Z0 n).
      { intros q Hq. rewrite O by (intros ->; exact (Hnj Hq)). apply Hz. right; exact Hq. }
      destruct (IH Hnd' (fun q Hq => Hjs q (or_intror Hq)) _ M Hz') as [M' [C' O']].
      split; [exact M'|]. split.
      + intros q [->|Hq]; [|apply C'; exact Hq]. rewrite (O' q Hnj). rewrite C. rewrite (Hz q (or_introl eq_refl)). reflexivity.
      + intros j' Hj'. rewrite O' by (intros H; apply Hj'; right; exact H). apply O. intros ->. apply Hj'. left; reflexivity.
  Qed.

  Lemma col_repeat m (row : list T) j : col (repeat row m) j = repeat (nth j row Z0) m.
  Proof. unfold col. induction m as [|m IH]; simpl; [reflexivity|]. f_equal. exact IH. Qed.
  Lemma col_zeros j : (j < n)%nat -> col (repeat (repeat Z0 n) n) j = repeat Z0 n.
  Proof. intros _. rewrite col_repeat. rewrite nth_repeat. reflexivity. Qed.
  Lemma is_mat_zeros : is_mat n (repeat (repeat Z0 n) n).
  Proof.
    split; [apply repeat_length|]. intros i Hi. rewrite (nth_indep _ nil (repeat Z0 n)) by (rewrite repeat_length; exact Hi).
    rewrite nth_repeat. apply repeat_length.
  Qed.
End InverseLoop.

Section InverseCorrect.
  Context {F T : Type} {dn : DN F T}.
  Local Open Scope rs_scope.
  Hypothesis RT : ring_theory (Overload.zero : T) (Overload.one : T) (@hadd T T T dn_add) (@hmul T T T dn_mul) (@hsub T T T dn_sub) (@hneg T T dn_neg) eq.
  Variable isunit : T -> Prop.
  Hypothesis div_mul : forall x y : T, isunit y -> (x / y) * y = x.
  #[local] Instance flF_inv : FL F := @flF_la F T dn.
  Hypothesis nz_zero : nt_is_zero (Overload.zero : F) = true.
  Hypothesis pivot_unit : forall x : T, nt_is_zero (m_re (m_abs x) : F) = false -> isunit x.

  (* column j of LU::inverse is LU::solve of the j-th unit vector *)
  Theorem inverse_column (l : lu (T:=T)) j : let n := length (lu_p l) in (j < n)%nat -> col (lu_inverse l) j = lu_solve l (unitv n j).
  Proof.
    intros n Hj.
    assert (E : lu_inverse l = fold_left (fun ia j => iter_col n (lu_a l) (lu_p l) j ia) (range 0 n) (repeat (repeat (Overload.zero : T) n) n)) by reflexivity.
    rewrite E.
    assert (H1 : forall q, In q (range 0 n) -> (q < n)%nat) by (intros q Hq; apply in_range' in Hq; lia).
    assert (Hjin : In j (range 0 n)) by (apply in_range'; lia).
    destruct (outer_loop n (lu_a l) (lu_p l) (range 0 n) (NoDup_range _ _) H1 _ (is_mat_zeros n) (fun q Hq => col_zeros n q (H1 q Hq))) as [_ [C _]].
    rewrite (C j Hjin). unfold lu_solve, solve_from. rewrite unitv_length. reflexivity.
  Qed.

  (* hence A A^-1 = I *)
  Theorem inverse_correct (A : list (list T)) l : let n := length A in is_mat n A -> lu_new A = Some l ->
    forall i j, (i < n)%nat -> (j < n)%nat ->
      sum_list (fun c => mg A i c * mg (lu_inverse l) c j) (range 0 n) = (if Nat.eqb i j then (Overload.one : T) else (Overload.zero : T)).
  Proof.
    intros n HA Hl i j Hi Hj.
    destruct (lu_new_factorises RT isunit div_mul n A nz_zero pivot_unit l HA Hl) as [_ [Lp _]].
    pose proof (lu_solve_Ax_eq_b RT isunit div_mul nz_zero pivot_unit A (unitv n j) l HA (unitv_length n j) Hl) as [Lx E].
    rewrite <- (vg_unitv n i j Hj). rewrite <- (E i Hi).
    apply sum_ext'. intros c Hc. apply in_range' in Hc. f_equal.
    pose proof (inverse_column l j) as IC. cbv zeta in IC. rewrite Lp in IC. rewrite <- (IC Hj).
    symmetry. apply vg_col.
    assert (L : length (col (lu_inverse l) j) = n) by (rewrite (IC Hj); exact Lx). rewrite col_length in L. lia.
  Qed.
End InverseCorrect.
