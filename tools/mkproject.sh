#!/bin/sh
# (re)generate coq/_CoqProject and coq/Makefile from the files present
set -e
cd /verif/coq
{ echo "-Q ND ND"; echo "-Q gen NDgen"; echo "-arg -w -arg -deprecated-instance-without-locality,-future-coercion-class-field,-overriding-logical-loadpath"; find ND gen -name '*.v' | sort; } > _CoqProject
coq_makefile -f _CoqProject -o Makefile >/dev/null 2>&1
