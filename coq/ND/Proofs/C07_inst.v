(* Proofs/C07_inst.v -- written by tools/coqgen/gen_c07.py *)
From ND Require Import Tactics C02_proofs C01_towers C01_faa C08_lift C09_proofs C09_faa C07_proofs.
Local Open Scope R_scope.

Definition fam_DualVec := fun S : @block nat => S = nil \/ exists i, S = i :: nil.
Lemma fam_DualVec_cover : forall S, fam_DualVec S -> exists i, In S (idx_DualVec i).
Proof. intros S [->|[i ->]]; [exists 0%nat|exists i]; simpl; auto. Qed.
Lemma fam_DualVec_dec : forall S, fam_DualVec S \/ ~ fam_DualVec S.
Proof. intros S; destruct S as [|i [|j l]]; [left; left; reflexivity | left; right; exists i; reflexivity | right; intros [H|[k H]]; discriminate]. Qed.
Lemma fam_DualVec_len : forall S, fam_DualVec S -> (length S <= 2)%nat.
Proof. intros S [->|[i ->]]; simpl; lia. Qed.
Lemma fam_DualVec_nil : forall S, fam_DualVec S -> fam_DualVec nil.
Proof. intros S _; left; reflexivity. Qed.
Lemma fam_DualVec_sub : forall i j, fam_DualVec (i :: j :: nil) -> fam_DualVec (i :: nil) /\ fam_DualVec (j :: nil).
Proof. intros i j [H|[k H]]; discriminate. Qed.
Lemma out0_DualVec : forall (x : DualVec R) S, ~ fam_DualVec S -> part_DualVec x S = 0.
Proof. intros x S F; destruct S as [|i [|j l]]; [exfalso; apply F; left; reflexivity | exfalso; apply F; right; exists i; reflexivity | reflexivity]. Qed.
Lemma Hmul_DualVec : forall a b : DualVec R, True -> True -> forall S, fam_DualVec S -> part_DualVec (a * b)%rs S = leibniz (part_DualVec a) (part_DualVec b) S.
Proof. intros a b _ _ S F; destruct (fam_DualVec_cover S F) as [i HS]; exact (mul_DualVec i a b S HS). Qed.
Lemma Hdiv_DualVec : forall a b : DualVec R, True -> True -> part_DualVec b nil <> 0 -> forall S, fam_DualVec S -> leibniz (part_DualVec (a / b)%rs) (part_DualVec b) S = part_DualVec a S.
Proof. intros a b _ _ Hr S F; destruct (fam_DualVec_cover S F) as [i HS]; exact (div_DualVec i a b S Hr HS). Qed.
Lemma wfops_DualVec : forall a b : DualVec R, True -> True -> True.
Proof. auto. Qed.
Lemma Hlin_DualVec : forall (a b : DualVec R) S, fam_DualVec S -> part_DualVec (a + b)%rs S = part_DualVec a S + part_DualVec b S /\ part_DualVec (a - b)%rs S = part_DualVec a S - part_DualVec b S /\ part_DualVec (- a)%rs S = - part_DualVec a S.
Proof. intros a b S F; destruct (fam_DualVec_cover S F) as [i HS]; exact (lin_DualVec i a b S HS). Qed.
Definition JA_DualVec : JetAlg part_DualVec (fun _ : DualVec R => True) fam_DualVec (fun a b : DualVec R => (a + b)%rs) (fun a b => (a - b)%rs) (fun a b => (a * b)%rs) (fun a b => (a / b)%rs) (fun a => (- a)%rs) :=
  Build_JetAlg _ _ _ _ _ _ _ _ _ _ fam_DualVec_dec fam_DualVec_len fam_DualVec_nil fam_DualVec_sub out0_DualVec Hmul_DualVec Hdiv_DualVec Hlin_DualVec wfops_DualVec wfops_DualVec wfops_DualVec wfops_DualVec.
Definition veq_DualVec := @veq _ _ part_DualVec.
Lemma cong_DualVec_add : forall a a' b b' : DualVec R, veq_DualVec a a' -> veq_DualVec b b' -> veq_DualVec (a + b)%rs (a' + b')%rs.
Proof. exact (cong_add JA_DualVec). Qed.
Lemma cong_DualVec_sub : forall a a' b b' : DualVec R, veq_DualVec a a' -> veq_DualVec b b' -> veq_DualVec (a - b)%rs (a' - b')%rs.
Proof. exact (cong_sub JA_DualVec). Qed.
Lemma cong_DualVec_neg : forall a a' : DualVec R, veq_DualVec a a' -> veq_DualVec (- a)%rs (- a')%rs.
Proof. exact (cong_neg JA_DualVec). Qed.
Lemma cong_DualVec_mul : forall a a' b b' : DualVec R, veq_DualVec a a' -> veq_DualVec b b' -> veq_DualVec (a * b)%rs (a' * b')%rs.
Proof. intros a a' b b' ; exact (cong_mul JA_DualVec a a' b b' I I I I). Qed.
Lemma cong_DualVec_div : forall a a' b b' : DualVec R, part_DualVec b nil <> 0 -> veq_DualVec a a' -> veq_DualVec b b' -> veq_DualVec (a / b)%rs (a' / b')%rs.
Proof. intros a a' b b' ; exact (cong_div JA_DualVec a a' b b' I I I I). Qed.
Lemma history_DualVec : forall (ops : list aop) (ys ys' : list (DualVec R)) (acc acc' : DualVec R), length ys = length ops -> length ys' = length ops -> (fun _ : DualVec R => True) acc -> (fun _ : DualVec R => True) acc' -> veq_DualVec acc acc' -> List.Forall2 veq_DualVec ys ys' -> List.Forall (@ok_step _ _ part_DualVec (fun _ : DualVec R => True)) (combine ops ys) -> List.Forall (@ok_step _ _ part_DualVec (fun _ : DualVec R => True)) (combine ops ys') -> veq_DualVec (fold_left (@step _ (fun a b : DualVec R => (a + b)%rs) (fun a b => (a - b)%rs) (fun a b => (a * b)%rs) (fun a b => (a / b)%rs)) (combine ops ys) acc) (fold_left (@step _ (fun a b : DualVec R => (a + b)%rs) (fun a b => (a - b)%rs) (fun a b => (a * b)%rs) (fun a b => (a / b)%rs)) (combine ops ys') acc').
Proof. exact (history JA_DualVec). Qed.
Lemma cong_DualVec_recip : forall x x' : DualVec R, (fun r : R => r <> 0) (DualVec_f_re x) -> veq_DualVec x x' -> veq_DualVec (m_recip x) (m_recip x').
Proof. intros x x' ; apply (cong_unary JA_DualVec (fun x : DualVec R => m_recip x) (tw3 m_recip) (fun r : R => r <> 0)); auto; intros y Wy Dy S F; destruct (fam_DualVec_cover S F) as [i HS]; exact (faa_DualVec_recip i y Dy  S HS). Qed.
Lemma cong_DualVec_sqrt : forall x x' : DualVec R, (fun r : R => 0 < r) (DualVec_f_re x) -> veq_DualVec x x' -> veq_DualVec (m_sqrt x) (m_sqrt x').
Proof. intros x x' ; apply (cong_unary JA_DualVec (fun x : DualVec R => m_sqrt x) (tw3 m_sqrt) (fun r : R => 0 < r)); auto; intros y Wy Dy S F; destruct (fam_DualVec_cover S F) as [i HS]; exact (faa_DualVec_sqrt i y Dy  S HS). Qed.
Lemma cong_DualVec_cbrt : forall x x' : DualVec R, (fun r : R => r <> 0) (DualVec_f_re x) -> veq_DualVec x x' -> veq_DualVec (m_cbrt x) (m_cbrt x').
Proof. intros x x' ; apply (cong_unary JA_DualVec (fun x : DualVec R => m_cbrt x) (tw3 m_cbrt) (fun r : R => r <> 0)); auto; intros y Wy Dy S F; destruct (fam_DualVec_cover S F) as [i HS]; exact (faa_DualVec_cbrt i y Dy  S HS). Qed.
Lemma cong_DualVec_exp : forall x x' : DualVec R, (fun r : R => True) (DualVec_f_re x) -> veq_DualVec x x' -> veq_DualVec (m_exp x) (m_exp x').
Proof. intros x x' ; apply (cong_unary JA_DualVec (fun x : DualVec R => m_exp x) (tw3 m_exp) (fun r : R => True)); auto; intros y Wy Dy S F; destruct (fam_DualVec_cover S F) as [i HS]; exact (faa_DualVec_exp i y  S HS). Qed.
Lemma cong_DualVec_exp2 : forall x x' : DualVec R, (fun r : R => True) (DualVec_f_re x) -> veq_DualVec x x' -> veq_DualVec (m_exp2 x) (m_exp2 x').
Proof. intros x x' ; apply (cong_unary JA_DualVec (fun x : DualVec R => m_exp2 x) (tw3 m_exp2) (fun r : R => True)); auto; intros y Wy Dy S F; destruct (fam_DualVec_cover S F) as [i HS]; exact (faa_DualVec_exp2 i y  S HS). Qed.
Lemma cong_DualVec_exp_m1 : forall x x' : DualVec R, (fun r : R => True) (DualVec_f_re x) -> veq_DualVec x x' -> veq_DualVec (m_exp_m1 x) (m_exp_m1 x').
Proof. intros x x' ; apply (cong_unary JA_DualVec (fun x : DualVec R => m_exp_m1 x) (tw3 m_exp_m1) (fun r : R => True)); auto; intros y Wy Dy S F; destruct (fam_DualVec_cover S F) as [i HS]; exact (faa_DualVec_exp_m1 i y  S HS). Qed.
Lemma cong_DualVec_ln : forall x x' : DualVec R, (fun r : R => 0 < r) (DualVec_f_re x) -> veq_DualVec x x' -> veq_DualVec (m_ln x) (m_ln x').
Proof. intros x x' ; apply (cong_unary JA_DualVec (fun x : DualVec R => m_ln x) (tw3 m_ln) (fun r : R => 0 < r)); auto; intros y Wy Dy S F; destruct (fam_DualVec_cover S F) as [i HS]; exact (faa_DualVec_ln i y Dy  S HS). Qed.
Lemma cong_DualVec_log2 : forall x x' : DualVec R, (fun r : R => 0 < r) (DualVec_f_re x) -> veq_DualVec x x' -> veq_DualVec (m_log2 x) (m_log2 x').
Proof. intros x x' ; apply (cong_unary JA_DualVec (fun x : DualVec R => m_log2 x) (tw3 m_log2) (fun r : R => 0 < r)); auto; intros y Wy Dy S F; destruct (fam_DualVec_cover S F) as [i HS]; exact (faa_DualVec_log2 i y Dy  S HS). Qed.
Lemma cong_DualVec_log10 : forall x x' : DualVec R, (fun r : R => 0 < r) (DualVec_f_re x) -> veq_DualVec x x' -> veq_DualVec (m_log10 x) (m_log10 x').
Proof. intros x x' ; apply (cong_unary JA_DualVec (fun x : DualVec R => m_log10 x) (tw3 m_log10) (fun r : R => 0 < r)); auto; intros y Wy Dy S F; destruct (fam_DualVec_cover S F) as [i HS]; exact (faa_DualVec_log10 i y Dy  S HS). Qed.
Lemma cong_DualVec_ln_1p : forall x x' : DualVec R, (fun r : R => -1 < r) (DualVec_f_re x) -> veq_DualVec x x' -> veq_DualVec (m_ln_1p x) (m_ln_1p x').
Proof. intros x x' ; apply (cong_unary JA_DualVec (fun x : DualVec R => m_ln_1p x) (tw3 m_ln_1p) (fun r : R => -1 < r)); auto; intros y Wy Dy S F; destruct (fam_DualVec_cover S F) as [i HS]; exact (faa_DualVec_ln_1p i y Dy  S HS). Qed.
Lemma cong_DualVec_sin : forall x x' : DualVec R, (fun r : R => True) (DualVec_f_re x) -> veq_DualVec x x' -> veq_DualVec (m_sin x) (m_sin x').
Proof. intros x x' ; apply (cong_unary JA_DualVec (fun x : DualVec R => m_sin x) (tw3 m_sin) (fun r : R => True)); auto; intros y Wy Dy S F; destruct (fam_DualVec_cover S F) as [i HS]; exact (faa_DualVec_sin i y  S HS). Qed.
Lemma cong_DualVec_cos : forall x x' : DualVec R, (fun r : R => True) (DualVec_f_re x) -> veq_DualVec x x' -> veq_DualVec (m_cos x) (m_cos x').
Proof. intros x x' ; apply (cong_unary JA_DualVec (fun x : DualVec R => m_cos x) (tw3 m_cos) (fun r : R => True)); auto; intros y Wy Dy S F; destruct (fam_DualVec_cover S F) as [i HS]; exact (faa_DualVec_cos i y  S HS). Qed.
Lemma cong_DualVec_tan : forall x x' : DualVec R, (fun r : R => cos r <> 0) (DualVec_f_re x) -> veq_DualVec x x' -> veq_DualVec (m_tan x) (m_tan x').
Proof. intros x x' ; apply (cong_unary JA_DualVec (fun x : DualVec R => m_tan x) (tw3 m_tan) (fun r : R => cos r <> 0)); auto; intros y Wy Dy S F; destruct (fam_DualVec_cover S F) as [i HS]; exact (faa_DualVec_tan i y Dy  S HS). Qed.
Lemma cong_DualVec_asin : forall x x' : DualVec R, (fun r : R => -1 < r < 1) (DualVec_f_re x) -> veq_DualVec x x' -> veq_DualVec (m_asin x) (m_asin x').
Proof. intros x x' ; apply (cong_unary JA_DualVec (fun x : DualVec R => m_asin x) (tw3 m_asin) (fun r : R => -1 < r < 1)); auto; intros y Wy Dy S F; destruct (fam_DualVec_cover S F) as [i HS]; exact (faa_DualVec_asin i y Dy  S HS). Qed.
Lemma cong_DualVec_acos : forall x x' : DualVec R, (fun r : R => -1 < r < 1) (DualVec_f_re x) -> veq_DualVec x x' -> veq_DualVec (m_acos x) (m_acos x').
Proof. intros x x' ; apply (cong_unary JA_DualVec (fun x : DualVec R => m_acos x) (tw3 m_acos) (fun r : R => -1 < r < 1)); auto; intros y Wy Dy S F; destruct (fam_DualVec_cover S F) as [i HS]; exact (faa_DualVec_acos i y Dy  S HS). Qed.
Lemma cong_DualVec_atan : forall x x' : DualVec R, (fun r : R => True) (DualVec_f_re x) -> veq_DualVec x x' -> veq_DualVec (m_atan x) (m_atan x').
Proof. intros x x' ; apply (cong_unary JA_DualVec (fun x : DualVec R => m_atan x) (tw3 m_atan) (fun r : R => True)); auto; intros y Wy Dy S F; destruct (fam_DualVec_cover S F) as [i HS]; exact (faa_DualVec_atan i y  S HS). Qed.
Lemma cong_DualVec_sinh : forall x x' : DualVec R, (fun r : R => True) (DualVec_f_re x) -> veq_DualVec x x' -> veq_DualVec (m_sinh x) (m_sinh x').
Proof. intros x x' ; apply (cong_unary JA_DualVec (fun x : DualVec R => m_sinh x) (tw3 m_sinh) (fun r : R => True)); auto; intros y Wy Dy S F; destruct (fam_DualVec_cover S F) as [i HS]; exact (faa_DualVec_sinh i y  S HS). Qed.
Lemma cong_DualVec_cosh : forall x x' : DualVec R, (fun r : R => True) (DualVec_f_re x) -> veq_DualVec x x' -> veq_DualVec (m_cosh x) (m_cosh x').
Proof. intros x x' ; apply (cong_unary JA_DualVec (fun x : DualVec R => m_cosh x) (tw3 m_cosh) (fun r : R => True)); auto; intros y Wy Dy S F; destruct (fam_DualVec_cover S F) as [i HS]; exact (faa_DualVec_cosh i y  S HS). Qed.
Lemma cong_DualVec_tanh : forall x x' : DualVec R, (fun r : R => True) (DualVec_f_re x) -> veq_DualVec x x' -> veq_DualVec (m_tanh x) (m_tanh x').
Proof. intros x x' ; apply (cong_unary JA_DualVec (fun x : DualVec R => m_tanh x) (tw3 m_tanh) (fun r : R => True)); auto; intros y Wy Dy S F; destruct (fam_DualVec_cover S F) as [i HS]; exact (faa_DualVec_tanh i y  S HS). Qed.
Lemma cong_DualVec_asinh : forall x x' : DualVec R, (fun r : R => True) (DualVec_f_re x) -> veq_DualVec x x' -> veq_DualVec (m_asinh x) (m_asinh x').
Proof. intros x x' ; apply (cong_unary JA_DualVec (fun x : DualVec R => m_asinh x) (tw3 m_asinh) (fun r : R => True)); auto; intros y Wy Dy S F; destruct (fam_DualVec_cover S F) as [i HS]; exact (faa_DualVec_asinh i y  S HS). Qed.
Lemma cong_DualVec_acosh : forall x x' : DualVec R, (fun r : R => 1 < r) (DualVec_f_re x) -> veq_DualVec x x' -> veq_DualVec (m_acosh x) (m_acosh x').
Proof. intros x x' ; apply (cong_unary JA_DualVec (fun x : DualVec R => m_acosh x) (tw3 m_acosh) (fun r : R => 1 < r)); auto; intros y Wy Dy S F; destruct (fam_DualVec_cover S F) as [i HS]; exact (faa_DualVec_acosh i y Dy  S HS). Qed.
Lemma cong_DualVec_atanh : forall x x' : DualVec R, (fun r : R => -1 < r < 1) (DualVec_f_re x) -> veq_DualVec x x' -> veq_DualVec (m_atanh x) (m_atanh x').
Proof. intros x x' ; apply (cong_unary JA_DualVec (fun x : DualVec R => m_atanh x) (tw3 m_atanh) (fun r : R => -1 < r < 1)); auto; intros y Wy Dy S F; destruct (fam_DualVec_cover S F) as [i HS]; exact (faa_DualVec_atanh i y Dy  S HS). Qed.
Lemma cong_DualVec_powi : forall (n : Z) (x x' : DualVec R), veq_DualVec x x' -> veq_DualVec (m_powi x n) (m_powi x' n).
Proof. intros n x x' ; apply (cong_unary JA_DualVec (fun x : DualVec R => m_powi x n) (tw3 (fun d => m_powi d n)) (fun _ : R => True)); auto; intros y Wy Dy S F; destruct (fam_DualVec_cover S F) as [i HS]; exact (faa_DualVec_powi i n y S HS). Qed.
Lemma cong_DualVec_powf : forall (n : R) (x x' : DualVec R), veq_DualVec x x' -> veq_DualVec (m_powf x n) (m_powf x' n).
Proof. intros n x x' ; apply (cong_unary JA_DualVec (fun x : DualVec R => m_powf x n) (tw3 (fun d => m_powf d n)) (fun _ : R => True)); auto; intros y Wy Dy S F; destruct (fam_DualVec_cover S F) as [i HS]; exact (faa_DualVec_powf i n y S HS). Qed.

Definition fam_Dual2Vec := fun S : @block nat => S = nil \/ (exists i, S = i :: nil) \/ exists i j, S = i :: j :: nil.
Lemma fam_Dual2Vec_cover : forall S, fam_Dual2Vec S -> exists i j, In S (idx_Dual2Vec i j).
Proof. intros S [->|[[i ->]|[i [j ->]]]]; [exists 0%nat, 0%nat|exists i, 0%nat|exists i, j]; simpl; auto. Qed.
Lemma fam_Dual2Vec_dec : forall S, fam_Dual2Vec S \/ ~ fam_Dual2Vec S.
Proof. intros S; destruct S as [|i [|j [|k l]]]; [left; left; reflexivity | left; right; left; exists i; reflexivity | left; right; right; exists i, j; reflexivity | right; intros [H|[[a H]|[a [b H]]]]; discriminate]. Qed.
Lemma fam_Dual2Vec_len : forall S, fam_Dual2Vec S -> (length S <= 2)%nat.
Proof. intros S [->|[[i ->]|[i [j ->]]]]; simpl; lia. Qed.
Lemma fam_Dual2Vec_nil : forall S, fam_Dual2Vec S -> fam_Dual2Vec nil.
Proof. intros S _; left; reflexivity. Qed.
Lemma fam_Dual2Vec_sub : forall i j, fam_Dual2Vec (i :: j :: nil) -> fam_Dual2Vec (i :: nil) /\ fam_Dual2Vec (j :: nil).
Proof. intros i j _; split; right; left; eexists; reflexivity. Qed.
Lemma out0_Dual2Vec : forall (x : Dual2Vec R) S, ~ fam_Dual2Vec S -> part_Dual2Vec x S = 0.
Proof. intros x S F; destruct S as [|i [|j [|k l]]]; [exfalso; apply F; left; reflexivity | exfalso; apply F; right; left; exists i; reflexivity | exfalso; apply F; right; right; exists i, j; reflexivity | reflexivity]. Qed.
Lemma Hmul_Dual2Vec : forall a b : Dual2Vec R, wf_Dual2Vec a -> wf_Dual2Vec b -> forall S, fam_Dual2Vec S -> part_Dual2Vec (a * b)%rs S = leibniz (part_Dual2Vec a) (part_Dual2Vec b) S.
Proof. intros a b Wa Wb S F; destruct (fam_Dual2Vec_cover S F) as [i [j HS]]; exact (mul_Dual2Vec i j a b Wa Wb S HS). Qed.
Lemma Hdiv_Dual2Vec : forall a b : Dual2Vec R, wf_Dual2Vec a -> wf_Dual2Vec b -> part_Dual2Vec b nil <> 0 -> forall S, fam_Dual2Vec S -> leibniz (part_Dual2Vec (a / b)%rs) (part_Dual2Vec b) S = part_Dual2Vec a S.
Proof. intros a b Wa Wb Hr S F; destruct (fam_Dual2Vec_cover S F) as [i [j HS]]; exact (div_Dual2Vec i j a b Wa Wb Hr S HS). Qed.
Lemma wf_add_Dual2Vec : forall a b : Dual2Vec R, wf_Dual2Vec a -> wf_Dual2Vec b -> wf_Dual2Vec (a + b)%rs.
Proof. intros a b; destruct a as [? [[?|]] [[?|]]], b as [? [[?|]] [[?|]]]; dmat; unfold wf_Dual2Vec, wf_row; simpl; intros; subst; reflexivity || exact I. Qed.
Lemma wf_sub_Dual2Vec : forall a b : Dual2Vec R, wf_Dual2Vec a -> wf_Dual2Vec b -> wf_Dual2Vec (a - b)%rs.
Proof. intros a b; destruct a as [? [[?|]] [[?|]]], b as [? [[?|]] [[?|]]]; dmat; unfold wf_Dual2Vec, wf_row; simpl; intros; subst; reflexivity || exact I. Qed.
Lemma wf_div_Dual2Vec : forall a b : Dual2Vec R, wf_Dual2Vec a -> wf_Dual2Vec b -> wf_Dual2Vec (a / b)%rs.
Proof. intros a b; destruct a as [? [[?|]] [[?|]]], b as [? [[?|]] [[?|]]]; dmat; unfold wf_Dual2Vec, wf_row; simpl; intros; subst; reflexivity || exact I. Qed.
Lemma Hlin_Dual2Vec : forall (a b : Dual2Vec R) S, fam_Dual2Vec S -> part_Dual2Vec (a + b)%rs S = part_Dual2Vec a S + part_Dual2Vec b S /\ part_Dual2Vec (a - b)%rs S = part_Dual2Vec a S - part_Dual2Vec b S /\ part_Dual2Vec (- a)%rs S = - part_Dual2Vec a S.
Proof. intros a b S F; destruct (fam_Dual2Vec_cover S F) as [i [j HS]]; exact (lin_Dual2Vec i j a b S HS). Qed.
Definition JA_Dual2Vec : JetAlg part_Dual2Vec wf_Dual2Vec fam_Dual2Vec (fun a b : Dual2Vec R => (a + b)%rs) (fun a b => (a - b)%rs) (fun a b => (a * b)%rs) (fun a b => (a / b)%rs) (fun a => (- a)%rs) :=
  Build_JetAlg _ _ _ _ _ _ _ _ _ _ fam_Dual2Vec_dec fam_Dual2Vec_len fam_Dual2Vec_nil fam_Dual2Vec_sub out0_Dual2Vec Hmul_Dual2Vec Hdiv_Dual2Vec Hlin_Dual2Vec wf_Dual2Vec_mul wf_div_Dual2Vec wf_add_Dual2Vec wf_sub_Dual2Vec.
Definition veq_Dual2Vec := @veq _ _ part_Dual2Vec.
Lemma cong_Dual2Vec_add : forall a a' b b' : Dual2Vec R, veq_Dual2Vec a a' -> veq_Dual2Vec b b' -> veq_Dual2Vec (a + b)%rs (a' + b')%rs.
Proof. exact (cong_add JA_Dual2Vec). Qed.
Lemma cong_Dual2Vec_sub : forall a a' b b' : Dual2Vec R, veq_Dual2Vec a a' -> veq_Dual2Vec b b' -> veq_Dual2Vec (a - b)%rs (a' - b')%rs.
Proof. exact (cong_sub JA_Dual2Vec). Qed.
Lemma cong_Dual2Vec_neg : forall a a' : Dual2Vec R, veq_Dual2Vec a a' -> veq_Dual2Vec (- a)%rs (- a')%rs.
Proof. exact (cong_neg JA_Dual2Vec). Qed.
Lemma cong_Dual2Vec_mul : forall a a' b b' : Dual2Vec R, wf_Dual2Vec a -> wf_Dual2Vec a' -> wf_Dual2Vec b -> wf_Dual2Vec b' -> veq_Dual2Vec a a' -> veq_Dual2Vec b b' -> veq_Dual2Vec (a * b)%rs (a' * b')%rs.
Proof. intros a a' b b' Wa Wa2 Wb Wb2; exact (cong_mul JA_Dual2Vec a a' b b' Wa Wa2 Wb Wb2). Qed.
Lemma cong_Dual2Vec_div : forall a a' b b' : Dual2Vec R, wf_Dual2Vec a -> wf_Dual2Vec a' -> wf_Dual2Vec b -> wf_Dual2Vec b' -> part_Dual2Vec b nil <> 0 -> veq_Dual2Vec a a' -> veq_Dual2Vec b b' -> veq_Dual2Vec (a / b)%rs (a' / b')%rs.
Proof. intros a a' b b' Wa Wa2 Wb Wb2; exact (cong_div JA_Dual2Vec a a' b b' Wa Wa2 Wb Wb2). Qed.
Lemma history_Dual2Vec : forall (ops : list aop) (ys ys' : list (Dual2Vec R)) (acc acc' : Dual2Vec R), length ys = length ops -> length ys' = length ops -> wf_Dual2Vec acc -> wf_Dual2Vec acc' -> veq_Dual2Vec acc acc' -> List.Forall2 veq_Dual2Vec ys ys' -> List.Forall (@ok_step _ _ part_Dual2Vec wf_Dual2Vec) (combine ops ys) -> List.Forall (@ok_step _ _ part_Dual2Vec wf_Dual2Vec) (combine ops ys') -> veq_Dual2Vec (fold_left (@step _ (fun a b : Dual2Vec R => (a + b)%rs) (fun a b => (a - b)%rs) (fun a b => (a * b)%rs) (fun a b => (a / b)%rs)) (combine ops ys) acc) (fold_left (@step _ (fun a b : Dual2Vec R => (a + b)%rs) (fun a b => (a - b)%rs) (fun a b => (a * b)%rs) (fun a b => (a / b)%rs)) (combine ops ys') acc').
Proof. exact (history JA_Dual2Vec). Qed.
Lemma cong_Dual2Vec_recip : forall x x' : Dual2Vec R, wf_Dual2Vec x -> wf_Dual2Vec x' -> (fun r : R => r <> 0) (Dual2Vec_f_re x) -> veq_Dual2Vec x x' -> veq_Dual2Vec (m_recip x) (m_recip x').
Proof. intros x x' Wx Wx2; apply (cong_unary JA_Dual2Vec (fun x : Dual2Vec R => m_recip x) (tw3 m_recip) (fun r : R => r <> 0)); auto; intros y Wy Dy S F; destruct (fam_Dual2Vec_cover S F) as [i [j HS]]; exact (faa_Dual2Vec_recip i j y Dy Wy S HS). Qed.
Lemma cong_Dual2Vec_sqrt : forall x x' : Dual2Vec R, wf_Dual2Vec x -> wf_Dual2Vec x' -> (fun r : R => 0 < r) (Dual2Vec_f_re x) -> veq_Dual2Vec x x' -> veq_Dual2Vec (m_sqrt x) (m_sqrt x').
Proof. intros x x' Wx Wx2; apply (cong_unary JA_Dual2Vec (fun x : Dual2Vec R => m_sqrt x) (tw3 m_sqrt) (fun r : R => 0 < r)); auto; intros y Wy Dy S F; destruct (fam_Dual2Vec_cover S F) as [i [j HS]]; exact (faa_Dual2Vec_sqrt i j y Dy Wy S HS). Qed.
Lemma cong_Dual2Vec_cbrt : forall x x' : Dual2Vec R, wf_Dual2Vec x -> wf_Dual2Vec x' -> (fun r : R => r <> 0) (Dual2Vec_f_re x) -> veq_Dual2Vec x x' -> veq_Dual2Vec (m_cbrt x) (m_cbrt x').
Proof. intros x x' Wx Wx2; apply (cong_unary JA_Dual2Vec (fun x : Dual2Vec R => m_cbrt x) (tw3 m_cbrt) (fun r : R => r <> 0)); auto; intros y Wy Dy S F; destruct (fam_Dual2Vec_cover S F) as [i [j HS]]; exact (faa_Dual2Vec_cbrt i j y Dy Wy S HS). Qed.
Lemma cong_Dual2Vec_exp : forall x x' : Dual2Vec R, wf_Dual2Vec x -> wf_Dual2Vec x' -> (fun r : R => True) (Dual2Vec_f_re x) -> veq_Dual2Vec x x' -> veq_Dual2Vec (m_exp x) (m_exp x').
Proof. intros x x' Wx Wx2; apply (cong_unary JA_Dual2Vec (fun x : Dual2Vec R => m_exp x) (tw3 m_exp) (fun r : R => True)); auto; intros y Wy Dy S F; destruct (fam_Dual2Vec_cover S F) as [i [j HS]]; exact (faa_Dual2Vec_exp i j y Wy S HS). Qed.
Lemma cong_Dual2Vec_exp2 : forall x x' : Dual2Vec R, wf_Dual2Vec x -> wf_Dual2Vec x' -> (fun r : R => True) (Dual2Vec_f_re x) -> veq_Dual2Vec x x' -> veq_Dual2Vec (m_exp2 x) (m_exp2 x').
Proof. intros x x' Wx Wx2; apply (cong_unary JA_Dual2Vec (fun x : Dual2Vec R => m_exp2 x) (tw3 m_exp2) (fun r : R => True)); auto; intros y Wy Dy S F; destruct (fam_Dual2Vec_cover S F) as [i [j HS]]; exact (faa_Dual2Vec_exp2 i j y Wy S HS). Qed.
Lemma cong_Dual2Vec_exp_m1 : forall x x' : Dual2Vec R, wf_Dual2Vec x -> wf_Dual2Vec x' -> (fun r : R => True) (Dual2Vec_f_re x) -> veq_Dual2Vec x x' -> veq_Dual2Vec (m_exp_m1 x) (m_exp_m1 x').
Proof. intros x x' Wx Wx2; apply (cong_unary JA_Dual2Vec (fun x : Dual2Vec R => m_exp_m1 x) (tw3 m_exp_m1) (fun r : R => True)); auto; intros y Wy Dy S F; destruct (fam_Dual2Vec_cover S F) as [i [j HS]]; exact (faa_Dual2Vec_exp_m1 i j y Wy S HS). Qed.
Lemma cong_Dual2Vec_ln : forall x x' : Dual2Vec R, wf_Dual2Vec x -> wf_Dual2Vec x' -> (fun r : R => 0 < r) (Dual2Vec_f_re x) -> veq_Dual2Vec x x' -> veq_Dual2Vec (m_ln x) (m_ln x').
Proof. intros x x' Wx Wx2; apply (cong_unary JA_Dual2Vec (fun x : Dual2Vec R => m_ln x) (tw3 m_ln) (fun r : R => 0 < r)); auto; intros y Wy Dy S F; destruct (fam_Dual2Vec_cover S F) as [i [j HS]]; exact (faa_Dual2Vec_ln i j y Dy Wy S HS). Qed.
Lemma cong_Dual2Vec_log2 : forall x x' : Dual2Vec R, wf_Dual2Vec x -> wf_Dual2Vec x' -> (fun r : R => 0 < r) (Dual2Vec_f_re x) -> veq_Dual2Vec x x' -> veq_Dual2Vec (m_log2 x) (m_log2 x').
Proof. intros x x' Wx Wx2; apply (cong_unary JA_Dual2Vec (fun x : Dual2Vec R => m_log2 x) (tw3 m_log2) (fun r : R => 0 < r)); auto; intros y Wy Dy S F; destruct (fam_Dual2Vec_cover S F) as [i [j HS]]; exact (faa_Dual2Vec_log2 i j y Dy Wy S HS). Qed.
Lemma cong_Dual2Vec_log10 : forall x x' : Dual2Vec R, wf_Dual2Vec x -> wf_Dual2Vec x' -> (fun r : R => 0 < r) (Dual2Vec_f_re x) -> veq_Dual2Vec x x' -> veq_Dual2Vec (m_log10 x) (m_log10 x').
Proof. intros x x' Wx Wx2; apply (cong_unary JA_Dual2Vec (fun x : Dual2Vec R => m_log10 x) (tw3 m_log10) (fun r : R => 0 < r)); auto; intros y Wy Dy S F; destruct (fam_Dual2Vec_cover S F) as [i [j HS]]; exact (faa_Dual2Vec_log10 i j y Dy Wy S HS). Qed.
Lemma cong_Dual2Vec_ln_1p : forall x x' : Dual2Vec R, wf_Dual2Vec x -> wf_Dual2Vec x' -> (fun r : R => -1 < r) (Dual2Vec_f_re x) -> veq_Dual2Vec x x' -> veq_Dual2Vec (m_ln_1p x) (m_ln_1p x').
Proof. intros x x' Wx Wx2; apply (cong_unary JA_Dual2Vec (fun x : Dual2Vec R => m_ln_1p x) (tw3 m_ln_1p) (fun r : R => -1 < r)); auto; intros y Wy Dy S F; destruct (fam_Dual2Vec_cover S F) as [i [j HS]]; exact (faa_Dual2Vec_ln_1p i j y Dy Wy S HS). Qed.
Lemma cong_Dual2Vec_sin : forall x x' : Dual2Vec R, wf_Dual2Vec x -> wf_Dual2Vec x' -> (fun r : R => True) (Dual2Vec_f_re x) -> veq_Dual2Vec x x' -> veq_Dual2Vec (m_sin x) (m_sin x').
Proof. intros x x' Wx Wx2; apply (cong_unary JA_Dual2Vec (fun x : Dual2Vec R => m_sin x) (tw3 m_sin) (fun r : R => True)); auto; intros y Wy Dy S F; destruct (fam_Dual2Vec_cover S F) as [i [j HS]]; exact (faa_Dual2Vec_sin i j y Wy S HS). Qed.
Lemma cong_Dual2Vec_cos : forall x x' : Dual2Vec R, wf_Dual2Vec x -> wf_Dual2Vec x' -> (fun r : R => True) (Dual2Vec_f_re x) -> veq_Dual2Vec x x' -> veq_Dual2Vec (m_cos x) (m_cos x').
Proof. intros x x' Wx Wx2; apply (cong_unary JA_Dual2Vec (fun x : Dual2Vec R => m_cos x) (tw3 m_cos) (fun r : R => True)); auto; intros y Wy Dy S F; destruct (fam_Dual2Vec_cover S F) as [i [j HS]]; exact (faa_Dual2Vec_cos i j y Wy S HS). Qed.
Lemma cong_Dual2Vec_tan : forall x x' : Dual2Vec R, wf_Dual2Vec x -> wf_Dual2Vec x' -> (fun r : R => cos r <> 0) (Dual2Vec_f_re x) -> veq_Dual2Vec x x' -> veq_Dual2Vec (m_tan x) (m_tan x').
Proof. intros x x' Wx Wx2; apply (cong_unary JA_Dual2Vec (fun x : Dual2Vec R => m_tan x) (tw3 m_tan) (fun r : R => cos r <> 0)); auto; intros y Wy Dy S F; destruct (fam_Dual2Vec_cover S F) as [i [j HS]]; exact (faa_Dual2Vec_tan i j y Dy Wy S HS). Qed.
Lemma cong_Dual2Vec_asin : forall x x' : Dual2Vec R, wf_Dual2Vec x -> wf_Dual2Vec x' -> (fun r : R => -1 < r < 1) (Dual2Vec_f_re x) -> veq_Dual2Vec x x' -> veq_Dual2Vec (m_asin x) (m_asin x').
Proof. intros x x' Wx Wx2; apply (cong_unary JA_Dual2Vec (fun x : Dual2Vec R => m_asin x) (tw3 m_asin) (fun r : R => -1 < r < 1)); auto; intros y Wy Dy S F; destruct (fam_Dual2Vec_cover S F) as [i [j HS]]; exact (faa_Dual2Vec_asin i j y Dy Wy S HS). Qed.
Lemma cong_Dual2Vec_acos : forall x x' : Dual2Vec R, wf_Dual2Vec x -> wf_Dual2Vec x' -> (fun r : R => -1 < r < 1) (Dual2Vec_f_re x) -> veq_Dual2Vec x x' -> veq_Dual2Vec (m_acos x) (m_acos x').
Proof. intros x x' Wx Wx2; apply (cong_unary JA_Dual2Vec (fun x : Dual2Vec R => m_acos x) (tw3 m_acos) (fun r : R => -1 < r < 1)); auto; intros y Wy Dy S F; destruct (fam_Dual2Vec_cover S F) as [i [j HS]]; exact (faa_Dual2Vec_acos i j y Dy Wy S HS). Qed.
Lemma cong_Dual2Vec_atan : forall x x' : Dual2Vec R, wf_Dual2Vec x -> wf_Dual2Vec x' -> (fun r : R => True) (Dual2Vec_f_re x) -> veq_Dual2Vec x x' -> veq_Dual2Vec (m_atan x) (m_atan x').
Proof. intros x x' Wx Wx2; apply (cong_unary JA_Dual2Vec (fun x : Dual2Vec R => m_atan x) (tw3 m_atan) (fun r : R => True)); auto; intros y Wy Dy S F; destruct (fam_Dual2Vec_cover S F) as [i [j HS]]; exact (faa_Dual2Vec_atan i j y Wy S HS). Qed.
Lemma cong_Dual2Vec_sinh : forall x x' : Dual2Vec R, wf_Dual2Vec x -> wf_Dual2Vec x' -> (fun r : R => True) (Dual2Vec_f_re x) -> veq_Dual2Vec x x' -> veq_Dual2Vec (m_sinh x) (m_sinh x').
Proof. intros x x' Wx Wx2; apply (cong_unary JA_Dual2Vec (fun x : Dual2Vec R => m_sinh x) (tw3 m_sinh) (fun r : R => True)); auto; intros y Wy Dy S F; destruct (fam_Dual2Vec_cover S F) as [i [j HS]]; exact (faa_Dual2Vec_sinh i j y Wy S HS). Qed.
Lemma cong_Dual2Vec_cosh : forall x x' : Dual2Vec R, wf_Dual2Vec x -> wf_Dual2Vec x' -> (fun r : R => True) (Dual2Vec_f_re x) -> veq_Dual2Vec x x' -> veq_Dual2Vec (m_cosh x) (m_cosh x').
Proof. intros x x' Wx Wx2; apply (cong_unary JA_Dual2Vec (fun x : Dual2Vec R => m_cosh x) (tw3 m_cosh) (fun r : R => True)); auto; intros y Wy Dy S F; destruct (fam_Dual2Vec_cover S F) as [i [j HS]]; exact (faa_Dual2Vec_cosh i j y Wy S HS). Qed.
Lemma cong_Dual2Vec_tanh : forall x x' : Dual2Vec R, wf_Dual2Vec x -> wf_Dual2Vec x' -> (fun r : R => True) (Dual2Vec_f_re x) -> veq_Dual2Vec x x' -> veq_Dual2Vec (m_tanh x) (m_tanh x').
Proof. intros x x' Wx Wx2; apply (cong_unary JA_Dual2Vec (fun x : Dual2Vec R => m_tanh x) (tw3 m_tanh) (fun r : R => True)); auto; intros y Wy Dy S F; destruct (fam_Dual2Vec_cover S F) as [i [j HS]]; exact (faa_Dual2Vec_tanh i j y Wy S HS). Qed.
Lemma cong_Dual2Vec_asinh : forall x x' : Dual2Vec R, wf_Dual2Vec x -> wf_Dual2Vec x' -> (fun r : R => True) (Dual2Vec_f_re x) -> veq_Dual2Vec x x' -> veq_Dual2Vec (m_asinh x) (m_asinh x').
Proof. intros x x' Wx Wx2; apply (cong_unary JA_Dual2Vec (fun x : Dual2Vec R => m_asinh x) (tw3 m_asinh) (fun r : R => True)); auto; intros y Wy Dy S F; destruct (fam_Dual2Vec_cover S F) as [i [j HS]]; exact (faa_Dual2Vec_asinh i j y Wy S HS). Qed.
Lemma cong_Dual2Vec_acosh : forall x x' : Dual2Vec R, wf_Dual2Vec x -> wf_Dual2Vec x' -> (fun r : R => 1 < r) (Dual2Vec_f_re x) -> veq_Dual2Vec x x' -> veq_Dual2Vec (m_acosh x) (m_acosh x').
Proof. intros x x' Wx Wx2; apply (cong_unary JA_Dual2Vec (fun x : Dual2Vec R => m_acosh x) (tw3 m_acosh) (fun r : R => 1 < r)); auto; intros y Wy Dy S F; destruct (fam_Dual2Vec_cover S F) as [i [j HS]]; exact (faa_Dual2Vec_acosh i j y Dy Wy S HS). Qed.
Lemma cong_Dual2Vec_atanh : forall x x' : Dual2Vec R, wf_Dual2Vec x -> wf_Dual2Vec x' -> (fun r : R => -1 < r < 1) (Dual2Vec_f_re x) -> veq_Dual2Vec x x' -> veq_Dual2Vec (m_atanh x) (m_atanh x').
Proof. intros x x' Wx Wx2; apply (cong_unary JA_Dual2Vec (fun x : Dual2Vec R => m_atanh x) (tw3 m_atanh) (fun r : R => -1 < r < 1)); auto; intros y Wy Dy S F; destruct (fam_Dual2Vec_cover S F) as [i [j HS]]; exact (faa_Dual2Vec_atanh i j y Dy Wy S HS). Qed.
Lemma cong_Dual2Vec_powi : forall (n : Z) (x x' : Dual2Vec R), wf_Dual2Vec x -> wf_Dual2Vec x' -> veq_Dual2Vec x x' -> veq_Dual2Vec (m_powi x n) (m_powi x' n).
Proof. intros n x x' Wx Wx2; apply (cong_unary JA_Dual2Vec (fun x : Dual2Vec R => m_powi x n) (tw3 (fun d => m_powi d n)) (fun _ : R => True)); auto; intros y Wy Dy S F; destruct (fam_Dual2Vec_cover S F) as [i [j HS]]; exact (faa_Dual2Vec_powi i j n y Wy S HS). Qed.
Lemma cong_Dual2Vec_powf : forall (n : R) (x x' : Dual2Vec R), wf_Dual2Vec x -> wf_Dual2Vec x' -> veq_Dual2Vec x x' -> veq_Dual2Vec (m_powf x n) (m_powf x' n).
Proof. intros n x x' Wx Wx2; apply (cong_unary JA_Dual2Vec (fun x : Dual2Vec R => m_powf x n) (tw3 (fun d => m_powf d n)) (fun _ : R => True)); auto; intros y Wy Dy S F; destruct (fam_Dual2Vec_cover S F) as [i [j HS]]; exact (faa_Dual2Vec_powf i j n y Wy S HS). Qed.

Definition fam_HyperDualVec := fun S : @block (nat + nat) => S = nil \/ (exists i, S = inl i :: nil) \/ (exists j, S = inr j :: nil) \/ exists i j, S = inl i :: inr j :: nil.
Lemma fam_HyperDualVec_cover : forall S, fam_HyperDualVec S -> exists i j, In S (idx_HyperDualVec i j).
Proof. intros S [->|[[i ->]|[[j ->]|[i [j ->]]]]]; [exists 0%nat, 0%nat|exists i, 0%nat|exists 0%nat, j|exists i, j]; simpl; auto. Qed.
Lemma fam_HyperDualVec_dec : forall S, fam_HyperDualVec S \/ ~ fam_HyperDualVec S.
Proof. intros S; destruct S as [|[i|j] [|[i2|j2] [|k l]]]; try (right; intros [H|[[a H]|[[a H]|[a [b H]]]]]; discriminate); [left; left; reflexivity | left; right; left; exists i; reflexivity | left; right; right; right; exists i, j2; reflexivity | left; right; right; left; exists j; reflexivity]. Qed.
Lemma fam_HyperDualVec_len : forall S, fam_HyperDualVec S -> (length S <= 2)%nat.
Proof. intros S [->|[[i ->]|[[j ->]|[i [j ->]]]]]; simpl; lia. Qed.
Lemma fam_HyperDualVec_nil : forall S, fam_HyperDualVec S -> fam_HyperDualVec nil.
Proof. intros S _; left; reflexivity. Qed.
Lemma fam_HyperDualVec_sub : forall i j, fam_HyperDualVec (i :: j :: nil) -> fam_HyperDualVec (i :: nil) /\ fam_HyperDualVec (j :: nil).
Proof. intros a b [H|[[i H]|[[j H]|[i [j H]]]]]; try discriminate; injection H as -> ->; split; [right; left; eexists; reflexivity | right; right; left; eexists; reflexivity]. Qed.
Lemma out0_HyperDualVec : forall (x : HyperDualVec R) S, ~ fam_HyperDualVec S -> part_HyperDualVec x S = 0.
Proof. intros x S F; destruct S as [|[i|j] [|[i2|j2] [|k l]]]; try reflexivity; exfalso; apply F; [left; reflexivity | right; left; exists i; reflexivity | right; right; right; exists i, j2; reflexivity | right; right; left; exists j; reflexivity]. Qed.
Lemma Hmul_HyperDualVec : forall a b : HyperDualVec R, wf_HyperDualVec a -> wf_HyperDualVec b -> forall S, fam_HyperDualVec S -> part_HyperDualVec (a * b)%rs S = leibniz (part_HyperDualVec a) (part_HyperDualVec b) S.
Proof. intros a b Wa Wb S F; destruct (fam_HyperDualVec_cover S F) as [i [j HS]]; exact (mul_HyperDualVec i j a b Wa Wb S HS). Qed.
Lemma Hdiv_HyperDualVec : forall a b : HyperDualVec R, wf_HyperDualVec a -> wf_HyperDualVec b -> part_HyperDualVec b nil <> 0 -> forall S, fam_HyperDualVec S -> leibniz (part_HyperDualVec (a / b)%rs) (part_HyperDualVec b) S = part_HyperDualVec a S.
Proof. intros a b Wa Wb Hr S F; destruct (fam_HyperDualVec_cover S F) as [i [j HS]]; exact (div_HyperDualVec i j a b Wa Wb Hr S HS). Qed.
Lemma wf_add_HyperDualVec : forall a b : HyperDualVec R, wf_HyperDualVec a -> wf_HyperDualVec b -> wf_HyperDualVec (a + b)%rs.
Proof. intros a b; destruct a as [? [[?|]] [[?|]] [[?|]]], b as [? [[?|]] [[?|]] [[?|]]]; dmat; unfold wf_HyperDualVec, wf_col; simpl; intros; subst; reflexivity || exact I. Qed.
Lemma wf_sub_HyperDualVec : forall a b : HyperDualVec R, wf_HyperDualVec a -> wf_HyperDualVec b -> wf_HyperDualVec (a - b)%rs.
Proof. intros a b; destruct a as [? [[?|]] [[?|]] [[?|]]], b as [? [[?|]] [[?|]] [[?|]]]; dmat; unfold wf_HyperDualVec, wf_col; simpl; intros; subst; reflexivity || exact I. Qed.
Lemma wf_div_HyperDualVec : forall a b : HyperDualVec R, wf_HyperDualVec a -> wf_HyperDualVec b -> wf_HyperDualVec (a / b)%rs.
Proof. intros a b; destruct a as [? [[?|]] [[?|]] [[?|]]], b as [? [[?|]] [[?|]] [[?|]]]; dmat; unfold wf_HyperDualVec, wf_col; simpl; intros; subst; reflexivity || exact I. Qed.
Lemma Hlin_HyperDualVec : forall (a b : HyperDualVec R) S, fam_HyperDualVec S -> part_HyperDualVec (a + b)%rs S = part_HyperDualVec a S + part_HyperDualVec b S /\ part_HyperDualVec (a - b)%rs S = part_HyperDualVec a S - part_HyperDualVec b S /\ part_HyperDualVec (- a)%rs S = - part_HyperDualVec a S.
Proof. intros a b S F; destruct (fam_HyperDualVec_cover S F) as [i [j HS]]; exact (lin_HyperDualVec i j a b S HS). Qed.
Definition JA_HyperDualVec : JetAlg part_HyperDualVec wf_HyperDualVec fam_HyperDualVec (fun a b : HyperDualVec R => (a + b)%rs) (fun a b => (a - b)%rs) (fun a b => (a * b)%rs) (fun a b => (a / b)%rs) (fun a => (- a)%rs) :=
  Build_JetAlg _ _ _ _ _ _ _ _ _ _ fam_HyperDualVec_dec fam_HyperDualVec_len fam_HyperDualVec_nil fam_HyperDualVec_sub out0_HyperDualVec Hmul_HyperDualVec Hdiv_HyperDualVec Hlin_HyperDualVec wf_HyperDualVec_mul wf_div_HyperDualVec wf_add_HyperDualVec wf_sub_HyperDualVec.
Definition veq_HyperDualVec := @veq _ _ part_HyperDualVec.
Lemma cong_HyperDualVec_add : forall a a' b b' : HyperDualVec R, veq_HyperDualVec a a' -> veq_HyperDualVec b b' -> veq_HyperDualVec (a + b)%rs (a' + b')%rs.
Proof. exact (cong_add JA_HyperDualVec). Qed.
Lemma cong_HyperDualVec_sub : forall a a' b b' : HyperDualVec R, veq_HyperDualVec a a' -> veq_HyperDualVec b b' -> veq_HyperDualVec (a - b)%rs (a' - b')%rs.
Proof. exact (cong_sub JA_HyperDualVec). Qed.
Lemma cong_HyperDualVec_neg : forall a a' : HyperDualVec R, veq_HyperDualVec a a' -> veq_HyperDualVec (- a)%rs (- a')%rs.
Proof. exact (cong_neg JA_HyperDualVec). Qed.
Lemma cong_HyperDualVec_mul : forall a a' b b' : HyperDualVec R, wf_HyperDualVec a -> wf_HyperDualVec a' -> wf_HyperDualVec b -> wf_HyperDualVec b' -> veq_HyperDualVec a a' -> veq_HyperDualVec b b' -> veq_HyperDualVec (a * b)%rs (a' * b')%rs.
Proof. intros a a' b b' Wa Wa2 Wb Wb2; exact (cong_mul JA_HyperDualVec a a' b b' Wa Wa2 Wb Wb2). Qed.
Lemma cong_HyperDualVec_div : forall a a' b b' : HyperDualVec R, wf_HyperDualVec a -> wf_HyperDualVec a' -> wf_HyperDualVec b -> wf_HyperDualVec b' -> part_HyperDualVec b nil <> 0 -> veq_HyperDualVec a a' -> veq_HyperDualVec b b' -> veq_HyperDualVec (a / b)%rs (a' / b')%rs.
Proof. intros a a' b b' Wa Wa2 Wb Wb2; exact (cong_div JA_HyperDualVec a a' b b' Wa Wa2 Wb Wb2). Qed.
Lemma history_HyperDualVec : forall (ops : list aop) (ys ys' : list (HyperDualVec R)) (acc acc' : HyperDualVec R), length ys = length ops -> length ys' = length ops -> wf_HyperDualVec acc -> wf_HyperDualVec acc' -> veq_HyperDualVec acc acc' -> List.Forall2 veq_HyperDualVec ys ys' -> List.Forall (@ok_step _ _ part_HyperDualVec wf_HyperDualVec) (combine ops ys) -> List.Forall (@ok_step _ _ part_HyperDualVec wf_HyperDualVec) (combine ops ys') -> veq_HyperDualVec (fold_left (@step _ (fun a b : HyperDualVec R => (a + b)%rs) (fun a b => (a - b)%rs) (fun a b => (a * b)%rs) (fun a b => (a / b)%rs)) (combine ops ys) acc) (fold_left (@step _ (fun a b : HyperDualVec R => (a + b)%rs) (fun a b => (a - b)%rs) (fun a b => (a * b)%rs) (fun a b => (a / b)%rs)) (combine ops ys') acc').
Proof. exact (history JA_HyperDualVec). Qed.
Lemma cong_HyperDualVec_recip : forall x x' : HyperDualVec R, wf_HyperDualVec x -> wf_HyperDualVec x' -> (fun r : R => r <> 0) (HyperDualVec_f_re x) -> veq_HyperDualVec x x' -> veq_HyperDualVec (m_recip x) (m_recip x').
Proof. intros x x' Wx Wx2; apply (cong_unary JA_HyperDualVec (fun x : HyperDualVec R => m_recip x) (tw3 m_recip) (fun r : R => r <> 0)); auto; intros y Wy Dy S F; destruct (fam_HyperDualVec_cover S F) as [i [j HS]]; exact (faa_HyperDualVec_recip i j y Dy Wy S HS). Qed.
Lemma cong_HyperDualVec_sqrt : forall x x' : HyperDualVec R, wf_HyperDualVec x -> wf_HyperDualVec x' -> (fun r : R => 0 < r) (HyperDualVec_f_re x) -> veq_HyperDualVec x x' -> veq_HyperDualVec (m_sqrt x) (m_sqrt x').
Proof. intros x x' Wx Wx2; apply (cong_unary JA_HyperDualVec (fun x : HyperDualVec R => m_sqrt x) (tw3 m_sqrt) (fun r : R => 0 < r)); auto; intros y Wy Dy S F; destruct (fam_HyperDualVec_cover S F) as [i [j HS]]; exact (faa_HyperDualVec_sqrt i j y Dy Wy S HS). Qed.
Lemma cong_HyperDualVec_cbrt : forall x x' : HyperDualVec R, wf_HyperDualVec x -> wf_HyperDualVec x' -> (fun r : R => r <> 0) (HyperDualVec_f_re x) -> veq_HyperDualVec x x' -> veq_HyperDualVec (m_cbrt x) (m_cbrt x').
Proof. intros x x' Wx Wx2; apply (cong_unary JA_HyperDualVec (fun x : HyperDualVec R => m_cbrt x) (tw3 m_cbrt) (fun r : R => r <> 0)); auto; intros y Wy Dy S F; destruct (fam_HyperDualVec_cover S F) as [i [j HS]]; exact (faa_HyperDualVec_cbrt i j y Dy Wy S HS). Qed.
Lemma cong_HyperDualVec_exp : forall x x' : HyperDualVec R, wf_HyperDualVec x -> wf_HyperDualVec x' -> (fun r : R => True) (HyperDualVec_f_re x) -> veq_HyperDualVec x x' -> veq_HyperDualVec (m_exp x) (m_exp x').
Proof. intros x x' Wx Wx2; apply (cong_unary JA_HyperDualVec (fun x : HyperDualVec R => m_exp x) (tw3 m_exp) (fun r : R => True)); auto; intros y Wy Dy S F; destruct (fam_HyperDualVec_cover S F) as [i [j HS]]; exact (faa_HyperDualVec_exp i j y Wy S HS). Qed.
Lemma cong_HyperDualVec_exp2 : forall x x' : HyperDualVec R, wf_HyperDualVec x -> wf_HyperDualVec x' -> (fun r : R => True) (HyperDualVec_f_re x) -> veq_HyperDualVec x x' -> veq_HyperDualVec (m_exp2 x) (m_exp2 x').
Proof. intros x x' Wx Wx2; apply (cong_unary JA_HyperDualVec (fun x : HyperDualVec R => m_exp2 x) (tw3 m_exp2) (fun r : R => True)); auto; intros y Wy Dy S F; destruct (fam_HyperDualVec_cover S F) as [i [j HS]]; exact (faa_HyperDualVec_exp2 i j y Wy S HS). Qed.
Lemma cong_HyperDualVec_exp_m1 : forall x x' : HyperDualVec R, wf_HyperDualVec x -> wf_HyperDualVec x' -> (fun r : R => True) (HyperDualVec_f_re x) -> veq_HyperDualVec x x' -> veq_HyperDualVec (m_exp_m1 x) (m_exp_m1 x').
Proof. intros x x' Wx Wx2; apply (cong_unary JA_HyperDualVec (fun x : HyperDualVec R => m_exp_m1 x) (tw3 m_exp_m1) (fun r : R => True)); auto; intros y Wy Dy S F; destruct (fam_HyperDualVec_cover S F) as [i [j HS]]; exact (faa_HyperDualVec_exp_m1 i j y Wy S HS). Qed.
Lemma cong_HyperDualVec_ln : forall x x' : HyperDualVec R, wf_HyperDualVec x -> wf_HyperDualVec x' -> (fun r : R => 0 < r) (HyperDualVec_f_re x) -> veq_HyperDualVec x x' -> veq_HyperDualVec (m_ln x) (m_ln x').
Proof. intros x x' Wx Wx2; apply (cong_unary JA_HyperDualVec (fun x : HyperDualVec R => m_ln x) (tw3 m_ln) (fun r : R => 0 < r)); auto; intros y Wy Dy S F; destruct (fam_HyperDualVec_cover S F) as [i [j HS]]; exact (faa_HyperDualVec_ln i j y Dy Wy S HS). Qed.
Lemma cong_HyperDualVec_log2 : forall x x' : HyperDualVec R, wf_HyperDualVec x -> wf_HyperDualVec x' -> (fun r : R => 0 < r) (HyperDualVec_f_re x) -> veq_HyperDualVec x x' -> veq_HyperDualVec (m_log2 x) (m_log2 x').
Proof. intros x x' Wx Wx2; apply (cong_unary JA_HyperDualVec (fun x : HyperDualVec R => m_log2 x) (tw3 m_log2) (fun r : R => 0 < r)); auto; intros y Wy Dy S F; destruct (fam_HyperDualVec_cover S F) as [i [j HS]]; exact (faa_HyperDualVec_log2 i j y Dy Wy S HS). Qed.
Lemma cong_HyperDualVec_log10 : forall x x' : HyperDualVec R, wf_HyperDualVec x -> wf_HyperDualVec x' -> (fun r : R => 0 < r) (HyperDualVec_f_re x) -> veq_HyperDualVec x x' -> veq_HyperDualVec (m_log10 x) (m_log10 x').
Proof. intros x x' Wx Wx2; apply (cong_unary JA_HyperDualVec (fun x : HyperDualVec R => m_log10 x) (tw3 m_log10) (fun r : R => 0 < r)); auto; intros y Wy Dy S F; destruct (fam_HyperDualVec_cover S F) as [i [j HS]]; exact (faa_HyperDualVec_log10 i j y Dy Wy S HS). Qed.
Lemma cong_HyperDualVec_ln_1p : forall x x' : HyperDualVec R, wf_HyperDualVec x -> wf_HyperDualVec x' -> (fun r : R => -1 < r) (HyperDualVec_f_re x) -> veq_HyperDualVec x x' -> veq_HyperDualVec (m_ln_1p x) (m_ln_1p x').
Proof. intros x x' Wx Wx2; apply (cong_unary JA_HyperDualVec (fun x : HyperDualVec R => m_ln_1p x) (tw3 m_ln_1p) (fun r : R => -1 < r)); auto; intros y Wy Dy S F; destruct (fam_HyperDualVec_cover S F) as [i [j HS]]; exact (faa_HyperDualVec_ln_1p i j y Dy Wy S HS). Qed.
Lemma cong_HyperDualVec_sin : forall x x' : HyperDualVec R, wf_HyperDualVec x -> wf_HyperDualVec x' -> (fun r : R => True) (HyperDualVec_f_re x) -> veq_HyperDualVec x x' -> veq_HyperDualVec (m_sin x) (m_sin x').
Proof. intros x x' Wx Wx2; apply (cong_unary JA_HyperDualVec (fun x : HyperDualVec R => m_sin x) (tw3 m_sin) (fun r : R => True)); auto; intros y Wy Dy S F; destruct (fam_HyperDualVec_cover S F) as [i [j HS]]; exact (faa_HyperDualVec_sin i j y Wy S HS). Qed.
Lemma cong_HyperDualVec_cos : forall x x' : HyperDualVec R, wf_HyperDualVec x -> wf_HyperDualVec x' -> (fun r : R => True) (HyperDualVec_f_re x) -> veq_HyperDualVec x x' -> veq_HyperDualVec (m_cos x) (m_cos x').
Proof. intros x x' Wx Wx2; apply (cong_unary JA_HyperDualVec (fun x : HyperDualVec R => m_cos x) (tw3 m_cos) (fun r : R => True)); auto; intros y Wy Dy S F; destruct (fam_HyperDualVec_cover S F) as [i [j HS]]; exact (faa_HyperDualVec_cos i j y Wy S HS). Qed.
Lemma cong_HyperDualVec_tan : forall x x' : HyperDualVec R, wf_HyperDualVec x -> wf_HyperDualVec x' -> (fun r : R => cos r <> 0) (HyperDualVec_f_re x) -> veq_HyperDualVec x x' -> veq_HyperDualVec (m_tan x) (m_tan x').
Proof. intros x x' Wx Wx2; apply (cong_unary JA_HyperDualVec (fun x : HyperDualVec R => m_tan x) (tw3 m_tan) (fun r : R => cos r <> 0)); auto; intros y Wy Dy S F; destruct (fam_HyperDualVec_cover S F) as [i [j HS]]; exact (faa_HyperDualVec_tan i j y Dy Wy S HS). Qed.
Lemma cong_HyperDualVec_asin : forall x x' : HyperDualVec R, wf_HyperDualVec x -> wf_HyperDualVec x' -> (fun r : R => -1 < r < 1) (HyperDualVec_f_re x) -> veq_HyperDualVec x x' -> veq_HyperDualVec (m_asin x) (m_asin x').
Proof. intros x x' Wx Wx2; apply (cong_unary JA_HyperDualVec (fun x : HyperDualVec R => m_asin x) (tw3 m_asin) (fun r : R => -1 < r < 1)); auto; intros y Wy Dy S F; destruct (fam_HyperDualVec_cover S F) as [i [j HS]]; exact (faa_HyperDualVec_asin i j y Dy Wy S HS). Qed.
Lemma cong_HyperDualVec_acos : forall x x' : HyperDualVec R, wf_HyperDualVec x -> wf_HyperDualVec x' -> (fun r : R => -1 < r < 1) (HyperDualVec_f_re x) -> veq_HyperDualVec x x' -> veq_HyperDualVec (m_acos x) (m_acos x').
Proof. intros x x' Wx Wx2; apply (cong_unary JA_HyperDualVec (fun x : HyperDualVec R => m_acos x) (tw3 m_acos) (fun r : R => -1 < r < 1)); auto; intros y Wy Dy S F; destruct (fam_HyperDualVec_cover S F) as [i [j HS]]; exact (faa_HyperDualVec_acos i j y Dy Wy S HS). Qed.
Lemma cong_HyperDualVec_atan : forall x x' : HyperDualVec R, wf_HyperDualVec x -> wf_HyperDualVec x' -> (fun r : R => True) (HyperDualVec_f_re x) -> veq_HyperDualVec x x' -> veq_HyperDualVec (m_atan x) (m_atan x').
Proof. intros x x' Wx Wx2; apply (cong_unary JA_HyperDualVec (fun x : HyperDualVec R => m_atan x) (tw3 m_atan) (fun r : R => True)); auto; intros y Wy Dy S F; destruct (fam_HyperDualVec_cover S F) as [i [j HS]]; exact (faa_HyperDualVec_atan i j y Wy S HS). Qed.
Lemma cong_HyperDualVec_sinh : forall x x' : HyperDualVec R, wf_HyperDualVec x -> wf_HyperDualVec x' -> (fun r : R => True) (HyperDualVec_f_re x) -> veq_HyperDualVec x x' -> veq_HyperDualVec (m_sinh x) (m_sinh x').
Proof. intros x x' Wx Wx2; apply (cong_unary JA_HyperDualVec (fun x : HyperDualVec R => m_sinh x) (tw3 m_sinh) (fun r : R => True)); auto; intros y Wy Dy S F; destruct (fam_HyperDualVec_cover S F) as [i [j HS]]; exact (faa_HyperDualVec_sinh i j y Wy S HS). Qed.
Lemma cong_HyperDualVec_cosh : forall x x' : HyperDualVec R, wf_HyperDualVec x -> wf_HyperDualVec x' -> (fun r : R => True) (HyperDualVec_f_re x) -> veq_HyperDualVec x x' -> veq_HyperDualVec (m_cosh x) (m_cosh x').
Proof. intros x x' Wx Wx2; apply (cong_unary JA_HyperDualVec (fun x : HyperDualVec R => m_cosh x) (tw3 m_cosh) (fun r : R => True)); auto; intros y Wy Dy S F; destruct (fam_HyperDualVec_cover S F) as [i [j HS]]; exact (faa_HyperDualVec_cosh i j y Wy S HS). Qed.
Lemma cong_HyperDualVec_tanh : forall x x' : HyperDualVec R, wf_HyperDualVec x -> wf_HyperDualVec x' -> (fun r : R => True) (HyperDualVec_f_re x) -> veq_HyperDualVec x x' -> veq_HyperDualVec (m_tanh x) (m_tanh x').
Proof. intros x x' Wx Wx2; apply (cong_unary JA_HyperDualVec (fun x : HyperDualVec R => m_tanh x) (tw3 m_tanh) (fun r : R => True)); auto; intros y Wy Dy S F; destruct (fam_HyperDualVec_cover S F) as [i [j HS]]; exact (faa_HyperDualVec_tanh i j y Wy S HS). Qed.
Lemma cong_HyperDualVec_asinh : forall x x' : HyperDualVec R, wf_HyperDualVec x -> wf_HyperDualVec x' -> (fun r : R => True) (HyperDualVec_f_re x) -> veq_HyperDualVec x x' -> veq_HyperDualVec (m_asinh x) (m_asinh x').
Proof. intros x x' Wx Wx2; apply (cong_unary JA_HyperDualVec (fun x : HyperDualVec R => m_asinh x) (tw3 m_asinh) (fun r : R => True)); auto; intros y Wy Dy S F; destruct (fam_HyperDualVec_cover S F) as [i [j HS]]; exact (faa_HyperDualVec_asinh i j y Wy S HS). Qed.
Lemma cong_HyperDualVec_acosh : forall x x' : HyperDualVec R, wf_HyperDualVec x -> wf_HyperDualVec x' -> (fun r : R => 1 < r) (HyperDualVec_f_re x) -> veq_HyperDualVec x x' -> veq_HyperDualVec (m_acosh x) (m_acosh x').
Proof. intros x x' Wx Wx2; apply (cong_unary JA_HyperDualVec (fun x : HyperDualVec R => m_acosh x) (tw3 m_acosh) (fun r : R => 1 < r)); auto; intros y Wy Dy S F; destruct (fam_HyperDualVec_cover S F) as [i [j HS]]; exact (faa_HyperDualVec_acosh i j y Dy Wy S HS). Qed.
Lemma cong_HyperDualVec_atanh : forall x x' : HyperDualVec R, wf_HyperDualVec x -> wf_HyperDualVec x' -> (fun r : R => -1 < r < 1) (HyperDualVec_f_re x) -> veq_HyperDualVec x x' -> veq_HyperDualVec (m_atanh x) (m_atanh x').
Proof. intros x x' Wx Wx2; apply (cong_unary JA_HyperDualVec (fun x : HyperDualVec R => m_atanh x) (tw3 m_atanh) (fun r : R => -1 < r < 1)); auto; intros y Wy Dy S F; destruct (fam_HyperDualVec_cover S F) as [i [j HS]]; exact (faa_HyperDualVec_atanh i j y Dy Wy S HS). Qed.
Lemma cong_HyperDualVec_powi : forall (n : Z) (x x' : HyperDualVec R), wf_HyperDualVec x -> wf_HyperDualVec x' -> veq_HyperDualVec x x' -> veq_HyperDualVec (m_powi x n) (m_powi x' n).
Proof. intros n x x' Wx Wx2; apply (cong_unary JA_HyperDualVec (fun x : HyperDualVec R => m_powi x n) (tw3 (fun d => m_powi d n)) (fun _ : R => True)); auto; intros y Wy Dy S F; destruct (fam_HyperDualVec_cover S F) as [i [j HS]]; exact (faa_HyperDualVec_powi i j n y Wy S HS). Qed.
Lemma cong_HyperDualVec_powf : forall (n : R) (x x' : HyperDualVec R), wf_HyperDualVec x -> wf_HyperDualVec x' -> veq_HyperDualVec x x' -> veq_HyperDualVec (m_powf x n) (m_powf x' n).
Proof. intros n x x' Wx Wx2; apply (cong_unary JA_HyperDualVec (fun x : HyperDualVec R => m_powf x n) (tw3 (fun d => m_powf d n)) (fun _ : R => True)); auto; intros y Wy Dy S F; destruct (fam_HyperDualVec_cover S F) as [i [j HS]]; exact (faa_HyperDualVec_powf i j n y Wy S HS). Qed.

