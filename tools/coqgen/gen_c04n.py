#!/usr/bin/env python3
"""Writes coq/ND/Proofs/C04_nested.v: nested first-order numbers Dual<Dual<R>> and Dual<Dual<Dual<R>>> are jet algebras over the label sets
{1,2} and {1,2,3} (outermost level = label 1), hence agree with HyperDual and HyperHyperDual on every program."""
src = open('/verif/tools/coqgen/gen_c01.py').read()
ns = {}
exec(src[src.index('FNS = ['):src.index('# type, part fn')], ns)
FNS = ns['FNS']
out = ['''(* Proofs/C04_nested.v -- written by tools/coqgen/gen_c04n.py *)
From ND Require Import Tactics C02_proofs C01_towers C01_faa C07_proofs C08_lift C09_proofs C09_faa Prog Agree C04_inst.
Local Open Scope R_scope.
Notation DD := (Dual (Dual R)).
Notation DDD := (Dual (Dual (Dual R))).
Definition part_DD (x : DD) (S : @block nat) : R :=
  match S with
  | nil => Dual_f_re (Dual_f_re x) | 1%nat :: nil => Dual_f_re (Dual_f_eps x) | 2%nat :: nil => Dual_f_eps (Dual_f_re x)
  | 1%nat :: 2%nat :: nil => Dual_f_eps (Dual_f_eps x) | _ => 0 end.
Definition part_DDD (x : DDD) (S : @block nat) : R :=
  match S with
  | nil => Dual_f_re (Dual_f_re (Dual_f_re x))
  | 1%nat :: nil => Dual_f_re (Dual_f_re (Dual_f_eps x)) | 2%nat :: nil => Dual_f_re (Dual_f_eps (Dual_f_re x)) | 3%nat :: nil => Dual_f_eps (Dual_f_re (Dual_f_re x))
  | 1%nat :: 2%nat :: nil => Dual_f_re (Dual_f_eps (Dual_f_eps x)) | 1%nat :: 3%nat :: nil => Dual_f_eps (Dual_f_re (Dual_f_eps x))
  | 2%nat :: 3%nat :: nil => Dual_f_eps (Dual_f_eps (Dual_f_re x))
  | 1%nat :: 2%nat :: 3%nat :: nil => Dual_f_eps (Dual_f_eps (Dual_f_eps x)) | _ => 0 end.
Ltac fldn := first [ rcbv; unfold tanh, tan; try replace (1 + 1) with 2 by lra; field; side
                   | rcbv; unfold tanh; match goal with H : 0 < cosh ?r |- _ => pose proof (cosh2_sinh2 r) end; rat_nsatz' ].
Ltac dDD x := destruct x as [[r ?] [? ?]].
Ltac dDDD x := destruct x as [[[r ?] [? ?]] [[? ?] [? ?]]].
''']
for N, part, idx, dtac, famname in (('DD', 'part_DD', 'idx_HyperDual', 'dDD', 'fam_c04_HyperDual'), ('DDD', 'part_DDD', 'idx_HHD', 'dDDD', 'fam_c04_HyperHyperDual')):
    re_ = {'DD': 'Dual_f_re (Dual_f_re x)', 'DDD': 'Dual_f_re (Dual_f_re (Dual_f_re x))'}[N]
    out.append('Lemma mul_%s : mul_is_leibniz %s (fun a b : %s => (a * b)%%rs) %s.\nProof. intros a b S H; %s a; rename r into r1; %s b; each_block H jet_ring. Qed.' % (N, part, N, idx, dtac, dtac))
    out.append('Lemma div_%s : div_is_quotient %s (fun a b : %s => (a / b)%%rs) %s.\nProof. intros a b S Hr H; %s a; rename r into r1; %s b; simpl in Hr; each_block H jet_field. Qed.' % (N, part, N, idx, dtac, dtac))
    out.append('Lemma lin_%s : linear_ops %s (fun a b : %s => (a + b)%%rs) (fun a b => (a - b)%%rs) (fun a => (- a)%%rs) %s.\nProof. intros a b S H; %s a; rename r into r1; %s b; each_block H ltac:(rcbv; repeat split; ring). Qed.' % (N, part, N, idx, dtac, dtac))
    for (name, term, dom, helper) in FNS:
        import re as _re
        domx = _re.sub(r'\br\b', '(%s)' % re_, dom) if dom != 'True' else None
        out.append('Lemma faa_%s_%s : forall x : %s, %sforall S, In S %s ->\n  %s (%s) S = faa (tw3 m_%s (%s)) (%s x) S.' % (
            N, name, N, (domx + ' -> ') if domx else '', idx, part, term, name, re_, part))
        out.append('Proof. intros x %s S H; %s x; %s %s each_block H fldn. Qed.' % ('Hd' if domx else '', dtac, 'simpl in Hd;' if domx else '', helper))
    out.append('Definition pw_nested (n : Z) : Prop := (0 <= n <= 8)%Z.' if N == 'DD' else '')
    out.append('Lemma faa_%s_powi : forall (n : Z) (x : %s) S, pw_nested n -> In S %s -> %s (m_powi x n) S = faa (tw3 (fun d => m_powi d n) (%s)) (%s x) S.' % (N, N, idx, part, re_, part))
    out.append('Proof. intros n x S Hn H; %s x; unfold pw_nested in Hn; assert (Hc : (n = 0 \\/ n = 1 \\/ n = 2 \\/ n = 3 \\/ n = 4 \\/ n = 5 \\/ n = 6 \\/ n = 7 \\/ n = 8)%%Z) by lia;\n  repeat (destruct Hc as [->|Hc]); try subst n; each_block H ltac:(rcbv; unfold powerRZ; simpl; ring). Qed.' % dtac)
    for o, sym in (('add', '+'), ('sub', '-'), ('mul', '*'), ('div', '/')):
        prem = 'q <> 0 -> ' if o == 'div' else ''
        out.append('Lemma lift_%s_%s : forall (x : %s) (q : R) S, %sIn S %s -> %s (x %s q)%%rs S = %s (x %s (ofF q : %s))%%rs S.' % (N, o, N, prem, idx, part, sym, part, sym, N))
        out.append('Proof. intros x q S %s H; %s x; each_block H ltac:(rcbv; try reflexivity; try ring; field; side). Qed.' % ('Hq' if o == 'div' else '', dtac))
    DNI = {'DD': 'DN_Dual (T:=Dual R)', 'DDD': 'DN_Dual (T:=Dual (Dual R))'}[N]
    FN = [f[0] for f in FNS]
    un_tac = ' | '.join('exact (faa_%s_%s x %sS F)' % (N, fn, 'Hd ' if fn not in ('exp exp2 exp_m1 sin cos atan sinh cosh tanh asinh'.split()) else '') for fn in FN)
    out.append('Lemma JA_c04_%s : JetAlgF (%s) %s (fun _ => True) %s pw_nested.' % (N, DNI, part, famname))
    out.append('Proof.\n  constructor.\n  - reflexivity.\n  - exact fam_sub_%s.\n  - exact fam_len_%s.' % (famname.replace('fam_c04_', ''), famname.replace('fam_c04_', '')))
    out.append('  - intros a b _ _ S F; exact (mul_%s a b S F).\n  - intros a b _ _ Hb S F; exact (div_%s a b S Hb F).\n  - intros a b S F; exact (lin_%s a b S F).' % (N, N, N))
    out.append('  - intros u x Hu Wx Hd S F; destruct u; try (exfalso; apply Hu; reflexivity); simpl in Hd;\n    first [ %s ].' % un_tac)
    out.append('  - intros n x Pn Wx S F; exact (faa_%s_powi n x S Pn F).' % N)
    out.append('  - intros c S F; unfold %s in F; in_cases F; reflexivity.' % famname)
    out.append('  - intros b x c S Hc F; destruct b; simpl; [exact (lift_%s_add x c S F) | exact (lift_%s_sub x c S F) | exact (lift_%s_mul x c S F) | exact (lift_%s_div x c S (Hc eq_refl) F)].' % (N, N, N, N))
    out.append('  - intros; exact I.\n  - intros; exact I.\n  - intros; exact I.\n  - intros; exact I.\n  - intros; exact I.\nQed.\n')
out.append('''(* nested first-order numbers agree with the hyper-dual types on every program (labels: outermost level first) *)
Definition rel_HyperDual_DD := rel (partX:=part_HyperDual) (wfX:=fun _ => True) (partY:=part_DD) (wfY:=fun _ => True) (famY:=fam_c04_HyperDual) (fun n : nat => n).
Theorem agree_HyperDual_DD p envX envY : Forall2 rel_HyperDual_DD envX envY -> ok (pwX:=fun _ => True) (pwY:=pw_nested) (partX:=part_HyperDual) envX p -> rel_HyperDual_DD (eval envX p) (eval envY p).
Proof. apply (prog_agree JA_c04_HyperDual JA_c04_DD (fun n => n)). intros S F. rewrite map_id. exact F. Qed.
Definition rel_HHD_DDD := rel (partX:=part_HHD) (wfX:=fun _ => True) (partY:=part_DDD) (wfY:=fun _ => True) (famY:=fam_c04_HyperHyperDual) (fun n : nat => n).
Theorem agree_HHD_DDD p envX envY : Forall2 rel_HHD_DDD envX envY -> ok (pwX:=fun _ => True) (pwY:=pw_nested) (partX:=part_HHD) envX p -> rel_HHD_DDD (eval envX p) (eval envY p).
Proof. apply (prog_agree JA_c04_HyperHyperDual JA_c04_DDD (fun n => n)). intros S F. rewrite map_id. exact F. Qed.
''')
open('/verif/coq/ND/Proofs/C04_nested.v', 'w').write('\n'.join(out) + '\n')
print('written')
