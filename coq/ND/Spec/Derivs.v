(* Spec/Derivs.v -- derivative facts for the elementary functions Coquelicot's auto_derive does not know,
   registered as UnaryDiff' instances so that auto_derive can differentiate expressions that contain them.
   Hand-written, static; about mathematics only. *)
From Coq Require Import Reals Lra.
From Coquelicot Require Import Coquelicot.
From ND Require Import RInst.
Local Open Scope R_scope.

Lemma is_derive_val (f : R -> R) (x l l' : R) : is_derive f x l -> l = l' -> is_derive f x l'.
Proof. intros H <-; exact H. Qed.

Lemma is_derive_asin x : -1 < x < 1 -> is_derive asin x (1 / sqrt (1 - x * x)).
Proof.
  intros H. apply is_derive_Reals.
  pose proof (derive_pt_asin x H) as E. apply derive_pt_eq_1 in E.
  unfold Rsqr in E. exact E.
Qed.
Lemma is_derive_acos x : -1 < x < 1 -> is_derive acos x (-1 / sqrt (1 - x * x)).
Proof.
  intros H. apply is_derive_Reals.
  pose proof (derive_pt_acos x H) as E. apply derive_pt_eq_1 in E.
  unfold Rsqr in E. exact E.
Qed.
Lemma is_derive_arcsinh x : is_derive arcsinh x (/ sqrt (x * x + 1)).
Proof.
  apply is_derive_Reals. replace (x * x + 1) with (x ^ 2 + 1) by ring. apply derivable_pt_lim_arcsinh.
Qed.

(* the same facts with the derivative written as sqrt (1 / (...)), the shape the crate computes *)
Lemma sqrt_one_div a : sqrt (1 / a) = 1 / sqrt a.
Proof. unfold Rdiv; rewrite !Rmult_1_l; apply sqrt_inv. Qed.
Lemma is_derive_asin' x : -1 < x < 1 -> is_derive asin x (sqrt (1 / (1 - x * x))).
Proof. intros H; rewrite sqrt_one_div; apply is_derive_asin; assumption. Qed.
Lemma is_derive_acos' x : -1 < x < 1 -> is_derive acos x (- sqrt (1 / (1 - x * x))).
Proof. intros H; rewrite sqrt_one_div. eapply is_derive_val; [apply is_derive_acos; assumption|]. field.
  apply Rgt_not_eq, sqrt_lt_R0; nra. Qed.
Lemma is_derive_arcsinh' x : is_derive arcsinh x (sqrt (1 / (1 + x * x))).
Proof. rewrite sqrt_one_div. eapply is_derive_val; [apply is_derive_arcsinh|]. replace (x * x + 1) with (1 + x * x) by ring.
  field. apply Rgt_not_eq, sqrt_lt_R0; nra. Qed.

#[global] Instance UnaryDiff_asin : UnaryDiff' asin :=
  {| UnaryDiff'_f' := fun x => sqrt (1 / (1 - x * x)); UnaryDiff'_df := fun x => -1 < x < 1; UnaryDiff'_H := is_derive_asin' |}.
#[global] Instance UnaryDiff_acos : UnaryDiff' acos :=
  {| UnaryDiff'_f' := fun x => - sqrt (1 / (1 - x * x)); UnaryDiff'_df := fun x => -1 < x < 1; UnaryDiff'_H := is_derive_acos' |}.
#[global] Instance UnaryDiff_arcsinh : UnaryDiff arcsinh :=
  {| UnaryDiff_f' := fun x => sqrt (1 / (1 + x * x)); UnaryDiff_H := is_derive_arcsinh' |}.

(* hyperbolic tangent: derivative sech^2 = 1 / cosh^2 *)
Lemma cosh_pos' x : 0 < cosh x.
Proof. unfold cosh. pose proof (exp_pos x); pose proof (exp_pos (- x)); lra. Qed.
Lemma is_derive_tanh x : is_derive tanh x (1 / (cosh x * cosh x)).
Proof.
  pose proof (cosh_pos' x) as Hc. unfold tanh. auto_derive. lra.
  assert (E : cosh x * cosh x - sinh x * sinh x = 1).
  { unfold cosh, sinh. assert (Hm : exp x * exp (- x) = 1) by (rewrite <- exp_plus, Rplus_opp_r; apply exp_0).
    set (a := exp x) in *. set (b := exp (- x)) in *. nra. }
  field_simplify_eq; [|lra]. nra.
Qed.
#[global] Instance UnaryDiff_tanh : UnaryDiff tanh :=
  {| UnaryDiff_f' := fun x => 1 / (cosh x * cosh x); UnaryDiff_H := is_derive_tanh |}.

(* real cube root (odd extension of x^(1/3)): derivative cbrt x / (3 x) away from 0 *)
Lemma Rcbrt_pos x : 0 < x -> Rcbrt x = exp (/ 3 * ln x).
Proof. intros H; unfold Rcbrt. destruct (Rlt_dec 0 x); [reflexivity | lra]. Qed.
Lemma Rcbrt_neg x : x < 0 -> Rcbrt x = - exp (/ 3 * ln (- x)).
Proof. intros H; unfold Rcbrt. destruct (Rlt_dec 0 x); [lra|]. destruct (Rlt_dec x 0); [reflexivity | lra]. Qed.

Lemma is_derive_Rcbrt x : x <> 0 -> is_derive Rcbrt x (Rcbrt x / (3 * x)).
Proof.
  intros Hx. destruct (Rlt_dec 0 x) as [Hp | Hn].
  - apply (is_derive_ext_loc (fun t => exp (/ 3 * ln t))).
    + assert (He : 0 < x / 2) by lra.
      exists (mkposreal _ He). intros t Ht. simpl in Ht.
      unfold ball in Ht; simpl in Ht; unfold AbsRing_ball, abs, minus, plus, opp in Ht; simpl in Ht.
      apply Rabs_def2 in Ht. symmetry; apply Rcbrt_pos. lra.
    + rewrite Rcbrt_pos by assumption. auto_derive. assumption. field. lra.
  - assert (Hneg : x < 0) by lra.
    apply (is_derive_ext_loc (fun t => - exp (/ 3 * ln (- t)))).
    + assert (He : 0 < - x / 2) by lra.
      exists (mkposreal _ He). intros t Ht. simpl in Ht.
      unfold ball in Ht; simpl in Ht; unfold AbsRing_ball, abs, minus, plus, opp in Ht; simpl in Ht.
      apply Rabs_def2 in Ht. symmetry; apply Rcbrt_neg. lra.
    + rewrite Rcbrt_neg by assumption. auto_derive. lra. field. lra.
Qed.
#[global] Instance UnaryDiff_Rcbrt : UnaryDiff' Rcbrt :=
  {| UnaryDiff'_f' := fun x => Rcbrt x / (3 * x); UnaryDiff'_df := fun x => x <> 0; UnaryDiff'_H := is_derive_Rcbrt |}.

(* sign facts used for domain side conditions *)
Lemma ln2_pos : 0 < ln 2.
Proof. rewrite <- ln_1. apply ln_increasing; lra. Qed.
Lemma ln10_pos : 0 < ln 10.
Proof. rewrite <- ln_1. apply ln_increasing; lra. Qed.
Lemma Rcbrt_cube x : Rcbrt x * Rcbrt x * Rcbrt x = x.
Proof.
  unfold Rcbrt. destruct (Rlt_dec 0 x) as [H|H].
  - unfold Rpower. rewrite <- !exp_plus. replace (/ 3 * ln x + / 3 * ln x + / 3 * ln x) with (ln x) by field. apply exp_ln; assumption.
  - destruct (Rlt_dec x 0) as [H'|H'].
    + unfold Rpower. set (e := exp (/ 3 * ln (- x))).
      assert (He : e * e * e = - x).
      { unfold e. rewrite <- !exp_plus. replace (/ 3 * ln (- x) + / 3 * ln (- x) + / 3 * ln (- x)) with (ln (- x)) by field. apply exp_ln; lra. }
      replace (- e * - e * - e) with (- (e * e * e)) by ring. rewrite He; ring.
    + assert (x = 0) by lra. subst; ring.
Qed.

(* integer powers x^m (m : Z), as a unary function of x for each m *)
Definition pz (m : Z) (x : R) : R := powerRZ x m.
Lemma pz_succ m x : x <> 0 -> pz (m + 1) x = pz m x * x.
Proof. intros H; unfold pz. rewrite powerRZ_add by assumption. rewrite powerRZ_1. reflexivity. Qed.
Lemma pz_pred m x : x <> 0 -> pz (m - 1) x = pz m x / x.
Proof. intros H. replace m with ((m - 1) + 1)%Z at 2 by ring. rewrite pz_succ by assumption. field; assumption. Qed.
Lemma is_derive_pz m x : x <> 0 -> is_derive (pz m) x (IZR m * pz (m - 1) x).
Proof.
  intros Hx. destruct m as [|p|p].
  - unfold pz; simpl. apply (is_derive_ext (fun _ => 1)); [reflexivity|]. auto_derive; [exact I | ring].
  - destruct (Pos2Nat.is_succ p) as [k Hk].
    assert (Hz : Zpos p = Z.of_nat (S k)) by (rewrite <- Hk; symmetry; apply positive_nat_Z).
    rewrite Hz. apply (is_derive_ext (fun t => t ^ S k)).
    + intros t. unfold pz. rewrite pow_powerRZ. reflexivity.
    + replace (Z.of_nat (S k) - 1)%Z with (Z.of_nat k) by (rewrite Nat2Z.inj_succ; ring).
      unfold pz. rewrite <- pow_powerRZ. rewrite <- INR_IZR_INZ. auto_derive; [exact I|].
      simpl. ring.
  - destruct (Pos2Nat.is_succ p) as [k Hk].
    assert (Hp : forall t, t <> 0 -> pz (Zneg p) t = / (t ^ S k)) by (intros t Ht; unfold pz; simpl; rewrite Hk; reflexivity).
    assert (Hq : pz (Zneg p - 1) x = / (x ^ S (S k))).
    { rewrite pz_pred, Hp by assumption. simpl. field. split; [apply pow_nonzero|]; assumption. }
    rewrite Hq.
    assert (Hi : IZR (Zneg p) = - INR (S k)).
    { change (Zneg p) with (- Zpos p)%Z. rewrite opp_IZR. f_equal. rewrite <- Hk. rewrite INR_IZR_INZ. rewrite positive_nat_Z. reflexivity. }
    rewrite Hi.
    apply (is_derive_ext_loc (fun t => / (t ^ S k))).
    + assert (He : 0 < Rabs x / 2) by (pose proof (Rabs_pos_lt x Hx); lra).
      exists (mkposreal _ He). intros t Ht. simpl in Ht.
      unfold ball in Ht; simpl in Ht; unfold AbsRing_ball, abs, minus, plus, opp in Ht; simpl in Ht.
      symmetry; apply Hp. intros E; subst t. rewrite Rplus_0_l, Rabs_Ropp in Ht. lra.
    + pose proof (pow_nonzero x k Hx) as Hk0.
      auto_derive. { simpl. apply Rmult_integral_contrapositive_currified; assumption. }
      simpl. field. split; assumption.
Qed.
#[global] Instance UnaryDiff_pz m : UnaryDiff' (pz m) :=
  {| UnaryDiff'_f' := fun x => IZR m * pz (m - 1) x; UnaryDiff'_df := fun x => x <> 0; UnaryDiff'_H := is_derive_pz m |}.

(* real powers x^m (m : R) on x > 0, as a unary function of x for each m *)
Definition rp (m : R) (x : R) : R := Rpower x m.
Lemma is_derive_rp m x : 0 < x -> is_derive (rp m) x (m * rp (m - 1) x).
Proof. intros H. apply is_derive_Reals. unfold rp. apply (derivable_pt_lim_power x m H). Qed.
#[global] Instance UnaryDiff_rp m : UnaryDiff' (rp m) :=
  {| UnaryDiff'_f' := fun x => m * rp (m - 1) x; UnaryDiff'_df := fun x => 0 < x; UnaryDiff'_H := is_derive_rp m |}.
Lemma rp_pred m x : 0 < x -> rp (m - 1) x = rp m x / x.
Proof.
  intros H. unfold rp, Rminus. rewrite Rpower_plus, Rpower_Ropp, Rpower_1 by assumption. reflexivity.
Qed.
