(* Base/RInst.v -- the real-number interpretation of the float interface: every operation is the exact
   mathematical one.  Used by the theorems; not executable. *)
From Coq Require Import Reals Lra.
From ND Require Import Overload Float.
Local Open Scope R_scope.

Definition Rltb (a b : R) : bool := if Rlt_dec a b then true else false.
Definition Rleb (a b : R) : bool := if Rle_dec a b then true else false.
Definition Reqb (a b : R) : bool := if Req_EM_T a b then true else false.

Lemma Rltb_true a b : Rltb a b = true <-> a < b.
Proof. unfold Rltb; destruct (Rlt_dec a b); split; intros; auto; discriminate. Qed.
Lemma Rleb_true a b : Rleb a b = true <-> a <= b.
Proof. unfold Rleb; destruct (Rle_dec a b); split; intros; auto; discriminate. Qed.
Lemma Reqb_true a b : Reqb a b = true <-> a = b.
Proof. unfold Reqb; destruct (Req_EM_T a b); split; intros; auto; discriminate. Qed.
Lemma Rltb_false a b : Rltb a b = false <-> ~ a < b.
Proof. unfold Rltb; destruct (Rlt_dec a b); split; intros; auto; try discriminate; contradiction. Qed.
Lemma Reqb_false a b : Reqb a b = false <-> a <> b.
Proof. unfold Reqb; destruct (Req_EM_T a b); split; intros; auto; try discriminate; contradiction. Qed.

Definition Rlit (l : flit) : R :=
  match Qden (flit_q l) with
  | xH => IZR (Qnum (flit_q l))
  | d => IZR (Qnum (flit_q l)) / IZR (Zpos d)
  end.

(* real cube root, odd extension *)
Definition Rcbrt (x : R) : R :=
  if Rlt_dec 0 x then Rpower x (/3) else if Rlt_dec x 0 then - Rpower (- x) (/3) else 0.
Definition Racosh (x : R) : R := ln (x + sqrt (x * x - 1)).
Definition Ratanh (x : R) : R := / 2 * ln ((1 + x) / (1 - x)).
Definition Ratan2 (y x : R) : R :=
  if Rlt_dec 0 x then atan (y / x)
  else if Rlt_dec x 0 then (if Rle_dec 0 y then atan (y / x) + PI else atan (y / x) - PI)
  else if Rlt_dec 0 y then PI / 2 else if Rlt_dec y 0 then - PI / 2 else 0.

Definition Rprim1 (p : prim1) (x : R) : R :=
  match p with
  | P_exp => exp x | P_exp2 => exp (x * ln 2) | P_exp_m1 => exp x - 1
  | P_ln => ln x | P_log2 => ln x / ln 2 | P_log10 => ln x / ln 10 | P_ln_1p => ln (1 + x)
  | P_sin => sin x | P_cos => cos x | P_tan => tan x
  | P_asin => asin x | P_acos => acos x | P_atan => atan x
  | P_sinh => sinh x | P_cosh => cosh x | P_tanh => tanh x
  | P_asinh => arcsinh x | P_acosh => Racosh x | P_atanh => Ratanh x
  | P_cbrt => Rcbrt x
  end.
Definition Rprim2 (p : prim2) (x y : R) : R :=
  match p with
  | P_powf => Rpower x y
  | P_atan2 => Ratan2 x y
  | P_log => ln x / ln y
  | P_hypot => sqrt (x * x + y * y)
  | P_copysign => if Rle_dec 0 y then Rabs x else - Rabs x
  end.
Definition Rconst (c : fconst) : R :=
  match c with
  | C_E => exp 1 | C_FRAC_1_PI => / PI | C_FRAC_1_SQRT_2 => / sqrt 2 | C_FRAC_2_PI => 2 / PI
  | C_FRAC_2_SQRT_PI => 2 / sqrt PI | C_FRAC_PI_2 => PI / 2 | C_FRAC_PI_3 => PI / 3 | C_FRAC_PI_4 => PI / 4
  | C_FRAC_PI_6 => PI / 6 | C_FRAC_PI_8 => PI / 8 | C_LN_10 => ln 10 | C_LN_2 => ln 2
  | C_LOG10_E => / ln 10 | C_LOG2_E => / ln 2 | C_PI => PI | C_SQRT_2 => sqrt 2 | C_TAU => 2 * PI
  | C_LOG2_10 => ln 10 / ln 2 | C_LOG10_2 => ln 2 / ln 10
  end.

#[global] Instance FL_R : FL R := {|
  fl_add := Rplus; fl_sub := Rminus; fl_mul := Rmult; fl_div := Rdiv; fl_neg := Ropp;
  fl_zero := 0; fl_one := 1;
  fl_eqb := Reqb; fl_ltb := Rltb; fl_leb := Rleb;
  fl_lit := Rlit; fl_castZ := IZR;
  fl_eps := / 4503599627370496;
  fl_abs := Rabs; fl_sqrt := sqrt;
  fl_prim1 := Rprim1; fl_prim2 := Rprim2;
  fl_powi := powerRZ;
  fl_fma := fun x a b => x * a + b;
  fl_sign_pos := fun x => Rleb 0 x;
  fl_is_nan := fun _ => false;
  fl_const := Rconst;
  fl_max_value := 0; fl_min_positive := 0; fl_infinity := 0; fl_nan := 0;
|}.
