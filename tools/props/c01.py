"""C01 -- elementary functions carry exact derivatives on every dual number type."""
import mpmath
from mpmath import mpf
import vlib, pyjet, genvals
from vlib import Case
from props.base import BaseProp, Violation

U = {64: 2.0 ** -53, 32: 2.0 ** -24}
# function -> sampler of the real part (inside the domain, a margin away from singularities)
DOM = {
    'recip': lambda r: r.choice([1, -1]) * r.uniform(0.05, 50), 'sqrt': lambda r: r.uniform(0.01, 100),
    'cbrt': lambda r: r.choice([1, -1]) * r.uniform(0.01, 100), 'exp': lambda r: r.uniform(-5, 5), 'exp2': lambda r: r.uniform(-5, 5),
    'exp_m1': lambda r: r.uniform(-5, 5), 'ln': lambda r: r.uniform(0.01, 100), 'log2': lambda r: r.uniform(0.01, 100),
    'log10': lambda r: r.uniform(0.01, 100), 'ln_1p': lambda r: r.uniform(-0.9, 10), 'sin': lambda r: r.uniform(-10, 10),
    'cos': lambda r: r.uniform(-10, 10), 'tan': lambda r: r.uniform(-1.4, 1.4), 'asin': lambda r: r.uniform(-0.95, 0.95),
    'acos': lambda r: r.uniform(-0.95, 0.95), 'atan': lambda r: r.uniform(-20, 20), 'sinh': lambda r: r.uniform(-5, 5),
    'cosh': lambda r: r.uniform(-5, 5), 'tanh': lambda r: r.uniform(-5, 5), 'asinh': lambda r: r.uniform(-20, 20),
    'acosh': lambda r: r.uniform(1.05, 50), 'atanh': lambda r: r.uniform(-0.95, 0.95),
    'abs': lambda r: r.choice([1, -1]) * r.uniform(0.01, 10), 'signum': lambda r: r.choice([1, -1]) * r.uniform(0.01, 10),
    'sin_cos': lambda r: r.uniform(-10, 10), 'log': lambda r: r.uniform(0.01, 100),
}
FNS = [f for f in DOM]


class Prop(BaseProp):
    coq_targets = ['ND/Proofs/C01_towers.vo', 'ND/Proofs/C01_faa.vo']
    n_quick, n_thorough = 520, 12000

    def cases(self, rng, n):
        tys = genvals.type_list(self.tier, include32=True)
        out = []
        k = 0
        while len(out) < n:
            ty = tys[k % len(tys)]
            fn = FNS[(k // len(tys)) % len(FNS)] if k < len(tys) * len(FNS) else rng.choice(FNS)
            k += 1
            a = genvals.gen_value(rng, ty, genvals.leaf_rand, re_leaf=DOM[fn])
            aux = []
            if fn == 'log':
                b = rng.choice([2.0, 10.0, 0.5, 7.25, 1.5])
                aux = [genvals.enc_leaf(b, ty.leaf().width)]
            out.append(Case('c%d' % len(out), ty, fn, [a], aux, tag='dom'))
        # two-argument arctangent: general position, both axes (both signs) and points next to them; the origin is the only singularity
        t64 = [t for t in tys if t.leaf().width == 64]
        axis = [(1.5, 0.0), (-2.0, 0.0), (0.0, 0.75), (0.0, -1.25), (-1.0, 1e-9), (3.0, -1e-12), (1e-7, -2.0), (-1e-10, 0.5)]
        for j in range(max(24, n // 12)):
            ty = t64[j % len(t64)] if j % 5 else tys[j % len(tys)]
            if j % 3 == 0:
                yv, xv = axis[(j // 3) % len(axis)]
            else:
                yv, xv = rng.uniform(-5, 5), rng.uniform(-5, 5)
                if max(abs(yv), abs(xv)) < 0.1:
                    xv = 1.0
            a = genvals.gen_value(rng, ty, genvals.leaf_rand, re_leaf=lambda r, v=yv: v)
            b = genvals.gen_value(rng, ty, genvals.leaf_rand, re_leaf=lambda r, v=xv: v)
            out.append(Case('A%d' % len(out), ty, 'atan2', [a, b], [], tag='atan2'))
        # tanh far out (the true derivative parts underflow): flat types return zeros, nested types are the open finding tanh-nested-intermediate-overflow
        for j, ty in enumerate(tys):
            if ty.leaf().width == 64 and (ty.depth() > 1 or j % 3 == 0):
                for x in (180.0, -400.0, 800.0)[: 3 if ty.depth() > 1 else 1]:
                    a = genvals.gen_value(rng, ty, genvals.leaf_rand, re_leaf=lambda r, x=x: x)
                    out.append(Case('L%d' % len(out), ty, 'tanh', [a], [], tag='large'))
        return out

    def oracle(self, case, impl):
        if impl == 'panic':
            return Violation('counterexample', '%s on %s panics' % (case.op, case.ty), case=case, obtained='panic')
        w = case.ty.leaf().width
        conv = lambda b: pyjet.mpf_of_bits(b, w)
        if case.op == 'atan2':
            return self.oracle_atan2(case, impl, w, conv)
        J = pyjet.jet_of_value(case.args[0], case.ty, conv)
        fn = case.op
        results = [impl]
        if fn == 'sin_cos':
            refs = [pyjet.apply_unary('sin', J), pyjet.apply_unary('cos', J)]
            results = impl
        elif fn == 'abs':
            s = 1 if J.re > 0 else -1
            refs = [(pyjet.Jet({S: s * J[S] for S in J.fam}, J.fam, mpf(0)), pyjet.Jet({S: abs(J[S]) for S in J.fam}, J.fam, mpf(0)))]
        elif fn == 'signum':
            s = 1 if J.re > 0 else -1
            refs = [(pyjet.Jet({S: (mpf(s) if not S else mpf(0)) for S in J.fam}, J.fam, mpf(0)), pyjet.Jet({S: mpf(1) for S in J.fam}, J.fam, mpf(0)))]
        elif fn == 'log':
            base = conv(case.aux[0])
            refs = [pyjet.apply_unary('log', J, aux=base)]
        else:
            refs = [pyjet.apply_unary(fn, J)]
        for (ref, scale), res in zip(refs, results):
            for S in ref.fam:
                b = pyjet.part_bits(res, case.ty, S)
                want = ref[S]
                if b == vlib.NAN:
                    return Violation('counterexample', '%s on %s at x=%s: part %s is NaN, true value %s' % (fn, case.ty, mpmath.nstr(J.re, 8), S, mpmath.nstr(want, 12)),
                                     case=case, expected=mpmath.nstr(want, 20), obtained='NaN')
                got = conv(b)
                tol = 32 * U[w] * scale[S] + mpf(10) ** -300
                if abs(got - want) > tol:
                    return Violation('counterexample', '%s on %s at x=%s: part %s = %s, Faa di Bruno of the true derivatives gives %s (|error| = %s u Sum|terms|)' % (
                        fn, case.ty, mpmath.nstr(J.re, 8), S, mpmath.nstr(got, 17), mpmath.nstr(want, 17), mpmath.nstr(abs(got - want) / (U[w] * scale[S]), 4)),
                        case=case, expected=mpmath.nstr(want, 25), obtained=mpmath.nstr(got, 25), detail={'block': str(S), 'tolerance': mpmath.nstr(tol, 6)})
        return None

    def oracle_atan2(self, case, impl, w, conv):
        """atan2(y, x): Ratan2 in the real part, Faa di Bruno of atan along the quotient in the derivative parts (reference and scale shared with C10)"""
        from props import c10
        ref, scale = c10.Prop.reference(None, case, conv)
        y0, x0 = genvals.real_part(case.args[0], case.ty), genvals.real_part(case.args[1], case.ty)
        for S in ref.fam:
            b = pyjet.part_bits(impl, case.ty, S)
            want = ref[S]
            if b == vlib.NAN:
                return Violation('counterexample', 'atan2 on %s at (y, x) = (%r, %r): part %s is NaN, true value %s' % (case.ty, y0, x0, S, mpmath.nstr(want, 12)),
                                 case=case, expected=mpmath.nstr(want, 20), obtained='NaN')
            got = conv(b)
            if S == () and y0 == 0 and x0 < 0:
                got, want = abs(got), abs(want)      # on the branch cut the sign of pi follows the sign of the zero
            tol = 1024 * U[w] * scale[S] + mpf(10) ** -300
            if abs(got - want) > tol:
                return Violation('counterexample', 'atan2 on %s at (y, x) = (%r, %r): part %s = %s, true value %s' % (
                    case.ty, y0, x0, S, mpmath.nstr(got, 17), mpmath.nstr(want, 17)), case=case, expected=mpmath.nstr(want, 25), obtained=mpmath.nstr(got, 25),
                    detail={'block': str(S), 'tolerance': mpmath.nstr(tol, 6)})
        return None

    def nontrivial(self, case, impl):
        if impl == 'panic':
            return False
        res = impl if case.op != 'sin_cos' else impl[0]
        lv = vlib.leaves(res, case.ty)
        return any(x not in (0, vlib.NAN) for x in lv[1:])

    def rule_text(self):
        return ('every elementary function x every type of the tier matrix; real part drawn inside the domain with a margin, derivative parts '
                'independent from {0, +-1, small, large, uniform}, optional parts present with probability 2/3; oracle: Faa di Bruno of 60-digit '
                'mpmath derivative towers, tolerance 32 u Sum_partitions (|f_k| + |x f_{k+1}|) prod|parts|; distinct by (type, function, operand bits); '
                'non-trivial = no panic and a non-zero derivative part in the result')
