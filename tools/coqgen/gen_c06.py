#!/usr/bin/env python3
"""Writes coq/ND/Proofs/C06_proofs.v and coq/ND/Props/C06.v (statements repeat over 8 types x ~45 operations)."""
import re
TYPES = ['Dual', 'Dual2', 'Dual3', 'HyperDual', 'HyperHyperDual', 'DualVec', 'Dual2Vec', 'HyperDualVec']
CMP_TYPES = ['Dual', 'Dual2', 'DualVec', 'Dual2Vec']
UN_DIRECT = ('recip sqrt cbrt exp exp2 exp_m1 ln log2 log10 ln_1p sin cos asin acos atan sinh cosh asinh acosh atanh').split()
UN_ALL = UN_DIRECT + 'tan tanh sph_j0 sph_j1 sph_j2 abs signum inv'.split()
PRED = 'is_zero is_one is_positive is_negative'.split()

L = []   # (name, statement, proof)
hdr = '''(* %s -- written by tools/coqgen/gen_c06.py.
   The real part is transparent: for EVERY interpretation of the scalar interface (abstract F, T with any DN instance --
   reals, binary64, a nested dual type ...) the real part of each result is a function of the operands' real parts alone,
   and for the directly forwarded operations it is literally the inner number's own operation.  Because the statements
   are proved for an arbitrary instance, "not a single bit changes" is meant literally, and they hold at every nesting level. *)
From ND Require Import Overload Float Mat Opt.
From NDgen Require Import Classes Gen_Float Gen_Derivative Gen_Dual Gen_Dual2 Gen_Dual3 Gen_HyperDual Gen_HyperHyperDual Gen_DualVec Gen_Dual2Vec Gen_HyperDualVec.
Local Open Scope rs_scope.
'''
TAC = '''Set Default Timeout 30.
Ltac re_solve := try reflexivity; cbv;
  repeat (match goal with |- context [match ?p with pair _ _ => _ end] =>
     lazymatch p with context [match _ with pair _ _ => _ end] => fail | _ => destruct p end end; cbv);
  repeat match goal with |- context [match ?z with Z0 => _ | Zpos _ => _ | Zneg _ => _ end] => destruct z end;
  repeat match goal with |- context [match ?z with xH => _ | xO _ => _ | xI _ => _ end] => destruct z end;
  repeat match goal with |- context [if ?c then _ else _] => destruct c end; reflexivity.
'''
T1 = 'intros x x\' H; destruct x, x\'; simpl in H; subst; re_solve.'
T2 = 'intros x x\' y y\' H1 H2; destruct x, x\', y, y\'; simpl in H1, H2; subst; re_solve.'
for S in TYPES:
    re_ = '%s_f_re' % S
    for m in UN_ALL:
        L.append(('re_only_%s_%s' % (S, m), 'forall x x\' : %s T, %s x = %s x\' -> %s (m_%s x) = %s (m_%s x\')' % (S, re_, re_, re_, m, re_, m), T1))
    for m in UN_DIRECT:
        inner = 'm_%s (%s x)' % (m, re_)
        if m == 'sin':
            inner = 'fst (m_sin_cos (%s x))' % re_      # the code calls the inner number's sin_cos
        if m == 'cos':
            inner = 'snd (m_sin_cos (%s x))' % re_
        L.append(('re_is_inner_%s_%s' % (S, m), 'forall x : %s T, %s (m_%s x) = %s' % (S, re_, m, inner), 'intros x; destruct x; re_solve.'))
    L.append(('re_only_%s_powi' % S, 'forall (n : Z) (x x\' : %s T), %s x = %s x\' -> %s (m_powi x n) = %s (m_powi x\' n)' % (S, re_, re_, re_, re_),
              'intros n x x\' H; destruct x, x\'; simpl in H; subst; destruct n as [|[[p|p|]|[p|p|]|]|p]; reflexivity.'))
    for m in ('powf', 'log'):
        L.append(('re_only_%s_%s' % (S, m), 'forall (q : F) (x x\' : %s T), %s x = %s x\' -> %s (m_%s x q) = %s (m_%s x\' q)' % (S, re_, re_, re_, m, re_, m),
                  'intros q x x\' H; destruct x, x\'; simpl in H; subst; re_solve.'))
    for m, opn in (('add', 'x + y'), ('sub', 'x - y'), ('mul', 'x * y'), ('div', 'x / y'), ('powd', 'm_powd x y'), ('atan2', 'm_atan2 x y'), ('abs_sub', 'm_abs_sub x y')):
        opn2 = opn.replace('x', "x'").replace('y', "y'")
        L.append(('re_only_%s_%s' % (S, m), 'forall x x\' y y\' : %s T, %s x = %s x\' -> %s y = %s y\' -> %s (%s) = %s (%s)' % (S, re_, re_, re_, re_, re_, opn, re_, opn2), T2 if m != 'abs_sub' else
                  'intros x x\' y y\' H1 H2; destruct x, x\', y, y\'; simpl in H1, H2; subst; re_solve.'))
    for m, opn, inner in (('add', 'x + y', '{a} + {b}'), ('sub', 'x - y', '{a} - {b}'), ('mul', 'x * y', '{a} * {b}')):
        L.append(('re_is_inner_%s_%s' % (S, m), 'forall x y : %s T, %s (%s) = %s' % (S, re_, opn, inner.format(a='%s x' % re_, b='%s y' % re_)), 'intros x y; destruct x, y; re_solve.'))
    L.append(('re_is_inner_%s_neg' % S, 'forall x : %s T, %s (- x) = - (%s x)' % (S, re_, re_), 'intros x; destruct x; re_solve.'))
    L.append(('re_only_%s_mul_add' % S, 'forall x x\' y y\' z z\' : %s T, %s x = %s x\' -> %s y = %s y\' -> %s z = %s z\' -> %s (m_mul_add x y z) = %s (m_mul_add x\' y\' z\')' % (
        (S,) + (re_,) * 8), 'intros x x\' y y\' z z\' H1 H2 H3; destruct x, x\', y, y\', z, z\'; simpl in H1, H2, H3; subst; re_solve.'))
    for m in PRED:
        L.append(('pred_%s_%s' % (S, m), 'forall x x\' : %s T, %s x = %s x\' -> m_%s x = m_%s x\'' % (S, re_, re_, m, m), T1))
    # scalar right operands
    for m, opn in (('addF', 'x + q'), ('subF', 'x - q'), ('mulF', 'x * q'), ('divF', 'x / q')):
        L.append(('re_only_%s_%s' % (S, m), 'forall (q : F) (x x\' : %s T), %s x = %s x\' -> %s (%s) = %s (%s)' % (S, re_, re_, re_, opn, re_, opn.replace('x', "x'")),
                  'intros q x x\' H; destruct x, x\'; simpl in H; subst; re_solve.'))
for S in CMP_TYPES:
    re_ = '%s_f_re' % S
    L.append(('cmp_%s_eq' % S, 'forall x x\' y y\' : %s T, %s x = %s x\' -> %s y = %s y\' -> (x == y) = (x\' == y\')' % (S, re_, re_, re_, re_), T2))
    L.append(('cmp_%s_partial_cmp' % S, 'forall x x\' y y\' : %s T, %s x = %s x\' -> %s y = %s y\' -> %s_PartialOrd_partial_cmp x y = %s_PartialOrd_partial_cmp x\' y\'' % (
        S, re_, re_, re_, re_, S, S), T2))
    L.append(('cmp_%s_is_inner' % S, 'forall x y : %s T, (x == y) = (%s x == %s y) /\\ %s_PartialOrd_partial_cmp x y = m_partial_cmp (%s x) (%s y)' % (S, re_, re_, S, re_, re_),
              'intros x y; destruct x, y; split; re_solve.'))

out = [hdr % 'Proofs/C06_proofs.v', TAC, 'Section C06.', 'Context {F T : Type} {dnFT : DN F T} {ordT : DNOrd T}.', '']
for n, st, pr in L:
    out.append('Lemma %s : %s.\nProof. %s Qed.' % (n, st, pr))
out.append('End C06.')
open('/verif/coq/ND/Proofs/C06_proofs.v', 'w').write('\n'.join(out) + '\n')

props = ['''(* Props/C06.v -- property C06: the real part is transparent and alone decides comparisons and branches.
   Written by tools/coqgen/gen_c06.py; only statements, `exact` proofs and the axiom report. *)
From ND Require Import Overload Float Mat Opt C06_proofs.
From NDgen Require Import Classes Gen_Float Gen_Derivative Gen_Dual Gen_Dual2 Gen_Dual3 Gen_HyperDual Gen_HyperHyperDual Gen_DualVec Gen_Dual2Vec Gen_HyperDualVec.
Local Open Scope rs_scope.
''']
for n, st, pr in L:
    props.append('Theorem C06_%s : forall {F T : Type} {dnFT : DN F T} {ordT : DNOrd T}, %s.\nProof. intros F T dnFT ordT. exact %s. Qed.' % (n, st, n))
props.append('')
props.append('Definition C06_bundle := (' + ',\n  '.join('@C06_' + n for n, _, _ in L) + ').')
props.append('Print Assumptions C06_bundle.')
open('/verif/coq/ND/Props/C06.v', 'w').write('\n'.join(props) + '\n')
print(len(L), 'theorems')
