(* Proofs/C04_nderiv.v -- the advertised maximum derivative order of a (nested) type is the sum over its levels, for any scalar instance *)
From ND Require Import Overload Float Mat Opt.
From NDgen Require Import Classes Gen_Float Gen_Derivative Gen_Dual Gen_Dual2 Gen_Dual3 Gen_HyperDual Gen_HyperHyperDual Gen_DualVec Gen_Dual2Vec Gen_HyperDualVec.
Section NDeriv.
  Context {F T : Type} {dnFT : DN F T} {ordT : DNOrd T}.
  Lemma nderiv_levels :
    nderiv (Dual T) = (nderiv T + 1)%nat /\ nderiv (DualVec T) = (nderiv T + 1)%nat /\
    nderiv (Dual2 T) = (nderiv T + 2)%nat /\ nderiv (Dual2Vec T) = (nderiv T + 2)%nat /\
    nderiv (HyperDual T) = (nderiv T + 2)%nat /\ nderiv (HyperDualVec T) = (nderiv T + 2)%nat /\
    nderiv (Dual3 T) = (nderiv T + 3)%nat /\ nderiv (HyperHyperDual T) = (nderiv T + 3)%nat.
  Proof. repeat split; reflexivity. Qed.
End NDeriv.
Lemma nderiv_float {F} {fl : FL F} : nderiv F = 0%nat.
Proof. reflexivity. Qed.
(* e.g. the three ways to third order *)
Lemma nderiv_third {F} {fl : FL F} :
  nderiv (Dual3 F) = 3%nat /\ nderiv (HyperHyperDual F) = 3%nat /\ nderiv (Dual (Dual (Dual F))) = 3%nat /\ nderiv (Dual2 (Dual F)) = 3%nat /\ nderiv (Dual (Dual2 F)) = 3%nat.
Proof. repeat split; reflexivity. Qed.
