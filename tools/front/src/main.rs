// Front end of the translator: parses a (macro-expanded) Rust source file with syn and dumps a JSON AST
// covering the subset of Rust the emitter understands.  Types and generics are kept as token text.
use quote::ToTokens;
use serde_json::{json, Value};
use syn::*;

fn ts<T: ToTokens>(t: &T) -> String {
    t.to_token_stream().to_string()
}

fn attrs(a: &[Attribute]) -> Value {
    Value::Array(
        a.iter()
            .filter(|x| !x.path().is_ident("doc"))
            .map(|x| Value::String(ts(x)))
            .collect(),
    )
}

fn path_json(p: &Path) -> Value {
    let segs: Vec<Value> = p
        .segments
        .iter()
        .map(|s| {
            let args = match &s.arguments {
                PathArguments::None => Value::Null,
                PathArguments::AngleBracketed(a) => {
                    Value::Array(a.args.iter().map(|g| Value::String(ts(g))).collect())
                }
                PathArguments::Parenthesized(a) => Value::String(ts(a)),
            };
            json!({"id": s.ident.to_string(), "args": args})
        })
        .collect();
    Value::Array(segs)
}

fn ty_json(t: &Type) -> Value {
    match t {
        Type::Path(tp) => json!({"k":"path","qself": tp.qself.as_ref().map(|q| ty_json(&q.ty)), "segs": path_json(&tp.path), "text": ts(t)}),
        Type::Reference(r) => json!({"k":"ref","mut": r.mutability.is_some(), "elem": ty_json(&r.elem), "text": ts(t)}),
        Type::Tuple(tt) => json!({"k":"tuple","elems": tt.elems.iter().map(ty_json).collect::<Vec<_>>(), "text": ts(t)}),
        Type::Paren(p) => ty_json(&p.elem),
        _ => json!({"k":"other","text": ts(t)}),
    }
}

fn pat_json(p: &Pat) -> Value {
    match p {
        Pat::Ident(i) => json!({"k":"ident","name": i.ident.to_string(), "by_ref": i.by_ref.is_some(),
            "mut": i.mutability.is_some(), "sub": i.subpat.as_ref().map(|(_, s)| pat_json(s))}),
        Pat::Tuple(t) => json!({"k":"tuple","elems": t.elems.iter().map(pat_json).collect::<Vec<_>>()}),
        Pat::TupleStruct(t) => json!({"k":"tuplestruct","path": path_json(&t.path),
            "elems": t.elems.iter().map(pat_json).collect::<Vec<_>>()}),
        Pat::Wild(_) => json!({"k":"wild"}),
        Pat::Lit(l) => json!({"k":"lit","lit": lit_json(&l.lit)}),
        Pat::Path(pp) => json!({"k":"path","segs": path_json(&pp.path)}),
        Pat::Reference(r) => json!({"k":"ref","pat": pat_json(&r.pat)}),
        Pat::Type(t) => json!({"k":"type","pat": pat_json(&t.pat), "ty": ty_json(&t.ty)}),
        Pat::Paren(pp) => pat_json(&pp.pat),
        Pat::Slice(s) => json!({"k":"slice","elems": s.elems.iter().map(pat_json).collect::<Vec<_>>()}),
        Pat::Or(o) => json!({"k":"or","cases": o.cases.iter().map(pat_json).collect::<Vec<_>>()}),
        Pat::Struct(s) => json!({"k":"struct","path": path_json(&s.path),
            "fields": s.fields.iter().map(|f| json!({"member": ts(&f.member), "pat": pat_json(&f.pat)})).collect::<Vec<_>>()}),
        _ => json!({"k":"other","text": ts(p)}),
    }
}

fn lit_json(l: &Lit) -> Value {
    match l {
        Lit::Int(i) => json!({"k":"int","digits": i.base10_digits(), "suffix": i.suffix()}),
        Lit::Float(f) => json!({"k":"float","digits": f.base10_digits(), "suffix": f.suffix()}),
        Lit::Str(s) => json!({"k":"str","value": s.value()}),
        Lit::Bool(b) => json!({"k":"bool","value": b.value}),
        Lit::Char(c) => json!({"k":"char","value": c.value().to_string()}),
        _ => json!({"k":"other","text": ts(l)}),
    }
}

fn block_json(b: &Block) -> Value {
    json!({"k":"block","stmts": b.stmts.iter().map(stmt_json).collect::<Vec<_>>()})
}

fn stmt_json(s: &Stmt) -> Value {
    match s {
        Stmt::Local(l) => json!({"k":"local","pat": pat_json(&l.pat),
            "init": l.init.as_ref().map(|i| expr_json(&i.expr)),
            "else": l.init.as_ref().and_then(|i| i.diverge.as_ref().map(|(_, e)| expr_json(e)))}),
        Stmt::Item(i) => json!({"k":"item","item": item_json(i)}),
        Stmt::Expr(e, semi) => json!({"k":"expr","expr": expr_json(e), "semi": semi.is_some()}),
        Stmt::Macro(m) => json!({"k":"macro","path": ts(&m.mac.path), "tokens": m.mac.tokens.to_string(), "semi": m.semi_token.is_some()}),
    }
}

fn binop(op: &BinOp) -> String {
    ts(op).replace(' ', "")
}

fn expr_json(e: &Expr) -> Value {
    match e {
        Expr::Binary(b) => json!({"k":"binary","op": binop(&b.op), "l": expr_json(&b.left), "r": expr_json(&b.right)}),
        Expr::Unary(u) => json!({"k":"unary","op": ts(&u.op), "e": expr_json(&u.expr)}),
        Expr::Reference(r) => json!({"k":"ref","mut": r.mutability.is_some(), "e": expr_json(&r.expr)}),
        Expr::MethodCall(m) => json!({"k":"method","recv": expr_json(&m.receiver), "method": m.method.to_string(),
            "turbofish": m.turbofish.as_ref().map(|t| ts(t)),
            "args": m.args.iter().map(expr_json).collect::<Vec<_>>()}),
        Expr::Call(c) => json!({"k":"call","func": expr_json(&c.func), "args": c.args.iter().map(expr_json).collect::<Vec<_>>()}),
        Expr::Path(p) => json!({"k":"path","qself": p.qself.as_ref().map(|q| json!({"ty": ty_json(&q.ty), "pos": q.position})),
            "segs": path_json(&p.path), "text": ts(p)}),
        Expr::Field(f) => json!({"k":"field","base": expr_json(&f.base), "member": ts(&f.member)}),
        Expr::Lit(l) => json!({"k":"lit","lit": lit_json(&l.lit)}),
        Expr::Paren(p) => expr_json(&p.expr),
        Expr::Group(g) => expr_json(&g.expr),
        Expr::Block(b) => block_json(&b.block),
        Expr::Unsafe(u) => json!({"k":"unsafe","block": block_json(&u.block)}),
        Expr::If(i) => json!({"k":"if","cond": expr_json(&i.cond), "then": block_json(&i.then_branch),
            "else": i.else_branch.as_ref().map(|(_, e)| expr_json(e))}),
        Expr::Match(m) => json!({"k":"match","e": expr_json(&m.expr), "arms": m.arms.iter().map(|a|
            json!({"pat": pat_json(&a.pat), "guard": a.guard.as_ref().map(|(_, g)| expr_json(g)), "body": expr_json(&a.body)})).collect::<Vec<_>>()}),
        Expr::Closure(c) => json!({"k":"closure","move": c.capture.is_some(), "params": c.inputs.iter().map(pat_json).collect::<Vec<_>>(), "body": expr_json(&c.body)}),
        Expr::Tuple(t) => json!({"k":"tuple","elems": t.elems.iter().map(expr_json).collect::<Vec<_>>()}),
        Expr::Struct(s) => json!({"k":"struct","path": path_json(&s.path), "text": ts(&s.path),
            "fields": s.fields.iter().map(|f| json!({"member": ts(&f.member), "e": expr_json(&f.expr)})).collect::<Vec<_>>(),
            "rest": s.rest.as_ref().map(|r| expr_json(r))}),
        Expr::Assign(a) => json!({"k":"assign","l": expr_json(&a.left), "r": expr_json(&a.right)}),
        Expr::Let(l) => json!({"k":"let","pat": pat_json(&l.pat), "e": expr_json(&l.expr)}),
        Expr::Macro(m) => json!({"k":"macro","path": ts(&m.mac.path), "tokens": m.mac.tokens.to_string(),
            "args": macro_args(&m.mac)}),
        Expr::Index(i) => json!({"k":"index","e": expr_json(&i.expr), "index": expr_json(&i.index)}),
        Expr::Cast(c) => json!({"k":"cast","e": expr_json(&c.expr), "ty": ty_json(&c.ty)}),
        Expr::Try(t) => json!({"k":"try","e": expr_json(&t.expr)}),
        Expr::Return(r) => json!({"k":"return","e": r.expr.as_ref().map(|e| expr_json(e))}),
        Expr::Range(r) => json!({"k":"range","start": r.start.as_ref().map(|e| expr_json(e)), "end": r.end.as_ref().map(|e| expr_json(e)), "limits": ts(&r.limits)}),
        Expr::ForLoop(f) => json!({"k":"for","pat": pat_json(&f.pat), "iter": expr_json(&f.expr), "body": block_json(&f.body)}),
        Expr::While(w) => json!({"k":"while","cond": expr_json(&w.cond), "body": block_json(&w.body)}),
        Expr::Loop(l) => json!({"k":"loop","body": block_json(&l.body)}),
        Expr::Break(_) => json!({"k":"break"}),
        Expr::Continue(_) => json!({"k":"continue"}),
        Expr::Array(a) => json!({"k":"array","elems": a.elems.iter().map(expr_json).collect::<Vec<_>>()}),
        Expr::Repeat(r) => json!({"k":"repeat","e": expr_json(&r.expr), "len": expr_json(&r.len)}),
        _ => json!({"k":"other","text": ts(e)}),
    }
}

// arguments of format_args!-like macros: try to parse as comma separated expressions
fn macro_args(m: &Macro) -> Value {
    use syn::punctuated::Punctuated;
    match m.parse_body_with(Punctuated::<Expr, Token![,]>::parse_terminated) {
        Ok(p) => Value::Array(p.iter().map(expr_json).collect()),
        Err(_) => Value::Null,
    }
}

fn sig_json(s: &Signature) -> Value {
    let mut receiver = Value::Null;
    let mut inputs = vec![];
    for a in s.inputs.iter() {
        match a {
            FnArg::Receiver(r) => {
                receiver = json!({"ref": r.reference.is_some(), "mut": r.mutability.is_some(), "text": ts(r)});
            }
            FnArg::Typed(t) => inputs.push(json!({"pat": pat_json(&t.pat), "ty": ty_json(&t.ty)})),
        }
    }
    json!({"name": s.ident.to_string(), "generics": ts(&s.generics), "where": s.generics.where_clause.as_ref().map(|w| ts(w)),
        "receiver": receiver, "inputs": inputs,
        "unsafe": s.unsafety.is_some(),
        "output": match &s.output { ReturnType::Default => Value::Null, ReturnType::Type(_, t) => ty_json(t) }})
}

fn impl_item_json(i: &ImplItem) -> Value {
    match i {
        ImplItem::Fn(f) => json!({"k":"fn","attrs": attrs(&f.attrs), "vis": ts(&f.vis), "sig": sig_json(&f.sig), "body": block_json(&f.block),
            "hash": ts(f)}),
        ImplItem::Const(c) => json!({"k":"const","name": c.ident.to_string(), "ty": ty_json(&c.ty), "e": expr_json(&c.expr)}),
        ImplItem::Type(t) => json!({"k":"type","name": t.ident.to_string(), "ty": ty_json(&t.ty)}),
        _ => json!({"k":"other","text": ts(i)}),
    }
}

fn trait_item_json(i: &TraitItem) -> Value {
    match i {
        TraitItem::Fn(f) => json!({"k":"fn","attrs": attrs(&f.attrs), "sig": sig_json(&f.sig),
            "body": f.default.as_ref().map(block_json), "hash": ts(f)}),
        TraitItem::Const(c) => json!({"k":"const","name": c.ident.to_string(), "ty": ty_json(&c.ty)}),
        TraitItem::Type(t) => json!({"k":"type","name": t.ident.to_string()}),
        _ => json!({"k":"other","text": ts(i)}),
    }
}

fn fields_json(f: &Fields) -> Value {
    Value::Array(
        f.iter()
            .enumerate()
            .map(|(i, f)| {
                json!({"name": f.ident.as_ref().map(|x| x.to_string()).unwrap_or(i.to_string()),
                "ty": ty_json(&f.ty), "attrs": attrs(&f.attrs), "vis": ts(&f.vis)})
            })
            .collect(),
    )
}

fn item_json(i: &Item) -> Value {
    match i {
        Item::Impl(im) => json!({"k":"impl","attrs": attrs(&im.attrs), "generics": ts(&im.generics),
            "generic_params": im.generics.params.iter().map(|p| ts(p)).collect::<Vec<_>>(),
            "where": im.generics.where_clause.as_ref().map(|w| ts(w)),
            "unsafe": im.unsafety.is_some(),
            "trait": im.trait_.as_ref().map(|(_, p, _)| json!({"segs": path_json(p), "text": ts(p)})),
            "self_ty": ty_json(&im.self_ty),
            "items": im.items.iter().map(impl_item_json).collect::<Vec<_>>()}),
        Item::Fn(f) => json!({"k":"fn","attrs": attrs(&f.attrs), "vis": ts(&f.vis), "sig": sig_json(&f.sig), "body": block_json(&f.block), "hash": ts(f)}),
        Item::Struct(s) => json!({"k":"struct","attrs": attrs(&s.attrs), "name": s.ident.to_string(), "generics": ts(&s.generics),
            "fields": fields_json(&s.fields), "tuple": matches!(s.fields, Fields::Unnamed(_))}),
        Item::Mod(m) => json!({"k":"mod","attrs": attrs(&m.attrs), "name": m.ident.to_string(),
            "items": m.content.as_ref().map(|(_, its)| its.iter().map(item_json).collect::<Vec<_>>())}),
        Item::Trait(t) => json!({"k":"trait","name": t.ident.to_string(), "generics": ts(&t.generics),
            "items": t.items.iter().map(trait_item_json).collect::<Vec<_>>()}),
        Item::Const(c) => json!({"k":"const","name": c.ident.to_string(), "ty": ty_json(&c.ty), "e": expr_json(&c.expr)}),
        Item::Static(c) => json!({"k":"static","name": c.ident.to_string(), "ty": ty_json(&c.ty), "e": expr_json(&c.expr)}),
        Item::Type(t) => json!({"k":"type","name": t.ident.to_string(), "generics": ts(&t.generics), "ty": ty_json(&t.ty)}),
        Item::Use(_) => json!({"k":"use"}),
        Item::Macro(m) => json!({"k":"macro_item","path": ts(&m.mac.path), "name": m.ident.as_ref().map(|i| i.to_string())}),
        Item::ExternCrate(_) => json!({"k":"extern_crate"}),
        _ => json!({"k":"other","text": ts(i)}),
    }
}

fn main() {
    let args: Vec<String> = std::env::args().collect();
    let src = std::fs::read_to_string(&args[1]).expect("read");
    let file = parse_file(&src).expect("parse");
    let items: Vec<Value> = file.items.iter().map(item_json).collect();
    let out = json!({"items": items});
    std::fs::write(&args[2], serde_json::to_string(&out).unwrap()).expect("write");
}
