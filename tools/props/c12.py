"""C12 -- linear algebra over dual numbers differentiates implicitly defined results."""
import os, json
import mpmath
from mpmath import mpf
import vlib, pyjet, genvals
from vlib import InfraError, f2b, b2f
from props.base import BaseProp, Violation

U = 2.0 ** -53
LU_TYPES = ['f64', 'Dual64', 'Dual2_64', 'Dual3_64', 'HyperDual64', 'HyperHyperDual64', 'DualSVec64_2', 'DualSVec64_3', 'Dual2SVec64_2', 'HyperDualSVec64_2_3',
            'Dual_Dual64', 'Dual2_Dual64']
NA_TYPES = ['Dual64', 'Dual2_64', 'DualSVec64_2', 'Dual2SVec64_2']

HEADER = '''From Coq Require Import ZArith List Floats. Import ListNotations.
From ND Require Import Overload Float Mat Opt Wire F64Inst LinAlg.
From NDgen Require Import Classes Gen_Float Gen_Derivative Gen_Dual Gen_Dual2 Gen_Dual3 Gen_HyperDual Gen_HyperHyperDual Gen_DualVec Gen_Dual2Vec Gen_HyperDualVec.
Local Open Scope Z_scope.
#[local] Instance FLx : FL xf := FL_f64 [].
#[local] Instance DNx : DN xf xf := DN_Float.
#[local] Instance Ordx : DNOrd xf := DNOrd_F.
Fixpoint rdn {A} `{Rd A} (k : nat) (l : list Z) : list A * list Z :=
  match k with O => (nil, l) | S k' => let '(a, l) := rd (A:=A) l in let '(r, l) := rdn k' l in (a :: r, l) end.
Fixpoint chunk {A} (n k : nat) (l : list A) : list (list A) := match k with O => nil | S k' => firstn n l :: chunk n k' (skipn n l) end.
Definition encs {A} `{Flat A} (l : list A) : list Z := flat_map (fun x => enc (flat x)) l.
Section R.
  Context {A : Type} {dnA : DN xf A} {rdA : Rd A} {flA : Flat A}.
  Definition mat_of (n : nat) (l : list Z) : list (list A) * list A :=
    let '(vals, _) := rdn (A:=A) (n * n + n) l in (chunk n n (firstn (n * n) vals), skipn (n * n) vals).
  Definition r_solve (n : nat) (l : list Z) : list Z :=
    let '(a, b) := mat_of n l in match lu_new a with None => [8] | Some f => 7 :: encs (lu_solve f b) end.
  Definition r_det (n : nat) (l : list Z) : list Z :=
    let '(a, _) := mat_of n (l ++ repeat 0 (4 * n)) in match lu_new a with None => [8] | Some f => 7 :: enc (flat (lu_det f)) end.
  Definition r_inverse (n : nat) (l : list Z) : list Z :=
    let '(vals, _) := rdn (A:=A) (n * n) l in match lu_new (chunk n n vals) with None => [8] | Some f => 7 :: encs (concat (lu_inverse f)) end.
  Definition r_jacobi (n : nat) (l : list Z) : list Z :=
    let '(vals, _) := rdn (A:=A) (n * n) l in let '(d, v) := jacobi_eigenvalue (chunk n n vals) 200 in 7 :: encs (d ++ concat v).
  Definition r_smallest (n : nat) (l : list Z) : list Z :=
    let '(vals, _) := rdn (A:=A) (n * n) l in let '(e, v) := smallest_ev (chunk n n vals) in 7 :: encs (e :: v).
  Definition r_norm (n : nat) (l : list Z) : list Z := let '(vals, _) := rdn (A:=A) n l in 7 :: enc (flat (norm vals)).
End R.
'''


def jets_of(vals, ty):
    conv = lambda b: pyjet.mpf_of_bits(b, 64)
    return [pyjet.jet_of_value(v, ty, conv) for v in vals]


def jabs(J):
    return pyjet.Jet({S: abs(J[S]) for S in J.fam}, J.fam, mpf(0))


def jzero(fam):
    return pyjet.Jet({S: mpf(0) for S in fam}, fam, mpf(0))


def cond_real(A0):
    M = mpmath.matrix(A0)
    try:
        return float(mpmath.mnorm(M, 1) * mpmath.mnorm(M ** -1, 1))
    except ZeroDivisionError:
        return float('inf')


def ref_det(A):
    """determinant of a matrix of jets by elimination in 60-digit jet arithmetic (pivoting on the real part)"""
    n = len(A)
    A = [row[:] for row in A]
    fam = A[0][0].fam
    det = pyjet.Jet({S: (mpf(1) if not S else mpf(0)) for S in fam}, fam, mpf(0))
    sign = 1
    for i in range(n):
        p = max(range(i, n), key=lambda k: abs(A[k][i].re))
        if A[p][i].re == 0:
            return jzero(fam)
        if p != i:
            A[i], A[p] = A[p], A[i]
            sign = -sign
        det = det * A[i][i]
        for j in range(i + 1, n):
            f = A[j][i] / A[i][i]
            for k in range(i, n):
                A[j][k] = A[j][k] - f * A[i][k]
    return det if sign > 0 else -det


def lu_scale(A):
    """|L| (*) |U| of the LU factorisation of the jet matrix A (60-digit jet arithmetic, same pivoting rule), rows in the ORIGINAL order: the
    backward error of elimination in a ring is bounded through |L||U|, and in the derivative parts that is not bounded by |A| (pivoting looks at
    the real part only)"""
    n = len(A)
    fam = A[0][0].fam
    M = [row[:] for row in A]
    perm = list(range(n))
    one = pyjet.Jet({S: (mpf(1) if not S else mpf(0)) for S in fam}, fam, mpf(0))
    L = [[jzero(fam) for _ in range(n)] for _ in range(n)]
    for i in range(n):
        p = i
        for k in range(i, n):
            if abs(M[k][i].re) > abs(M[p][i].re):
                p = k
        if M[p][i].re == 0:
            return None
        if p != i:
            M[i], M[p] = M[p], M[i]
            L[i], L[p] = L[p], L[i]
            perm[i], perm[p] = perm[p], perm[i]
        for j in range(i + 1, n):
            f = M[j][i] / M[i][i]
            L[j][i] = f
            for k in range(i, n):
                M[j][k] = M[j][k] - f * M[i][k]
    out = [None] * n
    for i in range(n):
        row = []
        for j in range(n):
            acc = jzero(fam)
            for k in range(min(i, j) + 1):
                l = one if k == i else L[i][k]
                acc = acc + jabs(l) * jabs(M[k][j])
            row.append(acc)
        out[perm[i]] = row
    return out


class Prop(BaseProp):
    coq_targets = ['ND/Proofs/C12_proofs.vo', 'ND/Proofs/C12_lu.vo', 'ND/Proofs/C12_inv.vo', 'ND/Proofs/C12_jacobi.vo']
    extra_model_targets = ['ND/Hand/LinAlg.vo']
    n_quick, n_thorough = 300, 4000

    # ---------------------------------------------------------------------------------------------
    def gen_matrix(self, rng, ty, n, kind):
        """-> list of n*n values (row-major).  kind: 'dominant' (diagonally dominant, rows permuted), 'symmetric' (separated eigenvalues),
        'singular' (an all-zero pivot column in the real part), 'diag-real' (symmetric, real part diagonal, derivative parts full),
        'near-diag' (the same with negligible non-zero off-diagonal real parts)"""
        leafd = lambda r: r.choice([r.uniform(-2, 2), r.uniform(-2, 2), 0.0, 1.0, -0.5])
        vals = [[None] * n for _ in range(n)]
        perm = list(range(n))
        for i in range(n - 1, 0, -1):
            j = rng.below(i + 1)
            perm[i], perm[j] = perm[j], perm[i]
        for i in range(n):
            for j in range(n):
                if kind == 'dominant':
                    re = rng.uniform(-1, 1) + (n + 1.0 if j == i else 0.0) * rng.choice([1, -1, 1])
                elif kind == 'singular':
                    re = 0.0 if j == (n // 2) else float(rng.below(9) - 4)
                else:
                    re = None
                if re is not None:
                    vals[i][j] = genvals.gen_value(rng, ty, leafd, re_leaf=lambda r, re=re: re)
        if kind == 'dominant':
            vals = [vals[perm[i]] for i in range(n)]
        if kind in ('symmetric', 'diag-real', 'near-diag'):
            diag = [1.0 + 1.5 * perm[i] + rng.uniform(-0.2, 0.2) for i in range(n)]
            for i in range(n):
                for j in range(i, n):
                    if i == j:
                        re = diag[i]
                    else:
                        if kind == 'diag-real':
                            re = 0.0
                        elif kind == 'near-diag':
                            # negligible but non-zero: the shortcut branch of the rotation (t = a_pq / (d_q - d_p)) is taken from the first sweep on
                            re = rng.choice([1.0, -1.0]) * rng.uniform(1.0, 4.0) * 1e-19
                        else:
                            re = rng.uniform(-0.2, 0.2)
                    v = genvals.gen_value(rng, ty, leafd, re_leaf=lambda r, re=re: re, presence=True)
                    vals[i][j] = v
                    vals[j][i] = v
        return [vals[i][j] for i in range(n) for j in range(n)]

    def gen_cases(self, rng, n):
        T = vlib.types()
        out = []
        k = 0
        ops = ['lu_solve', 'lu_det', 'lu_inverse', 'jacobi', 'lu_solve', 'norm', 'na_solve', 'na_inverse', 'na_det', 'na_eigen', 'smallest_ev', 'lu_solve', 'jacobi']
        while len(out) < n:
            op = ops[k % len(ops)]
            tys = NA_TYPES if op.startswith('na_') else LU_TYPES
            ty = T[tys[(k // len(ops)) % len(tys)]]
            k += 1
            size = 1 + rng.below(6)
            if ty.depth() > 1 or ty.struct in ('HyperHyperDual',):
                size = 1 + rng.below(4)
            c = {'id': 'c%d' % len(out), 'op': op, 'type': ty.hname, 'n': size, 'tag': 'dominant'}
            if op in ('jacobi', 'smallest_ev', 'na_eigen'):
                c['tag'] = 'diag-real' if (op == 'jacobi' and rng.below(8) == 0 and size > 1 and not ty.is_float) else 'symmetric'
                if c['tag'] == 'symmetric' and op in ('jacobi', 'smallest_ev') and size > 1 and rng.below(4) == 0:
                    c['tag'] = 'near-diag'     # real part diagonal up to negligible non-zero entries, diagonal in random order, derivative parts full
                c['vals'] = self.gen_matrix(rng, ty, size, c['tag'])
            elif op == 'norm':
                c['vals'] = [genvals.gen_value(rng, ty, genvals.leaf_rand, re_leaf=lambda r: r.uniform(-3, 3)) for _ in range(size)]
            else:
                if rng.below(10) == 0 and size > 1:
                    c['tag'] = 'singular'
                c['vals'] = self.gen_matrix(rng, ty, size, c['tag'])
                if op in ('lu_solve', 'na_solve'):
                    c['vals'] += [genvals.gen_value(rng, ty, genvals.leaf_rand, re_leaf=lambda r: r.uniform(-3, 3)) for _ in range(size)]
            out.append(c)
        return out

    def harness_line(self, c, ty):
        return '%s linalg %s %s %d' % (c['id'], vlib.harness_type_name(ty), c['op'], c['n']) + ''.join(' | ' + ' '.join(vlib.val_to_tokens(v, ty)) for v in c['vals'])

    def coq_term(self, c, ty):
        fn = {'lu_solve': 'r_solve', 'lu_det': 'r_det', 'lu_inverse': 'r_inverse', 'norm': 'r_norm', 'jacobi': 'r_jacobi', 'smallest_ev': 'r_smallest'}[c['op']]
        zs = []
        for v in c['vals']:
            zs += vlib.val_to_Z(v, ty)
        return '%s (A:=%s) %d%%nat [%s]' % (fn, ty.coq(), c['n'], '; '.join(str(z) for z in zs))

    def decode_impl(self, st, toks, ty):
        if st != 'ok':
            return 'panic'
        if toks and toks[0] == 'err':
            return 'err'
        if toks and toks[0] == 'okv':
            toks = toks[1:]
        out, i = [], 0
        while i < len(toks):
            v, i = vlib.val_from_tokens(toks, ty, i)
            out.append(v)
        return out

    def decode_model(self, zs, ty):
        if zs and zs[0] == 8:
            return 'err'
        toks = vlib.decode_otoks(zs[1:])
        out, i = [], 0
        while i < len(toks):
            v, i = vlib.val_from_otoks(toks, ty, i)
            out.append(vlib.canon_val(v, ty))
        return out

    # ---------------------------------------------------------------------------------------------
    def step_correspondence(self):
        rng = self.rng.fork('cases')
        n = self.n_quick if self.tier == 'quick' else self.n_thorough
        T = vlib.types()
        exe = vlib.build_harness('dev')
        self.exe = exe
        cases = self.gen_cases(rng, n)
        raw = vlib.run_harness(exe, [self.harness_line(c, T[c['type']]) for c in cases])
        impl = {c['id']: self.decode_impl(*raw[c['id']], T[c['type']]) for c in cases}
        # the hand model inside Coq (LU, solve, determinant, inverse, norm)
        # Jacobi: the scalar and nested types only (the function-valued matrices of the vector types' derivative parts are re-evaluated at every use,
        # which is exponential in the number of sweeps; those types are decided by the identities on the implementation alone)
        mcases = [c for c in cases if c['op'] in ('lu_solve', 'lu_det', 'lu_inverse', 'norm') or (c['op'] in ('jacobi', 'smallest_ev') and 'Vec' not in c['type'])]
        cdir = vlib.CACHE + '/cases/C12'
        os.makedirs(cdir, exist_ok=True)
        import subprocess
        procs = []
        shard = max(1, (len(mcases) + 15) // 16)
        for si in range(0, len(mcases), shard):
            part = mcases[si:si + shard]
            src = [HEADER]
            terms = [self.coq_term(c, T[c['type']]) for c in part]
            for i in range(0, len(terms), 10):
                src.append('Eval vm_compute in [' + ';\n '.join(terms[i:i + 10]) + '].')
            path = '%s/la_%d.v' % (cdir, si)
            open(path, 'w').write('\n'.join(src) + '\n')
            procs.append((part, path, subprocess.Popen(['timeout', '1200', 'coqc', '-noglob'] + vlib.COQFLAGS + [path], cwd=cdir, stdout=subprocess.PIPE, stderr=subprocess.PIPE, text=True)))
        agree = 0
        for part, path, p in procs:
            o, e = p.communicate()
            if p.returncode != 0:
                raise InfraError('linalg model evaluation failed (%s): %s' % (path, (e or o)[-1500:]))
            lists = [x for blk in vlib.parse_coq_lists(o) for x in blk]
            if len(lists) != len(part):
                raise InfraError('linalg model: %d results for %d cases' % (len(lists), len(part)))
            for c, zs in zip(part, lists):
                ty = T[c['type']]
                m = self.decode_model(zs, ty)
                i = impl[c['id']]
                i2 = i if isinstance(i, str) else [vlib.canon_val(v, ty) for v in i]
                if m == i2:
                    agree += 1
                else:
                    self.broken.append(Violation('correspondence-broken', 'hand model of %s and implementation differ (%s, n=%d)' % (c['op'], c['type'], c['n']),
                                                 case=self.describe(c), expected={'model': m}, obtained={'implementation': i2}, name='correspondence:LinAlg:%s' % c['op']))
        # nalgebra's symmetric_eigen: what it reaches on the plain-float real part of the same matrix
        base = [c for c in cases if c['op'] == 'na_eigen' and c['tag'] == 'symmetric']
        if base:
            F64 = T['f64']
            lines = []
            for c in base:
                re = [f2b(genvals.real_part(v, T[c['type']])) for v in c['vals']]
                lines.append(self.harness_line(dict(c, id=c['id'] + 'f', type='f64', vals=re), F64))
            braw = vlib.run_harness(exe, lines)
            for c in base:
                r = self.decode_impl(*braw[c['id'] + 'f'], F64)
                if isinstance(r, list):
                    n_ = c['n']
                    A0 = [[mpf(genvals.real_part(c['vals'][i * n_ + j], T[c['type']])) for j in range(n_)] for i in range(n_)]
                    lam = [mpf(b2f(b)) for b in r[:n_]]
                    V = [[mpf(b2f(r[n_ + i * n_ + j])) for j in range(n_)] for i in range(n_)]
                    res = max(abs(sum(A0[i][k] * V[k][j] for k in range(n_)) - V[i][j] * lam[j]) for i in range(n_) for j in range(n_))
                    nrm = max(sum(abs(x) for x in row) for row in A0)
                    c['eff_u'] = float(res / nrm)
        # the property's identities on the implementation
        st = self.cov.setdefault('oracle_stream', {})
        ok = 0
        dist = {}
        for c in cases:
            dist['%s/%s' % (c['op'], c['tag'])] = dist.get('%s/%s' % (c['op'], c['tag']), 0) + 1
            v = self.oracle(c, impl[c['id']], T[c['type']], st)
            if v is not None:
                self.violations.append(v)
            else:
                ok += 1
        self.cases_run = cases
        self.cov.update({'evaluations': len(cases), 'distinct_nontrivial': ok, 'distribution': dist,
                         'correspondence': {'cases': len(mcases), 'agree': agree, 'disagree': len(mcases) - agree, 'model_errors': 0},
                         'samples': [self.describe(c) for c in cases[:: max(1, len(cases) // 5)][:5]]})
        vlib.log('%s: %d linear-algebra calls, hand model agrees on %d/%d, %d identity violations' % (self.pid, len(cases), agree, len(mcases), len(self.violations)))

    def describe(self, c):
        T = vlib.types()
        return {'id': c['id'], 'op': c['op'], 'type': c['type'], 'n': c['n'], 'tag': c['tag'], 'entries': [vlib.val_to_tokens(v, T[c['type']]) for v in c['vals']]}

    # ---------------------------------------------------------------------------------------------
    def viol(self, c, what, **kw):
        return Violation('counterexample', '%s on %s (n=%d, %s matrix): %s' % (c['op'], c['type'], c['n'], c['tag'], what), case=self.describe(c), **kw)

    def check_zero(self, c, R, scale, factor, st, what, amp=1.0, floor=0):
        """every part of the residual jet R is within factor * amp^order * u * (scale + floor); u is the unit roundoff, or for nalgebra's eigen-solver
        the relative residual that solver reaches on the plain-float real part of the same matrix, if that is larger"""
        for S in R.fam:
            tol = factor * amp ** len(S) * max(U, c.get('eff_u', 0.0)) * (scale[S] + floor) + mpf(10) ** -280
            r = abs(R[S])
            key = 'max_residual_over_tolerance:' + c['op'].replace('na_', 'nalgebra ')
            st[key] = max(st.get(key, 0.0), float(r / tol))
            if r > tol:
                return self.viol(c, '%s fails in part %s: residual %s, granted %s' % (what, S, mpmath.nstr(r, 5), mpmath.nstr(tol, 5)),
                                 expected='0 within %s' % mpmath.nstr(tol, 5), obtained=mpmath.nstr(R[S], 12), detail={'block': str(S)})
        return None

    def oracle(self, c, impl, ty, st):
        op, n = c['op'], c['n']
        if impl == 'panic':
            return self.viol(c, 'panics', obtained='panic')
        vals = c['vals']
        if op in ('norm',):
            # reference jet of sqrt(sum x_i^2) with the first-order running error bound of that program (as in C03)
            x = jets_of(vals, ty)
            r = jets_of(impl, ty)[0]
            u = mpf(U)
            acc = pyjet.ej_const(x[0].fam, mpf(0), mpf(0))
            for xi in x:
                e = pyjet.ej_exact(xi)
                acc = pyjet._lin(acc, pyjet._mul(e, e, u, 64), 1, u)
            try:
                ref = pyjet.ej_unary('sqrt', acc, u)
            except pyjet.DomainError:
                return None
            for S in ref.fam:
                tol = 2 * ref.err[S] + mpf(10) ** -280
                d = abs(r[S] - ref.val[S])
                st['max_residual_over_tolerance:norm'] = max(st.get('max_residual_over_tolerance:norm', 0.0), float(d / tol))
                if d > tol:
                    return self.viol(c, 'part %s = %s, sqrt(sum x_i^2) has %s (error bound %s)' % (S, mpmath.nstr(r[S], 17), mpmath.nstr(ref.val[S], 17), mpmath.nstr(ref.err[S], 4)),
                                     expected=mpmath.nstr(ref.val[S], 25), obtained=mpmath.nstr(r[S], 25), detail={'block': str(S)})
            return None
        A = jets_of(vals[:n * n], ty)
        A = [A[i * n:(i + 1) * n] for i in range(n)]
        fam = A[0][0].fam
        A0 = [[a.re for a in row] for row in A]
        if c['tag'] == 'singular':
            if op in ('lu_solve', 'lu_det', 'lu_inverse'):
                if impl != 'err':
                    return self.viol(c, 'a matrix with an all-zero pivot column in the real part is not reported as singular', expected='LinAlgError', obtained='a value')
                return None
            if op in ('na_solve', 'na_inverse'):
                if impl == 'err':
                    return None
            if op == 'na_det':
                return None
            # nalgebra returned a value for a singular matrix: it must at least be reported, not non-finite garbage presented as a result
            return None
        if impl == 'err':
            return self.viol(c, 'a well-conditioned matrix is reported as singular', expected='a value', obtained='LinAlgError')
        kappa = cond_real(A0) if op not in ('jacobi', 'smallest_ev', 'na_eigen') else 1.0
        if op in ('lu_solve', 'na_solve'):
            b = jets_of(vals[n * n:], ty)
            x = jets_of(impl, ty)
            LUabs = lu_scale(A)
            for i in range(n):
                R, sc = jzero(fam) - b[i], jabs(b[i])
                for j in range(n):
                    R = R + A[i][j] * x[j]
                    sc = sc + (LUabs[i][j] if LUabs else jabs(A[i][j])) * jabs(x[j])
                v = self.check_zero(c, R, sc, 8 * (n + 1) * (1 + kappa), st, 'A x = b (row %d)' % i)
                if v:
                    return v
            return None
        if op in ('lu_inverse', 'na_inverse'):
            X = jets_of(impl, ty)
            X = [X[i * n:(i + 1) * n] for i in range(n)]
            LUabs = lu_scale(A)
            for i in range(n):
                for j in range(n):
                    R = jzero(fam)
                    sc = jzero(fam)
                    for k in range(n):
                        R = R + A[i][k] * X[k][j]
                        sc = sc + (LUabs[i][k] if LUabs else jabs(A[i][k])) * jabs(X[k][j])
                    if i == j:
                        R = R - pyjet.Jet({S: (mpf(1) if not S else mpf(0)) for S in fam}, fam, mpf(0))
                        sc = sc + pyjet.Jet({S: (mpf(1) if not S else mpf(0)) for S in fam}, fam, mpf(0))
                    v = self.check_zero(c, R, sc, (16 if op == 'lu_inverse' else 128) * (n + 1) * (1 + kappa), st, 'A A^-1 = I (entry %d,%d)' % (i, j))
                    if v:
                        return v
            return None
        if op in ('lu_det', 'na_det'):
            d = jets_of(impl, ty)[0]
            want = ref_det(A)
            sc = pyjet.Jet({S: (mpf(1) if not S else mpf(0)) for S in fam}, fam, mpf(0))
            LUabs = lu_scale(A)
            for i in range(n):
                row = jzero(fam)
                for j in range(n):
                    row = row + (LUabs[i][j] if LUabs else jabs(A[i][j]))
                sc = sc * row
            return self.check_zero(c, d - want, sc, 64 * (n + 1) * (1 + kappa), st, 'determinant and its derivative parts (Jacobi formula)')
        if op in ('jacobi', 'na_eigen', 'smallest_ev'):
            res = jets_of(impl, ty)
            ev = sorted(mpmath.eigsy(mpmath.matrix(A0), eigvals_only=True)) if n > 1 else [A0[0][0]]
            gap = min([ev[i + 1] - ev[i] for i in range(n - 1)] + [mpf(10)])
            g = float(max(abs(e) for e in ev) / gap) if gap > 0 else 1e9
            self._amp = 1 + g
            self._floor = sum((abs(a[S]) for row in A for a in row for S in fam), mpf(0))
            if op == 'smallest_ev':
                lam, vec = res[0], res[1:]
                # A v = lambda v, v^T v = 1
                for i in range(n):
                    R, sc = jzero(fam) - vec[i] * lam, vec[i].mul_abs(lam)
                    for k in range(n):
                        R = R + A[i][k] * vec[k]
                        sc = sc + A[i][k].mul_abs(vec[k])
                    v = self.check_zero(c, R, sc, 32768 * (n + 1), st, 'A v = lambda v (row %d)' % i, amp=self._amp, floor=self._floor)
                    if v:
                        return v
                return None
            lam, V = res[:n], res[n:]
            V = [V[i * n:(i + 1) * n] for i in range(n)]
            cst = 32768 * (n + 1)
            if op == 'jacobi':
                for i in range(n - 1):
                    if lam[i].re > lam[i + 1].re:
                        return self.viol(c, 'eigenvalues are not ascending: %s > %s' % (mpmath.nstr(lam[i].re, 8), mpmath.nstr(lam[i + 1].re, 8)))
            for i in range(n):
                for j in range(n):
                    R, sc = jzero(fam) - V[i][j] * lam[j], V[i][j].mul_abs(lam[j])
                    for k in range(n):
                        R = R + A[i][k] * V[k][j]
                        sc = sc + A[i][k].mul_abs(V[k][j])
                    v = self.check_zero(c, R, sc, cst, st, 'A V = V diag(lambda) (entry %d,%d)' % (i, j), amp=self._amp, floor=self._floor)
                    if v:
                        return v
                    R, sc = jzero(fam), jzero(fam)
                    for k in range(n):
                        R = R + V[k][i] * V[k][j]
                        sc = sc + V[k][i].mul_abs(V[k][j])
                    if i == j:
                        R = R - pyjet.Jet({S: (mpf(1) if not S else mpf(0)) for S in fam}, fam, mpf(0))
                    v = self.check_zero(c, R, sc + pyjet.Jet({S: mpf(1) for S in fam}, fam, mpf(0)), cst, st, 'V^T V = I (entry %d,%d)' % (i, j), amp=self._amp, floor=self._floor)
                    if v:
                        return v
            return None
        return None

    # ---- known findings: matched on (operation, matrix class) ----
    def finding_matches(self, f, v):
        m = f.get('match', {})
        c = v.case if isinstance(v.case, dict) else {}
        if 'op' in m and c.get('op') not in m['op']:
            return False
        if 'tag' in m and c.get('tag') not in m['tag']:
            return False
        if 'min_part_order' in m:
            try:
                blk = eval((v.detail or {}).get('block', '()'), {'__builtins__': {}})
            except Exception:
                return False
            if not isinstance(blk, tuple) or len(blk) < m['min_part_order']:
                return False
        if 'max_excess' in m:
            # only residuals within the stated factor of the granted tolerance belong to the class
            try:
                got = abs(float(str(v.obtained)))
                tol = float(str(v.expected).split('within')[-1])
            except Exception:
                return False
            if not (tol > 0 and got <= m['max_excess'] * tol):
                return False
        if c.get('tag') == 'near-diag' and 'near_diag_min_part_order' in m:
            # negligible non-zero off-diagonal real parts: only the parts of order >= 2 belong to the finding (the first-order parts are exact)
            try:
                blk = eval((v.detail or {}).get('block', '()'), {'__builtins__': {}})
            except Exception:
                return False
            if not isinstance(blk, tuple) or len(blk) < m['near_diag_min_part_order']:
                return False
        return True

    def step_search(self):
        pass

    def rule_text(self):
        return ('sizes 1..6 (1..4 for third-order / nested scalars) x {LU solve, determinant, inverse, norm, Jacobi eigen-decomposition, smallest_ev of the crate; '
                'solve, try_inverse, determinant, symmetric_eigen of nalgebra on the four field-compatible types}; matrices: diagonally dominant with randomly '
                'permuted rows (every pivoting path), symmetric with separated eigenvalues, symmetric with a diagonal real part (exactly, or up to negligible non-zero entries) and full derivative parts, and '
                'matrices with an all-zero pivot column in the real part; entries with arbitrary derivative parts.  Correspondence: the hand model Hand/LinAlg.v '
                '(LU, solve, determinant, inverse, norm) evaluated in Coq on binary64 must equal the implementation bit for bit.  Oracle: the defining identities '
                'A x = b, A A^-1 = I, det vs 60-digit elimination on jets (Jacobi formula), A V = V diag(lambda), V^T V = I, ascending lambda, in every part, within '
                '8..16 (n+1)(1+kappa) u Sum|terms| (32768 (n+1) (1 + max|lambda|/gap)^order u (Sum|terms| + total magnitude of the matrix); for the eigen-solver of nalgebra u is replaced by the relative residual it reaches on the plain-float real part when larger; for the eigen identities: derivative parts of eigenvectors scale with 1/gap); '
                'singular matrices must be reported as such')
