(* Hand/Bessel.v -- hand model of src/bessel.rs (trait BesselDual, generic in T : DualNum<f64> + Copy): control structure written by hand,
   every table, constant and numeric literal taken from gen/Gen_Bessel.v (regenerated from the source on every run).
   L_bessel_jN lists the numeric literals of function N in order of appearance; the comments name the one used. *)
From ND Require Import Overload Float Mat Opt Wire.
From NDgen Require Import Classes Gen_Bessel.
Local Open Scope rs_scope.

Section Bessel.
  Context {F T : Type} {dn : DN F T}.
  #[local] Instance flF_bessel : FL F := dn_fl (T:=T).
  Definition lk (l : list F) (k : nat) : F := nth k l (zero : F).

  (* coef.iter().skip(1).fold(T::from(coef[0]), |acc, &c| acc * x + c) *)
  Definition polevl (x : T) (coef : list F) : T :=
    match coef with
    | c0 :: r => fold_left (fun acc c => acc * x + c) r (ofF c0 : T)
    | nil => ofF (zero : F)            (* coef[0] would panic; no table is empty *)
    end.
  (* coef.iter().fold(T::one(), |acc, &c| acc * x + c) *)
  Definition p1evl (x : T) (coef : list F) : T := fold_left (fun acc c => acc * x + c) coef (one : T).

  Definition j0_small (z : T) : T :=
    (one : T) - z / lk L_bessel_j0 2 (* 4.0 *) + z * z / lk L_bessel_j0 3 (* 64.0 *) - z * z * z / lk L_bessel_j0 4 (* 2304.0 *).
  Definition j0_mid (z : T) : T := (z - (B_DR1 : F)) * (z - (B_DR2 : F)) * polevl z B_RP0 / p1evl z B_RQ0.
  Definition j0_asym (x : T) : T :=
    let w := m_recip x * lk L_bessel_j0 5 (* 5.0 *) in
    let q := w * w in
    let p := polevl q B_PP0 / polevl q B_PQ0 in
    let q' := polevl q B_QP0 / p1evl q B_QQ0 in
    let sc := m_sin_cos (x - (fl_const C_FRAC_PI_4 : F)) in
    let p' := p * snd sc - w * q' * fst sc in
    p' * m_sqrt ((ofF (fl_const C_FRAC_2_PI : F) : T) / x).
  Definition bessel_j0 (self : T) : T :=
    let x := if (m_is_negative self : bool) then - self else self in
    if ((m_re x : F) <=? lk L_bessel_j0 0 (* 5.0 *)) then
      let z := x * x in
      if ((m_re x : F) <? lk L_bessel_j0 1 (* 1.0e-5 *)) then j0_small z else j0_mid z
    else j0_asym x.

  Definition j1_mid (self : T) : T :=
    let z := self * self in
    polevl z B_RP1 / p1evl z B_RQ1 * self * (z - (B_Z1 : F)) * (z - (B_Z2 : F)).
  Definition j1_asym (self : T) : T :=
    let x := m_abs self in
    let w := m_recip x * lk L_bessel_j1 1 (* 5.0 *) in
    let z := w * w in
    let p := polevl z B_PP1 / polevl z B_PQ1 in
    let q := polevl z B_QP1 / p1evl z B_QQ1 in
    let sc := m_sin_cos (x - (lk L_bessel_j1 2 (* 3.0 *) * (fl_const C_FRAC_PI_4 : F) : F)) in
    let p' := p * snd sc - w * q * fst sc in
    m_signum self * p' * m_sqrt ((ofF (fl_const C_FRAC_2_PI : F) : T) / x).
  Definition bessel_j1 (self : T) : T :=
    let x := m_abs self in
    if ((m_re x : F) <=? lk L_bessel_j1 0 (* 5.0 *)) then j1_mid self else j1_asym self.

  Definition j2_series (self : T) : T :=
    let z := self * self in
    z / lk L_bessel_j2 1 (* 8.0 *) * polevl z B_SJ2.
  Definition j2_rec (self : T) : T := bessel_j1 self * lk L_bessel_j2 2 (* 2.0 *) / self - bessel_j0 self.
  Definition bessel_j2 (self : T) : T :=
    if (std_abs (m_re self : F) <? lk L_bessel_j2 0 (* 0.25 *)) then j2_series self else j2_rec self.
End Bessel.
