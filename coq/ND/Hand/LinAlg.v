(* Hand/LinAlg.v -- hand model of src/linalg.rs (LU with partial pivoting on the real part, solve, determinant, inverse, norm), generic in the
   number type.  Matrices are lists of rows; every loop of the Rust code is a fold over the same index range, every assignment a list update, so the
   sequence of arithmetic operations is the one of the implementation (the model is executed in Coq on binary64 against it). *)
From Coq Require Import List Arith.
From ND Require Import Overload Float Mat Opt Wire.
From NDgen Require Import Classes.
Import ListNotations.
Local Open Scope rs_scope.

Fixpoint upd {A} (l : list A) (i : nat) (v : A) : list A :=
  match l, i with
  | nil, _ => nil
  | _ :: r, O => v :: r
  | x :: r, S k => x :: upd r k v
  end.
Definition range (a b : nat) : list nat := seq a (b - a).

Section LinAlg.
  Context {F T : Type} {dn : DN F T}.
  #[local] Instance flF_la : FL F := dn_fl (T:=T).
  Definition vg (v : list T) (i : nat) : T := nth i v (zero : T).
  Definition mg (a : list (list T)) (i j : nat) : T := nth j (nth i a nil) (zero : T).
  Definition ms (a : list (list T)) (i j : nat) (v : T) : list (list T) := upd a i (upd (nth i a nil) j v).

  Record lu := mkLU { lu_a : list (list T); lu_p : list nat; lu_pc : nat }.

  (* for k in i..n { let abs_a = a[(k, i)].abs(); if abs_a.re() > max_a { max_a = abs_a.re(); imax = k; } } *)
  Definition pivot (a : list (list T)) (n i : nat) : F * nat :=
    fold_left (fun (st : F * nat) k => let abs_a := m_abs (mg a k i) in
                 if ((m_re abs_a : F) >? fst st) then ((m_re abs_a : F), k) else st) (range i n) ((zero : F), i).
  Definition eliminate (a : list (list T)) (n i : nat) : list (list T) :=
    fold_left (fun a j =>
      let a := ms a j i (mg a j i / mg a i i) in
      fold_left (fun a k => ms a j k (mg a j k - mg a j i * mg a i k)) (range (S i) n) a) (range (S i) n) a.
  Definition lu_step (st : option lu) (n i : nat) : option lu :=
    match st with
    | None => None
    | Some l =>
      let '(mx, imax) := pivot (lu_a l) n i in
      if nt_is_zero mx then None else
      let l' := if Nat.eqb imax i then l else
        let p := lu_p l in
        let pj := nth i p O in
        let p := upd (upd p i (nth imax p O)) imax pj in
        let a := lu_a l in
        let ri := nth i a nil in
        let rm := nth imax a nil in
        mkLU (upd (upd a i rm) imax ri) p (S (lu_pc l)) in
      Some (mkLU (eliminate (lu_a l') n i) (lu_p l') (lu_pc l'))
    end.
  Definition lu_new (a : list (list T)) : option lu :=
    let n := length a in
    fold_left (fun st i => lu_step st n i) (range 0 n) (Some (mkLU a (seq 0 n) n)).

  Definition sub_dot (a : list (list T)) (i : nat) (ks : list nat) (x : list T) : list T :=
    fold_left (fun x k => upd x i (vg x i - mg a i k * vg x k)) ks x.
  Definition lu_solve (l : lu) (b : list T) : list T :=
    let n := length b in
    let a := lu_a l in
    let x := repeat (zero : T) n in
    let x := fold_left (fun x i => sub_dot a i (range 0 i) (upd x i (vg b (nth i (lu_p l) O)))) (range 0 n) x in
    fold_left (fun x i => let x := sub_dot a i (range (S i) n) x in upd x i (vg x i / mg a i i)) (rev (range 0 n)) x.

  (* (0..n).map(|i| a[(i, i)]).product(): the left fold from one (C08); sign from the parity of the row exchanges *)
  Definition lu_det (l : lu) : T :=
    let n := length (lu_p l) in
    let det := fold_left (fun acc i => acc * mg (lu_a l) i i) (range 0 n) (one : T) in
    if Nat.eqb ((lu_pc l - n) mod 2) 0 then det else - det.

  Definition lu_inverse (l : lu) : list (list T) :=
    let n := length (lu_p l) in
    let a := lu_a l in
    let ia := repeat (repeat (zero : T) n) n in
    fold_left (fun ia j =>
      let ia := fold_left (fun ia i =>
                  let ia := ms ia i j (if Nat.eqb (nth i (lu_p l) O) j then (one : T) else (zero : T)) in
                  fold_left (fun ia k => ms ia i j (mg ia i j - mg a i k * mg ia k j)) (range 0 i) ia) (range 0 n) ia in
      fold_left (fun ia i =>
                  let ia := fold_left (fun ia k => ms ia i j (mg ia i j - mg a i k * mg ia k j)) (range (S i) n) ia in
                  ms ia i j (mg ia i j / mg a i i)) (rev (range 0 n)) ia) (range 0 n) ia.

  Definition norm (x : list T) : T := m_sqrt (fold_left (fun acc v => acc + v * v) x (zero : T)).
End LinAlg.
