#!/usr/bin/env python3
"""Reads /repo/src/bessel.rs and writes coq/gen/Gen_Bessel.v: every coefficient table and scalar constant of the file, and -- per function, in
order of appearance -- the numeric literals of bessel_j0 / bessel_j1 / bessel_j2, as literals of the float interface.  The control structure
of the three functions is modelled by hand in coq/ND/Hand/Bessel.v, which refers to these definitions only."""
import re, sys, struct, os
from fractions import Fraction
SRC = '/repo/src/bessel.rs'
OUT = os.environ.get('GEN_BESSEL_OUT') or os.path.dirname(os.path.abspath(__file__)) + '/../coq/gen/Gen_Bessel.v'


def bits64(x):
    return struct.unpack('<Q', struct.pack('<d', x))[0]


def bits32(x):
    try:
        return struct.unpack('<I', struct.pack('<f', x))[0]
    except OverflowError:
        return 0x7f800000 if x > 0 else 0xff800000


def rawflit(tok):
    t = tok.replace('_', '')
    q = Fraction(t)
    x = float(t)
    return '(FLit (%d # %d)%%Q %d %d)' % (q.numerator, q.denominator, bits64(x), bits32(x))


def flit(tok):
    return '(lit %s : F)' % rawflit(tok)


NUM = r'-?[0-9][0-9_]*\.[0-9_]*(?:[eE][-+]?[0-9]+)?|-?[0-9][0-9_]*[eE][-+]?[0-9]+'


def main():
    s = open(SRC).read().replace('\r\n', '\n')
    s = re.sub(r'//[^\n]*', '', s)
    raw = ['', '(* the same tables, constants and literals as raw literals (for the reified programs of Proofs/C14_prog.v) *)']
    out = ['(* gen/Gen_Bessel.v -- written by tools/gen_bessel.py from src/bessel.rs: tables, constants and the numeric literals of each function *)',
           'From Coq Require Import ZArith QArith List. Import ListNotations.', 'From ND Require Import Overload Float.', '',
           'Section Tables.', '  Context {F : Type} {flF : FL F}.']
    for m in re.finditer(r'const\s+(\w+)\s*:\s*f64\s*=\s*(%s)\s*;' % NUM, s):
        out.append('  Definition B_%s : F := %s.' % (m.group(1), flit(m.group(2))))
        raw.append('Definition BL_%s : flit := %s.' % (m.group(1), rawflit(m.group(2))))
    for m in re.finditer(r'const\s+(\w+)\s*:\s*\[f64;\s*(\d+)\]\s*=\s*\[([^\]]*)\]\s*;', s):
        toks = re.findall(NUM, m.group(3))
        if len(toks) != int(m.group(2)):
            sys.exit('gen_bessel: table %s has %d entries, declared %s' % (m.group(1), len(toks), m.group(2)))
        out.append('  Definition B_%s : list F := [%s].' % (m.group(1), ';\n    '.join(flit(t) for t in toks)))
        raw.append('Definition BL_%s : list flit := [%s].' % (m.group(1), ';\n  '.join(rawflit(t) for t in toks)))
    # literals per function
    fns = list(re.finditer(r'fn\s+(bessel_j[012])\s*\(', s))
    for i, m in enumerate(fns):
        end = fns[i + 1].start() if i + 1 < len(fns) else s.index('impl<', m.end())
        body = s[m.end():end]
        toks = re.findall(NUM, body)
        out.append('  Definition L_%s : list F := [%s].' % (m.group(1), '; '.join(flit(t) for t in toks)))
        raw.append('Definition LL_%s : list flit := [%s].' % (m.group(1), '; '.join(rawflit(t) for t in toks)))
        # the identifiers used in the body, as a comment, so that a reader sees what the hand model must mention
        ids = sorted(set(re.findall(r'\b([A-Z][A-Z0-9_]+)\b', body)) - {'F'})
        out.append('  (* %s mentions: %s *)' % (m.group(1), ' '.join(ids)))
    out.append('End Tables.')
    out += raw
    txt = '\n'.join(out) + '\n'
    if not os.path.exists(OUT) or open(OUT).read() != txt:
        open(OUT, 'w').write(txt)


if __name__ == '__main__':
    main()
