(* Proofs/C02_proofs.v -- arithmetic of every dual number type is the truncated Taylor algebra.
   All statements are about the GENERATED model (gen/), read over the reals. *)
From ND Require Import Tactics.
Local Open Scope R_scope.

Section Statements.
  Context {L X : Type} (part : X -> @block L -> R).
  Definition mul_is_leibniz (mul : X -> X -> X) (idx : list (@block L)) : Prop :=
    forall a b S, In S idx -> part (mul a b) S = leibniz (part a) (part b) S.
  (* the quotient is the unique jet q with q * b = a *)
  Definition div_is_quotient (div : X -> X -> X) (idx : list (@block L)) : Prop :=
    forall a b S, part b [] <> 0 -> In S idx -> leibniz (part (div a b)) (part b) S = part a S.
  Definition linear_ops (add sub : X -> X -> X) (neg : X -> X) (idx : list (@block L)) : Prop :=
    forall a b S, In S idx ->
      part (add a b) S = part a S + part b S /\ part (sub a b) S = part a S - part b S /\ part (neg a) S = - part a S.
End Statements.

Local Open Scope rs_scope.
Local Notation "a +r b" := (Rplus a b) (at level 50).

(* ---------------- scalar types ---------------- *)
Lemma mul_Dual : mul_is_leibniz part_Dual (fun a b : Dual R => a * b) idx_Dual.
Proof. intros [] [] S H; each_block H jet_ring. Qed.
Lemma mul_Dual2 : mul_is_leibniz part_Dual2 (fun a b : Dual2 R => a * b) idx_Dual2.
Proof. intros [] [] S H; each_block H jet_ring. Qed.
Lemma mul_Dual3 : mul_is_leibniz part_Dual3 (fun a b : Dual3 R => a * b) idx_Dual3.
Proof. intros [] [] S H; each_block H jet_ring. Qed.
Lemma mul_HyperDual : mul_is_leibniz part_HyperDual (fun a b : HyperDual R => a * b) idx_HyperDual.
Proof. intros [] [] S H; each_block H jet_ring. Qed.
Lemma mul_HHD : mul_is_leibniz part_HHD (fun a b : HyperHyperDual R => a * b) idx_HHD.
Proof. intros [] [] S H; each_block H jet_ring. Qed.

Lemma div_Dual : div_is_quotient part_Dual (fun a b : Dual R => a / b) idx_Dual.
Proof. intros [] [] S Hr H; simpl in Hr; each_block H jet_field. Qed.
Lemma div_Dual2 : div_is_quotient part_Dual2 (fun a b : Dual2 R => a / b) idx_Dual2.
Proof. intros [] [] S Hr H; simpl in Hr; each_block H jet_field. Qed.
Lemma div_Dual3 : div_is_quotient part_Dual3 (fun a b : Dual3 R => a / b) idx_Dual3.
Proof. intros [] [] S Hr H; simpl in Hr; each_block H jet_field. Qed.
Lemma div_HyperDual : div_is_quotient part_HyperDual (fun a b : HyperDual R => a / b) idx_HyperDual.
Proof. intros [] [] S Hr H; simpl in Hr; each_block H jet_field. Qed.
Lemma div_HHD : div_is_quotient part_HHD (fun a b : HyperHyperDual R => a / b) idx_HHD.
Proof. intros [] [] S Hr H; simpl in Hr; each_block H jet_field. Qed.

Ltac lin := rcbv; repeat split; ring.
Lemma lin_Dual : linear_ops part_Dual (fun a b : Dual R => a + b) (fun a b => a - b) (fun a => - a) idx_Dual.
Proof. intros [] [] S H; each_block H lin. Qed.
Lemma lin_Dual2 : linear_ops part_Dual2 (fun a b : Dual2 R => a + b) (fun a b => a - b) (fun a => - a) idx_Dual2.
Proof. intros [] [] S H; each_block H lin. Qed.
Lemma lin_Dual3 : linear_ops part_Dual3 (fun a b : Dual3 R => a + b) (fun a b => a - b) (fun a => - a) idx_Dual3.
Proof. intros [] [] S H; each_block H lin. Qed.
Lemma lin_HyperDual : linear_ops part_HyperDual (fun a b : HyperDual R => a + b) (fun a b => a - b) (fun a => - a) idx_HyperDual.
Proof. intros [] [] S H; each_block H lin. Qed.
Lemma lin_HHD : linear_ops part_HHD (fun a b : HyperHyperDual R => a + b) (fun a b => a - b) (fun a => - a) idx_HHD.
Proof. intros [] [] S H; each_block H lin. Qed.

(* ---------------- vector types: every dimension, every presence pattern ---------------- *)
Ltac dvec x := destruct x as [? [[?|]]].
Lemma mul_DualVec i : mul_is_leibniz part_DualVec (fun a b : DualVec R => a * b) (idx_DualVec i).
Proof. intros a b S H; dvec a; dvec b; dmat; each_block H jet_ring. Qed.
Lemma div_DualVec i : div_is_quotient part_DualVec (fun a b : DualVec R => a / b) (idx_DualVec i).
Proof. intros a b S Hr H; dvec a; dvec b; dmat; simpl in Hr; each_block H jet_field. Qed.
Lemma lin_DualVec i : linear_ops part_DualVec (fun a b : DualVec R => a + b) (fun a b => a - b) (fun a => - a) (idx_DualVec i).
Proof. intros a b S H; dvec a; dvec b; dmat; each_block H lin. Qed.

Ltac d2vec x := destruct x as [? [[?|]] [[?|]]].
Lemma mul_Dual2Vec i j a b : wf_Dual2Vec a -> wf_Dual2Vec b -> forall S, In S (idx_Dual2Vec i j) ->
  part_Dual2Vec (a * b) S = leibniz (part_Dual2Vec a) (part_Dual2Vec b) S.
Proof. d2vec a; d2vec b; dmat; unfold wf_Dual2Vec, wf_row; simpl; intros Ha Hb S H; subst; each_block H jet_ring. Qed.
Lemma div_Dual2Vec i j a b : wf_Dual2Vec a -> wf_Dual2Vec b -> Dual2Vec_f_re b <> 0%R -> forall S, In S (idx_Dual2Vec i j) ->
  leibniz (part_Dual2Vec (a / b)) (part_Dual2Vec b) S = part_Dual2Vec a S.
Proof. d2vec a; d2vec b; dmat; unfold wf_Dual2Vec, wf_row; simpl; intros Ha Hb Hr S H; subst; each_block H jet_field. Qed.
Lemma lin_Dual2Vec i j : linear_ops part_Dual2Vec (fun a b : Dual2Vec R => a + b) (fun a b => a - b) (fun a => - a) (idx_Dual2Vec i j).
Proof. intros a b S H; d2vec a; d2vec b; dmat; each_block H lin. Qed.
(* the product keeps the row shape, so the premise of the two lemmas above is an invariant *)
Lemma wf_Dual2Vec_mul a b : wf_Dual2Vec a -> wf_Dual2Vec b -> wf_Dual2Vec (a * b).
Proof. d2vec a; d2vec b; dmat; unfold wf_Dual2Vec, wf_row; simpl; intros; subst; reflexivity || exact I. Qed.

Ltac dhvec x := destruct x as [? [[?|]] [[?|]] [[?|]]].
Lemma mul_HyperDualVec i j a b : wf_HyperDualVec a -> wf_HyperDualVec b -> forall S, In S (idx_HyperDualVec i j) ->
  part_HyperDualVec (a * b) S = leibniz (part_HyperDualVec a) (part_HyperDualVec b) S.
Proof. dhvec a; dhvec b; dmat; unfold wf_HyperDualVec, wf_col; simpl; intros Ha Hb S H; subst; each_block H jet_ring. Qed.
Lemma div_HyperDualVec i j a b : wf_HyperDualVec a -> wf_HyperDualVec b -> HyperDualVec_f_re b <> 0%R -> forall S, In S (idx_HyperDualVec i j) ->
  leibniz (part_HyperDualVec (a / b)) (part_HyperDualVec b) S = part_HyperDualVec a S.
Proof. dhvec a; dhvec b; dmat; unfold wf_HyperDualVec, wf_col; simpl; intros Ha Hb Hr S H; subst; each_block H jet_field. Qed.
Lemma lin_HyperDualVec i j : linear_ops part_HyperDualVec (fun a b : HyperDualVec R => a + b) (fun a b => a - b) (fun a => - a) (idx_HyperDualVec i j).
Proof. intros a b S H; dhvec a; dhvec b; dmat; each_block H lin. Qed.
Lemma wf_HyperDualVec_mul a b : wf_HyperDualVec a -> wf_HyperDualVec b -> wf_HyperDualVec (a * b).
Proof. dhvec a; dhvec b; dmat; unfold wf_HyperDualVec, wf_col; simpl; intros; subst; reflexivity || exact I. Qed.
