(* Proofs/C15_faa.v -- written by tools/coqgen/gen_c15.py: on both branches, every part of every type is Faa di Bruno of the
   coefficient tower of the branch taken at the real part (C15_proofs.v identifies those towers). *)
From ND Require Import Tactics C01_towers C01_faa C09_proofs C15_proofs.
Local Open Scope R_scope.
Ltac sph_tac := rcbv; unfold Rltb;
  match goal with |- context [Rlt_dec (Rabs ?a) ?e] =>
    destruct (Rlt_dec (Rabs a) e) as [Hs|Hc];
    [ rcbv; first [ring | field; side]
    | assert (a <> 0) by (apply not_small_nz; exact Hc); rcbv; field; side ] end.

Lemma faa_Dual_sph_j0 : forall (x : Dual R), forall S, In S idx_Dual ->
  part_Dual (m_sph_j0 x) S = faa (tw3 m_sph_j0 (Dual_f_re x)) (part_Dual x) S.
Proof. intros  x  S H; destruct x as [r ?]; each_block H sph_tac. Qed.
Lemma faa_Dual_sph_j1 : forall (x : Dual R), forall S, In S idx_Dual ->
  part_Dual (m_sph_j1 x) S = faa (tw3 m_sph_j1 (Dual_f_re x)) (part_Dual x) S.
Proof. intros  x  S H; destruct x as [r ?]; each_block H sph_tac. Qed.
Lemma faa_Dual_sph_j2 : forall (x : Dual R), forall S, In S idx_Dual ->
  part_Dual (m_sph_j2 x) S = faa (tw3 m_sph_j2 (Dual_f_re x)) (part_Dual x) S.
Proof. intros  x  S H; destruct x as [r ?]; each_block H sph_tac. Qed.
Lemma faa_Dual2_sph_j0 : forall (x : Dual2 R), forall S, In S idx_Dual2 ->
  part_Dual2 (m_sph_j0 x) S = faa (tw3 m_sph_j0 (Dual2_f_re x)) (part_Dual2 x) S.
Proof. intros  x  S H; destruct x as [r ? ?]; each_block H sph_tac. Qed.
Lemma faa_Dual2_sph_j1 : forall (x : Dual2 R), forall S, In S idx_Dual2 ->
  part_Dual2 (m_sph_j1 x) S = faa (tw3 m_sph_j1 (Dual2_f_re x)) (part_Dual2 x) S.
Proof. intros  x  S H; destruct x as [r ? ?]; each_block H sph_tac. Qed.
Lemma faa_Dual2_sph_j2 : forall (x : Dual2 R), forall S, In S idx_Dual2 ->
  part_Dual2 (m_sph_j2 x) S = faa (tw3 m_sph_j2 (Dual2_f_re x)) (part_Dual2 x) S.
Proof. intros  x  S H; destruct x as [r ? ?]; each_block H sph_tac. Qed.
Lemma faa_Dual3_sph_j0 : forall (x : Dual3 R), forall S, In S idx_Dual3 ->
  part_Dual3 (m_sph_j0 x) S = faa (tw3 m_sph_j0 (Dual3_f_re x)) (part_Dual3 x) S.
Proof. intros  x  S H; destruct x as [r ? ? ?]; each_block H sph_tac. Qed.
Lemma faa_Dual3_sph_j1 : forall (x : Dual3 R), forall S, In S idx_Dual3 ->
  part_Dual3 (m_sph_j1 x) S = faa (tw3 m_sph_j1 (Dual3_f_re x)) (part_Dual3 x) S.
Proof. intros  x  S H; destruct x as [r ? ? ?]; each_block H sph_tac. Qed.
Lemma faa_Dual3_sph_j2 : forall (x : Dual3 R), forall S, In S idx_Dual3 ->
  part_Dual3 (m_sph_j2 x) S = faa (tw3 m_sph_j2 (Dual3_f_re x)) (part_Dual3 x) S.
Proof. intros  x  S H; destruct x as [r ? ? ?]; each_block H sph_tac. Qed.
Lemma faa_HyperDual_sph_j0 : forall (x : HyperDual R), forall S, In S idx_HyperDual ->
  part_HyperDual (m_sph_j0 x) S = faa (tw3 m_sph_j0 (HyperDual_f_re x)) (part_HyperDual x) S.
Proof. intros  x  S H; destruct x as [r ? ? ?]; each_block H sph_tac. Qed.
Lemma faa_HyperDual_sph_j1 : forall (x : HyperDual R), forall S, In S idx_HyperDual ->
  part_HyperDual (m_sph_j1 x) S = faa (tw3 m_sph_j1 (HyperDual_f_re x)) (part_HyperDual x) S.
Proof. intros  x  S H; destruct x as [r ? ? ?]; each_block H sph_tac. Qed.
Lemma faa_HyperDual_sph_j2 : forall (x : HyperDual R), forall S, In S idx_HyperDual ->
  part_HyperDual (m_sph_j2 x) S = faa (tw3 m_sph_j2 (HyperDual_f_re x)) (part_HyperDual x) S.
Proof. intros  x  S H; destruct x as [r ? ? ?]; each_block H sph_tac. Qed.
Lemma faa_HyperHyperDual_sph_j0 : forall (x : HyperHyperDual R), forall S, In S idx_HHD ->
  part_HHD (m_sph_j0 x) S = faa (tw3 m_sph_j0 (HyperHyperDual_f_re x)) (part_HHD x) S.
Proof. intros  x  S H; destruct x as [r ? ? ? ? ? ? ?]; each_block H sph_tac. Qed.
Lemma faa_HyperHyperDual_sph_j1 : forall (x : HyperHyperDual R), forall S, In S idx_HHD ->
  part_HHD (m_sph_j1 x) S = faa (tw3 m_sph_j1 (HyperHyperDual_f_re x)) (part_HHD x) S.
Proof. intros  x  S H; destruct x as [r ? ? ? ? ? ? ?]; each_block H sph_tac. Qed.
Lemma faa_HyperHyperDual_sph_j2 : forall (x : HyperHyperDual R), forall S, In S idx_HHD ->
  part_HHD (m_sph_j2 x) S = faa (tw3 m_sph_j2 (HyperHyperDual_f_re x)) (part_HHD x) S.
Proof. intros  x  S H; destruct x as [r ? ? ? ? ? ? ?]; each_block H sph_tac. Qed.
Lemma faa_DualVec_sph_j0 : forall i, forall (x : DualVec R), forall S, In S (idx_DualVec i) ->
  part_DualVec (m_sph_j0 x) S = faa (tw3 m_sph_j0 (DualVec_f_re x)) (part_DualVec x) S.
Proof. intros i x  S H; destruct x as [r [[?|]]]; dmat; each_block H sph_tac. Qed.
Lemma faa_DualVec_sph_j1 : forall i, forall (x : DualVec R), forall S, In S (idx_DualVec i) ->
  part_DualVec (m_sph_j1 x) S = faa (tw3 m_sph_j1 (DualVec_f_re x)) (part_DualVec x) S.
Proof. intros i x  S H; destruct x as [r [[?|]]]; dmat; each_block H sph_tac. Qed.
Lemma faa_DualVec_sph_j2 : forall i, forall (x : DualVec R), forall S, In S (idx_DualVec i) ->
  part_DualVec (m_sph_j2 x) S = faa (tw3 m_sph_j2 (DualVec_f_re x)) (part_DualVec x) S.
Proof. intros i x  S H; destruct x as [r [[?|]]]; dmat; each_block H sph_tac. Qed.
Lemma faa_Dual2Vec_sph_j0 : forall i j, forall (x : Dual2Vec R), wf_Dual2Vec x -> forall S, In S (idx_Dual2Vec i j) ->
  part_Dual2Vec (m_sph_j0 x) S = faa (tw3 m_sph_j0 (Dual2Vec_f_re x)) (part_Dual2Vec x) S.
Proof. intros i j x Hwf S H; destruct x as [r [[?|]] [[?|]]]; dmat; unfold wf_Dual2Vec, wf_row in Hwf; simpl in Hwf; subst; each_block H sph_tac. Qed.
Lemma faa_Dual2Vec_sph_j1 : forall i j, forall (x : Dual2Vec R), wf_Dual2Vec x -> forall S, In S (idx_Dual2Vec i j) ->
  part_Dual2Vec (m_sph_j1 x) S = faa (tw3 m_sph_j1 (Dual2Vec_f_re x)) (part_Dual2Vec x) S.
Proof. intros i j x Hwf S H; destruct x as [r [[?|]] [[?|]]]; dmat; unfold wf_Dual2Vec, wf_row in Hwf; simpl in Hwf; subst; each_block H sph_tac. Qed.
Lemma faa_Dual2Vec_sph_j2 : forall i j, forall (x : Dual2Vec R), wf_Dual2Vec x -> forall S, In S (idx_Dual2Vec i j) ->
  part_Dual2Vec (m_sph_j2 x) S = faa (tw3 m_sph_j2 (Dual2Vec_f_re x)) (part_Dual2Vec x) S.
Proof. intros i j x Hwf S H; destruct x as [r [[?|]] [[?|]]]; dmat; unfold wf_Dual2Vec, wf_row in Hwf; simpl in Hwf; subst; each_block H sph_tac. Qed.
Lemma faa_HyperDualVec_sph_j0 : forall i j, forall (x : HyperDualVec R), wf_HyperDualVec x -> forall S, In S (idx_HyperDualVec i j) ->
  part_HyperDualVec (m_sph_j0 x) S = faa (tw3 m_sph_j0 (HyperDualVec_f_re x)) (part_HyperDualVec x) S.
Proof. intros i j x Hwf S H; destruct x as [r [[?|]] [[?|]] [[?|]]]; dmat; unfold wf_HyperDualVec, wf_col in Hwf; simpl in Hwf; subst; each_block H sph_tac. Qed.
Lemma faa_HyperDualVec_sph_j1 : forall i j, forall (x : HyperDualVec R), wf_HyperDualVec x -> forall S, In S (idx_HyperDualVec i j) ->
  part_HyperDualVec (m_sph_j1 x) S = faa (tw3 m_sph_j1 (HyperDualVec_f_re x)) (part_HyperDualVec x) S.
Proof. intros i j x Hwf S H; destruct x as [r [[?|]] [[?|]] [[?|]]]; dmat; unfold wf_HyperDualVec, wf_col in Hwf; simpl in Hwf; subst; each_block H sph_tac. Qed.
Lemma faa_HyperDualVec_sph_j2 : forall i j, forall (x : HyperDualVec R), wf_HyperDualVec x -> forall S, In S (idx_HyperDualVec i j) ->
  part_HyperDualVec (m_sph_j2 x) S = faa (tw3 m_sph_j2 (HyperDualVec_f_re x)) (part_HyperDualVec x) S.
Proof. intros i j x Hwf S H; destruct x as [r [[?|]] [[?|]] [[?|]]]; dmat; unfold wf_HyperDualVec, wf_col in Hwf; simpl in Hwf; subst; each_block H sph_tac. Qed.
