"""C03 -- arbitrary programs of generic operations are differentiated correctly."""
from fractions import Fraction
import mpmath
from mpmath import mpf
import vlib, pyjet, genvals, genprog
from vlib import Case
from props.base import BaseProp, Violation

U = {64: 2.0 ** -53, 32: 2.0 ** -24}


def gen_program_case(rng, cid, ty, rational=False, max_depth=4, libm_limit=None):
    """a random program with a point in its (margined) joint domain and input values of the type with arbitrary derivative parts"""
    w = ty.leaf().width
    for attempt in range(200):
        nv = 1 + rng.below(3)
        depth = 2 + rng.below(max_depth - 1)
        code = genprog.gen(rng, nv, depth, rational=rational)
        if genprog.size(code) < 2:
            continue
        if libm_limit is not None and genprog.libm_depth(code) > libm_limit:
            continue
        for _ in range(6):
            if rational:
                xs = [(rng.below(17) - 8) / 4.0 for _ in range(nv)]
            else:
                xs = [rng.choice([rng.uniform(-2, 2), rng.uniform(0.1, 1.5), (rng.below(33) - 16) / 8.0]) for _ in range(nv)]
            if w == 32:
                xs = [vlib.b2f32(vlib.f2b32(x)) for x in xs]
            if genprog.real_eval(code, xs) is None:
                continue
            leaf = (lambda r: (r.below(9) - 4) / 2.0) if rational else genvals.leaf_rand
            args = [genvals.gen_value(rng, ty, leaf, re_leaf=(lambda r, x=x: x)) for x in xs]
            return Case(cid, ty, 'prog%d' % nv, args, [tuple(code)], tag='exact' if rational else 'dom')
    raise vlib.InfraError('program generator found no program in 200 attempts')


def reference(case, exact=False):
    """-> EJ (reference jet and error bounds) or None when the high-precision evaluation leaves the margined domain"""
    w = case.ty.leaf().width
    if exact:
        conv = lambda b: pyjet.frac_of_bits(b, w)
        cc = lambda c: Fraction(c)
        u = Fraction(0)
    else:
        conv = lambda b: pyjet.mpf_of_bits(b, w)
        cc = lambda c: mpf(c)
        u = mpf(U[w])
    env = [pyjet.ej_exact(pyjet.jet_of_value(a, case.ty, conv)) for a in case.args]
    limit = [True]

    def on_value(r):
        if exact:
            # every part of every intermediate value is a small dyadic rational: at most 11 significant bits, so that products of up to four
            # parts and sums of up to fifteen such products are exact in binary64 (binary32: 5 bits)
            bits = 11 if w == 64 else 4
            for S in r.fam:
                q = r.val[S]
                if q.denominator & (q.denominator - 1):
                    limit[0] = False
                elif abs(q.numerator) >= 1 << bits:
                    limit[0] = False
    try:
        r = pyjet.prog_eval(list(case.aux[0]), env, u, cc, on_value=on_value)
    except pyjet.DomainError:
        return None
    if exact:
        for e in env:
            on_value(e)
        if not limit[0]:
            return None
    return r


class Prop(BaseProp):
    coq_targets = ['ND/Proofs/Agree.vo', 'ND/Proofs/C04_inst.vo', 'ND/Proofs/C04_proofs.vo', 'ND/Proofs/C04_nested.vo', 'ND/Proofs/C03_proofs.vo', 'ND/Proofs/C03_second.vo', 'ND/Proofs/C03_third.vo', 'ND/Proofs/C03_mixed.vo', 'ND/Proofs/C03_mixed3.vo', 'ND/Proofs/C03_unique.vo']
    extra_model_targets = ['ND/Hand/Prog.vo']
    extra_imports = 'From ND Require Import Prog.'
    model_shard, model_rounds = 32, 12
    n_quick, n_thorough = 360, 6000

    def cases(self, rng, n, for_model=True):
        tys = genvals.type_list(self.tier, include32=True)
        out = []
        k = 0
        while len(out) < n:
            ty = tys[k % len(tys)]
            k += 1
            rational = (k % 4 == 0)
            # keep chains of library calls short: each link is one more evaluation round of the Coq model
            out.append(gen_program_case(rng, 'c%d' % len(out), ty, rational=rational, max_depth=4, libm_limit=3))
        return out

    def search_cases(self, rng, n):
        tys = genvals.type_list('thorough', include32=True)
        out = []
        while len(out) < n:
            ty = tys[len(out) % len(tys)]
            out.append(gen_program_case(rng, 's%d' % len(out), ty, rational=(len(out) % 5 == 0), max_depth=5))
        return out

    def oracle(self, case, impl):
        st = self.cov.setdefault('oracle_stream', {'exact_equality': 0, 'error_bound': 0, 'skipped_outside_margined_domain': 0, 'max_error_over_bound': 0.0})
        code = list(case.aux[0])
        nv = len(case.args)
        text = pyjet.prog_str(code, nv)
        if impl == 'panic':
            return Violation('counterexample', 'program %s on %s panics' % (text, case.ty), case=case, obtained='panic')
        w = case.ty.leaf().width
        if case.tag == 'exact':
            ref = reference(case, exact=True)
            if ref is not None:
                for S in ref.fam:
                    b = pyjet.part_bits(impl, case.ty, S)
                    got = pyjet.frac_of_bits(b, w) if b != vlib.NAN else None
                    if got != ref.val[S]:
                        return Violation('counterexample', 'program %s on %s (all parts small dyadic rationals, no rounding possible): part %s = %s, exact value %s' % (
                            text, case.ty, S, got, ref.val[S]), case=case, expected=str(ref.val[S]), obtained=str(got), detail={'block': str(S), 'program': text})
                st['exact_equality'] += 1
                return None
        ref = reference(case)
        if ref is None:
            st['skipped_outside_margined_domain'] += 1
            return None
        st['error_bound'] += 1
        conv = lambda b: pyjet.mpf_of_bits(b, w)
        for S in ref.fam:
            b = pyjet.part_bits(impl, case.ty, S)
            want = ref.val[S]
            if b == vlib.NAN:
                return Violation('counterexample', 'program %s on %s: part %s is NaN, true value %s' % (text, case.ty, S, mpmath.nstr(want, 12)),
                                 case=case, expected=mpmath.nstr(want, 20), obtained='NaN', detail={'program': text})
            got = conv(b)
            tol = 2 * ref.err[S] + mpf(10) ** -290
            if w == 32:
                tol += mpf(2) ** -140
            if ref.err[S] > 0:
                st['max_error_over_bound'] = max(st['max_error_over_bound'], float(abs(got - want) / ref.err[S]))
            if abs(got - want) > tol:
                return Violation('counterexample', 'program %s on %s: part %s = %s, the derivative of the real function is %s (first-order rounding-error bound %s)' % (
                    text, case.ty, S, mpmath.nstr(got, 17), mpmath.nstr(want, 17), mpmath.nstr(ref.err[S], 4)),
                    case=case, expected=mpmath.nstr(want, 25), obtained=mpmath.nstr(got, 25), detail={'block': str(S), 'tolerance': mpmath.nstr(tol, 6), 'program': text})
        return None

    def nontrivial(self, case, impl):
        if impl == 'panic':
            return False
        lv = vlib.leaves(impl, case.ty)
        return any(x not in (0, vlib.NAN) for x in lv[1:])

    def rule_text(self):
        return ('random programs over Hand/Prog.v (variables, integer constants, 23 unary operations, + - * / with dual and scalar right operands, powi, let '
                'with sharing; depth <= 4 quick / 5 search, 1..3 inputs) x every type of the tier matrix; points drawn until every intermediate real value '
                'lies inside the (margined) domain; input derivative parts independent from {0, +-1, small, large, uniform}, optional parts present with '
                'probability 2/3.  Correspondence: the SAME program evaluated by Prog.eval over the translated model inside Coq (binary64, libm through the '
                'oracle table) must equal the implementation bit for bit.  Oracle on the implementation: reference jets (general Leibniz / set-partition '
                'Faa di Bruno over 60-digit towers) with the first-order running error bound propagated through the same jet algebra on absolute values '
                '(tolerance 2 x bound, local constant 64 u Sum|terms| per operation); every fourth case is a rational program on a dyadic grid whose '
                'parts keep <= 11 significant bits, decided by exact equality with Fractions.  Distinct by (type, program, operand bits); non-trivial = no '
                'panic and a non-zero derivative part')
