(* Proofs/C06_proofs.v -- written by tools/coqgen/gen_c06.py.
   The real part is transparent: for EVERY interpretation of the scalar interface (abstract F, T with any DN instance --
   reals, binary64, a nested dual type ...) the real part of each result is a function of the operands' real parts alone,
   and for the directly forwarded operations it is literally the inner number's own operation.  Because the statements
   are proved for an arbitrary instance, "not a single bit changes" is meant literally, and they hold at every nesting level. *)
From ND Require Import Overload Float Mat Opt.
From NDgen Require Import Classes Gen_Float Gen_Derivative Gen_Dual Gen_Dual2 Gen_Dual3 Gen_HyperDual Gen_HyperHyperDual Gen_DualVec Gen_Dual2Vec Gen_HyperDualVec.
Local Open Scope rs_scope.

Set Default Timeout 30.
Ltac re_solve := try reflexivity; cbv;
  repeat (match goal with |- context [match ?p with pair _ _ => _ end] =>
     lazymatch p with context [match _ with pair _ _ => _ end] => fail | _ => destruct p end end; cbv);
  repeat match goal with |- context [match ?z with Z0 => _ | Zpos _ => _ | Zneg _ => _ end] => destruct z end;
  repeat match goal with |- context [match ?z with xH => _ | xO _ => _ | xI _ => _ end] => destruct z end;
  repeat match goal with |- context [if ?c then _ else _] => destruct c end; reflexivity.

Section C06.
Context {F T : Type} {dnFT : DN F T} {ordT : DNOrd T}.

Lemma re_only_Dual_recip : forall x x' : Dual T, Dual_f_re x = Dual_f_re x' -> Dual_f_re (m_recip x) = Dual_f_re (m_recip x').
Proof. intros x x' H; destruct x, x'; simpl in H; subst; re_solve. Qed.
Lemma re_only_Dual_sqrt : forall x x' : Dual T, Dual_f_re x = Dual_f_re x' -> Dual_f_re (m_sqrt x) = Dual_f_re (m_sqrt x').
Proof. intros x x' H; destruct x, x'; simpl in H; subst; re_solve. Qed.
Lemma re_only_Dual_cbrt : forall x x' : Dual T, Dual_f_re x = Dual_f_re x' -> Dual_f_re (m_cbrt x) = Dual_f_re (m_cbrt x').
Proof. intros x x' H; destruct x, x'; simpl in H; subst; re_solve. Qed.
Lemma re_only_Dual_exp : forall x x' : Dual T, Dual_f_re x = Dual_f_re x' -> Dual_f_re (m_exp x) = Dual_f_re (m_exp x').
Proof. intros x x' H; destruct x, x'; simpl in H; subst; re_solve. Qed.
Lemma re_only_Dual_exp2 : forall x x' : Dual T, Dual_f_re x = Dual_f_re x' -> Dual_f_re (m_exp2 x) = Dual_f_re (m_exp2 x').
Proof. intros x x' H; destruct x, x'; simpl in H; subst; re_solve. Qed.
Lemma re_only_Dual_exp_m1 : forall x x' : Dual T, Dual_f_re x = Dual_f_re x' -> Dual_f_re (m_exp_m1 x) = Dual_f_re (m_exp_m1 x').
Proof. intros x x' H; destruct x, x'; simpl in H; subst; re_solve. Qed.
Lemma re_only_Dual_ln : forall x x' : Dual T, Dual_f_re x = Dual_f_re x' -> Dual_f_re (m_ln x) = Dual_f_re (m_ln x').
Proof. intros x x' H; destruct x, x'; simpl in H; subst; re_solve. Qed.
Lemma re_only_Dual_log2 : forall x x' : Dual T, Dual_f_re x = Dual_f_re x' -> Dual_f_re (m_log2 x) = Dual_f_re (m_log2 x').
Proof. intros x x' H; destruct x, x'; simpl in H; subst; re_solve. Qed.
Lemma re_only_Dual_log10 : forall x x' : Dual T, Dual_f_re x = Dual_f_re x' -> Dual_f_re (m_log10 x) = Dual_f_re (m_log10 x').
Proof. intros x x' H; destruct x, x'; simpl in H; subst; re_solve. Qed.
Lemma re_only_Dual_ln_1p : forall x x' : Dual T, Dual_f_re x = Dual_f_re x' -> Dual_f_re (m_ln_1p x) = Dual_f_re (m_ln_1p x').
Proof. intros x x' H; destruct x, x'; simpl in H; subst; re_solve. Qed.
Lemma re_only_Dual_sin : forall x x' : Dual T, Dual_f_re x = Dual_f_re x' -> Dual_f_re (m_sin x) = Dual_f_re (m_sin x').
Proof. intros x x' H; destruct x, x'; simpl in H; subst; re_solve. Qed.
Lemma re_only_Dual_cos : forall x x' : Dual T, Dual_f_re x = Dual_f_re x' -> Dual_f_re (m_cos x) = Dual_f_re (m_cos x').
Proof. intros x x' H; destruct x, x'; simpl in H; subst; re_solve. Qed.
Lemma re_only_Dual_asin : forall x x' : Dual T, Dual_f_re x = Dual_f_re x' -> Dual_f_re (m_asin x) = Dual_f_re (m_asin x').
Proof. intros x x' H; destruct x, x'; simpl in H; subst; re_solve. Qed.
Lemma re_only_Dual_acos : forall x x' : Dual T, Dual_f_re x = Dual_f_re x' -> Dual_f_re (m_acos x) = Dual_f_re (m_acos x').
Proof. intros x x' H; destruct x, x'; simpl in H; subst; re_solve. Qed.
Lemma re_only_Dual_atan : forall x x' : Dual T, Dual_f_re x = Dual_f_re x' -> Dual_f_re (m_atan x) = Dual_f_re (m_atan x').
Proof. intros x x' H; destruct x, x'; simpl in H; subst; re_solve. Qed.
Lemma re_only_Dual_sinh : forall x x' : Dual T, Dual_f_re x = Dual_f_re x' -> Dual_f_re (m_sinh x) = Dual_f_re (m_sinh x').
Proof. intros x x' H; destruct x, x'; simpl in H; subst; re_solve. Qed.
Lemma re_only_Dual_cosh : forall x x' : Dual T, Dual_f_re x = Dual_f_re x' -> Dual_f_re (m_cosh x) = Dual_f_re (m_cosh x').
Proof. intros x x' H; destruct x, x'; simpl in H; subst; re_solve. Qed.
Lemma re_only_Dual_asinh : forall x x' : Dual T, Dual_f_re x = Dual_f_re x' -> Dual_f_re (m_asinh x) = Dual_f_re (m_asinh x').
Proof. intros x x' H; destruct x, x'; simpl in H; subst; re_solve. Qed.
Lemma re_only_Dual_acosh : forall x x' : Dual T, Dual_f_re x = Dual_f_re x' -> Dual_f_re (m_acosh x) = Dual_f_re (m_acosh x').
Proof. intros x x' H; destruct x, x'; simpl in H; subst; re_solve. Qed.
Lemma re_only_Dual_atanh : forall x x' : Dual T, Dual_f_re x = Dual_f_re x' -> Dual_f_re (m_atanh x) = Dual_f_re (m_atanh x').
Proof. intros x x' H; destruct x, x'; simpl in H; subst; re_solve. Qed.
Lemma re_only_Dual_tan : forall x x' : Dual T, Dual_f_re x = Dual_f_re x' -> Dual_f_re (m_tan x) = Dual_f_re (m_tan x').
Proof. intros x x' H; destruct x, x'; simpl in H; subst; re_solve. Qed.
Lemma re_only_Dual_tanh : forall x x' : Dual T, Dual_f_re x = Dual_f_re x' -> Dual_f_re (m_tanh x) = Dual_f_re (m_tanh x').
Proof. intros x x' H; destruct x, x'; simpl in H; subst; re_solve. Qed.
Lemma re_only_Dual_sph_j0 : forall x x' : Dual T, Dual_f_re x = Dual_f_re x' -> Dual_f_re (m_sph_j0 x) = Dual_f_re (m_sph_j0 x').
Proof. intros x x' H; destruct x, x'; simpl in H; subst; re_solve. Qed.
Lemma re_only_Dual_sph_j1 : forall x x' : Dual T, Dual_f_re x = Dual_f_re x' -> Dual_f_re (m_sph_j1 x) = Dual_f_re (m_sph_j1 x').
Proof. intros x x' H; destruct x, x'; simpl in H; subst; re_solve. Qed.
Lemma re_only_Dual_sph_j2 : forall x x' : Dual T, Dual_f_re x = Dual_f_re x' -> Dual_f_re (m_sph_j2 x) = Dual_f_re (m_sph_j2 x').
Proof. intros x x' H; destruct x, x'; simpl in H; subst; re_solve. Qed.
Lemma re_only_Dual_abs : forall x x' : Dual T, Dual_f_re x = Dual_f_re x' -> Dual_f_re (m_abs x) = Dual_f_re (m_abs x').
Proof. intros x x' H; destruct x, x'; simpl in H; subst; re_solve. Qed.
Lemma re_only_Dual_signum : forall x x' : Dual T, Dual_f_re x = Dual_f_re x' -> Dual_f_re (m_signum x) = Dual_f_re (m_signum x').
Proof. intros x x' H; destruct x, x'; simpl in H; subst; re_solve. Qed.
Lemma re_only_Dual_inv : forall x x' : Dual T, Dual_f_re x = Dual_f_re x' -> Dual_f_re (m_inv x) = Dual_f_re (m_inv x').
Proof. intros x x' H; destruct x, x'; simpl in H; subst; re_solve. Qed.
Lemma re_is_inner_Dual_recip : forall x : Dual T, Dual_f_re (m_recip x) = m_recip (Dual_f_re x).
Proof. intros x; destruct x; re_solve. Qed.
Lemma re_is_inner_Dual_sqrt : forall x : Dual T, Dual_f_re (m_sqrt x) = m_sqrt (Dual_f_re x).
Proof. intros x; destruct x; re_solve. Qed.
Lemma re_is_inner_Dual_cbrt : forall x : Dual T, Dual_f_re (m_cbrt x) = m_cbrt (Dual_f_re x).
Proof. intros x; destruct x; re_solve. Qed.
Lemma re_is_inner_Dual_exp : forall x : Dual T, Dual_f_re (m_exp x) = m_exp (Dual_f_re x).
Proof. intros x; destruct x; re_solve. Qed.
Lemma re_is_inner_Dual_exp2 : forall x : Dual T, Dual_f_re (m_exp2 x) = m_exp2 (Dual_f_re x).
Proof. intros x; destruct x; re_solve. Qed.
Lemma re_is_inner_Dual_exp_m1 : forall x : Dual T, Dual_f_re (m_exp_m1 x) = m_exp_m1 (Dual_f_re x).
Proof. intros x; destruct x; re_solve. Qed.
Lemma re_is_inner_Dual_ln : forall x : Dual T, Dual_f_re (m_ln x) = m_ln (Dual_f_re x).
Proof. intros x; destruct x; re_solve. Qed.
Lemma re_is_inner_Dual_log2 : forall x : Dual T, Dual_f_re (m_log2 x) = m_log2 (Dual_f_re x).
Proof. intros x; destruct x; re_solve. Qed.
Lemma re_is_inner_Dual_log10 : forall x : Dual T, Dual_f_re (m_log10 x) = m_log10 (Dual_f_re x).
Proof. intros x; destruct x; re_solve. Qed.
Lemma re_is_inner_Dual_ln_1p : forall x : Dual T, Dual_f_re (m_ln_1p x) = m_ln_1p (Dual_f_re x).
Proof. intros x; destruct x; re_solve. Qed.
Lemma re_is_inner_Dual_sin : forall x : Dual T, Dual_f_re (m_sin x) = fst (m_sin_cos (Dual_f_re x)).
Proof. intros x; destruct x; re_solve. Qed.
Lemma re_is_inner_Dual_cos : forall x : Dual T, Dual_f_re (m_cos x) = snd (m_sin_cos (Dual_f_re x)).
Proof. intros x; destruct x; re_solve. Qed.
Lemma re_is_inner_Dual_asin : forall x : Dual T, Dual_f_re (m_asin x) = m_asin (Dual_f_re x).
Proof. intros x; destruct x; re_solve. Qed.
Lemma re_is_inner_Dual_acos : forall x : Dual T, Dual_f_re (m_acos x) = m_acos (Dual_f_re x).
Proof. intros x; destruct x; re_solve. Qed.
Lemma re_is_inner_Dual_atan : forall x : Dual T, Dual_f_re (m_atan x) = m_atan (Dual_f_re x).
Proof. intros x; destruct x; re_solve. Qed.
Lemma re_is_inner_Dual_sinh : forall x : Dual T, Dual_f_re (m_sinh x) = m_sinh (Dual_f_re x).
Proof. intros x; destruct x; re_solve. Qed.
Lemma re_is_inner_Dual_cosh : forall x : Dual T, Dual_f_re (m_cosh x) = m_cosh (Dual_f_re x).
Proof. intros x; destruct x; re_solve. Qed.
Lemma re_is_inner_Dual_asinh : forall x : Dual T, Dual_f_re (m_asinh x) = m_asinh (Dual_f_re x).
Proof. intros x; destruct x; re_solve. Qed.
Lemma re_is_inner_Dual_acosh : forall x : Dual T, Dual_f_re (m_acosh x) = m_acosh (Dual_f_re x).
Proof. intros x; destruct x; re_solve. Qed.
Lemma re_is_inner_Dual_atanh : forall x : Dual T, Dual_f_re (m_atanh x) = m_atanh (Dual_f_re x).
Proof. intros x; destruct x; re_solve. Qed.
Lemma re_only_Dual_powi : forall (n : Z) (x x' : Dual T), Dual_f_re x = Dual_f_re x' -> Dual_f_re (m_powi x n) = Dual_f_re (m_powi x' n).
Proof. intros n x x' H; destruct x, x'; simpl in H; subst; destruct n as [|[[p|p|]|[p|p|]|]|p]; reflexivity. Qed.
Lemma re_only_Dual_powf : forall (q : F) (x x' : Dual T), Dual_f_re x = Dual_f_re x' -> Dual_f_re (m_powf x q) = Dual_f_re (m_powf x' q).
Proof. intros q x x' H; destruct x, x'; simpl in H; subst; re_solve. Qed.
Lemma re_only_Dual_log : forall (q : F) (x x' : Dual T), Dual_f_re x = Dual_f_re x' -> Dual_f_re (m_log x q) = Dual_f_re (m_log x' q).
Proof. intros q x x' H; destruct x, x'; simpl in H; subst; re_solve. Qed.
Lemma re_only_Dual_add : forall x x' y y' : Dual T, Dual_f_re x = Dual_f_re x' -> Dual_f_re y = Dual_f_re y' -> Dual_f_re (x + y) = Dual_f_re (x' + y').
Proof. intros x x' y y' H1 H2; destruct x, x', y, y'; simpl in H1, H2; subst; re_solve. Qed.
Lemma re_only_Dual_sub : forall x x' y y' : Dual T, Dual_f_re x = Dual_f_re x' -> Dual_f_re y = Dual_f_re y' -> Dual_f_re (x - y) = Dual_f_re (x' - y').
Proof. intros x x' y y' H1 H2; destruct x, x', y, y'; simpl in H1, H2; subst; re_solve. Qed.
Lemma re_only_Dual_mul : forall x x' y y' : Dual T, Dual_f_re x = Dual_f_re x' -> Dual_f_re y = Dual_f_re y' -> Dual_f_re (x * y) = Dual_f_re (x' * y').
Proof. intros x x' y y' H1 H2; destruct x, x', y, y'; simpl in H1, H2; subst; re_solve. Qed.
Lemma re_only_Dual_div : forall x x' y y' : Dual T, Dual_f_re x = Dual_f_re x' -> Dual_f_re y = Dual_f_re y' -> Dual_f_re (x / y) = Dual_f_re (x' / y').
Proof. intros x x' y y' H1 H2; destruct x, x', y, y'; simpl in H1, H2; subst; re_solve. Qed.
Lemma re_only_Dual_powd : forall x x' y y' : Dual T, Dual_f_re x = Dual_f_re x' -> Dual_f_re y = Dual_f_re y' -> Dual_f_re (m_powd x y) = Dual_f_re (m_powd x' y').
Proof. intros x x' y y' H1 H2; destruct x, x', y, y'; simpl in H1, H2; subst; re_solve. Qed.
Lemma re_only_Dual_atan2 : forall x x' y y' : Dual T, Dual_f_re x = Dual_f_re x' -> Dual_f_re y = Dual_f_re y' -> Dual_f_re (m_atan2 x y) = Dual_f_re (m_atan2 x' y').
Proof. intros x x' y y' H1 H2; destruct x, x', y, y'; simpl in H1, H2; subst; re_solve. Qed.
Lemma re_only_Dual_abs_sub : forall x x' y y' : Dual T, Dual_f_re x = Dual_f_re x' -> Dual_f_re y = Dual_f_re y' -> Dual_f_re (m_abs_sub x y) = Dual_f_re (m_abs_sub x' y').
Proof. intros x x' y y' H1 H2; destruct x, x', y, y'; simpl in H1, H2; subst; re_solve. Qed.
Lemma re_is_inner_Dual_add : forall x y : Dual T, Dual_f_re (x + y) = Dual_f_re x + Dual_f_re y.
Proof. intros x y; destruct x, y; re_solve. Qed.
Lemma re_is_inner_Dual_sub : forall x y : Dual T, Dual_f_re (x - y) = Dual_f_re x - Dual_f_re y.
Proof. intros x y; destruct x, y; re_solve. Qed.
Lemma re_is_inner_Dual_mul : forall x y : Dual T, Dual_f_re (x * y) = Dual_f_re x * Dual_f_re y.
Proof. intros x y; destruct x, y; re_solve. Qed.
Lemma re_is_inner_Dual_neg : forall x : Dual T, Dual_f_re (- x) = - (Dual_f_re x).
Proof. intros x; destruct x; re_solve. Qed.
Lemma re_only_Dual_mul_add : forall x x' y y' z z' : Dual T, Dual_f_re x = Dual_f_re x' -> Dual_f_re y = Dual_f_re y' -> Dual_f_re z = Dual_f_re z' -> Dual_f_re (m_mul_add x y z) = Dual_f_re (m_mul_add x' y' z').
Proof. intros x x' y y' z z' H1 H2 H3; destruct x, x', y, y', z, z'; simpl in H1, H2, H3; subst; re_solve. Qed.
Lemma pred_Dual_is_zero : forall x x' : Dual T, Dual_f_re x = Dual_f_re x' -> m_is_zero x = m_is_zero x'.
Proof. intros x x' H; destruct x, x'; simpl in H; subst; re_solve. Qed.
Lemma pred_Dual_is_one : forall x x' : Dual T, Dual_f_re x = Dual_f_re x' -> m_is_one x = m_is_one x'.
Proof. intros x x' H; destruct x, x'; simpl in H; subst; re_solve. Qed.
Lemma pred_Dual_is_positive : forall x x' : Dual T, Dual_f_re x = Dual_f_re x' -> m_is_positive x = m_is_positive x'.
Proof. intros x x' H; destruct x, x'; simpl in H; subst; re_solve. Qed.
Lemma pred_Dual_is_negative : forall x x' : Dual T, Dual_f_re x = Dual_f_re x' -> m_is_negative x = m_is_negative x'.
Proof. intros x x' H; destruct x, x'; simpl in H; subst; re_solve. Qed.
Lemma re_only_Dual_addF : forall (q : F) (x x' : Dual T), Dual_f_re x = Dual_f_re x' -> Dual_f_re (x + q) = Dual_f_re (x' + q).
Proof. intros q x x' H; destruct x, x'; simpl in H; subst; re_solve. Qed.
Lemma re_only_Dual_subF : forall (q : F) (x x' : Dual T), Dual_f_re x = Dual_f_re x' -> Dual_f_re (x - q) = Dual_f_re (x' - q).
Proof. intros q x x' H; destruct x, x'; simpl in H; subst; re_solve. Qed.
Lemma re_only_Dual_mulF : forall (q : F) (x x' : Dual T), Dual_f_re x = Dual_f_re x' -> Dual_f_re (x * q) = Dual_f_re (x' * q).
Proof. intros q x x' H; destruct x, x'; simpl in H; subst; re_solve. Qed.
Lemma re_only_Dual_divF : forall (q : F) (x x' : Dual T), Dual_f_re x = Dual_f_re x' -> Dual_f_re (x / q) = Dual_f_re (x' / q).
Proof. intros q x x' H; destruct x, x'; simpl in H; subst; re_solve. Qed.
Lemma re_only_Dual2_recip : forall x x' : Dual2 T, Dual2_f_re x = Dual2_f_re x' -> Dual2_f_re (m_recip x) = Dual2_f_re (m_recip x').
Proof. intros x x' H; destruct x, x'; simpl in H; subst; re_solve. Qed.
Lemma re_only_Dual2_sqrt : forall x x' : Dual2 T, Dual2_f_re x = Dual2_f_re x' -> Dual2_f_re (m_sqrt x) = Dual2_f_re (m_sqrt x').
Proof. intros x x' H; destruct x, x'; simpl in H; subst; re_solve. Qed.
Lemma re_only_Dual2_cbrt : forall x x' : Dual2 T, Dual2_f_re x = Dual2_f_re x' -> Dual2_f_re (m_cbrt x) = Dual2_f_re (m_cbrt x').
Proof. intros x x' H; destruct x, x'; simpl in H; subst; re_solve. Qed.
Lemma re_only_Dual2_exp : forall x x' : Dual2 T, Dual2_f_re x = Dual2_f_re x' -> Dual2_f_re (m_exp x) = Dual2_f_re (m_exp x').
Proof. intros x x' H; destruct x, x'; simpl in H; subst; re_solve. Qed.
Lemma re_only_Dual2_exp2 : forall x x' : Dual2 T, Dual2_f_re x = Dual2_f_re x' -> Dual2_f_re (m_exp2 x) = Dual2_f_re (m_exp2 x').
Proof. intros x x' H; destruct x, x'; simpl in H; subst; re_solve. Qed.
Lemma re_only_Dual2_exp_m1 : forall x x' : Dual2 T, Dual2_f_re x = Dual2_f_re x' -> Dual2_f_re (m_exp_m1 x) = Dual2_f_re (m_exp_m1 x').
Proof. intros x x' H; destruct x, x'; simpl in H; subst; re_solve. Qed.
Lemma re_only_Dual2_ln : forall x x' : Dual2 T, Dual2_f_re x = Dual2_f_re x' -> Dual2_f_re (m_ln x) = Dual2_f_re (m_ln x').
Proof. intros x x' H; destruct x, x'; simpl in H; subst; re_solve. Qed.
Lemma re_only_Dual2_log2 : forall x x' : Dual2 T, Dual2_f_re x = Dual2_f_re x' -> Dual2_f_re (m_log2 x) = Dual2_f_re (m_log2 x').
Proof. intros x x' H; destruct x, x'; simpl in H; subst; re_solve. Qed.
Lemma re_only_Dual2_log10 : forall x x' : Dual2 T, Dual2_f_re x = Dual2_f_re x' -> Dual2_f_re (m_log10 x) = Dual2_f_re (m_log10 x').
Proof. intros x x' H; destruct x, x'; simpl in H; subst; re_solve. Qed.
Lemma re_only_Dual2_ln_1p : forall x x' : Dual2 T, Dual2_f_re x = Dual2_f_re x' -> Dual2_f_re (m_ln_1p x) = Dual2_f_re (m_ln_1p x').
Proof. intros x x' H; destruct x, x'; simpl in H; subst; re_solve. Qed.
Lemma re_only_Dual2_sin : forall x x' : Dual2 T, Dual2_f_re x = Dual2_f_re x' -> Dual2_f_re (m_sin x) = Dual2_f_re (m_sin x').
Proof. intros x x' H; destruct x, x'; simpl in H; subst; re_solve. Qed.
Lemma re_only_Dual2_cos : forall x x' : Dual2 T, Dual2_f_re x = Dual2_f_re x' -> Dual2_f_re (m_cos x) = Dual2_f_re (m_cos x').
Proof. intros x x' H; destruct x, x'; simpl in H; subst; re_solve. Qed.
Lemma re_only_Dual2_asin : forall x x' : Dual2 T, Dual2_f_re x = Dual2_f_re x' -> Dual2_f_re (m_asin x) = Dual2_f_re (m_asin x').
Proof. intros x x' H; destruct x, x'; simpl in H; subst; re_solve. Qed.
Lemma re_only_Dual2_acos : forall x x' : Dual2 T, Dual2_f_re x = Dual2_f_re x' -> Dual2_f_re (m_acos x) = Dual2_f_re (m_acos x').
Proof. intros x x' H; destruct x, x'; simpl in H; subst; re_solve. Qed.
Lemma re_only_Dual2_atan : forall x x' : Dual2 T, Dual2_f_re x = Dual2_f_re x' -> Dual2_f_re (m_atan x) = Dual2_f_re (m_atan x').
Proof. intros x x' H; destruct x, x'; simpl in H; subst; re_solve. Qed.
Lemma re_only_Dual2_sinh : forall x x' : Dual2 T, Dual2_f_re x = Dual2_f_re x' -> Dual2_f_re (m_sinh x) = Dual2_f_re (m_sinh x').
Proof. intros x x' H; destruct x, x'; simpl in H; subst; re_solve. Qed.
Lemma re_only_Dual2_cosh : forall x x' : Dual2 T, Dual2_f_re x = Dual2_f_re x' -> Dual2_f_re (m_cosh x) = Dual2_f_re (m_cosh x').
Proof. intros x x' H; destruct x, x'; simpl in H; subst; re_solve. Qed.
Lemma re_only_Dual2_asinh : forall x x' : Dual2 T, Dual2_f_re x = Dual2_f_re x' -> Dual2_f_re (m_asinh x) = Dual2_f_re (m_asinh x').
Proof. intros x x' H; destruct x, x'; simpl in H; subst; re_solve. Qed.
Lemma re_only_Dual2_acosh : forall x x' : Dual2 T, Dual2_f_re x = Dual2_f_re x' -> Dual2_f_re (m_acosh x) = Dual2_f_re (m_acosh x').
Proof. intros x x' H; destruct x, x'; simpl in H; subst; re_solve. Qed.
Lemma re_only_Dual2_atanh : forall x x' : Dual2 T, Dual2_f_re x = Dual2_f_re x' -> Dual2_f_re (m_atanh x) = Dual2_f_re (m_atanh x').
Proof. intros x x' H; destruct x, x'; simpl in H; subst; re_solve. Qed.
Lemma re_only_Dual2_tan : forall x x' : Dual2 T, Dual2_f_re x = Dual2_f_re x' -> Dual2_f_re (m_tan x) = Dual2_f_re (m_tan x').
Proof. intros x x' H; destruct x, x'; simpl in H; subst; re_solve. Qed.
Lemma re_only_Dual2_tanh : forall x x' : Dual2 T, Dual2_f_re x = Dual2_f_re x' -> Dual2_f_re (m_tanh x) = Dual2_f_re (m_tanh x').
Proof. intros x x' H; destruct x, x'; simpl in H; subst; re_solve. Qed.
Lemma re_only_Dual2_sph_j0 : forall x x' : Dual2 T, Dual2_f_re x = Dual2_f_re x' -> Dual2_f_re (m_sph_j0 x) = Dual2_f_re (m_sph_j0 x').
Proof. intros x x' H; destruct x, x'; simpl in H; subst; re_solve. Qed.
Lemma re_only_Dual2_sph_j1 : forall x x' : Dual2 T, Dual2_f_re x = Dual2_f_re x' -> Dual2_f_re (m_sph_j1 x) = Dual2_f_re (m_sph_j1 x').
Proof. intros x x' H; destruct x, x'; simpl in H; subst; re_solve. Qed.
Lemma re_only_Dual2_sph_j2 : forall x x' : Dual2 T, Dual2_f_re x = Dual2_f_re x' -> Dual2_f_re (m_sph_j2 x) = Dual2_f_re (m_sph_j2 x').
Proof. intros x x' H; destruct x, x'; simpl in H; subst; re_solve. Qed.
Lemma re_only_Dual2_abs : forall x x' : Dual2 T, Dual2_f_re x = Dual2_f_re x' -> Dual2_f_re (m_abs x) = Dual2_f_re (m_abs x').
Proof. intros x x' H; destruct x, x'; simpl in H; subst; re_solve. Qed.
Lemma re_only_Dual2_signum : forall x x' : Dual2 T, Dual2_f_re x = Dual2_f_re x' -> Dual2_f_re (m_signum x) = Dual2_f_re (m_signum x').
Proof. intros x x' H; destruct x, x'; simpl in H; subst; re_solve. Qed.
Lemma re_only_Dual2_inv : forall x x' : Dual2 T, Dual2_f_re x = Dual2_f_re x' -> Dual2_f_re (m_inv x) = Dual2_f_re (m_inv x').
Proof. intros x x' H; destruct x, x'; simpl in H; subst; re_solve. Qed.
Lemma re_is_inner_Dual2_recip : forall x : Dual2 T, Dual2_f_re (m_recip x) = m_recip (Dual2_f_re x).
Proof. intros x; destruct x; re_solve. Qed.
Lemma re_is_inner_Dual2_sqrt : forall x : Dual2 T, Dual2_f_re (m_sqrt x) = m_sqrt (Dual2_f_re x).
Proof. intros x; destruct x; re_solve. Qed.
Lemma re_is_inner_Dual2_cbrt : forall x : Dual2 T, Dual2_f_re (m_cbrt x) = m_cbrt (Dual2_f_re x).
Proof. intros x; destruct x; re_solve. Qed.
Lemma re_is_inner_Dual2_exp : forall x : Dual2 T, Dual2_f_re (m_exp x) = m_exp (Dual2_f_re x).
Proof. intros x; destruct x; re_solve. Qed.
Lemma re_is_inner_Dual2_exp2 : forall x : Dual2 T, Dual2_f_re (m_exp2 x) = m_exp2 (Dual2_f_re x).
Proof. intros x; destruct x; re_solve. Qed.
Lemma re_is_inner_Dual2_exp_m1 : forall x : Dual2 T, Dual2_f_re (m_exp_m1 x) = m_exp_m1 (Dual2_f_re x).
Proof. intros x; destruct x; re_solve. Qed.
Lemma re_is_inner_Dual2_ln : forall x : Dual2 T, Dual2_f_re (m_ln x) = m_ln (Dual2_f_re x).
Proof. intros x; destruct x; re_solve. Qed.
Lemma re_is_inner_Dual2_log2 : forall x : Dual2 T, Dual2_f_re (m_log2 x) = m_log2 (Dual2_f_re x).
Proof. intros x; destruct x; re_solve. Qed.
Lemma re_is_inner_Dual2_log10 : forall x : Dual2 T, Dual2_f_re (m_log10 x) = m_log10 (Dual2_f_re x).
Proof. intros x; destruct x; re_solve. Qed.
Lemma re_is_inner_Dual2_ln_1p : forall x : Dual2 T, Dual2_f_re (m_ln_1p x) = m_ln_1p (Dual2_f_re x).
Proof. intros x; destruct x; re_solve. Qed.
Lemma re_is_inner_Dual2_sin : forall x : Dual2 T, Dual2_f_re (m_sin x) = fst (m_sin_cos (Dual2_f_re x)).
Proof. intros x; destruct x; re_solve. Qed.
Lemma re_is_inner_Dual2_cos : forall x : Dual2 T, Dual2_f_re (m_cos x) = snd (m_sin_cos (Dual2_f_re x)).
Proof. intros x; destruct x; re_solve. Qed.
Lemma re_is_inner_Dual2_asin : forall x : Dual2 T, Dual2_f_re (m_asin x) = m_asin (Dual2_f_re x).
Proof. intros x; destruct x; re_solve. Qed.
Lemma re_is_inner_Dual2_acos : forall x : Dual2 T, Dual2_f_re (m_acos x) = m_acos (Dual2_f_re x).
Proof. intros x; destruct x; re_solve. Qed.
Lemma re_is_inner_Dual2_atan : forall x : Dual2 T, Dual2_f_re (m_atan x) = m_atan (Dual2_f_re x).
Proof. intros x; destruct x; re_solve. Qed.
Lemma re_is_inner_Dual2_sinh : forall x : Dual2 T, Dual2_f_re (m_sinh x) = m_sinh (Dual2_f_re x).
Proof. intros x; destruct x; re_solve. Qed.
Lemma re_is_inner_Dual2_cosh : forall x : Dual2 T, Dual2_f_re (m_cosh x) = m_cosh (Dual2_f_re x).
Proof. intros x; destruct x; re_solve. Qed.
Lemma re_is_inner_Dual2_asinh : forall x : Dual2 T, Dual2_f_re (m_asinh x) = m_asinh (Dual2_f_re x).
Proof. intros x; destruct x; re_solve. Qed.
Lemma re_is_inner_Dual2_acosh : forall x : Dual2 T, Dual2_f_re (m_acosh x) = m_acosh (Dual2_f_re x).
Proof. intros x; destruct x; re_solve. Qed.
Lemma re_is_inner_Dual2_atanh : forall x : Dual2 T, Dual2_f_re (m_atanh x) = m_atanh (Dual2_f_re x).
Proof. intros x; destruct x; re_solve. Qed.
Lemma re_only_Dual2_powi : forall (n : Z) (x x' : Dual2 T), Dual2_f_re x = Dual2_f_re x' -> Dual2_f_re (m_powi x n) = Dual2_f_re (m_powi x' n).
Proof. intros n x x' H; destruct x, x'; simpl in H; subst; destruct n as [|[[p|p|]|[p|p|]|]|p]; reflexivity. Qed.
Lemma re_only_Dual2_powf : forall (q : F) (x x' : Dual2 T), Dual2_f_re x = Dual2_f_re x' -> Dual2_f_re (m_powf x q) = Dual2_f_re (m_powf x' q).
Proof. intros q x x' H; destruct x, x'; simpl in H; subst; re_solve. Qed.
Lemma re_only_Dual2_log : forall (q : F) (x x' : Dual2 T), Dual2_f_re x = Dual2_f_re x' -> Dual2_f_re (m_log x q) = Dual2_f_re (m_log x' q).
Proof. intros q x x' H; destruct x, x'; simpl in H; subst; re_solve. Qed.
Lemma re_only_Dual2_add : forall x x' y y' : Dual2 T, Dual2_f_re x = Dual2_f_re x' -> Dual2_f_re y = Dual2_f_re y' -> Dual2_f_re (x + y) = Dual2_f_re (x' + y').
Proof. intros x x' y y' H1 H2; destruct x, x', y, y'; simpl in H1, H2; subst; re_solve. Qed.
Lemma re_only_Dual2_sub : forall x x' y y' : Dual2 T, Dual2_f_re x = Dual2_f_re x' -> Dual2_f_re y = Dual2_f_re y' -> Dual2_f_re (x - y) = Dual2_f_re (x' - y').
Proof. intros x x' y y' H1 H2; destruct x, x', y, y'; simpl in H1, H2; subst; re_solve. Qed.
Lemma re_only_Dual2_mul : forall x x' y y' : Dual2 T, Dual2_f_re x = Dual2_f_re x' -> Dual2_f_re y = Dual2_f_re y' -> Dual2_f_re (x * y) = Dual2_f_re (x' * y').
Proof. intros x x' y y' H1 H2; destruct x, x', y, y'; simpl in H1, H2; subst; re_solve. Qed.
Lemma re_only_Dual2_div : forall x x' y y' : Dual2 T, Dual2_f_re x = Dual2_f_re x' -> Dual2_f_re y = Dual2_f_re y' -> Dual2_f_re (x / y) = Dual2_f_re (x' / y').
Proof. intros x x' y y' H1 H2; destruct x, x', y, y'; simpl in H1, H2; subst; re_solve. Qed.
Lemma re_only_Dual2_powd : forall x x' y y' : Dual2 T, Dual2_f_re x = Dual2_f_re x' -> Dual2_f_re y = Dual2_f_re y' -> Dual2_f_re (m_powd x y) = Dual2_f_re (m_powd x' y').
Proof. intros x x' y y' H1 H2; destruct x, x', y, y'; simpl in H1, H2; subst; re_solve. Qed.
Lemma re_only_Dual2_atan2 : forall x x' y y' : Dual2 T, Dual2_f_re x = Dual2_f_re x' -> Dual2_f_re y = Dual2_f_re y' -> Dual2_f_re (m_atan2 x y) = Dual2_f_re (m_atan2 x' y').
Proof. intros x x' y y' H1 H2; destruct x, x', y, y'; simpl in H1, H2; subst; re_solve. Qed.
Lemma re_only_Dual2_abs_sub : forall x x' y y' : Dual2 T, Dual2_f_re x = Dual2_f_re x' -> Dual2_f_re y = Dual2_f_re y' -> Dual2_f_re (m_abs_sub x y) = Dual2_f_re (m_abs_sub x' y').
Proof. intros x x' y y' H1 H2; destruct x, x', y, y'; simpl in H1, H2; subst; re_solve. Qed.
Lemma re_is_inner_Dual2_add : forall x y : Dual2 T, Dual2_f_re (x + y) = Dual2_f_re x + Dual2_f_re y.
Proof. intros x y; destruct x, y; re_solve. Qed.
Lemma re_is_inner_Dual2_sub : forall x y : Dual2 T, Dual2_f_re (x - y) = Dual2_f_re x - Dual2_f_re y.
Proof. intros x y; destruct x, y; re_solve. Qed.
Lemma re_is_inner_Dual2_mul : forall x y : Dual2 T, Dual2_f_re (x * y) = Dual2_f_re x * Dual2_f_re y.
Proof. intros x y; destruct x, y; re_solve. Qed.
Lemma re_is_inner_Dual2_neg : forall x : Dual2 T, Dual2_f_re (- x) = - (Dual2_f_re x).
Proof. intros x; destruct x; re_solve. Qed.
Lemma re_only_Dual2_mul_add : forall x x' y y' z z' : Dual2 T, Dual2_f_re x = Dual2_f_re x' -> Dual2_f_re y = Dual2_f_re y' -> Dual2_f_re z = Dual2_f_re z' -> Dual2_f_re (m_mul_add x y z) = Dual2_f_re (m_mul_add x' y' z').
Proof. intros x x' y y' z z' H1 H2 H3; destruct x, x', y, y', z, z'; simpl in H1, H2, H3; subst; re_solve. Qed.
Lemma pred_Dual2_is_zero : forall x x' : Dual2 T, Dual2_f_re x = Dual2_f_re x' -> m_is_zero x = m_is_zero x'.
Proof. intros x x' H; destruct x, x'; simpl in H; subst; re_solve. Qed.
Lemma pred_Dual2_is_one : forall x x' : Dual2 T, Dual2_f_re x = Dual2_f_re x' -> m_is_one x = m_is_one x'.
Proof. intros x x' H; destruct x, x'; simpl in H; subst; re_solve. Qed.
Lemma pred_Dual2_is_positive : forall x x' : Dual2 T, Dual2_f_re x = Dual2_f_re x' -> m_is_positive x = m_is_positive x'.
Proof. intros x x' H; destruct x, x'; simpl in H; subst; re_solve. Qed.
Lemma pred_Dual2_is_negative : forall x x' : Dual2 T, Dual2_f_re x = Dual2_f_re x' -> m_is_negative x = m_is_negative x'.
Proof. intros x x' H; destruct x, x'; simpl in H; subst; re_solve. Qed.
Lemma re_only_Dual2_addF : forall (q : F) (x x' : Dual2 T), Dual2_f_re x = Dual2_f_re x' -> Dual2_f_re (x + q) = Dual2_f_re (x' + q).
Proof. intros q x x' H; destruct x, x'; simpl in H; subst; re_solve. Qed.
Lemma re_only_Dual2_subF : forall (q : F) (x x' : Dual2 T), Dual2_f_re x = Dual2_f_re x' -> Dual2_f_re (x - q) = Dual2_f_re (x' - q).
Proof. intros q x x' H; destruct x, x'; simpl in H; subst; re_solve. Qed.
Lemma re_only_Dual2_mulF : forall (q : F) (x x' : Dual2 T), Dual2_f_re x = Dual2_f_re x' -> Dual2_f_re (x * q) = Dual2_f_re (x' * q).
Proof. intros q x x' H; destruct x, x'; simpl in H; subst; re_solve. Qed.
Lemma re_only_Dual2_divF : forall (q : F) (x x' : Dual2 T), Dual2_f_re x = Dual2_f_re x' -> Dual2_f_re (x / q) = Dual2_f_re (x' / q).
Proof. intros q x x' H; destruct x, x'; simpl in H; subst; re_solve. Qed.
Lemma re_only_Dual3_recip : forall x x' : Dual3 T, Dual3_f_re x = Dual3_f_re x' -> Dual3_f_re (m_recip x) = Dual3_f_re (m_recip x').
Proof. intros x x' H; destruct x, x'; simpl in H; subst; re_solve. Qed.
Lemma re_only_Dual3_sqrt : forall x x' : Dual3 T, Dual3_f_re x = Dual3_f_re x' -> Dual3_f_re (m_sqrt x) = Dual3_f_re (m_sqrt x').
Proof. intros x x' H; destruct x, x'; simpl in H; subst; re_solve. Qed.
Lemma re_only_Dual3_cbrt : forall x x' : Dual3 T, Dual3_f_re x = Dual3_f_re x' -> Dual3_f_re (m_cbrt x) = Dual3_f_re (m_cbrt x').
Proof. intros x x' H; destruct x, x'; simpl in H; subst; re_solve. Qed.
Lemma re_only_Dual3_exp : forall x x' : Dual3 T, Dual3_f_re x = Dual3_f_re x' -> Dual3_f_re (m_exp x) = Dual3_f_re (m_exp x').
Proof. intros x x' H; destruct x, x'; simpl in H; subst; re_solve. Qed.
Lemma re_only_Dual3_exp2 : forall x x' : Dual3 T, Dual3_f_re x = Dual3_f_re x' -> Dual3_f_re (m_exp2 x) = Dual3_f_re (m_exp2 x').
Proof. intros x x' H; destruct x, x'; simpl in H; subst; re_solve. Qed.
Lemma re_only_Dual3_exp_m1 : forall x x' : Dual3 T, Dual3_f_re x = Dual3_f_re x' -> Dual3_f_re (m_exp_m1 x) = Dual3_f_re (m_exp_m1 x').
Proof. intros x x' H; destruct x, x'; simpl in H; subst; re_solve. Qed.
Lemma re_only_Dual3_ln : forall x x' : Dual3 T, Dual3_f_re x = Dual3_f_re x' -> Dual3_f_re (m_ln x) = Dual3_f_re (m_ln x').
Proof. intros x x' H; destruct x, x'; simpl in H; subst; re_solve. Qed.
Lemma re_only_Dual3_log2 : forall x x' : Dual3 T, Dual3_f_re x = Dual3_f_re x' -> Dual3_f_re (m_log2 x) = Dual3_f_re (m_log2 x').
Proof. intros x x' H; destruct x, x'; simpl in H; subst; re_solve. Qed.
Lemma re_only_Dual3_log10 : forall x x' : Dual3 T, Dual3_f_re x = Dual3_f_re x' -> Dual3_f_re (m_log10 x) = Dual3_f_re (m_log10 x').
Proof. intros x x' H; destruct x, x'; simpl in H; subst; re_solve. Qed.
Lemma re_only_Dual3_ln_1p : forall x x' : Dual3 T, Dual3_f_re x = Dual3_f_re x' -> Dual3_f_re (m_ln_1p x) = Dual3_f_re (m_ln_1p x').
Proof. intros x x' H; destruct x, x'; simpl in H; subst; re_solve. Qed.
Lemma re_only_Dual3_sin : forall x x' : Dual3 T, Dual3_f_re x = Dual3_f_re x' -> Dual3_f_re (m_sin x) = Dual3_f_re (m_sin x').
Proof. intros x x' H; destruct x, x'; simpl in H; subst; re_solve. Qed.
Lemma re_only_Dual3_cos : forall x x' : Dual3 T, Dual3_f_re x = Dual3_f_re x' -> Dual3_f_re (m_cos x) = Dual3_f_re (m_cos x').
Proof. intros x x' H; destruct x, x'; simpl in H; subst; re_solve. Qed.
Lemma re_only_Dual3_asin : forall x x' : Dual3 T, Dual3_f_re x = Dual3_f_re x' -> Dual3_f_re (m_asin x) = Dual3_f_re (m_asin x').
Proof. intros x x' H; destruct x, x'; simpl in H; subst; re_solve. Qed.
Lemma re_only_Dual3_acos : forall x x' : Dual3 T, Dual3_f_re x = Dual3_f_re x' -> Dual3_f_re (m_acos x) = Dual3_f_re (m_acos x').
Proof. intros x x' H; destruct x, x'; simpl in H; subst; re_solve. Qed.
Lemma re_only_Dual3_atan : forall x x' : Dual3 T, Dual3_f_re x = Dual3_f_re x' -> Dual3_f_re (m_atan x) = Dual3_f_re (m_atan x').
Proof. intros x x' H; destruct x, x'; simpl in H; subst; re_solve. Qed.
Lemma re_only_Dual3_sinh : forall x x' : Dual3 T, Dual3_f_re x = Dual3_f_re x' -> Dual3_f_re (m_sinh x) = Dual3_f_re (m_sinh x').
Proof. intros x x' H; destruct x, x'; simpl in H; subst; re_solve. Qed.
Lemma re_only_Dual3_cosh : forall x x' : Dual3 T, Dual3_f_re x = Dual3_f_re x' -> Dual3_f_re (m_cosh x) = Dual3_f_re (m_cosh x').
Proof. intros x x' H; destruct x, x'; simpl in H; subst; re_solve. Qed.
Lemma re_only_Dual3_asinh : forall x x' : Dual3 T, Dual3_f_re x = Dual3_f_re x' -> Dual3_f_re (m_asinh x) = Dual3_f_re (m_asinh x').
Proof. intros x x' H; destruct x, x'; simpl in H; subst; re_solve. Qed.
Lemma re_only_Dual3_acosh : forall x x' : Dual3 T, Dual3_f_re x = Dual3_f_re x' -> Dual3_f_re (m_acosh x) = Dual3_f_re (m_acosh x').
Proof. intros x x' H; destruct x, x'; simpl in H; subst; re_solve. Qed.
Lemma re_only_Dual3_atanh : forall x x' : Dual3 T, Dual3_f_re x = Dual3_f_re x' -> Dual3_f_re (m_atanh x) = Dual3_f_re (m_atanh x').
Proof. intros x x' H; destruct x, x'; simpl in H; subst; re_solve. Qed.
Lemma re_only_Dual3_tan : forall x x' : Dual3 T, Dual3_f_re x = Dual3_f_re x' -> Dual3_f_re (m_tan x) = Dual3_f_re (m_tan x').
Proof. intros x x' H; destruct x, x'; simpl in H; subst; re_solve. Qed.
Lemma re_only_Dual3_tanh : forall x x' : Dual3 T, Dual3_f_re x = Dual3_f_re x' -> Dual3_f_re (m_tanh x) = Dual3_f_re (m_tanh x').
Proof. intros x x' H; destruct x, x'; simpl in H; subst; re_solve. Qed.
Lemma re_only_Dual3_sph_j0 : forall x x' : Dual3 T, Dual3_f_re x = Dual3_f_re x' -> Dual3_f_re (m_sph_j0 x) = Dual3_f_re (m_sph_j0 x').
Proof. intros x x' H; destruct x, x'; simpl in H; subst; re_solve. Qed.
Lemma re_only_Dual3_sph_j1 : forall x x' : Dual3 T, Dual3_f_re x = Dual3_f_re x' -> Dual3_f_re (m_sph_j1 x) = Dual3_f_re (m_sph_j1 x').
Proof. intros x x' H; destruct x, x'; simpl in H; subst; re_solve. Qed.
Lemma re_only_Dual3_sph_j2 : forall x x' : Dual3 T, Dual3_f_re x = Dual3_f_re x' -> Dual3_f_re (m_sph_j2 x) = Dual3_f_re (m_sph_j2 x').
Proof. intros x x' H; destruct x, x'; simpl in H; subst; re_solve. Qed.
Lemma re_only_Dual3_abs : forall x x' : Dual3 T, Dual3_f_re x = Dual3_f_re x' -> Dual3_f_re (m_abs x) = Dual3_f_re (m_abs x').
Proof. intros x x' H; destruct x, x'; simpl in H; subst; re_solve. Qed.
Lemma re_only_Dual3_signum : forall x x' : Dual3 T, Dual3_f_re x = Dual3_f_re x' -> Dual3_f_re (m_signum x) = Dual3_f_re (m_signum x').
Proof. intros x x' H; destruct x, x'; simpl in H; subst; re_solve. Qed.
Lemma re_only_Dual3_inv : forall x x' : Dual3 T, Dual3_f_re x = Dual3_f_re x' -> Dual3_f_re (m_inv x) = Dual3_f_re (m_inv x').
Proof. intros x x' H; destruct x, x'; simpl in H; subst; re_solve. Qed.
Lemma re_is_inner_Dual3_recip : forall x : Dual3 T, Dual3_f_re (m_recip x) = m_recip (Dual3_f_re x).
Proof. intros x; destruct x; re_solve. Qed.
Lemma re_is_inner_Dual3_sqrt : forall x : Dual3 T, Dual3_f_re (m_sqrt x) = m_sqrt (Dual3_f_re x).
Proof. intros x; destruct x; re_solve. Qed.
Lemma re_is_inner_Dual3_cbrt : forall x : Dual3 T, Dual3_f_re (m_cbrt x) = m_cbrt (Dual3_f_re x).
Proof. intros x; destruct x; re_solve. Qed.
Lemma re_is_inner_Dual3_exp : forall x : Dual3 T, Dual3_f_re (m_exp x) = m_exp (Dual3_f_re x).
Proof. intros x; destruct x; re_solve. Qed.
Lemma re_is_inner_Dual3_exp2 : forall x : Dual3 T, Dual3_f_re (m_exp2 x) = m_exp2 (Dual3_f_re x).
Proof. intros x; destruct x; re_solve. Qed.
Lemma re_is_inner_Dual3_exp_m1 : forall x : Dual3 T, Dual3_f_re (m_exp_m1 x) = m_exp_m1 (Dual3_f_re x).
Proof. intros x; destruct x; re_solve. Qed.
Lemma re_is_inner_Dual3_ln : forall x : Dual3 T, Dual3_f_re (m_ln x) = m_ln (Dual3_f_re x).
Proof. intros x; destruct x; re_solve. Qed.
Lemma re_is_inner_Dual3_log2 : forall x : Dual3 T, Dual3_f_re (m_log2 x) = m_log2 (Dual3_f_re x).
Proof. intros x; destruct x; re_solve. Qed.
Lemma re_is_inner_Dual3_log10 : forall x : Dual3 T, Dual3_f_re (m_log10 x) = m_log10 (Dual3_f_re x).
Proof. intros x; destruct x; re_solve. Qed.
Lemma re_is_inner_Dual3_ln_1p : forall x : Dual3 T, Dual3_f_re (m_ln_1p x) = m_ln_1p (Dual3_f_re x).
Proof. intros x; destruct x; re_solve. Qed.
Lemma re_is_inner_Dual3_sin : forall x : Dual3 T, Dual3_f_re (m_sin x) = fst (m_sin_cos (Dual3_f_re x)).
Proof. intros x; destruct x; re_solve. Qed.
Lemma re_is_inner_Dual3_cos : forall x : Dual3 T, Dual3_f_re (m_cos x) = snd (m_sin_cos (Dual3_f_re x)).
Proof. intros x; destruct x; re_solve. Qed.
Lemma re_is_inner_Dual3_asin : forall x : Dual3 T, Dual3_f_re (m_asin x) = m_asin (Dual3_f_re x).
Proof. intros x; destruct x; re_solve. Qed.
Lemma re_is_inner_Dual3_acos : forall x : Dual3 T, Dual3_f_re (m_acos x) = m_acos (Dual3_f_re x).
Proof. intros x; destruct x; re_solve. Qed.
Lemma re_is_inner_Dual3_atan : forall x : Dual3 T, Dual3_f_re (m_atan x) = m_atan (Dual3_f_re x).
Proof. intros x; destruct x; re_solve. Qed.
Lemma re_is_inner_Dual3_sinh : forall x : Dual3 T, Dual3_f_re (m_sinh x) = m_sinh (Dual3_f_re x).
Proof. intros x; destruct x; re_solve. Qed.
Lemma re_is_inner_Dual3_cosh : forall x : Dual3 T, Dual3_f_re (m_cosh x) = m_cosh (Dual3_f_re x).
Proof. intros x; destruct x; re_solve. Qed.
Lemma re_is_inner_Dual3_asinh : forall x : Dual3 T, Dual3_f_re (m_asinh x) = m_asinh (Dual3_f_re x).
Proof. intros x; destruct x; re_solve. Qed.
Lemma re_is_inner_Dual3_acosh : forall x : Dual3 T, Dual3_f_re (m_acosh x) = m_acosh (Dual3_f_re x).
Proof. intros x; destruct x; re_solve. Qed.
Lemma re_is_inner_Dual3_atanh : forall x : Dual3 T, Dual3_f_re (m_atanh x) = m_atanh (Dual3_f_re x).
Proof. intros x; destruct x; re_solve. Qed.
Lemma re_only_Dual3_powi : forall (n : Z) (x x' : Dual3 T), Dual3_f_re x = Dual3_f_re x' -> Dual3_f_re (m_powi x n) = Dual3_f_re (m_powi x' n).
Proof. intros n x x' H; destruct x, x'; simpl in H; subst; destruct n as [|[[p|p|]|[p|p|]|]|p]; reflexivity. Qed.
Lemma re_only_Dual3_powf : forall (q : F) (x x' : Dual3 T), Dual3_f_re x = Dual3_f_re x' -> Dual3_f_re (m_powf x q) = Dual3_f_re (m_powf x' q).
Proof. intros q x x' H; destruct x, x'; simpl in H; subst; re_solve. Qed.
Lemma re_only_Dual3_log : forall (q : F) (x x' : Dual3 T), Dual3_f_re x = Dual3_f_re x' -> Dual3_f_re (m_log x q) = Dual3_f_re (m_log x' q).
Proof. intros q x x' H; destruct x, x'; simpl in H; subst; re_solve. Qed.
Lemma re_only_Dual3_add : forall x x' y y' : Dual3 T, Dual3_f_re x = Dual3_f_re x' -> Dual3_f_re y = Dual3_f_re y' -> Dual3_f_re (x + y) = Dual3_f_re (x' + y').
Proof. intros x x' y y' H1 H2; destruct x, x', y, y'; simpl in H1, H2; subst; re_solve. Qed.
Lemma re_only_Dual3_sub : forall x x' y y' : Dual3 T, Dual3_f_re x = Dual3_f_re x' -> Dual3_f_re y = Dual3_f_re y' -> Dual3_f_re (x - y) = Dual3_f_re (x' - y').
Proof. intros x x' y y' H1 H2; destruct x, x', y, y'; simpl in H1, H2; subst; re_solve. Qed.
Lemma re_only_Dual3_mul : forall x x' y y' : Dual3 T, Dual3_f_re x = Dual3_f_re x' -> Dual3_f_re y = Dual3_f_re y' -> Dual3_f_re (x * y) = Dual3_f_re (x' * y').
Proof. intros x x' y y' H1 H2; destruct x, x', y, y'; simpl in H1, H2; subst; re_solve. Qed.
Lemma re_only_Dual3_div : forall x x' y y' : Dual3 T, Dual3_f_re x = Dual3_f_re x' -> Dual3_f_re y = Dual3_f_re y' -> Dual3_f_re (x / y) = Dual3_f_re (x' / y').
Proof. intros x x' y y' H1 H2; destruct x, x', y, y'; simpl in H1, H2; subst; re_solve. Qed.
Lemma re_only_Dual3_powd : forall x x' y y' : Dual3 T, Dual3_f_re x = Dual3_f_re x' -> Dual3_f_re y = Dual3_f_re y' -> Dual3_f_re (m_powd x y) = Dual3_f_re (m_powd x' y').
Proof. intros x x' y y' H1 H2; destruct x, x', y, y'; simpl in H1, H2; subst; re_solve. Qed.
Lemma re_only_Dual3_atan2 : forall x x' y y' : Dual3 T, Dual3_f_re x = Dual3_f_re x' -> Dual3_f_re y = Dual3_f_re y' -> Dual3_f_re (m_atan2 x y) = Dual3_f_re (m_atan2 x' y').
Proof. intros x x' y y' H1 H2; destruct x, x', y, y'; simpl in H1, H2; subst; re_solve. Qed.
Lemma re_only_Dual3_abs_sub : forall x x' y y' : Dual3 T, Dual3_f_re x = Dual3_f_re x' -> Dual3_f_re y = Dual3_f_re y' -> Dual3_f_re (m_abs_sub x y) = Dual3_f_re (m_abs_sub x' y').
Proof. intros x x' y y' H1 H2; destruct x, x', y, y'; simpl in H1, H2; subst; re_solve. Qed.
Lemma re_is_inner_Dual3_add : forall x y : Dual3 T, Dual3_f_re (x + y) = Dual3_f_re x + Dual3_f_re y.
Proof. intros x y; destruct x, y; re_solve. Qed.
Lemma re_is_inner_Dual3_sub : forall x y : Dual3 T, Dual3_f_re (x - y) = Dual3_f_re x - Dual3_f_re y.
Proof. intros x y; destruct x, y; re_solve. Qed.
Lemma re_is_inner_Dual3_mul : forall x y : Dual3 T, Dual3_f_re (x * y) = Dual3_f_re x * Dual3_f_re y.
Proof. intros x y; destruct x, y; re_solve. Qed.
Lemma re_is_inner_Dual3_neg : forall x : Dual3 T, Dual3_f_re (- x) = - (Dual3_f_re x).
Proof. intros x; destruct x; re_solve. Qed.
Lemma re_only_Dual3_mul_add : forall x x' y y' z z' : Dual3 T, Dual3_f_re x = Dual3_f_re x' -> Dual3_f_re y = Dual3_f_re y' -> Dual3_f_re z = Dual3_f_re z' -> Dual3_f_re (m_mul_add x y z) = Dual3_f_re (m_mul_add x' y' z').
Proof. intros x x' y y' z z' H1 H2 H3; destruct x, x', y, y', z, z'; simpl in H1, H2, H3; subst; re_solve. Qed.
Lemma pred_Dual3_is_zero : forall x x' : Dual3 T, Dual3_f_re x = Dual3_f_re x' -> m_is_zero x = m_is_zero x'.
Proof. intros x x' H; destruct x, x'; simpl in H; subst; re_solve. Qed.
Lemma pred_Dual3_is_one : forall x x' : Dual3 T, Dual3_f_re x = Dual3_f_re x' -> m_is_one x = m_is_one x'.
Proof. intros x x' H; destruct x, x'; simpl in H; subst; re_solve. Qed.
Lemma pred_Dual3_is_positive : forall x x' : Dual3 T, Dual3_f_re x = Dual3_f_re x' -> m_is_positive x = m_is_positive x'.
Proof. intros x x' H; destruct x, x'; simpl in H; subst; re_solve. Qed.
Lemma pred_Dual3_is_negative : forall x x' : Dual3 T, Dual3_f_re x = Dual3_f_re x' -> m_is_negative x = m_is_negative x'.
Proof. intros x x' H; destruct x, x'; simpl in H; subst; re_solve. Qed.
Lemma re_only_Dual3_addF : forall (q : F) (x x' : Dual3 T), Dual3_f_re x = Dual3_f_re x' -> Dual3_f_re (x + q) = Dual3_f_re (x' + q).
Proof. intros q x x' H; destruct x, x'; simpl in H; subst; re_solve. Qed.
Lemma re_only_Dual3_subF : forall (q : F) (x x' : Dual3 T), Dual3_f_re x = Dual3_f_re x' -> Dual3_f_re (x - q) = Dual3_f_re (x' - q).
Proof. intros q x x' H; destruct x, x'; simpl in H; subst; re_solve. Qed.
Lemma re_only_Dual3_mulF : forall (q : F) (x x' : Dual3 T), Dual3_f_re x = Dual3_f_re x' -> Dual3_f_re (x * q) = Dual3_f_re (x' * q).
Proof. intros q x x' H; destruct x, x'; simpl in H; subst; re_solve. Qed.
Lemma re_only_Dual3_divF : forall (q : F) (x x' : Dual3 T), Dual3_f_re x = Dual3_f_re x' -> Dual3_f_re (x / q) = Dual3_f_re (x' / q).
Proof. intros q x x' H; destruct x, x'; simpl in H; subst; re_solve. Qed.
Lemma re_only_HyperDual_recip : forall x x' : HyperDual T, HyperDual_f_re x = HyperDual_f_re x' -> HyperDual_f_re (m_recip x) = HyperDual_f_re (m_recip x').
Proof. intros x x' H; destruct x, x'; simpl in H; subst; re_solve. Qed.
Lemma re_only_HyperDual_sqrt : forall x x' : HyperDual T, HyperDual_f_re x = HyperDual_f_re x' -> HyperDual_f_re (m_sqrt x) = HyperDual_f_re (m_sqrt x').
Proof. intros x x' H; destruct x, x'; simpl in H; subst; re_solve. Qed.
Lemma re_only_HyperDual_cbrt : forall x x' : HyperDual T, HyperDual_f_re x = HyperDual_f_re x' -> HyperDual_f_re (m_cbrt x) = HyperDual_f_re (m_cbrt x').
Proof. intros x x' H; destruct x, x'; simpl in H; subst; re_solve. Qed.
Lemma re_only_HyperDual_exp : forall x x' : HyperDual T, HyperDual_f_re x = HyperDual_f_re x' -> HyperDual_f_re (m_exp x) = HyperDual_f_re (m_exp x').
Proof. intros x x' H; destruct x, x'; simpl in H; subst; re_solve. Qed.
Lemma re_only_HyperDual_exp2 : forall x x' : HyperDual T, HyperDual_f_re x = HyperDual_f_re x' -> HyperDual_f_re (m_exp2 x) = HyperDual_f_re (m_exp2 x').
Proof. intros x x' H; destruct x, x'; simpl in H; subst; re_solve. Qed.
Lemma re_only_HyperDual_exp_m1 : forall x x' : HyperDual T, HyperDual_f_re x = HyperDual_f_re x' -> HyperDual_f_re (m_exp_m1 x) = HyperDual_f_re (m_exp_m1 x').
Proof. intros x x' H; destruct x, x'; simpl in H; subst; re_solve. Qed.
Lemma re_only_HyperDual_ln : forall x x' : HyperDual T, HyperDual_f_re x = HyperDual_f_re x' -> HyperDual_f_re (m_ln x) = HyperDual_f_re (m_ln x').
Proof. intros x x' H; destruct x, x'; simpl in H; subst; re_solve. Qed.
Lemma re_only_HyperDual_log2 : forall x x' : HyperDual T, HyperDual_f_re x = HyperDual_f_re x' -> HyperDual_f_re (m_log2 x) = HyperDual_f_re (m_log2 x').
Proof. intros x x' H; destruct x, x'; simpl in H; subst; re_solve. Qed.
Lemma re_only_HyperDual_log10 : forall x x' : HyperDual T, HyperDual_f_re x = HyperDual_f_re x' -> HyperDual_f_re (m_log10 x) = HyperDual_f_re (m_log10 x').
Proof. intros x x' H; destruct x, x'; simpl in H; subst; re_solve. Qed.
Lemma re_only_HyperDual_ln_1p : forall x x' : HyperDual T, HyperDual_f_re x = HyperDual_f_re x' -> HyperDual_f_re (m_ln_1p x) = HyperDual_f_re (m_ln_1p x').
Proof. intros x x' H; destruct x, x'; simpl in H; subst; re_solve. Qed.
Lemma re_only_HyperDual_sin : forall x x' : HyperDual T, HyperDual_f_re x = HyperDual_f_re x' -> HyperDual_f_re (m_sin x) = HyperDual_f_re (m_sin x').
Proof. intros x x' H; destruct x, x'; simpl in H; subst; re_solve. Qed.
Lemma re_only_HyperDual_cos : forall x x' : HyperDual T, HyperDual_f_re x = HyperDual_f_re x' -> HyperDual_f_re (m_cos x) = HyperDual_f_re (m_cos x').
Proof. intros x x' H; destruct x, x'; simpl in H; subst; re_solve. Qed.
Lemma re_only_HyperDual_asin : forall x x' : HyperDual T, HyperDual_f_re x = HyperDual_f_re x' -> HyperDual_f_re (m_asin x) = HyperDual_f_re (m_asin x').
Proof. intros x x' H; destruct x, x'; simpl in H; subst; re_solve. Qed.
Lemma re_only_HyperDual_acos : forall x x' : HyperDual T, HyperDual_f_re x = HyperDual_f_re x' -> HyperDual_f_re (m_acos x) = HyperDual_f_re (m_acos x').
Proof. intros x x' H; destruct x, x'; simpl in H; subst; re_solve. Qed.
Lemma re_only_HyperDual_atan : forall x x' : HyperDual T, HyperDual_f_re x = HyperDual_f_re x' -> HyperDual_f_re (m_atan x) = HyperDual_f_re (m_atan x').
Proof. intros x x' H; destruct x, x'; simpl in H; subst; re_solve. Qed.
Lemma re_only_HyperDual_sinh : forall x x' : HyperDual T, HyperDual_f_re x = HyperDual_f_re x' -> HyperDual_f_re (m_sinh x) = HyperDual_f_re (m_sinh x').
Proof. intros x x' H; destruct x, x'; simpl in H; subst; re_solve. Qed.
Lemma re_only_HyperDual_cosh : forall x x' : HyperDual T, HyperDual_f_re x = HyperDual_f_re x' -> HyperDual_f_re (m_cosh x) = HyperDual_f_re (m_cosh x').
Proof. intros x x' H; destruct x, x'; simpl in H; subst; re_solve. Qed.
Lemma re_only_HyperDual_asinh : forall x x' : HyperDual T, HyperDual_f_re x = HyperDual_f_re x' -> HyperDual_f_re (m_asinh x) = HyperDual_f_re (m_asinh x').
Proof. intros x x' H; destruct x, x'; simpl in H; subst; re_solve. Qed.
Lemma re_only_HyperDual_acosh : forall x x' : HyperDual T, HyperDual_f_re x = HyperDual_f_re x' -> HyperDual_f_re (m_acosh x) = HyperDual_f_re (m_acosh x').
Proof. intros x x' H; destruct x, x'; simpl in H; subst; re_solve. Qed.
Lemma re_only_HyperDual_atanh : forall x x' : HyperDual T, HyperDual_f_re x = HyperDual_f_re x' -> HyperDual_f_re (m_atanh x) = HyperDual_f_re (m_atanh x').
Proof. intros x x' H; destruct x, x'; simpl in H; subst; re_solve. Qed.
Lemma re_only_HyperDual_tan : forall x x' : HyperDual T, HyperDual_f_re x = HyperDual_f_re x' -> HyperDual_f_re (m_tan x) = HyperDual_f_re (m_tan x').
Proof. intros x x' H; destruct x, x'; simpl in H; subst; re_solve. Qed.
Lemma re_only_HyperDual_tanh : forall x x' : HyperDual T, HyperDual_f_re x = HyperDual_f_re x' -> HyperDual_f_re (m_tanh x) = HyperDual_f_re (m_tanh x').
Proof. intros x x' H; destruct x, x'; simpl in H; subst; re_solve. Qed.
Lemma re_only_HyperDual_sph_j0 : forall x x' : HyperDual T, HyperDual_f_re x = HyperDual_f_re x' -> HyperDual_f_re (m_sph_j0 x) = HyperDual_f_re (m_sph_j0 x').
Proof. intros x x' H; destruct x, x'; simpl in H; subst; re_solve. Qed.
Lemma re_only_HyperDual_sph_j1 : forall x x' : HyperDual T, HyperDual_f_re x = HyperDual_f_re x' -> HyperDual_f_re (m_sph_j1 x) = HyperDual_f_re (m_sph_j1 x').
Proof. intros x x' H; destruct x, x'; simpl in H; subst; re_solve. Qed.
Lemma re_only_HyperDual_sph_j2 : forall x x' : HyperDual T, HyperDual_f_re x = HyperDual_f_re x' -> HyperDual_f_re (m_sph_j2 x) = HyperDual_f_re (m_sph_j2 x').
Proof. intros x x' H; destruct x, x'; simpl in H; subst; re_solve. Qed.
Lemma re_only_HyperDual_abs : forall x x' : HyperDual T, HyperDual_f_re x = HyperDual_f_re x' -> HyperDual_f_re (m_abs x) = HyperDual_f_re (m_abs x').
Proof. intros x x' H; destruct x, x'; simpl in H; subst; re_solve. Qed.
Lemma re_only_HyperDual_signum : forall x x' : HyperDual T, HyperDual_f_re x = HyperDual_f_re x' -> HyperDual_f_re (m_signum x) = HyperDual_f_re (m_signum x').
Proof. intros x x' H; destruct x, x'; simpl in H; subst; re_solve. Qed.
Lemma re_only_HyperDual_inv : forall x x' : HyperDual T, HyperDual_f_re x = HyperDual_f_re x' -> HyperDual_f_re (m_inv x) = HyperDual_f_re (m_inv x').
Proof. intros x x' H; destruct x, x'; simpl in H; subst; re_solve. Qed.
Lemma re_is_inner_HyperDual_recip : forall x : HyperDual T, HyperDual_f_re (m_recip x) = m_recip (HyperDual_f_re x).
Proof. intros x; destruct x; re_solve. Qed.
Lemma re_is_inner_HyperDual_sqrt : forall x : HyperDual T, HyperDual_f_re (m_sqrt x) = m_sqrt (HyperDual_f_re x).
Proof. intros x; destruct x; re_solve. Qed.
Lemma re_is_inner_HyperDual_cbrt : forall x : HyperDual T, HyperDual_f_re (m_cbrt x) = m_cbrt (HyperDual_f_re x).
Proof. intros x; destruct x; re_solve. Qed.
Lemma re_is_inner_HyperDual_exp : forall x : HyperDual T, HyperDual_f_re (m_exp x) = m_exp (HyperDual_f_re x).
Proof. intros x; destruct x; re_solve. Qed.
Lemma re_is_inner_HyperDual_exp2 : forall x : HyperDual T, HyperDual_f_re (m_exp2 x) = m_exp2 (HyperDual_f_re x).
Proof. intros x; destruct x; re_solve. Qed.
Lemma re_is_inner_HyperDual_exp_m1 : forall x : HyperDual T, HyperDual_f_re (m_exp_m1 x) = m_exp_m1 (HyperDual_f_re x).
Proof. intros x; destruct x; re_solve. Qed.
Lemma re_is_inner_HyperDual_ln : forall x : HyperDual T, HyperDual_f_re (m_ln x) = m_ln (HyperDual_f_re x).
Proof. intros x; destruct x; re_solve. Qed.
Lemma re_is_inner_HyperDual_log2 : forall x : HyperDual T, HyperDual_f_re (m_log2 x) = m_log2 (HyperDual_f_re x).
Proof. intros x; destruct x; re_solve. Qed.
Lemma re_is_inner_HyperDual_log10 : forall x : HyperDual T, HyperDual_f_re (m_log10 x) = m_log10 (HyperDual_f_re x).
Proof. intros x; destruct x; re_solve. Qed.
Lemma re_is_inner_HyperDual_ln_1p : forall x : HyperDual T, HyperDual_f_re (m_ln_1p x) = m_ln_1p (HyperDual_f_re x).
Proof. intros x; destruct x; re_solve. Qed.
Lemma re_is_inner_HyperDual_sin : forall x : HyperDual T, HyperDual_f_re (m_sin x) = fst (m_sin_cos (HyperDual_f_re x)).
Proof. intros x; destruct x; re_solve. Qed.
Lemma re_is_inner_HyperDual_cos : forall x : HyperDual T, HyperDual_f_re (m_cos x) = snd (m_sin_cos (HyperDual_f_re x)).
Proof. intros x; destruct x; re_solve. Qed.
Lemma re_is_inner_HyperDual_asin : forall x : HyperDual T, HyperDual_f_re (m_asin x) = m_asin (HyperDual_f_re x).
Proof. intros x; destruct x; re_solve. Qed.
Lemma re_is_inner_HyperDual_acos : forall x : HyperDual T, HyperDual_f_re (m_acos x) = m_acos (HyperDual_f_re x).
Proof. intros x; destruct x; re_solve. Qed.
Lemma re_is_inner_HyperDual_atan : forall x : HyperDual T, HyperDual_f_re (m_atan x) = m_atan (HyperDual_f_re x).
Proof. intros x; destruct x; re_solve. Qed.
Lemma re_is_inner_HyperDual_sinh : forall x : HyperDual T, HyperDual_f_re (m_sinh x) = m_sinh (HyperDual_f_re x).
Proof. intros x; destruct x; re_solve. Qed.
Lemma re_is_inner_HyperDual_cosh : forall x : HyperDual T, HyperDual_f_re (m_cosh x) = m_cosh (HyperDual_f_re x).
Proof. intros x; destruct x; re_solve. Qed.
Lemma re_is_inner_HyperDual_asinh : forall x : HyperDual T, HyperDual_f_re (m_asinh x) = m_asinh (HyperDual_f_re x).
Proof. intros x; destruct x; re_solve. Qed.
Lemma re_is_inner_HyperDual_acosh : forall x : HyperDual T, HyperDual_f_re (m_acosh x) = m_acosh (HyperDual_f_re x).
Proof. intros x; destruct x; re_solve. Qed.
Lemma re_is_inner_HyperDual_atanh : forall x : HyperDual T, HyperDual_f_re (m_atanh x) = m_atanh (HyperDual_f_re x).
Proof. intros x; destruct x; re_solve. Qed.
Lemma re_only_HyperDual_powi : forall (n : Z) (x x' : HyperDual T), HyperDual_f_re x = HyperDual_f_re x' -> HyperDual_f_re (m_powi x n) = HyperDual_f_re (m_powi x' n).
Proof. intros n x x' H; destruct x, x'; simpl in H; subst; destruct n as [|[[p|p|]|[p|p|]|]|p]; reflexivity. Qed.
Lemma re_only_HyperDual_powf : forall (q : F) (x x' : HyperDual T), HyperDual_f_re x = HyperDual_f_re x' -> HyperDual_f_re (m_powf x q) = HyperDual_f_re (m_powf x' q).
Proof. intros q x x' H; destruct x, x'; simpl in H; subst; re_solve. Qed.
Lemma re_only_HyperDual_log : forall (q : F) (x x' : HyperDual T), HyperDual_f_re x = HyperDual_f_re x' -> HyperDual_f_re (m_log x q) = HyperDual_f_re (m_log x' q).
Proof. intros q x x' H; destruct x, x'; simpl in H; subst; re_solve. Qed.
Lemma re_only_HyperDual_add : forall x x' y y' : HyperDual T, HyperDual_f_re x = HyperDual_f_re x' -> HyperDual_f_re y = HyperDual_f_re y' -> HyperDual_f_re (x + y) = HyperDual_f_re (x' + y').
Proof. intros x x' y y' H1 H2; destruct x, x', y, y'; simpl in H1, H2; subst; re_solve. Qed.
Lemma re_only_HyperDual_sub : forall x x' y y' : HyperDual T, HyperDual_f_re x = HyperDual_f_re x' -> HyperDual_f_re y = HyperDual_f_re y' -> HyperDual_f_re (x - y) = HyperDual_f_re (x' - y').
Proof. intros x x' y y' H1 H2; destruct x, x', y, y'; simpl in H1, H2; subst; re_solve. Qed.
Lemma re_only_HyperDual_mul : forall x x' y y' : HyperDual T, HyperDual_f_re x = HyperDual_f_re x' -> HyperDual_f_re y = HyperDual_f_re y' -> HyperDual_f_re (x * y) = HyperDual_f_re (x' * y').
Proof. intros x x' y y' H1 H2; destruct x, x', y, y'; simpl in H1, H2; subst; re_solve. Qed.
Lemma re_only_HyperDual_div : forall x x' y y' : HyperDual T, HyperDual_f_re x = HyperDual_f_re x' -> HyperDual_f_re y = HyperDual_f_re y' -> HyperDual_f_re (x / y) = HyperDual_f_re (x' / y').
Proof. intros x x' y y' H1 H2; destruct x, x', y, y'; simpl in H1, H2; subst; re_solve. Qed.
Lemma re_only_HyperDual_powd : forall x x' y y' : HyperDual T, HyperDual_f_re x = HyperDual_f_re x' -> HyperDual_f_re y = HyperDual_f_re y' -> HyperDual_f_re (m_powd x y) = HyperDual_f_re (m_powd x' y').
Proof. intros x x' y y' H1 H2; destruct x, x', y, y'; simpl in H1, H2; subst; re_solve. Qed.
Lemma re_only_HyperDual_atan2 : forall x x' y y' : HyperDual T, HyperDual_f_re x = HyperDual_f_re x' -> HyperDual_f_re y = HyperDual_f_re y' -> HyperDual_f_re (m_atan2 x y) = HyperDual_f_re (m_atan2 x' y').
Proof. intros x x' y y' H1 H2; destruct x, x', y, y'; simpl in H1, H2; subst; re_solve. Qed.
Lemma re_only_HyperDual_abs_sub : forall x x' y y' : HyperDual T, HyperDual_f_re x = HyperDual_f_re x' -> HyperDual_f_re y = HyperDual_f_re y' -> HyperDual_f_re (m_abs_sub x y) = HyperDual_f_re (m_abs_sub x' y').
Proof. intros x x' y y' H1 H2; destruct x, x', y, y'; simpl in H1, H2; subst; re_solve. Qed.
Lemma re_is_inner_HyperDual_add : forall x y : HyperDual T, HyperDual_f_re (x + y) = HyperDual_f_re x + HyperDual_f_re y.
Proof. intros x y; destruct x, y; re_solve. Qed.
Lemma re_is_inner_HyperDual_sub : forall x y : HyperDual T, HyperDual_f_re (x - y) = HyperDual_f_re x - HyperDual_f_re y.
Proof. intros x y; destruct x, y; re_solve. Qed.
Lemma re_is_inner_HyperDual_mul : forall x y : HyperDual T, HyperDual_f_re (x * y) = HyperDual_f_re x * HyperDual_f_re y.
Proof. intros x y; destruct x, y; re_solve. Qed.
Lemma re_is_inner_HyperDual_neg : forall x : HyperDual T, HyperDual_f_re (- x) = - (HyperDual_f_re x).
Proof. intros x; destruct x; re_solve. Qed.
Lemma re_only_HyperDual_mul_add : forall x x' y y' z z' : HyperDual T, HyperDual_f_re x = HyperDual_f_re x' -> HyperDual_f_re y = HyperDual_f_re y' -> HyperDual_f_re z = HyperDual_f_re z' -> HyperDual_f_re (m_mul_add x y z) = HyperDual_f_re (m_mul_add x' y' z').
Proof. intros x x' y y' z z' H1 H2 H3; destruct x, x', y, y', z, z'; simpl in H1, H2, H3; subst; re_solve. Qed.
Lemma pred_HyperDual_is_zero : forall x x' : HyperDual T, HyperDual_f_re x = HyperDual_f_re x' -> m_is_zero x = m_is_zero x'.
Proof. intros x x' H; destruct x, x'; simpl in H; subst; re_solve. Qed.
Lemma pred_HyperDual_is_one : forall x x' : HyperDual T, HyperDual_f_re x = HyperDual_f_re x' -> m_is_one x = m_is_one x'.
Proof. intros x x' H; destruct x, x'; simpl in H; subst; re_solve. Qed.
Lemma pred_HyperDual_is_positive : forall x x' : HyperDual T, HyperDual_f_re x = HyperDual_f_re x' -> m_is_positive x = m_is_positive x'.
Proof. intros x x' H; destruct x, x'; simpl in H; subst; re_solve. Qed.
Lemma pred_HyperDual_is_negative : forall x x' : HyperDual T, HyperDual_f_re x = HyperDual_f_re x' -> m_is_negative x = m_is_negative x'.
Proof. intros x x' H; destruct x, x'; simpl in H; subst; re_solve. Qed.
Lemma re_only_HyperDual_addF : forall (q : F) (x x' : HyperDual T), HyperDual_f_re x = HyperDual_f_re x' -> HyperDual_f_re (x + q) = HyperDual_f_re (x' + q).
Proof. intros q x x' H; destruct x, x'; simpl in H; subst; re_solve. Qed.
Lemma re_only_HyperDual_subF : forall (q : F) (x x' : HyperDual T), HyperDual_f_re x = HyperDual_f_re x' -> HyperDual_f_re (x - q) = HyperDual_f_re (x' - q).
Proof. intros q x x' H; destruct x, x'; simpl in H; subst; re_solve. Qed.
Lemma re_only_HyperDual_mulF : forall (q : F) (x x' : HyperDual T), HyperDual_f_re x = HyperDual_f_re x' -> HyperDual_f_re (x * q) = HyperDual_f_re (x' * q).
Proof. intros q x x' H; destruct x, x'; simpl in H; subst; re_solve. Qed.
Lemma re_only_HyperDual_divF : forall (q : F) (x x' : HyperDual T), HyperDual_f_re x = HyperDual_f_re x' -> HyperDual_f_re (x / q) = HyperDual_f_re (x' / q).
Proof. intros q x x' H; destruct x, x'; simpl in H; subst; re_solve. Qed.
Lemma re_only_HyperHyperDual_recip : forall x x' : HyperHyperDual T, HyperHyperDual_f_re x = HyperHyperDual_f_re x' -> HyperHyperDual_f_re (m_recip x) = HyperHyperDual_f_re (m_recip x').
Proof. intros x x' H; destruct x, x'; simpl in H; subst; re_solve. Qed.
Lemma re_only_HyperHyperDual_sqrt : forall x x' : HyperHyperDual T, HyperHyperDual_f_re x = HyperHyperDual_f_re x' -> HyperHyperDual_f_re (m_sqrt x) = HyperHyperDual_f_re (m_sqrt x').
Proof. intros x x' H; destruct x, x'; simpl in H; subst; re_solve. Qed.
Lemma re_only_HyperHyperDual_cbrt : forall x x' : HyperHyperDual T, HyperHyperDual_f_re x = HyperHyperDual_f_re x' -> HyperHyperDual_f_re (m_cbrt x) = HyperHyperDual_f_re (m_cbrt x').
Proof. intros x x' H; destruct x, x'; simpl in H; subst; re_solve. Qed.
Lemma re_only_HyperHyperDual_exp : forall x x' : HyperHyperDual T, HyperHyperDual_f_re x = HyperHyperDual_f_re x' -> HyperHyperDual_f_re (m_exp x) = HyperHyperDual_f_re (m_exp x').
Proof. intros x x' H; destruct x, x'; simpl in H; subst; re_solve. Qed.
Lemma re_only_HyperHyperDual_exp2 : forall x x' : HyperHyperDual T, HyperHyperDual_f_re x = HyperHyperDual_f_re x' -> HyperHyperDual_f_re (m_exp2 x) = HyperHyperDual_f_re (m_exp2 x').
Proof. intros x x' H; destruct x, x'; simpl in H; subst; re_solve. Qed.
Lemma re_only_HyperHyperDual_exp_m1 : forall x x' : HyperHyperDual T, HyperHyperDual_f_re x = HyperHyperDual_f_re x' -> HyperHyperDual_f_re (m_exp_m1 x) = HyperHyperDual_f_re (m_exp_m1 x').
Proof. intros x x' H; destruct x, x'; simpl in H; subst; re_solve. Qed.
Lemma re_only_HyperHyperDual_ln : forall x x' : HyperHyperDual T, HyperHyperDual_f_re x = HyperHyperDual_f_re x' -> HyperHyperDual_f_re (m_ln x) = HyperHyperDual_f_re (m_ln x').
Proof. intros x x' H; destruct x, x'; simpl in H; subst; re_solve. Qed.
Lemma re_only_HyperHyperDual_log2 : forall x x' : HyperHyperDual T, HyperHyperDual_f_re x = HyperHyperDual_f_re x' -> HyperHyperDual_f_re (m_log2 x) = HyperHyperDual_f_re (m_log2 x').
Proof. intros x x' H; destruct x, x'; simpl in H; subst; re_solve. Qed.
Lemma re_only_HyperHyperDual_log10 : forall x x' : HyperHyperDual T, HyperHyperDual_f_re x = HyperHyperDual_f_re x' -> HyperHyperDual_f_re (m_log10 x) = HyperHyperDual_f_re (m_log10 x').
Proof. intros x x' H; destruct x, x'; simpl in H; subst; re_solve. Qed.
Lemma re_only_HyperHyperDual_ln_1p : forall x x' : HyperHyperDual T, HyperHyperDual_f_re x = HyperHyperDual_f_re x' -> HyperHyperDual_f_re (m_ln_1p x) = HyperHyperDual_f_re (m_ln_1p x').
Proof. intros x x' H; destruct x, x'; simpl in H; subst; re_solve. Qed.
Lemma re_only_HyperHyperDual_sin : forall x x' : HyperHyperDual T, HyperHyperDual_f_re x = HyperHyperDual_f_re x' -> HyperHyperDual_f_re (m_sin x) = HyperHyperDual_f_re (m_sin x').
Proof. intros x x' H; destruct x, x'; simpl in H; subst; re_solve. Qed.
Lemma re_only_HyperHyperDual_cos : forall x x' : HyperHyperDual T, HyperHyperDual_f_re x = HyperHyperDual_f_re x' -> HyperHyperDual_f_re (m_cos x) = HyperHyperDual_f_re (m_cos x').
Proof. intros x x' H; destruct x, x'; simpl in H; subst; re_solve. Qed.
Lemma re_only_HyperHyperDual_asin : forall x x' : HyperHyperDual T, HyperHyperDual_f_re x = HyperHyperDual_f_re x' -> HyperHyperDual_f_re (m_asin x) = HyperHyperDual_f_re (m_asin x').
Proof. intros x x' H; destruct x, x'; simpl in H; subst; re_solve. Qed.
Lemma re_only_HyperHyperDual_acos : forall x x' : HyperHyperDual T, HyperHyperDual_f_re x = HyperHyperDual_f_re x' -> HyperHyperDual_f_re (m_acos x) = HyperHyperDual_f_re (m_acos x').
Proof. intros x x' H; destruct x, x'; simpl in H; subst; re_solve. Qed.
Lemma re_only_HyperHyperDual_atan : forall x x' : HyperHyperDual T, HyperHyperDual_f_re x = HyperHyperDual_f_re x' -> HyperHyperDual_f_re (m_atan x) = HyperHyperDual_f_re (m_atan x').
Proof. intros x x' H; destruct x, x'; simpl in H; subst; re_solve. Qed.
Lemma re_only_HyperHyperDual_sinh : forall x x' : HyperHyperDual T, HyperHyperDual_f_re x = HyperHyperDual_f_re x' -> HyperHyperDual_f_re (m_sinh x) = HyperHyperDual_f_re (m_sinh x').
Proof. intros x x' H; destruct x, x'; simpl in H; subst; re_solve. Qed.
Lemma re_only_HyperHyperDual_cosh : forall x x' : HyperHyperDual T, HyperHyperDual_f_re x = HyperHyperDual_f_re x' -> HyperHyperDual_f_re (m_cosh x) = HyperHyperDual_f_re (m_cosh x').
Proof. intros x x' H; destruct x, x'; simpl in H; subst; re_solve. Qed.
Lemma re_only_HyperHyperDual_asinh : forall x x' : HyperHyperDual T, HyperHyperDual_f_re x = HyperHyperDual_f_re x' -> HyperHyperDual_f_re (m_asinh x) = HyperHyperDual_f_re (m_asinh x').
Proof. intros x x' H; destruct x, x'; simpl in H; subst; re_solve. Qed.
Lemma re_only_HyperHyperDual_acosh : forall x x' : HyperHyperDual T, HyperHyperDual_f_re x = HyperHyperDual_f_re x' -> HyperHyperDual_f_re (m_acosh x) = HyperHyperDual_f_re (m_acosh x').
Proof. intros x x' H; destruct x, x'; simpl in H; subst; re_solve. Qed.
Lemma re_only_HyperHyperDual_atanh : forall x x' : HyperHyperDual T, HyperHyperDual_f_re x = HyperHyperDual_f_re x' -> HyperHyperDual_f_re (m_atanh x) = HyperHyperDual_f_re (m_atanh x').
Proof. intros x x' H; destruct x, x'; simpl in H; subst; re_solve. Qed.
Lemma re_only_HyperHyperDual_tan : forall x x' : HyperHyperDual T, HyperHyperDual_f_re x = HyperHyperDual_f_re x' -> HyperHyperDual_f_re (m_tan x) = HyperHyperDual_f_re (m_tan x').
Proof. intros x x' H; destruct x, x'; simpl in H; subst; re_solve. Qed.
Lemma re_only_HyperHyperDual_tanh : forall x x' : HyperHyperDual T, HyperHyperDual_f_re x = HyperHyperDual_f_re x' -> HyperHyperDual_f_re (m_tanh x) = HyperHyperDual_f_re (m_tanh x').
Proof. intros x x' H; destruct x, x'; simpl in H; subst; re_solve. Qed.
Lemma re_only_HyperHyperDual_sph_j0 : forall x x' : HyperHyperDual T, HyperHyperDual_f_re x = HyperHyperDual_f_re x' -> HyperHyperDual_f_re (m_sph_j0 x) = HyperHyperDual_f_re (m_sph_j0 x').
Proof. intros x x' H; destruct x, x'; simpl in H; subst; re_solve. Qed.
Lemma re_only_HyperHyperDual_sph_j1 : forall x x' : HyperHyperDual T, HyperHyperDual_f_re x = HyperHyperDual_f_re x' -> HyperHyperDual_f_re (m_sph_j1 x) = HyperHyperDual_f_re (m_sph_j1 x').
Proof. intros x x' H; destruct x, x'; simpl in H; subst; re_solve. Qed.
Lemma re_only_HyperHyperDual_sph_j2 : forall x x' : HyperHyperDual T, HyperHyperDual_f_re x = HyperHyperDual_f_re x' -> HyperHyperDual_f_re (m_sph_j2 x) = HyperHyperDual_f_re (m_sph_j2 x').
Proof. intros x x' H; destruct x, x'; simpl in H; subst; re_solve. Qed.
Lemma re_only_HyperHyperDual_abs : forall x x' : HyperHyperDual T, HyperHyperDual_f_re x = HyperHyperDual_f_re x' -> HyperHyperDual_f_re (m_abs x) = HyperHyperDual_f_re (m_abs x').
Proof. intros x x' H; destruct x, x'; simpl in H; subst; re_solve. Qed.
Lemma re_only_HyperHyperDual_signum : forall x x' : HyperHyperDual T, HyperHyperDual_f_re x = HyperHyperDual_f_re x' -> HyperHyperDual_f_re (m_signum x) = HyperHyperDual_f_re (m_signum x').
Proof. intros x x' H; destruct x, x'; simpl in H; subst; re_solve. Qed.
Lemma re_only_HyperHyperDual_inv : forall x x' : HyperHyperDual T, HyperHyperDual_f_re x = HyperHyperDual_f_re x' -> HyperHyperDual_f_re (m_inv x) = HyperHyperDual_f_re (m_inv x').
Proof. intros x x' H; destruct x, x'; simpl in H; subst; re_solve. Qed.
Lemma re_is_inner_HyperHyperDual_recip : forall x : HyperHyperDual T, HyperHyperDual_f_re (m_recip x) = m_recip (HyperHyperDual_f_re x).
Proof. intros x; destruct x; re_solve. Qed.
Lemma re_is_inner_HyperHyperDual_sqrt : forall x : HyperHyperDual T, HyperHyperDual_f_re (m_sqrt x) = m_sqrt (HyperHyperDual_f_re x).
Proof. intros x; destruct x; re_solve. Qed.
Lemma re_is_inner_HyperHyperDual_cbrt : forall x : HyperHyperDual T, HyperHyperDual_f_re (m_cbrt x) = m_cbrt (HyperHyperDual_f_re x).
Proof. intros x; destruct x; re_solve. Qed.
Lemma re_is_inner_HyperHyperDual_exp : forall x : HyperHyperDual T, HyperHyperDual_f_re (m_exp x) = m_exp (HyperHyperDual_f_re x).
Proof. intros x; destruct x; re_solve. Qed.
Lemma re_is_inner_HyperHyperDual_exp2 : forall x : HyperHyperDual T, HyperHyperDual_f_re (m_exp2 x) = m_exp2 (HyperHyperDual_f_re x).
Proof. intros x; destruct x; re_solve. Qed.
Lemma re_is_inner_HyperHyperDual_exp_m1 : forall x : HyperHyperDual T, HyperHyperDual_f_re (m_exp_m1 x) = m_exp_m1 (HyperHyperDual_f_re x).
Proof. intros x; destruct x; re_solve. Qed.
Lemma re_is_inner_HyperHyperDual_ln : forall x : HyperHyperDual T, HyperHyperDual_f_re (m_ln x) = m_ln (HyperHyperDual_f_re x).
Proof. intros x; destruct x; re_solve. Qed.
Lemma re_is_inner_HyperHyperDual_log2 : forall x : HyperHyperDual T, HyperHyperDual_f_re (m_log2 x) = m_log2 (HyperHyperDual_f_re x).
Proof. intros x; destruct x; re_solve. Qed.
Lemma re_is_inner_HyperHyperDual_log10 : forall x : HyperHyperDual T, HyperHyperDual_f_re (m_log10 x) = m_log10 (HyperHyperDual_f_re x).
Proof. intros x; destruct x; re_solve. Qed.
Lemma re_is_inner_HyperHyperDual_ln_1p : forall x : HyperHyperDual T, HyperHyperDual_f_re (m_ln_1p x) = m_ln_1p (HyperHyperDual_f_re x).
Proof. intros x; destruct x; re_solve. Qed.
Lemma re_is_inner_HyperHyperDual_sin : forall x : HyperHyperDual T, HyperHyperDual_f_re (m_sin x) = fst (m_sin_cos (HyperHyperDual_f_re x)).
Proof. intros x; destruct x; re_solve. Qed.
Lemma re_is_inner_HyperHyperDual_cos : forall x : HyperHyperDual T, HyperHyperDual_f_re (m_cos x) = snd (m_sin_cos (HyperHyperDual_f_re x)).
Proof. intros x; destruct x; re_solve. Qed.
Lemma re_is_inner_HyperHyperDual_asin : forall x : HyperHyperDual T, HyperHyperDual_f_re (m_asin x) = m_asin (HyperHyperDual_f_re x).
Proof. intros x; destruct x; re_solve. Qed.
Lemma re_is_inner_HyperHyperDual_acos : forall x : HyperHyperDual T, HyperHyperDual_f_re (m_acos x) = m_acos (HyperHyperDual_f_re x).
Proof. intros x; destruct x; re_solve. Qed.
Lemma re_is_inner_HyperHyperDual_atan : forall x : HyperHyperDual T, HyperHyperDual_f_re (m_atan x) = m_atan (HyperHyperDual_f_re x).
Proof. intros x; destruct x; re_solve. Qed.
Lemma re_is_inner_HyperHyperDual_sinh : forall x : HyperHyperDual T, HyperHyperDual_f_re (m_sinh x) = m_sinh (HyperHyperDual_f_re x).
Proof. intros x; destruct x; re_solve. Qed.
Lemma re_is_inner_HyperHyperDual_cosh : forall x : HyperHyperDual T, HyperHyperDual_f_re (m_cosh x) = m_cosh (HyperHyperDual_f_re x).
Proof. intros x; destruct x; re_solve. Qed.
Lemma re_is_inner_HyperHyperDual_asinh : forall x : HyperHyperDual T, HyperHyperDual_f_re (m_asinh x) = m_asinh (HyperHyperDual_f_re x).
Proof. intros x; destruct x; re_solve. Qed.
Lemma re_is_inner_HyperHyperDual_acosh : forall x : HyperHyperDual T, HyperHyperDual_f_re (m_acosh x) = m_acosh (HyperHyperDual_f_re x).
Proof. intros x; destruct x; re_solve. Qed.
Lemma re_is_inner_HyperHyperDual_atanh : forall x : HyperHyperDual T, HyperHyperDual_f_re (m_atanh x) = m_atanh (HyperHyperDual_f_re x).
Proof. intros x; destruct x; re_solve. Qed.
Lemma re_only_HyperHyperDual_powi : forall (n : Z) (x x' : HyperHyperDual T), HyperHyperDual_f_re x = HyperHyperDual_f_re x' -> HyperHyperDual_f_re (m_powi x n) = HyperHyperDual_f_re (m_powi x' n).
Proof. intros n x x' H; destruct x, x'; simpl in H; subst; destruct n as [|[[p|p|]|[p|p|]|]|p]; reflexivity. Qed.
Lemma re_only_HyperHyperDual_powf : forall (q : F) (x x' : HyperHyperDual T), HyperHyperDual_f_re x = HyperHyperDual_f_re x' -> HyperHyperDual_f_re (m_powf x q) = HyperHyperDual_f_re (m_powf x' q).
Proof. intros q x x' H; destruct x, x'; simpl in H; subst; re_solve. Qed.
Lemma re_only_HyperHyperDual_log : forall (q : F) (x x' : HyperHyperDual T), HyperHyperDual_f_re x = HyperHyperDual_f_re x' -> HyperHyperDual_f_re (m_log x q) = HyperHyperDual_f_re (m_log x' q).
Proof. intros q x x' H; destruct x, x'; simpl in H; subst; re_solve. Qed.
Lemma re_only_HyperHyperDual_add : forall x x' y y' : HyperHyperDual T, HyperHyperDual_f_re x = HyperHyperDual_f_re x' -> HyperHyperDual_f_re y = HyperHyperDual_f_re y' -> HyperHyperDual_f_re (x + y) = HyperHyperDual_f_re (x' + y').
Proof. intros x x' y y' H1 H2; destruct x, x', y, y'; simpl in H1, H2; subst; re_solve. Qed.
Lemma re_only_HyperHyperDual_sub : forall x x' y y' : HyperHyperDual T, HyperHyperDual_f_re x = HyperHyperDual_f_re x' -> HyperHyperDual_f_re y = HyperHyperDual_f_re y' -> HyperHyperDual_f_re (x - y) = HyperHyperDual_f_re (x' - y').
Proof. intros x x' y y' H1 H2; destruct x, x', y, y'; simpl in H1, H2; subst; re_solve. Qed.
Lemma re_only_HyperHyperDual_mul : forall x x' y y' : HyperHyperDual T, HyperHyperDual_f_re x = HyperHyperDual_f_re x' -> HyperHyperDual_f_re y = HyperHyperDual_f_re y' -> HyperHyperDual_f_re (x * y) = HyperHyperDual_f_re (x' * y').
Proof. intros x x' y y' H1 H2; destruct x, x', y, y'; simpl in H1, H2; subst; re_solve. Qed.
Lemma re_only_HyperHyperDual_div : forall x x' y y' : HyperHyperDual T, HyperHyperDual_f_re x = HyperHyperDual_f_re x' -> HyperHyperDual_f_re y = HyperHyperDual_f_re y' -> HyperHyperDual_f_re (x / y) = HyperHyperDual_f_re (x' / y').
Proof. intros x x' y y' H1 H2; destruct x, x', y, y'; simpl in H1, H2; subst; re_solve. Qed.
Lemma re_only_HyperHyperDual_powd : forall x x' y y' : HyperHyperDual T, HyperHyperDual_f_re x = HyperHyperDual_f_re x' -> HyperHyperDual_f_re y = HyperHyperDual_f_re y' -> HyperHyperDual_f_re (m_powd x y) = HyperHyperDual_f_re (m_powd x' y').
Proof. intros x x' y y' H1 H2; destruct x, x', y, y'; simpl in H1, H2; subst; re_solve. Qed.
Lemma re_only_HyperHyperDual_atan2 : forall x x' y y' : HyperHyperDual T, HyperHyperDual_f_re x = HyperHyperDual_f_re x' -> HyperHyperDual_f_re y = HyperHyperDual_f_re y' -> HyperHyperDual_f_re (m_atan2 x y) = HyperHyperDual_f_re (m_atan2 x' y').
Proof. intros x x' y y' H1 H2; destruct x, x', y, y'; simpl in H1, H2; subst; re_solve. Qed.
Lemma re_only_HyperHyperDual_abs_sub : forall x x' y y' : HyperHyperDual T, HyperHyperDual_f_re x = HyperHyperDual_f_re x' -> HyperHyperDual_f_re y = HyperHyperDual_f_re y' -> HyperHyperDual_f_re (m_abs_sub x y) = HyperHyperDual_f_re (m_abs_sub x' y').
Proof. intros x x' y y' H1 H2; destruct x, x', y, y'; simpl in H1, H2; subst; re_solve. Qed.
Lemma re_is_inner_HyperHyperDual_add : forall x y : HyperHyperDual T, HyperHyperDual_f_re (x + y) = HyperHyperDual_f_re x + HyperHyperDual_f_re y.
Proof. intros x y; destruct x, y; re_solve. Qed.
Lemma re_is_inner_HyperHyperDual_sub : forall x y : HyperHyperDual T, HyperHyperDual_f_re (x - y) = HyperHyperDual_f_re x - HyperHyperDual_f_re y.
Proof. intros x y; destruct x, y; re_solve. Qed.
Lemma re_is_inner_HyperHyperDual_mul : forall x y : HyperHyperDual T, HyperHyperDual_f_re (x * y) = HyperHyperDual_f_re x * HyperHyperDual_f_re y.
Proof. intros x y; destruct x, y; re_solve. Qed.
Lemma re_is_inner_HyperHyperDual_neg : forall x : HyperHyperDual T, HyperHyperDual_f_re (- x) = - (HyperHyperDual_f_re x).
Proof. intros x; destruct x; re_solve. Qed.
Lemma re_only_HyperHyperDual_mul_add : forall x x' y y' z z' : HyperHyperDual T, HyperHyperDual_f_re x = HyperHyperDual_f_re x' -> HyperHyperDual_f_re y = HyperHyperDual_f_re y' -> HyperHyperDual_f_re z = HyperHyperDual_f_re z' -> HyperHyperDual_f_re (m_mul_add x y z) = HyperHyperDual_f_re (m_mul_add x' y' z').
Proof. intros x x' y y' z z' H1 H2 H3; destruct x, x', y, y', z, z'; simpl in H1, H2, H3; subst; re_solve. Qed.
Lemma pred_HyperHyperDual_is_zero : forall x x' : HyperHyperDual T, HyperHyperDual_f_re x = HyperHyperDual_f_re x' -> m_is_zero x = m_is_zero x'.
Proof. intros x x' H; destruct x, x'; simpl in H; subst; re_solve. Qed.
Lemma pred_HyperHyperDual_is_one : forall x x' : HyperHyperDual T, HyperHyperDual_f_re x = HyperHyperDual_f_re x' -> m_is_one x = m_is_one x'.
Proof. intros x x' H; destruct x, x'; simpl in H; subst; re_solve. Qed.
Lemma pred_HyperHyperDual_is_positive : forall x x' : HyperHyperDual T, HyperHyperDual_f_re x = HyperHyperDual_f_re x' -> m_is_positive x = m_is_positive x'.
Proof. intros x x' H; destruct x, x'; simpl in H; subst; re_solve. Qed.
Lemma pred_HyperHyperDual_is_negative : forall x x' : HyperHyperDual T, HyperHyperDual_f_re x = HyperHyperDual_f_re x' -> m_is_negative x = m_is_negative x'.
Proof. intros x x' H; destruct x, x'; simpl in H; subst; re_solve. Qed.
Lemma re_only_HyperHyperDual_addF : forall (q : F) (x x' : HyperHyperDual T), HyperHyperDual_f_re x = HyperHyperDual_f_re x' -> HyperHyperDual_f_re (x + q) = HyperHyperDual_f_re (x' + q).
Proof. intros q x x' H; destruct x, x'; simpl in H; subst; re_solve. Qed.
Lemma re_only_HyperHyperDual_subF : forall (q : F) (x x' : HyperHyperDual T), HyperHyperDual_f_re x = HyperHyperDual_f_re x' -> HyperHyperDual_f_re (x - q) = HyperHyperDual_f_re (x' - q).
Proof. intros q x x' H; destruct x, x'; simpl in H; subst; re_solve. Qed.
Lemma re_only_HyperHyperDual_mulF : forall (q : F) (x x' : HyperHyperDual T), HyperHyperDual_f_re x = HyperHyperDual_f_re x' -> HyperHyperDual_f_re (x * q) = HyperHyperDual_f_re (x' * q).
Proof. intros q x x' H; destruct x, x'; simpl in H; subst; re_solve. Qed.
Lemma re_only_HyperHyperDual_divF : forall (q : F) (x x' : HyperHyperDual T), HyperHyperDual_f_re x = HyperHyperDual_f_re x' -> HyperHyperDual_f_re (x / q) = HyperHyperDual_f_re (x' / q).
Proof. intros q x x' H; destruct x, x'; simpl in H; subst; re_solve. Qed.
Lemma re_only_DualVec_recip : forall x x' : DualVec T, DualVec_f_re x = DualVec_f_re x' -> DualVec_f_re (m_recip x) = DualVec_f_re (m_recip x').
Proof. intros x x' H; destruct x, x'; simpl in H; subst; re_solve. Qed.
Lemma re_only_DualVec_sqrt : forall x x' : DualVec T, DualVec_f_re x = DualVec_f_re x' -> DualVec_f_re (m_sqrt x) = DualVec_f_re (m_sqrt x').
Proof. intros x x' H; destruct x, x'; simpl in H; subst; re_solve. Qed.
Lemma re_only_DualVec_cbrt : forall x x' : DualVec T, DualVec_f_re x = DualVec_f_re x' -> DualVec_f_re (m_cbrt x) = DualVec_f_re (m_cbrt x').
Proof. intros x x' H; destruct x, x'; simpl in H; subst; re_solve. Qed.
Lemma re_only_DualVec_exp : forall x x' : DualVec T, DualVec_f_re x = DualVec_f_re x' -> DualVec_f_re (m_exp x) = DualVec_f_re (m_exp x').
Proof. intros x x' H; destruct x, x'; simpl in H; subst; re_solve. Qed.
Lemma re_only_DualVec_exp2 : forall x x' : DualVec T, DualVec_f_re x = DualVec_f_re x' -> DualVec_f_re (m_exp2 x) = DualVec_f_re (m_exp2 x').
Proof. intros x x' H; destruct x, x'; simpl in H; subst; re_solve. Qed.
Lemma re_only_DualVec_exp_m1 : forall x x' : DualVec T, DualVec_f_re x = DualVec_f_re x' -> DualVec_f_re (m_exp_m1 x) = DualVec_f_re (m_exp_m1 x').
Proof. intros x x' H; destruct x, x'; simpl in H; subst; re_solve. Qed.
Lemma re_only_DualVec_ln : forall x x' : DualVec T, DualVec_f_re x = DualVec_f_re x' -> DualVec_f_re (m_ln x) = DualVec_f_re (m_ln x').
Proof. intros x x' H; destruct x, x'; simpl in H; subst; re_solve. Qed.
Lemma re_only_DualVec_log2 : forall x x' : DualVec T, DualVec_f_re x = DualVec_f_re x' -> DualVec_f_re (m_log2 x) = DualVec_f_re (m_log2 x').
Proof. intros x x' H; destruct x, x'; simpl in H; subst; re_solve. Qed.
Lemma re_only_DualVec_log10 : forall x x' : DualVec T, DualVec_f_re x = DualVec_f_re x' -> DualVec_f_re (m_log10 x) = DualVec_f_re (m_log10 x').
Proof. intros x x' H; destruct x, x'; simpl in H; subst; re_solve. Qed.
Lemma re_only_DualVec_ln_1p : forall x x' : DualVec T, DualVec_f_re x = DualVec_f_re x' -> DualVec_f_re (m_ln_1p x) = DualVec_f_re (m_ln_1p x').
Proof. intros x x' H; destruct x, x'; simpl in H; subst; re_solve. Qed.
Lemma re_only_DualVec_sin : forall x x' : DualVec T, DualVec_f_re x = DualVec_f_re x' -> DualVec_f_re (m_sin x) = DualVec_f_re (m_sin x').
Proof. intros x x' H; destruct x, x'; simpl in H; subst; re_solve. Qed.
Lemma re_only_DualVec_cos : forall x x' : DualVec T, DualVec_f_re x = DualVec_f_re x' -> DualVec_f_re (m_cos x) = DualVec_f_re (m_cos x').
Proof. intros x x' H; destruct x, x'; simpl in H; subst; re_solve. Qed.
Lemma re_only_DualVec_asin : forall x x' : DualVec T, DualVec_f_re x = DualVec_f_re x' -> DualVec_f_re (m_asin x) = DualVec_f_re (m_asin x').
Proof. intros x x' H; destruct x, x'; simpl in H; subst; re_solve. Qed.
Lemma re_only_DualVec_acos : forall x x' : DualVec T, DualVec_f_re x = DualVec_f_re x' -> DualVec_f_re (m_acos x) = DualVec_f_re (m_acos x').
Proof. intros x x' H; destruct x, x'; simpl in H; subst; re_solve. Qed.
Lemma re_only_DualVec_atan : forall x x' : DualVec T, DualVec_f_re x = DualVec_f_re x' -> DualVec_f_re (m_atan x) = DualVec_f_re (m_atan x').
Proof. intros x x' H; destruct x, x'; simpl in H; subst; re_solve. Qed.
Lemma re_only_DualVec_sinh : forall x x' : DualVec T, DualVec_f_re x = DualVec_f_re x' -> DualVec_f_re (m_sinh x) = DualVec_f_re (m_sinh x').
Proof. intros x x' H; destruct x, x'; simpl in H; subst; re_solve. Qed.
Lemma re_only_DualVec_cosh : forall x x' : DualVec T, DualVec_f_re x = DualVec_f_re x' -> DualVec_f_re (m_cosh x) = DualVec_f_re (m_cosh x').
Proof. intros x x' H; destruct x, x'; simpl in H; subst; re_solve. Qed.
Lemma re_only_DualVec_asinh : forall x x' : DualVec T, DualVec_f_re x = DualVec_f_re x' -> DualVec_f_re (m_asinh x) = DualVec_f_re (m_asinh x').
Proof. intros x x' H; destruct x, x'; simpl in H; subst; re_solve. Qed.
Lemma re_only_DualVec_acosh : forall x x' : DualVec T, DualVec_f_re x = DualVec_f_re x' -> DualVec_f_re (m_acosh x) = DualVec_f_re (m_acosh x').
Proof. intros x x' H; destruct x, x'; simpl in H; subst; re_solve. Qed.
Lemma re_only_DualVec_atanh : forall x x' : DualVec T, DualVec_f_re x = DualVec_f_re x' -> DualVec_f_re (m_atanh x) = DualVec_f_re (m_atanh x').
Proof. intros x x' H; destruct x, x'; simpl in H; subst; re_solve. Qed.
Lemma re_only_DualVec_tan : forall x x' : DualVec T, DualVec_f_re x = DualVec_f_re x' -> DualVec_f_re (m_tan x) = DualVec_f_re (m_tan x').
Proof. intros x x' H; destruct x, x'; simpl in H; subst; re_solve. Qed.
Lemma re_only_DualVec_tanh : forall x x' : DualVec T, DualVec_f_re x = DualVec_f_re x' -> DualVec_f_re (m_tanh x) = DualVec_f_re (m_tanh x').
Proof. intros x x' H; destruct x, x'; simpl in H; subst; re_solve. Qed.
Lemma re_only_DualVec_sph_j0 : forall x x' : DualVec T, DualVec_f_re x = DualVec_f_re x' -> DualVec_f_re (m_sph_j0 x) = DualVec_f_re (m_sph_j0 x').
Proof. intros x x' H; destruct x, x'; simpl in H; subst; re_solve. Qed.
Lemma re_only_DualVec_sph_j1 : forall x x' : DualVec T, DualVec_f_re x = DualVec_f_re x' -> DualVec_f_re (m_sph_j1 x) = DualVec_f_re (m_sph_j1 x').
Proof. intros x x' H; destruct x, x'; simpl in H; subst; re_solve. Qed.
Lemma re_only_DualVec_sph_j2 : forall x x' : DualVec T, DualVec_f_re x = DualVec_f_re x' -> DualVec_f_re (m_sph_j2 x) = DualVec_f_re (m_sph_j2 x').
Proof. intros x x' H; destruct x, x'; simpl in H; subst; re_solve. Qed.
Lemma re_only_DualVec_abs : forall x x' : DualVec T, DualVec_f_re x = DualVec_f_re x' -> DualVec_f_re (m_abs x) = DualVec_f_re (m_abs x').
Proof. intros x x' H; destruct x, x'; simpl in H; subst; re_solve. Qed.
Lemma re_only_DualVec_signum : forall x x' : DualVec T, DualVec_f_re x = DualVec_f_re x' -> DualVec_f_re (m_signum x) = DualVec_f_re (m_signum x').
Proof. intros x x' H; destruct x, x'; simpl in H; subst; re_solve. Qed.
Lemma re_only_DualVec_inv : forall x x' : DualVec T, DualVec_f_re x = DualVec_f_re x' -> DualVec_f_re (m_inv x) = DualVec_f_re (m_inv x').
Proof. intros x x' H; destruct x, x'; simpl in H; subst; re_solve. Qed.
Lemma re_is_inner_DualVec_recip : forall x : DualVec T, DualVec_f_re (m_recip x) = m_recip (DualVec_f_re x).
Proof. intros x; destruct x; re_solve. Qed.
Lemma re_is_inner_DualVec_sqrt : forall x : DualVec T, DualVec_f_re (m_sqrt x) = m_sqrt (DualVec_f_re x).
Proof. intros x; destruct x; re_solve. Qed.
Lemma re_is_inner_DualVec_cbrt : forall x : DualVec T, DualVec_f_re (m_cbrt x) = m_cbrt (DualVec_f_re x).
Proof. intros x; destruct x; re_solve. Qed.
Lemma re_is_inner_DualVec_exp : forall x : DualVec T, DualVec_f_re (m_exp x) = m_exp (DualVec_f_re x).
Proof. intros x; destruct x; re_solve. Qed.
Lemma re_is_inner_DualVec_exp2 : forall x : DualVec T, DualVec_f_re (m_exp2 x) = m_exp2 (DualVec_f_re x).
Proof. intros x; destruct x; re_solve. Qed.
Lemma re_is_inner_DualVec_exp_m1 : forall x : DualVec T, DualVec_f_re (m_exp_m1 x) = m_exp_m1 (DualVec_f_re x).
Proof. intros x; destruct x; re_solve. Qed.
Lemma re_is_inner_DualVec_ln : forall x : DualVec T, DualVec_f_re (m_ln x) = m_ln (DualVec_f_re x).
Proof. intros x; destruct x; re_solve. Qed.
Lemma re_is_inner_DualVec_log2 : forall x : DualVec T, DualVec_f_re (m_log2 x) = m_log2 (DualVec_f_re x).
Proof. intros x; destruct x; re_solve. Qed.
Lemma re_is_inner_DualVec_log10 : forall x : DualVec T, DualVec_f_re (m_log10 x) = m_log10 (DualVec_f_re x).
Proof. intros x; destruct x; re_solve. Qed.
Lemma re_is_inner_DualVec_ln_1p : forall x : DualVec T, DualVec_f_re (m_ln_1p x) = m_ln_1p (DualVec_f_re x).
Proof. intros x; destruct x; re_solve. Qed.
Lemma re_is_inner_DualVec_sin : forall x : DualVec T, DualVec_f_re (m_sin x) = fst (m_sin_cos (DualVec_f_re x)).
Proof. intros x; destruct x; re_solve. Qed.
Lemma re_is_inner_DualVec_cos : forall x : DualVec T, DualVec_f_re (m_cos x) = snd (m_sin_cos (DualVec_f_re x)).
Proof. intros x; destruct x; re_solve. Qed.
Lemma re_is_inner_DualVec_asin : forall x : DualVec T, DualVec_f_re (m_asin x) = m_asin (DualVec_f_re x).
Proof. intros x; destruct x; re_solve. Qed.
Lemma re_is_inner_DualVec_acos : forall x : DualVec T, DualVec_f_re (m_acos x) = m_acos (DualVec_f_re x).
Proof. intros x; destruct x; re_solve. Qed.
Lemma re_is_inner_DualVec_atan : forall x : DualVec T, DualVec_f_re (m_atan x) = m_atan (DualVec_f_re x).
Proof. intros x; destruct x; re_solve. Qed.
Lemma re_is_inner_DualVec_sinh : forall x : DualVec T, DualVec_f_re (m_sinh x) = m_sinh (DualVec_f_re x).
Proof. intros x; destruct x; re_solve. Qed.
Lemma re_is_inner_DualVec_cosh : forall x : DualVec T, DualVec_f_re (m_cosh x) = m_cosh (DualVec_f_re x).
Proof. intros x; destruct x; re_solve. Qed.
Lemma re_is_inner_DualVec_asinh : forall x : DualVec T, DualVec_f_re (m_asinh x) = m_asinh (DualVec_f_re x).
Proof. intros x; destruct x; re_solve. Qed.
Lemma re_is_inner_DualVec_acosh : forall x : DualVec T, DualVec_f_re (m_acosh x) = m_acosh (DualVec_f_re x).
Proof. intros x; destruct x; re_solve. Qed.
Lemma re_is_inner_DualVec_atanh : forall x : DualVec T, DualVec_f_re (m_atanh x) = m_atanh (DualVec_f_re x).
Proof. intros x; destruct x; re_solve. Qed.
Lemma re_only_DualVec_powi : forall (n : Z) (x x' : DualVec T), DualVec_f_re x = DualVec_f_re x' -> DualVec_f_re (m_powi x n) = DualVec_f_re (m_powi x' n).
Proof. intros n x x' H; destruct x, x'; simpl in H; subst; destruct n as [|[[p|p|]|[p|p|]|]|p]; reflexivity. Qed.
Lemma re_only_DualVec_powf : forall (q : F) (x x' : DualVec T), DualVec_f_re x = DualVec_f_re x' -> DualVec_f_re (m_powf x q) = DualVec_f_re (m_powf x' q).
Proof. intros q x x' H; destruct x, x'; simpl in H; subst; re_solve. Qed.
Lemma re_only_DualVec_log : forall (q : F) (x x' : DualVec T), DualVec_f_re x = DualVec_f_re x' -> DualVec_f_re (m_log x q) = DualVec_f_re (m_log x' q).
Proof. intros q x x' H; destruct x, x'; simpl in H; subst; re_solve. Qed.
Lemma re_only_DualVec_add : forall x x' y y' : DualVec T, DualVec_f_re x = DualVec_f_re x' -> DualVec_f_re y = DualVec_f_re y' -> DualVec_f_re (x + y) = DualVec_f_re (x' + y').
Proof. intros x x' y y' H1 H2; destruct x, x', y, y'; simpl in H1, H2; subst; re_solve. Qed.
Lemma re_only_DualVec_sub : forall x x' y y' : DualVec T, DualVec_f_re x = DualVec_f_re x' -> DualVec_f_re y = DualVec_f_re y' -> DualVec_f_re (x - y) = DualVec_f_re (x' - y').
Proof. intros x x' y y' H1 H2; destruct x, x', y, y'; simpl in H1, H2; subst; re_solve. Qed.
Lemma re_only_DualVec_mul : forall x x' y y' : DualVec T, DualVec_f_re x = DualVec_f_re x' -> DualVec_f_re y = DualVec_f_re y' -> DualVec_f_re (x * y) = DualVec_f_re (x' * y').
Proof. intros x x' y y' H1 H2; destruct x, x', y, y'; simpl in H1, H2; subst; re_solve. Qed.
Lemma re_only_DualVec_div : forall x x' y y' : DualVec T, DualVec_f_re x = DualVec_f_re x' -> DualVec_f_re y = DualVec_f_re y' -> DualVec_f_re (x / y) = DualVec_f_re (x' / y').
Proof. intros x x' y y' H1 H2; destruct x, x', y, y'; simpl in H1, H2; subst; re_solve. Qed.
Lemma re_only_DualVec_powd : forall x x' y y' : DualVec T, DualVec_f_re x = DualVec_f_re x' -> DualVec_f_re y = DualVec_f_re y' -> DualVec_f_re (m_powd x y) = DualVec_f_re (m_powd x' y').
Proof. intros x x' y y' H1 H2; destruct x, x', y, y'; simpl in H1, H2; subst; re_solve. Qed.
Lemma re_only_DualVec_atan2 : forall x x' y y' : DualVec T, DualVec_f_re x = DualVec_f_re x' -> DualVec_f_re y = DualVec_f_re y' -> DualVec_f_re (m_atan2 x y) = DualVec_f_re (m_atan2 x' y').
Proof. intros x x' y y' H1 H2; destruct x, x', y, y'; simpl in H1, H2; subst; re_solve. Qed.
Lemma re_only_DualVec_abs_sub : forall x x' y y' : DualVec T, DualVec_f_re x = DualVec_f_re x' -> DualVec_f_re y = DualVec_f_re y' -> DualVec_f_re (m_abs_sub x y) = DualVec_f_re (m_abs_sub x' y').
Proof. intros x x' y y' H1 H2; destruct x, x', y, y'; simpl in H1, H2; subst; re_solve. Qed.
Lemma re_is_inner_DualVec_add : forall x y : DualVec T, DualVec_f_re (x + y) = DualVec_f_re x + DualVec_f_re y.
Proof. intros x y; destruct x, y; re_solve. Qed.
Lemma re_is_inner_DualVec_sub : forall x y : DualVec T, DualVec_f_re (x - y) = DualVec_f_re x - DualVec_f_re y.
Proof. intros x y; destruct x, y; re_solve. Qed.
Lemma re_is_inner_DualVec_mul : forall x y : DualVec T, DualVec_f_re (x * y) = DualVec_f_re x * DualVec_f_re y.
Proof. intros x y; destruct x, y; re_solve. Qed.
Lemma re_is_inner_DualVec_neg : forall x : DualVec T, DualVec_f_re (- x) = - (DualVec_f_re x).
Proof. intros x; destruct x; re_solve. Qed.
Lemma re_only_DualVec_mul_add : forall x x' y y' z z' : DualVec T, DualVec_f_re x = DualVec_f_re x' -> DualVec_f_re y = DualVec_f_re y' -> DualVec_f_re z = DualVec_f_re z' -> DualVec_f_re (m_mul_add x y z) = DualVec_f_re (m_mul_add x' y' z').
Proof. intros x x' y y' z z' H1 H2 H3; destruct x, x', y, y', z, z'; simpl in H1, H2, H3; subst; re_solve. Qed.
Lemma pred_DualVec_is_zero : forall x x' : DualVec T, DualVec_f_re x = DualVec_f_re x' -> m_is_zero x = m_is_zero x'.
Proof. intros x x' H; destruct x, x'; simpl in H; subst; re_solve. Qed.
Lemma pred_DualVec_is_one : forall x x' : DualVec T, DualVec_f_re x = DualVec_f_re x' -> m_is_one x = m_is_one x'.
Proof. intros x x' H; destruct x, x'; simpl in H; subst; re_solve. Qed.
Lemma pred_DualVec_is_positive : forall x x' : DualVec T, DualVec_f_re x = DualVec_f_re x' -> m_is_positive x = m_is_positive x'.
Proof. intros x x' H; destruct x, x'; simpl in H; subst; re_solve. Qed.
Lemma pred_DualVec_is_negative : forall x x' : DualVec T, DualVec_f_re x = DualVec_f_re x' -> m_is_negative x = m_is_negative x'.
Proof. intros x x' H; destruct x, x'; simpl in H; subst; re_solve. Qed.
Lemma re_only_DualVec_addF : forall (q : F) (x x' : DualVec T), DualVec_f_re x = DualVec_f_re x' -> DualVec_f_re (x + q) = DualVec_f_re (x' + q).
Proof. intros q x x' H; destruct x, x'; simpl in H; subst; re_solve. Qed.
Lemma re_only_DualVec_subF : forall (q : F) (x x' : DualVec T), DualVec_f_re x = DualVec_f_re x' -> DualVec_f_re (x - q) = DualVec_f_re (x' - q).
Proof. intros q x x' H; destruct x, x'; simpl in H; subst; re_solve. Qed.
Lemma re_only_DualVec_mulF : forall (q : F) (x x' : DualVec T), DualVec_f_re x = DualVec_f_re x' -> DualVec_f_re (x * q) = DualVec_f_re (x' * q).
Proof. intros q x x' H; destruct x, x'; simpl in H; subst; re_solve. Qed.
Lemma re_only_DualVec_divF : forall (q : F) (x x' : DualVec T), DualVec_f_re x = DualVec_f_re x' -> DualVec_f_re (x / q) = DualVec_f_re (x' / q).
Proof. intros q x x' H; destruct x, x'; simpl in H; subst; re_solve. Qed.
Lemma re_only_Dual2Vec_recip : forall x x' : Dual2Vec T, Dual2Vec_f_re x = Dual2Vec_f_re x' -> Dual2Vec_f_re (m_recip x) = Dual2Vec_f_re (m_recip x').
Proof. intros x x' H; destruct x, x'; simpl in H; subst; re_solve. Qed.
Lemma re_only_Dual2Vec_sqrt : forall x x' : Dual2Vec T, Dual2Vec_f_re x = Dual2Vec_f_re x' -> Dual2Vec_f_re (m_sqrt x) = Dual2Vec_f_re (m_sqrt x').
Proof. intros x x' H; destruct x, x'; simpl in H; subst; re_solve. Qed.
Lemma re_only_Dual2Vec_cbrt : forall x x' : Dual2Vec T, Dual2Vec_f_re x = Dual2Vec_f_re x' -> Dual2Vec_f_re (m_cbrt x) = Dual2Vec_f_re (m_cbrt x').
Proof. intros x x' H; destruct x, x'; simpl in H; subst; re_solve. Qed.
Lemma re_only_Dual2Vec_exp : forall x x' : Dual2Vec T, Dual2Vec_f_re x = Dual2Vec_f_re x' -> Dual2Vec_f_re (m_exp x) = Dual2Vec_f_re (m_exp x').
Proof. intros x x' H; destruct x, x'; simpl in H; subst; re_solve. Qed.
Lemma re_only_Dual2Vec_exp2 : forall x x' : Dual2Vec T, Dual2Vec_f_re x = Dual2Vec_f_re x' -> Dual2Vec_f_re (m_exp2 x) = Dual2Vec_f_re (m_exp2 x').
Proof. intros x x' H; destruct x, x'; simpl in H; subst; re_solve. Qed.
Lemma re_only_Dual2Vec_exp_m1 : forall x x' : Dual2Vec T, Dual2Vec_f_re x = Dual2Vec_f_re x' -> Dual2Vec_f_re (m_exp_m1 x) = Dual2Vec_f_re (m_exp_m1 x').
Proof. intros x x' H; destruct x, x'; simpl in H; subst; re_solve. Qed.
Lemma re_only_Dual2Vec_ln : forall x x' : Dual2Vec T, Dual2Vec_f_re x = Dual2Vec_f_re x' -> Dual2Vec_f_re (m_ln x) = Dual2Vec_f_re (m_ln x').
Proof. intros x x' H; destruct x, x'; simpl in H; subst; re_solve. Qed.
Lemma re_only_Dual2Vec_log2 : forall x x' : Dual2Vec T, Dual2Vec_f_re x = Dual2Vec_f_re x' -> Dual2Vec_f_re (m_log2 x) = Dual2Vec_f_re (m_log2 x').
Proof. intros x x' H; destruct x, x'; simpl in H; subst; re_solve. Qed.
Lemma re_only_Dual2Vec_log10 : forall x x' : Dual2Vec T, Dual2Vec_f_re x = Dual2Vec_f_re x' -> Dual2Vec_f_re (m_log10 x) = Dual2Vec_f_re (m_log10 x').
Proof. intros x x' H; destruct x, x'; simpl in H; subst; re_solve. Qed.
Lemma re_only_Dual2Vec_ln_1p : forall x x' : Dual2Vec T, Dual2Vec_f_re x = Dual2Vec_f_re x' -> Dual2Vec_f_re (m_ln_1p x) = Dual2Vec_f_re (m_ln_1p x').
Proof. intros x x' H; destruct x, x'; simpl in H; subst; re_solve. Qed.
Lemma re_only_Dual2Vec_sin : forall x x' : Dual2Vec T, Dual2Vec_f_re x = Dual2Vec_f_re x' -> Dual2Vec_f_re (m_sin x) = Dual2Vec_f_re (m_sin x').
Proof. intros x x' H; destruct x, x'; simpl in H; subst; re_solve. Qed.
Lemma re_only_Dual2Vec_cos : forall x x' : Dual2Vec T, Dual2Vec_f_re x = Dual2Vec_f_re x' -> Dual2Vec_f_re (m_cos x) = Dual2Vec_f_re (m_cos x').
Proof. intros x x' H; destruct x, x'; simpl in H; subst; re_solve. Qed.
Lemma re_only_Dual2Vec_asin : forall x x' : Dual2Vec T, Dual2Vec_f_re x = Dual2Vec_f_re x' -> Dual2Vec_f_re (m_asin x) = Dual2Vec_f_re (m_asin x').
Proof. intros x x' H; destruct x, x'; simpl in H; subst; re_solve. Qed.
Lemma re_only_Dual2Vec_acos : forall x x' : Dual2Vec T, Dual2Vec_f_re x = Dual2Vec_f_re x' -> Dual2Vec_f_re (m_acos x) = Dual2Vec_f_re (m_acos x').
Proof. intros x x' H; destruct x, x'; simpl in H; subst; re_solve. Qed.
Lemma re_only_Dual2Vec_atan : forall x x' : Dual2Vec T, Dual2Vec_f_re x = Dual2Vec_f_re x' -> Dual2Vec_f_re (m_atan x) = Dual2Vec_f_re (m_atan x').
Proof. intros x x' H; destruct x, x'; simpl in H; subst; re_solve. Qed.
Lemma re_only_Dual2Vec_sinh : forall x x' : Dual2Vec T, Dual2Vec_f_re x = Dual2Vec_f_re x' -> Dual2Vec_f_re (m_sinh x) = Dual2Vec_f_re (m_sinh x').
Proof. intros x x' H; destruct x, x'; simpl in H; subst; re_solve. Qed.
Lemma re_only_Dual2Vec_cosh : forall x x' : Dual2Vec T, Dual2Vec_f_re x = Dual2Vec_f_re x' -> Dual2Vec_f_re (m_cosh x) = Dual2Vec_f_re (m_cosh x').
Proof. intros x x' H; destruct x, x'; simpl in H; subst; re_solve. Qed.
Lemma re_only_Dual2Vec_asinh : forall x x' : Dual2Vec T, Dual2Vec_f_re x = Dual2Vec_f_re x' -> Dual2Vec_f_re (m_asinh x) = Dual2Vec_f_re (m_asinh x').
Proof. intros x x' H; destruct x, x'; simpl in H; subst; re_solve. Qed.
Lemma re_only_Dual2Vec_acosh : forall x x' : Dual2Vec T, Dual2Vec_f_re x = Dual2Vec_f_re x' -> Dual2Vec_f_re (m_acosh x) = Dual2Vec_f_re (m_acosh x').
Proof. intros x x' H; destruct x, x'; simpl in H; subst; re_solve. Qed.
Lemma re_only_Dual2Vec_atanh : forall x x' : Dual2Vec T, Dual2Vec_f_re x = Dual2Vec_f_re x' -> Dual2Vec_f_re (m_atanh x) = Dual2Vec_f_re (m_atanh x').
Proof. intros x x' H; destruct x, x'; simpl in H; subst; re_solve. Qed.
Lemma re_only_Dual2Vec_tan : forall x x' : Dual2Vec T, Dual2Vec_f_re x = Dual2Vec_f_re x' -> Dual2Vec_f_re (m_tan x) = Dual2Vec_f_re (m_tan x').
Proof. intros x x' H; destruct x, x'; simpl in H; subst; re_solve. Qed.
Lemma re_only_Dual2Vec_tanh : forall x x' : Dual2Vec T, Dual2Vec_f_re x = Dual2Vec_f_re x' -> Dual2Vec_f_re (m_tanh x) = Dual2Vec_f_re (m_tanh x').
Proof. intros x x' H; destruct x, x'; simpl in H; subst; re_solve. Qed.
Lemma re_only_Dual2Vec_sph_j0 : forall x x' : Dual2Vec T, Dual2Vec_f_re x = Dual2Vec_f_re x' -> Dual2Vec_f_re (m_sph_j0 x) = Dual2Vec_f_re (m_sph_j0 x').
Proof. intros x x' H; destruct x, x'; simpl in H; subst; re_solve. Qed.
Lemma re_only_Dual2Vec_sph_j1 : forall x x' : Dual2Vec T, Dual2Vec_f_re x = Dual2Vec_f_re x' -> Dual2Vec_f_re (m_sph_j1 x) = Dual2Vec_f_re (m_sph_j1 x').
Proof. intros x x' H; destruct x, x'; simpl in H; subst; re_solve. Qed.
Lemma re_only_Dual2Vec_sph_j2 : forall x x' : Dual2Vec T, Dual2Vec_f_re x = Dual2Vec_f_re x' -> Dual2Vec_f_re (m_sph_j2 x) = Dual2Vec_f_re (m_sph_j2 x').
Proof. intros x x' H; destruct x, x'; simpl in H; subst; re_solve. Qed.
Lemma re_only_Dual2Vec_abs : forall x x' : Dual2Vec T, Dual2Vec_f_re x = Dual2Vec_f_re x' -> Dual2Vec_f_re (m_abs x) = Dual2Vec_f_re (m_abs x').
Proof. intros x x' H; destruct x, x'; simpl in H; subst; re_solve. Qed.
Lemma re_only_Dual2Vec_signum : forall x x' : Dual2Vec T, Dual2Vec_f_re x = Dual2Vec_f_re x' -> Dual2Vec_f_re (m_signum x) = Dual2Vec_f_re (m_signum x').
Proof. intros x x' H; destruct x, x'; simpl in H; subst; re_solve. Qed.
Lemma re_only_Dual2Vec_inv : forall x x' : Dual2Vec T, Dual2Vec_f_re x = Dual2Vec_f_re x' -> Dual2Vec_f_re (m_inv x) = Dual2Vec_f_re (m_inv x').
Proof. intros x x' H; destruct x, x'; simpl in H; subst; re_solve. Qed.
Lemma re_is_inner_Dual2Vec_recip : forall x : Dual2Vec T, Dual2Vec_f_re (m_recip x) = m_recip (Dual2Vec_f_re x).
Proof. intros x; destruct x; re_solve. Qed.
Lemma re_is_inner_Dual2Vec_sqrt : forall x : Dual2Vec T, Dual2Vec_f_re (m_sqrt x) = m_sqrt (Dual2Vec_f_re x).
Proof. intros x; destruct x; re_solve. Qed.
Lemma re_is_inner_Dual2Vec_cbrt : forall x : Dual2Vec T, Dual2Vec_f_re (m_cbrt x) = m_cbrt (Dual2Vec_f_re x).
Proof. intros x; destruct x; re_solve. Qed.
Lemma re_is_inner_Dual2Vec_exp : forall x : Dual2Vec T, Dual2Vec_f_re (m_exp x) = m_exp (Dual2Vec_f_re x).
Proof. intros x; destruct x; re_solve. Qed.
Lemma re_is_inner_Dual2Vec_exp2 : forall x : Dual2Vec T, Dual2Vec_f_re (m_exp2 x) = m_exp2 (Dual2Vec_f_re x).
Proof. intros x; destruct x; re_solve. Qed.
Lemma re_is_inner_Dual2Vec_exp_m1 : forall x : Dual2Vec T, Dual2Vec_f_re (m_exp_m1 x) = m_exp_m1 (Dual2Vec_f_re x).
Proof. intros x; destruct x; re_solve. Qed.
Lemma re_is_inner_Dual2Vec_ln : forall x : Dual2Vec T, Dual2Vec_f_re (m_ln x) = m_ln (Dual2Vec_f_re x).
Proof. intros x; destruct x; re_solve. Qed.
Lemma re_is_inner_Dual2Vec_log2 : forall x : Dual2Vec T, Dual2Vec_f_re (m_log2 x) = m_log2 (Dual2Vec_f_re x).
Proof. intros x; destruct x; re_solve. Qed.
Lemma re_is_inner_Dual2Vec_log10 : forall x : Dual2Vec T, Dual2Vec_f_re (m_log10 x) = m_log10 (Dual2Vec_f_re x).
Proof. intros x; destruct x; re_solve. Qed.
Lemma re_is_inner_Dual2Vec_ln_1p : forall x : Dual2Vec T, Dual2Vec_f_re (m_ln_1p x) = m_ln_1p (Dual2Vec_f_re x).
Proof. intros x; destruct x; re_solve. Qed.
Lemma re_is_inner_Dual2Vec_sin : forall x : Dual2Vec T, Dual2Vec_f_re (m_sin x) = fst (m_sin_cos (Dual2Vec_f_re x)).
Proof. intros x; destruct x; re_solve. Qed.
Lemma re_is_inner_Dual2Vec_cos : forall x : Dual2Vec T, Dual2Vec_f_re (m_cos x) = snd (m_sin_cos (Dual2Vec_f_re x)).
Proof. intros x; destruct x; re_solve. Qed.
Lemma re_is_inner_Dual2Vec_asin : forall x : Dual2Vec T, Dual2Vec_f_re (m_asin x) = m_asin (Dual2Vec_f_re x).
Proof. intros x; destruct x; re_solve. Qed.
Lemma re_is_inner_Dual2Vec_acos : forall x : Dual2Vec T, Dual2Vec_f_re (m_acos x) = m_acos (Dual2Vec_f_re x).
Proof. intros x; destruct x; re_solve. Qed.
Lemma re_is_inner_Dual2Vec_atan : forall x : Dual2Vec T, Dual2Vec_f_re (m_atan x) = m_atan (Dual2Vec_f_re x).
Proof. intros x; destruct x; re_solve. Qed.
Lemma re_is_inner_Dual2Vec_sinh : forall x : Dual2Vec T, Dual2Vec_f_re (m_sinh x) = m_sinh (Dual2Vec_f_re x).
Proof. intros x; destruct x; re_solve. Qed.
Lemma re_is_inner_Dual2Vec_cosh : forall x : Dual2Vec T, Dual2Vec_f_re (m_cosh x) = m_cosh (Dual2Vec_f_re x).
Proof. intros x; destruct x; re_solve. Qed.
Lemma re_is_inner_Dual2Vec_asinh : forall x : Dual2Vec T, Dual2Vec_f_re (m_asinh x) = m_asinh (Dual2Vec_f_re x).
Proof. intros x; destruct x; re_solve. Qed.
Lemma re_is_inner_Dual2Vec_acosh : forall x : Dual2Vec T, Dual2Vec_f_re (m_acosh x) = m_acosh (Dual2Vec_f_re x).
Proof. intros x; destruct x; re_solve. Qed.
Lemma re_is_inner_Dual2Vec_atanh : forall x : Dual2Vec T, Dual2Vec_f_re (m_atanh x) = m_atanh (Dual2Vec_f_re x).
Proof. intros x; destruct x; re_solve. Qed.
Lemma re_only_Dual2Vec_powi : forall (n : Z) (x x' : Dual2Vec T), Dual2Vec_f_re x = Dual2Vec_f_re x' -> Dual2Vec_f_re (m_powi x n) = Dual2Vec_f_re (m_powi x' n).
Proof. intros n x x' H; destruct x, x'; simpl in H; subst; destruct n as [|[[p|p|]|[p|p|]|]|p]; reflexivity. Qed.
Lemma re_only_Dual2Vec_powf : forall (q : F) (x x' : Dual2Vec T), Dual2Vec_f_re x = Dual2Vec_f_re x' -> Dual2Vec_f_re (m_powf x q) = Dual2Vec_f_re (m_powf x' q).
Proof. intros q x x' H; destruct x, x'; simpl in H; subst; re_solve. Qed.
Lemma re_only_Dual2Vec_log : forall (q : F) (x x' : Dual2Vec T), Dual2Vec_f_re x = Dual2Vec_f_re x' -> Dual2Vec_f_re (m_log x q) = Dual2Vec_f_re (m_log x' q).
Proof. intros q x x' H; destruct x, x'; simpl in H; subst; re_solve. Qed.
Lemma re_only_Dual2Vec_add : forall x x' y y' : Dual2Vec T, Dual2Vec_f_re x = Dual2Vec_f_re x' -> Dual2Vec_f_re y = Dual2Vec_f_re y' -> Dual2Vec_f_re (x + y) = Dual2Vec_f_re (x' + y').
Proof. intros x x' y y' H1 H2; destruct x, x', y, y'; simpl in H1, H2; subst; re_solve. Qed.
Lemma re_only_Dual2Vec_sub : forall x x' y y' : Dual2Vec T, Dual2Vec_f_re x = Dual2Vec_f_re x' -> Dual2Vec_f_re y = Dual2Vec_f_re y' -> Dual2Vec_f_re (x - y) = Dual2Vec_f_re (x' - y').
Proof. intros x x' y y' H1 H2; destruct x, x', y, y'; simpl in H1, H2; subst; re_solve. Qed.
Lemma re_only_Dual2Vec_mul : forall x x' y y' : Dual2Vec T, Dual2Vec_f_re x = Dual2Vec_f_re x' -> Dual2Vec_f_re y = Dual2Vec_f_re y' -> Dual2Vec_f_re (x * y) = Dual2Vec_f_re (x' * y').
Proof. intros x x' y y' H1 H2; destruct x, x', y, y'; simpl in H1, H2; subst; re_solve. Qed.
Lemma re_only_Dual2Vec_div : forall x x' y y' : Dual2Vec T, Dual2Vec_f_re x = Dual2Vec_f_re x' -> Dual2Vec_f_re y = Dual2Vec_f_re y' -> Dual2Vec_f_re (x / y) = Dual2Vec_f_re (x' / y').
Proof. intros x x' y y' H1 H2; destruct x, x', y, y'; simpl in H1, H2; subst; re_solve. Qed.
Lemma re_only_Dual2Vec_powd : forall x x' y y' : Dual2Vec T, Dual2Vec_f_re x = Dual2Vec_f_re x' -> Dual2Vec_f_re y = Dual2Vec_f_re y' -> Dual2Vec_f_re (m_powd x y) = Dual2Vec_f_re (m_powd x' y').
Proof. intros x x' y y' H1 H2; destruct x, x', y, y'; simpl in H1, H2; subst; re_solve. Qed.
Lemma re_only_Dual2Vec_atan2 : forall x x' y y' : Dual2Vec T, Dual2Vec_f_re x = Dual2Vec_f_re x' -> Dual2Vec_f_re y = Dual2Vec_f_re y' -> Dual2Vec_f_re (m_atan2 x y) = Dual2Vec_f_re (m_atan2 x' y').
Proof. intros x x' y y' H1 H2; destruct x, x', y, y'; simpl in H1, H2; subst; re_solve. Qed.
Lemma re_only_Dual2Vec_abs_sub : forall x x' y y' : Dual2Vec T, Dual2Vec_f_re x = Dual2Vec_f_re x' -> Dual2Vec_f_re y = Dual2Vec_f_re y' -> Dual2Vec_f_re (m_abs_sub x y) = Dual2Vec_f_re (m_abs_sub x' y').
Proof. intros x x' y y' H1 H2; destruct x, x', y, y'; simpl in H1, H2; subst; re_solve. Qed.
Lemma re_is_inner_Dual2Vec_add : forall x y : Dual2Vec T, Dual2Vec_f_re (x + y) = Dual2Vec_f_re x + Dual2Vec_f_re y.
Proof. intros x y; destruct x, y; re_solve. Qed.
Lemma re_is_inner_Dual2Vec_sub : forall x y : Dual2Vec T, Dual2Vec_f_re (x - y) = Dual2Vec_f_re x - Dual2Vec_f_re y.
Proof. intros x y; destruct x, y; re_solve. Qed.
Lemma re_is_inner_Dual2Vec_mul : forall x y : Dual2Vec T, Dual2Vec_f_re (x * y) = Dual2Vec_f_re x * Dual2Vec_f_re y.
Proof. intros x y; destruct x, y; re_solve. Qed.
Lemma re_is_inner_Dual2Vec_neg : forall x : Dual2Vec T, Dual2Vec_f_re (- x) = - (Dual2Vec_f_re x).
Proof. intros x; destruct x; re_solve. Qed.
Lemma re_only_Dual2Vec_mul_add : forall x x' y y' z z' : Dual2Vec T, Dual2Vec_f_re x = Dual2Vec_f_re x' -> Dual2Vec_f_re y = Dual2Vec_f_re y' -> Dual2Vec_f_re z = Dual2Vec_f_re z' -> Dual2Vec_f_re (m_mul_add x y z) = Dual2Vec_f_re (m_mul_add x' y' z').
Proof. intros x x' y y' z z' H1 H2 H3; destruct x, x', y, y', z, z'; simpl in H1, H2, H3; subst; re_solve. Qed.
Lemma pred_Dual2Vec_is_zero : forall x x' : Dual2Vec T, Dual2Vec_f_re x = Dual2Vec_f_re x' -> m_is_zero x = m_is_zero x'.
Proof. intros x x' H; destruct x, x'; simpl in H; subst; re_solve. Qed.
Lemma pred_Dual2Vec_is_one : forall x x' : Dual2Vec T, Dual2Vec_f_re x = Dual2Vec_f_re x' -> m_is_one x = m_is_one x'.
Proof. intros x x' H; destruct x, x'; simpl in H; subst; re_solve. Qed.
Lemma pred_Dual2Vec_is_positive : forall x x' : Dual2Vec T, Dual2Vec_f_re x = Dual2Vec_f_re x' -> m_is_positive x = m_is_positive x'.
Proof. intros x x' H; destruct x, x'; simpl in H; subst; re_solve. Qed.
Lemma pred_Dual2Vec_is_negative : forall x x' : Dual2Vec T, Dual2Vec_f_re x = Dual2Vec_f_re x' -> m_is_negative x = m_is_negative x'.
Proof. intros x x' H; destruct x, x'; simpl in H; subst; re_solve. Qed.
Lemma re_only_Dual2Vec_addF : forall (q : F) (x x' : Dual2Vec T), Dual2Vec_f_re x = Dual2Vec_f_re x' -> Dual2Vec_f_re (x + q) = Dual2Vec_f_re (x' + q).
Proof. intros q x x' H; destruct x, x'; simpl in H; subst; re_solve. Qed.
Lemma re_only_Dual2Vec_subF : forall (q : F) (x x' : Dual2Vec T), Dual2Vec_f_re x = Dual2Vec_f_re x' -> Dual2Vec_f_re (x - q) = Dual2Vec_f_re (x' - q).
Proof. intros q x x' H; destruct x, x'; simpl in H; subst; re_solve. Qed.
Lemma re_only_Dual2Vec_mulF : forall (q : F) (x x' : Dual2Vec T), Dual2Vec_f_re x = Dual2Vec_f_re x' -> Dual2Vec_f_re (x * q) = Dual2Vec_f_re (x' * q).
Proof. intros q x x' H; destruct x, x'; simpl in H; subst; re_solve. Qed.
Lemma re_only_Dual2Vec_divF : forall (q : F) (x x' : Dual2Vec T), Dual2Vec_f_re x = Dual2Vec_f_re x' -> Dual2Vec_f_re (x / q) = Dual2Vec_f_re (x' / q).
Proof. intros q x x' H; destruct x, x'; simpl in H; subst; re_solve. Qed.
Lemma re_only_HyperDualVec_recip : forall x x' : HyperDualVec T, HyperDualVec_f_re x = HyperDualVec_f_re x' -> HyperDualVec_f_re (m_recip x) = HyperDualVec_f_re (m_recip x').
Proof. intros x x' H; destruct x, x'; simpl in H; subst; re_solve. Qed.
Lemma re_only_HyperDualVec_sqrt : forall x x' : HyperDualVec T, HyperDualVec_f_re x = HyperDualVec_f_re x' -> HyperDualVec_f_re (m_sqrt x) = HyperDualVec_f_re (m_sqrt x').
Proof. intros x x' H; destruct x, x'; simpl in H; subst; re_solve. Qed.
Lemma re_only_HyperDualVec_cbrt : forall x x' : HyperDualVec T, HyperDualVec_f_re x = HyperDualVec_f_re x' -> HyperDualVec_f_re (m_cbrt x) = HyperDualVec_f_re (m_cbrt x').
Proof. intros x x' H; destruct x, x'; simpl in H; subst; re_solve. Qed.
Lemma re_only_HyperDualVec_exp : forall x x' : HyperDualVec T, HyperDualVec_f_re x = HyperDualVec_f_re x' -> HyperDualVec_f_re (m_exp x) = HyperDualVec_f_re (m_exp x').
Proof. intros x x' H; destruct x, x'; simpl in H; subst; re_solve. Qed.
Lemma re_only_HyperDualVec_exp2 : forall x x' : HyperDualVec T, HyperDualVec_f_re x = HyperDualVec_f_re x' -> HyperDualVec_f_re (m_exp2 x) = HyperDualVec_f_re (m_exp2 x').
Proof. intros x x' H; destruct x, x'; simpl in H; subst; re_solve. Qed.
Lemma re_only_HyperDualVec_exp_m1 : forall x x' : HyperDualVec T, HyperDualVec_f_re x = HyperDualVec_f_re x' -> HyperDualVec_f_re (m_exp_m1 x) = HyperDualVec_f_re (m_exp_m1 x').
Proof. intros x x' H; destruct x, x'; simpl in H; subst; re_solve. Qed.
Lemma re_only_HyperDualVec_ln : forall x x' : HyperDualVec T, HyperDualVec_f_re x = HyperDualVec_f_re x' -> HyperDualVec_f_re (m_ln x) = HyperDualVec_f_re (m_ln x').
Proof. intros x x' H; destruct x, x'; simpl in H; subst; re_solve. Qed.
Lemma re_only_HyperDualVec_log2 : forall x x' : HyperDualVec T, HyperDualVec_f_re x = HyperDualVec_f_re x' -> HyperDualVec_f_re (m_log2 x) = HyperDualVec_f_re (m_log2 x').
Proof. intros x x' H; destruct x, x'; simpl in H; subst; re_solve. Qed.
Lemma re_only_HyperDualVec_log10 : forall x x' : HyperDualVec T, HyperDualVec_f_re x = HyperDualVec_f_re x' -> HyperDualVec_f_re (m_log10 x) = HyperDualVec_f_re (m_log10 x').
Proof. intros x x' H; destruct x, x'; simpl in H; subst; re_solve. Qed.
Lemma re_only_HyperDualVec_ln_1p : forall x x' : HyperDualVec T, HyperDualVec_f_re x = HyperDualVec_f_re x' -> HyperDualVec_f_re (m_ln_1p x) = HyperDualVec_f_re (m_ln_1p x').
Proof. intros x x' H; destruct x, x'; simpl in H; subst; re_solve. Qed.
Lemma re_only_HyperDualVec_sin : forall x x' : HyperDualVec T, HyperDualVec_f_re x = HyperDualVec_f_re x' -> HyperDualVec_f_re (m_sin x) = HyperDualVec_f_re (m_sin x').
Proof. intros x x' H; destruct x, x'; simpl in H; subst; re_solve. Qed.
Lemma re_only_HyperDualVec_cos : forall x x' : HyperDualVec T, HyperDualVec_f_re x = HyperDualVec_f_re x' -> HyperDualVec_f_re (m_cos x) = HyperDualVec_f_re (m_cos x').
Proof. intros x x' H; destruct x, x'; simpl in H; subst; re_solve. Qed.
Lemma re_only_HyperDualVec_asin : forall x x' : HyperDualVec T, HyperDualVec_f_re x = HyperDualVec_f_re x' -> HyperDualVec_f_re (m_asin x) = HyperDualVec_f_re (m_asin x').
Proof. intros x x' H; destruct x, x'; simpl in H; subst; re_solve. Qed.
Lemma re_only_HyperDualVec_acos : forall x x' : HyperDualVec T, HyperDualVec_f_re x = HyperDualVec_f_re x' -> HyperDualVec_f_re (m_acos x) = HyperDualVec_f_re (m_acos x').
Proof. intros x x' H; destruct x, x'; simpl in H; subst; re_solve. Qed.
Lemma re_only_HyperDualVec_atan : forall x x' : HyperDualVec T, HyperDualVec_f_re x = HyperDualVec_f_re x' -> HyperDualVec_f_re (m_atan x) = HyperDualVec_f_re (m_atan x').
Proof. intros x x' H; destruct x, x'; simpl in H; subst; re_solve. Qed.
Lemma re_only_HyperDualVec_sinh : forall x x' : HyperDualVec T, HyperDualVec_f_re x = HyperDualVec_f_re x' -> HyperDualVec_f_re (m_sinh x) = HyperDualVec_f_re (m_sinh x').
Proof. intros x x' H; destruct x, x'; simpl in H; subst; re_solve. Qed.
Lemma re_only_HyperDualVec_cosh : forall x x' : HyperDualVec T, HyperDualVec_f_re x = HyperDualVec_f_re x' -> HyperDualVec_f_re (m_cosh x) = HyperDualVec_f_re (m_cosh x').
Proof. intros x x' H; destruct x, x'; simpl in H; subst; re_solve. Qed.
Lemma re_only_HyperDualVec_asinh : forall x x' : HyperDualVec T, HyperDualVec_f_re x = HyperDualVec_f_re x' -> HyperDualVec_f_re (m_asinh x) = HyperDualVec_f_re (m_asinh x').
Proof. intros x x' H; destruct x, x'; simpl in H; subst; re_solve. Qed.
Lemma re_only_HyperDualVec_acosh : forall x x' : HyperDualVec T, HyperDualVec_f_re x = HyperDualVec_f_re x' -> HyperDualVec_f_re (m_acosh x) = HyperDualVec_f_re (m_acosh x').
Proof. intros x x' H; destruct x, x'; simpl in H; subst; re_solve. Qed.
Lemma re_only_HyperDualVec_atanh : forall x x' : HyperDualVec T, HyperDualVec_f_re x = HyperDualVec_f_re x' -> HyperDualVec_f_re (m_atanh x) = HyperDualVec_f_re (m_atanh x').
Proof. intros x x' H; destruct x, x'; simpl in H; subst; re_solve. Qed.
Lemma re_only_HyperDualVec_tan : forall x x' : HyperDualVec T, HyperDualVec_f_re x = HyperDualVec_f_re x' -> HyperDualVec_f_re (m_tan x) = HyperDualVec_f_re (m_tan x').
Proof. intros x x' H; destruct x, x'; simpl in H; subst; re_solve. Qed.
Lemma re_only_HyperDualVec_tanh : forall x x' : HyperDualVec T, HyperDualVec_f_re x = HyperDualVec_f_re x' -> HyperDualVec_f_re (m_tanh x) = HyperDualVec_f_re (m_tanh x').
Proof. intros x x' H; destruct x, x'; simpl in H; subst; re_solve. Qed.
Lemma re_only_HyperDualVec_sph_j0 : forall x x' : HyperDualVec T, HyperDualVec_f_re x = HyperDualVec_f_re x' -> HyperDualVec_f_re (m_sph_j0 x) = HyperDualVec_f_re (m_sph_j0 x').
Proof. intros x x' H; destruct x, x'; simpl in H; subst; re_solve. Qed.
Lemma re_only_HyperDualVec_sph_j1 : forall x x' : HyperDualVec T, HyperDualVec_f_re x = HyperDualVec_f_re x' -> HyperDualVec_f_re (m_sph_j1 x) = HyperDualVec_f_re (m_sph_j1 x').
Proof. intros x x' H; destruct x, x'; simpl in H; subst; re_solve. Qed.
Lemma re_only_HyperDualVec_sph_j2 : forall x x' : HyperDualVec T, HyperDualVec_f_re x = HyperDualVec_f_re x' -> HyperDualVec_f_re (m_sph_j2 x) = HyperDualVec_f_re (m_sph_j2 x').
Proof. intros x x' H; destruct x, x'; simpl in H; subst; re_solve. Qed.
Lemma re_only_HyperDualVec_abs : forall x x' : HyperDualVec T, HyperDualVec_f_re x = HyperDualVec_f_re x' -> HyperDualVec_f_re (m_abs x) = HyperDualVec_f_re (m_abs x').
Proof. intros x x' H; destruct x, x'; simpl in H; subst; re_solve. Qed.
Lemma re_only_HyperDualVec_signum : forall x x' : HyperDualVec T, HyperDualVec_f_re x = HyperDualVec_f_re x' -> HyperDualVec_f_re (m_signum x) = HyperDualVec_f_re (m_signum x').
Proof. intros x x' H; destruct x, x'; simpl in H; subst; re_solve. Qed.
Lemma re_only_HyperDualVec_inv : forall x x' : HyperDualVec T, HyperDualVec_f_re x = HyperDualVec_f_re x' -> HyperDualVec_f_re (m_inv x) = HyperDualVec_f_re (m_inv x').
Proof. intros x x' H; destruct x, x'; simpl in H; subst; re_solve. Qed.
Lemma re_is_inner_HyperDualVec_recip : forall x : HyperDualVec T, HyperDualVec_f_re (m_recip x) = m_recip (HyperDualVec_f_re x).
Proof. intros x; destruct x; re_solve. Qed.
Lemma re_is_inner_HyperDualVec_sqrt : forall x : HyperDualVec T, HyperDualVec_f_re (m_sqrt x) = m_sqrt (HyperDualVec_f_re x).
Proof. intros x; destruct x; re_solve. Qed.
Lemma re_is_inner_HyperDualVec_cbrt : forall x : HyperDualVec T, HyperDualVec_f_re (m_cbrt x) = m_cbrt (HyperDualVec_f_re x).
Proof. intros x; destruct x; re_solve. Qed.
Lemma re_is_inner_HyperDualVec_exp : forall x : HyperDualVec T, HyperDualVec_f_re (m_exp x) = m_exp (HyperDualVec_f_re x).
Proof. intros x; destruct x; re_solve. Qed.
Lemma re_is_inner_HyperDualVec_exp2 : forall x : HyperDualVec T, HyperDualVec_f_re (m_exp2 x) = m_exp2 (HyperDualVec_f_re x).
Proof. intros x; destruct x; re_solve. Qed.
Lemma re_is_inner_HyperDualVec_exp_m1 : forall x : HyperDualVec T, HyperDualVec_f_re (m_exp_m1 x) = m_exp_m1 (HyperDualVec_f_re x).
Proof. intros x; destruct x; re_solve. Qed.
Lemma re_is_inner_HyperDualVec_ln : forall x : HyperDualVec T, HyperDualVec_f_re (m_ln x) = m_ln (HyperDualVec_f_re x).
Proof. intros x; destruct x; re_solve. Qed.
Lemma re_is_inner_HyperDualVec_log2 : forall x : HyperDualVec T, HyperDualVec_f_re (m_log2 x) = m_log2 (HyperDualVec_f_re x).
Proof. intros x; destruct x; re_solve. Qed.
Lemma re_is_inner_HyperDualVec_log10 : forall x : HyperDualVec T, HyperDualVec_f_re (m_log10 x) = m_log10 (HyperDualVec_f_re x).
Proof. intros x; destruct x; re_solve. Qed.
Lemma re_is_inner_HyperDualVec_ln_1p : forall x : HyperDualVec T, HyperDualVec_f_re (m_ln_1p x) = m_ln_1p (HyperDualVec_f_re x).
Proof. intros x; destruct x; re_solve. Qed.
Lemma re_is_inner_HyperDualVec_sin : forall x : HyperDualVec T, HyperDualVec_f_re (m_sin x) = fst (m_sin_cos (HyperDualVec_f_re x)).
Proof. intros x; destruct x; re_solve. Qed.
Lemma re_is_inner_HyperDualVec_cos : forall x : HyperDualVec T, HyperDualVec_f_re (m_cos x) = snd (m_sin_cos (HyperDualVec_f_re x)).
Proof. intros x; destruct x; re_solve. Qed.
Lemma re_is_inner_HyperDualVec_asin : forall x : HyperDualVec T, HyperDualVec_f_re (m_asin x) = m_asin (HyperDualVec_f_re x).
Proof. intros x; destruct x; re_solve. Qed.
Lemma re_is_inner_HyperDualVec_acos : forall x : HyperDualVec T, HyperDualVec_f_re (m_acos x) = m_acos (HyperDualVec_f_re x).
Proof. intros x; destruct x; re_solve. Qed.
Lemma re_is_inner_HyperDualVec_atan : forall x : HyperDualVec T, HyperDualVec_f_re (m_atan x) = m_atan (HyperDualVec_f_re x).
Proof. intros x; destruct x; re_solve. Qed.
Lemma re_is_inner_HyperDualVec_sinh : forall x : HyperDualVec T, HyperDualVec_f_re (m_sinh x) = m_sinh (HyperDualVec_f_re x).
Proof. intros x; destruct x; re_solve. Qed.
Lemma re_is_inner_HyperDualVec_cosh : forall x : HyperDualVec T, HyperDualVec_f_re (m_cosh x) = m_cosh (HyperDualVec_f_re x).
Proof. intros x; destruct x; re_solve. Qed.
Lemma re_is_inner_HyperDualVec_asinh : forall x : HyperDualVec T, HyperDualVec_f_re (m_asinh x) = m_asinh (HyperDualVec_f_re x).
Proof. intros x; destruct x; re_solve. Qed.
Lemma re_is_inner_HyperDualVec_acosh : forall x : HyperDualVec T, HyperDualVec_f_re (m_acosh x) = m_acosh (HyperDualVec_f_re x).
Proof. intros x; destruct x; re_solve. Qed.
Lemma re_is_inner_HyperDualVec_atanh : forall x : HyperDualVec T, HyperDualVec_f_re (m_atanh x) = m_atanh (HyperDualVec_f_re x).
Proof. intros x; destruct x; re_solve. Qed.
Lemma re_only_HyperDualVec_powi : forall (n : Z) (x x' : HyperDualVec T), HyperDualVec_f_re x = HyperDualVec_f_re x' -> HyperDualVec_f_re (m_powi x n) = HyperDualVec_f_re (m_powi x' n).
Proof. intros n x x' H; destruct x, x'; simpl in H; subst; destruct n as [|[[p|p|]|[p|p|]|]|p]; reflexivity. Qed.
Lemma re_only_HyperDualVec_powf : forall (q : F) (x x' : HyperDualVec T), HyperDualVec_f_re x = HyperDualVec_f_re x' -> HyperDualVec_f_re (m_powf x q) = HyperDualVec_f_re (m_powf x' q).
Proof. intros q x x' H; destruct x, x'; simpl in H; subst; re_solve. Qed.
Lemma re_only_HyperDualVec_log : forall (q : F) (x x' : HyperDualVec T), HyperDualVec_f_re x = HyperDualVec_f_re x' -> HyperDualVec_f_re (m_log x q) = HyperDualVec_f_re (m_log x' q).
Proof. intros q x x' H; destruct x, x'; simpl in H; subst; re_solve. Qed.
Lemma re_only_HyperDualVec_add : forall x x' y y' : HyperDualVec T, HyperDualVec_f_re x = HyperDualVec_f_re x' -> HyperDualVec_f_re y = HyperDualVec_f_re y' -> HyperDualVec_f_re (x + y) = HyperDualVec_f_re (x' + y').
Proof. intros x x' y y' H1 H2; destruct x, x', y, y'; simpl in H1, H2; subst; re_solve. Qed.
Lemma re_only_HyperDualVec_sub : forall x x' y y' : HyperDualVec T, HyperDualVec_f_re x = HyperDualVec_f_re x' -> HyperDualVec_f_re y = HyperDualVec_f_re y' -> HyperDualVec_f_re (x - y) = HyperDualVec_f_re (x' - y').
Proof. intros x x' y y' H1 H2; destruct x, x', y, y'; simpl in H1, H2; subst; re_solve. Qed.
Lemma re_only_HyperDualVec_mul : forall x x' y y' : HyperDualVec T, HyperDualVec_f_re x = HyperDualVec_f_re x' -> HyperDualVec_f_re y = HyperDualVec_f_re y' -> HyperDualVec_f_re (x * y) = HyperDualVec_f_re (x' * y').
Proof. intros x x' y y' H1 H2; destruct x, x', y, y'; simpl in H1, H2; subst; re_solve. Qed.
Lemma re_only_HyperDualVec_div : forall x x' y y' : HyperDualVec T, HyperDualVec_f_re x = HyperDualVec_f_re x' -> HyperDualVec_f_re y = HyperDualVec_f_re y' -> HyperDualVec_f_re (x / y) = HyperDualVec_f_re (x' / y').
Proof. intros x x' y y' H1 H2; destruct x, x', y, y'; simpl in H1, H2; subst; re_solve. Qed.
Lemma re_only_HyperDualVec_powd : forall x x' y y' : HyperDualVec T, HyperDualVec_f_re x = HyperDualVec_f_re x' -> HyperDualVec_f_re y = HyperDualVec_f_re y' -> HyperDualVec_f_re (m_powd x y) = HyperDualVec_f_re (m_powd x' y').
Proof. intros x x' y y' H1 H2; destruct x, x', y, y'; simpl in H1, H2; subst; re_solve. Qed.
Lemma re_only_HyperDualVec_atan2 : forall x x' y y' : HyperDualVec T, HyperDualVec_f_re x = HyperDualVec_f_re x' -> HyperDualVec_f_re y = HyperDualVec_f_re y' -> HyperDualVec_f_re (m_atan2 x y) = HyperDualVec_f_re (m_atan2 x' y').
Proof. intros x x' y y' H1 H2; destruct x, x', y, y'; simpl in H1, H2; subst; re_solve. Qed.
Lemma re_only_HyperDualVec_abs_sub : forall x x' y y' : HyperDualVec T, HyperDualVec_f_re x = HyperDualVec_f_re x' -> HyperDualVec_f_re y = HyperDualVec_f_re y' -> HyperDualVec_f_re (m_abs_sub x y) = HyperDualVec_f_re (m_abs_sub x' y').
Proof. intros x x' y y' H1 H2; destruct x, x', y, y'; simpl in H1, H2; subst; re_solve. Qed.
Lemma re_is_inner_HyperDualVec_add : forall x y : HyperDualVec T, HyperDualVec_f_re (x + y) = HyperDualVec_f_re x + HyperDualVec_f_re y.
Proof. intros x y; destruct x, y; re_solve. Qed.
Lemma re_is_inner_HyperDualVec_sub : forall x y : HyperDualVec T, HyperDualVec_f_re (x - y) = HyperDualVec_f_re x - HyperDualVec_f_re y.
Proof. intros x y; destruct x, y; re_solve. Qed.
Lemma re_is_inner_HyperDualVec_mul : forall x y : HyperDualVec T, HyperDualVec_f_re (x * y) = HyperDualVec_f_re x * HyperDualVec_f_re y.
Proof. intros x y; destruct x, y; re_solve. Qed.
Lemma re_is_inner_HyperDualVec_neg : forall x : HyperDualVec T, HyperDualVec_f_re (- x) = - (HyperDualVec_f_re x).
Proof. intros x; destruct x; re_solve. Qed.
Lemma re_only_HyperDualVec_mul_add : forall x x' y y' z z' : HyperDualVec T, HyperDualVec_f_re x = HyperDualVec_f_re x' -> HyperDualVec_f_re y = HyperDualVec_f_re y' -> HyperDualVec_f_re z = HyperDualVec_f_re z' -> HyperDualVec_f_re (m_mul_add x y z) = HyperDualVec_f_re (m_mul_add x' y' z').
Proof. intros x x' y y' z z' H1 H2 H3; destruct x, x', y, y', z, z'; simpl in H1, H2, H3; subst; re_solve. Qed.
Lemma pred_HyperDualVec_is_zero : forall x x' : HyperDualVec T, HyperDualVec_f_re x = HyperDualVec_f_re x' -> m_is_zero x = m_is_zero x'.
Proof. intros x x' H; destruct x, x'; simpl in H; subst; re_solve. Qed.
Lemma pred_HyperDualVec_is_one : forall x x' : HyperDualVec T, HyperDualVec_f_re x = HyperDualVec_f_re x' -> m_is_one x = m_is_one x'.
Proof. intros x x' H; destruct x, x'; simpl in H; subst; re_solve. Qed.
Lemma pred_HyperDualVec_is_positive : forall x x' : HyperDualVec T, HyperDualVec_f_re x = HyperDualVec_f_re x' -> m_is_positive x = m_is_positive x'.
Proof. intros x x' H; destruct x, x'; simpl in H; subst; re_solve. Qed.
Lemma pred_HyperDualVec_is_negative : forall x x' : HyperDualVec T, HyperDualVec_f_re x = HyperDualVec_f_re x' -> m_is_negative x = m_is_negative x'.
Proof. intros x x' H; destruct x, x'; simpl in H; subst; re_solve. Qed.
Lemma re_only_HyperDualVec_addF : forall (q : F) (x x' : HyperDualVec T), HyperDualVec_f_re x = HyperDualVec_f_re x' -> HyperDualVec_f_re (x + q) = HyperDualVec_f_re (x' + q).
Proof. intros q x x' H; destruct x, x'; simpl in H; subst; re_solve. Qed.
Lemma re_only_HyperDualVec_subF : forall (q : F) (x x' : HyperDualVec T), HyperDualVec_f_re x = HyperDualVec_f_re x' -> HyperDualVec_f_re (x - q) = HyperDualVec_f_re (x' - q).
Proof. intros q x x' H; destruct x, x'; simpl in H; subst; re_solve. Qed.
Lemma re_only_HyperDualVec_mulF : forall (q : F) (x x' : HyperDualVec T), HyperDualVec_f_re x = HyperDualVec_f_re x' -> HyperDualVec_f_re (x * q) = HyperDualVec_f_re (x' * q).
Proof. intros q x x' H; destruct x, x'; simpl in H; subst; re_solve. Qed.
Lemma re_only_HyperDualVec_divF : forall (q : F) (x x' : HyperDualVec T), HyperDualVec_f_re x = HyperDualVec_f_re x' -> HyperDualVec_f_re (x / q) = HyperDualVec_f_re (x' / q).
Proof. intros q x x' H; destruct x, x'; simpl in H; subst; re_solve. Qed.
Lemma cmp_Dual_eq : forall x x' y y' : Dual T, Dual_f_re x = Dual_f_re x' -> Dual_f_re y = Dual_f_re y' -> (x == y) = (x' == y').
Proof. intros x x' y y' H1 H2; destruct x, x', y, y'; simpl in H1, H2; subst; re_solve. Qed.
Lemma cmp_Dual_partial_cmp : forall x x' y y' : Dual T, Dual_f_re x = Dual_f_re x' -> Dual_f_re y = Dual_f_re y' -> Dual_PartialOrd_partial_cmp x y = Dual_PartialOrd_partial_cmp x' y'.
Proof. intros x x' y y' H1 H2; destruct x, x', y, y'; simpl in H1, H2; subst; re_solve. Qed.
Lemma cmp_Dual_is_inner : forall x y : Dual T, (x == y) = (Dual_f_re x == Dual_f_re y) /\ Dual_PartialOrd_partial_cmp x y = m_partial_cmp (Dual_f_re x) (Dual_f_re y).
Proof. intros x y; destruct x, y; split; re_solve. Qed.
Lemma cmp_Dual2_eq : forall x x' y y' : Dual2 T, Dual2_f_re x = Dual2_f_re x' -> Dual2_f_re y = Dual2_f_re y' -> (x == y) = (x' == y').
Proof. intros x x' y y' H1 H2; destruct x, x', y, y'; simpl in H1, H2; subst; re_solve. Qed.
Lemma cmp_Dual2_partial_cmp : forall x x' y y' : Dual2 T, Dual2_f_re x = Dual2_f_re x' -> Dual2_f_re y = Dual2_f_re y' -> Dual2_PartialOrd_partial_cmp x y = Dual2_PartialOrd_partial_cmp x' y'.
Proof. intros x x' y y' H1 H2; destruct x, x', y, y'; simpl in H1, H2; subst; re_solve. Qed.
Lemma cmp_Dual2_is_inner : forall x y : Dual2 T, (x == y) = (Dual2_f_re x == Dual2_f_re y) /\ Dual2_PartialOrd_partial_cmp x y = m_partial_cmp (Dual2_f_re x) (Dual2_f_re y).
Proof. intros x y; destruct x, y; split; re_solve. Qed.
Lemma cmp_DualVec_eq : forall x x' y y' : DualVec T, DualVec_f_re x = DualVec_f_re x' -> DualVec_f_re y = DualVec_f_re y' -> (x == y) = (x' == y').
Proof. intros x x' y y' H1 H2; destruct x, x', y, y'; simpl in H1, H2; subst; re_solve. Qed.
Lemma cmp_DualVec_partial_cmp : forall x x' y y' : DualVec T, DualVec_f_re x = DualVec_f_re x' -> DualVec_f_re y = DualVec_f_re y' -> DualVec_PartialOrd_partial_cmp x y = DualVec_PartialOrd_partial_cmp x' y'.
Proof. intros x x' y y' H1 H2; destruct x, x', y, y'; simpl in H1, H2; subst; re_solve. Qed.
Lemma cmp_DualVec_is_inner : forall x y : DualVec T, (x == y) = (DualVec_f_re x == DualVec_f_re y) /\ DualVec_PartialOrd_partial_cmp x y = m_partial_cmp (DualVec_f_re x) (DualVec_f_re y).
Proof. intros x y; destruct x, y; split; re_solve. Qed.
Lemma cmp_Dual2Vec_eq : forall x x' y y' : Dual2Vec T, Dual2Vec_f_re x = Dual2Vec_f_re x' -> Dual2Vec_f_re y = Dual2Vec_f_re y' -> (x == y) = (x' == y').
Proof. intros x x' y y' H1 H2; destruct x, x', y, y'; simpl in H1, H2; subst; re_solve. Qed.
Lemma cmp_Dual2Vec_partial_cmp : forall x x' y y' : Dual2Vec T, Dual2Vec_f_re x = Dual2Vec_f_re x' -> Dual2Vec_f_re y = Dual2Vec_f_re y' -> Dual2Vec_PartialOrd_partial_cmp x y = Dual2Vec_PartialOrd_partial_cmp x' y'.
Proof. intros x x' y y' H1 H2; destruct x, x', y, y'; simpl in H1, H2; subst; re_solve. Qed.
Lemma cmp_Dual2Vec_is_inner : forall x y : Dual2Vec T, (x == y) = (Dual2Vec_f_re x == Dual2Vec_f_re y) /\ Dual2Vec_PartialOrd_partial_cmp x y = m_partial_cmp (Dual2Vec_f_re x) (Dual2Vec_f_re y).
Proof. intros x y; destruct x, y; split; re_solve. Qed.
End C06.
