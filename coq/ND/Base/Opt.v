(* Base/Opt.v -- vocabulary of std::option / std::result used by the translated code.  Hand-written. *)
From ND Require Export Overload.

Inductive result (A E : Type) := Ok (a : A) | Err (e : E).
Arguments Ok {A E}. Arguments Err {A E}.

Definition opt_zip {A B} (a : option A) (b : option B) : option (A * B) :=
  match a, b with Some x, Some y => Some (x, y) | _, _ => None end.
Definition opt_bind {A B} (a : option A) (f : A -> option B) : option B :=
  match a with Some x => f x | None => None end.
Definition opt_unwrap_or_else {A} (a : option A) (d : unit -> A) : A :=
  match a with Some x => x | None => d tt end.
Definition opt_map_or {A B} (a : option A) (d : B) (f : A -> B) : B :=
  match a with Some x => f x | None => d end.
Definition opt_map_or_else {A B} (a : option A) (d : unit -> B) (f : A -> B) : B :=
  match a with Some x => f x | None => d tt end.
Definition opt_filter {A} (a : option A) (p : A -> bool) : option A :=
  match a with Some x => if p x then Some x else None | None => None end.

(* `.map(f)` on containers *)
Class HMap (C : Type -> Type) := hmap : forall {A B : Type}, (A -> B) -> C A -> C B.
#[global] Hint Mode HMap ! : typeclass_instances.
#[global] Instance HMap_option : HMap option := fun A B f o => option_map f o.
#[global] Instance HMap_result {E} : HMap (fun A => result A E) :=
  fun A B f r => match r with Ok a => Ok (f a) | Err e => Err e end.
#[global] Instance HEqb_option {A} `{HEqb A A} : HEqb (option A) (option A) :=
  fun a b => match a, b with Some x, Some y => heqb x y | None, None => true | _, _ => false end.
