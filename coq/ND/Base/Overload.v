(* Base/Overload.v -- operator and field/method overloading: Coq's class resolution plays the role of
   Rust's trait resolution.  Hand-written, static.  References are erased (a value and a borrow of it are
   the same Gallina term); every impl form is nevertheless translated as its own definition. *)
From Coq Require Export ZArith List Bool QArith Lia.
Export ListNotations.

Declare Scope rs_scope.
Delimit Scope rs_scope with rs.

Class HAdd (A B C : Type) := hadd : A -> B -> C.
Class HSub (A B C : Type) := hsub : A -> B -> C.
Class HMul (A B C : Type) := hmul : A -> B -> C.
Class HDiv (A B C : Type) := hdiv : A -> B -> C.
Class HNeg (A B : Type) := hneg : A -> B.
#[global] Hint Mode HAdd ! ! - : typeclass_instances.
#[global] Hint Mode HSub ! ! - : typeclass_instances.
#[global] Hint Mode HMul ! ! - : typeclass_instances.
#[global] Hint Mode HDiv ! ! - : typeclass_instances.
#[global] Hint Mode HNeg ! - : typeclass_instances.

(* compound assignment: the new value of the left operand *)
Class HAddAssign (A B : Type) := hadd_assign : A -> B -> A.
Class HSubAssign (A B : Type) := hsub_assign : A -> B -> A.
Class HMulAssign (A B : Type) := hmul_assign : A -> B -> A.
Class HDivAssign (A B : Type) := hdiv_assign : A -> B -> A.
#[global] Hint Mode HAddAssign ! ! : typeclass_instances.
#[global] Hint Mode HSubAssign ! ! : typeclass_instances.
#[global] Hint Mode HMulAssign ! ! : typeclass_instances.
#[global] Hint Mode HDivAssign ! ! : typeclass_instances.

(* comparisons (PartialEq / PartialOrd) as booleans *)
Class HEqb (A B : Type) := heqb : A -> B -> bool.
Class HLtb (A B : Type) := hltb : A -> B -> bool.
Class HLeb (A B : Type) := hleb : A -> B -> bool.
#[global] Hint Mode HEqb ! ! : typeclass_instances.
#[global] Hint Mode HLtb ! ! : typeclass_instances.
#[global] Hint Mode HLeb ! ! : typeclass_instances.

Infix "+" := hadd : rs_scope.
Infix "-" := hsub : rs_scope.
Infix "*" := hmul : rs_scope.
Infix "/" := hdiv : rs_scope.
Notation "- x" := (hneg x) : rs_scope.
Notation "x == y" := (heqb x y) (at level 70, no associativity) : rs_scope.
Notation "x <? y" := (hltb x y) (at level 70, no associativity) : rs_scope.
Notation "x <=? y" := (hleb x y) (at level 70, no associativity) : rs_scope.
Notation "x >? y" := (hltb y x) (at level 70, no associativity) : rs_scope.
Notation "x >=? y" := (hleb y x) (at level 70, no associativity) : rs_scope.

Inductive ordering := Less | Equal | Greater.   (* std::cmp::Ordering *)

(* constants and conversions *)
Class HZero (A : Type) := zero : A.
Class HOne (A : Type) := one : A.
Class OfF (F A : Type) := ofF : F -> A.          (* impl From<F> for A *)
#[global] Hint Mode OfF - ! : typeclass_instances.
Class CastZ (F : Type) := castZ : Z -> F.        (* <F as NumCast>::from(i32).unwrap() *)

(* Rust float literal: exact decimal value, binary64 bit pattern, binary32 bit pattern (of the f64 rounded once more) *)
Record flit := FLit { flit_q : Q; flit_b64 : Z; flit_b32 : Z }.
Class HasLit (F : Type) := lit : flit -> F.

(* i32 arithmetic: two's-complement wrap (what a release build does); the checked (debug) build panics
   exactly when [wrap32] changes the mathematical result *)
Definition wrap32 (z : Z) : Z := ((z + 2147483648) mod 4294967296 - 2147483648)%Z.
Definition i32_in_range (z : Z) : bool := ((-2147483648 <=? z) && (z <=? 2147483647))%Z.
#[global] Instance HAdd_i32 : HAdd Z Z Z := fun a b => wrap32 (a + b).
#[global] Instance HSub_i32 : HSub Z Z Z := fun a b => wrap32 (a - b).
#[global] Instance HMul_i32 : HMul Z Z Z := fun a b => wrap32 (a * b).
#[global] Instance HNeg_i32 : HNeg Z Z := fun a => wrap32 (- a).
#[global] Instance HEqb_i32 : HEqb Z Z := Z.eqb.

Lemma wrap32_id z : i32_in_range z = true -> wrap32 z = z.
Proof.
  unfold i32_in_range, wrap32; intros H.
  apply andb_prop in H; destruct H as [H1 H2].
  apply Z.leb_le in H1; apply Z.leb_le in H2.
  rewrite Z.mod_small by lia. lia.
Qed.

(* tokens of the textual rendering (Display) *)
Inductive token (F : Type) := TNum (x : F) | TLit (s : list nat) | TOpen | TClose | TSep | TMat (rows : list (list (list (token F)))).
Arguments TNum {F}. Arguments TLit {F}. Arguments TOpen {F}. Arguments TClose {F}. Arguments TSep {F}. Arguments TMat {F}.
#[global] Instance HEqb_unit : HEqb unit unit := fun _ _ => true.
