(* Base/Show.v -- textual rendering as a list of tokens (Display).  A number is kept as the number itself: Rust's float
   formatting (shortest representation that parses back to the same value) is trusted and re-checked on every case. *)
From ND Require Export Overload Wire.
Class Show (F A : Type) := tokens : A -> list (token F).
#[global] Hint Mode Show - ! : typeclass_instances.
#[global] Instance Show_leaf {F} : Show F F | 100 := fun x => [TNum x].

Fixpoint flat_token {F} `{Flat F} (t : token F) : list otok :=
  match t with
  | TNum x => OTag 200 :: flat x
  | TLit s => OTag 201 :: OInt (Z.of_nat (length s)) :: map (fun c => OInt (Z.of_nat c)) s
  | TOpen => [OTag 202] | TClose => [OTag 203] | TSep => [OTag 204]
  | TMat rows => OTag 205 :: OInt (Z.of_nat (length rows)) :: OInt (Z.of_nat (match rows with [] => 0 | r :: _ => length r end))
                 :: flat_map (fun r => flat_map (fun cell => flat_map flat_token cell) r) rows
  end.
#[global] Instance Flat_token {F} `{Flat F} : Flat (token F) := flat_token.

(* the numbers a token list shows, in reading order *)
Fixpoint token_nums {F} (t : token F) : list F :=
  match t with
  | TNum x => [x]
  | TMat rows => flat_map (fun r => flat_map (fun cell => flat_map token_nums cell) r) rows
  | _ => []
  end.
Definition shown_numbers {F} (l : list (token F)) : list F := flat_map token_nums l.
