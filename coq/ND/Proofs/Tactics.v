(* Proofs/Tactics.v -- tactics shared by the proof files *)
From Coq Require Export Nsatz.
From ND Require Export RModel Derivs.
From Coquelicot Require Export Coquelicot.
Local Open Scope R_scope.

Ltac dmat := repeat match goal with m : mat R |- _ => destruct m as [? ? ?] end.
(* H : In S [b1; ...; bn]  -- run tac once per block *)
Ltac each_block H tac := repeat (destruct H as [<-|H]; [tac|]); try solve [destruct H].
Ltac side := repeat match goal with |- _ /\ _ => split end; auto; try lra; try nra.
Ltac jet_ring := rcbv; ring.
Ltac jet_field := rcbv; field; side.

(* is_derive goals about generated code: reduce the function and the claimed derivative, not is_derive itself *)
Ltac rcbv_derive := match goal with |- is_derive ?f ?x ?l =>
  let f' := eval rred in f in let l' := eval rred in l in change (is_derive f' x l') end.

(* rational identities with square roots: make every sqrt and every inverse an atom with its defining polynomial
   relation, then decide ideal membership *)
Ltac unify_sqrts := repeat match goal with |- context [sqrt ?a] => match goal with |- context [sqrt ?b] =>
   tryif constr_eq a b then fail else (replace a with b by (field; side)) end end.
Ltac sqrt_atoms := repeat match goal with |- context [sqrt ?a] =>
  let s := fresh "s" in let Hs := fresh "Hs" in let Hn := fresh "Hn" in
  assert (Hs : sqrt a * sqrt a = a) by (apply sqrt_sqrt; side);
  assert (Hn : 0 < sqrt a) by (apply sqrt_lt_R0; side);
  set (s := sqrt a) in *; clearbody s end.
Ltac inv_atoms := unfold Rdiv in *; repeat match goal with |- context [/ ?a] =>
   lazymatch a with context [/ _] => fail | _ => idtac end;
   let r := fresh "r" in let Hr := fresh "Hr" in
   assert (Hr : / a * a = 1) by (apply Rinv_l; side);
   set (r := / a) in *; clearbody r end.
Ltac keep_eqs := repeat match goal with H : ?T |- _ =>
  lazymatch T with @eq R _ _ => fail | _ => lazymatch type of T with Prop => clear H end end end.
Ltac rat_nsatz := unify_sqrts; sqrt_atoms; inv_atoms; keep_eqs; nsatz.

Lemma cosh_pos x : 0 < cosh x.
Proof. unfold cosh. pose proof (exp_pos x); pose proof (exp_pos (- x)); lra. Qed.
Lemma inv_pos_div a : 0 < a -> 0 < 1 / a.
Proof. intros; apply Rdiv_lt_0_compat; lra. Qed.
Lemma inv_pos_mul a : 0 < a -> 0 < 1 * / a.
Proof. intros; rewrite Rmult_1_l; apply Rinv_0_lt_compat; assumption. Qed.
Lemma sqrt_one_div' a : sqrt (1 / a) = 1 / sqrt a.
Proof. apply sqrt_one_div. Qed.
Lemma sqrt_one_mul_inv a : sqrt (1 * / a) = 1 / sqrt a.
Proof. apply (sqrt_one_div a). Qed.
Ltac rat_nsatz' := rewrite ?sqrt_one_div', ?sqrt_one_mul_inv; unify_sqrts; sqrt_atoms; inv_atoms; keep_eqs; nsatz.
Lemma cosh2_sinh2 x : cosh x * cosh x - sinh x * sinh x = 1.
Proof.
  unfold cosh, sinh. assert (Hm : exp x * exp (- x) = 1) by (rewrite <- exp_plus, Rplus_opp_r; apply exp_0).
  set (a := exp x) in *. set (b := exp (- x)) in *. nra.
Qed.
