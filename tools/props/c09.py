"""C09 -- power functions are correct for every exponent."""
import mpmath
from mpmath import mpf
import vlib, pyjet, genvals
from vlib import Case
from props.base import BaseProp, Violation

U = {64: 2.0 ** -53, 32: 2.0 ** -24}
SMALL_N = [0, 1, 2, 3, 4, 5, 7, -1, -2, -3, -4, 10, -9]
LARGE_N = [100, -100, 1000, 1291, 1292, 2000, -2000, 46341, 50000, -50000, 2 ** 16 + 1, 2 ** 20, -(2 ** 20) + 1, 2 ** 24 - 1, 2 ** 30, -(2 ** 30)]
POWF_N = [0.0, 1.0, 2.0, 2.0 + 2 ** -51, 2.0 - 2 ** -51, 2.0 + 2 ** -50, 2.0 - 2 ** -45, 1.0 + 2 ** -52, 2 ** -60, 0.5, -1.5, 3.0, 2.5, 1e-3, 100.5, -7.25, 3.5, -2.0, 4.0]


def base_for(rng, n):
    """a base whose n-th power neither overflows nor underflows"""
    an = max(abs(n), 1)
    if an <= 10:
        return rng.choice([1, -1]) * rng.uniform(0.2, 4)
    # |n ln x| <= 20
    d = 20.0 / an
    return rng.choice([1, -1]) * (1.0 + rng.uniform(-d, d))


class Prop(BaseProp):
    coq_targets = ['ND/Proofs/C09_proofs.vo', 'ND/Proofs/C09_faa.vo', 'ND/Proofs/C09_powd.vo', 'ND/Proofs/C09_agree.vo', 'ND/Proofs/C09_three.vo']
    n_quick, n_thorough = 600, 12000

    def cases(self, rng, n):
        tys = genvals.type_list(self.tier, include32=True)
        out = []
        k = 0
        kinds = ['powi_small', 'powi_large', 'powf', 'powd', 'powi_small', 'powf']
        while len(out) < n:
            ty = tys[k % len(tys)]
            kind = kinds[(k // len(tys)) % len(kinds)]
            k += 1
            w = ty.leaf().width
            if kind.startswith('powi'):
                e = rng.choice(SMALL_N if kind == 'powi_small' else LARGE_N)
                if w == 32 and abs(e) > 2 ** 20:
                    e = rng.choice(SMALL_N)
                x0 = base_for(rng, e)
                a = genvals.gen_value(rng, ty, genvals.leaf_rand, re_leaf=lambda r: x0)
                out.append(Case('c%d' % len(out), ty, 'powi', [a], [e], tag=kind))
            elif kind == 'powf':
                e = rng.choice(POWF_N)
                a = genvals.gen_value(rng, ty, genvals.leaf_rand, re_leaf=lambda r: r.uniform(0.2, 4))
                out.append(Case('c%d' % len(out), ty, 'powf', [a], [genvals.enc_leaf(e, w)], tag=kind))
            else:
                a = genvals.gen_value(rng, ty, genvals.leaf_rand, re_leaf=lambda r: r.uniform(0.2, 4))
                b = genvals.gen_value(rng, ty, genvals.leaf_rand, re_leaf=lambda r: r.choice([r.uniform(-3, 3), r.uniform(-3, 3), 0.0, 1.0, 2.0, -1.0, -0.0]))
                out.append(Case('c%d' % len(out), ty, 'powd', [a, b], tag=kind))
        return out

    def reference(self, case, conv):
        J = pyjet.jet_of_value(case.args[0], case.ty, conv)
        n = J.order()
        x = J.re
        if case.op == 'powi':
            e = case.aux[0]
            d = []
            c = mpf(1)
            for k in range(n + 2):
                d.append(c * mpmath.power(x, e - k) if (e - k >= 0 or x != 0) else mpf(0))
                c = c * (e - k)
            return J.compose(d), J.compose_abs(d)
        if case.op == 'powf':
            e = conv(case.aux[0])

            def tower(e):
                d = []
                c = mpf(1)
                for k in range(n + 2):
                    d.append(c * mpmath.power(x, e - k))
                    c = c * (e - k)
                return d
            d = tower(e)
            # backward error in the exponent as well: a relative perturbation u of n moves f_k by |n df_k/dn| u
            h = mpf(10) ** -25
            d2 = tower(e * (1 + h))
            dn = [abs(a - b) / h for a, b in zip(d2, d)]
            sc = J.compose_abs(d)
            sc2 = J.compose_abs([abs(a) + b for a, b in zip(d, dn)])
            return J.compose(d), sc2
        # powd: exp (n ln x)
        N = pyjet.jet_of_value(case.args[1], case.ty, conv)
        L, Ls = pyjet.apply_unary('ln', J)
        Y = L * N
        absN = pyjet.Jet({S: abs(N[S]) for S in N.fam}, N.fam, mpf(0))
        Ys = Ls.mul_abs(absN)
        R, Rs = pyjet.apply_unary('exp', Y)
        # stability scale: exp tower at Y.re with magnitudes of Y's parts
        Ym = pyjet.Jet(dict(Ys.p), Ys.fam, mpf(0))
        Ym.p[()] = Y.re
        _, Rs2 = pyjet.apply_unary('exp', Ym)
        sc = pyjet.Jet({S: Rs2[S] + Rs[S] for S in R.fam}, R.fam, mpf(0))
        return R, sc

    def oracle(self, case, impl):
        w = case.ty.leaf().width
        conv = lambda b: pyjet.mpf_of_bits(b, w)
        if impl == 'panic':
            return Violation('counterexample', '%s(%s) on %s panics' % (case.op, case.aux[0] if case.aux else '', case.ty), case=case, obtained='panic')
        ref, scale = self.reference(case, conv)
        for S in ref.fam:
            b = pyjet.part_bits(impl, case.ty, S)
            want = ref[S]
            fmax0 = mpf(2) ** (1024 if w == 64 else 128)
            if abs(want) >= fmax0 * (1 - mpf(2) ** -20) or scale[S] >= fmax0 or abs(ref[()]) >= fmax0 * (1 - mpf(2) ** -20):
                continue      # overflow of the format: out of scope
            if b == vlib.NAN:
                return Violation('counterexample', '%s on %s: part %s is NaN, true value %s' % (case.op, case.ty, S, mpmath.nstr(want, 12)), case=case,
                                 expected=mpmath.nstr(want, 20), obtained='NaN')
            got = conv(b)
            c = 64 if case.op == 'powd' else 32
            fmax = mpf(2) ** (1024 if w == 64 else 128)
            fmin = mpf(2) ** (-1022 if w == 64 else -126)
            if abs(want) >= fmax * (1 - mpf(2) ** -20) or scale[S] >= fmax:
                continue      # the exact value (or an intermediate term) overflows the format: out of the property's scope
            tol = c * U[w] * scale[S] + fmin
            if abs(got - want) > tol:
                return Violation('counterexample', '%s(%s) on %s at x=%s: part %s = %s, generalized binomial derivative gives %s (|error| = %s u Sum|terms|)' % (
                    case.op, case.aux[0] if case.aux else 'dual', case.ty, mpmath.nstr(ref[()], 8), S, mpmath.nstr(got, 17), mpmath.nstr(want, 17),
                    mpmath.nstr(abs(got - want) / (U[w] * scale[S]), 4) if scale[S] != 0 else 'inf'),
                    case=case, expected=mpmath.nstr(want, 25), obtained=mpmath.nstr(got, 25), detail={'block': str(S)})
        return None

    def debug_release_differ(self, c, d, r):
        return Violation('counterexample', 'debug and release builds disagree on %s(%s) for %s (integer overflow?)' % (c.op, c.aux, c.ty), case=c, expected={'debug': d}, obtained={'release': r})

    def nontrivial(self, case, impl):
        if impl == 'panic':
            return False
        lv = vlib.leaves(impl, case.ty)
        return any(x not in (0, vlib.NAN) for x in lv[1:])

    def rule_text(self):
        return ('powi with small exponents (incl. 0, 1, 2, negative) and large ones up to 2^30 on bases of either sign close enough to 1 not to overflow; powf with exponents '
                '0, 1, 2, neighbours of 2 and 1 within a few ulps, fractional and negative ones; powd with dual exponents; reference: generalized binomial tower / exp(n ln x) in '
                '60-digit arithmetic composed by Faa di Bruno, tolerance 32 u Sum(|f_k| + |x f_{k+1}|) prod|parts| (64 u for powd); distinct by (type, op, exponent, operand bits)')
