(* Proofs/C04_proofs.v -- all number types agree on shared derivatives: instances of the generic agreement theorem (Agree.prog_agree)
   for the relabellings that relate the types, for EVERY program of the syntax Hand/Prog.v (arithmetic with dual and scalar operands,
   the 22 elementary functions, integer powers, sharing through let), every dimension and every presence pattern. *)
From ND Require Import Tactics C02_proofs C01_towers C01_faa C07_proofs Prog Agree C04_inst.
Local Open Scope R_scope.

(* vector type, direction i  <->  scalar first-order type *)
Definition rel_DualVec_Dual (i : nat) := rel (partX:=part_DualVec) (wfX:=fun _ => True) (partY:=part_Dual) (wfY:=fun _ => True) (famY:=fam_c04_Dual) (fun _ : unit => i).
Theorem agree_DualVec_Dual i p envX envY : Forall2 (rel_DualVec_Dual i) envX envY -> ok (pwX:=fun _ => True) (pwY:=fun _ => True) (partX:=part_DualVec) envX p ->
  rel_DualVec_Dual i (eval envX p) (eval envY p).
Proof.
  apply (prog_agree JA_c04_DualVec JA_c04_Dual (fun _ => i)).
  intros S F. unfold fam_c04_Dual in F. exists i. in_cases F; simpl; auto.
Qed.

(* second-order vector type, directions (i, j)  <->  hyper-dual scalar type *)
Definition f_ij {L} (a b : L) (n : nat) : L := if Nat.eqb n 1 then a else b.
Definition rel_Dual2Vec_HyperDual (i j : nat) := rel (partX:=part_Dual2Vec) (wfX:=wf_Dual2Vec) (partY:=part_HyperDual) (wfY:=fun _ => True) (famY:=fam_c04_HyperDual) (f_ij i j).
Theorem agree_Dual2Vec_HyperDual i j p envX envY : Forall2 (rel_Dual2Vec_HyperDual i j) envX envY -> ok (pwX:=fun _ => True) (pwY:=fun _ => True) (partX:=part_Dual2Vec) envX p ->
  rel_Dual2Vec_HyperDual i j (eval envX p) (eval envY p).
Proof.
  apply (prog_agree JA_c04_Dual2Vec JA_c04_HyperDual (f_ij i j)).
  intros S F. unfold fam_c04_HyperDual in F. in_cases F; simpl; [exists i, j | exists i, j | exists j, j | exists i, j]; simpl; auto.
Qed.
Definition rel_HyperDualVec_HyperDual (i j : nat) := rel (partX:=part_HyperDualVec) (wfX:=wf_HyperDualVec) (partY:=part_HyperDual) (wfY:=fun _ => True)
  (famY:=fam_c04_HyperDual) (f_ij (inl i) (inr j)).
Theorem agree_HyperDualVec_HyperDual i j p envX envY : Forall2 (rel_HyperDualVec_HyperDual i j) envX envY -> ok (pwX:=fun _ => True) (pwY:=fun _ => True) (partX:=part_HyperDualVec) envX p ->
  rel_HyperDualVec_HyperDual i j (eval envX p) (eval envY p).
Proof.
  apply (prog_agree JA_c04_HyperDualVec JA_c04_HyperDual (f_ij (inl i) (inr j))).
  intros S F. unfold fam_c04_HyperDual in F. exists i, j. in_cases F; simpl; auto.
Qed.

(* the same variable differentiated twice / three times  <->  two / three directions on that variable *)
Definition rel_Dual2_HyperDual := rel (partX:=part_Dual2) (wfX:=fun _ => True) (partY:=part_HyperDual) (wfY:=fun _ => True) (famY:=fam_c04_HyperDual) (fun _ : nat => tt).
Theorem agree_Dual2_HyperDual p envX envY : Forall2 rel_Dual2_HyperDual envX envY -> ok (pwX:=fun _ => True) (pwY:=fun _ => True) (partX:=part_Dual2) envX p -> rel_Dual2_HyperDual (eval envX p) (eval envY p).
Proof.
  apply (prog_agree JA_c04_Dual2 JA_c04_HyperDual (fun _ => tt)).
  intros S F. unfold fam_c04_HyperDual in F; unfold fam_c04_Dual2. in_cases F; simpl; auto.
Qed.
Definition rel_Dual3_HHD := rel (partX:=part_Dual3) (wfX:=fun _ => True) (partY:=part_HHD) (wfY:=fun _ => True) (famY:=fam_c04_HyperHyperDual) (fun _ : nat => tt).
Theorem agree_Dual3_HHD p envX envY : Forall2 rel_Dual3_HHD envX envY -> ok (pwX:=fun _ => True) (pwY:=fun _ => True) (partX:=part_Dual3) envX p -> rel_Dual3_HHD (eval envX p) (eval envY p).
Proof.
  apply (prog_agree JA_c04_Dual3 JA_c04_HyperHyperDual (fun _ => tt)).
  intros S F. unfold fam_c04_HyperHyperDual in F; unfold fam_c04_Dual3. in_cases F; simpl; auto 8.
Qed.
(* lower orders are prefixes of higher orders *)
Definition rel_Dual3_Dual2 := rel (partX:=part_Dual3) (wfX:=fun _ => True) (partY:=part_Dual2) (wfY:=fun _ => True) (famY:=fam_c04_Dual2) (fun u : unit => u).
Theorem agree_Dual3_Dual2 p envX envY : Forall2 rel_Dual3_Dual2 envX envY -> ok (pwX:=fun _ => True) (pwY:=fun _ => True) (partX:=part_Dual3) envX p -> rel_Dual3_Dual2 (eval envX p) (eval envY p).
Proof.
  apply (prog_agree JA_c04_Dual3 JA_c04_Dual2 (fun u => u)).
  intros S F. unfold fam_c04_Dual2 in F; unfold fam_c04_Dual3. in_cases F; simpl; auto 8.
Qed.
Definition rel_Dual2_Dual := rel (partX:=part_Dual2) (wfX:=fun _ => True) (partY:=part_Dual) (wfY:=fun _ => True) (famY:=fam_c04_Dual) (fun u : unit => u).
Theorem agree_Dual2_Dual p envX envY : Forall2 rel_Dual2_Dual envX envY -> ok (pwX:=fun _ => True) (pwY:=fun _ => True) (partX:=part_Dual2) envX p -> rel_Dual2_Dual (eval envX p) (eval envY p).
Proof.
  apply (prog_agree JA_c04_Dual2 JA_c04_Dual (fun u => u)).
  intros S F. unfold fam_c04_Dual in F; unfold fam_c04_Dual2. in_cases F; simpl; auto 8.
Qed.
(* hyper-dual: each direction alone is a first-order number *)
Definition rel_HyperDual_Dual (k : nat) := rel (partX:=part_HyperDual) (wfX:=fun _ => True) (partY:=part_Dual) (wfY:=fun _ => True) (famY:=fam_c04_Dual) (fun _ : unit => k).
Theorem agree_HyperDual_Dual k p envX envY : (k = 1 \/ k = 2)%nat -> Forall2 (rel_HyperDual_Dual k) envX envY -> ok (pwX:=fun _ => True) (pwY:=fun _ => True) (partX:=part_HyperDual) envX p ->
  rel_HyperDual_Dual k (eval envX p) (eval envY p).
Proof.
  intros Hk. apply (prog_agree JA_c04_HyperDual JA_c04_Dual (fun _ => k)).
  intros S F. unfold fam_c04_Dual in F; unfold fam_c04_HyperDual. destruct Hk as [-> | ->]; in_cases F; simpl; auto 8.
Qed.
