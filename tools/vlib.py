"""Shared machinery of ./check: regeneration of the model from /repo, Coq build and audit, the Rust harness,
execution of the generated model inside Coq (correspondence), value wire formats, evidence and reporting."""
import os, sys, json, re, subprocess, hashlib, time, struct, fcntl, glob, math, shutil

ROOT = '/verif'
REPO = '/repo'
CACHE = ROOT + '/.cache'
COQ = ROOT + '/coq'
GEN = COQ + '/gen'
T0 = time.time()
ENV = dict(os.environ, CARGO_NET_OFFLINE='true')
COQFLAGS = ['-Q', COQ + '/ND', 'ND', '-Q', GEN, 'NDgen', '-w',
            '-deprecated-instance-without-locality,-future-coercion-class-field,-overriding-logical-loadpath']


class InfraError(Exception):
    """tooling failure (timeout, build of the machinery itself): exit code 2, never a VIOLATION and never a pass"""


def log(*a):
    print('[%6.1fs]' % (time.time() - T0), *a, file=sys.stderr, flush=True)


def sh(cmd, timeout, cwd=None, env=None, inp=None):
    try:
        p = subprocess.run(cmd, cwd=cwd, env=env or ENV, input=inp, capture_output=True, text=True, timeout=timeout)
    except subprocess.TimeoutExpired:
        raise InfraError('timeout after %ds: %s' % (timeout, ' '.join(cmd)[:200]))
    return p.returncode, p.stdout, p.stderr


class Lock:
    def __init__(self, name='build'):
        os.makedirs(CACHE, exist_ok=True)
        self.path = CACHE + '/%s.lock' % name

    def __enter__(self):
        self.f = open(self.path, 'w')
        fcntl.flock(self.f, fcntl.LOCK_EX)

    def __exit__(self, *a):
        fcntl.flock(self.f, fcntl.LOCK_UN)
        self.f.close()


# ------------------------------------------------------------------------------------------------------
# generation: /repo source -> expanded.rs -> ast.json -> coq/gen/*.v

def repo_hash(extra=()):
    h = hashlib.sha256()
    files = sorted(glob.glob(REPO + '/src/**/*.rs', recursive=True)) + [REPO + '/Cargo.toml', REPO + '/Cargo.lock']
    files += sorted(glob.glob(ROOT + '/tools/*.py')) + sorted(glob.glob(ROOT + '/tools/front/src/*.rs'))
    for f in files:
        if os.path.exists(f):
            h.update(f.encode())
            h.update(open(f, 'rb').read())
    for e in extra:
        h.update(e.encode())
    return h.hexdigest()[:20]


def build_front():
    exe = CACHE + '/front-target/debug/front'
    src = ROOT + '/tools/front'
    rc, o, e = sh(['cargo', 'build', '--offline', '--manifest-path', src + '/Cargo.toml', '--target-dir', CACHE + '/front-target'], 900)
    if rc != 0:
        raise InfraError('translator front end does not build:\n' + e[-2000:])
    return exe


def expand(features, out):
    """macro-expand the crate with nightly rustc; cargo's freshness cache is defeated so that the output is produced"""
    tdir = CACHE + '/expand-target-' + hashlib.md5(features.encode()).hexdigest()[:6]
    for d in glob.glob(tdir + '/debug/.fingerprint/num-dual-*'):
        shutil.rmtree(d, ignore_errors=True)
    cmd = ['cargo', '+nightly', 'rustc', '--lib', '--offline', '--profile', 'check', '--features', features, '--',
           '-Zunpretty=expanded']
    env = dict(ENV, CARGO_TARGET_DIR=tdir)
    rc, o, e = sh(cmd, 1200, cwd=REPO, env=env)
    if rc != 0 or len(o) < 1000:
        return False, e
    open(out, 'w').write(o)
    return True, e


def ensure_gen(force=False):
    """regenerate coq/gen from /repo's current working tree (cached on a hash of the sources and of the translator)"""
    with Lock():
        h = repo_hash()
        stamp = CACHE + '/gen.stamp'
        if not force and os.path.exists(stamp) and open(stamp).read() == h and os.path.exists(GEN + '/coverage.json'):
            return {'hash': h, 'cached': True, 'ok': True}
        t = time.time()
        front = build_front()
        ok, err = expand('linalg serde', CACHE + '/expanded.rs')
        if not ok:
            # the crate does not compile to the point of expansion: that is not a property violation
            raise InfraError('macro expansion of /repo failed (does the crate build?):\n' + err[-3000:])
        rc, o, e = sh([front, CACHE + '/expanded.rs', CACHE + '/ast.json'], 300)
        if rc != 0:
            raise InfraError('front end failed: ' + e[-2000:])
        os.makedirs(GEN, exist_ok=True)
        rc, o, e = sh(['python3', ROOT + '/tools/emit.py', CACHE + '/ast.json', GEN], 300)
        if rc != 0:
            raise InfraError('emitter failed: ' + e[-2000:])
        open(CACHE + '/emit.log', 'w').write(o)
        rc, o2, e2 = sh(['python3', ROOT + '/tools/gen_serde.py', CACHE + '/expanded.rs', GEN + '/structs.json', GEN + '/Gen_Serde.v'], 120)
        if rc != 0:
            raise InfraError('serde table extraction failed: ' + e2[-1500:])
        rc, o3, e3 = sh(['python3', ROOT + '/tools/gen_bessel.py'], 120)
        if rc != 0:
            raise InfraError('bessel table extraction failed: ' + (e3 or o3)[-1500:])
        rc, o4, e4 = sh(['python3', ROOT + '/tools/gen_pywrap.py'], 120)
        if rc != 0:
            raise InfraError('python wrapper table extraction failed: ' + (e4 or o4)[-1500:])
        mkproject()
        open(stamp, 'w').write(h)
        log('generated model from /repo (%s) in %.1fs' % (h, time.time() - t))
        return {'hash': h, 'cached': False, 'ok': True}


def mkproject():
    files = []
    for d in ('ND', 'gen'):
        for root, _, fs in os.walk(COQ + '/' + d):
            for f in fs:
                if f.endswith('.v') and '/Props' not in root and '/Cases' not in root:
                    files.append(os.path.relpath(os.path.join(root, f), COQ))
    files.sort()
    txt = '-Q ND ND\n-Q gen NDgen\n-arg -w -arg -deprecated-instance-without-locality,-future-coercion-class-field,-overriding-logical-loadpath\n' + '\n'.join(files) + '\n'
    p = COQ + '/_CoqProject'
    if not os.path.exists(p) or open(p).read() != txt or not os.path.exists(COQ + '/Makefile'):
        open(p, 'w').write(txt)
        rc, o, e = sh(['coq_makefile', '-f', '_CoqProject', '-o', 'Makefile'], 120, cwd=COQ)
        if rc != 0:
            raise InfraError('coq_makefile: ' + e)


def coverage():
    return json.load(open(GEN + '/coverage.json'))


# ------------------------------------------------------------------------------------------------------
# Coq build, audit

def coq_make(targets, timeout=3000):
    """full .vo build of the given targets (relative to coq/); returns (ok, output)"""
    with Lock():
        mkproject()
        rc, o, e = sh(['make', '-j16', '-k'] + targets, timeout, cwd=COQ)
    return rc == 0, o + e


def coq_errors(out):
    """[(file, line, message, enclosing lemma)] from a failed build"""
    res = []
    for m in re.finditer(r'File "\./([^"]+)", line (\d+), characters [^\n]*\n((?:.|\n)*?)(?=\nFile "|\nmake|\Z)', out):
        f, line, msg = m.group(1), int(m.group(2)), m.group(3).strip()
        if not msg.startswith('Error') and 'Error' not in msg:
            continue
        name = None
        try:
            src = open(COQ + '/' + f).read().split('\n')
            for i in range(line - 1, -1, -1):
                mm = re.match(r'\s*(?:Local |Global |#\[[^\]]*\] )?(Lemma|Theorem|Example|Definition|Corollary|Fact|Instance)\s+(\w+)', src[i])
                if mm:
                    name = mm.group(2)
                    break
        except OSError:
            pass
        res.append({'file': f, 'line': line, 'message': msg[:600], 'lemma': name})
    return res


ALLOWED_AXIOMS = {
    # classical real numbers of Coq's standard library (Reals), used by every theorem over R
    'ClassicalDedekindReals.sig_forall_dec', 'ClassicalDedekindReals.sig_not_dec',
    'FunctionalExtensionality.functional_extensionality_dep',
    # excluded middle (Flocq, Coquelicot, Classical)
    'Classical_Prop.classic',
    # Epsilon / description (Coquelicot)
    'ClassicalEpsilon.constructive_indefinite_description', 'ClassicalUniqueChoice.dependent_unique_choice',
    'ClassicalUniqueChoice.unique_choice', 'ClassicalChoice.choice', 'Description.constructive_definite_description',
    'ClassicalDescription.excluded_middle_informative', 'ChoiceFacts.constructive_definite_descr_excluded_middle',
    'ProofIrrelevance.proof_irrelevance', 'PropExtensionality.propositional_extensionality', 'Eqdep.Eq_rect_eq.eq_rect_eq',
    'JMeq.JMeq_eq',
}
ALLOWED_PREFIXES = ('PrimFloat.', 'FloatAxioms.', 'FloatOps.', 'Uint63.', 'PrimInt63.', 'Sint63.', 'Uint63Axioms.', 'Int63.', 'FloatClass.',
                    'SpecFloat.', 'CarryType.', 'PrimArray.')


def source_audit():
    """no Admitted / admit / Axiom / Parameter / ... anywhere in the development"""
    bad = []
    pat = re.compile(r'\b(Admitted|admit|Axiom|Axioms|Parameter|Parameters|Conjecture|Hypothesis|Variable|Variables|Hypotheses|Abort All|bypass_check|type-in-type|impredicative-set)\b|Unset\s+(Guard|Positivity|Universe)\s+Check|Admit Obligations')
    for root, _, fs in os.walk(COQ):
        for f in fs:
            if not f.endswith('.v'):
                continue
            p = os.path.join(root, f)
            txt = open(p).read()
            txt_nc = strip_coq_comments(txt)
            depth = 0
            for ln, line in enumerate(txt_nc.split('\n'), 1):
                if re.match(r'\s*Section\b', line):
                    depth += 1
                if re.match(r'\s*End\b', line) and depth > 0:
                    depth -= 1
                for m in pat.finditer(line):
                    w = m.group(0)
                    if w in ('Variable', 'Variables', 'Hypothesis', 'Hypotheses') and depth > 0:
                        continue  # section-local: becomes an explicit premise of every theorem that uses it
                    bad.append('%s:%d: %s' % (os.path.relpath(p, COQ), ln, line.strip()[:120]))
    return bad


def strip_coq_comments(s):
    out, depth, i = [], 0, 0
    while i < len(s):
        if s.startswith('(*', i):
            depth += 1
            i += 2
        elif s.startswith('*)', i) and depth > 0:
            depth -= 1
            i += 2
        else:
            if depth == 0 or s[i] == '\n':
                out.append(s[i])
            i += 1
    return ''.join(out)


def compile_props(pid, timeout=1200):
    """compile Props/<pid>.v (only `exact lemma` proofs, Check pins, Print Assumptions) and collect, per theorem,
    the axioms it depends on.  Returns dict(ok, theorems=[...], assumptions={thm: [...]}, bad_axioms=[...], output)"""
    src = COQ + '/ND/Props/%s.v' % pid
    txt = strip_coq_comments(open(src).read())
    theorems = re.findall(r'^\s*Theorem\s+(\w+)', txt, re.M)
    with Lock():
        rc, o, e = sh(['coqc'] + COQFLAGS + [src], timeout, cwd=COQ)
    out = o + e
    res = {'ok': rc == 0, 'theorems': theorems, 'assumptions': {}, 'bad_axioms': [], 'output': out, 'errors': []}
    if rc != 0:
        res['errors'] = coq_errors(out.replace(src, './ND/Props/%s.v' % pid))
        if not res['errors']:
            res['errors'] = [{'file': 'ND/Props/%s.v' % pid, 'line': 0, 'message': out[-800:], 'lemma': None}]
        return res
    # Print Assumptions blocks appear in order, one per `Print Assumptions X.` command
    printed = re.findall(r'\bPrint Assumptions\s+(\w+)', txt)
    blocks = re.split(r'(?m)^(?=Closed under the global context|Axioms:)', o)
    blocks = [b for b in blocks if b.startswith('Closed under') or b.startswith('Axioms:')]
    if len(blocks) != len(printed):
        res['ok'] = False
        res['errors'] = [{'file': 'ND/Props/%s.v' % pid, 'line': 0, 'lemma': None,
                          'message': 'could not match Print Assumptions output (%d blocks, %d commands)' % (len(blocks), len(printed))}]
        return res
    bundles = {m.group(1): re.findall(r'\w+', m.group(2)) for m in re.finditer(r'Definition\s+(\w+_bundle)\s*:=\s*\(([^.]*)\)\s*\.', txt)}
    for name, b in zip(printed, blocks):
        axs = []
        if b.startswith('Axioms:'):
            axs = re.findall(r'^(\S+)\s*:', b[len('Axioms:'):], re.M)
            axs = [a for a in axs if a]
        for member in bundles.get(name, [name]):
            res['assumptions'][member] = axs
        for a in axs:
            if a not in ALLOWED_AXIOMS and not a.startswith(ALLOWED_PREFIXES):
                res['bad_axioms'].append((name, a))
    missing = [t for t in theorems if t not in res['assumptions']]
    if missing:
        res['ok'] = False
        res['errors'] = [{'file': 'ND/Props/%s.v' % pid, 'line': 0, 'lemma': m, 'message': 'no Print Assumptions for theorem'} for m in missing]
    if res['bad_axioms']:
        res['ok'] = False
    return res


# ------------------------------------------------------------------------------------------------------
# harness

def build_harness(profile='dev', features=None):
    hd = ROOT + '/harness'
    if not os.path.exists(hd + '/Cargo.lock'):
        shutil.copy(REPO + '/Cargo.lock', hd + '/Cargo.lock')
    cmd = ['cargo', 'build', '--offline', '--manifest-path', hd + '/Cargo.toml']
    if profile == 'release':
        cmd.append('--release')
    with Lock('cargo'):
        rc, o, e = sh(cmd, 3000, cwd=hd)
    exe = CACHE + '/harness-target/%s/harness' % ('release' if profile == 'release' else 'debug')
    if rc != 0:
        # distinguish: /repo does not compile (not a violation: the brief's mutants compile) vs harness bug
        raise InfraError('harness does not build against /repo:\n' + e[-3000:])
    return exe


def build_pymodule():
    """build the Python extension module from /repo's working tree (feature python, cdylib); -> directory containing num_dual.abi3.so"""
    with Lock('pymodule'):
        out = CACHE + '/py'
        os.makedirs(out, exist_ok=True)
        h = repo_hash()
        stamp = out + '/stamp'
        if os.path.exists(stamp) and open(stamp).read() == h and os.path.exists(out + '/num_dual.abi3.so'):
            return out
        env = dict(os.environ, CARGO_NET_OFFLINE='true', CARGO_TARGET_DIR=CACHE + '/pytarget')
        rc, o, e = sh(['cargo', 'rustc', '--lib', '--offline', '--features', 'python', '--crate-type', 'cdylib'], 3000, cwd=REPO, env=env)
        if rc != 0:
            raise InfraError('building the python module failed:\n' + (e or o)[-3000:])
        so = CACHE + '/pytarget/debug/libnum_dual.so'
        if not os.path.exists(so):
            raise InfraError('python module not produced at ' + so)
        shutil.copy(so, out + '/num_dual.abi3.so')
        open(stamp, 'w').write(h)
        return out


def run_pymodule(moddir, cases, timeout=900):
    rc, o, e = sh(['python3-vt', ROOT + '/tools/pyrun.py', moddir], timeout, inp=json.dumps(cases))
    if rc != 0:
        raise InfraError('python runner failed: ' + (e or o)[-2000:])
    return json.loads(o)


def run_harness(exe, lines, timeout=600):
    rc, o, e = sh([exe], timeout, inp='\n'.join(lines) + '\n')
    if rc != 0:
        raise InfraError('harness crashed: ' + e[-1000:])
    res = {}
    for l in o.split('\n'):
        p = l.split()
        if len(p) >= 2:
            res[p[0]] = (p[1], p[2:])
    return res


def run_oracle(exe, reqs, timeout=300):
    """reqs: iterable of (width, id, a, b, c) -> dict"""
    reqs = sorted(set(reqs))
    if not reqs:
        return {}
    rc, o, e = sh([exe, 'oracle'], timeout, inp='\n'.join(' '.join(str(x) for x in r) for r in reqs) + '\n')
    if rc != 0:
        raise InfraError('oracle helper crashed: ' + e[-1000:])
    res = {}
    for l in o.split('\n'):
        p = l.split()
        if len(p) == 6:
            res[tuple(int(x) for x in p[:5])] = int(p[5])
    return res


# ------------------------------------------------------------------------------------------------------
# floats as bit patterns

def f2b(x):
    return struct.unpack('<Q', struct.pack('<d', x))[0]


def b2f(b):
    return struct.unpack('<d', struct.pack('<Q', b & 0xFFFFFFFFFFFFFFFF))[0]


def f2b32(x):
    try:
        return struct.unpack('<I', struct.pack('<f', x))[0]
    except OverflowError:
        return 0x7f800000 if x > 0 else 0xff800000


def b2f32(b):
    return struct.unpack('<f', struct.pack('<I', b & 0xFFFFFFFF))[0]


NAN = 'nan'


def canon_bits(b, width=64):
    """canonical form for comparison: every NaN is one token; -0 = +0 unless the caller keeps signs"""
    if width == 64:
        if (b >> 52) & 0x7FF == 0x7FF and b & ((1 << 52) - 1):
            return NAN
        if b == 1 << 63:
            return 0
    else:
        if (b >> 23) & 0xFF == 0xFF and b & ((1 << 23) - 1):
            return NAN
        if b == 1 << 31:
            return 0
    return b


# ------------------------------------------------------------------------------------------------------
# types and values
#
# A type is a tree: ('f64',) | ('f32',) | (struct, inner, dims) with dims = () for scalar structs, (n,) for DualVec and
# Dual2Vec, (m, n) for HyperDualVec; plus `static` flag only relevant to the harness name.
# A value: float leaf = int bit pattern; struct = list of field values in declaration order, a derivative field being
# None (absent) or (rows, cols, [entries column-major]).

_structs = None


def structs():
    global _structs
    if _structs is None:
        _structs = json.load(open(GEN + '/structs.json'))
    return _structs


class Ty:
    def __init__(self, hname, struct=None, inner=None, dims=(), width=64):
        self.hname, self.struct, self.inner, self.dims, self.width = hname, struct, inner, dims, width

    @property
    def is_float(self):
        return self.struct is None

    def coq(self, leaf='xf'):
        if self.is_float:
            return leaf
        return '(%s %s)' % (self.struct, self.inner.coq(leaf))

    def fields(self):
        return structs()[self.struct]

    def shape(self, fld):
        """(rows, cols) of a derivative field for this type's dims"""
        def d(sym):
            if sym == 'U1':
                return 1
            if sym == 'D':
                return self.dims[0]
            if sym == 'M':
                return self.dims[0]
            if sym == 'N':
                return self.dims[1]
            raise KeyError(sym)
        return d(fld['rows']), d(fld['cols'])

    def leaf(self):
        t = self
        while not t.is_float:
            t = t.inner
        return t

    def depth(self):
        return 0 if self.is_float else 1 + self.inner.depth()

    def __repr__(self):
        return self.hname


F64 = Ty('f64')
F32 = Ty('f32', width=32)


def mk_types():
    T = {}

    def add(t):
        T[t.hname] = t
        return t
    add(F64)
    add(F32)
    for s, hn in (('Dual', 'Dual64'), ('Dual2', 'Dual2_64'), ('Dual3', 'Dual3_64'), ('HyperDual', 'HyperDual64'),
                  ('HyperHyperDual', 'HyperHyperDual64')):
        add(Ty(hn, s, F64))
    for s, hn in (('Dual', 'Dual32'), ('Dual2', 'Dual2_32'), ('Dual3', 'Dual3_32'), ('HyperDual', 'HyperDual32')):
        add(Ty(hn, s, F32, width=32))
    for n in (1, 2, 3):
        add(Ty('DualSVec64_%d' % n, 'DualVec', F64, (n,)))
        add(Ty('Dual2SVec64_%d' % n, 'Dual2Vec', F64, (n,)))
    for n in (4, 5, 6):        # larger static sizes: used by C04 (static vs dynamic storage)
        add(Ty('DualSVec64_%d' % n, 'DualVec', F64, (n,)))
        add(Ty('Dual2SVec64_%d' % n, 'Dual2Vec', F64, (n,)))
    add(Ty('HyperDualSVec64_3_3', 'HyperDualVec', F64, (3, 3)))
    for n in (0, 1, 2, 3, 4, 5, 6):
        add(Ty('DualDVec64:%d' % n, 'DualVec', F64, (n,)))
        add(Ty('Dual2DVec64:%d' % n, 'Dual2Vec', F64, (n,)))
    for m, n in ((1, 1), (2, 3), (3, 2)):
        add(Ty('HyperDualSVec64_%d_%d' % (m, n), 'HyperDualVec', F64, (m, n)))
    for m, n in ((1, 1), (2, 3), (3, 2), (4, 1), (1, 4), (3, 3), (0, 2)):
        add(Ty('HyperDualDVec64:%d:%d' % (m, n), 'HyperDualVec', F64, (m, n)))
    add(Ty('DualSVec32_2', 'DualVec', F32, (2,), width=32))
    add(Ty('Dual2SVec32_2', 'Dual2Vec', F32, (2,), width=32))
    d64 = T['Dual64']
    add(Ty('Dual_Dual64', 'Dual', d64))
    add(Ty('Dual_Dual_Dual64', 'Dual', T['Dual_Dual64']))
    add(Ty('Dual2_Dual64', 'Dual2', d64))
    add(Ty('Dual_Dual2_64', 'Dual', T['Dual2_64']))
    add(Ty('Dual3_Dual64', 'Dual3', d64))
    add(Ty('HyperDual_Dual64', 'HyperDual', d64))
    add(Ty('Dual_HyperDual64', 'Dual', T['HyperDual64']))
    add(Ty('Dual2_Dual2_64', 'Dual2', T['Dual2_64']))
    add(Ty('DualSVec_Dual64_2', 'DualVec', d64, (2,)))
    return T


TYPES = None


def types():
    global TYPES
    if TYPES is None:
        TYPES = mk_types()
    return TYPES


def harness_type_name(ty):
    return ty.hname.split(':')[0]


def val_to_tokens(v, ty):
    """harness input tokens"""
    if ty.is_float:
        return ['%016x' % v if ty.width == 64 else '%08x' % v]
    out = []
    for fld, x in zip(ty.fields(), v):
        if fld['kind'] == 'T':
            out += val_to_tokens(x, ty.inner)
        else:
            if x is None:
                out.append('N')
            else:
                r, c, es = x
                out += ['S', str(r), str(c)]
                for e in es:
                    out += val_to_tokens(e, ty.inner)
    return out


def val_from_tokens(toks, ty, i=0):
    """harness output tokens -> (value, next index)"""
    if ty.is_float:
        return int(toks[i], 16), i + 1
    out = []
    for fld in ty.fields():
        if fld['kind'] == 'T':
            x, i = val_from_tokens(toks, ty.inner, i)
            out.append(x)
        else:
            if toks[i] == 'N':
                out.append(None)
                i += 1
            else:
                r, c = int(toks[i + 1]), int(toks[i + 2])
                i += 3
                es = []
                for _ in range(r * c):
                    x, i = val_from_tokens(toks, ty.inner, i)
                    es.append(x)
                out.append((r, c, es))
    return out, i


def val_to_Z(v, ty):
    """integer list for the model's Rd instances"""
    if ty.is_float:
        return [v]
    out = []
    for fld, x in zip(ty.fields(), v):
        if fld['kind'] == 'T':
            out += val_to_Z(x, ty.inner)
        else:
            if x is None:
                out.append(0)
            else:
                r, c, es = x
                out += [1, r, c]
                for e in es:
                    out += val_to_Z(e, ty.inner)
    return out


class ModelMiss(Exception):
    def __init__(self, keys):
        self.keys = keys


def val_from_otoks(toks, ty, i=0):
    """model output (decoded otok list) -> (value, next index); collects oracle misses"""
    if ty.is_float:
        t = toks[i]
        if t[0] == 'tag' and t[1] < 0:
            n = -t[1]
            keys = [toks[i + 1 + k][1] for k in range(n)]
            return ('miss', keys), i + 1 + n
        assert t[0] == 'bits', (t, ty)
        return t[1], i + 1
    out = []
    for fld in ty.fields():
        if fld['kind'] == 'T':
            x, i = val_from_otoks(toks, ty.inner, i)
            out.append(x)
        else:
            t = toks[i]
            if t[0] == 'none':
                out.append(None)
                i += 1
            else:
                assert t[0] == 'tag' and toks[i + 1][0] == 'some', (toks[i:i + 3], ty)
                r, c = toks[i + 1][1], toks[i + 1][2]
                i += 2
                es = []
                for _ in range(r * c):
                    x, i = val_from_otoks(toks, ty.inner, i)
                    es.append(x)
                out.append((r, c, es))
    return out, i


def decode_otoks(zs):
    out, i = [], 0
    while i < len(zs):
        t = zs[i]
        if t == 0:
            out.append(('bits', zs[i + 1])); i += 2
        elif t == 1:
            out.append(('miss', tuple(zs[i + 1:i + 5]))); i += 5
        elif t == 2:
            out.append(('none',)); i += 1
        elif t == 3:
            out.append(('some', zs[i + 1], zs[i + 2])); i += 3
        elif t == 4:
            out.append(('bool', zs[i + 1])); i += 2
        elif t == 5:
            out.append(('int', zs[i + 1])); i += 2
        elif t == 6:
            out.append(('tag', zs[i + 1])); i += 2
        else:
            raise ValueError('bad otok stream %r' % zs[i:i + 6])
    return out


def leaves(v, ty):
    """all float leaves of a value in order (absent parts contribute nothing)"""
    if ty.is_float:
        return [v]
    out = []
    for fld, x in zip(ty.fields(), v):
        if fld['kind'] == 'T':
            out += leaves(x, ty.inner)
        elif x is not None:
            for e in x[2]:
                out += leaves(e, ty.inner)
    return out


def canon_val(v, ty, keep_presence=True):
    if ty.is_float:
        return canon_bits(v, ty.width) if isinstance(v, int) else v
    out = []
    for fld, x in zip(ty.fields(), v):
        if fld['kind'] == 'T':
            out.append(canon_val(x, ty.inner))
        elif x is None:
            out.append(None)
        else:
            out.append((x[0], x[1], [canon_val(e, ty.inner) for e in x[2]]))
    return out


# ------------------------------------------------------------------------------------------------------
# generic result decoding (non-dual results: bool, int, option, float, tuples)

def decode_result(kind, toks, ty, src):
    """kind: 'val' | 'bool' | 'float' | 'int' | 'pair' | 'optval'; src: 'h' (harness tokens) | 'm' (model otoks).
    Returns a canonical python object."""
    if src == 'h':
        if kind == 'val':
            v, i = val_from_tokens(toks, ty)
            return canon_val(v, ty)
        if kind == 'pair':
            a, i = val_from_tokens(toks, ty)
            b, i = val_from_tokens(toks, ty, i)
            return [canon_val(a, ty), canon_val(b, ty)]
        if kind == 'bool':
            return toks[0] == 'T'
        if kind == 'float':
            lf = ty.leaf()
            return canon_bits(int(toks[0], 16), lf.width)
        if kind == 'int':
            return int(toks[0][1:])
        if kind == 'optval':
            if toks[0] == 'none':
                return None
            v, i = val_from_tokens(toks[1:], ty)
            return ['some', canon_val(v, ty)]
        if kind == 'str':
            return canon_display_string(bytes.fromhex(toks[0][1:]).decode('utf-8'), ty.leaf().width)
    else:
        if kind == 'str':
            return canon_display_tokens(toks)
        if kind == 'val':
            v, i = val_from_otoks(toks, ty)
            return canon_val(v, ty)
        if kind == 'pair':
            a, i = val_from_otoks(toks, ty)
            b, i = val_from_otoks(toks, ty, i)
            return [canon_val(a, ty), canon_val(b, ty)]
        if kind == 'bool':
            return toks[0][1] == 1
        if kind == 'float':
            if toks[0][0] == 'tag' and toks[0][1] < 0:
                return ('miss', [t[1] for t in toks if t[0] == 'miss'])
            return canon_bits(toks[0][1], 64)
        if kind == 'int':
            return toks[0][1]
        if kind == 'optval':
            if toks[0][0] == 'none':
                return None
            v, i = val_from_otoks(toks[1:], ty)
            return ['some', canon_val(v, ty)]
    raise ValueError(kind)


_DISPLAY_RE = re.compile(r'(?P<sym>(?:\u03b5[0-9]?)+\u00b2?|v[0-9])|(?P<num>-?(?:inf|NaN|[0-9]+(?:\.[0-9]+)?(?:e-?[0-9]+)?))|(?P<ch>.)', re.S)
_LAYOUT = set(' \n\t\u250c\u2510\u2514\u2518\u2502')


def canon_display_string(s, width):
    """Display output -> canonical string: numbers as <bit pattern>, layout characters (spaces, newlines, nalgebra's box) dropped"""
    out = []
    for m in _DISPLAY_RE.finditer(s):
        if m.group('sym'):
            out.append(m.group('sym'))
        elif m.group('num'):
            t = m.group('num')
            x = float(t.replace('NaN', 'nan'))
            b = f2b(x) if width == 64 else f2b32(x)
            c = canon_bits(b, width)
            out.append('<%s>' % c)
        elif m.group('ch') not in _LAYOUT:
            out.append(m.group('ch'))
    return ''.join(out)


def canon_display_tokens(toks):
    """model token stream (Flat (list (token xf))) -> the same canonical string"""
    out = []
    i = [1]      # skip the list length

    def tok():
        t = toks[i[0]]
        assert t[0] == 'tag', t
        tag = t[1]
        i[0] += 1
        if tag == 200:
            v = toks[i[0]]
            i[0] += 1
            if v[0] == 'tag' and v[1] < 0:
                n = -v[1]
                i[0] += n
                out.append('<miss>')
            else:
                out.append('<%s>' % canon_bits(v[1], 64))
        elif tag == 201:
            n = toks[i[0]][1]
            i[0] += 1
            chars = ''.join(chr(toks[i[0] + k][1]) for k in range(n))
            i[0] += n
            out.append(''.join(c for c in chars if c not in _LAYOUT))
        elif tag == 205:
            rows, cols = toks[i[0]][1], toks[i[0] + 1][1]
            i[0] += 2      # rows, cols: layout only; the cells follow in reading order and are ordinary tokens
            if rows * cols == 0:
                out.append('[]')      # nalgebra's printer writes an empty bracket pair for a matrix without cells
        else:
            raise AssertionError('unexpected display tag %r' % (t,))
    while i[0] < len(toks):
        tok()
    return ''.join(out)


def find_misses(obj, acc):
    if isinstance(obj, tuple) and len(obj) == 2 and obj[0] == 'miss':
        acc.extend(obj[1])
    elif isinstance(obj, (list, tuple)):
        for x in obj:
            find_misses(x, acc)


# ------------------------------------------------------------------------------------------------------
# operations: name -> (harness op, result kind, operand count, aux kinds, Coq template)
# template placeholders: {S} struct name, {TY} Coq type, a b c operands, n integer aux, q float aux

def _un(m):
    return (m, 'val', 1, '', '(m_%s a)' % m)


OPS = {}
for _m in ('recip sqrt cbrt exp exp2 exp_m1 ln log2 log10 ln_1p sin cos tan asin acos atan sinh cosh tanh asinh acosh atanh '
           'sph_j0 sph_j1 sph_j2 abs signum inv').split():
    OPS[_m] = _un(_m)
OPS.update({
    'sin_cos': ('sin_cos', 'pair', 1, '', '(m_sin_cos a)'),
    'powi': ('powi', 'val', 1, 'n', '(m_powi a n)'),
    'powf': ('powf', 'val', 1, 'q', '(m_powf a q)'),
    'log': ('log', 'val', 1, 'q', '(m_log a q)'),
    'powd': ('powd', 'val', 2, '', '(m_powd a b)'),
    'atan2': ('atan2', 'val', 2, '', '(m_atan2 a b)'),
    'mul_add': ('mul_add', 'val', 3, '', '(m_mul_add a b c)'),
    're': ('re', 'float', 1, '', '(m_re a)'),
    'abs_sub': ('abs_sub', 'val', 2, '', '(m_abs_sub a b)'),
    'is_positive': ('is_positive', 'bool', 1, '', '(m_is_positive a)'),
    'is_negative': ('is_negative', 'bool', 1, '', '(m_is_negative a)'),
    'is_zero': ('is_zero', 'bool', 1, '', '(m_is_zero a)'),
    'is_one': ('is_one', 'bool', 1, '', '(m_is_one a)'),
    'zero': ('zero', 'val', 0, '', '(zero : {TY})'),
    'one': ('one', 'val', 0, '', '(one : {TY})'),
    'eq': ('eq', 'bool', 2, '', '(a == b)'),
    'add': ('add_vv', 'val', 2, '', '(a + b)'), 'sub': ('sub_vv', 'val', 2, '', '(a - b)'),
    'mul': ('mul_vv', 'val', 2, '', '(a * b)'), 'div': ('div_vv', 'val', 2, '', '(a / b)'),
    'neg': ('neg_v', 'val', 1, '', '(- a)'),
    'add_assign': ('add_assign', 'val', 2, '', '(hadd_assign a b)'), 'sub_assign': ('sub_assign', 'val', 2, '', '(hsub_assign a b)'),
    'mul_assign': ('mul_assign', 'val', 2, '', '(hmul_assign a b)'), 'div_assign': ('div_assign', 'val', 2, '', '(hdiv_assign a b)'),
    'add_F': ('add_F', 'val', 1, 'q', '(a + q)'), 'sub_F': ('sub_F', 'val', 1, 'q', '(a - q)'),
    'mul_F': ('mul_F', 'val', 1, 'q', '(a * q)'), 'div_F': ('div_F', 'val', 1, 'q', '(a / q)'),
    'add_assign_F': ('add_assign_F', 'val', 1, 'q', '(hadd_assign a q)'), 'sub_assign_F': ('sub_assign_F', 'val', 1, 'q', '(hsub_assign a q)'),
    'mul_assign_F': ('mul_assign_F', 'val', 1, 'q', '(hmul_assign a q)'), 'div_assign_F': ('div_assign_F', 'val', 1, 'q', '(hdiv_assign a q)'),
    'from_F': ('from_F', 'val', 0, 'q', '(ofF q : {TY})'),
    'nderiv': ('nderiv', 'int', 0, '', '(nderiv {TY})'),
    'display': ('display', 'str', 1, '', '(tokens (F:=xf) a)'),
})
OPS.update({
    'sum3': ('sum', 'val', 3, '', '({S}_Sum_sum [a; b; c])'), 'product3': ('product', 'val', 3, '', '({S}_Product_product [a; b; c])'),
    'sum_r3': ('sum_r', 'val', 3, '', '({S}_Sum_sum_2 [a; b; c])'), 'product_r3': ('product_r', 'val', 3, '', '({S}_Product_product_2 [a; b; c])'),
    'sum0': ('sum', 'val', 0, '', '(({S}_Sum_sum []) : {TY})'), 'product0': ('product', 'val', 0, '', '(({S}_Product_product []) : {TY})'),
    'from_i32': ('from_i32', 'optval', 0, 'n', '(({S}_FromPrimitive_from_i32 n) : option {TY})'),
    'from_inner_F': ('from_inner_F', 'val', 0, 'q', '(({S}_from_inner (ofF q)) : {TY})'),
    'from_prim': ('from_prim', 'optval', 0, 'nn', None),          # implementation only (no model template)
})
for _m in ('bessel_j0', 'bessel_j1', 'bessel_j2'):
    OPS[_m] = ('bessel:' + _m, 'val', 1, '', '(%s a)' % _m)
# programs (Hand/Prog.v) over 1..3 inputs; aux = the program as a list of integers
OPS['prog1'] = ('prog', 'val', 1, 'L', '(eval [a] pg)')
OPS['prog2'] = ('prog', 'val', 2, 'L', '(eval [a; b] pg)')
OPS['prog3'] = ('prog', 'val', 3, 'L', '(eval [a; b; c] pg)')
# explicit operator forms (each is its own translated definition)
for _o in ('add', 'sub', 'mul', 'div'):
    for _f in ('rr', 'rv', 'vr', 'vv'):
        OPS['%s_%s' % (_o, _f)] = ('%s_%s' % (_o, _f), 'val', 2, '', '({S}_%s_%s a b)' % (_o, _f))
OPS['neg_r'] = ('neg_r', 'val', 1, '', '({S}_neg_r a)')
OPS['neg_v'] = ('neg_v', 'val', 1, '', '({S}_neg_v a)')


# nalgebra ComplexField / RealField methods (family `field` of the harness; model: gen/Gen_Field.v)
for _m in ('real imaginary modulus modulus_squared argument norm1 abs recip conjugate sin cos tan asin acos atan sinh cosh tanh asinh acosh atanh '
           'log2 log10 ln ln_1p sqrt exp exp2 exp_m1 cbrt from_real').split():
    OPS['cf_' + _m] = ('field:cf_' + _m, 'val', 1, '', '({S}_ComplexField_%s a)' % _m)
for _m in ('scale', 'unscale', 'hypot', 'log', 'powf', 'powc'):
    OPS['cf_' + _m] = ('field:cf_' + _m, 'val', 2, '', '({S}_ComplexField_%s a b)' % _m)
OPS['cf_mul_add'] = ('field:cf_mul_add', 'val', 3, '', '({S}_ComplexField_mul_add a b c)')
OPS['cf_sin_cos'] = ('field:cf_sin_cos', 'pair', 1, '', '({S}_ComplexField_sin_cos a)')
OPS['cf_powi'] = ('field:cf_powi', 'val', 1, 'n', '({S}_ComplexField_powi a n)')
for _m in ('pi two_pi frac_pi_2 frac_pi_3 frac_pi_4 frac_pi_6 frac_pi_8 frac_1_pi frac_2_pi frac_2_sqrt_pi e log2_e log10_e ln_2 ln_10').split():
    OPS['rf_' + _m] = ('field:rf_' + _m, 'val', 0, '', '({S}_RealField_%s : {TY})' % _m)
for _m in ('copysign', 'atan2', 'max', 'min'):
    OPS['rf_' + _m] = ('field:rf_' + _m, 'val', 2, '', '({S}_RealField_%s a b)' % _m)
OPS['rf_clamp'] = ('field:rf_clamp', 'val', 3, '', '({S}_RealField_clamp a b c)')
for _m in ('simd_splat_extract',):
    OPS[_m] = ('field:' + _m, 'val', 1, '', None)
for _m in ('simd_replace_extract', 'simd_select_true', 'simd_select_false'):
    OPS[_m] = ('field:' + _m, 'val', 2, '', None)
_PC = '({S}_PartialOrd_partial_cmp a b)'
for _n, _pat in (('po_lt', 'Some Less => true'), ('po_le', 'Some Less => true | Some Equal => true'), ('po_gt', 'Some Greater => true'),
                 ('po_ge', 'Some Greater => true | Some Equal => true'), ('po_cmp_less', 'Some Less => true'), ('po_cmp_equal', 'Some Equal => true'),
                 ('po_cmp_greater', 'Some Greater => true'), ('po_cmp_none', 'None => true')):
    OPS[_n] = ('field:' + _n, 'bool', 2, '', '(match %s with %s | _ => false end)' % (_PC, _pat))
OPS['rf_is_sign_positive'] = ('field:rf_is_sign_positive', 'bool', 1, '', '({S}_RealField_is_sign_positive a)')
OPS['rf_is_sign_negative'] = ('field:rf_is_sign_negative', 'bool', 1, '', '({S}_RealField_is_sign_negative a)')


class Case:
    __slots__ = ('id', 'ty', 'op', 'aux', 'args', 'tag')

    def __init__(self, id, ty, op, args, aux=(), tag=''):
        self.id, self.ty, self.op, self.args, self.aux, self.tag = id, ty, op, list(args), list(aux), tag

    def harness_line(self):
        hop, kind, n, auxk, tpl = OPS[self.op]
        aux = []
        for k, a in zip(auxk, self.aux):
            if k == 'n':
                aux.append(str(a))
            elif k == 'L':
                aux.extend(str(x) for x in a)
            else:
                lf = self.ty.leaf()
                aux.append('%016x' % a if lf.width == 64 else '%08x' % a)
        fam = 'dual'
        if ':' in hop:
            fam, hop = hop.split(':')
        head = '%s %s %s %s %s' % (self.id, fam, harness_type_name(self.ty), hop, ' '.join(aux))
        return head.strip() + ''.join(' | ' + ' '.join(val_to_tokens(v, self.ty)) for v in self.args)

    def describe(self):
        return {'id': self.id, 'type': self.ty.hname, 'op': self.op, 'aux': [hex(a) if isinstance(a, int) and a > 1 << 20 else a for a in self.aux],
                'operands': [[hexs(x) for x in flat_hex(v, self.ty)] for v in self.args], 'tag': self.tag}


def hexs(x):
    return x


def flat_hex(v, ty):
    return val_to_tokens(v, ty)


def run_impl(exe, cases):
    """-> {id: canonical result | 'panic'}"""
    raw = run_harness(exe, [c.harness_line() for c in cases])
    out = {}
    for c in cases:
        if c.id not in raw:
            raise InfraError('harness produced no output for case %s' % c.id)
        st, toks = raw[c.id]
        if st == 'panic':
            out[c.id] = 'panic'
        else:
            out[c.id] = decode_result(OPS[c.op][1], toks, c.ty, 'h')
    return out


# ------------------------------------------------------------------------------------------------------
# running the generated model inside Coq

CASE_HEADER = '''From Coq Require Import ZArith List Floats. Import ListNotations.
From ND Require Import Overload Float Mat Opt Wire F64Inst.
From NDgen Require Import Classes Gen_Float Gen_Derivative Gen_Dual Gen_Dual2 Gen_Dual3 Gen_HyperDual Gen_HyperHyperDual Gen_DualVec Gen_Dual2Vec Gen_HyperDualVec.
%s
Local Open Scope Z_scope.
Section Run.
Variable t : oracle.
#[local] Instance FLx : FL xf := FL_f64 t.
#[local] Instance DNx : DN xf xf := DN_Float.
#[local] Instance Ordx : DNOrd xf := DNOrd_F.
Local Open Scope rs_scope.
'''


def runner_def(name, ty, op, extra_tpl=None):
    hop, kind, n, auxk, tpl = OPS[op] if extra_tpl is None else extra_tpl
    T = ty.coq()
    body = tpl.replace('{S}', ty.struct or 'Float').replace('{TY}', T)
    lets = ''
    for k in auxk:
        if k == 'n':
            lets += "let '(n, l) := rd (A:=Z) l in "
        elif k == 'L':
            lets += "let '(pg, l) := rd_prog l in "
        else:
            lets += "let '(q, l) := rd (A:=xf) l in "
    for v in 'abc'[:n]:
        lets += "let '(%s, l) := rd (A:=%s) l in " % (v, T)
    return 'Definition %s (l : list Z) : list Z := (fun _ : oracle => %senc (flat %s)) t.' % (name, lets, body)


def case_Z(c):
    hop, kind, n, auxk, tpl = OPS[c.op]
    zs = []
    for k, a in zip(auxk, c.aux):
        zs += ([len(a)] + list(a)) if k == 'L' else [a]
    for v in c.args:
        zs += val_to_Z(v, c.ty)
    return zs


def parse_coq_lists(out):
    """parse `= [[..]; [..]] : list (list Z)` blocks -> list of list of list of int"""
    res = []
    pos = 0
    end_mark = ': list (list Z)'
    while True:
        a = out.find('= [', pos)
        if a < 0:
            break
        b = out.find(end_mark, a)
        if b < 0:
            break
        txt = out[a + 2:b].replace(';', ',').replace('%Z', '')
        res.append(json.loads(txt))
        pos = b + len(end_mark)
    return res


def run_model(cases, tag, extra_imports='', max_rounds=8, oracle_exe=None, shard=400):
    """Evaluate the cases on the generated model (binary64 instance) inside Coq.  Oracle misses are completed by the
    helper binary (same std functions as the crate) and the evaluation is repeated.  -> {id: canonical result | ('error', msg)}"""
    cdir = CACHE + '/cases/' + tag
    shutil.rmtree(cdir, ignore_errors=True)
    os.makedirs(cdir)
    tables = {c.id: {} for c in cases}
    # pre-seed each case's table with every one-argument libm function at the innermost real part of each operand: most
    # single operations then evaluate in one round (requests the model makes beyond that are completed round by round)
    if oracle_exe is not None:
        want = {}
        for c in cases:
            for v in c.args:
                t, x = c.ty, v
                while not t.is_float:
                    x, t = x[0], t.inner
                if isinstance(x, int) and t.width == 64:
                    for fid in range(1, 21):
                        want.setdefault(c.id, []).append((fid, x, 0, 0))
        ans = run_oracle(oracle_exe, set((64,) + k for ks in want.values() for k in ks))
        for cid, ks in want.items():
            for k in ks:
                v = ans.get((64,) + k)
                if v is not None:
                    tables[cid][k] = v
    results = {}
    pending = list(cases)
    rounds = 0
    stats = {'rounds': 0, 'coqc_runs': 0, 'oracle_entries': 0}
    while pending and rounds < max_rounds:
        rounds += 1
        shards = [pending[i:i + shard] for i in range(0, len(pending), shard)]
        procs = []
        for si, sh_cases in enumerate(shards):
            runners = {}
            lines = [CASE_HEADER % extra_imports]
            for c in sh_cases:
                key = (c.ty.hname.split(':')[0] if c.ty.is_float or not c.ty.dims else c.ty.coq(), c.op)
                key = (c.ty.coq(), c.op)
                if key not in runners:
                    runners[key] = 'r%d' % len(runners)
                    lines.append(runner_def(runners[key], c.ty, c.op))
            lines.append('End Run.')
            items = []
            for c in sh_cases:
                tb = '[' + '; '.join('((%d, %d, %d, %d), %d)' % (k + (v,)) for k, v in tables[c.id].items()) + ']'
                items.append('%s %s [%s]' % (runners[(c.ty.coq(), c.op)], tb, '; '.join(str(z) for z in case_Z(c))))
            # chunks of 50 per Eval to keep terms small
            for i in range(0, len(items), 50):
                lines.append('Eval vm_compute in [' + ';\n  '.join(items[i:i + 50]) + '].')
            path = '%s/r%d_s%d.v' % (cdir, rounds, si)
            open(path, 'w').write('\n'.join(lines) + '\n')
            # output goes to files: a pipe would fill up (and block coqc) while we wait for the batch of 16 to finish
            fo, fe = open(path + '.out', 'w'), open(path + '.err', 'w')
            procs.append((sh_cases, path, subprocess.Popen(['timeout', '900', 'coqc', '-noglob'] + COQFLAGS + [path], cwd=cdir, stdout=fo, stderr=fe)))
            fo.close(); fe.close()
            if len(procs) % 16 == 0:
                for _, _, p in procs[-16:]:
                    p.wait()
        still = []
        need = set()
        for sh_cases, path, p in procs:
            p.wait()
            o, e = open(path + '.out').read(), open(path + '.err').read()
            stats['coqc_runs'] += 1
            if p.returncode != 0:
                # the model does not even elaborate for one of these (type, op) pairs: report per case
                msg = (e or o)[-1500:]
                if p.returncode == 124:
                    raise InfraError('coqc timed out on ' + path)
                for c in sh_cases:
                    results[c.id] = ('error', msg)
                continue
            lists = [x for blk in parse_coq_lists(o) for x in blk]
            if len(lists) != len(sh_cases):
                raise InfraError('model output of %s has %d results for %d cases' % (path, len(lists), len(sh_cases)))
            for c, zs in zip(sh_cases, lists):
                toks = decode_otoks(zs)
                try:
                    r = decode_result(OPS[c.op][1], toks, c.ty, 'm')
                except (AssertionError, IndexError) as ex:
                    results[c.id] = ('error', 'undecodable model output: %r' % (ex,))
                    continue
                miss = []
                find_misses(r, miss)
                if miss:
                    for k in miss:
                        need.add((c.id, tuple(k)))
                    still.append(c)
                else:
                    results[c.id] = r
        if need:
            reqs = set((64,) + (k[0], k[1], k[2], k[3]) for _, k in need)
            ans = run_oracle(oracle_exe, reqs)
            for cid, k in need:
                v = ans.get((64,) + tuple(k))
                if v is None:
                    raise InfraError('oracle helper did not answer %r' % (k,))
                tables[cid][k] = v
                stats['oracle_entries'] += 1
        pending = still
    for c in pending:
        results[c.id] = ('error', 'oracle table did not converge in %d rounds' % max_rounds)
    stats['rounds'] = rounds
    return results, stats


# ------------------------------------------------------------------------------------------------------
# PRNG (splitmix64) : every random choice of a run derives from VERIF_SEED

class Rng:
    def __init__(self, seed):
        self.s = seed & 0xFFFFFFFFFFFFFFFF

    def next(self):
        self.s = (self.s + 0x9E3779B97F4A7C15) & 0xFFFFFFFFFFFFFFFF
        z = self.s
        z = ((z ^ (z >> 30)) * 0xBF58476D1CE4E5B9) & 0xFFFFFFFFFFFFFFFF
        z = ((z ^ (z >> 27)) * 0x94D049BB133111EB) & 0xFFFFFFFFFFFFFFFF
        return z ^ (z >> 31)

    def below(self, n):
        return self.next() % n

    def unit(self):
        return (self.next() >> 11) / float(1 << 53)

    def uniform(self, a, b):
        return a + (b - a) * self.unit()

    def choice(self, l):
        return l[self.below(len(l))]

    def fork(self, label):
        h = int(hashlib.sha256(('%d/%s' % (self.s, label)).encode()).hexdigest()[:16], 16)
        return Rng(h)


# ------------------------------------------------------------------------------------------------------
# evidence / reporting

def write_json(path, obj):
    os.makedirs(os.path.dirname(path), exist_ok=True)
    tmp = path + '.tmp'
    json.dump(obj, open(tmp, 'w'), indent=1, default=str)
    os.replace(tmp, path)


def known_findings():
    p = ROOT + '/KNOWN_FINDINGS.json'
    if not os.path.exists(p):
        return []
    return json.load(open(p))['findings']
