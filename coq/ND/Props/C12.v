(* Props/C12.v -- property C12: linear algebra over dual numbers differentiates implicitly defined results.
   Statements about the hand model Hand/LinAlg.v of src/linalg.rs (executed in Coq on binary64 against the implementation).  The identities are
   identities of the RING of dual numbers, so each holds in the real part and in every derivative part at once.  Sizes are arbitrary.
   NOT proved: the determinant routine, norm, the Jacobi iteration, and nalgebra's decompositions -- decided by the correspondence (determinant,
   inverse, norm) and by the defining identities checked on the implementation.
   Only `exact` proofs here. *)
From Coq Require Import List Arith Ring.
From Coq Require Import Permutation Reals.
From ND Require Import Tactics LinAlg C12_proofs C12_lu C12_inv C12_jacobi.
From NDgen Require Import Classes.
Local Open Scope R_scope.

Section AnyRing.
  Context {F T : Type} {dn : DN F T}.
  Hypothesis RT : ring_theory (Overload.zero : T) (Overload.one : T) (@hadd T T T dn_add) (@hmul T T T dn_mul) (@hsub T T T dn_sub) (@hneg T T dn_neg) eq.
  Variable isunit : T -> Prop.
  Hypothesis div_mul : forall x y : T, isunit y -> ((x / y) * y)%rs = x.
  (* forward substitution with the stored row order p solves the unit lower triangular system *)
  Theorem C12_forward_substitution : forall a p (b : list T), let y := fwd a p b in
    length y = length b /\ forall i, (i < length b)%nat -> (vg y i + sum_list (fun k => mg a i k * vg y k) (range 0 i))%rs = vg b (nth i p O).
  Proof. exact (forward_spec RT). Qed.
  (* back substitution solves the upper triangular system when the diagonal consists of units *)
  Theorem C12_back_substitution : forall a (y : list T), (forall i, (i < length y)%nat -> isunit (mg a i i)) -> let x := bwd a y in
    length x = length y /\ forall i, (i < length y)%nat -> sum_list (fun k => (mg a i k * vg x k)%rs) (range i (length y)) = vg y i.
  Proof. exact (backward_spec RT isunit div_mul). Qed.
  Theorem C12_solve_is_both : forall (l : lu) (b : list T), lu_solve l b = bwd (lu_a l) (fwd (lu_a l) (lu_p l) b).
  Proof. exact (solve_is_fwd_bwd RT). Qed.
End AnyRing.

(* the dual number types over R are such rings, with the numbers of non-zero real part as units *)
Theorem C12_rings :
  ring_theory (Overload.zero : Dual R) (Overload.one : Dual R) (@hadd _ _ _ dn_add) (@hmul _ _ _ dn_mul) (@hsub _ _ _ dn_sub) (@hneg _ _ dn_neg) eq /\
  ring_theory (Overload.zero : Dual2 R) (Overload.one : Dual2 R) (@hadd _ _ _ dn_add) (@hmul _ _ _ dn_mul) (@hsub _ _ _ dn_sub) (@hneg _ _ dn_neg) eq /\
  ring_theory (Overload.zero : Dual3 R) (Overload.one : Dual3 R) (@hadd _ _ _ dn_add) (@hmul _ _ _ dn_mul) (@hsub _ _ _ dn_sub) (@hneg _ _ dn_neg) eq /\
  ring_theory (Overload.zero : HyperDual R) (Overload.one : HyperDual R) (@hadd _ _ _ dn_add) (@hmul _ _ _ dn_mul) (@hsub _ _ _ dn_sub) (@hneg _ _ dn_neg) eq /\
  ring_theory (Overload.zero : HyperHyperDual R) (Overload.one : HyperHyperDual R) (@hadd _ _ _ dn_add) (@hmul _ _ _ dn_mul) (@hsub _ _ _ dn_sub) (@hneg _ _ dn_neg) eq.
Proof. exact (conj RT_Dual (conj RT_Dual2 (conj RT_Dual3 (conj RT_HyperDual RT_HHD)))). Qed.
Theorem C12_units :
  (forall x y : Dual R, m_re y <> 0 -> ((x / y) * y)%rs = x) /\ (forall x y : Dual2 R, m_re y <> 0 -> ((x / y) * y)%rs = x) /\
  (forall x y : Dual3 R, m_re y <> 0 -> ((x / y) * y)%rs = x) /\ (forall x y : HyperDual R, m_re y <> 0 -> ((x / y) * y)%rs = x) /\
  (forall x y : HyperHyperDual R, m_re y <> 0 -> ((x / y) * y)%rs = x).
Proof. exact (conj div_mul_Dual (conj div_mul_Dual2 (conj div_mul_Dual3 (conj div_mul_HyperDual div_mul_HHD)))). Qed.

(* hence LU::solve over Dual R returns x with L (U x) = P b for the stored factors, derivative part included *)
Theorem C12_solve_Dual : forall (l : lu (T:=Dual R)) (b : list (Dual R)), (forall i, (i < length b)%nat -> m_re (mg (lu_a l) i i) <> 0) ->
  let a := lu_a l in let x := lu_solve l b in
  exists y, length y = length b /\ length x = length b /\
    (forall i, (i < length b)%nat -> (vg y i + sum_list (fun k => mg a i k * vg y k) (range 0 i))%rs = vg b (nth i (lu_p l) O)) /\
    (forall i, (i < length b)%nat -> sum_list (fun k => (mg a i k * vg x k)%rs) (range i (length b)) = vg y i).
Proof. exact solve_correct_Dual. Qed.

(* ---- the whole of LU::new and LU::solve, any size, with pivoting: P A = L U and A x = b ---- *)
Section AnyRingLU.
  Context {F T : Type} {dn : DN F T}.
  Hypothesis RT : ring_theory (Overload.zero : T) (Overload.one : T) (@hadd T T T dn_add) (@hmul T T T dn_mul) (@hsub T T T dn_sub) (@hneg T T dn_neg) eq.
  Variable isunit : T -> Prop.
  Hypothesis div_mul : forall x y : T, isunit y -> ((x / y) * y)%rs = x.
  #[local] Instance flF_props : FL F := @flF_la F T dn.
  Hypothesis nz_zero : nt_is_zero (Overload.zero : F) = true.
  Hypothesis pivot_unit : forall x : T, nt_is_zero (m_re (m_abs x) : F) = false -> isunit x.
  (* when LU::new succeeds, the stored factors satisfy P A = L U entry by entry (L unit lower triangular below the diagonal, U on and above it), the diagonal
     consists of units and the stored row order has entries below n *)
  Theorem C12_factorisation : forall n (A : list (list T)) l, is_mat n A -> lu_new A = Some l ->
    is_mat n (lu_a l) /\ length (lu_p l) = n /\ (forall r, (r < n)%nat -> (nth r (lu_p l) O < n)%nat) /\ (forall r, (r < n)%nat -> isunit (mg (lu_a l) r r)) /\
    forall r c, (r < n)%nat -> (c < n)%nat ->
      mg A (nth r (lu_p l) O) c = (sum_list (fun k => mg (lu_a l) r k * mg (lu_a l) k c) (range 0 (Nat.min r (S c))) + (if Nat.leb r c then mg (lu_a l) r c else (Overload.zero : T)))%rs.
  Proof. exact (fun n A => lu_new_factorises RT isunit div_mul n A nz_zero pivot_unit). Qed.
  (* and LU::solve returns x with A x = b, row by row *)
  Theorem C12_solve_correct : forall (A : list (list T)) (b : list T) l, is_mat (length A) A -> length b = length A -> lu_new A = Some l ->
    length (lu_solve l b) = length A /\ forall i, (i < length A)%nat -> sum_list (fun c => (mg A i c * vg (lu_solve l b) c)%rs) (range 0 (length A)) = vg b i.
  Proof. exact (lu_solve_Ax_eq_b RT isunit div_mul nz_zero pivot_unit). Qed.
  (* LU::inverse: column j is LU::solve of the j-th unit vector, hence A A^-1 = I *)
  Theorem C12_inverse_column : forall (l : lu (T:=T)) j, (j < length (lu_p l))%nat -> col (lu_inverse l) j = lu_solve l (unitv (length (lu_p l)) j).
  Proof. exact inverse_column. Qed.
  Theorem C12_inverse_correct : forall (A : list (list T)) l, is_mat (length A) A -> lu_new A = Some l ->
    forall i j, (i < length A)%nat -> (j < length A)%nat ->
      sum_list (fun c => (mg A i c * mg (lu_inverse l) c j)%rs) (range 0 (length A)) = (if Nat.eqb i j then (Overload.one : T) else (Overload.zero : T)).
  Proof. exact (inverse_correct RT isunit div_mul nz_zero pivot_unit). Qed.
End AnyRingLU.

(* for the dual number types over R: A x = b in the real part and in every derivative part at once (equality of dual numbers) *)
Theorem C12_Ax_eq_b_Dual : forall (A : list (list (Dual R))) b l, is_mat (length A) A -> length b = length A -> lu_new A = Some l ->
  length (lu_solve l b) = length A /\ forall i, (i < length A)%nat -> sum_list (fun c => (mg A i c * vg (lu_solve l b) c)%rs) (range 0 (length A)) = vg b i.
Proof. exact lu_solve_Dual. Qed.
Theorem C12_Ax_eq_b_Dual2 : forall (A : list (list (Dual2 R))) b l, is_mat (length A) A -> length b = length A -> lu_new A = Some l ->
  length (lu_solve l b) = length A /\ forall i, (i < length A)%nat -> sum_list (fun c => (mg A i c * vg (lu_solve l b) c)%rs) (range 0 (length A)) = vg b i.
Proof. exact lu_solve_Dual2. Qed.
Theorem C12_Ax_eq_b_Dual3 : forall (A : list (list (Dual3 R))) b l, is_mat (length A) A -> length b = length A -> lu_new A = Some l ->
  length (lu_solve l b) = length A /\ forall i, (i < length A)%nat -> sum_list (fun c => (mg A i c * vg (lu_solve l b) c)%rs) (range 0 (length A)) = vg b i.
Proof. exact lu_solve_Dual3. Qed.
Theorem C12_Ax_eq_b_HyperDual : forall (A : list (list (HyperDual R))) b l, is_mat (length A) A -> length b = length A -> lu_new A = Some l ->
  length (lu_solve l b) = length A /\ forall i, (i < length A)%nat -> sum_list (fun c => (mg A i c * vg (lu_solve l b) c)%rs) (range 0 (length A)) = vg b i.
Proof. exact lu_solve_HyperDual. Qed.
Theorem C12_Ax_eq_b_HyperHyperDual : forall (A : list (list (HyperHyperDual R))) b l, is_mat (length A) A -> length b = length A -> lu_new A = Some l ->
  length (lu_solve l b) = length A /\ forall i, (i < length A)%nat -> sum_list (fun c => (mg A i c * vg (lu_solve l b) c)%rs) (range 0 (length A)) = vg b i.
Proof. exact lu_solve_HHD. Qed.

Theorem C12_inverse_Dual : forall (A : list (list (Dual R))) l, is_mat (length A) A -> lu_new A = Some l ->
  forall i j, (i < length A)%nat -> (j < length A)%nat ->
    sum_list (fun c => (mg A i c * mg (lu_inverse l) c j)%rs) (range 0 (length A)) = (if Nat.eqb i j then (Overload.one : Dual R) else (Overload.zero : Dual R)).
Proof. exact (inverse_correct RT_Dual (fun d => m_re d <> 0) div_mul_Dual nz_zero_R pu_Dual). Qed.

(* jacobi_eigenvalue (hand model, executed in Coq against the implementation on the scalar and nested types): the final selection sort returns the
   eigenvalues in ASCENDING order of their real parts and applies one permutation to the eigenvalues and to the columns of the eigenvector matrix.
   Generic in the number type (premise: the order test of its scalar type is the order of the reals - true of FL_R); then for the five scalar types, for
   the whole function, any matrix, any iteration limit. *)
Theorem C12_sort_correct : forall (T : Type) (dn : DN R T),
  (forall a b : R, (hltb (HLtb:=fl_ltb (FL:=dn_fl (T:=T))) a b) = true <-> (a < b)%R) ->
  forall n (d : list T) (v : list (list T)), length d = n -> List.Forall (fun row => length row = n) v ->
    let '(d', v') := j_sort n d v in
    (forall i j, (i <= j < n)%nat -> ((m_re (vg d' i) : R) <= (m_re (vg d' j) : R))%R) /\
    exists sigma, Permutation sigma (seq 0 n) /\ d' = map (fun i => vg d i) sigma /\ v' = map (fun row => map (fun i => nth i row (Overload.zero : T)) sigma) v.
Proof. exact (fun T dn H => j_sort_correct (T:=T) H). Qed.
Theorem C12_jacobi_sorted_Dual : forall (a : list (list (Dual R))) max_iter, let n := length a in
  let '(d, v) := jacobi_eigenvalue a max_iter in forall i j, (i <= j < n)%nat -> (Dual_f_re (vg d i) <= Dual_f_re (vg d j))%R.
Proof. exact jacobi_sorted_Dual. Qed.
Theorem C12_jacobi_sorted_Dual2 : forall (a : list (list (Dual2 R))) max_iter, let n := length a in
  let '(d, v) := jacobi_eigenvalue a max_iter in forall i j, (i <= j < n)%nat -> (Dual2_f_re (vg d i) <= Dual2_f_re (vg d j))%R.
Proof. exact jacobi_sorted_Dual2. Qed.
Theorem C12_jacobi_sorted_Dual3 : forall (a : list (list (Dual3 R))) max_iter, let n := length a in
  let '(d, v) := jacobi_eigenvalue a max_iter in forall i j, (i <= j < n)%nat -> (Dual3_f_re (vg d i) <= Dual3_f_re (vg d j))%R.
Proof. exact jacobi_sorted_Dual3. Qed.
Theorem C12_jacobi_sorted_HyperDual : forall (a : list (list (HyperDual R))) max_iter, let n := length a in
  let '(d, v) := jacobi_eigenvalue a max_iter in forall i j, (i <= j < n)%nat -> (HyperDual_f_re (vg d i) <= HyperDual_f_re (vg d j))%R.
Proof. exact jacobi_sorted_HyperDual. Qed.
Theorem C12_jacobi_sorted_HyperHyperDual : forall (a : list (list (HyperHyperDual R))) max_iter, let n := length a in
  let '(d, v) := jacobi_eigenvalue a max_iter in forall i j, (i <= j < n)%nat -> (HyperHyperDual_f_re (vg d i) <= HyperHyperDual_f_re (vg d j))%R.
Proof. exact jacobi_sorted_HyperHyperDual. Qed.

(* a pivot column whose real parts all vanish is reported *)
Theorem C12_singular_detected : forall (l : lu (T:=Dual R)) n i, (forall k, m_re (m_abs (mg (lu_a l) k i)) = 0) -> lu_step (Some l) n i = None.
Proof. exact singular_detected. Qed.

(* non-vacuity: a 2x2 system over Dual R in stored form with unit diagonal real parts *)
Example C12_example : forall i, (i < 2)%nat -> m_re (mg ((mkDual 2 1 :: mkDual 1 0 :: nil) :: (mkDual 0.5 0 :: mkDual 3 1 :: nil) :: nil) i i) <> 0.
Proof. exact example_c12. Qed.

Definition C12_bundle := (@C12_forward_substitution, @C12_back_substitution, @C12_solve_is_both, C12_rings, C12_units, C12_solve_Dual, C12_singular_detected, @C12_factorisation, @C12_solve_correct, C12_Ax_eq_b_Dual, C12_Ax_eq_b_Dual2, C12_Ax_eq_b_Dual3, C12_Ax_eq_b_HyperDual, C12_Ax_eq_b_HyperHyperDual, @C12_inverse_column, @C12_inverse_correct, C12_inverse_Dual, C12_sort_correct, C12_jacobi_sorted_Dual, C12_jacobi_sorted_Dual2, C12_jacobi_sorted_Dual3, C12_jacobi_sorted_HyperDual, C12_jacobi_sorted_HyperHyperDual).
Print Assumptions C12_bundle.
