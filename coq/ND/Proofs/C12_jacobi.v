(* Proofs/C12_jacobi.v -- the final phase of jacobi_eigenvalue (hand model Hand/LinAlg.v, executed in Coq against the implementation): the selection
   sort returns the eigenvalues in ASCENDING order of their real parts, and applies one and the same permutation to the eigenvalues and to the columns
   of the eigenvector matrix (so A V = V diag(lambda) is preserved by the reordering).  Any size; any number type over the reals. *)
From Coq Require Import List Arith Lia Permutation Reals Lra.
From ND Require Import Tactics LinAlg C12_proofs C12_lu.
From NDgen Require Import Classes.
Import ListNotations.

Lemma nth_swap_l {A} (dflt : A) (l : list A) i j x : (i < length l)%nat -> (j < length l)%nat ->
  nth x (swap_l dflt l i j) dflt = if Nat.eqb x j then nth i l dflt else if Nat.eqb x i then nth j l dflt else nth x l dflt.
Proof.
  intros Hi Hj. unfold swap_l. destruct (Nat.eqb_spec x j) as [->|Nj].
  - apply nth_upd_same. rewrite upd_length. exact Hj.
  - rewrite nth_upd_other by congruence. destruct (Nat.eqb_spec x i) as [->|Ni]; [apply nth_upd_same; exact Hi|apply nth_upd_other; congruence].
Qed.
Lemma length_swap_l {A} (dflt : A) (l : list A) i j : length (swap_l dflt l i j) = length l.
Proof. unfold swap_l. rewrite !upd_length. reflexivity. Qed.
Lemma upd_app {A} (l1 l2 : list A) (a b : A) : upd (l1 ++ a :: l2) (length l1) b = l1 ++ b :: l2.
Proof. induction l1 as [|x l1 IH]; simpl; [reflexivity|]. rewrite IH. reflexivity. Qed.
Lemma list_split_at {A} (l : list A) i dflt : (i < length l)%nat -> exists l1 l2, l = l1 ++ nth i l dflt :: l2 /\ length l1 = i.
Proof.
  revert i; induction l as [|x l IH]; intros [|i] H; simpl in *; try lia.
  - exists nil, l. split; reflexivity.
  - destruct (IH i ltac:(lia)) as [l1 [l2 [E L]]]. exists (x :: l1), l2. split; [simpl; rewrite <- E; reflexivity|simpl; lia].
Qed.
Lemma Permutation_upd2 {A} (dflt : A) (l : list A) i j : (i < length l)%nat -> (j < length l)%nat -> Permutation (swap_l dflt l i j) l.
Proof.
  intros Hi Hj. symmetry.
  assert (Hlen : length (swap_l dflt l i j) = length l) by apply length_swap_l.
  apply Permutation_nth with (d := dflt). split; [exact Hlen|].
  exists (fun x => if Nat.eqb x j then i else if Nat.eqb x i then j else x). split; [|split].
  - intros x Hx. destruct (Nat.eqb x j); [exact Hi|]. destruct (Nat.eqb x i); [exact Hj|exact Hx].
  - intros x y Hx Hy.
    destruct (Nat.eqb_spec x j), (Nat.eqb_spec y j), (Nat.eqb_spec x i), (Nat.eqb_spec y i); subst; intros E; try congruence; try lia.
  - intros x Hx. rewrite (nth_swap_l dflt l i j x Hi Hj).
    destruct (Nat.eqb x j); [reflexivity|]. destruct (Nat.eqb x i); reflexivity.
Qed.

Section Sort.
  Context {T : Type} {dn : DN R T}.
  Local Open Scope rs_scope.
  #[local] Instance flF_js : FL R := dn_fl (T:=T).
  (* the order test of the scalar type is the order of the reals (true of the real instance FL_R; stated as a premise to keep the section generic) *)
  Hypothesis Hlt : forall a b : R, ((a <? b) = true <-> (a < b)%R).
  Notation key := (fun x : T => (m_re x : R)).
  Notation Z0 := (Overload.zero : T).

  Definition argmin (d : list T) (k n : nat) : nat :=
    fold_left (fun m l => if ((m_re (vg d l) : R) <? (m_re (vg d m) : R)) then l else m) (range (S k) n) k.
  Lemma argmin_fold (d : list T) (ls : list nat) : forall m0,
    let m := fold_left (fun m l => if ((m_re (vg d l) : R) <? (m_re (vg d m) : R)) then l else m) ls m0 in
    (m = m0 \/ In m ls) /\ (key (vg d m) <= key (vg d m0))%R /\ forall l, In l ls -> (key (vg d m) <= key (vg d l))%R.
  Proof.
    induction ls as [|l ls IH]; intros m0; cbn [fold_left].
    - split; [left; reflexivity|]. split; [apply Rle_refl|intros l []].
    - destruct ((m_re (vg d l) : R) <? (m_re (vg d m0) : R)) eqn:E.
      + apply Hlt in E. destruct (IH l) as [A [B C]]. cbv zeta in *. split; [destruct A as [->|A]; [right; left; reflexivity|right; right; exact A]|].
        split; [lra|]. intros l' [<-|Hl]; [exact B|apply C; exact Hl].
      + assert (N : ~ (key (vg d l) < key (vg d m0))%R) by (intros H; apply Hlt in H; congruence).
        destruct (IH m0) as [A [B C]]. cbv zeta in *. split; [destruct A as [->|A]; [left; reflexivity|right; right; exact A]|].
        split; [exact B|]. intros l' [<-|Hl]; [lra|apply C; exact Hl].
  Qed.
  Lemma argmin_spec (d : list T) k n : (k < n)%nat ->
    (k <= argmin d k n < n)%nat /\ forall l, (k <= l < n)%nat -> (key (vg d (argmin d k n)) <= key (vg d l))%R.
  Proof.
    intros Hk. destruct (argmin_fold d (range (S k) n) k) as [A [B C]]. cbv zeta in *. fold (argmin d k n) in *. split.
    - destruct A as [->|A]; [lia|]. unfold range in A. apply in_seq in A. lia.
    - intros l Hl. destruct (Nat.eq_dec l k) as [->|N]; [exact B|]. apply C. unfold range. apply in_seq. lia.
  Qed.

  (* the state after k steps: the first k entries are in order and below everything that follows *)
  Definition sorted_upto (k n : nat) (d : list T) : Prop := forall i j, (i < k)%nat -> (i <= j < n)%nat -> (key (vg d i) <= key (vg d j))%R.
  Definition col_perm (sigma : list nat) (d : list T) (v : list (list T)) (d' : list T) (v' : list (list T)) : Prop :=
    d' = map (fun i => vg d i) sigma /\ v' = map (fun row => map (fun i => nth i row Z0) sigma) v.

  Lemma map_swap_l {A B} (f : A -> B) (da : A) (db : B) (l : list A) i j : (i < length l)%nat -> (j < length l)%nat ->
    swap_l db (map f l) i j = map f (swap_l da l i j).
  Proof.
    intros Hi Hj. apply (nth_ext _ _ db (f da)); [rewrite length_swap_l, !map_length, length_swap_l; reflexivity|].
    intros x Hx. rewrite length_swap_l, map_length in Hx.
    rewrite (nth_swap_l db (map f l) i j x) by (rewrite map_length; assumption).
    rewrite (map_nth f). rewrite (nth_swap_l da l i j x Hi Hj).
    rewrite !(nth_indep (map f l) db (f da)) by (rewrite map_length; lia || assumption).
    rewrite !(map_nth f). destruct (Nat.eqb x j); [reflexivity|]. destruct (Nat.eqb x i); reflexivity.
  Qed.

  Lemma j_sort_step_unfold n (d : list T) (v : list (list T)) k :
    j_sort_step n (d, v) k = if Nat.eqb (argmin d k n) k then (d, v)
                             else (swap_l Z0 d (argmin d k n) k, map (fun row => swap_l Z0 row (argmin d k n) k) v).
  Proof. reflexivity. Qed.
  Lemma j_sort_step_spec n (d : list T) (v : list (list T)) (d0 : list T) (v0 : list (list T)) sigma k :
    (k < n)%nat -> length sigma = n -> Permutation sigma (seq 0 n) -> col_perm sigma d0 v0 d v -> sorted_upto k n d ->
    let '(d', v') := j_sort_step n (d, v) k in
    exists sigma', length sigma' = n /\ Permutation sigma' (seq 0 n) /\ col_perm sigma' d0 v0 d' v' /\ sorted_upto (S k) n d'.
  Proof.
    intros Hk Hlen Hperm [Hd Hv] Hs. rewrite j_sort_step_unfold.
    destruct (argmin_spec d k n Hk) as [Hm Hmin]. set (m := argmin d k n) in *.
    assert (Ld : length d = n) by (rewrite Hd, map_length; exact Hlen).
    destruct (Nat.eqb_spec m k) as [E|NE].
    - cbv beta iota. exists sigma. split; [exact Hlen|]. split; [exact Hperm|]. split; [split; assumption|].
      intros i j Hi Hj. destruct (Nat.eq_dec i k) as [->|Ni]; [rewrite <- E; apply Hmin; lia|apply Hs; lia].
    - cbv beta iota. exists (swap_l 0%nat sigma m k). split; [rewrite length_swap_l; exact Hlen|].
      split; [eapply Permutation_trans; [apply Permutation_upd2; lia|exact Hperm]|]. split.
      + split.
        * rewrite Hd. apply (map_swap_l (fun i => vg d0 i) 0%nat Z0 sigma m k); lia.
        * rewrite Hv. rewrite map_map. apply map_ext. intros row. apply (map_swap_l (fun i => nth i row Z0) 0%nat Z0 sigma m k); lia.
      + intros i j Hi Hj. unfold vg. rewrite !(nth_swap_l Z0 d m k) by lia.
        assert (Hsuffix : forall x, (k <= x < n)%nat -> (key (nth m d Z0) <= key (nth x d Z0))%R) by (intros x Hx; apply (Hmin x Hx)).
        destruct (Nat.eqb_spec i k) as [->|Nik].
        * (* position k now holds the minimum of the suffix *)
          destruct (Nat.eqb_spec j k) as [->|Njk]; [apply Rle_refl|].
          destruct (Nat.eqb_spec j m) as [->|Njm]; [apply Hsuffix; lia|apply Hsuffix; lia].
        * assert (Hik : (i < k)%nat) by lia.
          destruct (Nat.eqb_spec i m) as [->|Nim]; [lia|].
          destruct (Nat.eqb_spec j k) as [->|Njk]; [apply (Hs i m Hik); lia|].
          destruct (Nat.eqb_spec j m) as [->|Njm]; [apply (Hs i k Hik); lia|apply (Hs i j Hik); lia].
  Qed.

  Theorem j_sort_correct n (d : list T) (v : list (list T)) : length d = n -> List.Forall (fun row => length row = n) v ->
    let '(d', v') := j_sort n d v in
    (forall i j, (i <= j < n)%nat -> (key (vg d' i) <= key (vg d' j))%R) /\
    exists sigma, Permutation sigma (seq 0 n) /\ d' = map (fun i => vg d i) sigma /\ v' = map (fun row => map (fun i => nth i row Z0) sigma) v.
  Proof.
    intros Ld Lv. unfold j_sort.
    assert (G : forall c k0, (k0 + c = n - 1)%nat -> forall dv sigma, length sigma = n -> Permutation sigma (seq 0 n) ->
               col_perm sigma d v (fst dv) (snd dv) -> sorted_upto k0 n (fst dv) ->
               let '(d', v') := fold_left (j_sort_step n) (seq k0 c) dv in
               exists sigma', length sigma' = n /\ Permutation sigma' (seq 0 n) /\ col_perm sigma' d v d' v' /\ sorted_upto (n - 1) n d').
    { induction c as [|c IH]; intros k0 E [d1 v1] sigma Hl Hp Hc Hs; cbn [fold_left fst snd seq] in *.
      - exists sigma. replace (n - 1)%nat with k0 by lia. repeat split; try assumption; apply Hc.
      - pose proof (j_sort_step_spec n d1 v1 d v sigma k0 ltac:(lia) Hl Hp Hc Hs) as St.
        destruct (j_sort_step n (d1, v1) k0) as [d2 v2]. destruct St as [s2 [L2 [P2 [C2 S2]]]].
        apply (IH (S k0) ltac:(lia) (d2, v2) s2 L2 P2 C2 S2). }
    assert (Iseq : forall (l : list T), length l = n -> l = map (fun i => nth i l Z0) (seq 0 n)).
    { intros l Hl. apply (nth_ext _ _ Z0 Z0); [rewrite map_length, seq_length; exact Hl|]. intros x Hx. rewrite Hl in Hx.
      rewrite (nth_indep (map _ _) Z0 ((fun i => nth i l Z0) 0%nat)) by (rewrite map_length, seq_length; exact Hx).
      rewrite (map_nth (fun i => nth i l Z0)), seq_nth by exact Hx. reflexivity. }
    assert (I0 : col_perm (seq 0 n) d v d v).
    { split; [exact (Iseq d Ld)|]. rewrite <- (map_id v) at 1. apply map_ext_in. intros row Hin. rewrite Forall_forall in Lv. exact (Iseq row (Lv row Hin)). }
    assert (S0 : sorted_upto 0 n d) by (intros i j Hi; lia).
    pose proof (G (n - 1)%nat 0%nat ltac:(lia) (d, v) (seq 0 n) (seq_length n 0) (Permutation_refl _) I0 S0) as R0.
    unfold range. rewrite Nat.sub_0_r. destruct (fold_left (j_sort_step n) (seq 0 (n - 1)) (d, v)) as [d' v'].
    destruct R0 as [sigma [Ls [Ps [[Hd Hv] Hso]]]]. split; [|exists sigma; repeat split; assumption].
    intros i j Hij. destruct (Nat.eq_dec i j) as [->|N]; [apply Rle_refl|]. apply Hso; lia.
  Qed.
End Sort.

(* ---- the lengths are kept by the sweeps: the result of jacobi_eigenvalue is sorted ---- *)
Section Whole.
  Context {T : Type} {dn : DN R T}.
  Local Open Scope rs_scope.
  Hypothesis Hlt : forall a b : R, ((hltb (HLtb:=fl_ltb (FL:=dn_fl (T:=T))) a b) = true <-> (a < b)%R).
  Notation Z0 := (Overload.zero : T).
  Definition jlen (n : nat) (st : jst (T:=T)) : Prop := length (j_d st) = n /\ is_mat n (j_v st).

  Lemma is_mat_rot2 n (m : list (list T)) i1 j1 i2 j2 s tau : is_mat n m -> is_mat n (rot2 m i1 j1 i2 j2 s tau).
  Proof. intros H. unfold rot2. cbv zeta. apply is_mat_ms. apply is_mat_ms. exact H. Qed.
  Lemma fold_keep {A B} (P : A -> Prop) (f : A -> B -> A) (l : list B) : (forall a b, P a -> P (f a b)) -> forall a, P a -> P (fold_left f l a).
  Proof. intros H. induction l as [|b l IH]; intros a Ha; simpl; [exact Ha|]. apply IH. apply H. exact Ha. Qed.
  Lemma jlen_pair it n thresh st p q : jlen n st -> jlen n (j_pair it n thresh st p q).
  Proof.
    intros [Ld Lv]. unfold j_pair. cbv zeta.
    repeat match goal with |- context [if ?b then _ else _] => destruct b end; unfold jlen; cbn [j_d j_v]; (split; [rewrite ?upd_length; exact Ld|]); try exact Lv.
    all: apply (fold_keep (is_mat n)); [intros a b Ha; apply is_mat_rot2; exact Ha|exact Lv].
  Qed.
  Lemma jlen_sweep n sd it : jlen n (fst sd) -> jlen n (fst (j_sweep n sd it)).
  Proof.
    destruct sd as [st done]. intros H. unfold j_sweep. destruct done; [exact H|]. cbv zeta.
    destruct (nt_is_zero _); [exact H|]. cbn [fst].
    match goal with |- jlen n (mkJ _ _ ?bw _ _) => idtac end.
    set (st' := fold_left _ (range 0 n) st).
    assert (H' : jlen n st').
    { unfold st'. apply (fold_keep (jlen n)); [|exact H]. intros a p Ha. apply (fold_keep (jlen n)); [|exact Ha]. intros a' q Ha'. apply jlen_pair. exact Ha'. }
    split; cbn [j_d j_v]; [rewrite map_length; unfold range; rewrite seq_length; lia|apply H'].
  Qed.
  Lemma is_mat_eye n : is_mat n (eye (T:=T) n).
  Proof.
    unfold eye, range. rewrite Nat.sub_0_r. split; [rewrite map_length, seq_length; reflexivity|]. intros i Hi.
    rewrite (nth_indep _ nil ((fun i => map (fun j => if Nat.eqb i j then (Overload.one : T) else Z0) (seq 0 n)) 0%nat)) by (rewrite map_length, seq_length; exact Hi).
    rewrite (map_nth (fun i => map (fun j => if Nat.eqb i j then (Overload.one : T) else Z0) (seq 0 n))). rewrite map_length, seq_length. reflexivity.
  Qed.

  Theorem jacobi_sorted (a : list (list T)) max_iter : let n := length a in
    let '(d, v) := jacobi_eigenvalue a max_iter in forall i j, (i <= j < n)%nat -> ((m_re (vg d i) : R) <= (m_re (vg d j) : R))%R.
  Proof.
    intros n. unfold jacobi_eigenvalue. fold n. cbv zeta.
    set (st0 := mkJ a (eye n) (diag a n) (diag a n) (repeat Z0 n)).
    assert (H0 : jlen n (fst (st0, false))).
    { split; cbn [fst st0 j_d j_v]; [unfold diag, range; rewrite map_length, seq_length; lia|apply is_mat_eye]. }
    assert (HF : forall l sd, jlen n (fst sd) -> jlen n (fst (fold_left (j_sweep n) l sd))).
    { induction l as [|it l IH]; intros sd H; simpl; [exact H|]. apply IH. apply jlen_sweep. exact H. }
    specialize (HF (range 0 max_iter) (st0, false) H0).
    destruct (fold_left (j_sweep n) (range 0 max_iter) (st0, false)) as [st done]. cbn [fst] in HF. destruct HF as [Ld [Lv Rv]].
    assert (Lrows : List.Forall (fun row => length row = n) (j_v st)).
    { apply Forall_forall. intros row Hin. destruct (In_nth _ _ nil Hin) as [k [Hk <-]]. apply Rv. lia. }
    pose proof (j_sort_correct Hlt n (j_d st) (j_v st) Ld Lrows) as S.
    destruct (j_sort n (j_d st) (j_v st)) as [d v]. exact (proj1 S).
  Qed.
End Whole.

(* ---- the five scalar types over the reals ---- *)
Lemma hltb_R (a b : R) : (Rltb a b = true <-> (a < b)%R).
Proof. unfold Rltb. destruct (Rlt_dec a b); split; intros; try assumption; try reflexivity; try discriminate; contradiction. Qed.
Theorem jacobi_sorted_Dual (a : list (list (Dual R))) max_iter : let n := length a in
  let '(d, v) := jacobi_eigenvalue a max_iter in forall i j, (i <= j < n)%nat -> (Dual_f_re (vg d i) <= Dual_f_re (vg d j))%R.
Proof. exact (jacobi_sorted (T:=Dual R) hltb_R a max_iter). Qed.
Theorem jacobi_sorted_Dual2 (a : list (list (Dual2 R))) max_iter : let n := length a in
  let '(d, v) := jacobi_eigenvalue a max_iter in forall i j, (i <= j < n)%nat -> (Dual2_f_re (vg d i) <= Dual2_f_re (vg d j))%R.
Proof. exact (jacobi_sorted (T:=Dual2 R) hltb_R a max_iter). Qed.
Theorem jacobi_sorted_Dual3 (a : list (list (Dual3 R))) max_iter : let n := length a in
  let '(d, v) := jacobi_eigenvalue a max_iter in forall i j, (i <= j < n)%nat -> (Dual3_f_re (vg d i) <= Dual3_f_re (vg d j))%R.
Proof. exact (jacobi_sorted (T:=Dual3 R) hltb_R a max_iter). Qed.
Theorem jacobi_sorted_HyperDual (a : list (list (HyperDual R))) max_iter : let n := length a in
  let '(d, v) := jacobi_eigenvalue a max_iter in forall i j, (i <= j < n)%nat -> (HyperDual_f_re (vg d i) <= HyperDual_f_re (vg d j))%R.
Proof. exact (jacobi_sorted (T:=HyperDual R) hltb_R a max_iter). Qed.
Theorem jacobi_sorted_HyperHyperDual (a : list (list (HyperHyperDual R))) max_iter : let n := length a in
  let '(d, v) := jacobi_eigenvalue a max_iter in forall i j, (i <= j < n)%nat -> (HyperHyperDual_f_re (vg d i) <= HyperHyperDual_f_re (vg d j))%R.
Proof. exact (jacobi_sorted (T:=HyperHyperDual R) hltb_R a max_iter). Qed.
